#!/usr/bin/env python3
"""Regenerates MANIFEST.json from the table below (kept in one place so it is always valid)."""
import json, os
ROOT = os.path.dirname(os.path.abspath(__file__))
props = [json.loads(l) for l in open(os.path.join(ROOT, 'properties.jsonl'))]

# property -> (category, technique, text, note, design_ref)
CLAIMED = {
 'C01': ('proof', 'Lean 4 theorems over a hand-written codec model + differential correspondence with packet.py',
         'Round-trip, placeholder numbering, header adjacency and hand-back theorems are proved in Lean for all packets; '
         'the model is tied to packet.py on every run by running encode/decode of both on generated, mutated and random frames.',
         'Trusted: Lean kernel; propext/Classical.choice/Quot.sound; the correspondence harness and its generators; '
         'json.dumps/loads as compared with the Lean printer; isdigit()/int() table for non-ASCII digits.', '§5 C01'),
}

def main():
    checks = []
    for pid, (cat, tech, text, note, ref) in sorted(CLAIMED.items()):
        checks.append({
            'property_id': pid,
            'quick_cmd': './check %s --tier quick' % pid,
            'thorough_cmd': './check %s --tier thorough' % pid,
            'evidence_file': 'evidence/%s.json' % pid,
            'replay_cmd_template': './check %s --replay {path}' % pid,
            'engine': 'lean-model+correspondence',
            'level_claimed': {'category': cat, 'text': text, 'design_ref': ref},
            'level_note': note,
            'technique': tech,
        })
    na = [{'property_id': p['id'], 'reason': 'check not built yet in this revision (planned, see DESIGN.md §5/§8); no claim is made'}
          for p in props if p['id'] not in CLAIMED]
    m = {
        'version': 1,
        'setup_cmd': 'cd lean && lake build Sio siodriver',
        'hooks': {'guard': 'PYTHON_SOCKETIO_VERIF', 'enable': 'no source hooks: the harness subclasses/wraps the real classes in-process; the variable is set by ./check for completeness',
                  'baseline_off_cmd': 'cd /repo && /venv/bin/python -m pytest -ra -q -p no:cacheprovider --timeout=900 --continue-on-collection-errors',
                  'source_commits': [], 'add_only': True},
        'engines': [{'name': 'lean-model+correspondence', 'path': 'lean/ harness/',
                     'serves_properties': sorted(CLAIMED),
                     'kind_free_text': 'Lean 4 models and theorems (lean/Sio), native model driver (lean/Driver), Python correspondence harness driving the real classes (harness/)'}],
        'checks': checks,
        'not_applicable': na,
        'notes': 'All checks: ./check <id> [--tier quick|thorough] [--replay file]; VERIF_SEED seeds every generator. See DESIGN.md.',
    }
    json.dump(m, open(os.path.join(ROOT, 'MANIFEST.json'), 'w'), indent=1)
    print('claimed', sorted(CLAIMED), 'not_applicable', len(na))
main()
