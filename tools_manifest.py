#!/usr/bin/env python3
"""Regenerates MANIFEST.json from the table below (kept in one place so it is always valid)."""
import json, os
ROOT = os.path.dirname(os.path.abspath(__file__))
props = [json.loads(l) for l in open(os.path.join(ROOT, 'properties.jsonl'))]

# property -> (category, technique, text, note, design_ref)
TB = ('Trusted: Lean 4.33 kernel; axioms propext/Classical.choice/Quot.sound only (audited per theorem on every run); the '
      'hand-written model is tied to the code by the correspondence run of this check (real classes vs model on generated cases, '
      'generator coverage reported in the evidence); ')

CLAIMED = {
 'C01': ('proof', 'Lean 4 theorems over a hand-written codec model + differential correspondence with packet.py',
         'Round-trip, depth-first placeholder numbering, header adjacency, hand-back and spec-codec theorems are proved in Lean for all '
         'packets; the model is tied to packet.py on every run by running encode/decode of both on generated, mutated and random frames.',
         TB + 'json.dumps/loads as compared with the Lean printer/reader; isdigit()/int() table for non-ASCII digits.', '§5 C01'),
 'C02': ('proof', 'Lean 4 composition theorems (send/receive/handlerArgs/callResult) on top of the C01 round trip; real Client<->Server and AsyncClient<->AsyncServer in memory over 8 configurations',
         'event_e2e / ack_e2e / order / msgpack theorems for every event name, payload, namespace and id; bursts of emit/send/call in both '
         'directions on the real pairs x {default, msgpack} x {raw, base64 framing}, judged by an oracle and by the model.',
         TB + 'msgpack (C extension) round trip as a hypothesis exercised on every frame; protocol-reserved key "_placeholder" is outside the domain (inherited from C01, witness proved and executed).', '§5 C02'),
 'C03': ('proof', 'Lean 4 refinement + invariant theorems over a relation model of the rooms; correspondence with Manager/AsyncManager inside real servers',
         'Exact-recipient-set, no-duplicate, refinement-to-spec and after-leave theorems hold for every finite history; histories are run '
         'on real Server+Manager and AsyncServer+AsyncManager, on the model and on a dict-of-sets oracle.',
         TB + 'bidict semantics; engine.io generate_id never repeats.', '§5 C03'),
 'C04': ('proof', 'Lean 4 invariants over the server-core model (histories) and the scheduler model (asyncio interleavings, incl. a CONNECT whose handler refuses while terminating causes arrive); correspondence with Server/AsyncServer over real engine.io cores',
         'Connect/refuse/duplicate/disconnect-once clauses as theorems over arbitrary histories of the server model; every scenario is '
         'executed on both real server families and the model, and judged by an independent wire-level oracle.',
         TB + 'engine.io contract (sequential delivery per transport, exception containment, fresh ids).', '§5 C04'),
 'C05': ('proof', 'Lean 4 theorems over the server-core model; correspondence with Server/AsyncServer',
         'One invocation / one ACK to the sender only / reassembly / arrival order as theorems about Server.step; scenarios with several '
         'clients, ids colliding across clients, binary arguments and all handler kinds run on both families and the model.',
         TB + 'engine.io contract.', '§5 C05'),
 'C06': ('proof', 'Lean 4 invariants over the server-core model; correspondence with Server/AsyncServer incl. scripted call() waits',
         'Id uniqueness, callback-only-on-matching-ack, foreign/duplicate ACK inert, none-after-disconnect, call() result as theorems; '
         'adversarial ACK streams on both families and the model.',
         TB + 'call(): the wait primitive is scripted.', '§5 C06'),
 'C07': ('proof', 'Lean 4 simulation (cluster vs single server) and any-schedule theorems over a pub/sub cluster model; 2-4 real servers on an in-memory channel vs one real server and vs the model',
         'sync_equiv (per-client packets AND all application events incl. callback invocations, all placements/hosts, via the Linked invariant), at_most_once, eligible, unraced_exact, callback_once (any schedule), remote-ops-local-effect as theorems; '
         'mode A (drain after each op) compared with one real Server holding all clients, mode B (arbitrary consumption) with the model and the at-most-once/eligibility oracles.',
         TB + 'sync_equiv hypotheses (decidable, inside the property quantifier): fresh session ids, a callback emit addresses one client by its own personal room (the documented restriction; the aliasing counter-example is proved and reproduced on the real servers); ack ids abstracted in the per-client view; pickle; FIFO channel.', '§5 C07'),
 'C08': ('proof', 'Lean 4 simulation/invariant theorems over a client model and a server-view spec; correspondence with Client/AsyncClient over a scripted engine.io client',
         'connect_sends, wait_all (incl. failed-connect-clean), mirror, bad_namespace, connect/disconnect-once, reset as theorems over arbitrary '
         'histories (the connect-window regions are known findings with decide-witnesses); histories incl. loss mid-binary-packet run on both client families and the model.',
         TB + 'engine.io client contract (state during notifications); messages delivered inline.', '§5 C08'),
 'C09': ('proof', 'Lean 4 theorems over the client model; correspondence with Client/AsyncClient',
         'invoke_once, unconditional ACK, id uniqueness per namespace, callback at most once / only for the matching ACK, unknown ACK inert '
         '(id 0 included), call() result as theorems; adversarial EVENT/ACK streams on both client families and the model.',
         TB + 'engine.io client contract.', '§5 C09'),
 'C10': ('proof', 'Lean 4 theorems over an exact-rational model of the reconnection loop and its start decision; correspondence with Client/AsyncClient over scripted engine.io outcomes and wait primitives',
         'Back-off formula, attempt bound, first-success stop, abort, same-parameters (stored parameters kept while namespaces come and go: stored_kept, lose_same_parameters) and start-decision theorems for unbounded efforts; every '
         'failure pattern up to length 6 and the full parameter grid executed on both client families, waits observed through the wait primitives.',
         TB + 'engine.io client state contract (measured every run); dyadic parameter grid so floats are exact.', '§5 C10'),
 'C11': ('proof', 'Lean 4 erase/fresh theorems over the server-core model; correspondence under fault scripts; model-free object-graph probe',
         'After transport loss nothing in the model state mentions the transport (theorem, any prefix history, any handler raising); the '
         'real servers are searched for references after every loss and their object graph is walked after 1/10/100 come-and-go clients.',
         TB + 'memory = reachable object graph (allocator not modelled; labelled partial in DESIGN).', '§5 C11'),
 'C12': ('proof', 'Lean 4 unwinding/confinement theorems over the server-core model, parametric in the decoder; correspondence on hostile streams; two-run noninterference oracle on the real servers',
         'step_confined / undecodable_inert / bounded_reserve as theorems for every decoder result; hostile frame streams from one '
         'transport interleaved with bystanders run on both families and the model, and each scenario re-run without the offender.',
         TB + 'handlers passive; allocation probed with tracemalloc; default and msgpack serializers.', '§5 C12'),
 'C13': ('proof', 'Lean 4 theorems over arbitrary registries + reserved lists regenerated from source; exhaustive correspondence with the four real classes',
         'The precedence table is a theorem for every registry; reserved-event lists are regenerated from the source on every run; all '
         '2^6 x variants configurations are executed on Server/AsyncServer/Client/AsyncClient.',
         TB + 'the ast translator of reserved_events (validated dynamically).', '§5 C13'),
 'C14': ('translation_validation', 'double correspondence: the same scenarios on the threaded class, the asyncio class and one Lean model, plus direct trace diff; Lean theorems over the regenerated helper tables and reserved lists',
         'Parity is the statement that both families refine the same deterministic model; every scenario is run on Server, AsyncServer and '
         'the model and the two implementation traces are diffed; forwarding tables / reserved lists of the two families are proved equal.',
         'Trusted: the scenario generators bound what is seen; handlers inline or background handlers joined; Lean kernel for the table theorems.', '§5 C14'),
 'C15': ('proof', 'Lean 4 fold/containment theorems over a listener model parametric in the decoding result; the real _thread() driven synchronously over garbage streams; Redis retry loops with a fake redis module',
         'never_dies, continues (fold law), error_is_noop, no_self_apply, foreign_callback_inert, backoff as theorems; garbage interleaved with valid messages '
         'on PubSubManager and AsyncPubSubManager, every valid message after the garbage must have its full effect.',
         TB + 'which builtin raises which exception class; BaseExceptions end the listener by design.', '§5 C15'),
 'C16': ('proof', 'Lean 4 theorems over the session part of the server-core model; correspondence with Server/AsyncServer',
         'read-your-write, privacy across clients and namespaces, context manager = get;set;save as theorems; fresh-session clause is '
         'false on the unchanged tree (known finding, negation witness proved) and proved under the explicit hypothesis.',
         TB + 'engine.io session dict lives as long as the socket.', '§5 C16'),
 'C17': ('proof', 'Lean 4 theorems over a forwarding table regenerated from the source by an ast translator; exhaustive execution of every helper on recording stubs',
         'Faithful-forwarding is decided by `decide` over the regenerated table and lifted to every environment by eval_faithful; the '
         'translator is validated by executing each helper for every subset of optional arguments.',
         TB + 'the ast translator (validated dynamically on every run).', '§5 C17'),
 'C18': ('proof', 'Lean 4 theorems: admission gate with Python == on JSON values, read-only registry + frame lemma over the server model; an Instrumented-server model (Server.step + reports on the admin namespace) with a transparency theorem, tied to the real instrumented server; side-by-side instrumented/plain real servers',
         'admits_iff / pyEq key-set theorems / read-only inertness over Server.step as theorems; real admin_connect on generated payloads; '
         'wrappers_transparent_partial: for every history the application projection of the instrumented run equals the plain run (up to counter skips); '
         'instrumented and plain servers run the same scenarios, application-visible observations are diffed, and the Instrumented model is compared with the real instrumented server.',
         TB + 'wrappers_transparent_partial excludes namespaces="*" servers, blocking call() inside the history and a queued admin EVENT literally named connect (explicit decidable hypotheses); report contents and mutator effects of the model are not tied to the code (only their absence from application namespaces is claimed).', '§5 C18'),
 'C19': ('proof', 'Lean 4 invariants over ALL interleavings of a statement-level model of SimpleClient/AsyncSimpleClient; exhaustive/sampled schedules of the real classes under a deterministic scheduler',
         'fifo_once, no_lost_wakeup, timeout/disconnected clauses, emit_waits, deadlock characterisation as theorems for every schedule; '
         'the real classes run under a deterministic scheduler with pre-emption at every Event/buffer access and are compared with the model token by token.',
         TB + 'each shared access atomic; single producer; CPython>=3.12 wait_for semantics; one receive() re-test defect is a known finding (the other was repaired in 88dccd8 and its theorem is now at full strength).', '§5 C19'),
 'C20': ('proof', 'Lean 4: serial-gate theorem for all schedules of the scheduler model + machine-checked race counter-examples; exhaustive interleavings of the real threaded Server under a deterministic scheduler',
         'gate_serial_partial (terminating causes and refusing CONNECTs) for every schedule without overlapping check..mark windows; race_double_call / race_raise_residue decided; '
         'all interleavings of 2 (quick) / 3 (thorough) terminating actions at manager/transport-call granularity on the real Server, each mapped to the model.',
         TB + 'pre-emption at method-call granularity on manager/transport, not bytecode; the overlapping-window region is the known finding gate-overlap.', '§5 C20'),
}

def main():
    checks = []
    for pid, (cat, tech, text, note, ref) in sorted(CLAIMED.items()):
        checks.append({
            'property_id': pid,
            'quick_cmd': './check %s --tier quick' % pid,
            'thorough_cmd': './check %s --tier thorough' % pid,
            'evidence_file': 'evidence/%s.json' % pid,
            'replay_cmd_template': './check %s --replay {path}' % pid,
            'engine': 'lean-model+correspondence',
            'level_claimed': {'category': cat, 'text': text, 'design_ref': ref},
            'level_note': note,
            'technique': tech,
        })
    na = [{'property_id': p['id'], 'reason': 'check not built yet in this revision (planned, see DESIGN.md §5/§8); no claim is made'}
          for p in props if p['id'] not in CLAIMED]
    m = {
        'version': 1,
        'setup_cmd': 'bin/setup',
        'hooks': {'guard': 'PYTHON_SOCKETIO_VERIF', 'enable': 'no source hooks: the harness subclasses/wraps the real classes in-process; the variable is set by ./check for completeness',
                  'baseline_off_cmd': 'cd /repo && /venv/bin/python -m pytest -ra -q -p no:cacheprovider --timeout=900 --continue-on-collection-errors',
                  'source_commits': [], 'add_only': True},
        'engines': [{'name': 'lean-model+correspondence', 'path': 'lean/ harness/',
                     'serves_properties': sorted(CLAIMED),
                     'kind_free_text': 'Lean 4 models and theorems (lean/Sio), native model driver (lean/Driver), Python correspondence harness driving the real classes (harness/)'}],
        'checks': checks,
        'not_applicable': na,
        'notes': 'All checks: ./check <id> [--tier quick|thorough] [--replay file]; VERIF_SEED seeds every generator. See DESIGN.md.',
    }
    json.dump(m, open(os.path.join(ROOT, 'MANIFEST.json'), 'w'), indent=1)
    print('claimed', sorted(CLAIMED), 'not_applicable', len(na))
main()
