import Driver.Wire
import Sio.Model.Admin
open Lean (Json)
namespace Sio.KAdmin
open Sio.Wire Sio.Admin

/-
  Ops (one JSON object per line):
    {"op":"pyeq","a":J,"b":J}                               -> {"eq":bool}
    {"op":"admits","auth":AUTH,"payload":{"some":J}|{"none":true}}
        AUTH = {"missing":true} | {"val":J} | {"pred":PRED}
        PRED = "isNull" | "truthy" | {"const":b} | {"eq":J} | {"hasKey":[k,J]} | {"getKey":k}
             | {"not":PRED} | {"or":[PRED,PRED]}
        -> {"configure":"disabled|dict|list|pred"|{"exc":..}, "arg":J, "connect":bool|{"exc":..},
            "admits":bool|null, "spec":bool|null}
       `connect` is the line-by-line transcription `adminConnect`, `admits` the gate on the
       classified configuration, `spec` the right-hand side of theorem `C18.admits_iff` evaluated
       directly; `arg` is what the handler receives for this payload (`present`).
    {"op":"registry","mode":[cp],"read_only":bool}           -> {"registered":[[cp]],"wrapped":[str]}
    {"op":"resolve","mode":[cp],"read_only":bool,"admin_ns":[cp],"ns":[cp],"ev":J,"args":[J],
     "fn":[[ns,ev]],"cls":[[ns,[method]]]}
        -> what `Sio.Server.resolve` yields for the event in the registry after instrument()
-/

partial def predOfJson (j : Json) : Except String Pred :=
  match j with
  | Json.str "isNull" => pure .isNull
  | Json.str "truthy" => pure .truthy
  | _ =>
    match j.getObjVal? "const" with
    | .ok v => do let b ← v.getBool?; pure (.const b)
    | .error _ =>
    match j.getObjVal? "eq" with
    | .ok v => do let x ← jOfJson v; pure (.eq x)
    | .error _ =>
    match j.getObjVal? "hasKey" with
    | .ok v => do
      let a ← v.getArr?
      match a.toList with
      | [k, x] => do let ks ← strOfJson k; let xv ← jOfJson x; pure (.hasKey ks xv)
      | _ => throw "bad hasKey"
    | .error _ =>
    match j.getObjVal? "getKey" with
    | .ok v => do let ks ← strOfJson v; pure (.getKey ks)
    | .error _ =>
    match j.getObjVal? "not" with
    | .ok v => do let p ← predOfJson v; pure (.not p)
    | .error _ =>
    match j.getObjVal? "or" with
    | .ok v => do
      let a ← v.getArr?
      match a.toList with
      | [p, q] => do let pp ← predOfJson p; let qq ← predOfJson q; pure (.or pp qq)
      | _ => throw "bad or"
    | .error _ => throw "bad predicate"

def authOfJson (j : Json) : Except String AuthArg :=
  match j.getObjVal? "val" with
  | .ok v => do let x ← jOfJson v; pure (.val x)
  | .error _ =>
  match j.getObjVal? "pred" with
  | .ok v => do let p ← predOfJson v; pure (.fn p.eval)
  | .error _ => pure .missing

def cfgName : AuthCfg → String
  | .disabled => "disabled" | .dict _ => "dict" | .list _ => "list" | .pred _ => "pred"

/-- the right-hand side of `C18.admits_iff`, computed without `admits` -/
def spec : AuthCfg → J → Bool
  | .disabled, _ => true
  | .dict d, a => pyEq a (.obj d)
  | .list ds, a => ds.any (fun d => pyEq a d)
  | .pred p, a => p a

def strListOfJson (j : Json) : Except String (List Str) := do
  let a ← j.getArr?
  a.toList.mapM strOfJson

def resolvedToJson : Server.Resolved → Json
  | .fn (.fn ns ev) args => Json.mkObj [("fn", Json.arr #[strToJson ns, strToJson ev]),
      ("args", Json.arr (args.map jToJson).toArray)]
  | .fn (.cls ns m) args | .clsCall (.cls ns m) args =>
      Json.mkObj [("cls", Json.arr #[strToJson ns, strToJson m]),
                  ("args", Json.arr (args.map jToJson).toArray)]
  | .clsCall (.fn ns ev) args => Json.mkObj [("fn", Json.arr #[strToJson ns, strToJson ev]),
      ("args", Json.arr (args.map jToJson).toArray)]
  | .clsNoMethod => Json.mkObj [("clsNoMethod", Json.bool true)]
  | .notHandled => Json.mkObj [("notHandled", Json.bool true)]

def step (_ : Unit) (j : Json) : Except String (Unit × Json) := do
  let op ← (← j.getObjVal? "op").getStr?
  if op == "pyeq" then
    let a ← jOfJson (← j.getObjVal? "a")
    let b ← jOfJson (← j.getObjVal? "b")
    pure ((), Json.mkObj [("eq", Json.bool (pyEq a b))])
  else if op == "admits" then
    let auth ← authOfJson (← j.getObjVal? "auth")
    let payload ← optJOfJson (← j.getObjVal? "payload")
    let arg := present payload
    let conn : Json := match adminConnect auth arg with
      | .ok b => Json.bool b
      | .error e => excJson e
    let (cfgJ, admJ, specJ) : Json × Json × Json := match configure auth with
      | .ok c => (Json.str (cfgName c), Json.bool (admits c arg), Json.bool (spec c arg))
      | .error e => (excJson e, Json.null, Json.null)
    pure ((), Json.mkObj [("configure", cfgJ), ("arg", jToJson arg), ("connect", conn),
                          ("admits", admJ), ("spec", specJ)])
  else if op == "registry" then
    let mode ← strOfJson (← j.getObjVal? "mode")
    let ro ← (← j.getObjVal? "read_only").getBool?
    pure ((), Json.mkObj [("registered", Json.arr ((registered mode ro).map strToJson).toArray),
                          ("wrapped", Json.arr ((wrapped mode).map Json.str).toArray)])
  else if op == "resolve" then
    let mode ← strOfJson (← j.getObjVal? "mode")
    let ro ← (← j.getObjVal? "read_only").getBool?
    let adminNs ← strOfJson (← j.getObjVal? "admin_ns")
    let ns ← strOfJson (← j.getObjVal? "ns")
    let ev ← jOfJson (← j.getObjVal? "ev")
    let args ← (← (← j.getObjVal? "args").getArr?).toList.mapM jOfJson
    let fnA ← (← j.getObjVal? "fn").getArr?
    let fns ← fnA.toList.mapM (fun e => do
      let l ← strListOfJson e
      match l with
      | [n, e] => pure (n, e)
      | _ => throw "bad fn entry")
    let clsA ← (← j.getObjVal? "cls").getArr?
    let clss ← clsA.toList.mapM (fun e => do
      let p ← e.getArr?
      match p.toList with
      | [n, ms] => do let nn ← strOfJson n; let m ← strListOfJson ms; pure (nn, m)
      | _ => throw "bad cls entry")
    let app : Server.Registry :=
      { fn := fun n e => fns.contains (n, e),
        fnNs := fun n => fns.any (fun p => p.1 = n),
        cls := fun n => clss.any (fun p => p.1 = n),
        clsMethod := fun n m => clss.any (fun p => p.1 = n ∧ p.2.contains m) }
    let reg := instrumentReg app adminNs mode ro
    match Server.resolve reg ns ev args with
    | .ok r => pure ((), resolvedToJson r)
    | .error e => pure ((), excJson e)
  else throw s!"unknown op {op}"

def main : IO Unit := lineLoop () step

end Sio.KAdmin
