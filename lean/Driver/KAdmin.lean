import Driver.Wire
import Driver.KServer
import Sio.Model.Admin
open Lean (Json)
namespace Sio.KAdmin
open Sio.Wire Sio.Admin

/-
  Ops (one JSON object per line):
    {"op":"pyeq","a":J,"b":J}                               -> {"eq":bool}
    {"op":"admits","auth":AUTH,"payload":{"some":J}|{"none":true}}
        AUTH = {"missing":true} | {"val":J} | {"pred":PRED}
        PRED = "isNull" | "truthy" | {"const":b} | {"eq":J} | {"hasKey":[k,J]} | {"getKey":k}
             | {"not":PRED} | {"or":[PRED,PRED]}
        -> {"configure":"disabled|dict|list|pred"|{"exc":..}, "arg":J, "connect":bool|{"exc":..},
            "admits":bool|null, "spec":bool|null}
       `connect` is the line-by-line transcription `adminConnect`, `admits` the gate on the
       classified configuration, `spec` the right-hand side of theorem `C18.admits_iff` evaluated
       directly; `arg` is what the handler receives for this payload (`present`).
    {"op":"registry","mode":[cp],"read_only":bool}           -> {"registered":[[cp]],"wrapped":[str]}
    {"op":"resolve","mode":[cp],"read_only":bool,"admin_ns":[cp],"ns":[cp],"ev":J,"args":[J],
     "fn":[[ns,ev]],"cls":[[ns,[method]]]}
        -> what `Sio.Server.resolve` yields for the event in the registry after instrument()
    {"op":"inst_cfg","cfg":CFG,"admin_ns":[cp],"mode":[cp],"read_only":bool,"auth":AUTH}
        (CFG as for `siodriver server`; its scripts are the APPLICATION's handlers' outcomes)
        -> resets the instrumented server model (`Sio.Admin.Instrumented`) to its initial state.
        When a CONNECT for the admin namespace is about to reach `admin_connect`, that handler's
        outcome — `connectOutcome` of the gate for AUTH on the packet's payload — is spliced into
        the connect script at the current position (the application's outcomes keep their order).
    {"op":"inst_step","input":INPUT}                                            (INPUT as for `siodriver server`)
        -> one `Instrumented.step` (reports transcribed from admin.py, abstract payloads):
           {"outs":[OUT] = `appView` of the step's outputs (what the application side observes),
            "hidden":n = outputs on the admin namespace / contained exceptions, "quiet":bool = `quietStep`,
            "contained_raised":bool, "admins":[transports with a session on the admin namespace]}
    {"op":"inst_snapshot"} -> rooms / callbacks / counters of `appState`
-/

partial def predOfJson (j : Json) : Except String Pred :=
  match j with
  | Json.str "isNull" => pure .isNull
  | Json.str "truthy" => pure .truthy
  | _ =>
    match j.getObjVal? "const" with
    | .ok v => do let b ← v.getBool?; pure (.const b)
    | .error _ =>
    match j.getObjVal? "eq" with
    | .ok v => do let x ← jOfJson v; pure (.eq x)
    | .error _ =>
    match j.getObjVal? "hasKey" with
    | .ok v => do
      let a ← v.getArr?
      match a.toList with
      | [k, x] => do let ks ← strOfJson k; let xv ← jOfJson x; pure (.hasKey ks xv)
      | _ => throw "bad hasKey"
    | .error _ =>
    match j.getObjVal? "getKey" with
    | .ok v => do let ks ← strOfJson v; pure (.getKey ks)
    | .error _ =>
    match j.getObjVal? "not" with
    | .ok v => do let p ← predOfJson v; pure (.not p)
    | .error _ =>
    match j.getObjVal? "or" with
    | .ok v => do
      let a ← v.getArr?
      match a.toList with
      | [p, q] => do let pp ← predOfJson p; let qq ← predOfJson q; pure (.or pp qq)
      | _ => throw "bad or"
    | .error _ => throw "bad predicate"

def authOfJson (j : Json) : Except String AuthArg :=
  match j.getObjVal? "val" with
  | .ok v => do let x ← jOfJson v; pure (.val x)
  | .error _ =>
  match j.getObjVal? "pred" with
  | .ok v => do let p ← predOfJson v; pure (.fn p.eval)
  | .error _ => pure .missing

def cfgName : AuthCfg → String
  | .disabled => "disabled" | .dict _ => "dict" | .list _ => "list" | .pred _ => "pred"

/-- the right-hand side of `C18.admits_iff`, computed without `admits` -/
def spec : AuthCfg → J → Bool
  | .disabled, _ => true
  | .dict d, a => pyEq a (.obj d)
  | .list ds, a => ds.any (fun d => pyEq a d)
  | .pred p, a => p a

def strListOfJson (j : Json) : Except String (List Str) := do
  let a ← j.getArr?
  a.toList.mapM strOfJson

def resolvedToJson : Server.Resolved → Json
  | .fn (.fn ns ev) args => Json.mkObj [("fn", Json.arr #[strToJson ns, strToJson ev]),
      ("args", Json.arr (args.map jToJson).toArray)]
  | .fn (.cls ns m) args | .clsCall (.cls ns m) args =>
      Json.mkObj [("cls", Json.arr #[strToJson ns, strToJson m]),
                  ("args", Json.arr (args.map jToJson).toArray)]
  | .clsCall (.fn ns ev) args => Json.mkObj [("fn", Json.arr #[strToJson ns, strToJson ev]),
      ("args", Json.arr (args.map jToJson).toArray)]
  | .clsNoMethod => Json.mkObj [("clsNoMethod", Json.bool true)]
  | .notHandled => Json.mkObj [("notHandled", Json.bool true)]

/-- the instrumented server model between two lines -/
structure AState where
  cfg : Server.Cfg := KServer.defaultCfg
  adminNs : Rooms.Ns := "/admin".toList
  mode : Str := development
  ro : Bool := false
  auth : AuthArg := .val (.bool false)
  srv : Server.Srv := {}

/-- splice `o` into the connect script at position `k` -/
def spliceConnect (c : Server.Cfg) (k : Nat) (o : Server.ConnRes) : Server.Cfg :=
  let old := c.script.onConnect
  { c with script := { c.script with
      onConnect := fun n => if n < k then old n else if n = k then o else old (n - 1) } }

/-- the abstract content of the reports (never compared: only its absence from application
    namespaces is) -/
def payloads : Payloads :=
  { stamp := .str "t".toList,
    socket := fun sid ns => .obj [("id".toList, .str sid), ("nsp".toList, .str ns)],
    features := .obj [],
    stats := fun _ _ => none }

def step (st : AState) (j : Json) : Except String (AState × Json) := do
  let op ← (← j.getObjVal? "op").getStr?
  if op == "inst_cfg" then
    let cfg ← KServer.cfgOfJson (← j.getObjVal? "cfg")
    let a ← strOfJson (← j.getObjVal? "admin_ns")
    let mode ← strOfJson (← j.getObjVal? "mode")
    let ro ← (← j.getObjVal? "read_only").getBool?
    let auth ← authOfJson (← j.getObjVal? "auth")
    pure ({ cfg := cfg, adminNs := a, mode := mode, ro := ro, auth := auth, srv := {} },
      Json.mkObj [("ok", Json.bool true)])
  else if op == "inst_step" then
    let (inp, table) ← KServer.inputOfJson (← j.getObjVal? "input")
    let dec : Str → Except Err (Packet × Nat) := fun s =>
      match table.find? (fun p => p.1 == s) with
      | some p => p.2
      | none => .error .other
    -- an admin CONNECT that will reach its handler: `admin_connect` decides, not the application
    let cfg : Server.Cfg := match inp with
      | .frame t v =>
        match arriving dec st.srv t v with
        | some p =>
          if p.type = CONNECT ∧ p.nsp.getD ['/'] = st.adminNs ∧
              Rooms.sidOf st.srv.rooms st.adminNs t = none ∧ st.srv.environ.contains t then
            match configure st.auth with
            | .ok acfg => spliceConnect st.cfg st.srv.nConn (connectOutcome acfg p.data)
            | .error _ => st.cfg
          else st.cfg
        | none => st.cfg
      | _ => st.cfg
    let st := { st with cfg := cfg }
    let ci := Instrumented.cfg st.cfg st.adminNs st.mode st.ro
    let quiet := Instrumented.quietStep st.cfg st.adminNs st.mode st.ro st.srv inp
      (Server.step dec ci st.srv inp).2
    let (srv, outs) := Instrumented.step dec st.cfg st.adminNs st.mode st.ro payloads st.srv inp
    let app := appView st.adminNs inp outs
    pure ({ st with srv := srv },
      Json.mkObj [("outs", Json.arr (app.map KServer.outToJson).toArray),
                  ("hidden", Json.num (outs.length - app.length)), ("quiet", Json.bool quiet),
                  -- exceptions contained while this input was processed (not part of `appView`; the
                  -- harness compares them for application frames all the same)
                  ("contained_raised", Json.bool (contained inp && outs.any (fun o => match o with
                    | .raised _ => true | _ => false))),
                  ("admins", Json.arr ((srv.rooms.filter (fun e => e.ns = st.adminNs ∧ e.room = none)).map
                    (fun e => strToJson e.eio)).toArray)])
  else if op == "inst_snapshot" then
    let s := appState st.adminNs st.srv
    pure (st, Json.mkObj [
      ("rooms", Json.arr (s.rooms.map (fun e => Json.arr #[strToJson e.ns, optStrToJson e.room,
        strToJson e.sid, strToJson e.eio])).toArray),
      ("cbs", Json.arr (s.cbs.map (fun c => Json.arr #[strToJson c.1, Json.num c.2.1])).toArray),
      ("environ", Json.arr (s.environ.map strToJson).toArray),
      ("binbuf", Json.arr (s.binbuf.map (fun e => strToJson e.1)).toArray),
      ("bg", Json.num s.bg.length),
      ("adminRooms", Json.num (st.srv.rooms.length - s.rooms.length))])
  else if op == "pyeq" then
    let a ← jOfJson (← j.getObjVal? "a")
    let b ← jOfJson (← j.getObjVal? "b")
    pure (st, Json.mkObj [("eq", Json.bool (pyEq a b))])
  else if op == "admits" then
    let auth ← authOfJson (← j.getObjVal? "auth")
    let payload ← optJOfJson (← j.getObjVal? "payload")
    let arg := present payload
    let conn : Json := match adminConnect auth arg with
      | .ok b => Json.bool b
      | .error e => excJson e
    let (cfgJ, admJ, specJ) : Json × Json × Json := match configure auth with
      | .ok c => (Json.str (cfgName c), Json.bool (admits c arg), Json.bool (spec c arg))
      | .error e => (excJson e, Json.null, Json.null)
    pure (st, Json.mkObj [("configure", cfgJ), ("arg", jToJson arg), ("connect", conn),
                          ("admits", admJ), ("spec", specJ)])
  else if op == "registry" then
    let mode ← strOfJson (← j.getObjVal? "mode")
    let ro ← (← j.getObjVal? "read_only").getBool?
    pure (st, Json.mkObj [("registered", Json.arr ((registered mode ro).map strToJson).toArray),
                          ("wrapped", Json.arr ((wrapped mode).map Json.str).toArray)])
  else if op == "resolve" then
    let mode ← strOfJson (← j.getObjVal? "mode")
    let ro ← (← j.getObjVal? "read_only").getBool?
    let adminNs ← strOfJson (← j.getObjVal? "admin_ns")
    let ns ← strOfJson (← j.getObjVal? "ns")
    let ev ← jOfJson (← j.getObjVal? "ev")
    let args ← (← (← j.getObjVal? "args").getArr?).toList.mapM jOfJson
    let fnA ← (← j.getObjVal? "fn").getArr?
    let fns ← fnA.toList.mapM (fun e => do
      let l ← strListOfJson e
      match l with
      | [n, e] => pure (n, e)
      | _ => throw "bad fn entry")
    let clsA ← (← j.getObjVal? "cls").getArr?
    let clss ← clsA.toList.mapM (fun e => do
      let p ← e.getArr?
      match p.toList with
      | [n, ms] => do let nn ← strOfJson n; let m ← strListOfJson ms; pure (nn, m)
      | _ => throw "bad cls entry")
    let app : Server.Registry :=
      { fn := fun n e => fns.contains (n, e),
        fnNs := fun n => fns.any (fun p => p.1 = n),
        cls := fun n => clss.any (fun p => p.1 = n),
        clsMethod := fun n m => clss.any (fun p => p.1 = n ∧ p.2.contains m) }
    let reg := instrumentReg app adminNs mode ro
    match Server.resolve reg ns ev args with
    | .ok r => pure (st, resolvedToJson r)
    | .error e => pure (st, excJson e)
  else throw s!"unknown op {op}"

def main : IO Unit := lineLoop ({} : AState) step

end Sio.KAdmin
