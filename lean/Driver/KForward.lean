import Driver.Wire
import Sio.Model.Forward
import Sio.Generated.Forward
open Lean (Json)
namespace Sio.KForward
open Sio.Wire Sio.Forward

/-
  Ops (values are opaque tokens = natural numbers chosen by the harness):
    {"op":"rows"}
       -> the regenerated table: class, helper, parameters, target, faithful?
    {"op":"eval","cls":[cp],"helper":[cp],"val":[[param,[token]]…],"selfNs":token,
     "truthy":[token…],"const":[[src,token]…]}
       -> {"faithful":bool,"eval":call|null,"expected":call|null}
       call = {"obj","method","args":[[targetParam,token]…],"resultPassedBack":bool}
-/

def paramsToJson (ps : List Param) : Json :=
  Json.arr (ps.map (fun p => Json.arr #[strToJson p.name, Json.bool p.hasDefault])).toArray

def exprToJson : Expr → Json
  | .param p => Json.mkObj [("param", strToJson p)]
  | .nsOrSelf => Json.mkObj [("nsOrSelf", Json.bool true)]
  | .const c => Json.mkObj [("const", strToJson c)]
  | .opaque s => Json.mkObj [("opaque", strToJson s)]

def binderToJson : Binder → Json
  | .pos i => Json.mkObj [("pos", Json.num i)]
  | .kw n => Json.mkObj [("kw", strToJson n)]
  | .starArgs => Json.str "*"
  | .starKwargs => Json.str "**"

def rowToJson (r : Row) : Json :=
  Json.mkObj [("cls", strToJson r.cls), ("helper", strToJson r.helper), ("isAsync", Json.bool r.isAsync),
    ("params", paramsToJson r.params), ("exotic", Json.bool r.exotic), ("bodyOk", Json.bool r.bodyOk),
    ("returned", Json.bool r.returned), ("awaited", Json.bool r.awaited),
    ("targetObj", strToJson r.targetObj), ("targetMethod", strToJson r.targetMethod),
    ("targetFound", Json.bool r.targetFound), ("targetAsync", Json.bool r.targetAsync),
    ("targetParams", paramsToJson r.targetParams), ("targetExotic", Json.bool r.targetExotic),
    ("call", Json.arr (r.call.map (fun be => Json.arr #[binderToJson be.1, exprToJson be.2])).toArray),
    ("faithful", Json.bool (Faithful r))]

def callToJson : Option (Call Nat) → Json
  | none => Json.null
  | some c => Json.mkObj [("obj", strToJson c.obj), ("method", strToJson c.method),
      ("args", Json.arr (c.args.map (fun a => Json.arr #[strToJson a.1, Json.num a.2])).toArray),
      ("resultPassedBack", Json.bool c.resultPassedBack)]

def tokPairs (j : Json) : Except String (List (Str × Nat)) := do
  let a ← j.getArr?
  a.toList.mapM (fun e => do
    let p ← e.getArr?
    match p.toList with
    | [k, v] => do let ks ← strOfJson k; let n ← v.getNat?; pure (ks, n)
    | _ => throw "bad pair")

def step (_ : Unit) (j : Json) : Except String (Unit × Json) := do
  let op ← (← j.getObjVal? "op").getStr?
  if op == "rows" then
    pure ((), Json.arr (Generated.forwardTable.map rowToJson).toArray)
  else if op == "eval" then
    let cls ← strOfJson (← j.getObjVal? "cls")
    let helper ← strOfJson (← j.getObjVal? "helper")
    let vals ← tokPairs (← j.getObjVal? "val")
    let consts ← tokPairs (← j.getObjVal? "const")
    let selfNs ← (← j.getObjVal? "selfNs").getNat?
    let truthy ← (← (← j.getObjVal? "truthy").getArr?).toList.mapM (fun x => x.getNat?)
    match Generated.forwardTable.find? (fun r => r.cls == cls && r.helper == helper) with
    | none => throw "no such row"
    | some r =>
      let env : Env Nat := {
        val := fun p => (assoc p vals).getD 0
        selfNs := selfNs
        truthy := fun t => truthy.contains t
        const := fun c => (assoc c consts).getD 0 }
      pure ((), Json.mkObj [("faithful", Json.bool (Faithful r)), ("eval", callToJson (eval r env)),
        ("expected", callToJson (expected r env))])
  else throw s!"unknown op {op}"

def main : IO Unit := lineLoop () step

end Sio.KForward
