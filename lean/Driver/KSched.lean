import Driver.Wire
import Sio.Model.Sched
open Lean (Json)
namespace Sio.KSched
open Sio.Wire
open Sio.Sched

/-
  Line protocol of `sd_sched` (`siodriver sched`).

  in : {"tasks": [{"kind": "api"|"clientDisc"|"lost"|"conn"|"refuse", "ns": [n, …]}, …],
        "conn": [n, …]      namespaces (numbers) on which the sid is connected at the start,
        "others": [n, …]    namespaces kept alive by other clients,
        "sched": [i, …]     task indices,
        "atomic": bool}     true = asyncio (check+mark one step), false = threads
  out: {"calls":   [[n, [kind, …]], …]   disconnect-handler invocations per namespace, oldest first,
        "raised":  [i, …]                tasks that ended with an exception,
        "contained": k                   exceptions swallowed by _handle_eio_disconnect,
        "residue": [[n, mem, pend], …]   what is left in rooms / pending_disconnect,
        "sends":   [[n, k], …],
        "refusals": [[n, k], …]          refusals (CONNECT_ERROR / refusing DISCONNECT) sent by refusing CONNECTs,
        "marks":   [[n, [kind, …]], …]   kinds of the tasks that passed the gate (pre_disconnect), oldest first,
        "pcs":     [pc, …]               final program counters,
        "trace":   [pc, …]               pc of the scheduled task after each step ("-" = no such task),
        "serial":  bool                  gateSerial (threads reading of the schedule),
        "allDone": bool}
-/

def kindOf (s : String) : Except String Kind :=
  if s == "api" then pure .api
  else if s == "clientDisc" then pure .clientDisc
  else if s == "lost" then pure .lost
  else if s == "conn" then pure .conn
  else if s == "refuse" then pure .refuse
  else throw s!"bad kind {s}"

def kindName : Kind → String
  | .api => "api" | .clientDisc => "clientDisc" | .lost => "lost" | .conn => "conn"
  | .refuse => "refuse"

def pcName : Pc → String
  | .check => "check" | .mark => "mark" | .send => "send" | .handler => "handler"
  | .cleanup => "cleanup" | .chandler => "chandler" | .csend => "csend" | .done => "done"
  | .raised => "raised"

def natsOf (j : Json) : Except String (List Nat) := do
  let a ← j.getArr?
  a.toList.mapM (fun x => x.getNat?)

def natJ (n : Nat) : Json := Json.num (n : Nat)

def insertSorted (n : Nat) : List Nat → List Nat
  | [] => [n]
  | m :: r => if n < m then n :: m :: r else if n = m then m :: r else m :: insertSorted n r

def handle (_ : Unit) (j : Json) : Except String (Unit × Json) := do
  let tj ← (← j.getObjVal? "tasks").getArr?
  let tasks ← tj.toList.mapM (fun t => do
    let k ← kindOf (← (← t.getObjVal? "kind").getStr?)
    let ns ← natsOf (← t.getObjVal? "ns")
    pure (k, ns))
  let conn ← natsOf (← j.getObjVal? "conn")
  let others ← match j.getObjVal? "others" with
    | .ok v => natsOf v
    | .error _ => pure []
  let sched ← natsOf (← j.getObjVal? "sched")
  let atomic ← (← j.getObjVal? "atomic").getBool?
  let st0 := mkSt tasks conn others
  let (final, trace) := sched.foldl (fun (acc : St × List Json) i =>
    let s' := step atomic acc.1 i
    let e := match s'.tasks[i]? with
      | some t => Json.str (pcName t.pc)
      | none => Json.str "-"
    (s', e :: acc.2)) (st0, [])
  let univ := (conn ++ others ++ tasks.flatMap (fun p => p.2)).foldl (fun acc n => insertSorted n acc) []
  let raised := (final.tasks.zipIdx.filter (fun p => p.1.pc == .raised)).map (fun p => natJ p.2)
  pure ((), Json.mkObj [
    ("calls", Json.arr (univ.map (fun n =>
      Json.arr #[natJ n, Json.arr ((final.sh.calls n).reverse.map (fun k => Json.str (kindName k))).toArray])).toArray),
    ("raised", Json.arr raised.toArray),
    ("contained", natJ final.sh.contained),
    ("residue", Json.arr (univ.map (fun n =>
      Json.arr #[natJ n, Json.bool (final.sh.mem n), natJ (final.sh.pend n)])).toArray),
    ("sends", Json.arr (univ.map (fun n => Json.arr #[natJ n, natJ (final.sh.sends n)])).toArray),
    ("refusals", Json.arr (univ.map (fun n => Json.arr #[natJ n, natJ (final.sh.refusals n)])).toArray),
    ("marks", Json.arr (univ.map (fun n =>
      Json.arr #[natJ n, Json.arr ((final.sh.marks n).reverse.map (fun k => Json.str (kindName k))).toArray])).toArray),
    ("pcs", Json.arr (final.tasks.map (fun t => Json.str (pcName t.pc))).toArray),
    ("trace", Json.arr trace.reverse.toArray),
    ("serial", Json.bool (gateSerial st0 sched)),
    ("allDone", Json.bool (allDone final))])

def step := handle

def main : IO Unit := lineLoop () handle

end Sio.KSched
