import Driver.Wire
import Sio.Model.CodecSpec
import Sio.Model.JsonParse
import Driver.KArgs
open Lean (Json)
namespace Sio.KCodec
open Sio.Wire

/-- `loads` as a finite table supplied by the harness (result of the real `json.loads` on exactly
    the strings the model asks about); anything else is a driver error surfaced as jsonError. -/
def loadsOfJson (j : Json) : Except String (Str → Except Err J) := do
  let a ← j.getArr?
  let tbl ← a.toList.mapM (fun e => do
    let p ← e.getArr?
    match p.toList with
    | [k, v] => do
      let ks ← strOfJson k
      match v.getObjVal? "exc" with
      | .ok n => do let s ← n.getStr?; pure (ks, (Except.error (errOfName s) : Except Err J))
      | .error _ => do let x ← jOfJson v; pure (ks, Except.ok x)
    | _ => throw "bad loads entry")
  pure (fun s => match tbl.find? (fun p => p.1 == s) with
    | some p => p.2
    | none => .error .other)

def hdrToJson (h : Hdr) : Json :=
  Json.mkObj [("type", Json.num h.type), ("nsp", optStrToJson h.nsp), ("id", optNatToJson h.id),
              ("rest", strToJson h.rest), ("natt", Json.num h.natt)]

def step (_ : Unit) (j : Json) : Except String (Unit × Json) := do
  let op ← (← j.getObjVal? "op").getStr?
  if op == "enc" then
    let t ← (← j.getObjVal? "type").getNat?
    let nsp ← optStrOfJson (← j.getObjVal? "nsp")
    let id ← optNatOfJson (← j.getObjVal? "id")
    let d ← optJOfJson (← j.getObjVal? "data")
    let bin : Option Bool := match j.getObjVal? "binary" with
      | .ok (Json.bool b) => some b
      | _ => none
    match mkPacket true t d nsp id bin with
    | .error e => pure ((), excJson e)
    | .ok p =>
      let (text, atts) := encode J.dumps p
      pure ((), Json.mkObj [("type", Json.num p.type), ("text", strToJson text),
        ("atts", match atts with
          | none => Json.null
          | some a => Json.arr (a.map (fun b => Json.str (bytesToHex b))).toArray)])
  else if op == "dechdr" then
    let text ← strOfJson (← j.getObjVal? "text")
    let cls ← clsOfJson (← j.getObjVal? "cls")
    match decodeHdr cls text with
    | .error e => pure ((), excJson e)
    | .ok h => pure ((), hdrToJson h)
  else if op == "decfeed" then
    let text ← strOfJson (← j.getObjVal? "text")
    let cls ← clsOfJson (← j.getObjVal? "cls")
    let loads ← loadsOfJson (← j.getObjVal? "loads")
    let atts ← (← j.getObjVal? "atts").getArr?
    let atts ← atts.toList.mapM (fun a => do let s ← a.getStr?; pure (J.bin (bytesOfHex s)))
    match decode cls loads text with
    | .error e => pure ((), excJson e)
    | .ok (p, n) =>
      -- hand attachments back one at a time, recording each answer
      let rec go (pt : Partial) (bs : List J) (acc : List Json) (fuel : Nat) : List Json × Option Packet :=
        match fuel, bs with
        | 0, _ => (acc.reverse, none)
        | _, [] => (acc.reverse, none)
        | fuel + 1, b :: rest =>
          match addAttachment pt b with
          | .error e => go pt rest (excJson e :: acc) fuel
          | .ok (.more pt') => go pt' rest (Json.bool false :: acc) fuel
          | .ok (.complete pk) =>
            -- the real object keeps its attachments; a further call raises ValueError
            let pt' : Partial := { pkt := pk, need := pt.need, got := pt.got ++ [b] }
            let (r, _) := go pt' rest (Json.bool true :: acc) fuel
            (r, some pk)
      let (answers, fin) := go ⟨p, n, []⟩ atts [] (atts.length + 1)
      let final := match fin with | some pk => pk | none => p
      pure ((), Json.mkObj [("pkt", packetToJson final), ("natt", Json.num n),
                            ("answers", Json.arr answers.toArray)])
  else if op == "spec_frame" then
    -- the specification codec (Sio/Model/CodecSpec.lean) on the same constructor arguments
    let t ← (← j.getObjVal? "type").getNat?
    let nsp ← optStrOfJson (← j.getObjVal? "nsp")
    let id ← optNatOfJson (← j.getObjVal? "id")
    let d ← optJOfJson (← j.getObjVal? "data")
    let bin : Option Bool := match j.getObjVal? "binary" with
      | .ok (Json.bool b) => some b
      | _ => none
    match mkPacket true t d nsp id bin with
    | .error e => pure ((), excJson e)
    | .ok p =>
      let (text, atts) := Spec.frame J.dumps p
      pure ((), Json.mkObj [("type", Json.num p.type), ("text", strToJson text),
        ("atts", Json.arr (atts.map (fun b => Json.str (bytesToHex b))).toArray)])
  else if op == "spec_parse" then
    -- the grammar-directed parser of the specification, then its reassembly
    let text ← strOfJson (← j.getObjVal? "text")
    let loads ← loadsOfJson (← j.getObjVal? "loads")
    let atts ← (← j.getObjVal? "atts").getArr?
    let atts ← atts.toList.mapM (fun a => do let s ← a.getStr?; pure (bytesOfHex s))
    match Spec.parse loads text with
    | .error e => pure ((), excJson e)
    | .ok (p, n) =>
      let filled : Json := match p.data with
        | none => Json.mkObj [("none", Json.bool true)]
        | some d => match Spec.fill atts d with
          | some r => Json.mkObj [("some", jToJson r)]
          | none => Json.mkObj [("missing", Json.bool true)]
      pure ((), Json.mkObj [("pkt", packetToJson p), ("natt", Json.num n), ("filled", filled)])
  else if op == "jloads" then
    -- the concrete Lean JSON reader (Sio/Model/JsonParse.lean) on a text
    let text ← strOfJson (← j.getObjVal? "text")
    match J.loads text with
    | .error e => pure ((), excJson e)
    | .ok v => pure ((), Json.mkObj [("value", jToJson v)])
  else if op.startsWith "c02_" then
    -- kernel K2 (argument packing, multi-frame send/receive): Driver/KArgs.lean
    let r ← Sio.KArgs.step op j
    pure ((), r)
  else throw s!"unknown op {op}"

def main : IO Unit := lineLoop () step

end Sio.KCodec
