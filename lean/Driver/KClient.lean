import Driver.Wire
import Driver.KCodec
import Sio.Model.ClientSpec
open Lean (Json)
namespace Sio.KClient
open Sio.Wire Sio.Client

/-! Line protocol of the client kernel (K7).

  `{"cfg": {"fns": [[ns, ev, legacy]], "classes": [[ns, [[ev, legacy]]]],
            "rets": [[cls, nsKey, evKey, ret]]}}`       resets the client and installs the registry
  `{"op": "connect" | "emit" | "send" | "call" | "disconnect" | "ev", …}`   one `Input`
  answer: `{"out": [...], "q": snapshot}`
-/

structure St where
  cfg : Cfg
  cli : Cli
  /-- the server's view (`specStep false`), `none` once the history has left the quantifier -/
  view : Option View := some View.down
  /-- the same with `strict` (every waiting connect fully accepted) -/
  sview : Option View := some View.down

def boolOf (j : Json) (k : String) : Bool :=
  match j.getObjVal? k with
  | .ok (Json.bool b) => b
  | _ => false

inductive RetSpec where
  | fixed (d : Data)
  | echo

def retOfJson (j : Json) : Except String RetSpec :=
  match j.getObjVal? "echo" with
  | .ok _ => pure .echo
  | .error _ => do let d ← dataOfJson j; pure (.fixed d)

def cfgOfJson (j : Json) : Except String Cfg := do
  let fns ← (← j.getObjVal? "fns").getArr?
  let fns ← fns.toList.mapM (fun e => do
    let a ← e.getArr?
    match a.toList with
    | [n, ev, Json.bool l] => do pure ((← strOfJson n), (← strOfJson ev), l)
    | _ => throw "bad fn entry")
  let classes ← (← j.getObjVal? "classes").getArr?
  let classes ← classes.toList.mapM (fun e => do
    let a ← e.getArr?
    match a.toList with
    | [n, ms] => do
      let ms ← ms.getArr?
      let ms ← ms.toList.mapM (fun m => do
        let p ← m.getArr?
        match p.toList with
        | [ev, Json.bool l] => do pure ((← strOfJson ev), l)
        | _ => throw "bad method entry")
      pure ((← strOfJson n), ms)
    | _ => throw "bad class entry")
  let rets ← (← j.getObjVal? "rets").getArr?
  let rets ← rets.toList.mapM (fun e => do
    let a ← e.getArr?
    match a.toList with
    | [Json.bool c, n, ev, r] => do
      pure ((⟨c, (← strOfJson n), (← strOfJson ev)⟩ : Slot), (← retOfJson r))
    | _ => throw "bad ret entry")
  let reg : Reg := {
    fn := fun n ev => fns.any (fun e => e.1 == n && e.2.1 == ev)
    cls := fun n => classes.any (fun e => e.1 == n)
    method := fun n ev => classes.any (fun e => e.1 == n && e.2.any (fun m => m.1 == ev))
    legacy := fun s =>
      if s.cls then classes.any (fun e => e.1 == s.nsKey && e.2.any (fun m => m.1 == s.evKey && m.2))
      else fns.any (fun e => e.1 == s.nsKey && e.2.1 == s.evKey && e.2.2) }
  pure {
    resolve := reg.resolve
    ret := fun s args =>
      match (rets.find? (fun e => e.1 == s)).map (·.2) with
      | some (RetSpec.fixed d) => d
      | some RetSpec.echo => .tuple args
      | none => .none }

def evOfJson (j : Json) : Except String Ev := do
  let k ← (← j.getObjVal? "k").getStr?
  if k == "text" then
    let text ← strOfJson (← j.getObjVal? "text")
    let cls ← clsOfJson (← j.getObjVal? "cls")
    let loads ← KCodec.loadsOfJson (← j.getObjVal? "loads")
    -- `if encoded_packet:` — an empty frame is not decoded at all
    if text.isEmpty then pure (.msg (.str text) (.ok (⟨EVENT, none, none, none⟩, 0)))
    else pure (.msg (.str text) (decode cls loads text))
  else if k == "bin" then
    let h ← (← j.getObjVal? "hex").getStr?
    pure (.msg (.bin (bytesOfHex h)) (.error .typeError))
  else if k == "lost" then pure .lost
  else if k == "close" then pure .close
  else throw s!"bad ev {k}"

def evsOfJson (j : Json) : Except String (List Ev) := do
  let a ← j.getArr?
  a.toList.mapM evOfJson

def cbOfJson (j : Json) : Except String (Option Cb) :=
  if j.isNull then pure none else do
    let t ← (← j.getObjVal? "tok").getNat?
    let k ← (← j.getObjVal? "kind").getStr?
    pure (some ⟨t, if k == "coro" then .coro else if k == "call" then .call
                      else if k == "raises" then .raises else .fn⟩)

def inputOfJson (j : Json) : Except String Input := do
  let op ← (← j.getObjVal? "op").getStr?
  if op == "connect" then
    let nss ← (← j.getObjVal? "nss").getArr?
    let nss ← nss.toList.mapM strOfJson
    let a ← j.getObjVal? "auth"
    let auth : Auth := ⟨boolOf a "callable", ← optJOfJson (← a.getObjVal? "val")⟩
    let o ← j.getObjVal? "outcome"
    let oc ← (match o.getObjVal? "refuse" with
      | .ok r => do let x ← jOfJson r; pure (Outcome.refuse x)
      | .error _ => do let s ← strOfJson (← o.getObjVal? "accept"); pure (Outcome.accept s))
    let rs ← (← j.getObjVal? "reacts").getArr?
    let rs ← rs.toList.mapM evsOfJson
    pure (.connect nss auth (boolOf j "wait") oc rs)
  else if op == "emit" then
    pure (.emit (← strOfJson (← j.getObjVal? "ev")) (← dataOfJson (← j.getObjVal? "data"))
      (← optStrOfJson (← j.getObjVal? "ns")) (← cbOfJson (← j.getObjVal? "cb"))
      (← evsOfJson (← j.getObjVal? "reacts")))
  else if op == "send" then
    pure (.send (← dataOfJson (← j.getObjVal? "data"))
      (← optStrOfJson (← j.getObjVal? "ns")) (← cbOfJson (← j.getObjVal? "cb"))
      (← evsOfJson (← j.getObjVal? "reacts")))
  else if op == "call" then
    pure (.call (← strOfJson (← j.getObjVal? "ev")) (← dataOfJson (← j.getObjVal? "data"))
      (← optStrOfJson (← j.getObjVal? "ns")) (← (← j.getObjVal? "tok").getNat?)
      (← evsOfJson (← j.getObjVal? "reacts")))
  else if op == "disconnect" then pure .disconnect
  else if op == "ev" then pure (.ev (← evOfJson (← j.getObjVal? "e")))
  else throw s!"unknown op {op}"

def cerrName : CErr → String
  | .connectionError => "ConnectionError"
  | .badNamespace => "BadNamespaceError"
  | .timeout => "TimeoutError"
  | .valueError => "ValueError"

def kindName : CbKind → String
  | .fn => "fn" | .coro => "coro" | .call => "call" | .raises => "raises"

def jsArr (xs : List J) : Json := Json.arr (xs.map jToJson).toArray

def outToJson : Out → Json
  | .send p =>
    let (text, atts) := encode J.dumps p
    Json.mkObj [("k", "send"), ("text", strToJson text),
      ("atts", match atts with
        | none => Json.arr #[]
        | some a => Json.arr (a.map (fun b => Json.str (bytesToHex b))).toArray)]
  | .close => Json.mkObj [("k", "close")]
  | .authCall => Json.mkObj [("k", "auth")]
  | .trig ev n tgt =>
    Json.mkObj [("k", "trig"), ("ev", strToJson ev), ("ns", strToJson n),
      ("tgt", match tgt with
        | none => Json.null
        | some (s, a) => Json.mkObj [("cls", Json.bool s.cls), ("nsKey", strToJson s.nsKey),
                                     ("evKey", strToJson s.evKey), ("args", jsArr a)])]
  | .callback cb args =>
    Json.mkObj [("k", "cb"), ("tok", Json.num cb.tok), ("kind", kindName cb.kind), ("args", jsArr args)]
  | .contained e => Json.mkObj [("k", "contained"), ("e", e.name)]
  | .result r => Json.mkObj [("k", "ret"), ("data", dataToJson r)]
  | .raised e => Json.mkObj [("k", "exc"), ("e", cerrName e)]
  | .effort => Json.mkObj [("k", "effort")]

def snapshot (c : Cli) : Json :=
  Json.mkObj [
    ("connected", Json.bool c.connected),
    ("namespaces", Json.arr (c.namespaces.map (fun e => Json.arr #[strToJson e.1, jToJson e.2])).toArray),
    ("callbacks", Json.arr (c.cbs.map (fun e => Json.arr #[strToJson e.1, Json.num e.2.1])).toArray),
    ("binbuf", Json.bool c.binbuf.isSome),
    ("sid", optStrToJson c.sid),
    ("eio", match c.eio with | .connected => "connected" | .disconnected => "disconnected"),
    ("effort", Json.bool c.effort)]

def noteToJson : Note → Json
  | .accepted n => Json.arr #["accepted", strToJson n]
  | .refused n => Json.arr #["refused", strToJson n]
  | .ended n => Json.arr #["ended", strToJson n]

def step (s : Option St) (j : Json) : Except String (Option St × Json) :=
  match j.getObjVal? "cfg" with
  | .ok cj => do
    let cfg ← cfgOfJson cj
    pure (some { cfg := cfg, cli := initR (boolOf cj "reconnection") }, Json.mkObj [("ok", Json.bool true)])
  | .error _ =>
    match s with
    | none => throw "no cfg line yet"
    | some st => do
      let i ← inputOfJson j
      let r := Client.step st.cfg st.cli i
      let sp := st.view.bind (fun v => specStep false v i)
      let ss := st.sview.bind (fun v => specStep true v i)
      let spec := Json.mkObj [
        ("in", Json.bool sp.isSome), ("strict", Json.bool ss.isSome),
        ("notes", match sp with
          | some (_, t) => Json.arr (t.map noteToJson).toArray
          | none => Json.null),
        ("model_notes", Json.arr ((notes r.2).map noteToJson).toArray),
        ("acc", match sp with
          | some (v, _) => Json.arr (v.acc.map (fun e => Json.arr #[strToJson e.1, jToJson e.2])).toArray
          | none => Json.null)]
      pure (some { cfg := st.cfg, cli := r.1, view := sp.map (·.1), sview := ss.map (·.1) },
            Json.mkObj [("out", Json.arr (r.2.map outToJson).toArray), ("q", snapshot r.1), ("spec", spec)])

def main : IO Unit := lineLoop none step

end Sio.KClient
