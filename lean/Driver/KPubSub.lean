import Driver.Wire
import Driver.KRooms
import Sio.Model.PubSub
open Lean (Json)
namespace Sio.KPubSub
open Sio.Wire Sio.Rooms Sio.PubSub

/-- the cluster and, fed with the same operations, the single reference server -/
structure DSt where
  c : Cluster
  s : Single

def mkHost (id : Str) : Host := { id := id }

def init : DSt := ⟨{ hosts := [], wo := mkHost [] }, { srv := mkHost [] }⟩

def nat (n : Nat) : Json := Json.num n

def optNat : Option Nat → Json
  | none => Json.null
  | some n => nat n

def jArr (xs : List J) : Json := Json.arr (xs.map jToJson).toArray

def targetToJson : Target → Json
  | .all => Json.null
  | .one r => Json.mkObj [("one", strToJson r)]
  | .many rs => Json.mkObj [("many", KRooms.strsToJson rs)]

def skipToJson : Skip → Json
  | .none => Json.null
  | .one s => Json.mkObj [("one", strToJson s)]
  | .many ss => Json.mkObj [("many", KRooms.strsToJson ss)]

def outToJson : Out → Json
  | .send host sid eio f =>
    Json.mkObj [("k", "send"), ("host", strToJson host), ("sid", strToJson sid), ("eio", strToJson eio),
                ("ns", strToJson f.ns), ("ev", jToJson f.ev), ("args", jArr f.args), ("id", optNat f.id)]
  | .sendDisc host sid eio ns =>
    Json.mkObj [("k", "disc"), ("host", strToJson host), ("sid", strToJson sid), ("eio", strToJson eio),
                ("ns", strToJson ns)]
  | .discHandler host sid ns =>
    Json.mkObj [("k", "disc_handler"), ("host", strToJson host), ("sid", strToJson sid), ("ns", strToJson ns)]
  | .callback host tok args =>
    Json.mkObj [("k", "callback"), ("host", strToJson host), ("tok", nat tok), ("args", jArr args)]
  | .handlerError host e =>
    Json.mkObj [("k", "handler_error"), ("host", strToJson host), ("exc", Json.str e.name)]
  | .restarted host => Json.mkObj [("k", "restarted"), ("host", strToJson host)]
  | .raised e => Json.mkObj [("k", "raised"), ("exc", Json.str e.name)]

def outsToJson (l : List Out) : Json := Json.arr (l.map outToJson).toArray

def msgToJson : Msg → Json
  | .emit host ev d ns to skip cb =>
    Json.mkObj [("method", "emit"), ("host_id", strToJson host), ("event", strToJson ev),
                ("data", dataToJson d), ("namespace", strToJson ns), ("room", targetToJson to),
                ("skip_sid", skipToJson skip),
                ("callback", match cb with
                  | none => Json.null
                  | some (k, n, i) => Json.arr #[strToJson k, strToJson n, nat i])]
  | .callback origin key ns id args =>
    Json.mkObj [("method", "callback"), ("host_id", optStrToJson origin), ("sid", strToJson key),
                ("namespace", strToJson ns), ("id", nat id), ("args", jArr args)]
  | .disconnect host sid ns =>
    Json.mkObj [("method", "disconnect"), ("host_id", strToJson host), ("sid", strToJson sid),
                ("namespace", strToJson ns)]
  | .enterRoom host sid ns room =>
    Json.mkObj [("method", "enter_room"), ("host_id", strToJson host), ("sid", strToJson sid),
                ("namespace", strToJson ns), ("room", strToJson room)]
  | .leaveRoom host sid ns room =>
    Json.mkObj [("method", "leave_room"), ("host_id", strToJson host), ("sid", strToJson sid),
                ("namespace", strToJson ns), ("room", strToJson room)]
  | .closeRoom host ns room =>
    Json.mkObj [("method", "close_room"), ("host_id", strToJson host), ("namespace", strToJson ns),
                ("room", strToJson room)]

def msgsToJson (l : List Msg) : Json := Json.arr (l.map msgToJson).toArray

def entryToJson (e : Rooms.Entry) : Json :=
  Json.arr #[strToJson e.ns, optStrToJson e.room, strToJson e.sid, strToJson e.eio]

def field (j : Json) (k : String) : Except String Json := j.getObjVal? k

def fieldD (j : Json) (k : String) : Json :=
  match j.getObjVal? k with
  | .ok v => v
  | .error _ => Json.null

def jList (j : Json) : Except String (List J) := do
  let a ← j.getArr?
  a.toList.mapM jOfJson

def opOfJson (j : Json) : Except String PubSub.Op := do
  let k ← (← field j "op").getStr?
  if k == "drain" then pure .drain
  else if k == "deliver" then
    pure (.deliver (← strOfJson (← field j "h")) (← (← field j "k").getNat?))
  else
  let ns ← strOfJson (← field j "ns")
  if k == "connect" then
    pure (.connect (← strOfJson (← field j "h")) ns (← strOfJson (← field j "eio")) (← strOfJson (← field j "sid")))
  else if k == "enter" then
    pure (.enter (← strOfJson (← field j "via")) ns (← strOfJson (← field j "sid")) (← strOfJson (← field j "room")))
  else if k == "leave" then
    pure (.leave (← strOfJson (← field j "via")) ns (← strOfJson (← field j "sid")) (← strOfJson (← field j "room")))
  else if k == "close" then
    pure (.close (← strOfJson (← field j "via")) ns (← strOfJson (← field j "room")))
  else if k == "disconnect" then
    pure (.disconnect (← strOfJson (← field j "via")) ns (← strOfJson (← field j "sid")))
  else if k == "ack" then
    pure (.ack ns (← strOfJson (← field j "sid")) (← (← field j "n").getNat?) (← jList (← field j "args")))
  else if k == "emit" then
    let via ← optStrOfJson (fieldD j "via")
    let ev ← strOfJson (← field j "ev")
    let d ← dataOfJson (← field j "data")
    let to ← KRooms.targetOfJson (fieldD j "to")
    let skip ← KRooms.skipOfJson (fieldD j "skip")
    let cb ← (let c := fieldD j "cb"; if c.isNull then pure none else do let n ← c.getNat?; pure (some n))
    pure (.emit via ev d ns to skip cb)
  else throw s!"unknown op {k}"

/-! ### classified garbage (C15) -/

def fldOfJson (j : Json) : Except String (Fld Str) :=
  match j with
  | Json.str "absent" => pure .absent
  | Json.str "none" => pure .none
  | Json.str "unhashable" => pure .unhashable
  | Json.str "other" => pure .other
  | _ => do let s ← strOfJson (← field j "ok"); pure (.ok s)

def roomFldOfJson (j : Json) : Except String RoomFld :=
  if j.isNull then pure .none else
  match j with
  | Json.str "dict" => pure .dict
  | _ =>
    match j.getObjVal? "str" with
    | .ok v => do let s ← strOfJson v; pure (.str s)
    | .error _ => do let rs ← KRooms.strArr (← field j "list"); pure (.list rs)

def cbFldOfJson (j : Json) : Except String CbFld :=
  if j.isNull then pure .none else
  match j with
  | Json.str "noLen" => pure .noLen
  | Json.str "wrongLen" => pure .wrongLen
  | _ => do
    let a ← (← field j "tok").getArr?
    match a.toList with
    | [k, n, i] => pure (.tok (← strOfJson k) (← strOfJson n) (← i.getNat?))
    | _ => throw "bad tok"

def idFldOfJson (j : Json) : Except String IdFld :=
  match j with
  | Json.str "absent" => pure .absent
  | Json.str "other" => pure .other
  | _ => do let n ← (← field j "ok").getNat?; pure (.ok n)

def argsFldOfJson (j : Json) : Except String ArgsFld :=
  match j with
  | Json.str "absent" => pure .absent
  | Json.str "nonIterable" => pure .nonIterable
  | _ => do let xs ← jList (← field j "ok"); pure (.ok xs)

def dmsgOfJson (j : Json) : Except String DMsg := do
  let method ← optStrOfJson (fieldD j "method")
  let hostId ← optStrOfJson (fieldD j "host_id")
  let event ← optJOfJson (fieldD j "event")
  let data ← (match (fieldD j "data").getObjVal? "some" with
    | .ok v => do let d ← dataOfJson v; pure (some d)
    | .error _ => pure none)
  let ns ← fldOfJson (← field j "ns")
  let room ← roomFldOfJson (fieldD j "room")
  let skip ← KRooms.skipOfJson (fieldD j "skip")
  let cb ← cbFldOfJson (fieldD j "cb")
  let sid ← fldOfJson (← field j "sid")
  let id ← idFldOfJson (← field j "id")
  let args ← argsFldOfJson (← field j "args")
  pure { method, hostId, event, data, ns, room, skip, cb, sid, id, args }

def decodedOfJson (j : Json) : Except String Decoded :=
  match j with
  | Json.str "none" => pure .none
  | Json.str "falsy" => pure .falsy
  | Json.str "scalar" => pure .scalar
  | Json.str "dictNoMethod" => pure .dictNoMethod
  | _ =>
    match j.getObjVal? "seq" with
    | .ok v => do let b ← v.getBool?; pure (.seq b)
    | .error _ => do let m ← dmsgOfJson (← field j "dict"); pure (.dict m)

def faultOfJson (j : Json) : Fault :=
  match j with
  | Json.str "app" => .app
  | Json.str "srv" => .srv
  | Json.str "fatal" => .fatal
  | _ => .none

def entryOfJson (chan : List Msg) (j : Json) : Except String PubSub.Item := do
  let fault := faultOfJson (fieldD j "fault")
  match j.getObjVal? "chan" with
  | .ok v => do
    let i ← v.getNat?
    match chan[i]? with
    | some m => pure { raw := .bytes (.dict m.toD) .none, fault }
    | none => throw "no such channel entry"
  | .error _ =>
    let r ← field j "raw"
    match r with
    | Json.str "listenRaises" => pure { raw := .listenRaises, fault }
    | _ =>
      match r.getObjVal? "dict" with
      | .ok v => do let d ← decodedOfJson v; pure { raw := .dict d, fault }
      | .error _ =>
      match r.getObjVal? "text" with
      | .ok v => do let d ← decodedOfJson v; pure { raw := .text d, fault }
      | .error _ => do
        let a ← (← field r "bytes").getArr?
        match a.toList with
        | [p, q] => pure { raw := .bytes (← decodedOfJson p) (← decodedOfJson q), fault }
        | _ => throw "bad bytes entry"

def passOfJson (j : Json) : Except String Pass :=
  match j with
  | Json.str "connectFails" => pure .connectFails
  | _ =>
    match j.getObjVal? "listenFails" with
    | .ok v => do let n ← v.getNat?; pure (.listenFails n)
    | .error _ => do let n ← (← field j "listenEnds").getNat?; pure (.listenEnds n)

def replaceHost (hosts : List Host) (h : Host) : List Host :=
  hosts.map (fun x => if x.id = h.id then h else x)

def cursorsJson (c : Cluster) : Json :=
  Json.arr (c.hosts.map (fun h => Json.arr #[strToJson h.id, nat h.cursor])).toArray

def step (d : DSt) (j : Json) : Except String (DSt × Json) := do
  let op ← (← field j "op").getStr?
  if op == "reset" then
    let ids ← KRooms.strArr (← field j "hosts")
    let wo ← strOfJson (← field j "wo")
    pure (⟨{ hosts := ids.map mkHost, wo := mkHost wo }, { srv := mkHost "single".toList }⟩,
          Json.mkObj [("ok", true)])
  else if op == "c" then
    -- one operation on the cluster
    let o ← opOfJson (← field j "do")
    let before := d.c.chan.length
    let r := PubSub.step d.c o
    pure ({ d with c := r.1 },
          Json.mkObj [("out", outsToJson r.2), ("pub", msgsToJson (r.1.chan.drop before)),
                      ("cursors", cursorsJson r.1), ("chan", nat r.1.chan.length)])
  else if op == "s" then
    -- the same operation on the single reference server
    let o ← opOfJson (← field j "do")
    let r := d.s.step o
    pure ({ d with s := r.1 }, Json.mkObj [("out", outsToJson r.2)])
  else if op == "rooms" then
    -- the room table of one host (or of the single server)
    let hid ← optStrOfJson (fieldD j "h")
    let rooms : List Rooms.Entry := match hid with
      | none => d.s.srv.rooms
      | some hid => match d.c.hosts.find? (fun (h : Host) => h.id = hid) with
        | some h => h.rooms
        | none => []
    pure (d, Json.mkObj [("rooms", Json.arr (rooms.map entryToJson).toArray)])
  else if op == "cb" then
    -- is `callbacks[key][id]` present on host h?
    let hid ← strOfJson (← field j "h")
    let key ← strOfJson (← field j "key")
    let id ← (← field j "id").getNat?
    let present := match d.c.hosts.find? (fun (h : Host) => h.id = hid) with
      | some h => (h.cbs key id).isSome
      | none => false
    pure (d, Json.mkObj [("present", present)])
  else if op == "listen" then
    -- the listener of host h over a stream of classified entries (C15); the host keeps the result
    let hid ← strOfJson (← field j "h")
    let es ← (← (← field j "entries").getArr?).toList.mapM (entryOfJson d.c.chan)
    match d.c.hosts.find? (fun (h : Host) => h.id = hid) with
    | none => throw "no such host"
    | some h =>
      let r := listen h es
      let c := { d.c with hosts := replaceHost d.c.hosts r.h, chan := d.c.chan ++ r.pubs,
                          asked := d.c.asked ++ askedIn r.outs }
      pure ({ d with c := c },
            Json.mkObj [("out", outsToJson r.outs), ("pub", msgsToJson r.pubs), ("alive", r.alive)])
  else if op == "retry" then
    let ps ← (← (← field j "passes").getArr?).toList.mapM passOfJson
    let r := retryRun {} ps
    pure (d, Json.mkObj [("yielded", nat r.2.yielded),
                         ("sleeps", Json.arr (r.2.sleeps.map nat).toArray),
                         ("reconnects", nat r.2.reconnects)])
  else throw s!"unknown op {op}"

def main : IO Unit := lineLoop init step

end Sio.KPubSub
