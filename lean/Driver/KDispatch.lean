import Driver.Wire
import Sio.Model.Dispatch
open Lean (Json)
namespace Sio.KDispatch
open Sio.Wire Sio.Dispatch

/-
  One op:
    {"op":"resolve","kind":"server|asyncServer|client|asyncClient","ns":[cp],"ev":[cp],
     "fn":[[ns,ev],…],"cls":[ns,…],"attr":[[ns,attrName],…]}
  The registry is what the harness actually registered on the real object (function handlers as
  (namespace, event) pairs, class-based namespaces by key, attributes of each class object).
  Answer: the model's result, the argument prefix symbolically and rendered, the attribute name a
  class slot calls, whether the class considers the event reserved, and the specification table's
  answer on the eight presence bits of this registry.
-/

def kindOfString (s : String) : Except String Kind :=
  if s == "server" then pure .server
  else if s == "asyncServer" then pure .asyncServer
  else if s == "client" then pure .client
  else if s == "asyncClient" then pure .asyncClient
  else throw s!"bad kind {s}"

def slotName : Slot → String
  | .fnNsEv => "fnNsEv" | .fnNsStar => "fnNsStar" | .fnStarEv => "fnStarEv"
  | .fnStarStar => "fnStarStar" | .clsNs => "clsNs" | .clsStar => "clsStar"

def pargName : PArg → String
  | .ev => "ev" | .ns => "ns"

def resToJson (ns : Ns) (ev : Ev) : Res → Json
  | .invoke s pre => Json.mkObj [("res", Json.str "invoke"), ("slot", Json.str (slotName s)),
      ("pre", Json.arr (pre.map (fun p => Json.str (pargName p))).toArray),
      ("args", Json.arr (pre.map (fun p => strToJson (p.render ns ev))).toArray)]
  | .dropped s => Json.mkObj [("res", Json.str "dropped"), ("slot", Json.str (slotName s))]
  | .notHandled => Json.mkObj [("res", Json.str "notHandled")]

def pairsOfJson (j : Json) : Except String (List (Str × Str)) := do
  let a ← j.getArr?
  a.toList.mapM (fun e => do
    let p ← e.getArr?
    match p.toList with
    | [x, y] => do let xs ← strOfJson x; let ys ← strOfJson y; pure (xs, ys)
    | _ => throw "bad pair")

def step (_ : Unit) (j : Json) : Except String (Unit × Json) := do
  let op ← (← j.getObjVal? "op").getStr?
  if op == "resolve" then
    let k ← kindOfString (← (← j.getObjVal? "kind").getStr?)
    let ns ← strOfJson (← j.getObjVal? "ns")
    let ev ← strOfJson (← j.getObjVal? "ev")
    let fnl ← pairsOfJson (← j.getObjVal? "fn")
    let clsl ← (← (← j.getObjVal? "cls").getArr?).toList.mapM strOfJson
    let attrl ← pairsOfJson (← j.getObjVal? "attr")
    let r : Reg := { fn := fun n e => fnl.contains (n, e), cls := fun n => clsl.contains n,
                     attr := fun n a => attrl.contains (n, a) }
    let res := resolve k r ns ev
    let reserved := (reservedOf k).contains ev
    let spec := table reserved (r.nsExact ns ev) (r.nsCatch ns) (r.exact star ev) (r.fn star star)
      (r.nsCls ns) (r.cls star) (r.hasMethod ns ev) (r.hasMethod star ev)
    pure ((), Json.mkObj [("model", resToJson ns ev res), ("spec", resToJson ns ev spec),
      ("method", strToJson (methodName ev)), ("reserved", Json.bool reserved)])
  else if op == "reserved" then
    let k ← kindOfString (← (← j.getObjVal? "kind").getStr?)
    pure ((), Json.arr ((reservedOf k).map strToJson).toArray)
  else throw s!"unknown op {op}"

def main : IO Unit := lineLoop () step

end Sio.KDispatch
