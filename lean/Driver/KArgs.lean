/-
  Line-protocol ops of kernel K2 (Sio/Model/Args.lean), served by the `codec` driver
  (Driver/KCodec.lean dispatches every op that starts with `c02_` here).

    c02_send  {msgpack, msgs:[{kind:"event", ev, data, ns, id} | {kind:"ack", ret, ns, id}]}
              → {groups:[ [ {t:<str>} | {b:<hex>} ] ]}            default packet class
              → {dicts:[ J ]}                                      msgpack class (`_to_dict`)
    c02_recv  {frames:[{t}|{b}], cls}                             default packet class
              → {deliveries:[…], pending:bool} | {exc}
    c02_recv_mp {dicts:[J]}  → {deliveries:[…]} | {exc}          msgpack (after `msgpack.loads`)
    c02_norm  {data}  → {pack:[J], call:Data, norm:Data}
-/
import Driver.Wire
import Sio.Model.Args
import Sio.Model.JsonParse
open Lean (Json)
namespace Sio.KArgs
open Sio.Wire Sio.Args

structure WMsg where
  isEvent : Bool
  ev : Str
  d : Data
  ns : Str
  id : Option Nat

def msgOfJson (j : Json) : Except String WMsg := do
  let kind ← (← j.getObjVal? "kind").getStr?
  let ns ← strOfJson (← j.getObjVal? "ns")
  let id ← optNatOfJson (← j.getObjVal? "id")
  if kind == "event" then
    let ev ← strOfJson (← j.getObjVal? "ev")
    let d ← dataOfJson (← j.getObjVal? "data")
    pure ⟨true, ev, d, ns, id⟩
  else
    let d ← dataOfJson (← j.getObjVal? "ret")
    pure ⟨false, [], d, ns, id⟩

def WMsg.packet (ub : Bool) (m : WMsg) : Except Err Packet :=
  if m.isEvent then mkEvent ub m.ev m.d m.ns m.id else mkAck ub m.d m.ns (m.id.getD 0)

def frameToJson : Frame → Json
  | .text s => Json.mkObj [("t", strToJson s)]
  | .bin b => Json.mkObj [("b", Json.str (bytesToHex b))]

def frameOfJson (j : Json) : Except String Frame :=
  match j.getObjVal? "t" with
  | .ok v => do let s ← strOfJson v; pure (.text s)
  | .error _ => do let s ← (← j.getObjVal? "b").getStr?; pure (.bin (bytesOfHex s))

def deliveryToJson : Delivery → Json
  | .event ns id ev args => Json.mkObj [("kind", Json.str "event"), ("ns", strToJson ns),
      ("id", optNatToJson id), ("ev", jToJson ev), ("args", Json.arr (args.map jToJson).toArray)]
  | .ack ns id args => Json.mkObj [("kind", Json.str "ack"), ("ns", strToJson ns),
      ("id", optNatToJson id), ("args", Json.arr (args.map jToJson).toArray)]
  | .other p => Json.mkObj [("kind", Json.str "other"), ("pkt", packetToJson p)]

def step (op : String) (j : Json) : Except String Json := do
  if op == "c02_send" then
    let mp := match j.getObjVal? "msgpack" with | .ok (Json.bool b) => b | _ => false
    let ms ← (← j.getObjVal? "msgs").getArr?
    let ms ← ms.toList.mapM msgOfJson
    match ms.mapM (WMsg.packet (!mp)) with
    | .error e => pure (excJson e)
    | .ok ps =>
      if mp then
        pure (Json.mkObj [("dicts", Json.arr (ps.map (fun p => jToJson (toDict p))).toArray)])
      else
        pure (Json.mkObj [("groups", Json.arr (ps.map (fun p =>
          Json.arr ((send J.dumps p).map frameToJson).toArray)).toArray)])
  else if op == "c02_recv" then
    let fs ← (← j.getObjVal? "frames").getArr?
    let fs ← fs.toList.mapM frameOfJson
    let cls ← match j.getObjVal? "cls" with
      | .ok c => clsOfJson c
      | .error _ => pure asciiCls
    match deliver cls J.loads fs with
    | .error e => pure (excJson e)
    | .ok (ds, fin) =>
      pure (Json.mkObj [("deliveries", Json.arr (ds.map deliveryToJson).toArray),
                        ("pending", Json.bool fin.isSome)])
  else if op == "c02_recv_mp" then
    let ds ← (← j.getObjVal? "dicts").getArr?
    let ds ← ds.toList.mapM jOfJson
    match (ds.mapM (fun d => do let p ← ofDict d; dispatch p) : Except Err (List Delivery)) with
    | .error e => pure (excJson e)
    | .ok out => pure (Json.mkObj [("deliveries", Json.arr (out.map deliveryToJson).toArray)])
  else if op == "c02_norm" then
    let d ← dataOfJson (← j.getObjVal? "data")
    pure (Json.mkObj [("pack", Json.arr (d.pack.map jToJson).toArray),
                      ("call", dataToJson (callResult d.pack)), ("norm", dataToJson (normalise d))])
  else throw s!"unknown op {op}"

end Sio.KArgs
