import Driver.Wire
open Lean (Json)
namespace Sio.KServer
open Sio.Wire

/-- stub: replaced by the kernel's line-protocol handler -/
def step (_ : Unit) (_ : Json) : Except String (Unit × Json) := throw "kernel not implemented"

def main : IO Unit := lineLoop () step

end Sio.KServer
