import Driver.Wire
import Driver.KCodec
import Sio.Model.Server
open Lean (Json)
namespace Sio.KServer
open Sio.Wire Sio.Server Sio.Rooms

structure DState where
  cfg : Cfg
  srv : Srv

def defaultCfg : Cfg :=
  { alwaysConnect := false, served := some [['/']], asyncHandlers := false,
    reg := ⟨fun _ _ => false, fun _ => false, fun _ => false, fun _ _ => false⟩,
    script := ⟨fun _ => .accept, fun _ => .ret .none, fun _ => .ok⟩ }

def strListOfJson (j : Json) : Except String (List Str) := do
  let a ← j.getArr?
  a.toList.mapM strOfJson

def connResOfJson (j : Json) : Except String ConnRes :=
  match j with
  | Json.str "accept" => pure .accept
  | Json.str "false" => pure .retFalse
  | Json.str "raise" => pure .raise
  | _ => do
    let a ← (← j.getObjVal? "refuse").getArr?
    let xs ← a.toList.mapM jOfJson
    pure (.refuse xs)

def evResOfJson (j : Json) : Except String EvRes :=
  match j with
  | Json.str "raise" => pure .raise
  | _ => do let d ← dataOfJson (← j.getObjVal? "ret"); pure (.ret d)

def discResOfJson (j : Json) : Except String DiscRes :=
  match j with
  | Json.str "raise" => pure .raise
  | _ => pure .ok

/-- the handler registries named by the fields `fn` ([[ns, ev], ...]) and `cls` ([[ns, [methods]], ...]) -/
def regOfJson (j : Json) : Except String Registry := do
  let fnA ← (← j.getObjVal? "fn").getArr?
  let fns ← fnA.toList.mapM (fun e => do
    let l ← strListOfJson e
    match l with
    | [ns, ev] => pure (ns, ev)
    | _ => throw "bad fn entry")
  let clsA ← (← j.getObjVal? "cls").getArr?
  let clss ← clsA.toList.mapM (fun e => do
    let p ← e.getArr?
    match p.toList with
    | [ns, ms] => do let n ← strOfJson ns; let m ← strListOfJson ms; pure (n, m)
    | _ => throw "bad cls entry")
  pure
    { fn := fun ns ev => fns.contains (ns, ev),
      fnNs := fun ns => fns.any (fun p => p.1 = ns),
      cls := fun ns => clss.any (fun p => p.1 = ns),
      clsMethod := fun ns m => clss.any (fun p => p.1 = ns ∧ p.2.contains m) }

def cfgOfJson (j : Json) : Except String Cfg := do
  let ac ← (← j.getObjVal? "alwaysConnect").getBool?
  let ah ← (← j.getObjVal? "asyncHandlers").getBool?
  let servedJ ← j.getObjVal? "served"
  let served ← (if servedJ.isNull then pure none else do let l ← strListOfJson servedJ; pure (some l))
  let oc ← (← (← j.getObjVal? "onConnect").getArr?).toList.mapM connResOfJson
  let oe ← (← (← j.getObjVal? "onEvent").getArr?).toList.mapM evResOfJson
  let od ← (← (← j.getObjVal? "onDisconnect").getArr?).toList.mapM discResOfJson
  let reg ← regOfJson j
  pure { alwaysConnect := ac, served := served, asyncHandlers := ah, reg := reg,
         script := ⟨fun n => oc.getD n .accept, fun n => oe.getD n (.ret .none), fun n => od.getD n .ok⟩ }

def targetOfJson (j : Json) : Except String Target :=
  if j.isNull then pure .all
  else match j.getObjVal? "many" with
    | .ok v => do let l ← strListOfJson v; pure (.many l)
    | .error _ => do let r ← strOfJson (← j.getObjVal? "one"); pure (.one r)

def slotToJson : Slot → Json
  | .fn ns ev => Json.mkObj [("fn", Json.arr #[strToJson ns, strToJson ev])]
  | .cls ns m => Json.mkObj [("cls", Json.arr #[strToJson ns, strToJson m])]

def outToJson : Out → Json
  | .send t p =>
    let (text, atts) := encode J.dumps p
    Json.mkObj [("send", strToJson t), ("text", strToJson text),
      ("atts", Json.arr ((atts.getD []).map (fun b => Json.str (bytesToHex b))).toArray)]
  | .invoke slot args => Json.mkObj [("invoke", slotToJson slot), ("args", Json.arr (args.map jToJson).toArray)]
  | .callback n args => Json.mkObj [("callback", Json.num n), ("args", Json.arr (args.map jToJson).toArray)]
  | .raised e => Json.mkObj [("raised", Json.str e.name)]
  | .result j => Json.mkObj [("result", jToJson j)]
  | .timeout => Json.mkObj [("timeout", Json.bool true)]

abbrev DecTable := List (Str × Except Err (Packet × Nat))

/-- Parses one input line; text frames are decoded eagerly by the K1 model with the tables the
    line carries, and remembered so that `step`'s decoder parameter answers for exactly them. -/
partial def inputOfJson (j : Json) : Except String (Input × DecTable) := do
  let op ← (← j.getObjVal? "op").getStr?
  let str (k : String) : Except String Str := do strOfJson (← j.getObjVal? k)
  if op == "open" then pure (.eioConnect (← str "t"), [])
  else if op == "frame" then
    let t ← str "t"
    let text ← str "text"
    let cls ← clsOfJson (← j.getObjVal? "cls")
    let loads ← KCodec.loadsOfJson (← j.getObjVal? "loads")
    pure (.frame t (.str text), [(text, decode cls loads text)])
  else if op == "frameval" then
    let t ← str "t"
    let v ← jOfJson (← j.getObjVal? "v")
    pure (.frame t v, [])
  else if op == "lost" then pure (.eioLost (← str "t") (← str "reason"), [])
  else if op == "emit" then
    let ev ← str "ev"
    let d ← dataOfJson (← j.getObjVal? "data")
    let ns ← str "ns"
    let to ← targetOfJson (← j.getObjVal? "to")
    let skip ← strListOfJson (← j.getObjVal? "skip")
    let cbJ ← j.getObjVal? "cb"
    let cb ← (if cbJ.isNull then pure none else do let n ← cbJ.getNat?; pure (some n))
    pure (.emit ev d ns to skip cb, [])
  else if op == "call" then
    let ev ← str "ev"
    let d ← dataOfJson (← j.getObjVal? "data")
    let ns ← str "ns"
    let sid ← str "sid"
    let during ← (← j.getObjVal? "during").getArr?
    let parsed ← during.toList.mapM inputOfJson
    pure (.call ev d ns sid (parsed.map (·.1)), parsed.flatMap (·.2))
  else if op == "disconnect" then pure (.apiDisconnect (← str "sid") (← str "ns"), [])
  else if op == "enter" then pure (.enterRoom (← str "sid") (← str "ns") (← str "room"), [])
  else if op == "leave" then pure (.leaveRoom (← str "sid") (← str "ns") (← str "room"), [])
  else if op == "close" then pure (.closeRoom (← str "ns") (← str "room"), [])
  else if op == "rooms" then pure (.rooms (← str "sid") (← str "ns"), [])
  else if op == "get_session" then pure (.getSession (← str "sid") (← str "ns"), [])
  else if op == "save_session" then
    pure (.saveSession (← str "sid") (← str "ns") (← jOfJson (← j.getObjVal? "v")), [])
  else if op == "session_block" then
    pure (.sessionBlock (← str "sid") (← str "ns") (← str "k") (← jOfJson (← j.getObjVal? "v")), [])
  else if op == "settle" then pure (.settle, [])
  else throw s!"unknown op {op}"

def snapshot (s : Srv) : Json :=
  Json.mkObj [
    ("rooms", Json.arr (s.rooms.map (fun e => Json.arr #[strToJson e.ns, optStrToJson e.room, strToJson e.sid, strToJson e.eio])).toArray),
    ("pending", Json.num s.pending.length), ("cbs", Json.num s.cbs.length), ("ctr", Json.num s.ctr.length),
    ("environ", Json.num s.environ.length), ("binbuf", Json.num s.binbuf.length),
    ("sess", Json.num s.sess.length), ("socks", Json.num s.socks.length), ("bg", Json.num s.bg.length)]

def step (st : DState) (j : Json) : Except String (DState × Json) := do
  match j.getObjVal? "cfg" with
  | .ok c =>
    let cfg ← cfgOfJson c
    pure ({ cfg := cfg, srv := {} }, Json.mkObj [("ok", Json.bool true)])
  | .error _ =>
    let op ← (← j.getObjVal? "op").getStr?
    if op == "dechdr" then
      let (_, r) ← KCodec.step () j
      pure (st, r)
    else if op == "snapshot" then pure (st, snapshot st.srv)
    else if op == "reg" then
      -- the application registered handlers at run time: `step` takes the registry as it is from now on (the
      -- server state and the rest of the configuration stay)
      let reg ← regOfJson j
      pure ({ st with cfg := { st.cfg with reg := reg } }, Json.mkObj [("outs", Json.arr #[])])
    else
      let (inp, table) ← inputOfJson j
      let dec : Str → Except Err (Packet × Nat) := fun s =>
        match table.find? (fun p => p.1 == s) with
        | some p => p.2
        | none => .error .other
      let (srv, outs) := Server.step dec st.cfg st.srv inp
      pure ({ st with srv := srv }, Json.mkObj [("outs", Json.arr (outs.map outToJson).toArray)])

def main : IO Unit := lineLoop { cfg := defaultCfg, srv := {} } step

end Sio.KServer
