import Driver.Wire
import Sio.Model.Simple
open Lean (Json)
namespace Sio.KSimple
open Sio.Wire
open Sio.Simple

/-
  Line protocol of `siodriver simple`.

  in : {"variant": "threads" | "asyncio", "sched": [token, …]}
       tokens: "P" producer · "C" consumer (client.emit/call succeeds) · "Cf" consumer (client.emit/call
       raises SocketIOError) · "T" timeout fires · "Kc" / "Kd" / "Kf" connection-handler thread
       (connect / disconnect / __disconnect_final) · "Sr" start receive() · "St" start
       receive(timeout) · "Se" start emit()/call()
  out: {"trace": [[status, pc, nlog, producerMid, handlerMid, held], …]   one entry per token
                 (held = receive() parked on connected_event, not notified, while a signalled
                  arrival is unreturned: the region of the known finding),
        "log":   [{"o": outcome, "pc": …, "buf": […], "arrived": n, "returned": n, "signalled": n,
                   "seen": n, "ended": b, "cev": b, "conn": b, "woken": b, "endedRd": b, "revived": b}, …],
        "returned": […], "arrived": n, "buf": […]}
-/

def choiceOfToken (t : String) : Except String Choice :=
  if t == "P" then pure .prod
  else if t == "C" then pure (.cons true)
  else if t == "Cf" then pure (.cons false)
  else if t == "T" then pure .timeout
  else if t == "Kc" then pure (.conn .connect)
  else if t == "Kd" then pure (.conn .disconnect)
  else if t == "Kf" then pure (.conn .final)
  else if t == "Sr" then pure (.start (.recv false))
  else if t == "St" then pure (.start (.recv true))
  else if t == "Se" then pure (.start .send)
  else throw s!"bad token {t}"

def pcName : CPc → String
  | .idle => "idle" | .r0 => "r0" | .r1 => "r1" | .r1w => "r1w" | .r2 => "r2" | .r2b => "r2b" | .r3 => "r3"
  | .r3w => "r3w" | .r4 => "r4" | .r5 => "r5" | .e1 => "e1" | .e1w => "e1w" | .e2 => "e2"
  | .e3 => "e3"

def statusOf (s : State) : String :=
  if s.cpc = .idle then "idle" else if blocked s then "blocked" else "ready"

def outcomeJson : Outcome → Json
  | .returned n => Json.mkObj [("ret", Json.num n)]
  | .sent => Json.str "sent"
  | .timeoutErr => Json.mkObj [("exc", Json.str "TimeoutError")]
  | .disconnectedErr => Json.mkObj [("exc", Json.str "DisconnectedError")]
  | .indexErr => Json.mkObj [("exc", Json.str "IndexError")]

def natsJson (l : List Nat) : Json := Json.arr (l.map (fun (n : Nat) => Json.num (n : Nat))).toArray

def entryJson (e : Outcome × View) : Json :=
  let v := e.2
  Json.mkObj [("o", outcomeJson e.1), ("pc", Json.str (pcName v.pc)), ("buf", natsJson v.buf),
    ("arrived", Json.num v.arrivedN), ("returned", Json.num v.returnedN),
    ("signalled", Json.num v.signalled), ("seen", Json.num v.seen), ("ended", Json.bool v.ended),
    ("cev", Json.bool v.cev), ("conn", Json.bool v.conn), ("woken", Json.bool v.woken),
    ("endedRd", Json.bool v.endedRd), ("revived", Json.bool v.revived)]

def traceEntry (s : State) : Json :=
  Json.arr #[Json.str (statusOf s), Json.str (pcName s.cpc), Json.num s.log.length,
             Json.bool (s.ppc != .idle), Json.bool (s.kpc != .idle),
             Json.bool (s.cpc = .r1w && !s.woken && decide (s.returned.length < s.signalled))]

def handle (_ : Unit) (j : Json) : Except String (Unit × Json) := do
  let variant ← (← j.getObjVal? "variant").getStr?
  let toks ← (← j.getObjVal? "sched").getArr?
  let sched ← toks.toList.mapM (fun t => do let s ← t.getStr?; choiceOfToken s)
  let stepF : State → Choice → State ←
    if variant == "threads" then pure Sio.Simple.step
    else if variant == "asyncio" then pure Sio.Simple.Async.step
    else throw s!"bad variant {variant}"
  let (final, trace) := sched.foldl (fun (acc : State × List Json) c =>
    let s' := stepF acc.1 c
    (s', traceEntry s' :: acc.2)) (init, [])
  pure ((), Json.mkObj [("trace", Json.arr trace.reverse.toArray),
    ("log", Json.arr (final.log.map entryJson).toArray),
    ("returned", natsJson final.returned), ("arrived", Json.num final.arrived.length),
    ("buf", natsJson final.buf)])

def step := handle

def main : IO Unit := lineLoop () handle

end Sio.KSimple
