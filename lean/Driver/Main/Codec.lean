import Driver.KCodec
def main : IO Unit := Sio.KCodec.main
