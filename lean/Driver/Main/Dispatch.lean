import Driver.KDispatch
def main : IO Unit := Sio.KDispatch.main
