import Driver.KSched
def main : IO Unit := Sio.KSched.main
