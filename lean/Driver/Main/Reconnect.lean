import Driver.KReconnect
def main : IO Unit := Sio.KReconnect.main
