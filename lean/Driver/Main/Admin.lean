import Driver.KAdmin
def main : IO Unit := Sio.KAdmin.main
