import Driver.KSimple
def main : IO Unit := Sio.KSimple.main
