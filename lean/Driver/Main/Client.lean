import Driver.KClient
def main : IO Unit := Sio.KClient.main
