import Driver.KForward
def main : IO Unit := Sio.KForward.main
