import Driver.KRooms
def main : IO Unit := Sio.KRooms.main
