import Driver.KPubSub
def main : IO Unit := Sio.KPubSub.main
