import Driver.KServer
def main : IO Unit := Sio.KServer.main
