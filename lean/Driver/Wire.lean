/-
  Line-protocol plumbing: conversions between `Lean.Json` (transport syntax only) and the
  model's value types.  Strings travel as arrays of code points, bytes as lowercase hex,
  integers as decimal strings, so no escaping layer can hide a difference.
-/
import Lean.Data.Json
import Sio.Model.Json
import Sio.Model.Codec
open Lean (Json)
namespace Sio.Wire

def strToJson (s : Str) : Json := Json.arr (s.map (fun c => Json.num c.toNat)).toArray

def strOfJson (j : Json) : Except String Str := do
  let a ← j.getArr?
  let cs ← a.toList.mapM (fun x => do let n ← x.getNat?; pure (Char.ofNat n))
  pure cs

def optStrToJson : Option Str → Json
  | none => Json.null
  | some s => strToJson s

def optStrOfJson (j : Json) : Except String (Option Str) :=
  if j.isNull then pure none else do let s ← strOfJson j; pure (some s)

def hexNib (n : Nat) : Char := Nat.digitChar (n % 16)

def bytesToHex (b : Bytes) : String :=
  String.ofList (b.flatMap (fun x => [hexNib (x.toNat / 16), hexNib x.toNat]))

def nibOf (c : Char) : Nat :=
  if c.isDigit then c.toNat - 48 else if 'a' ≤ c ∧ c ≤ 'f' then c.toNat - 87 else 0

def bytesOfHex (s : String) : Bytes :=
  let rec go : List Char → Bytes
    | a :: b :: rest => UInt8.ofNat (nibOf a * 16 + nibOf b) :: go rest
    | _ => []
  go s.toList

def natOfString (s : String) : Except String Nat :=
  match s.toNat? with
  | some n => pure n
  | none => throw s!"bad nat {s}"

def intOfString (s : String) : Except String Int :=
  match s.toInt? with
  | some n => pure n
  | none => throw s!"bad int {s}"

partial def jToJson : J → Json
  | .null => Json.null
  | .bool b => Json.bool b
  | .int i => Json.mkObj [("i", Json.str (toString i))]
  | .flt l => Json.mkObj [("f", Json.str (String.ofList l))]
  | .str s => Json.mkObj [("s", strToJson s)]
  | .bin b => Json.mkObj [("b", Json.str (bytesToHex b))]
  | .arr xs => Json.arr (xs.map jToJson).toArray
  | .obj kvs => Json.mkObj [("o", Json.arr (kvs.map (fun (k, v) => Json.arr #[strToJson k, jToJson v])).toArray)]

partial def jOfJson (j : Json) : Except String J :=
  match j with
  | Json.null => pure .null
  | Json.bool b => pure (.bool b)
  | Json.arr a => do let xs ← a.toList.mapM jOfJson; pure (.arr xs)
  | Json.obj _ =>
    match j.getObjVal? "i" with
    | .ok v => do let s ← v.getStr?; let i ← intOfString s; pure (.int i)
    | .error _ =>
    match j.getObjVal? "f" with
    | .ok v => do let s ← v.getStr?; pure (.flt s.toList)
    | .error _ =>
    match j.getObjVal? "s" with
    | .ok v => do let s ← strOfJson v; pure (.str s)
    | .error _ =>
    match j.getObjVal? "b" with
    | .ok v => do let s ← v.getStr?; pure (.bin (bytesOfHex s))
    | .error _ =>
    match j.getObjVal? "o" with
    | .ok v => do
      let a ← v.getArr?
      let kvs ← a.toList.mapM (fun kv => do
        let p ← kv.getArr?
        match p.toList with
        | [k, x] => do let ks ← strOfJson k; let xv ← jOfJson x; pure (ks, xv)
        | _ => throw "bad kv")
      pure (.obj kvs)
    | .error _ => throw "bad J object"
  | _ => throw "bad J"

def optJToJson : Option J → Json
  | none => Json.mkObj [("none", Json.bool true)]
  | some j => Json.mkObj [("some", jToJson j)]

/-- optional payload: JSON `{"none":true}` or `{"some": J}` (so that `None` payload and JSON `null`
    stay distinct). -/
def optJOfJson (j : Json) : Except String (Option J) :=
  match j.getObjVal? "some" with
  | .ok v => do let x ← jOfJson v; pure (some x)
  | .error _ => pure none

def optNatToJson : Option Nat → Json
  | none => Json.null
  | some n => Json.str (toString n)

def optNatOfJson (j : Json) : Except String (Option Nat) :=
  if j.isNull then pure none else do let s ← j.getStr?; let n ← natOfString s; pure (some n)

def dataOfJson (j : Json) : Except String Data :=
  match j.getObjVal? "tuple" with
  | .ok v => do let a ← v.getArr?; let xs ← a.toList.mapM jOfJson; pure (.tuple xs)
  | .error _ =>
  match j.getObjVal? "one" with
  | .ok v => do let x ← jOfJson v; pure (.one x)
  | .error _ => pure .none

def dataToJson : Data → Json
  | .none => Json.mkObj [("none", Json.bool true)]
  | .one j => Json.mkObj [("one", jToJson j)]
  | .tuple xs => Json.mkObj [("tuple", Json.arr (xs.map jToJson).toArray)]

def packetToJson (p : Packet) : Json :=
  Json.mkObj [("type", Json.num p.type), ("nsp", optStrToJson p.nsp), ("id", optNatToJson p.id),
              ("data", optJToJson p.data)]

def packetOfJson (j : Json) : Except String Packet := do
  let t ← (← j.getObjVal? "type").getNat?
  let nsp ← optStrOfJson (← j.getObjVal? "nsp")
  let id ← optNatOfJson (← j.getObjVal? "id")
  let d ← optJOfJson (← j.getObjVal? "data")
  pure ⟨t, nsp, id, d⟩

def excJson (e : Err) : Json := Json.mkObj [("exc", Json.str e.name)]

def errOfName (s : String) : Err :=
  if s == "ValueError" then .valueError
  else if s == "TypeError" then .typeError
  else if s == "KeyError" then .keyError
  else if s == "IndexError" then .indexError
  else if s == "JSONDecodeError" then .jsonError
  else if s == "AttributeError" then .attributeError
  else .other

/-- digit-class table for the non-ASCII characters of a run: `[[cp, v]]`, `v = -1` for `other`. -/
def clsOfJson (j : Json) : Except String (Char → DC) := do
  let a ← j.getArr?
  let tbl ← a.toList.mapM (fun e => do
    let p ← e.getArr?
    match p.toList with
    | [c, v] => do
      let cn ← c.getNat?
      let vi ← v.getInt?
      pure (Char.ofNat cn, if vi < 0 then DC.other else DC.dec vi.toNat)
    | _ => throw "bad cls")
  pure (fun c => if c.toNat < 128 then asciiCls c else
    match tbl.find? (fun p => p.1 == c) with
    | some p => p.2
    | none => .non)

/-- Run a per-line handler over stdin; every answer is one line of JSON. -/
partial def lineLoop {σ : Type} (init : σ) (step : σ → Json → Except String (σ × Json)) : IO Unit := do
  let stdin ← IO.getStdin
  let stdout ← IO.getStdout
  let rec loop (s : σ) : IO Unit := do
    let line ← stdin.getLine
    if line.isEmpty then return ()
    match Json.parse line with
    | .error e =>
      stdout.putStrLn (Json.mkObj [("driver_error", Json.str e)]).compress
      stdout.flush
      loop s
    | .ok j =>
      match step s j with
      | .ok (s', out) =>
        stdout.putStrLn out.compress
        stdout.flush
        loop s'
      | .error e =>
        stdout.putStrLn (Json.mkObj [("driver_error", Json.str e)]).compress
        stdout.flush
        loop s
  loop init

end Sio.Wire
