import Driver.Wire
import Sio.Model.Reconnect
open Lean (Json)
namespace Sio.KReconnect
open Sio.Wire Sio.Reconnect

/-! Line protocol of the reconnection kernel.

  {"op":"run","cfg":{"reconnection":b,"attempts":n,"delay":"p/q","delayMax":"p/q","rf":"p/q"},
   "inputs":[{"connect":{"conn":n,"nss":[str…]}},
             {"connectNoWait":{"conn":n,"nss":[str…],"acc":[b…]}},   connect(wait=False), namespace i accepted iff acc[i]
             {"nsEnd":str},                                          the server ends one namespace of several
             {"lose":"transportError|clientDisconnect|serverDisconnect|serverClose",
              "outs":["T"|"L"|{"served":[b…]}…],"rands":["p/q"…],"abortAt":null|n,"fuel":n}]}
  → {"events":[…],"connected":b,"task":b,"clean":b} | {"inapplicable":true}
  {"op":"policy","cfg":…,"outcomes":[b…],"rands":[…],"abortAt":…,"fuel":n}
  → {"waits":["p/q"…],"attempts":n,"final":"connected|gaveUp|aborted|running"}

  Rationals travel as "numerator/denominator" strings (lowest terms on the way out), never as floats. -/

def ratOfJson (j : Json) : Except String Q := do
  let s ← j.getStr?
  match s.splitOn "/" with
  | [a, b] => do
    let n ← intOfString a
    let d ← natOfString b
    if d == 0 then throw "zero denominator" else pure (mkRat n d)
  | [a] => do let n ← intOfString a; pure (mkRat n 1)
  | _ => throw s!"bad rational {s}"

def ratToJson (q : Q) : Json := Json.str s!"{q.num}/{q.den}"

def cfgOfJson (j : Json) : Except String Cfg := do
  let rc ← (← j.getObjVal? "reconnection").getBool?
  let n ← (← j.getObjVal? "attempts").getNat?
  let d ← ratOfJson (← j.getObjVal? "delay")
  let m ← ratOfJson (← j.getObjVal? "delayMax")
  let f ← ratOfJson (← j.getObjVal? "rf")
  pure ⟨rc, n, d, m, f⟩

def outcomeOfJson (j : Json) : Except String Outcome :=
  match j with
  | Json.str "T" => pure .transport
  | Json.str "L" => pure .lost
  | _ => do
    let a ← (← j.getObjVal? "served").getArr?
    let bs ← a.toList.mapM (fun b => b.getBool?)
    pure (.served bs)

def causeOfName (s : String) : Except String Cause :=
  if s == "transportError" then pure .transportError
  else if s == "clientDisconnect" then pure .clientDisconnect
  else if s == "serverDisconnect" then pure .serverDisconnect
  else if s == "serverClose" then pure .serverClose
  else throw s!"bad cause {s}"

def optNat (j : Json) : Except String (Option Nat) :=
  if j.isNull then pure none else do let n ← j.getNat?; pure (some n)

def storedOfJson (j : Json) : Except String (Stored Nat) := do
  let c ← (← j.getObjVal? "conn").getNat?
  let a ← (← j.getObjVal? "nss").getArr?
  let nss ← a.toList.mapM strOfJson
  pure ⟨c, nss⟩

def inputOfJson (j : Json) : Except String (Input Nat) :=
  match j.getObjVal? "connect" with
  | .ok s => do let st ← storedOfJson s; pure (.connect st)
  | .error _ =>
  match j.getObjVal? "connectNoWait" with
  | .ok s => do
    let st ← storedOfJson s
    let a ← (← s.getObjVal? "acc").getArr?
    let acc ← a.toList.mapM (fun b => b.getBool?)
    pure (.connectNoWait st acc)
  | .error _ =>
  match j.getObjVal? "nsEnd" with
  | .ok n => do let ns ← strOfJson n; pure (.nsEnd ns)
  | .error _ => do
    let cause ← causeOfName (← (← j.getObjVal? "lose").getStr?)
    let outs ← (← j.getObjVal? "outs").getArr?
    let outs ← outs.toList.mapM outcomeOfJson
    let rands ← (← j.getObjVal? "rands").getArr?
    let rands ← rands.toList.mapM ratOfJson
    let ab ← optNat (← j.getObjVal? "abortAt")
    let fuel ← (← j.getObjVal? "fuel").getNat?
    pure (.lose cause ⟨fun k => outs.getD k .transport, fun k => rands.getD k 0, ab, fuel⟩)

def stateName : EioState → String
  | .connected => "connected" | .disconnecting => "disconnecting" | .disconnected => "disconnected"

def reasonText : Reason → String
  | .clientDisconnect => "client disconnect"
  | .serverDisconnect => "server disconnect"
  | .transportError => "transport error"

def finalName : Final → String
  | .connected => "connected" | .gaveUp => "gaveUp" | .aborted => "aborted" | .running => "running"

def evToJson : Ev Nat → Json
  | .wait d => Json.mkObj [("wait", ratToJson d)]
  | .attempt p => Json.mkObj [("attempt", Json.num p.conn),
      ("nss", Json.arr (p.nss.map strToJson).toArray)]
  | .handler h ns =>
    match h with
    | .connect => Json.mkObj [("h", Json.str "connect"), ("ns", strToJson ns)]
    | .connectError => Json.mkObj [("h", Json.str "connect_error"), ("ns", strToJson ns)]
    | .disconnect r => Json.mkObj [("h", Json.str "disconnect"), ("ns", strToJson ns),
        ("reason", Json.str (reasonText r))]
    | .disconnectFinal => Json.mkObj [("h", Json.str "__disconnect_final"), ("ns", strToJson ns)]
  | .notified st start => Json.mkObj [("notified", Json.str (stateName st)), ("start", Json.bool start)]
  | .taskCleared => Json.str "taskCleared"
  | .left => Json.str "left"

def step (_ : Unit) (j : Json) : Except String (Unit × Json) := do
  let op ← (← j.getObjVal? "op").getStr?
  if op == "run" then
    let cfg ← cfgOfJson (← j.getObjVal? "cfg")
    let ins ← (← j.getObjVal? "inputs").getArr?
    let ins ← ins.toList.mapM inputOfJson
    let c0 : Cli Nat := Cli.init cfg
    match run c0 ins with
    | none => pure ((), Json.mkObj [("inapplicable", Json.bool true)])
    | some (c, evs) =>
      pure ((), Json.mkObj [("events", Json.arr (evs.map evToJson).toArray),
        ("connected", Json.bool c.connected), ("task", Json.bool c.task),
        ("clean", Json.bool (cleanHistory c0 ins))])
  else if op == "policy" then
    let cfg ← cfgOfJson (← j.getObjVal? "cfg")
    let outs ← (← j.getObjVal? "outcomes").getArr?
    let outs ← outs.toList.mapM (fun b => b.getBool?)
    let rands ← (← j.getObjVal? "rands").getArr?
    let rands ← rands.toList.mapM ratOfJson
    let ab ← optNat (← j.getObjVal? "abortAt")
    let fuel ← (← j.getObjVal? "fuel").getNat?
    let r := reconnect cfg (fun k => outs.getD k false) (fun k => rands.getD k 0) ab fuel
    pure ((), Json.mkObj [("waits", Json.arr (r.waits.map ratToJson).toArray),
      ("attempts", Json.num r.attempts), ("final", Json.str (finalName r.final))])
  else throw s!"unknown op {op}"

def main : IO Unit := lineLoop () step

end Sio.KReconnect
