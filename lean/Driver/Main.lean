import Driver.KCodec

def main (args : List String) : IO UInt32 := do
  match args with
  | ["codec"] => Sio.KCodec.main; return 0
  | _ => IO.eprintln "usage: siodriver <kernel>"; return 2
