import Driver.KCodec
import Driver.KRooms
import Driver.KServer
import Driver.KSched
import Driver.KPubSub
import Driver.KClient
import Driver.KReconnect
import Driver.KDispatch
import Driver.KSimple
import Driver.KAdmin
import Driver.KForward

def main (args : List String) : IO UInt32 := do
  match args with
  | ["codec"] => Sio.KCodec.main; return 0
  | ["rooms"] => Sio.KRooms.main; return 0
  | ["server"] => Sio.KServer.main; return 0
  | ["sched"] => Sio.KSched.main; return 0
  | ["pubsub"] => Sio.KPubSub.main; return 0
  | ["client"] => Sio.KClient.main; return 0
  | ["reconnect"] => Sio.KReconnect.main; return 0
  | ["dispatch"] => Sio.KDispatch.main; return 0
  | ["simple"] => Sio.KSimple.main; return 0
  | ["admin"] => Sio.KAdmin.main; return 0
  | ["forward"] => Sio.KForward.main; return 0
  | _ => IO.eprintln "usage: siodriver <kernel>"; return 2
