import Driver.Wire
import Sio.Model.RoomsSpec
open Lean (Json)
namespace Sio.KRooms
open Sio.Wire Sio.Rooms

/-- model state and, folded over the same operations, the abstract specification -/
structure DSt where
  s : St
  σ : Spec

def init : DSt := ⟨[], Spec.init⟩

def strArr (j : Json) : Except String (List Str) := do
  let a ← j.getArr?
  a.toList.mapM strOfJson

def targetOfJson (j : Json) : Except String Target :=
  if j.isNull then pure .all else
  match j.getObjVal? "one" with
  | .ok v => do let r ← strOfJson v; pure (.one r)
  | .error _ =>
  match j.getObjVal? "many" with
  | .ok v => do let rs ← strArr v; pure (.many rs)
  | .error _ => throw "bad target"

def skipOfJson (j : Json) : Except String Skip :=
  if j.isNull then pure .none else
  match j.getObjVal? "one" with
  | .ok v => do let r ← strOfJson v; pure (.one r)
  | .error _ =>
  match j.getObjVal? "many" with
  | .ok v => do let rs ← strArr v; pure (.many rs)
  | .error _ => throw "bad skip"

def pairsToJson (l : List (Sid × Eio)) : Json :=
  Json.arr (l.map (fun p => Json.arr #[strToJson p.1, strToJson p.2])).toArray

def strsToJson (l : List Str) : Json := Json.arr (l.map strToJson).toArray

def ok : Json := Json.mkObj [("ok", Json.bool true)]

def both (d : DSt) (op : Op) : DSt := ⟨apply d.s op, d.σ.apply op⟩

def step (d : DSt) (j : Json) : Except String (DSt × Json) := do
  let op ← (← j.getObjVal? "op").getStr?
  if op == "reset" then pure (init, ok)
  else if op == "lost" then
    let eio ← strOfJson (← j.getObjVal? "eio")
    pure (both d (.lost eio), ok)
  else
  let ns ← strOfJson (← j.getObjVal? "ns")
  if op == "connect" then
    let eio ← strOfJson (← j.getObjVal? "eio")
    let sid ← strOfJson (← j.getObjVal? "sid")
    if (eioOf d.s ns sid).isSome then throw "connect: session id is not fresh"
    let ans := match connect d.s ns eio sid with
      | none => Json.mkObj [("dup", Json.bool true)]
      | some _ => ok
    pure (both d (.connect ns eio sid), ans)
  else if op == "enter" then
    let sid ← strOfJson (← j.getObjVal? "sid")
    let room ← strOfJson (← j.getObjVal? "room")
    let ans := match enter d.s ns sid room with
      | .ok _ => ok
      | .error e => excJson e
    pure (both d (.enter ns sid room), ans)
  else if op == "leave" then
    let sid ← strOfJson (← j.getObjVal? "sid")
    let room ← strOfJson (← j.getObjVal? "room")
    pure (both d (.leave ns sid room), ok)
  else if op == "close" then
    let room ← strOfJson (← j.getObjVal? "room")
    pure (both d (.closeRoom ns room), ok)
  else if op == "disconnect" then
    let sid ← strOfJson (← j.getObjVal? "sid")
    -- `can_disconnect`: where the DISCONNECT packet goes, if anywhere
    let ans := Json.mkObj [("eio", optStrToJson (eioOf d.s ns sid))]
    pure (both d (.disconnect ns sid), ans)
  else if op == "sid_of" then
    -- `sid_from_eio_sid` (client DISCONNECT packet)
    let eio ← strOfJson (← j.getObjVal? "eio")
    pure (d, Json.mkObj [("sid", optStrToJson (sidOf d.s ns eio))])
  else if op == "emit" then
    let t ← targetOfJson (← j.getObjVal? "target")
    let sk ← skipOfJson (← j.getObjVal? "skip")
    let univ ← strArr (← j.getObjVal? "universe")
    let rc := recipients d.s ns t sk.toList
    let sp := univ.filter (fun sid => d.σ.shouldReceive ns t sk.toList sid)
    pure (d, Json.mkObj [("to", pairsToJson rc), ("spec", strsToJson sp)])
  else if op == "rooms" then
    let sid ← strOfJson (← j.getObjVal? "sid")
    let univ ← strArr (← j.getObjVal? "universe")
    let sp := univ.filter (fun r => d.σ.member ns (some r) sid)
    pure (d, Json.mkObj [("rooms", strsToJson (getRooms d.s ns sid)), ("spec", strsToJson sp)])
  else throw s!"unknown op {op}"

def main : IO Unit := lineLoop init step

end Sio.KRooms
