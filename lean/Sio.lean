import Sio.Model.Json
import Sio.Model.Codec
import Sio.Model.Rooms
import Sio.Props.C01
import Sio.Model.Dispatch
import Sio.Props.C13
