import Sio.Model.Json
import Sio.Model.Codec
