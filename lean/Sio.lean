import Sio.Model.Json
import Sio.Model.Codec
import Sio.Model.Rooms
import Sio.Props.C01
