/-
  Glue (codec constants) — the packet type numbers and the two digit limits of the codec model are
  the literals `packet.py` has now (`Sio/Generated/Constants.lean` is regenerated from the source by
  `harness/translate_constants.py`; a changed literal makes this file fail to build).
-/
import Sio.Model.Codec
import Sio.Lemmas.CodecHdr
import Sio.Lemmas.CodecGuards
import Sio.Generated.Constants
namespace Sio.GlueCodec
open Sio

/-- packet type numbers (`packet.py`) -/
theorem packet_types_eq :
    Sio.CONNECT = Generated.CONNECT ∧ Sio.DISCONNECT = Generated.DISCONNECT ∧
    Sio.EVENT = Generated.EVENT ∧ Sio.ACK = Generated.ACK ∧
    Sio.CONNECT_ERROR = Generated.CONNECT_ERROR ∧ Sio.BINARY_EVENT = Generated.BINARY_EVENT ∧
    Sio.BINARY_ACK = Generated.BINARY_ACK := by decide

/-- `packet_names` is indexed by the type numbers -/
theorem packet_names_consistent :
    Generated.packetNames[Generated.CONNECT]? = some "CONNECT".toList ∧
    Generated.packetNames[Generated.DISCONNECT]? = some "DISCONNECT".toList ∧
    Generated.packetNames[Generated.EVENT]? = some "EVENT".toList ∧
    Generated.packetNames[Generated.ACK]? = some "ACK".toList ∧
    Generated.packetNames[Generated.CONNECT_ERROR]? = some "CONNECT_ERROR".toList ∧
    Generated.packetNames[Generated.BINARY_EVENT]? = some "BINARY_EVENT".toList ∧
    Generated.packetNames[Generated.BINARY_ACK]? = some "BINARY_ACK".toList ∧
    Generated.packetNames.length = 7 := by decide

/-- `if dash > 10: raise ValueError('too many attachments')` -/
theorem attDigitLimit_eq : Sio.attDigitLimit = Generated.attDigitLimit := by decide

/-- `if not ep[i].isdigit() or i >= 100: break` -/
theorem idDigitLimit_eq : Sio.idDigitLimit = Generated.idDigitLimit := by decide

/-- The two resource guards of C01 / C12 with the source's literals: an accepted header announces
    fewer than `10 ^ limit` attachments and carries an id below `10 ^ limit`. -/
theorem header_guards {cls : Char → DC} (hd : DecLt10 cls) {s : Str} {h : Hdr}
    (hh : decodeHdr cls s = .ok h) :
    h.natt < 10 ^ Generated.attDigitLimit ∧ ∀ i, h.id = some i → i < 10 ^ Generated.idDigitLimit := by
  obtain ⟨ep1, ep2, h1, h2⟩ := decodeHdr_parts hh
  refine ⟨scanAtt_bound hd h1, ?_⟩
  intro i hi
  rw [hi] at h2
  exact scanId_bound hd h2

/-- … and everything below the limits is accepted by the scanners. -/
theorem scanners_accept {cls : Char → DC} (hcls : AsciiCls cls) :
    (∀ n rest, n < 10 ^ Generated.attDigitLimit →
      scanAtt cls (natStr n ++ '-' :: rest) = .ok (n, rest)) ∧
    (∀ i body, i < 10 ^ Generated.idDigitLimit →
      (body = [] ∨ ∃ c r, body = c :: r ∧ (cls c).isDigit = false) →
      scanId cls (natStr i ++ body) = .ok (some i, body)) :=
  ⟨fun _ rest hn => scanAtt_count hcls hn rest, fun _ _ hi hb => scanId_id hcls hi hb⟩

end Sio.GlueCodec
