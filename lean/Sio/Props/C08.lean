import Sio.Model.Client
namespace Sio.C08
open Sio.Client
theorem placeholder_stub : True := trivial
end Sio.C08
