/-
  C08 — Client state mirrors the server; disconnect reported once per namespace.

  Model: Sio/Model/Client.lean (K7, follows /repo including the repair of F7, commit 9eb401e).
  Spec:  Sio/Model/ClientSpec.lean — the server's view of the connection (`View`), the conformance
         of the peer and the notifications the application must see (`specRun`).
  Histories are lists of inputs of any length; `specRun strict View.down h = some (v, t)` says that
  `h` is inside the property's quantifier, `v` is what the server has accepted and not yet ended
  after `h`, `t` the notifications it requires.  Helper lemmas: Sio/Lemmas/Client*.lean.

  Three regions are excluded by `specRun` because the unchanged code violates the property there
  (known findings, DESIGN §6; the full statements and machine-checked witnesses are at the end):
    F8   loss-inside-connect-window          transport lost before `connect()` has returned
    F8b  disconnect-inside-connect-window    server DISCONNECT before `connect()` has returned
    F9   root-refused-nowait-stale-namespaces   `/` refused for a `connect(wait=False)`
-/
import Sio.Lemmas.ClientSpec
import Sio.Lemmas.ClientStep
import Sio.Lemmas.ClientTransport
namespace Sio.C08
open Sio Sio.Client

/-- "fully disconnected": nothing of a connection is left in the client -/
def Clean (c : Cli) : Prop :=
  c.connected = false ∧ c.namespaces = [] ∧ c.eio = .disconnected ∧ c.cbs = [] ∧ c.ctr = []
  ∧ c.binbuf = none ∧ c.sid = none

/-- **C08.connect_sends** — `connect()` on a disconnected client whose transport comes up (and stays
    up during the call) invokes an auth callable exactly once and then hands over exactly one
    CONNECT per requested namespace, in order, each carrying the auth payload (`auth or {}`);
    nothing else it sends is a CONNECT packet. -/
theorem connect_sends (cfg : Cfg) (c : Cli) (nss : List Ns) (auth : Auth) (wait : Bool) (es : Str)
    (reacts : List (List Ev)) (hc : c.connected = false) (he : c.eio = .disconnected)
    (hq : quiet reacts = true) :
    connects (connect cfg c nss auth wait (.accept es) reacts).2
      = (if auth.callable then [ConnOut.auth] else [])
        ++ nss.map (fun n => ConnOut.pkt (some n) (some auth.real)) := by
  have hl := connects_connectLoop cfg auth.real nss
    { c with requested := nss, namespaces := [], eio := .connected, sid := some es } reacts hq hc rfl
  rw [connect_accept cfg c nss auth wait es reacts hc he]
  have hoa : connects (if auth.callable = true then [Out.authCall] else [])
      = (if auth.callable then [ConnOut.auth] else []) := by
    split <;> simp [connects_cons, connectOf]
  split
  · simp [hoa, hl.1, connects_apiDisconnect, connects_cons, connectOf]
  · simp [hoa, hl.1, connects_cons, connectOf]

/-- The state after a conformant history is related to the server's view (`R`, Sio/Lemmas/ClientSim). -/
theorem related (cfg : Cfg) (strict : Bool) {h : List Input} {v : View} {t : List Note}
    (hs : specRun strict View.down h = some (v, t)) :
    ∃ q, R .live q (run cfg init h).1 v ∧ notes (run cfg init h).2 = t :=
  sim_run cfg strict h (R_init []) hs

/-- **C08.wait_all** (with `failed_connect_clean` at full strength, F7 repaired) — after any
    conformant history that left the client disconnected, `connect(wait=True)` whose window is
    conformant (`specLoop`: CONNECT or CONNECT_ERROR per requested namespace in any order, events
    and acks in between)
      * reports to the application exactly the acceptances and refusals of the server, in order
        (`connect` once per accepted namespace, `connect_error` once per refusal),
      * returns normally iff every requested namespace was accepted — then `namespaces` is exactly
        the accepted map and `connected` is set,
      * and otherwise raises `ConnectionError` and leaves the client fully disconnected.
    (The conformant window contains no loss of the transport and no DISCONNECT — regions F8 / F8b.) -/
theorem wait_all (cfg : Cfg) {h : List Input} {v : View} {t : List Note}
    (hs : specRun false View.down h = some (v, t)) (hup : v.up = false)
    (nss : List Ns) (auth : Auth) (es : Str) (reacts : List (List Ev)) (hne : nss ≠ [])
    {v1 : View} {t1 : List Note}
    (hl : specLoop true { up := true, esid := some es, asked := nss } nss reacts = some (v1, t1)) :
    let r := connect cfg (run cfg init h).1 nss auth true (.accept es) reacts
    notes r.2 = t1
    ∧ ((v1.asked = [] ∧ v1.ref = []) →
        r.2.getLast? = some (.result .none) ∧ r.1.connected = true ∧ r.1.namespaces = v1.acc
        ∧ r.1.eio = .connected)
    ∧ (¬ (v1.asked = [] ∧ v1.ref = []) →
        r.2.getLast? = some (.raised .connectionError) ∧ Clean r.1) := by
  obtain ⟨q, hR, _⟩ := related cfg false hs
  have hc : (run cfg init h).1.connected = false := by have := hR.conn; simp [hup] at this; exact this
  have heio : (run cfg init h).1.eio = .disconnected := by have := hR.eio; simp [hup] at this; exact this
  have hopen := R_window_open hR hup nss hne true es
  obtain ⟨hR1, hn1⟩ := sim_loop cfg auth.real true nss hopen hl
  have hdec := sameSet_decision hR1
  have hoa : notes (if auth.callable = true then [Out.authCall] else []) = [] := by
    split <;> simp
  have he1 := hR1.eio_win
  have hcc : (connectLoop cfg auth.real
      { (run cfg init h).1 with requested := nss, namespaces := [], eio := .connected, sid := some es }
      nss reacts).1.connected = false := by simpa using hR1.conn
  intro r
  have hr : r = connect cfg (run cfg init h).1 nss auth true (.accept es) reacts := rfl
  rw [connect_accept cfg _ nss auth true es reacts hc heio, hdec] at hr
  by_cases hall : v1.asked = [] ∧ v1.ref = []
  · have hb : (v1.asked.isEmpty && v1.ref.isEmpty) = true := by simp [hall.1, hall.2]
    simp only [hb, Bool.not_true, Bool.and_false, Bool.false_eq_true, if_false] at hr
    refine ⟨by rw [hr]; simp [hoa, hn1], fun _ => ?_, fun hn => absurd hall hn⟩
    rw [hr]
    refine ⟨by simp, rfl, ?_, he1⟩
    exact hR1.ns1 (by rw [hall.2]; simp)
  · have hb : (v1.asked.isEmpty && v1.ref.isEmpty) = false := by
      cases hq : (v1.asked.isEmpty && v1.ref.isEmpty) with
      | false => rfl
      | true =>
        simp only [Bool.and_eq_true, List.isEmpty_iff] at hq
        exact absurd hq hall
    simp only [hb, Bool.not_false, Bool.and_self, if_true] at hr
    refine ⟨?_, fun ha => absurd ha hall, fun _ => ?_⟩
    · rw [hr]
      simp [apiDisconnect, eioDisconnect, onEioDisconnect, he1, hcc, hoa, hn1, notes_flatMap_sendPkt]
    · rw [hr]
      refine ⟨by simp, ?_⟩
      simp [Clean, apiDisconnect, eioDisconnect, onEioDisconnect, he1, hcc]

/-- the refusal reaches the `connect_error` handler with the server's arguments
    (`None` → none, a list → its items, anything else → one argument) -/
theorem refusal_reported (cfg : Cfg) (c : Cli) (ns : Option Ns) (data : Option J) :
    (handleError cfg c ns data).2
      = (trigger cfg sConnectError (nsOr ns) (errArgs data)).1 := by
  unfold handleError
  simp only
  split <;> rfl

/-- **C08.mirror** (`_partial`: histories inside `specRun`, i.e. without F8 / F8b / F9) — after every
    conformant history the client's namespace map *is* the map of namespaces the server has accepted
    and not yet ended, with the sids the server assigned; `connected` is set exactly while the
    transport of an established connection is up, which implies `eio.state == 'connected'`; and
    from the moment every requested namespace has been accepted, `connected` holds iff a namespace
    remains. -/
theorem mirror_partial (cfg : Cfg) {h : List Input} {v : View} {t : List Note}
    (hs : specRun false View.down h = some (v, t)) :
    let c := (run cfg init h).1
    c.namespaces = v.acc
    ∧ c.connected = v.up
    ∧ (c.connected = true → c.eio = .connected)
    ∧ (v.asked = [] → v.ref = [] → (c.connected = true ↔ v.acc ≠ [])) := by
  obtain ⟨q, hR, _⟩ := related cfg false hs
  intro c
  have hconn : c.connected = v.up := by have := hR.conn; simpa using this
  refine ⟨hR.ns_live, hconn, ?_, ?_⟩
  · intro hc
    have hup : v.up = true := by rw [← hconn]; exact hc
    have := hR.eio; simp [hup] at this; exact this
  · intro ha hr
    rw [hconn]
    constructor
    · intro hup
      rcases hR.alive hup with h1 | h1 | h1
      · exact absurd ha h1
      · exact absurd hr h1
      · exact h1
    · intro hacc
      cases hup : v.up with
      | true => rfl
      | false => have := (hR.down hup).1; rw [this] at hacc; exact absurd rfl hacc

/-- **C08.bad_namespace** — `emit`, `send` and `call` on a namespace that is not in `namespaces` raise
    `BadNamespaceError`, hand nothing to the transport and change nothing (any state) … -/
theorem bad_namespace (cfg : Cfg) (c : Cli) (ev : Str) (d : Data) (ns : Option Ns) (cb : Option Cb)
    (tok : Nat) (reacts : List Ev) (hn : hasNs c (nsOr ns) = false) :
    step cfg c (.emit ev d ns cb reacts) = (c, [.raised .badNamespace])
    ∧ step cfg c (.send d ns cb reacts) = (c, [.raised .badNamespace])
    ∧ step cfg c (.call ev d ns tok reacts) = (c, [.raised .badNamespace]) := by
  simp [step, emit, call, emitCore, hn]

/-- … and after a conformant history "not in `namespaces`" is "not accepted by the server, or
    ended": the three calls raise exactly on those namespaces. -/
theorem bad_namespace_iff (cfg : Cfg) {h : List Input} {v : View} {t : List Note}
    (hs : specRun false View.down h = some (v, t)) (n : Ns) :
    hasNs (run cfg init h).1 n = hasKey v.acc n := by
  obtain ⟨q, hR, _⟩ := related cfg false hs
  rw [hasNs, hR.ns_live]

/-- **C08.connect_handler_once**, one packet — a CONNECT for a namespace that is not yet connected adds
    it (with the server's sid) and runs `_trigger_event('connect', ns)` exactly once; a CONNECT for
    a namespace that is already connected does nothing at all. -/
theorem connect_handler_once (cfg : Cfg) (c : Cli) (ns : Option Ns) (data : Option J) :
    (hasNs c (nsOr ns) = true → handleConnect cfg c ns data = (c, []))
    ∧ (hasNs c (nsOr ns) = false → ∀ s, sidOf c data = .ok s →
        handleConnect cfg c ns data
          = ({ c with namespaces := c.namespaces ++ [(nsOr ns, s)] },
             [.trig sConnect (nsOr ns) (cfg.resolve (nsOr ns) sConnect [])])) := by
  refine ⟨fun hn => by simp [handleConnect, hn], fun hn s hs => ?_⟩
  unfold handleConnect trigger
  simp only [hn, hs, Bool.false_eq_true, if_false]
  cases cfg.resolve (nsOr ns) sConnect [] with
  | none => rfl
  | some r => rfl

/-- **C08.connect_handler_once / disconnect_once**, histories (`_partial`: inside `specRun`) — along every conformant history the
    sequence of `connect`, `connect_error` and `disconnect` notifications the application sees
    is exactly the sequence of acceptances, refusals and endings on the server's side: one
    `connect` per accepted namespace, one `disconnect` per accepted namespace that ends —
    whichever of server DISCONNECT (of one namespace or, one by one, of all), transport loss,
    engine.io CLOSE or the client's `disconnect()` ends it, in any order — and no other. -/
theorem notifications_partial (cfg : Cfg) (strict : Bool) {h : List Input} {v : View} {t : List Note}
    (hs : specRun strict View.down h = some (v, t)) :
    notes (run cfg init h).2 = t := by
  obtain ⟨q, _, hn⟩ := related cfg strict hs
  exact hn

/-- **C08.disconnect_once** (`_partial`: inside `specRun`) — in every history in which each `connect(wait=True)` was fully accepted
    (`strict`), for every namespace the number of `connect` notifications equals the number of
    `disconnect` notifications plus one if the namespace is still connected: every namespace that
    was connected gets exactly one disconnect notification when it ends, never two, never none. -/
theorem disconnect_once_partial (cfg : Cfg) {h : List Input} {v : View} {t : List Note}
    (hs : specRun true View.down h = some (v, t)) (n : Ns) :
    (notes (run cfg init h).2).count (.accepted n)
      = (notes (run cfg init h).2).count (.ended n)
        + (if hasNs (run cfg init h).1 n then 1 else 0) := by
  obtain ⟨q, hR, hn⟩ := related cfg true hs
  have hb := (spec_run_balance h VInv_down hs).2 n
  rw [hn, hasNs, hR.ns_live]
  simp only [cntA, cntE, ind] at hb
  have h0 : ind View.down.acc n = 0 := ind_down n
  simp only [ind] at h0
  omega

/-- **C08.reset** (`_partial`: inside `specRun`; false in region F9, see `F9_witness`) — once the connection is over (however it ended) nothing of it is left: no
    namespace, no session id, no pending callback, no id counter, no half-received binary packet;
    in particular none of them survives into the next connection. -/
theorem reset_partial (cfg : Cfg) {h : List Input} {v : View} {t : List Note}
    (hs : specRun false View.down h = some (v, t)) (hup : v.up = false) :
    Clean (run cfg init h).1 := by
  obtain ⟨q, hR, _⟩ := related cfg false hs
  have hd := hR.down hup
  have hconn : (run cfg init h).1.connected = false := by have := hR.conn; simpa [hup] using this
  have heio : (run cfg init h).1.eio = .disconnected := by have := hR.eio; simpa [hup] using this
  refine ⟨hconn, ?_, heio, hd.2.1, hd.2.2, ?_, ?_⟩
  · rw [hR.ns_live, hd.1]; rfl
  · rw [hR.bin, hd.1]; rfl
  · rw [hR.sid, hd.1]; rfl

/-- **C08.mirror / reset with `reconnection=True`** (`_partial`: inside `specRun`) — everything above
    holds verbatim for a client created with `reconnection=b`: an accidental loss of the transport
    additionally *starts* the reconnection effort (`Out.effort`; the effort itself is C10's), and in
    the window between the loss and the first attempt the client mirrors "nothing connected":
    the notifications are those of the server's view (one `disconnect` per connected namespace),
    `namespaces`, `connected`, sid, callbacks and binary buffer are those of a disconnected client
    — so `emit`/`send`/`call` raise `BadNamespaceError` there (`bad_namespace`). -/
theorem reconnecting_partial (cfg : Cfg) (b : Bool) {h : List Input} {v : View} {t : List Note}
    (hs : specRun false View.down h = some (v, t)) :
    let c := (run cfg (initR b) h).1
    notes (run cfg (initR b) h).2 = t ∧ c.namespaces = v.acc ∧ c.connected = v.up
    ∧ (v.up = false → Clean c) := by
  obtain ⟨q, hR, hn⟩ := sim_run cfg false h (R_initR b []) hs
  intro c
  have hconn : c.connected = v.up := by have := hR.conn; simpa using this
  refine ⟨hn, hR.ns_live, hconn, fun hup => ?_⟩
  have hd := hR.down hup
  have heio : c.eio = .disconnected := by have := hR.eio; simpa [hup] using this
  refine ⟨by rw [hconn, hup], ?_, heio, hd.2.1, hd.2.2, ?_, ?_⟩
  · rw [hR.ns_live, hd.1]; rfl
  · rw [hR.bin, hd.1]; rfl
  · rw [hR.sid, hd.1]; rfl

/-- the effort is started by an accidental loss of a live transport when `reconnection` is set and no
    effort is pending — and by nothing else (`startEffort` occurs in `onLost` only) -/
theorem effort_started (cfg : Cfg) (c : Cli) (he : c.eio = .connected) (hr : c.reconnection = true)
    (hn : c.effort = false) :
    (deliver cfg c .lost).2.getLast? = some .effort ∧ (deliver cfg c .lost).1.effort = true := by
  have h1 : (onEioDisconnect cfg c rTransport).1.reconnection = true := by
    unfold onEioDisconnect; split <;> exact hr
  have h2 : (onEioDisconnect cfg c rTransport).1.effort = false := by
    unfold onEioDisconnect; split <;> exact hn
  simp [deliver, onLost, he, startEffort, h1, h2]

/-- **C08.reset**, the part that needs no hypothesis at all — after *every* history (conformant
    peer or not, the three known regions included): while the transport is down the client holds
    no session id and no half-received binary packet. -/
theorem reset_transport (cfg : Cfg) (h : List Input) :
    (run cfg init h).1.eio = .disconnected →
      (run cfg init h).1.binbuf = none ∧ (run cfg init h).1.sid = none :=
  tinv_run cfg h init TInv_init

/-! ### the excluded regions: full statements and negation witnesses

  The *full* statement of `mirror` (and of `reset`, `disconnect_once`) is the one above with the
  three exclusions removed from `specEv` — i.e. with `.lost`/`.close`/DISCONNECT treated inside the
  connect window exactly as outside it (the connection, resp. the namespace, ends and the
  application is told), and CONNECT_ERROR for `/` treated like any other refusal:

      ∀ h, specRunFull View.down h = some (v, t) →
        (run cfg init h).1.namespaces = v.acc ∧ ((run cfg init h).1.connected = true →
        (run cfg init h).1.eio = .connected) ∧ notes (run cfg init h).2 = t ∧ (v.up = false → Clean …)

  It is FALSE for the unchanged code.  The three witnesses below are conformant servers doing
  something the full statement allows; the model (which follows the code) ends up in a state the
  statement forbids; `specRun` rejects exactly these histories (`isNone`). -/

def cfg0 : Cfg := ⟨fun _ _ _ => none, fun _ _ => .none⟩
def nsA : Ns := ['/', 'a']
def accept (n : Ns) (s : Str) : Ev :=
  .msg (.str []) (.ok (⟨CONNECT, some n, none, some (.obj [(sSid, .str s)])⟩, 0))
def refuse (n : Ns) : Ev :=
  .msg (.str []) (.ok (⟨CONNECT_ERROR, some n, none, some (.str ['n', 'o'])⟩, 0))
def srvDisconnect (n : Ns) : Ev := .msg (.str []) (.ok (⟨DISCONNECT, some n, none, none⟩, 0))

/-- F8: CONNECT then loss of the transport, both before `connect()` returns -/
def hF8 : List Input := [.connect [root] ⟨false, none⟩ true (.accept ['E']) [[accept root ['s'], .lost]]]

/-- `connected` on a dead transport, the namespace still listed, no disconnect notification — and
    the client is wedged: `connect()` says "Already connected", `disconnect()` changes nothing. -/
theorem F8_witness :
    (run cfg0 init hF8).1.connected = true ∧ (run cfg0 init hF8).1.eio = .disconnected
    ∧ hasNs (run cfg0 init hF8).1 root = true
    ∧ (notes (run cfg0 init hF8).2).count (.ended root) = 0
    ∧ (run cfg0 init (hF8 ++ [.disconnect])).1.connected = true
    ∧ (specRun false View.down hF8).isNone = true := by decide

/-- F8b: CONNECT immediately followed by DISCONNECT of the same namespace, before `connect()` returns -/
def hF8b : List Input :=
  [.connect [root] ⟨false, none⟩ true (.accept ['E']) [[accept root ['s'], srvDisconnect root]]]

/-- the server has ended the namespace; the client lists it, is `connected`, told nobody -/
theorem F8b_witness :
    (run cfg0 init hF8b).1.connected = true ∧ hasNs (run cfg0 init hF8b).1 root = true
    ∧ (notes (run cfg0 init hF8b).2).count (.ended root) = 0
    ∧ (specRun false View.down hF8b).isNone = true := by decide

/-- F9: `connect(['/', '/a'], wait=False)`, `/` refused, `/a` accepted, then the transport is lost -/
def hF9 : List Input :=
  [.connect [root, nsA] ⟨false, none⟩ false (.accept ['E']) [],
   .ev (refuse root), .ev (accept nsA ['s']), .ev .lost]

/-- the connection is over, `/a` is still listed and was never told about its end -/
theorem F9_witness :
    (run cfg0 init hF9).1.eio = .disconnected ∧ (run cfg0 init hF9).1.connected = false
    ∧ hasNs (run cfg0 init hF9).1 nsA = true
    ∧ (notes (run cfg0 init hF9).2).count (.accepted nsA) = 1
    ∧ (notes (run cfg0 init hF9).2).count (.ended nsA) = 0
    ∧ (specRun false View.down hF9).isNone = true := by decide

/-! ### non-vacuity: conformant histories exist, with several namespaces, every kind of ending,
    partial refusal and reconnection -/

def nsB : Ns := ['/', 'b']

/-- connect `/a`,`/b` (waiting), the server ends `/a`, the transport is lost, reconnect `/` without
    waiting, accepted later, the client disconnects; then a refused connect -/
def hOk : List Input :=
  [.connect [nsA, nsB] ⟨true, some (.obj [])⟩ true (.accept ['E']) [[], [accept nsA ['1'], accept nsB ['2']]],
   .ev (srvDisconnect nsA), .emit ['x'] .none (some nsB) (some ⟨1, .fn⟩) [], .ev .lost,
   .connect [root] ⟨false, none⟩ false (.accept ['F']) [], .ev (accept root ['3']), .disconnect,
   .connect [nsA, nsB] ⟨false, none⟩ true (.accept ['G']) [[accept nsA ['4']], [refuse nsB]]]

example : (specRun false View.down hOk).isSome = true := by decide
example : (specRun true View.down (hOk.take 7)).isSome = true := by decide
example : (notes (run cfg0 init hOk).2).length = 8 := by decide
/-- hypotheses of `wait_all`: a window with an acceptance and a refusal -/
example : (specLoop true { up := true, esid := some ['G'], asked := [nsA, nsB] } [nsA, nsB]
    [[accept nsA ['4']], [refuse nsB]]).isSome = true := by decide
/-- hypotheses of `connect_sends` -/
example : quiet [[], [accept nsA ['1'], accept nsB ['2']]] = true ∧ init.connected = false
    ∧ init.eio = .disconnected := by decide

end Sio.C08
