/-
  C04 (asyncio schedules) — "the disconnect handler runs exactly once … from any interleaving of
  these".

  Model: Sio/Model/Sched.lean with `atomicGate = true` (asyncio: `is_connected`+`pre_disconnect`
  are one step, nothing can run between them).  `st0` is ANY initial state (`Init`): any number of
  tasks of any kinds (`api`, `clientDisc`, `lost` with any namespace snapshot, `conn`, and `refuse` —
  a CONNECT whose connect handler refuses while the others are under way) at their first program
  counter, the sid connected to any set of namespaces, any set of namespaces kept alive by other
  clients.  `sched : List Nat` is ANY schedule — any length, any task indices (indices of finished
  tasks / out of range are no-ops).  Since every prefix of a schedule is a schedule, a statement
  about `run true st0 sched` for all `sched` is a statement about every intermediate state of every
  run.

  The refusing CONNECT (`_handle_connect`, `if success is False:`) is itself a terminating path of
  the session it registered, one that skips the disconnect handler: handler decides → gate
  (`is_connected` + `pre_disconnect`) → send the refusal → `manager.disconnect`.  `marks n` is the
  ghost record of the kinds of the tasks that passed the gate of namespace `n`; "the gate of `n` was
  won by a refusal" is `marks n = [.refuse]`.
-/
import Sio.Lemmas.Sched
namespace Sio.C04sched
open Sio.Sched

/-- The phase invariant (four phases of a session ended by a terminating cause, three of a session
    ended by its own refused CONNECT) holds after every schedule (= at every step of every
    schedule). -/
theorem async_inv (st0 : St) (h0 : Init st0) (sched : List Nat) :
    Inv st0.sh.mem (run true st0 sched) :=
  (run_inv_atomic st0.sh.mem sched st0 (init_inv st0 h0).1 (init_inv st0 h0).2).1

/-- the same, spelled out for the k-th step of a given schedule -/
theorem async_inv_every_step (st0 : St) (h0 : Init st0) (sched : List Nat) (k : Nat) :
    Inv st0.sh.mem (run true st0 (sched.take k)) :=
  async_inv st0 h0 (sched.take k)

/-- **Exactly once under every asyncio interleaving.**  For every schedule of any number of
    concurrent terminating tasks, refusing CONNECTs included:
    * the disconnect handler has run at most once per (sid, namespace) — at every step;
    * no task has raised and `_handle_eio_disconnect` has swallowed nothing — at every step;
    * at quiescence, for every namespace the sid was connected to and that at least one task
      targets: the sid is in no room and not pending, and EITHER a terminating cause won the gate,
      the handler ran exactly once and no refusal was sent, OR a refusing CONNECT won the gate, the
      refusal was sent exactly once and the handler did not run; when no refusing CONNECT has the
      namespace on its list, the handler ran exactly once;
    * a namespace the sid was not connected to: no handler call, no trace;
    * namespaces no task targets are unaffected (same membership, no call, nothing pending, no
      refusal, nobody passed the gate). -/
theorem async_disconnect_once (st0 : St) (h0 : Init st0) (sched : List Nat) :
    (∀ n, ncalls (run true st0 sched) n ≤ 1)
    ∧ anyRaised (run true st0 sched) = false
    ∧ (run true st0 sched).sh.contained = 0
    ∧ (allDone (run true st0 sched) = true → ∀ n, st0.sh.mem n = true → targeted st0 n = true →
        residue (run true st0 sched) n = false ∧
        ((ncalls (run true st0 sched) n = 1 ∧ (run true st0 sched).sh.refusals n = 0 ∧
            ∃ k, k ≠ Kind.refuse ∧ (run true st0 sched).sh.marks n = [k]) ∨
         (ncalls (run true st0 sched) n = 0 ∧ (run true st0 sched).sh.refusals n = 1 ∧
            (run true st0 sched).sh.marks n = [Kind.refuse])) ∧
        (refuseTargets st0 n = false → ncalls (run true st0 sched) n = 1))
    ∧ (∀ n, st0.sh.mem n = false →
        ncalls (run true st0 sched) n = 0 ∧ residue (run true st0 sched) n = false)
    ∧ (∀ n, targeted st0 n = false →
        (run true st0 sched).sh.mem n = st0.sh.mem n ∧ ncalls (run true st0 sched) n = 0 ∧
        (run true st0 sched).sh.pend n = 0 ∧ (run true st0 sched).sh.refusals n = 0 ∧
        (run true st0 sched).sh.marks n = []) :=
  conclusions true st0 h0 sched (fun pre _ => async_inv st0 h0 pre)

/-- at most once, in the words of the property (DESIGN's name `C04.disconnect_once_sched`): at every
    step at most one handler call; at quiescence, for a targeted namespace of the sid: no trace, the
    handler count is 1 or — when a refusal was sent — 0; it is 0 exactly when the gate was won by a
    refusing CONNECT, 1 exactly when it was won by a terminating cause; and it is 1 whenever no
    refusing CONNECT has the namespace on its list. -/
theorem disconnect_once_sched (st0 : St) (h0 : Init st0) (sched : List Nat) (n : Ns) :
    ncalls (run true st0 sched) n ≤ 1 ∧
    (allDone (run true st0 sched) = true → st0.sh.mem n = true → targeted st0 n = true →
      (ncalls (run true st0 sched) n = 1 ∨
        (ncalls (run true st0 sched) n = 0 ∧ (run true st0 sched).sh.refusals n = 1)) ∧
      ((run true st0 sched).sh.calls n = [] ↔ (run true st0 sched).sh.marks n = [Kind.refuse]) ∧
      (ncalls (run true st0 sched) n = 1 ↔
        ∃ k, k ≠ Kind.refuse ∧ (run true st0 sched).sh.marks n = [k]) ∧
      (refuseTargets st0 n = false → ncalls (run true st0 sched) n = 1) ∧
      (run true st0 sched).sh.mem n = false ∧ (run true st0 sched).sh.pend n = 0) := by
  obtain ⟨h1, _, _, h4, _, _⟩ := async_disconnect_once st0 h0 sched
  refine ⟨h1 n, fun hd hm ht => ?_⟩
  obtain ⟨q2, q, qr⟩ := h4 hd n hm ht
  simp only [residue, Bool.or_eq_false_iff, decide_eq_false_iff_not] at q2
  refine ⟨?_, ?_, ?_, qr, q2.1, by omega⟩
  · rcases q with ⟨qa, _, _⟩ | ⟨qa, qb, _⟩
    · exact Or.inl qa
    · exact Or.inr ⟨qa, qb⟩
  · rcases q with ⟨qa, _, k, hk, hm⟩ | ⟨qa, _, hm⟩
    · constructor
      · intro hc; simp [ncalls, hc] at qa
      · intro hx; rw [hm] at hx; simp at hx; exact absurd hx hk
    · exact ⟨fun _ => hm, fun _ => List.eq_nil_of_length_eq_zero qa⟩
  · rcases q with ⟨qa, _, k, hk, hm⟩ | ⟨qa, _, hm⟩
    · exact ⟨fun _ => ⟨k, hk, hm⟩, fun _ => qa⟩
    · constructor
      · intro hx; omega
      · rintro ⟨k, hk, hx⟩; rw [hm] at hx; simp at hx; exact absurd hx.symm hk

/-- **A refused connection is never reported as ended.**  Once a refusing CONNECT has passed the
    gate of namespace `n` — after the prefix `s1` a task of kind `refuse` sits between its
    `pre_disconnect` and the end of its `manager.disconnect` (`refusedPast`), or the gate record of
    `n` names a refusal — no continuation `s2` of the schedule, whatever the other tasks do, adds a
    disconnect-handler call for `n`; and the refusal is the only task that ever passed that gate. -/
theorem refused_never_notified_after (st0 : St) (h0 : Init st0) (s1 s2 : List Nat) (n : Ns)
    (h : (run true st0 s1).tasks.any (refusedPast n) = true ∨
         Kind.refuse ∈ (run true st0 s1).sh.marks n) :
    (run true st0 (s1 ++ s2)).sh.calls n = [] ∧
    (run true st0 (s1 ++ s2)).sh.marks n = [Kind.refuse] := by
  apply refused_sticky true st0 s1 s2 n (async_inv st0 h0 (s1 ++ s2))
  rcases h with h | h
  · rw [inv_refusedPast _ _ (async_inv st0 h0 s1) n h]; omega
  · exact List.count_pos_iff.mpr h

/-- **The gate is passed at most once, refusals included.**  At every step of every schedule, for
    every namespace: at most one task has ever passed the gate (so at most one terminating cause
    passes it before the connect handler answers, and none after a refusal passed); every handler
    call belongs to a passing task that is not a refusal; a refusal is sent only by a refusing
    CONNECT that passed; when a terminating cause `k` has passed, it is the only one and no refusal
    is ever sent for that session; when a refusal has passed, it is the only one and the handler is
    not called. -/
theorem refused_before_gate (st0 : St) (h0 : Init st0) (sched : List Nat) (n : Ns) :
    ((run true st0 sched).sh.marks n).length ≤ 1
    ∧ ncalls (run true st0 sched) n + nref ((run true st0 sched).sh.marks n)
        ≤ ((run true st0 sched).sh.marks n).length
    ∧ (run true st0 sched).sh.refusals n ≤ nref ((run true st0 sched).sh.marks n)
    ∧ (∀ k, k ≠ Kind.refuse → k ∈ (run true st0 sched).sh.marks n →
        (run true st0 sched).sh.marks n = [k] ∧ (run true st0 sched).sh.refusals n = 0)
    ∧ (Kind.refuse ∈ (run true st0 sched).sh.marks n →
        (run true st0 sched).sh.calls n = [] ∧ (run true st0 sched).sh.marks n = [Kind.refuse]) := by
  obtain ⟨g1, g2, g3, g4⟩ := gate_facts _ _ (async_inv st0 h0 sched) n
  refine ⟨g1, g2, g3, ?_, g4⟩
  intro k hk hmem
  have hl : (run true st0 sched).sh.marks n = [k] := marks_single g1 hmem
  refine ⟨hl, ?_⟩
  rw [hl] at g3
  have : nref [k] = 0 := by cases k <;> simp_all [nref]
  omega

/-! ### the reason clause: "… with a reason naming one of the causes in progress"

  `calls n` records every handler invocation with the kind of the task that made it — the `reason`
  argument (`SERVER_DISCONNECT` for `api`, `CLIENT_DISCONNECT` for `clientDisc`, the engine.io
  reason for `lost`).  `marks n` records the kinds of the tasks that passed the gate of `n`. -/

/-- **The reason is the gate winner's** — at every step of every schedule: when the handler of `n`
    has been invoked with reason `k`, the task that passed the gate of `n` is of kind `k`, and it is
    the only one that ever passed it. -/
theorem reason_is_gate_winner (st0 : St) (h0 : Init st0) (sched : List Nat) (n : Ns) (k : Kind) :
    (run true st0 sched).sh.calls n = [k] → (run true st0 sched).sh.marks n = [k] := by
  intro hc
  have hk : k ∈ (run true st0 sched).sh.calls n := by rw [hc]; simp
  exact inv_reason_winner _ _ (async_inv st0 h0 sched) n k
    (reason_provenance true st0 h0 sched n k hk).1

/-- **The handler calls follow the gate record** (strongest form) — at every step of every
    schedule, for every namespace:
    * `calls n` is the gate record `marks n` without refusals as soon as no passing task is still on
      its way to the handler (`cnt st n 2 = 0`: no task between its `pre_disconnect` and its
      `_trigger_event`), and empty before that;
    * so `calls n` is empty or equal to `marks n`, in particular a sublist of it;
    * every recorded reason `k` is not a refusal, `calls n = [k]` and `marks n = [k]`. -/
theorem reason_follows_gate (st0 : St) (h0 : Init st0) (sched : List Nat) (n : Ns) :
    ((run true st0 sched).sh.calls n =
        if cnt (run true st0 sched) n 2 = 0
        then ((run true st0 sched).sh.marks n).filter (· != Kind.refuse) else [])
    ∧ ((run true st0 sched).sh.calls n = [] ∨
        (run true st0 sched).sh.calls n = (run true st0 sched).sh.marks n)
    ∧ ((run true st0 sched).sh.calls n).Sublist ((run true st0 sched).sh.marks n)
    ∧ (∀ k, k ∈ (run true st0 sched).sh.calls n →
        k ≠ Kind.refuse ∧ (run true st0 sched).sh.calls n = [k] ∧
        (run true st0 sched).sh.marks n = [k]) :=
  calls_marks_facts _ _ (async_inv st0 h0 sched) n
    (fun k hk => (reason_provenance true st0 h0 sched n k hk).1)

/-- **The reason names a cause in progress** — at every step of every schedule: every reason `k`
    with which the handler of `n` has been invoked is the kind of a task `i` of the initial state
    that has `n` on its list (so `n` is targeted), is not a refusal, and along the schedule that very
    task first executed `pre_disconnect(sid, n)` (`passedGate`: some step of the schedule is task `i`
    pushing `k` on the gate record of `n`) and later made the call (`ranHandler`: some later step of
    the schedule is task `i` pushing `k` on `calls n`). -/
theorem reason_names_cause_in_progress (st0 : St) (h0 : Init st0) (sched : List Nat) (n : Ns)
    (k : Kind) (hk : k ∈ (run true st0 sched).sh.calls n) :
    k ≠ Kind.refuse ∧ targeted st0 n = true ∧
    ∃ i t0, st0.tasks[i]? = some t0 ∧ t0.kind = k ∧ n ∈ t0.todo ∧
      passedGate true st0 sched i n k ∧ ranHandler true st0 sched i n k := by
  refine ⟨((reason_follows_gate st0 h0 sched n).2.2.2 k hk).1, ?_,
    (reason_provenance true st0 h0 sched n k hk).2⟩
  cases ht : targeted st0 n with
  | true => rfl
  | false =>
    have := ((async_disconnect_once st0 h0 sched).2.2.2.2.2 n ht).2.1
    have hnil := List.eq_nil_of_length_eq_zero this
    rw [hnil] at hk; simp at hk

/-- … and that cause is a terminating one: when the CONNECTs being accepted have not yet run their
    connect handler at the start (`connAtStart`, true of every `mkSt` state), every reason is
    `api` (`disconnect()`), `clientDisc` (DISCONNECT packet) or `lost` (transport loss). -/
theorem reason_is_terminating_cause (st0 : St) (h0 : Init st0) (hc : connAtStart st0)
    (sched : List Nat) (n : Ns) (k : Kind) (hk : k ∈ (run true st0 sched).sh.calls n) :
    k = .api ∨ k = .clientDisc ∨ k = .lost := by
  obtain ⟨i, _, _, _, _, _, hr⟩ := (reason_provenance true st0 h0 sched n k hk).2
  exact ranHandler_kind true st0 h0 hc sched i n k hr

/-- **Frame for bystanders.**  A task that is not a terminating path of this sid — in the model: a
    task at `chandler` / `csend` (a CONNECT being answered; for a refusing CONNECT: its connect
    handler deciding, before its `is_connected` test), in the harness also: a refused CONNECT
    of another transport, the disconnect of another client of the namespace, a repeated CONNECT or an
    EVENT of the same transport — changes none of the sid's shared variables, whatever the other
    tasks are doing; so `async_disconnect_once` holds verbatim with any number of such steps
    interleaved (they are steps of `conn` tasks of `st0`, which the theorem already quantifies over). -/
theorem bystander_frame (a : Bool) (st : St) (i : Nat) (t : Task) (hi : st.tasks[i]? = some t)
    (hp : t.pc = .chandler ∨ t.pc = .csend) : (step a st i).sh = st.sh := by
  obtain ⟨k, todo, pc⟩ := t
  unfold step
  simp only [hi]
  rcases hp with hp | hp <;> (simp only at hp; subst hp; simp [stepTask])

/-! ### non-vacuity -/

/-- three concurrent causes on namespace 0 plus a suspended connect handler; the transport is also
    connected to namespace 1, which only the loss reaches; namespace 2 belongs to other clients -/
def ex0 : St := mkSt [(.api, [0]), (.clientDisc, [0]), (.lost, [0, 1, 2]), (.conn, [0])] [0, 1] [2]

example : Init ex0 := mkSt_init _ _ _

/-- a schedule that reaches quiescence with the `api` task winning the gate of namespace 0 while the
    DISCONNECT packet and the loss arrive during its send / handler suspension -/
example : allDone (run true ex0 [0, 1, 2, 3, 0, 2, 0, 2, 0, 2, 3, 2]) = true
    ∧ ncalls (run true ex0 [0, 1, 2, 3, 0, 2, 0, 2, 0, 2, 3, 2]) 0 = 1
    ∧ (run true ex0 [0, 1, 2, 3, 0, 2, 0, 2, 0, 2, 3, 2]).sh.calls 0 = [.api]
    ∧ (run true ex0 [0, 1, 2, 3, 0, 2, 0, 2, 0, 2, 3, 2]).sh.calls 1 = [.lost]
    ∧ targeted ex0 0 = true ∧ targeted ex0 1 = true ∧ targeted ex0 3 = false
    ∧ refuseTargets ex0 0 = false := by decide

/-- a refusing CONNECT for namespace 0 (task 0) racing with `disconnect()` (task 1) and a transport
    loss over both namespaces (task 2) -/
def ex1 : St := mkSt [(.refuse, [0]), (.api, [0]), (.lost, [0, 1])] [0, 1] []

example : Init ex1 := mkSt_init _ _ _

/-- the refusal wins the gate (handler decides, `is_connected`+`pre_disconnect`); `disconnect()` and
    the loss arrive while the refusal is being sent and find the session no longer connected: no
    disconnect handler for namespace 0, the refusal is sent once, no trace; namespace 1 is ended by
    the loss -/
example : allDone (run true ex1 [0, 0, 1, 2, 0, 0, 2, 2, 2]) = true
    ∧ (run true ex1 [0, 0, 1, 2, 0, 0, 2, 2, 2]).sh.calls 0 = []
    ∧ (run true ex1 [0, 0, 1, 2, 0, 0, 2, 2, 2]).sh.refusals 0 = 1
    ∧ (run true ex1 [0, 0, 1, 2, 0, 0, 2, 2, 2]).sh.marks 0 = [.refuse]
    ∧ (run true ex1 [0, 0, 1, 2, 0, 0, 2, 2, 2]).sh.calls 1 = [.lost]
    ∧ residue (run true ex1 [0, 0, 1, 2, 0, 0, 2, 2, 2]) 0 = false
    ∧ targeted ex1 0 = true ∧ refuseTargets ex1 0 = true ∧ refuseTargets ex1 1 = false := by decide

/-- `disconnect()` passes the gate while the connect handler is still deciding; the refusal then
    finds the session already going away and returns: handler once (reason: the api), no refusal -/
example : allDone (run true ex1 [0, 1, 0, 1, 1, 1, 2, 2, 2, 2]) = true
    ∧ (run true ex1 [0, 1, 0, 1, 1, 1, 2, 2, 2, 2]).sh.calls 0 = [.api]
    ∧ (run true ex1 [0, 1, 0, 1, 1, 1, 2, 2, 2, 2]).sh.refusals 0 = 0
    ∧ (run true ex1 [0, 1, 0, 1, 1, 1, 2, 2, 2, 2]).sh.marks 0 = [.api] := by decide

/-- the reason clause is not vacuous: where `disconnect()` wins (previous example) the reason and the
    gate record are both `[.api]`; mid-schedule, after `disconnect()` passed the gate and before its
    handler ran (prefix `[0, 1, 0]`), one task is on its way (`cnt … 2 = 1`), `calls 0 = []` while
    `marks 0 = [.api]`; where the refusal wins, `calls 0 = []` and the filter removes the refusal;
    on `ex0` the loss ends namespace 1 with reason `lost` and `disconnect()` namespace 0 -/
example : (run true ex1 [0, 1, 0, 1, 1, 1, 2, 2, 2, 2]).sh.calls 0 = [.api]
    ∧ (run true ex1 [0, 1, 0, 1, 1, 1, 2, 2, 2, 2]).sh.marks 0 = [.api]
    ∧ cnt (run true ex1 [0, 1, 0, 1, 1, 1, 2, 2, 2, 2]) 0 2 = 0
    ∧ cnt (run true ex1 [0, 1, 0]) 0 2 = 1
    ∧ (run true ex1 [0, 1, 0]).sh.calls 0 = []
    ∧ (run true ex1 [0, 1, 0]).sh.marks 0 = [.api]
    ∧ ((run true ex1 [0, 0, 1, 2, 0, 0, 2, 2, 2]).sh.marks 0).filter (· != Kind.refuse) = []
    ∧ (run true ex0 [0, 1, 2, 3, 0, 2, 0, 2, 0, 2, 3, 2]).sh.marks 0 = [.api]
    ∧ (run true ex0 [0, 1, 2, 3, 0, 2, 0, 2, 0, 2, 3, 2]).sh.marks 1 = [.lost]
    ∧ Kind.api ∈ (run true ex1 [0, 1, 0, 1, 1, 1, 2, 2, 2, 2]).sh.calls 0 := by decide

/-- the witnesses of `reason_names_cause_in_progress` on that schedule: task 1 of `ex1` is the
    `disconnect()` for namespace 0; its step after the prefix `[0]` is the gate passage, its step
    after the prefix `[0, 1, 0, 1]` is the handler call -/
example : ex1.tasks[1]? = some ⟨.api, [0], .check⟩
    ∧ passedGate true ex1 [0, 1, 0, 1, 1, 1, 2, 2, 2, 2] 1 0 .api
    ∧ ranHandler true ex1 [0, 1, 0, 1, 1, 1, 2, 2, 2, 2] 1 0 .api := by
  have hg : marksAt true (run true ex1 [0]) 1 0 .api :=
    ⟨⟨.api, [0], .check⟩, by decide, rfl, rfl, by decide⟩
  refine ⟨by decide, ⟨[0], ⟨[0, 1, 1, 1, 2, 2, 2, 2], rfl⟩, hg⟩,
    ⟨[0, 1, 0, 1], ⟨[1, 2, 2, 2, 2], rfl⟩, ?_, ⟨[0], ⟨[0, 1], rfl⟩, hg⟩⟩⟩
  exact ⟨⟨.api, [0], .handler⟩, by decide, rfl, rfl, by decide⟩

example : connAtStart ex0 ∧ connAtStart ex1 := ⟨mkSt_connAtStart _ _ _, mkSt_connAtStart _ _ _⟩

/-- the hypotheses of `refused_never_notified_after` are met after the prefix `[0, 0]` (both forms) -/
example : (run true ex1 [0, 0]).tasks.any (refusedPast 0) = true
    ∧ Kind.refuse ∈ (run true ex1 [0, 0]).sh.marks 0 := by decide

/-- the hypothesis of the cause clause of `refused_before_gate` is met -/
example : Kind.api ∈ (run true ex1 [0, 1]).sh.marks 0 := by decide

/-- the invariant is not trivially true: a state with two tasks past the gate violates it -/
example : ¬ Inv (fun _ => true)
    { tasks := [⟨.api, [0], .handler⟩, ⟨.clientDisc, [0], .handler⟩],
      sh := { (mkShared [0] []) with pend := fun _ => 2 } } := by
  intro h
  have := h.phase 0
  simp [Phase, cnt, cntL, cls, mkShared, ncalls] at this

/-- nor with refusals: a refusing CONNECT past the gate together with a handler call violates it -/
example : ¬ Inv (fun _ => true)
    { tasks := [⟨.refuse, [0], .cleanup⟩],
      sh := { (mkShared [0] []) with pend := fun _ => 1, calls := fun _ => [.api],
                                     marks := fun _ => [.refuse], refusals := fun _ => 1 } } := by
  intro h
  have := h.phase 0
  simp [Phase, cnt, cntL, cls, mkShared, ncalls, nref] at this

end Sio.C04sched
