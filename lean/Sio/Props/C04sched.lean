/-
  C04 (asyncio schedules) — "the disconnect handler runs exactly once … from any interleaving of
  these".

  Model: Sio/Model/Sched.lean with `atomicGate = true` (asyncio: `is_connected`+`pre_disconnect`
  are one step, nothing can run between them).  `st0` is ANY initial state (`Init`): any number of
  tasks of any kinds (`api`, `clientDisc`, `lost` with any namespace snapshot, `conn`, and `refuse` —
  a CONNECT whose connect handler refuses while the others are under way) at their first program
  counter, the sid connected to any set of namespaces, any set of namespaces kept alive by other
  clients.  `sched : List Nat` is ANY schedule — any length, any task indices (indices of finished
  tasks / out of range are no-ops).  Since every prefix of a schedule is a schedule, a statement
  about `run true st0 sched` for all `sched` is a statement about every intermediate state of every
  run.

  The refusing CONNECT (`_handle_connect`, `if success is False:`) is itself a terminating path of
  the session it registered, one that skips the disconnect handler: handler decides → gate
  (`is_connected` + `pre_disconnect`) → send the refusal → `manager.disconnect`.  `marks n` is the
  ghost record of the kinds of the tasks that passed the gate of namespace `n`; "the gate of `n` was
  won by a refusal" is `marks n = [.refuse]`.
-/
import Sio.Lemmas.Sched
namespace Sio.C04sched
open Sio.Sched

/-- The phase invariant (four phases of a session ended by a terminating cause, three of a session
    ended by its own refused CONNECT) holds after every schedule (= at every step of every
    schedule). -/
theorem async_inv (st0 : St) (h0 : Init st0) (sched : List Nat) :
    Inv st0.sh.mem (run true st0 sched) :=
  (run_inv_atomic st0.sh.mem sched st0 (init_inv st0 h0).1 (init_inv st0 h0).2).1

/-- the same, spelled out for the k-th step of a given schedule -/
theorem async_inv_every_step (st0 : St) (h0 : Init st0) (sched : List Nat) (k : Nat) :
    Inv st0.sh.mem (run true st0 (sched.take k)) :=
  async_inv st0 h0 (sched.take k)

/-- **Exactly once under every asyncio interleaving.**  For every schedule of any number of
    concurrent terminating tasks, refusing CONNECTs included:
    * the disconnect handler has run at most once per (sid, namespace) — at every step;
    * no task has raised and `_handle_eio_disconnect` has swallowed nothing — at every step;
    * at quiescence, for every namespace the sid was connected to and that at least one task
      targets: the sid is in no room and not pending, and EITHER a terminating cause won the gate,
      the handler ran exactly once and no refusal was sent, OR a refusing CONNECT won the gate, the
      refusal was sent exactly once and the handler did not run; when no refusing CONNECT has the
      namespace on its list, the handler ran exactly once;
    * a namespace the sid was not connected to: no handler call, no trace;
    * namespaces no task targets are unaffected (same membership, no call, nothing pending, no
      refusal, nobody passed the gate). -/
theorem async_disconnect_once (st0 : St) (h0 : Init st0) (sched : List Nat) :
    (∀ n, ncalls (run true st0 sched) n ≤ 1)
    ∧ anyRaised (run true st0 sched) = false
    ∧ (run true st0 sched).sh.contained = 0
    ∧ (allDone (run true st0 sched) = true → ∀ n, st0.sh.mem n = true → targeted st0 n = true →
        residue (run true st0 sched) n = false ∧
        ((ncalls (run true st0 sched) n = 1 ∧ (run true st0 sched).sh.refusals n = 0 ∧
            ∃ k, k ≠ Kind.refuse ∧ (run true st0 sched).sh.marks n = [k]) ∨
         (ncalls (run true st0 sched) n = 0 ∧ (run true st0 sched).sh.refusals n = 1 ∧
            (run true st0 sched).sh.marks n = [Kind.refuse])) ∧
        (refuseTargets st0 n = false → ncalls (run true st0 sched) n = 1))
    ∧ (∀ n, st0.sh.mem n = false →
        ncalls (run true st0 sched) n = 0 ∧ residue (run true st0 sched) n = false)
    ∧ (∀ n, targeted st0 n = false →
        (run true st0 sched).sh.mem n = st0.sh.mem n ∧ ncalls (run true st0 sched) n = 0 ∧
        (run true st0 sched).sh.pend n = 0 ∧ (run true st0 sched).sh.refusals n = 0 ∧
        (run true st0 sched).sh.marks n = []) :=
  conclusions true st0 h0 sched (fun pre _ => async_inv st0 h0 pre)

/-- at most once, in the words of the property (DESIGN's name `C04.disconnect_once_sched`): at every
    step at most one handler call; at quiescence, for a targeted namespace of the sid: no trace, the
    handler count is 1 or — when a refusal was sent — 0; it is 0 exactly when the gate was won by a
    refusing CONNECT, 1 exactly when it was won by a terminating cause; and it is 1 whenever no
    refusing CONNECT has the namespace on its list. -/
theorem disconnect_once_sched (st0 : St) (h0 : Init st0) (sched : List Nat) (n : Ns) :
    ncalls (run true st0 sched) n ≤ 1 ∧
    (allDone (run true st0 sched) = true → st0.sh.mem n = true → targeted st0 n = true →
      (ncalls (run true st0 sched) n = 1 ∨
        (ncalls (run true st0 sched) n = 0 ∧ (run true st0 sched).sh.refusals n = 1)) ∧
      ((run true st0 sched).sh.calls n = [] ↔ (run true st0 sched).sh.marks n = [Kind.refuse]) ∧
      (ncalls (run true st0 sched) n = 1 ↔
        ∃ k, k ≠ Kind.refuse ∧ (run true st0 sched).sh.marks n = [k]) ∧
      (refuseTargets st0 n = false → ncalls (run true st0 sched) n = 1) ∧
      (run true st0 sched).sh.mem n = false ∧ (run true st0 sched).sh.pend n = 0) := by
  obtain ⟨h1, _, _, h4, _, _⟩ := async_disconnect_once st0 h0 sched
  refine ⟨h1 n, fun hd hm ht => ?_⟩
  obtain ⟨q2, q, qr⟩ := h4 hd n hm ht
  simp only [residue, Bool.or_eq_false_iff, decide_eq_false_iff_not] at q2
  refine ⟨?_, ?_, ?_, qr, q2.1, by omega⟩
  · rcases q with ⟨qa, _, _⟩ | ⟨qa, qb, _⟩
    · exact Or.inl qa
    · exact Or.inr ⟨qa, qb⟩
  · rcases q with ⟨qa, _, k, hk, hm⟩ | ⟨qa, _, hm⟩
    · constructor
      · intro hc; simp [ncalls, hc] at qa
      · intro hx; rw [hm] at hx; simp at hx; exact absurd hx hk
    · exact ⟨fun _ => hm, fun _ => List.eq_nil_of_length_eq_zero qa⟩
  · rcases q with ⟨qa, _, k, hk, hm⟩ | ⟨qa, _, hm⟩
    · exact ⟨fun _ => ⟨k, hk, hm⟩, fun _ => qa⟩
    · constructor
      · intro hx; omega
      · rintro ⟨k, hk, hx⟩; rw [hm] at hx; simp at hx; exact absurd hx.symm hk

/-- **A refused connection is never reported as ended.**  Once a refusing CONNECT has passed the
    gate of namespace `n` — after the prefix `s1` a task of kind `refuse` sits between its
    `pre_disconnect` and the end of its `manager.disconnect` (`refusedPast`), or the gate record of
    `n` names a refusal — no continuation `s2` of the schedule, whatever the other tasks do, adds a
    disconnect-handler call for `n`; and the refusal is the only task that ever passed that gate. -/
theorem refused_never_notified_after (st0 : St) (h0 : Init st0) (s1 s2 : List Nat) (n : Ns)
    (h : (run true st0 s1).tasks.any (refusedPast n) = true ∨
         Kind.refuse ∈ (run true st0 s1).sh.marks n) :
    (run true st0 (s1 ++ s2)).sh.calls n = [] ∧
    (run true st0 (s1 ++ s2)).sh.marks n = [Kind.refuse] := by
  apply refused_sticky true st0 s1 s2 n (async_inv st0 h0 (s1 ++ s2))
  rcases h with h | h
  · rw [inv_refusedPast _ _ (async_inv st0 h0 s1) n h]; omega
  · exact List.count_pos_iff.mpr h

/-- **The gate is passed at most once, refusals included.**  At every step of every schedule, for
    every namespace: at most one task has ever passed the gate (so at most one terminating cause
    passes it before the connect handler answers, and none after a refusal passed); every handler
    call belongs to a passing task that is not a refusal; a refusal is sent only by a refusing
    CONNECT that passed; when a terminating cause `k` has passed, it is the only one and no refusal
    is ever sent for that session; when a refusal has passed, it is the only one and the handler is
    not called. -/
theorem refused_before_gate (st0 : St) (h0 : Init st0) (sched : List Nat) (n : Ns) :
    ((run true st0 sched).sh.marks n).length ≤ 1
    ∧ ncalls (run true st0 sched) n + nref ((run true st0 sched).sh.marks n)
        ≤ ((run true st0 sched).sh.marks n).length
    ∧ (run true st0 sched).sh.refusals n ≤ nref ((run true st0 sched).sh.marks n)
    ∧ (∀ k, k ≠ Kind.refuse → k ∈ (run true st0 sched).sh.marks n →
        (run true st0 sched).sh.marks n = [k] ∧ (run true st0 sched).sh.refusals n = 0)
    ∧ (Kind.refuse ∈ (run true st0 sched).sh.marks n →
        (run true st0 sched).sh.calls n = [] ∧ (run true st0 sched).sh.marks n = [Kind.refuse]) := by
  obtain ⟨g1, g2, g3, g4⟩ := gate_facts _ _ (async_inv st0 h0 sched) n
  refine ⟨g1, g2, g3, ?_, g4⟩
  intro k hk hmem
  have hl : (run true st0 sched).sh.marks n = [k] := marks_single g1 hmem
  refine ⟨hl, ?_⟩
  rw [hl] at g3
  have : nref [k] = 0 := by cases k <;> simp_all [nref]
  omega

/-- **Frame for bystanders.**  A task that is not a terminating path of this sid — in the model: a
    task at `chandler` / `csend` (a CONNECT being answered; for a refusing CONNECT: its connect
    handler deciding, before its `is_connected` test), in the harness also: a refused CONNECT
    of another transport, the disconnect of another client of the namespace, a repeated CONNECT or an
    EVENT of the same transport — changes none of the sid's shared variables, whatever the other
    tasks are doing; so `async_disconnect_once` holds verbatim with any number of such steps
    interleaved (they are steps of `conn` tasks of `st0`, which the theorem already quantifies over). -/
theorem bystander_frame (a : Bool) (st : St) (i : Nat) (t : Task) (hi : st.tasks[i]? = some t)
    (hp : t.pc = .chandler ∨ t.pc = .csend) : (step a st i).sh = st.sh := by
  obtain ⟨k, todo, pc⟩ := t
  unfold step
  simp only [hi]
  rcases hp with hp | hp <;> (simp only at hp; subst hp; simp [stepTask])

/-! ### non-vacuity -/

/-- three concurrent causes on namespace 0 plus a suspended connect handler; the transport is also
    connected to namespace 1, which only the loss reaches; namespace 2 belongs to other clients -/
def ex0 : St := mkSt [(.api, [0]), (.clientDisc, [0]), (.lost, [0, 1, 2]), (.conn, [0])] [0, 1] [2]

example : Init ex0 := mkSt_init _ _ _

/-- a schedule that reaches quiescence with the `api` task winning the gate of namespace 0 while the
    DISCONNECT packet and the loss arrive during its send / handler suspension -/
example : allDone (run true ex0 [0, 1, 2, 3, 0, 2, 0, 2, 0, 2, 3, 2]) = true
    ∧ ncalls (run true ex0 [0, 1, 2, 3, 0, 2, 0, 2, 0, 2, 3, 2]) 0 = 1
    ∧ (run true ex0 [0, 1, 2, 3, 0, 2, 0, 2, 0, 2, 3, 2]).sh.calls 0 = [.api]
    ∧ (run true ex0 [0, 1, 2, 3, 0, 2, 0, 2, 0, 2, 3, 2]).sh.calls 1 = [.lost]
    ∧ targeted ex0 0 = true ∧ targeted ex0 1 = true ∧ targeted ex0 3 = false
    ∧ refuseTargets ex0 0 = false := by decide

/-- a refusing CONNECT for namespace 0 (task 0) racing with `disconnect()` (task 1) and a transport
    loss over both namespaces (task 2) -/
def ex1 : St := mkSt [(.refuse, [0]), (.api, [0]), (.lost, [0, 1])] [0, 1] []

example : Init ex1 := mkSt_init _ _ _

/-- the refusal wins the gate (handler decides, `is_connected`+`pre_disconnect`); `disconnect()` and
    the loss arrive while the refusal is being sent and find the session no longer connected: no
    disconnect handler for namespace 0, the refusal is sent once, no trace; namespace 1 is ended by
    the loss -/
example : allDone (run true ex1 [0, 0, 1, 2, 0, 0, 2, 2, 2]) = true
    ∧ (run true ex1 [0, 0, 1, 2, 0, 0, 2, 2, 2]).sh.calls 0 = []
    ∧ (run true ex1 [0, 0, 1, 2, 0, 0, 2, 2, 2]).sh.refusals 0 = 1
    ∧ (run true ex1 [0, 0, 1, 2, 0, 0, 2, 2, 2]).sh.marks 0 = [.refuse]
    ∧ (run true ex1 [0, 0, 1, 2, 0, 0, 2, 2, 2]).sh.calls 1 = [.lost]
    ∧ residue (run true ex1 [0, 0, 1, 2, 0, 0, 2, 2, 2]) 0 = false
    ∧ targeted ex1 0 = true ∧ refuseTargets ex1 0 = true ∧ refuseTargets ex1 1 = false := by decide

/-- `disconnect()` passes the gate while the connect handler is still deciding; the refusal then
    finds the session already going away and returns: handler once (reason: the api), no refusal -/
example : allDone (run true ex1 [0, 1, 0, 1, 1, 1, 2, 2, 2, 2]) = true
    ∧ (run true ex1 [0, 1, 0, 1, 1, 1, 2, 2, 2, 2]).sh.calls 0 = [.api]
    ∧ (run true ex1 [0, 1, 0, 1, 1, 1, 2, 2, 2, 2]).sh.refusals 0 = 0
    ∧ (run true ex1 [0, 1, 0, 1, 1, 1, 2, 2, 2, 2]).sh.marks 0 = [.api] := by decide

/-- the hypotheses of `refused_never_notified_after` are met after the prefix `[0, 0]` (both forms) -/
example : (run true ex1 [0, 0]).tasks.any (refusedPast 0) = true
    ∧ Kind.refuse ∈ (run true ex1 [0, 0]).sh.marks 0 := by decide

/-- the hypothesis of the cause clause of `refused_before_gate` is met -/
example : Kind.api ∈ (run true ex1 [0, 1]).sh.marks 0 := by decide

/-- the invariant is not trivially true: a state with two tasks past the gate violates it -/
example : ¬ Inv (fun _ => true)
    { tasks := [⟨.api, [0], .handler⟩, ⟨.clientDisc, [0], .handler⟩],
      sh := { (mkShared [0] []) with pend := fun _ => 2 } } := by
  intro h
  have := h.phase 0
  simp [Phase, cnt, cntL, cls, mkShared, ncalls] at this

/-- nor with refusals: a refusing CONNECT past the gate together with a handler call violates it -/
example : ¬ Inv (fun _ => true)
    { tasks := [⟨.refuse, [0], .cleanup⟩],
      sh := { (mkShared [0] []) with pend := fun _ => 1, calls := fun _ => [.api],
                                     marks := fun _ => [.refuse], refusals := fun _ => 1 } } := by
  intro h
  have := h.phase 0
  simp [Phase, cnt, cntL, cls, mkShared, ncalls, nref] at this

end Sio.C04sched
