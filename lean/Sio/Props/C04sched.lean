/-
  C04 (asyncio schedules) — "the disconnect handler runs exactly once … from any interleaving of
  these".

  Model: Sio/Model/Sched.lean with `atomicGate = true` (asyncio: `is_connected`+`pre_disconnect`
  are one step, nothing can run between them).  `st0` is ANY initial state (`Init`): any number of
  tasks of any kinds (`api`, `clientDisc`, `lost` with any namespace snapshot, `conn`) at their
  first program counter, the sid connected to any set of namespaces, any set of namespaces kept
  alive by other clients.  `sched : List Nat` is ANY schedule — any length, any task indices
  (indices of finished tasks / out of range are no-ops).  Since every prefix of a schedule is a
  schedule, a statement about `run true st0 sched` for all `sched` is a statement about every
  intermediate state of every run.
-/
import Sio.Lemmas.Sched
namespace Sio.C04sched
open Sio.Sched

/-- The four-phase invariant holds after every schedule (= at every step of every schedule). -/
theorem async_inv (st0 : St) (h0 : Init st0) (sched : List Nat) :
    Inv st0.sh.mem (run true st0 sched) :=
  (run_inv_atomic st0.sh.mem sched st0 (init_inv st0 h0).1 (init_inv st0 h0).2).1

/-- the same, spelled out for the k-th step of a given schedule -/
theorem async_inv_every_step (st0 : St) (h0 : Init st0) (sched : List Nat) (k : Nat) :
    Inv st0.sh.mem (run true st0 (sched.take k)) :=
  async_inv st0 h0 (sched.take k)

/-- **Exactly once under every asyncio interleaving.**  For every schedule of any number of
    concurrent terminating tasks:
    * the disconnect handler has run at most once per (sid, namespace) — at every step;
    * no task has raised and `_handle_eio_disconnect` has swallowed nothing — at every step;
    * at quiescence, for every namespace the sid was connected to and that at least one task
      targets: the handler ran exactly once, the sid is in no room and not pending;
    * a namespace the sid was not connected to: no handler call, no trace;
    * namespaces no task targets are unaffected (same membership, no call, nothing pending). -/
theorem async_disconnect_once (st0 : St) (h0 : Init st0) (sched : List Nat) :
    (∀ n, ncalls (run true st0 sched) n ≤ 1)
    ∧ anyRaised (run true st0 sched) = false
    ∧ (run true st0 sched).sh.contained = 0
    ∧ (allDone (run true st0 sched) = true → ∀ n, st0.sh.mem n = true → targeted st0 n = true →
        ncalls (run true st0 sched) n = 1 ∧ residue (run true st0 sched) n = false)
    ∧ (∀ n, st0.sh.mem n = false →
        ncalls (run true st0 sched) n = 0 ∧ residue (run true st0 sched) n = false)
    ∧ (∀ n, targeted st0 n = false →
        (run true st0 sched).sh.mem n = st0.sh.mem n ∧ ncalls (run true st0 sched) n = 0 ∧
        (run true st0 sched).sh.pend n = 0) :=
  conclusions true st0 h0 sched (fun pre _ => async_inv st0 h0 pre)

/-- at most once, in the words of the property (DESIGN's name `C04.disconnect_once_sched`) -/
theorem disconnect_once_sched (st0 : St) (h0 : Init st0) (sched : List Nat) (n : Ns) :
    ncalls (run true st0 sched) n ≤ 1 ∧
    (allDone (run true st0 sched) = true → st0.sh.mem n = true → targeted st0 n = true →
      ncalls (run true st0 sched) n = 1 ∧ (run true st0 sched).sh.mem n = false ∧
      (run true st0 sched).sh.pend n = 0) := by
  obtain ⟨h1, _, _, h4, _, _⟩ := async_disconnect_once st0 h0 sched
  refine ⟨h1 n, fun hd hm ht => ?_⟩
  obtain ⟨q1, q2⟩ := h4 hd n hm ht
  simp only [residue, Bool.or_eq_false_iff, decide_eq_false_iff_not] at q2
  exact ⟨q1, q2.1, by omega⟩

/-- **Frame for bystanders.**  A task that is not a terminating path of this sid — in the model: a
    task at `chandler` / `csend` (a CONNECT being answered), in the harness also: a refused CONNECT
    of another transport, the disconnect of another client of the namespace, a repeated CONNECT or an
    EVENT of the same transport — changes none of the sid's shared variables, whatever the other
    tasks are doing; so `async_disconnect_once` holds verbatim with any number of such steps
    interleaved (they are steps of `conn` tasks of `st0`, which the theorem already quantifies over). -/
theorem bystander_frame (a : Bool) (st : St) (i : Nat) (t : Task) (hi : st.tasks[i]? = some t)
    (hp : t.pc = .chandler ∨ t.pc = .csend) : (step a st i).sh = st.sh := by
  obtain ⟨k, todo, pc⟩ := t
  unfold step
  simp only [hi]
  rcases hp with hp | hp <;> (simp only at hp; subst hp; simp [stepTask])

/-! ### non-vacuity -/

/-- three concurrent causes on namespace 0 plus a suspended connect handler; the transport is also
    connected to namespace 1, which only the loss reaches; namespace 2 belongs to other clients -/
def ex0 : St := mkSt [(.api, [0]), (.clientDisc, [0]), (.lost, [0, 1, 2]), (.conn, [0])] [0, 1] [2]

example : Init ex0 := mkSt_init _ _ _

/-- a schedule that reaches quiescence with the `api` task winning the gate of namespace 0 while the
    DISCONNECT packet and the loss arrive during its send / handler suspension -/
example : allDone (run true ex0 [0, 1, 2, 3, 0, 2, 0, 2, 0, 2, 3, 2]) = true
    ∧ ncalls (run true ex0 [0, 1, 2, 3, 0, 2, 0, 2, 0, 2, 3, 2]) 0 = 1
    ∧ (run true ex0 [0, 1, 2, 3, 0, 2, 0, 2, 0, 2, 3, 2]).sh.calls 0 = [.api]
    ∧ (run true ex0 [0, 1, 2, 3, 0, 2, 0, 2, 0, 2, 3, 2]).sh.calls 1 = [.lost]
    ∧ targeted ex0 0 = true ∧ targeted ex0 1 = true ∧ targeted ex0 3 = false := by decide

/-- the invariant is not trivially true: a state with two tasks past the gate violates it -/
example : ¬ Inv (fun _ => true)
    { tasks := [⟨.api, [0], .handler⟩, ⟨.clientDisc, [0], .handler⟩],
      sh := { (mkShared [0] []) with pend := fun _ => 2 } } := by
  intro h
  have := h.phase 0
  simp [Phase, cnt, cntL, cls, mkShared, ncalls] at this

end Sio.C04sched
