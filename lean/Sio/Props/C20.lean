/-
  C20 — threaded server: concurrent terminations of one client.

  Model: Sio/Model/Sched.lean with `atomicGate = false` (threads): `check`
  (`is_connected` / `can_disconnect`) and `mark` (`pre_disconnect`) are two steps, any other task
  may run between them.  Pre-emption granularity: one step = one access of the server to the client
  manager / the transport layer / the application handler (DESIGN §4).

  FULL STATEMENT (properties.jsonl C20): for every schedule the handler runs exactly once, nobody
  raises, no trace remains.  It is FALSE for the code as it is (`full_statement_fails`, witnesses
  `race_double_call`, `race_raise_residue`, `race_lost_swallowed_residue`): known finding
  `gate-overlap` (DESIGN §6 F6).  What is proved is the statement restricted to the schedules in
  which no task opens a check…mark window on a namespace while another task's window on that
  namespace is open — `gateSerial st0 sched`, a decidable predicate of the schedule.

  The refusing CONNECT (`Server._handle_connect`, `if success is False:` — same code as the asyncio
  class: `is_connected`, `pre_disconnect`, send the refusal, `manager.disconnect`, no disconnect
  handler) is a task kind of the model (`refuse`) and the theorems below quantify over initial states
  that contain any number of them; its check…mark window counts for `gateSerial` like any other.
  (The threaded harness does not schedule refusing CONNECTs: for that kind the theorems are about
  the model only, tied to the code through the asyncio harness of C04.)
-/
import Sio.Lemmas.Sched
namespace Sio.C20
open Sio.Sched

/-- a prefix of a gate-serial schedule keeps the invariant -/
theorem serial_inv (st0 : St) (h0 : Init st0) (sched : List Nat)
    (hs : gateSerial st0 sched = true) : Inv st0.sh.mem (run false st0 sched) :=
  run_inv_serial st0.sh.mem sched st0 (init_inv st0 h0).1 hs

/-- **Serial gates are safe** (partial: hypothesis `gateSerial`).  For every initial state (any
    number of terminating tasks of any kind, any namespaces) and every schedule of any length in
    which check…mark windows on one namespace do not overlap:
    the handler has run at most once per (sid, namespace) and no task has raised, nothing was
    swallowed — at every step; at quiescence every targeted namespace the sid was connected to
    has had exactly one handler call — or, when a refusing CONNECT won its gate, none and exactly
    one refusal; exactly one whenever no refusing CONNECT has the namespace on its list — and no
    trace of the sid remains (no room, not pending);
    namespaces the sid was not connected to and namespaces nobody targets are unaffected. -/
theorem gate_serial_partial (st0 : St) (h0 : Init st0) (sched : List Nat)
    (hs : gateSerial st0 sched = true) :
    (∀ n, ncalls (run false st0 sched) n ≤ 1)
    ∧ anyRaised (run false st0 sched) = false
    ∧ (run false st0 sched).sh.contained = 0
    ∧ (allDone (run false st0 sched) = true → ∀ n, st0.sh.mem n = true → targeted st0 n = true →
        residue (run false st0 sched) n = false ∧
        ((ncalls (run false st0 sched) n = 1 ∧ (run false st0 sched).sh.refusals n = 0 ∧
            ∃ k, k ≠ Kind.refuse ∧ (run false st0 sched).sh.marks n = [k]) ∨
         (ncalls (run false st0 sched) n = 0 ∧ (run false st0 sched).sh.refusals n = 1 ∧
            (run false st0 sched).sh.marks n = [Kind.refuse])) ∧
        (refuseTargets st0 n = false → ncalls (run false st0 sched) n = 1))
    ∧ (∀ n, st0.sh.mem n = false →
        ncalls (run false st0 sched) n = 0 ∧ residue (run false st0 sched) n = false)
    ∧ (∀ n, targeted st0 n = false →
        (run false st0 sched).sh.mem n = st0.sh.mem n ∧ ncalls (run false st0 sched) n = 0 ∧
        (run false st0 sched).sh.pend n = 0 ∧ (run false st0 sched).sh.refusals n = 0 ∧
        (run false st0 sched).sh.marks n = []) :=
  conclusions false st0 h0 sched
    (fun pre hp => serial_inv st0 h0 pre (gateSerial_prefix pre sched st0 hp hs))

/-- the statement as it was before refusing CONNECTs were modelled: when no task is a refusing
    CONNECT, "exactly one handler call" at quiescence, unconditionally -/
theorem gate_serial_causes_only (st0 : St) (h0 : Init st0) (sched : List Nat)
    (hs : gateSerial st0 sched = true) (hk : ∀ t ∈ st0.tasks, t.kind ≠ .refuse)
    (hd : allDone (run false st0 sched) = true) (n : Ns) (hm : st0.sh.mem n = true)
    (ht : targeted st0 n = true) :
    ncalls (run false st0 sched) n = 1 ∧ residue (run false st0 sched) n = false := by
  obtain ⟨_, _, _, h4, _, _⟩ := gate_serial_partial st0 h0 sched hs
  obtain ⟨q1, _, q3⟩ := h4 hd n hm ht
  refine ⟨q3 ?_, q1⟩
  simp only [refuseTargets, List.any_eq_false]
  intro t htm
  have := hk t htm
  simp [this]

/-- (partial: `gateSerial`) once a refusing CONNECT has passed the gate of `n`, no gate-serial
    continuation adds a disconnect-handler call for `n` -/
theorem serial_refused_never_notified_after (st0 : St) (h0 : Init st0) (s1 s2 : List Nat) (n : Ns)
    (hs : gateSerial st0 (s1 ++ s2) = true)
    (h : (run false st0 s1).tasks.any (refusedPast n) = true ∨
         Kind.refuse ∈ (run false st0 s1).sh.marks n) :
    (run false st0 (s1 ++ s2)).sh.calls n = [] ∧
    (run false st0 (s1 ++ s2)).sh.marks n = [Kind.refuse] := by
  have hs1 := gateSerial_prefix s1 (s1 ++ s2) st0 (List.prefix_append s1 s2) hs
  apply refused_sticky false st0 s1 s2 n (serial_inv st0 h0 (s1 ++ s2) hs)
  rcases h with h | h
  · rw [inv_refusedPast _ _ (serial_inv st0 h0 s1 hs1) n h]; omega
  · exact List.count_pos_iff.mpr h

/-! ### the reason handed to the handler -/

/-- (partial: `gateSerial`) **the reason is the gate winner's**, at every step of a gate-serial
    schedule: when the handler of `n` has been invoked with reason `k`, the one task that passed the
    gate of `n` is of kind `k`. -/
theorem serial_reason_is_gate_winner (st0 : St) (h0 : Init st0) (sched : List Nat)
    (hs : gateSerial st0 sched = true) (n : Ns) (k : Kind) :
    (run false st0 sched).sh.calls n = [k] → (run false st0 sched).sh.marks n = [k] := by
  intro hc
  have hk : k ∈ (run false st0 sched).sh.calls n := by rw [hc]; simp
  exact inv_reason_winner _ _ (serial_inv st0 h0 sched hs) n k
    (reason_provenance false st0 h0 sched n k hk).1

/-- (partial: `gateSerial`) **the handler calls follow the gate record**: `calls n` is `marks n`
    without refusals as soon as no passing task is still between its `pre_disconnect` and its
    `_trigger_event` (`cnt … 2 = 0`), empty before; so empty or equal to `marks n`, a sublist of
    it; every recorded reason `k` is not a refusal, `calls n = [k]` and `marks n = [k]`. -/
theorem serial_reason_follows_gate (st0 : St) (h0 : Init st0) (sched : List Nat)
    (hs : gateSerial st0 sched = true) (n : Ns) :
    ((run false st0 sched).sh.calls n =
        if cnt (run false st0 sched) n 2 = 0
        then ((run false st0 sched).sh.marks n).filter (· != Kind.refuse) else [])
    ∧ ((run false st0 sched).sh.calls n = [] ∨
        (run false st0 sched).sh.calls n = (run false st0 sched).sh.marks n)
    ∧ ((run false st0 sched).sh.calls n).Sublist ((run false st0 sched).sh.marks n)
    ∧ (∀ k, k ∈ (run false st0 sched).sh.calls n →
        k ≠ Kind.refuse ∧ (run false st0 sched).sh.calls n = [k] ∧
        (run false st0 sched).sh.marks n = [k]) :=
  calls_marks_facts _ _ (serial_inv st0 h0 sched hs) n
    (fun k hk => (reason_provenance false st0 h0 sched n k hk).1)

/-- (partial: `gateSerial`) **the reason names a cause in progress**: every reason `k` recorded for
    `n` is not a refusal and is the kind of a task `i` of the initial state with `n` on its list (so
    `n` is targeted) that, along the schedule, first executed `pre_disconnect(sid, n)` and later made
    the call. -/
theorem serial_reason_names_cause_in_progress (st0 : St) (h0 : Init st0) (sched : List Nat)
    (hs : gateSerial st0 sched = true) (n : Ns) (k : Kind)
    (hk : k ∈ (run false st0 sched).sh.calls n) :
    k ≠ Kind.refuse ∧ targeted st0 n = true ∧
    ∃ i t0, st0.tasks[i]? = some t0 ∧ t0.kind = k ∧ n ∈ t0.todo ∧
      passedGate false st0 sched i n k ∧ ranHandler false st0 sched i n k := by
  refine ⟨((serial_reason_follows_gate st0 h0 sched hs n).2.2.2 k hk).1, ?_,
    (reason_provenance false st0 h0 sched n k hk).2⟩
  cases ht : targeted st0 n with
  | true => rfl
  | false =>
    have := ((gate_serial_partial st0 h0 sched hs).2.2.2.2.2 n ht).2.1
    have hnil := List.eq_nil_of_length_eq_zero this
    rw [hnil] at hk; simp at hk

/-- **Without the `gateSerial` hypothesis** — for EVERY threaded schedule, the racing ones
    included — the provenance half still holds: every recorded reason `k` is on the gate record of
    `n`, and is the kind of a task of the initial state with `n` on its list that passed the gate of
    `n` and then made the call; with `connAtStart` it is one of the three terminating kinds.  (What the
    race breaks is uniqueness: in `race_double_call` both `api` and `clientDisc` passed and both
    called.) -/
theorem reason_names_passing_task_any_schedule (st0 : St) (h0 : Init st0) (sched : List Nat)
    (n : Ns) (k : Kind) (hk : k ∈ (run false st0 sched).sh.calls n) :
    k ∈ (run false st0 sched).sh.marks n ∧
    (∃ i t0, st0.tasks[i]? = some t0 ∧ t0.kind = k ∧ n ∈ t0.todo ∧
      passedGate false st0 sched i n k ∧ ranHandler false st0 sched i n k) ∧
    (connAtStart st0 → k = .api ∨ k = .clientDisc ∨ k = .lost) := by
  obtain ⟨h1, h2⟩ := reason_provenance false st0 h0 sched n k hk
  refine ⟨h1, h2, fun hc => ?_⟩
  obtain ⟨i, _, _, _, _, _, hr⟩ := h2
  exact ranHandler_kind false st0 h0 hc sched i n k hr

/-- non-vacuity: `disconnect()` first with serial gates — reason and gate record are `[.api]`, with
    explicit witnesses of the gate passage (task 0's step after `[0]`) and of the handler call (its
    step after `[0, 0, 1, 0]`); mid-schedule (`[0, 0]`: marked, on the way to the handler) `calls`
    is still empty; and in the racing schedule of `race_double_call` both reasons are on the gate
    record -/
example :
    let st0 := mkSt [(.api, [0]), (.clientDisc, [0])] [0] []
    gateSerial st0 [0, 0, 1, 0, 0, 0] = true
    ∧ (run false st0 [0, 0, 1, 0, 0, 0]).sh.calls 0 = [.api]
    ∧ (run false st0 [0, 0, 1, 0, 0, 0]).sh.marks 0 = [.api]
    ∧ cnt (run false st0 [0, 0]) 0 2 = 1 ∧ (run false st0 [0, 0]).sh.calls 0 = []
    ∧ (run false st0 [0, 0]).sh.marks 0 = [.api]
    ∧ (run false st0 [0, 1, 0, 1, 0, 0, 1, 0, 1]).sh.calls 0 = [.clientDisc, .api]
    ∧ (run false st0 [0, 1, 0, 1, 0, 0, 1, 0, 1]).sh.marks 0 = [.clientDisc, .api]
    ∧ connAtStart st0 := by
  refine ⟨by decide, by decide, by decide, by decide, by decide, by decide, by decide, by decide,
    mkSt_connAtStart _ _ _⟩

example :
    let st0 := mkSt [(.api, [0]), (.clientDisc, [0])] [0] []
    passedGate false st0 [0, 0, 1, 0, 0, 0] 0 0 .api
    ∧ ranHandler false st0 [0, 0, 1, 0, 0, 0] 0 0 .api := by
  intro st0
  have hg : marksAt false (run false st0 [0]) 0 0 .api :=
    ⟨⟨.api, [0], .mark⟩, by decide, rfl, rfl, by decide⟩
  exact ⟨⟨[0], ⟨[1, 0, 0, 0], rfl⟩, hg⟩,
    ⟨[0, 0, 1, 0], ⟨[0], rfl⟩, ⟨⟨.api, [0], .handler⟩, by decide, rfl, rfl, by decide⟩,
      ⟨[0], ⟨[1, 0], rfl⟩, hg⟩⟩⟩

/-- a refusing CONNECT (task 0: handler decides, check, mark, send, cleanup) and `disconnect()`
    (task 1) with serial gates, the refusal first: no handler call, one refusal; and the hypotheses
    of `serial_refused_never_notified_after` are met after the prefix `[0, 0, 0]` -/
example :
    let st0 := mkSt [(.refuse, [0]), (.api, [0])] [0] []
    gateSerial st0 ([0, 0, 0] ++ [1, 0, 0]) = true
    ∧ (run false st0 [0, 0, 0]).tasks.any (refusedPast 0) = true
    ∧ allDone (run false st0 ([0, 0, 0] ++ [1, 0, 0])) = true
    ∧ (run false st0 ([0, 0, 0] ++ [1, 0, 0])).sh.calls 0 = []
    ∧ (run false st0 ([0, 0, 0] ++ [1, 0, 0])).sh.refusals 0 = 1 := by decide

/-- windows on DIFFERENT namespaces may overlap freely: the hypothesis is per namespace -/
example :
    let st0 := mkSt [(.api, [0]), (.clientDisc, [1])] [0, 1] []
    gateSerial st0 [0, 1, 0, 1, 0, 1, 0, 1, 0] = true
    ∧ allDone (run false st0 [0, 1, 0, 1, 0, 1, 0, 1, 0]) = true := by decide

/-! ### the race: two tasks, one sid, one namespace -/

/-- `disconnect(sid)` (task 0) and the client's DISCONNECT packet (task 1), sid connected to
    namespace 0 only and alone in it -/
def two : St := mkSt [(.api, [0]), (.clientDisc, [0])] [0] []

/-- the same with another client connected to the namespace -/
def twoShared : St := mkSt [(.api, [0]), (.clientDisc, [0])] [0] [0]

/-- transport loss (task 1) instead of the DISCONNECT packet -/
def twoLost : St := mkSt [(.api, [0]), (.lost, [0])] [0] []

example : Init two := mkSt_init _ _ _

example : ∀ t ∈ two.tasks, t.kind ≠ .refuse := by decide

/-- Both pass `check` before either executes `mark`: the application's disconnect handler runs
    TWICE for the same sid; the second `manager.disconnect` finds the namespace gone and returns
    early, so the sid stays listed in `pending_disconnect` forever. -/
theorem race_double_call :
    gateSerial two [0, 1, 0, 1, 0, 0, 1, 0, 1] = false
    ∧ allDone (run false two [0, 1, 0, 1, 0, 0, 1, 0, 1]) = true
    ∧ ncalls (run false two [0, 1, 0, 1, 0, 0, 1, 0, 1]) 0 = 2
    ∧ (run false two [0, 1, 0, 1, 0, 0, 1, 0, 1]).sh.calls 0 = [.clientDisc, .api]
    ∧ anyRaised (run false two [0, 1, 0, 1, 0, 0, 1, 0, 1]) = false
    ∧ (run false two [0, 1, 0, 1, 0, 0, 1, 0, 1]).sh.pend 0 = 1 := by decide

/-- with another client in the namespace the double call leaves no residue — it is silent -/
theorem race_double_call_silent :
    allDone (run false twoShared [0, 1, 0, 1, 0, 0, 1, 0, 1]) = true
    ∧ ncalls (run false twoShared [0, 1, 0, 1, 0, 0, 1, 0, 1]) 0 = 2
    ∧ anyRaised (run false twoShared [0, 1, 0, 1, 0, 0, 1, 0, 1]) = false
    ∧ residue (run false twoShared [0, 1, 0, 1, 0, 0, 1, 0, 1]) 0 = false := by decide

/-- Task 1 passes `check`; `disconnect()` (task 0) runs to completion; task 1's `pre_disconnect`
    appends the sid to `pending_disconnect['/']` and then raises `KeyError('/')`: the handler ran
    once, but a thread raised and the pending entry is never removed. -/
theorem race_raise_residue :
    gateSerial two [1, 0, 0, 0, 0, 0, 1] = false
    ∧ allDone (run false two [1, 0, 0, 0, 0, 0, 1]) = true
    ∧ ncalls (run false two [1, 0, 0, 0, 0, 0, 1]) 0 = 1
    ∧ anyRaised (run false two [1, 0, 0, 0, 0, 0, 1]) = true
    ∧ (run false two [1, 0, 0, 0, 0, 0, 1]).sh.pend 0 = 1
    ∧ residue (run false two [1, 0, 0, 0, 0, 0, 1]) 0 = true := by decide

/-- the same window entered by the transport-loss path: the `KeyError` is swallowed and logged by
    `_handle_eio_disconnect`, nobody raises, but the pending entry stays -/
theorem race_lost_swallowed_residue :
    gateSerial twoLost [1, 0, 0, 0, 0, 0, 1] = false
    ∧ allDone (run false twoLost [1, 0, 0, 0, 0, 0, 1]) = true
    ∧ ncalls (run false twoLost [1, 0, 0, 0, 0, 0, 1]) 0 = 1
    ∧ anyRaised (run false twoLost [1, 0, 0, 0, 0, 0, 1]) = false
    ∧ (run false twoLost [1, 0, 0, 0, 0, 0, 1]).sh.contained = 1
    ∧ residue (run false twoLost [1, 0, 0, 0, 0, 0, 1]) 0 = true := by decide

/-- The full statement of C20 — without the `gateSerial` hypothesis — is false for this code. -/
theorem full_statement_fails :
    ¬ (∀ (st0 : St) (sched : List Nat), Init st0 → allDone (run false st0 sched) = true →
        (∀ n, ncalls (run false st0 sched) n ≤ 1) ∧ anyRaised (run false st0 sched) = false ∧
        (∀ n, residue (run false st0 sched) n = false)) := by
  intro h
  have := (h two [0, 1, 0, 1, 0, 0, 1, 0, 1] (mkSt_init _ _ _) (by decide)).1 0
  revert this
  decide

/-- the same two tasks, gate-serial schedules of both orders: the hypothesis of
    `gate_serial_partial` is met and its conclusion is not vacuous -/
example : gateSerial two [0, 0, 1, 0, 0, 0] = true
    ∧ allDone (run false two [0, 0, 1, 0, 0, 0]) = true
    ∧ (run false two [0, 0, 1, 0, 0, 0]).sh.calls 0 = [.api] := by decide

example : gateSerial two [1, 1, 0, 1, 1] = true
    ∧ allDone (run false two [1, 1, 0, 1, 1]) = true
    ∧ (run false two [1, 1, 0, 1, 1]).sh.calls 0 = [.clientDisc] := by decide

/-- three actions incl. a transport loss over two namespaces and the disconnect of the other
    namespace of the same transport, serial gates -/
example :
    let st0 := mkSt [(.api, [0]), (.lost, [0, 1]), (.clientDisc, [1])] [0, 1] []
    gateSerial st0 [2, 2, 0, 0, 1, 1, 2, 0, 2, 0, 0] = true
    ∧ allDone (run false st0 [2, 2, 0, 0, 1, 1, 2, 0, 2, 0, 0]) = true
    ∧ ncalls (run false st0 [2, 2, 0, 0, 1, 1, 2, 0, 2, 0, 0]) 0 = 1
    ∧ ncalls (run false st0 [2, 2, 0, 0, 1, 1, 2, 0, 2, 0, 0]) 1 = 1 := by decide

end Sio.C20
