/-
  C02 — End-to-end payload transparency between client and server handlers.

  Property theorems only.  Model: Sio/Model/Args.lean (argument packing, multi-frame send,
  receiver reassembly, dispatch; default and msgpack packet classes) on top of the packet codec
  Sio/Model/Codec.lean.  Statement-level notions (`Msg`, `Msg.packet`, `Msg.InDomain`,
  `Msg.wireJson`, `Msg.expected`, `Sendable`) are in Sio/Lemmas/ArgsDefs.lean, proofs in
  Sio/Lemmas/Args.lean; everything rests on the C01 round-trip lemmas (`decode_encode`,
  `feed_encode` = `C01.roundtrip`, `wf_of_mkPacket` = `C01.mk_wellformed`).

  The four pairings (Client→Server, Server→Client, threaded and asyncio) run the *same* functions
  of (event, data, namespace, id): `mkEvent`/`mkAck` + `send` on the emitting side, `receive` +
  `dispatch` on the other; the theorems are therefore proved once.  That the four really are
  these functions is what the correspondence harness checks on every run.

  Domain (`Msg.InDomain`): namespace a path without `,` and `?`; id `< 10^100`; no dictionary of
  the payload uses the key `"_placeholder"`; fewer than `10^10` byte strings.  Any event name,
  any nesting depth, byte strings anywhere.  By construction of the value type: string keys, no
  lone surrogates, floats as finite literals, tuples only at top level (`Data`).

  Parameters (exercised by the harness, not verified here):
  * `cls`    Python's `str.isdigit()` table — only its ASCII part is assumed (`AsciiCls`);
  * `loads`  `json.loads` — assumed only at the one text printed for the message (`hrt`); the
             printer is the concrete `J.dumps`.  Section 6 discharges `hrt` for the concrete
             reader `J.loads` (C01 phase 2, `Sio.loads_dumps_lem`): there no JSON hypothesis is
             left, only that float leaves carry well-formed literals (`FltLits`);
  * `ser`/`deser`  `msgpack.dumps`/`msgpack.loads` (a C extension) — assumed only at the one
             dictionary sent (`hser`).
-/
import Sio.Lemmas.Args
import Sio.Lemmas.CodecDigits
import Sio.Lemmas.JsonRoundtrip
namespace Sio.C02
open Sio Sio.Args

variable {cls : Char → DC} {loads : Str → Except Err J}

/-! ## a concrete non-trivial message for the non-vacuity examples

`emit("my-ev", ({"k": [b"\x01\x02", {"z": b""}]}, [], "7-x"), namespace="/chat", callback=…)` with
acknowledgement id 12: a tuple of three, byte strings under a dict under a list, an empty list
(ONE argument), a string that looks like a header field. -/

def exD : Data :=
  .tuple [.obj [("k".toList, .arr [.bin [1, 2], .obj [("z".toList, .bin [])]])], .arr [], .str "7-x".toList]

def exM : Msg := .event "my-ev".toList exD "/chat".toList (some 12)

/-- a `loads` that inverts `J.dumps` at the one value printed for `exM` -/
def exLoads (s : Str) : Except Err J :=
  if s = J.dumps exM.wireJson then .ok exM.wireJson else .error .jsonError

theorem exM_dom : exM.InDomain = true := by decide
theorem exM_rt : exLoads (J.dumps exM.wireJson) = .ok exM.wireJson := by simp [exLoads]

/-! ## 1. events -/

/-- **Event transparency.**  For every event name, every `Data` (tuple / `None` / one value, byte
    strings at any depth), every namespace of the domain and every optional id: the constructor
    accepts the message; its frame group, received in order, completes exactly one packet `q` and
    leaves nothing parked; and dispatch invokes the handler of event `ev` on namespace `ns` with
    exactly the arguments `pack d` — a tuple's elements, nothing for `None`, the value itself
    otherwise — carrying the id.  Client→server and server→client alike. -/
theorem event_e2e (hcls : AsciiCls cls) (ev : Str) (d : Data) (ns : Str) (id : Option Nat)
    (hdom : (Msg.event ev d ns id).InDomain = true)
    (hrt : loads (J.dumps (Msg.event ev d ns id).wireJson) = .ok (Msg.event ev d ns id).wireJson) :
    ∃ p q, mkEvent true ev d ns id = .ok p ∧
      receive cls loads (send J.dumps p) = .ok ([q], none) ∧
      handlerArgs q = .ok (ns, id, .str ev, d.pack) ∧
      deliver cls loads (send J.dumps p) = .ok ([.event ns id (.str ev) d.pack], none) := by
  let m := Msg.event ev d ns id
  have hs : Sendable cls loads J.dumps (m.packet true) := msg_sendable m hdom hrt
  have hr := receive_send hcls hs []
  simp only [List.append_nil, receiveFrom_nil, consOut, Except.map] at hr
  have hd := dispatch_msg m hdom
  have hh : handlerArgs (m.packet true).norm = .ok (ns, id, .str ev, d.pack) := by
    have hns := msg_norm_ns m hdom
    simp only [Msg.ns, m] at hns
    simp [handlerArgs, Msg.packet, Packet.norm, Msg.payload, splitArgs, eventPayload, bind,
      Except.bind, pure, Except.pure, Msg.id, m] at hns ⊢
    exact hns
  refine ⟨m.packet true, (m.packet true).norm, mkEvent_eq true ev d ns id, hr, hh, ?_⟩
  have := deliver_msgs hcls [m] (by simpa using hdom) (by simpa using hrt)
  simpa [sendAll, Msg.expected] using this

/-- non-vacuity and the concrete frames: text frame first (placeholders numbered depth-first),
    then the two byte strings in that order -/
example : send J.dumps (exM.packet true) =
    [.text ("52-/chat,12[\"my-ev\",{\"k\":[{\"_placeholder\":true,\"num\":0}," ++
            "{\"z\":{\"_placeholder\":true,\"num\":1}}]},[],\"7-x\"]").toList,
     .bin [1, 2], .bin []] := rfl

example : ∃ p q, mkEvent true "my-ev".toList exD "/chat".toList (some 12) = .ok p ∧
    receive asciiCls exLoads (send J.dumps p) = .ok ([q], none) ∧
    handlerArgs q = .ok ("/chat".toList, some 12, .str "my-ev".toList, exD.pack) ∧
    deliver asciiCls exLoads (send J.dumps p)
      = .ok ([.event "/chat".toList (some 12) (.str "my-ev".toList) exD.pack], none) :=
  event_e2e asciiCls_ascii _ _ _ _ exM_dom exM_rt

/-- the frame group of a message: one text frame, then its byte strings in depth-first order -/
theorem frames (m : Msg) :
    send J.dumps (m.packet true) =
      .text (encode J.dumps (m.packet true)).1 :: (binLeaves m.payload).map Frame.bin := by
  cases hb : m.payload.isBinary with
  | true =>
    have ht : isBinType (m.packet true).type = true := by
      cases m <;> simp [Msg.packet, hb, Msg.baseType, isBinType, BINARY_EVENT, BINARY_ACK, EVENT, ACK]
    simp [send, encode_bin_some ht (j := m.payload) rfl]
  | false =>
    have ht : isBinType (m.packet true).type = false := by
      cases m <;> simp [Msg.packet, hb, Msg.baseType, isBinType, BINARY_EVENT, BINARY_ACK, EVENT, ACK]
    have hl : binLeaves m.payload = [] := by
      cases hl : binLeaves m.payload with
      | nil => rfl
      | cons b bs =>
        have := (isBinary_iff_leaves m.payload).mpr (by simp [hl])
        rw [hb] at this; cases this
    simp [send, encode_plain ht, hl]

/-! ## 2. acknowledgements and `call()` -/

/-- **Acknowledgement transparency.**  What a handler returns (`ret`) reaches the callback stored
    under (`ns`, `id`) as the arguments `pack ret`, and `call()` turns those arguments into
    `normalise ret`. -/
theorem ack_e2e (hcls : AsciiCls cls) (ret : Data) (ns : Str) (id : Nat)
    (hdom : (Msg.ack ret ns id).InDomain = true)
    (hrt : loads (J.dumps (Msg.ack ret ns id).wireJson) = .ok (Msg.ack ret ns id).wireJson) :
    ∃ p q, mkAck true ret ns id = .ok p ∧
      receive cls loads (send J.dumps p) = .ok ([q], none) ∧
      callbackArgs q = .ok (ns, some id, ret.pack) ∧
      deliver cls loads (send J.dumps p) = .ok ([.ack ns (some id) ret.pack], none) ∧
      callResult ret.pack = normalise ret := by
  let m := Msg.ack ret ns id
  have hs : Sendable cls loads J.dumps (m.packet true) := msg_sendable m hdom hrt
  have hr := receive_send hcls hs []
  simp only [List.append_nil, receiveFrom_nil, consOut, Except.map] at hr
  have hh : callbackArgs (m.packet true).norm = .ok (ns, some id, ret.pack) := by
    have hns := msg_norm_ns m hdom
    simp only [Msg.ns, m] at hns
    simp [callbackArgs, Msg.packet, Packet.norm, Msg.payload, starArgs, ackPayload, bind,
      Except.bind, pure, Except.pure, Msg.id, m] at hns ⊢
    exact hns
  refine ⟨m.packet true, (m.packet true).norm, mkAck_eq true ret ns id, hr, hh, ?_,
    callResult_pack ret⟩
  have := deliver_msgs hcls [m] (by simpa using hdom) (by simpa using hrt)
  simpa [sendAll, Msg.expected] using this

/-- `call()` returns `normalise` of what the peer's handler returned — whatever the transport -/
theorem call_result (ret : Data) : callResult ret.pack = normalise ret := callResult_pack ret

/-- the rules, spelled out: `None` and `()` give `None`; `(x,)` gives `x`; a tuple of two or more
    comes back as that tuple; anything else — a list of any length included — comes back as
    itself (ONE value) -/
theorem normalise_rules :
    normalise .none = .none ∧ normalise (.tuple []) = .none ∧
    (∀ x, normalise (.tuple [x]) = .one x) ∧
    (∀ x y r, normalise (.tuple (x :: y :: r)) = .tuple (x :: y :: r)) ∧
    (∀ j, normalise (.one j) = .one j) ∧
    (∀ xs, normalise (.one (.arr xs)) = .one (.arr xs)) :=
  ⟨rfl, rfl, fun _ => rfl, fun _ _ _ => rfl, fun _ => rfl, fun _ => rfl⟩

/-- the same rules on the way in: how many arguments the handler gets -/
theorem pack_rules :
    Data.pack .none = [] ∧ Data.pack (.tuple []) = [] ∧
    (∀ xs, Data.pack (.tuple xs) = xs) ∧ (∀ j, Data.pack (.one j) = [j]) ∧
    (∀ xs, Data.pack (.one (.arr xs)) = [.arr xs]) :=
  ⟨rfl, rfl, fun _ => rfl, fun _ => rfl, fun _ => rfl⟩

def exAck : Msg := .ack (.tuple [.bin [255], .obj [("a".toList, .arr [.arr []])]]) "/".toList 3

def exAckLoads (s : Str) : Except Err J :=
  if s = J.dumps exAck.wireJson then .ok exAck.wireJson else .error .jsonError

example : exAck.InDomain = true ∧ exAckLoads (J.dumps exAck.wireJson) = .ok exAck.wireJson ∧
    send J.dumps (exAck.packet true)
      = [.text "61-3[{\"_placeholder\":true,\"num\":0},{\"a\":[[]]}]".toList, .bin [255]] :=
  ⟨by decide, by simp [exAckLoads], rfl⟩

/-! ## 3. order -/

/-- **Order, packets.**  A sequence of packets sent one after the other by one sender is the
    concatenation of their frame groups; over a FIFO transport the receiver's reassembly
    completes exactly those packets, in that order, and ends with nothing parked.  Unbounded:
    induction over the list. -/
theorem order_packets (hcls : AsciiCls cls) {dumps : J → Str} (ps : List Packet)
    (hs : ∀ p ∈ ps, Sendable cls loads dumps p) :
    receive cls loads (sendAll dumps ps) = .ok (ps.map Packet.norm, none) :=
  receive_sendAll hcls ps hs

/-- … and the continuation form: a frame group followed by *anything* delivers its packet first
    and goes on from the idle state -/
theorem order_step (hcls : AsciiCls cls) {dumps : J → Str} (p : Packet)
    (hs : Sendable cls loads dumps p) (rest : List Frame) :
    receiveFrom cls loads none (send dumps p ++ rest)
      = (receiveFrom cls loads none rest).map (fun r => (p.norm :: r.1, r.2)) :=
  receive_send hcls hs rest

/-- **Order, application level.**  Any sequence of events and acknowledgements of the domain,
    sent one after the other, is handled — handler and callback invocations with their
    arguments — in the order sent. -/
theorem order (hcls : AsciiCls cls) (ms : List Msg)
    (hdom : ∀ m ∈ ms, m.InDomain = true)
    (hrt : ∀ m ∈ ms, loads (J.dumps m.wireJson) = .ok m.wireJson) :
    deliver cls loads (sendAll J.dumps (ms.map (Msg.packet true)))
      = .ok (ms.map Msg.expected, none) :=
  deliver_msgs hcls ms hdom hrt

/-- the packets of `order` are the ones the constructor makes -/
theorem packet_is_constructed (m : Msg) :
    mkPacket true m.baseType (some m.payload) (some m.ns) m.id none = .ok (m.packet true) :=
  mkPacket_msg m

def exLoads2 (s : Str) : Except Err J :=
  if s = J.dumps exM.wireJson then .ok exM.wireJson
  else if s = J.dumps exAck.wireJson then .ok exAck.wireJson else .error .jsonError

/-- non-vacuity: a binary event, a binary ack and the event again — seven frames, three
    invocations in order -/
example : deliver asciiCls exLoads2 (sendAll J.dumps ([exM, exAck, exM].map (Msg.packet true)))
    = .ok ([exM.expected, exAck.expected, exM.expected], none) ∧
    (sendAll J.dumps ([exM, exAck, exM].map (Msg.packet true))).length = 8 := by
  refine ⟨order asciiCls_ascii [exM, exAck, exM] (by decide) ?_, by decide⟩
  intro m hm
  simp only [List.mem_cons, List.not_mem_nil, or_false] at hm
  rcases hm with rfl | rfl | rfl
  · simp [exLoads2]
  · have : J.dumps exAck.wireJson ≠ J.dumps exM.wireJson := by decide
    simp [exLoads2, this]
  · simp [exLoads2]

/-- why "one sender": if the attachment of one message is overtaken by the text frame of the
    next, the text frame is swallowed as the attachment — the first handler gets a *string* where
    the byte string was, the second message is lost, and its attachment is refused -/
example :
    let m1 := Msg.event "a".toList (.one (.bin [1])) "/".toList none
    let m2 := Msg.event "b".toList (.one (.bin [2])) "/".toList none
    let ld : Str → Except Err J := fun s =>
      if s = J.dumps m1.wireJson then .ok m1.wireJson else .error .jsonError
    let t1 := Frame.text "51-[\"a\",{\"_placeholder\":true,\"num\":0}]".toList
    let t2 := Frame.text "51-[\"b\",{\"_placeholder\":true,\"num\":0}]".toList
    send J.dumps (m1.packet true) = [t1, .bin [1]] ∧ send J.dumps (m2.packet true) = [t2, .bin [2]] ∧
      deliver asciiCls ld [t1, t2]
        = .ok ([.event "/".toList none (.str "a".toList)
                  [.str "51-[\"b\",{\"_placeholder\":true,\"num\":0}]".toList]], none) ∧
      deliver asciiCls ld [t1, t2, .bin [1]] = .error .typeError :=
  ⟨rfl, rfl, rfl, rfl⟩

/-! ## 4. msgpack -/

variable {ser : J → Bytes} {deser : Bytes → Except Err J}

/-- **msgpack, events.**  With the msgpack packet class a message is one frame,
    `ser (_to_dict())`; under the hypothesis that `deser` inverts `ser` on that one dictionary
    the handler is invoked with exactly `pack d`.  No restriction on the namespace or on
    dictionary keys: nothing is parsed or substituted. -/
theorem msgpack_event_e2e (ev : Str) (d : Data) (ns : Str) (id : Option Nat) :
    ∃ p, mkEvent false ev d ns id = .ok p ∧
      (deser (ser (toDict p)) = .ok (toDict p) →
        deliverMP deser (sendMP ser p) = .ok [.event ns id (.str ev) d.pack]) := by
  refine ⟨_, mkEvent_eq false ev d ns id, fun h => ?_⟩
  have := deliverMP_msgs (ser := ser) (deser := deser) [.event ev d ns id] (by simpa using h)
  simpa [sendAllMP, Msg.expected] using this

/-- **msgpack, acknowledgements.** -/
theorem msgpack_ack_e2e (ret : Data) (ns : Str) (id : Nat) :
    ∃ p, mkAck false ret ns id = .ok p ∧
      (deser (ser (toDict p)) = .ok (toDict p) →
        deliverMP deser (sendMP ser p) = .ok [.ack ns (some id) ret.pack]) ∧
      callResult ret.pack = normalise ret := by
  refine ⟨_, mkAck_eq false ret ns id, fun h => ?_, callResult_pack ret⟩
  have := deliverMP_msgs (ser := ser) (deser := deser) [.ack ret ns id] (by simpa using h)
  simpa [sendAllMP, Msg.expected] using this

/-- **msgpack, order.** -/
theorem msgpack_order (ms : List Msg)
    (hser : ∀ m ∈ ms, deser (ser (toDict (m.packet false))) = .ok (toDict (m.packet false))) :
    deliverMP deser (sendAllMP ser (ms.map (Msg.packet false))) = .ok (ms.map Msg.expected) :=
  deliverMP_msgs ms hser

/-- the dictionary that is serialised: `id` present exactly when the message carries one -/
theorem msgpack_dict (m : Msg) :
    toDict (m.packet false) =
      .obj ([(kType, .int m.baseType), (kData, m.payload), (kNsp, .str m.ns)]
            ++ (match m.id with | some i => [(kId, .int i)] | none => [])) := by
  cases h : m.id <;> simp [Msg.packet, toDict, h]

/-- `_to_dict` is read back exactly (`MsgPackPacket.decode`) -/
theorem msgpack_dict_roundtrip (m : Msg) : ofDict (toDict (m.packet false)) = .ok (m.packet false) := by
  rw [msg_packet_mp]; exact ofDict_toDict _ _ _ _ (msg_payload_ne_null m)

/-- non-vacuity: a serialiser pair that is faithful on the one dictionary (here: a one-entry
    table), the example message with its id -/
example :
    let p := exM.packet false
    let ser : J → Bytes := fun _ => [0xC1]
    let deser : Bytes → Except Err J := fun b => if b = [0xC1] then .ok (toDict p) else .error .other
    deser (ser (toDict p)) = .ok (toDict p) ∧
    deliverMP deser (sendMP ser p) = .ok [exM.expected] ∧ p.type = EVENT ∧
    lookup kId (match toDict p with | .obj kvs => kvs | _ => []) = some (.int 12) := by
  refine ⟨by simp, ?_, rfl, rfl⟩
  have := msgpack_order (ser := fun _ => [0xC1])
    (deser := fun b => if b = [0xC1] then .ok (toDict (exM.packet false)) else .error .other) [exM]
    (by simp)
  simpa [sendAllMP] using this

/-! ## 5. the domain boundary (informational)

The reserved key is a real boundary of the *default* serializer: a dictionary
`{"_placeholder": true, "num": 0}` sent next to a byte string comes back as that byte string.
Reproduced on the real code by the harness on every run (as a note, not as a finding: the key is
reserved by the Socket.IO protocol). -/

def exReserved : Msg :=
  .event "e".toList (.tuple [.obj [("_placeholder".toList, .bool true), ("num".toList, .int 0)], .bin [9]])
    "/".toList none

theorem reserved_key_not_transparent :
    exReserved.InDomain = false ∧
    deliver asciiCls (fun s => if s = J.dumps exReserved.wireJson then .ok exReserved.wireJson
        else .error .jsonError) (send J.dumps (exReserved.packet true))
      = .ok ([.event "/".toList none (.str "e".toList) [.bin [9], .bin [9]]], none) := by
  refine ⟨by decide, rfl⟩

/-! ## 6. closed form: the concrete JSON reader

With `loads := J.loads` (Sio/Model/JsonParse.lean) the hypothesis `hrt` is a theorem
(`Sio.loads_dumps_lem`, C01 phase 2): the only thing left to assume about a payload is that its
float leaves carry well-formed float literals (every `repr` of a finite Python float is one). -/

/-- `hrt` holds for the concrete reader -/
theorem hrt_concrete (m : Msg) (hf : FltLits m.payload = true) :
    J.loads (J.dumps m.wireJson) = .ok m.wireJson :=
  loads_dumps_lem _ (noBin_decon m.payload []) (fltLits_decon m.payload [] hf)

theorem event_e2e_json (hcls : AsciiCls cls) (ev : Str) (d : Data) (ns : Str) (id : Option Nat)
    (hdom : (Msg.event ev d ns id).InDomain = true)
    (hf : FltLits (eventPayload ev d) = true) :
    ∃ p, mkEvent true ev d ns id = .ok p ∧
      deliver cls J.loads (send J.dumps p) = .ok ([.event ns id (.str ev) d.pack], none) := by
  obtain ⟨p, _, h1, _, _, h4⟩ :=
    event_e2e (loads := J.loads) hcls ev d ns id hdom (hrt_concrete (.event ev d ns id) hf)
  exact ⟨p, h1, h4⟩

theorem ack_e2e_json (hcls : AsciiCls cls) (ret : Data) (ns : Str) (id : Nat)
    (hdom : (Msg.ack ret ns id).InDomain = true)
    (hf : FltLits (ackPayload ret) = true) :
    ∃ p, mkAck true ret ns id = .ok p ∧
      deliver cls J.loads (send J.dumps p) = .ok ([.ack ns (some id) ret.pack], none) ∧
      callResult ret.pack = normalise ret := by
  obtain ⟨p, _, h1, _, _, h4, h5⟩ :=
    ack_e2e (loads := J.loads) hcls ret ns id hdom (hrt_concrete (.ack ret ns id) hf)
  exact ⟨p, h1, h4, h5⟩

theorem order_json (hcls : AsciiCls cls) (ms : List Msg)
    (hdom : ∀ m ∈ ms, m.InDomain = true)
    (hf : ∀ m ∈ ms, FltLits m.payload = true) :
    deliver cls J.loads (sendAll J.dumps (ms.map (Msg.packet true)))
      = .ok (ms.map Msg.expected, none) :=
  order hcls ms hdom (fun m hm => hrt_concrete m (hf m hm))

/-- non-vacuity, with a float -/
example : (Msg.event "e".toList (.one (.arr [.flt "1.5e+16".toList, .bin [7]])) "/n".toList none).InDomain = true ∧
    FltLits (eventPayload "e".toList (.one (.arr [.flt "1.5e+16".toList, .bin [7]]))) = true :=
  ⟨by decide, by decide⟩

end Sio.C02
