/-
  C09 — Client events and acknowledgements: one handler, one ACK, callback once.

  Model: Sio/Model/Client.lean (K7).  All statements are about `step` / `run` of that model, for
  every handler registry `cfg`, every state or every history (lists of inputs of any length).
  Helper lemmas: Sio/Lemmas/Client*.lean.
-/
import Sio.Lemmas.ClientAck
namespace Sio.C09
open Sio Sio.Client

/-- the `_trigger_event` records of a trace -/
def trigs (os : List Out) : List (Str × Ns × Option (Slot × List J)) :=
  os.filterMap (fun o => match o with | .trig ev n tgt => some (ev, n, tgt) | _ => none)

/-- the packets handed to the transport -/
def sends (os : List Out) : List Packet :=
  os.filterMap (fun o => match o with | .send p => some p | _ => none)

/-- what the handler responsible for `(ns, name, args)` returns (`None` when there is none) -/
def retOf (cfg : Cfg) (n : Ns) (name : Str) (args : List J) : Data :=
  match cfg.resolve n name args with
  | some (slot, a) => cfg.ret slot a
  | none => .none

theorem handleEvent_spec (cfg : Cfg) (c : Cli) (ns : Option Ns) (id : Option Nat) (name : Str)
    (args : List J) :
    (handleEvent cfg c ns id (some (.arr (.str name :: args)))).1 = c
    ∧ trigs (handleEvent cfg c ns id (some (.arr (.str name :: args)))).2
        = [(name, nsOr ns, cfg.resolve (nsOr ns) name args)]
    ∧ sends (handleEvent cfg c ns id (some (.arr (.str name :: args)))).2
        = (match id with
           | none => []
           | some i => if c.eio = .connected
               then [evPacket ACK (.arr (retOf cfg (nsOr ns) name args).pack) (nsOr ns) (some i)] else []) := by
  refine ⟨handleEvent_state' _ _ _ _ _, ?_, ?_⟩
  · unfold handleEvent trigger
    cases id <;> cases h : cfg.resolve (nsOr ns) name args <;> simp [trigs, h, sendPkt] <;> split <;> simp
  · unfold handleEvent trigger retOf
    cases id <;> cases h : cfg.resolve (nsOr ns) name args <;> simp [sends, h, sendPkt] <;> split <;> simp

/-- **C09.invoke_once** — an EVENT the server sends on namespace `ns` (no binary packet pending)
    runs `_trigger_event` exactly once, for that namespace and name, with the event's arguments:
    the responsible handler (`cfg.resolve`) is invoked once with them, and nothing is invoked when
    no handler is responsible (`tgt = none`).  The client state does not change. -/
theorem invoke_once (cfg : Cfg) (c : Cli) (raw : J) (ns : Option Ns) (id : Option Nat) (name : Str)
    (args : List J) (hb : c.binbuf = none) (he : c.eio = .connected) :
    let r := deliver cfg c (.msg raw (.ok (⟨EVENT, ns, id, some (.arr (.str name :: args))⟩, 0)))
    r.1 = c ∧ trigs r.2 = [(name, nsOr ns, cfg.resolve (nsOr ns) name args)] := by
  have h := handleEvent_spec cfg c ns id name args
  have hp : deliver cfg c (.msg raw (.ok (⟨EVENT, ns, id, some (.arr (.str name :: args))⟩, 0)))
      = handleEvent cfg c ns id (some (.arr (.str name :: args))) := by
    simp [deliver, he, onMessage, hb, isBinType, handlePkt, EVENT, CONNECT, DISCONNECT, BINARY_EVENT,
      BINARY_ACK]
  simp only [hp]
  exact ⟨h.1, h.2.1⟩

/-- **C09.invoke_once** for a BINARY_EVENT: the attachment that completes the packet dispatches
    the reassembled event exactly once. -/
theorem invoke_once_binary (cfg : Cfg) (c : Cli) (raw : J) (d : Except Err (Packet × Nat))
    (pt : Partial) (pk : Packet) (name : Str) (args : List J)
    (hb : c.binbuf = some pt) (he : c.eio = .connected)
    (ha : addAttachment pt raw = .ok (.complete pk)) (ht : pk.type = BINARY_EVENT)
    (hd : pk.data = some (.arr (.str name :: args))) :
    let r := deliver cfg c (.msg raw d)
    r.1 = { c with binbuf := none }
    ∧ trigs r.2 = [(name, nsOr pk.nsp, cfg.resolve (nsOr pk.nsp) name args)] := by
  have h := handleEvent_spec cfg { c with binbuf := none } pk.nsp pk.id name args
  have hp : deliver cfg c (.msg raw d)
      = handleEvent cfg { c with binbuf := none } pk.nsp pk.id (some (.arr (.str name :: args))) := by
    simp [deliver, he, onMessage, hb, ha, ht, hd]
  simp only [hp]
  exact ⟨h.1, h.2.1⟩

/-- **C09.ack_unconditional** — an event carrying an id is answered with exactly one ACK bearing that
    id and the event's namespace and carrying the handler's return value (`None` as no arguments,
    a tuple as several, anything else as one) — also when no handler exists (`retOf = None`,
    payload `[]`); an event without id is not answered. -/
theorem ack_unconditional (cfg : Cfg) (c : Cli) (raw : J) (ns : Option Ns) (id : Option Nat)
    (name : Str) (args : List J) (hb : c.binbuf = none) (he : c.eio = .connected) :
    sends (deliver cfg c (.msg raw (.ok (⟨EVENT, ns, id, some (.arr (.str name :: args))⟩, 0)))).2
      = match id with
        | none => []
        | some i => [evPacket ACK (.arr (retOf cfg (nsOr ns) name args).pack) (nsOr ns) (some i)] := by
  have h := handleEvent_spec cfg c ns id name args
  have hp : deliver cfg c (.msg raw (.ok (⟨EVENT, ns, id, some (.arr (.str name :: args))⟩, 0)))
      = handleEvent cfg c ns id (some (.arr (.str name :: args))) := by
    simp [deliver, he, onMessage, hb, isBinType, handlePkt, EVENT, CONNECT, DISCONNECT, BINARY_EVENT,
      BINARY_ACK]
  rw [hp, h.2.2]
  cases id <;> simp [he]

/-- the ACK packet: id, namespace and payload; promoted to BINARY_ACK exactly when the return value
    holds bytes (what `Packet(ACK, …)` does, `Codec.mkPacket`) -/
theorem ack_packet (d : J) (n : Ns) (i : Nat) :
    (evPacket ACK d n (some i)).id = some i ∧ (evPacket ACK d n (some i)).nsp = some n
    ∧ (evPacket ACK d n (some i)).data = some d
    ∧ mkPacket true ACK (some d) (some n) (some i) none = .ok (evPacket ACK d n (some i)) := by
  unfold evPacket mkPacket
  cases h : d.isBinary <;> simp [h, ACK, EVENT]

/-- **C09.id_unique** — along every history the id invariant holds … -/
theorem id_invariant (cfg : Cfg) (h : List Input) : IdInv (run cfg init h).1 :=
  (cbRun_run cfg h init).inv IdInv_init

/-- … hence every emit with a callback (and every `call()`) on a connected namespace carries, on its
    EVENT packet, an id that no outstanding callback of that namespace has, and stores the callback
    under it; no (namespace, id) is ever stored twice. -/
theorem id_unique (cfg : Cfg) (h : List Input) (ev : Str) (d : Data) (ns : Option Ns) (k : Cb)
    (reacts : List Ev) :
    let c := (run cfg init h).1
    hasNs c (nsOr ns) = true → c.eio = .connected →
    ∃ i, (sends (emitCore cfg c ev d ns (some k) reacts).2.1).head?
            = some (evPacket EVENT (.arr (.str ev :: d.pack)) (nsOr ns) (some i))
       ∧ (∀ e ∈ c.cbs, e.1 = nsOr ns → e.2.1 ≠ i)
       ∧ (nsOr ns, i, k) ∈ (genId c (nsOr ns) k).1.cbs := by
  intro c hn he
  refine ⟨(genId c (nsOr ns) k).2, ?_, genId_fresh (id_invariant cfg h) (nsOr ns) k, ?_⟩
  · have he' : (genId c (nsOr ns) k).1.eio = .connected := he
    unfold emitCore
    simp [hn, he', sends]
  · simp [genId]

/-- the tokens of the callback invocations of a trace -/
def firedToks (os : List Out) : List Nat := (cbOuts os).map (fun e => e.1.tok)

/-- **C09.callback_at_most_once** — in a history whose callbacks are distinct objects (distinct
    tokens), every callback is invoked at most once, and only callbacks that were registered are
    invoked — whatever ACKs (correct, repeated, unknown, for another namespace) arrive, and
    across disconnections and reconnections. -/
theorem callback_at_most_once (cfg : Cfg) (h : List Input) (hd : (histToks h).Nodup) :
    (firedToks (run cfg init h).2).Nodup
    ∧ ∀ t ∈ firedToks (run cfg init h).2, t ∈ histToks h := by
  have hr := cbRun_run cfg h init
  have hc : ∀ t, (firedToks (run cfg init h).2).count t ≤ (histToks h).count t := by
    intro t
    have := hr.count t
    have hinit : tokCnt t init.cbs = 0 := rfl
    unfold outCnt at this
    unfold firedToks
    omega
  refine ⟨?_, ?_⟩
  · rw [List.nodup_iff_count]
    intro t
    have h1 := hc t
    have h2 := List.nodup_iff_count.mp hd t
    omega
  · intro t ht
    have h1 := hc t
    have : 0 < (firedToks (run cfg init h).2).count t := List.count_pos_iff.mpr ht
    exact List.count_pos_iff.mp (by omega)

/-- … and a callback runs only for an ACK bearing its namespace and id, with the acknowledged
    arguments: an ACK `(ns, id, args)` invokes exactly the callback stored under `(ns, id)` and
    removes it — the entry is gone before the callback runs, so neither a callback that raises nor
    a duplicate ACK delivered from inside the callback can make it run again; every other piece of the client invokes no callback (`CbStep`, Sio/Lemmas/ClientAck). -/
theorem callback_on_matching_ack (c : Cli) (ns : Option Ns) (i : Nat) (args : List J)
    (e : Ns × Nat × Cb) (hf : c.cbs.find? (isKey (nsOr ns) i) = some e) :
    cbOuts (handleAck c ns (some i) (some (.arr args))).2 = [(e.2.2, args)]
    ∧ (handleAck c ns (some i) (some (.arr args))).1.cbs = c.cbs.filter (fun x => !isKey (nsOr ns) i x) := by
  unfold handleAck
  simp only [hf]
  exact ⟨by rw [cbOuts_ackOuts], trivial⟩

theorem callback_only_by_ack (cfg : Cfg) (c : Cli) (e : Ev) :
    CbStep c (deliver cfg c e).1 (deliver cfg c e).2 := cbStep_deliver cfg c e

/-- **C09.unknown_ack_inert** (full strength: any id, 0 included) — an ACK whose (namespace, id)
    matches no outstanding callback changes nothing and produces nothing. -/
theorem unknown_ack_inert (cfg : Cfg) (c : Cli) (raw : J) (ns : Option Ns) (id : Option Nat)
    (data : Option J) (hb : c.binbuf = none)
    (hu : ∀ i, id = some i → c.cbs.find? (isKey (nsOr ns) i) = none) :
    deliver cfg c (.msg raw (.ok (⟨ACK, ns, id, data⟩, 0))) = (c, []) := by
  cases he : c.eio with
  | disconnected => simp [deliver, he]
  | connected =>
    have hp : deliver cfg c (.msg raw (.ok (⟨ACK, ns, id, data⟩, 0))) = handleAck c ns id data := by
      simp [deliver, he, onMessage, hb, isBinType, handlePkt, ACK, EVENT, CONNECT, DISCONNECT,
        BINARY_EVENT, BINARY_ACK]
    rw [hp]
    unfold handleAck
    cases id with
    | none => rfl
    | some i => simp [hu i rfl]

/-- **C09.call_result** — `call()` on a namespace that is not connected raises `BadNamespaceError`;
    otherwise it returns `None`, the single value, or the tuple its own callback was invoked with
    during the call, and raises `TimeoutError` if it was not invoked. -/
theorem call_result (cfg : Cfg) (c : Cli) (ev : Str) (d : Data) (ns : Option Ns) (tok : Nat)
    (reacts : List Ev) :
    let core := emitCore cfg c ev d ns (some ⟨tok, .call⟩) reacts
    let r := call cfg c ev d ns tok reacts
    (hasNs c (nsOr ns) = false → r = (c, [.raised .badNamespace]))
    ∧ (hasNs c (nsOr ns) = true →
        r.1 = core.1 ∧
        r.2 = core.2.1 ++ [match callArgs tok core.2.1 with
                           | some [] => .result .none
                           | some [x] => .result (.one x)
                           | some (x :: y :: zs) => .result (.tuple (x :: y :: zs))
                           | none => .raised .timeout]) := by
  refine ⟨?_, ?_⟩
  · intro hn
    simp [call, emitCore, hn]
  · intro hn
    have hok : (emitCore cfg c ev d ns (some ⟨tok, .call⟩) reacts).2.2 = true := by
      unfold emitCore; simp only [hn]; simp; split <;> rfl
    unfold call
    simp only [hok, Bool.not_true, Bool.false_eq_true, if_false]
    cases hca : callArgs tok (emitCore cfg c ev d ns (some ⟨tok, .call⟩) reacts).2.1 with
    | none => simp
    | some a =>
      match a with
      | [] => simp [unpack]
      | [x] => simp [unpack]
      | x :: y :: zs => simp [unpack]

/-! ### non-vacuity: the hypotheses above are met by concrete states -/

def cfg1 : Cfg := ⟨fun n ev a => if ev = ['m'] then some (⟨false, n, ev⟩, a) else none, fun _ a => .tuple a⟩
def nsA : Ns := ['/', 'a']
def accept (n : Ns) (s : Str) : Ev :=
  .msg (.str []) (.ok (⟨CONNECT, some n, none, some (.obj [(sSid, .str s)])⟩, 0))
/-- connected to `/a` with one callback outstanding -/
def hist1 : List Input :=
  [.connect [nsA] ⟨false, none⟩ true (.accept ['E']) [[accept nsA ['s']]],
   .emit ['m'] .none (some nsA) (some ⟨7, .fn⟩) []]

example : (run cfg1 init hist1).1.binbuf = none ∧ (run cfg1 init hist1).1.eio = .connected
    ∧ hasNs (run cfg1 init hist1).1 nsA = true ∧ (histToks hist1).Nodup
    ∧ (run cfg1 init hist1).1.cbs.length = 1 := by decide

/-- the ACK fires the callback, a second one is inert -/
example : firedToks (run cfg1 init (hist1 ++ [
      .ev (.msg (.str []) (.ok (⟨ACK, some nsA, some 1, some (.arr [])⟩, 0))),
      .ev (.msg (.str []) (.ok (⟨ACK, some nsA, some 1, some (.arr [])⟩, 0)))])).2 = [7] := by decide

end Sio.C09
