import Sio.Model.Client
namespace Sio.C09
open Sio.Client
theorem placeholder_stub : True := trivial
end Sio.C09
