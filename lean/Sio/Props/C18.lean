/-
  C18 — admin instrumentation: gated by credentials, read-only means read-only.

  Models: `Sio/Model/Admin.lean` (`pyEq`, `adminConnect`/`admits`, `registered`/`instrumentReg`)
  on top of the server model `Sio/Model/Server.lean` (`resolve`, `step`).  Every theorem is for
  ARBITRARY payloads (any `J`, unbounded depth and width), arbitrary credential dicts / lists /
  predicates (`J → Bool`), arbitrary application registries, server states and mode strings.

  The read-only clause on the instrumented server as a whole, per step and for whole histories:
  `read_only_request_inert`, `read_only_queued_request_inert`, `read_only_history_inert`.

  The third clause of the property (application clients observe the same with and without
  instrumentation): `wrappers_transparent_partial` (and, in read-only / production mode without
  the first half of its `quiet` hypothesis, `wrappers_transparent_read_only[_sync]`), over the model
  `Instrumented.stepWith` (= `Server.step` on the instrumented registry, the admin handlers' API
  calls, the wrappers' reports), tied to admin.py by harness/props/c18.py which runs the model
  next to the real instrumented server (and the real instrumented next to the real plain server).
-/
import Sio.Lemmas.Admin
import Sio.Lemmas.AdminTransparent
namespace Sio.C18
open Sio Sio.Admin Sio.Server
open Sio.Rooms (Ns Sid Eio)

/-! ### the gate -/

/-- **The gate, outright.**  `admin_connect` lets a client in iff authentication was disabled, or
    the payload equals the credentials dict, or it equals one of the listed credential sets, or
    the predicate holds of it.  (`a` is the value the handler receives.) -/
theorem admits_iff (cfg : AuthCfg) (a : J) :
    admits cfg a = true ↔
      cfg = .disabled ∨
      (∃ d, cfg = .dict d ∧ pyEq a (.obj d) = true) ∨
      (∃ ds, cfg = .list ds ∧ ∃ d ∈ ds, pyEq a d = true) ∨
      (∃ p, cfg = .pred p ∧ p a = true) := by
  cases cfg with
  | disabled => simp [admits]
  | dict d => simp [admits]
  | list ds => simp [admits, List.any_eq_true]
  | pred p => simp [admits]

/-- The line-by-line transcription of `admin_connect` on the raw `auth=` argument is the gate of
    the classified configuration; it raises exactly when `configure` does. -/
theorem adminConnect_eq (auth : AuthArg) (a : J) :
    adminConnect auth a = (configure auth).map (fun cfg => admits cfg a) := by
  cases auth with
  | missing => rfl
  | fn p => rfl
  | val j =>
    simp only [adminConnect, configure]
    cases ht : j.truthy
    · simp [Except.map, admits]
    · cases j <;> simp [Except.map, admits]

/-- `auth=None` never yields an open door: the constructor raises (in every mode). -/
theorem configure_missing : configure .missing = .error .valueError := rfl

/-- Authentication is disabled only by an explicitly passed falsy value. -/
theorem configure_disabled_iff (auth : AuthArg) :
    configure auth = .ok .disabled ↔ ∃ j, auth = .val j ∧ j.truthy = false := by
  cases auth with
  | missing => simp [configure]
  | fn p => simp [configure]
  | val j =>
    simp only [configure]
    cases ht : j.truthy
    · simp [ht]
    · cases j <;> simp_all

/-! ### Python `==` on payloads -/

/-- Equal dicts have the same number of entries and every key of the left is a key of the right:
    a payload with a key missing or a key too many is never equal to the credentials. -/
theorem pyEq_keys {a b : List (Str × J)} (h : pyEq (.obj a) (.obj b) = true) :
    a.length = b.length ∧ ∀ k ∈ keys a, k ∈ keys b := by
  rw [pyEq_obj_obj] at h
  simp only [Bool.and_eq_true, beq_iff_eq] at h
  exact ⟨h.1, pyEqO_keys_subset h.2⟩

/-- … and for a real dict on the left (distinct keys) the key sets coincide. -/
theorem pyEq_keys_iff {a b : List (Str × J)} (nd : (keys a).Nodup)
    (h : pyEq (.obj a) (.obj b) = true) : ∀ k, k ∈ keys a ↔ k ∈ keys b := by
  obtain ⟨hl, hsub⟩ := pyEq_keys h
  intro k
  refine ⟨hsub k, ?_⟩
  exact nodup_subset_surj (keys a) (keys b) nd hsub (by simp [keys, hl]) k

/-- A strict superset of the credentials (one more key, whatever its value) is refused. -/
theorem pyEq_superset_false (d : List (Str × J)) (k : Str) (v : J) (pre post : List (Str × J)) :
    pyEq (.obj (pre ++ (k, v) :: post)) (.obj d) = true → (pre ++ post).length ≠ d.length := by
  intro h
  have := (pyEq_keys h).1
  simp only [List.length_append, List.length_cons] at this ⊢
  omega

/-- A payload that lacks a key of the credentials is refused. -/
theorem pyEq_missing_key_false {a d : List (Str × J)} {k : Str} (nd : (keys a).Nodup)
    (hk : k ∈ keys d) (hna : k ∉ keys a) : pyEq (.obj a) (.obj d) = false := by
  cases h : pyEq (.obj a) (.obj d) with
  | false => rfl
  | true => exact absurd ((pyEq_keys_iff nd h k).mpr hk) hna

/-- A payload with a key the credentials do not have is refused. -/
theorem pyEq_extra_key_false {a d : List (Str × J)} {k : Str}
    (hk : k ∈ keys a) (hnd : k ∉ keys d) : pyEq (.obj a) (.obj d) = false := by
  cases h : pyEq (.obj a) (.obj d) with
  | false => rfl
  | true => exact absurd ((pyEq_keys h).2 k hk) hnd

/-- Nothing but a dict equals a dict (absent / `None` / numbers / strings / lists never pass a
    dict credential), in either operand order. -/
theorem pyEq_nondict (a : J) (d : List (Str × J)) :
    (pyEq a (.obj d) = true → ∃ a', a = .obj a') ∧ (pyEq (.obj d) a = true → ∃ a', a = .obj a') :=
  ⟨pyEq_obj_right, pyEq_obj_left⟩

/-- `==` is reflexive on JSON-shaped values (distinct dict keys, no NaN): the right credentials
    are always accepted. -/
theorem pyEq_refl (a : J) (h : Dom a) : pyEq a a = true := Admin.pyEq_refl a h

/-- `==` is symmetric on JSON-shaped values: `client_auth == self.auth` and
    `self.auth == client_auth` (what `in` evaluates) agree. -/
theorem pyEq_symm (a b : J) (ha : Dom a) (hb : Dom b) : pyEq a b = pyEq b a :=
  Admin.pyEq_symm a b ha hb

/-- Key order is irrelevant (a permutation of the credentials is accepted)… -/
example : pyEq (.obj [("username".toList, .str "u".toList), ("password".toList, .str "p".toList)])
    (.obj [("password".toList, .str "p".toList), ("username".toList, .str "u".toList)]) = true := by
  decide
/-- … list order is not, `True == 1 == 1.0`, `"1"` is not `1`, bytes are not text, sub- and
    supersets fail. -/
example : pyEq (.arr [.int 1, .int 2]) (.arr [.int 2, .int 1]) = false := by decide
example : pyEq (.obj [("k".toList, .bool true)]) (.obj [("k".toList, .int 1)]) = true := by decide
example : pyEq (.obj [("k".toList, .flt "1.0".toList)]) (.obj [("k".toList, .int 1)]) = true := by decide
example : pyEq (.obj [("k".toList, .str "1".toList)]) (.obj [("k".toList, .int 1)]) = false := by decide
example : pyEq (.str "ab".toList) (.bin [97, 98]) = false := by decide
example : pyEq (.obj [("u".toList, .int 1)]) (.obj [("u".toList, .int 1), ("p".toList, .int 2)]) = false := by
  decide
example : pyEq (.obj [("u".toList, .int 1), ("p".toList, .int 2), ("x".toList, .null)])
    (.obj [("u".toList, .int 1), ("p".toList, .int 2)]) = false := by decide
example : pyEq (.obj [("u".toList, .obj [("n".toList, .arr [.int 1, .null])])])
    (.obj [("u".toList, .obj [("n".toList, .arr [.bool true, .null])])]) = true := by decide
/-- the hypotheses of `pyEq_refl` / `pyEq_symm` are met by nested values -/
example : Dom (.obj [("u".toList, .arr [.int 1, .flt "1.5".toList]), ("p".toList, .obj [])]) := by
  refine .obj _ (by decide) ?_
  intro p hp
  simp only [List.mem_cons, List.not_mem_nil, or_false] at hp
  rcases hp with rfl | rfl
  · refine .arr _ ?_
    intro x hx
    simp only [List.mem_cons, List.not_mem_nil, or_false] at hx
    rcases hx with rfl | rfl
    · exact .int _
    · exact .flt _ (by decide)
  · exact .obj _ (by decide) (by simp)
/-- `nan` is why reflexivity needs the domain hypothesis -/
example : pyEq (.flt "nan".toList) (.flt "nan".toList) = false := by decide

/-! ### the gate as seen from the wire

`Server._handle_connect` passes the CONNECT payload on only if it is truthy; the handler
receives `None` otherwise.  For credential dicts and lists of credential dicts this is invisible:
acceptance is still "the payload the client presented equals the credentials". -/

theorem pyEq_falsy_obj_false {a : J} {d : List (Str × J)} (hd : d ≠ []) (ha : a.truthy = false) :
    pyEq a (.obj d) = false := by
  cases h : pyEq a (.obj d) with
  | false => rfl
  | true =>
    obtain ⟨a', rfl⟩ := pyEq_obj_right h
    have hl := (pyEq_keys h).1
    cases a' with
    | nil => cases d with
      | nil => exact absurd rfl hd
      | cons _ _ => simp at hl
    | cons _ _ => simp [J.truthy] at ha

theorem admitsWire_dict {d : List (Str × J)} (hd : d ≠ []) (w : Option J) :
    admitsWire (.dict d) w = true ↔ ∃ a, w = some a ∧ pyEq a (.obj d) = true := by
  cases w with
  | none => simp [admitsWire, present, admits, pyEq, scalarEq]
  | some a =>
    simp only [admitsWire, present, admits, Option.some.injEq, exists_eq_left']
    cases ht : a.truthy
    · simp [pyEq, scalarEq, pyEq_falsy_obj_false hd ht]
    · simp

theorem admitsWire_list {ds : List J} (hds : ∀ d ∈ ds, ∃ kv, d = .obj kv ∧ kv ≠ []) (w : Option J) :
    admitsWire (.list ds) w = true ↔ ∃ a, w = some a ∧ ∃ d ∈ ds, pyEq a d = true := by
  have hnull : ∀ a : J, a.truthy = false → ∀ d ∈ ds, pyEq a d = false := by
    intro a ha d hd
    obtain ⟨kv, rfl, hkv⟩ := hds d hd
    exact pyEq_falsy_obj_false hkv ha
  cases w with
  | none =>
    simp only [admitsWire, present, admits, List.any_eq_true]
    constructor
    · rintro ⟨d, hd, h⟩
      rw [hnull .null rfl d hd] at h; exact absurd h (by simp)
    · rintro ⟨a, ha, _⟩; simp at ha
  | some a =>
    simp only [admitsWire, present, admits, Option.some.injEq, exists_eq_left', List.any_eq_true]
    cases ht : a.truthy
    · simp only [Bool.false_eq_true, if_false]
      constructor
      · rintro ⟨d, hd, h⟩
        rw [hnull .null rfl d hd] at h; exact absurd h (by simp)
      · rintro ⟨d, hd, h⟩
        rw [hnull a ht d hd] at h; exact absurd h (by simp)
    · simp

/-- For a predicate the statement is about what the handler is given. -/
theorem admitsWire_pred (p : J → Bool) (w : Option J) :
    admitsWire (.pred p) w = p (present w) := rfl

/-- the boundary recorded as known finding `C18/falsy-auth-presented-as-None`: the predicate
    `a is None` is false of the payload `0`, which is nevertheless admitted -/
example : Pred.isNull.eval (.int 0) = false ∧ admitsWire (.pred Pred.isNull.eval) (some (.int 0)) = true := by
  decide

/-! ### what `instrument()` registers -/

/-- **Exactly when the four mutators exist**: `emit`, `join`, `leave`, `_disconnect` have a
    handler on the admin namespace iff the mode is `development` and `read_only` is off.
    (`production` never has them, `read_only` or not.) -/
theorem registry_mutators (mode : Str) (ro : Bool) (ev : Str) (hev : ev ∈ mutators) :
    ev ∈ registered mode ro ↔ (isDev mode = true ∧ ro = false) := by
  have hne : ev ≠ "connect".toList := by
    intro h; subst h; simp [mutators] at hev
  have hne' : ¬ ev = ['c', 'o', 'n', 'n', 'e', 'c', 't'] := hne
  cases hd : isDev mode <;> cases ro <;> simp [registered, hd, hne', hev]

/-- **read-only registry**: with `read_only` on, or in any mode other than `development`, the only
    handler on the admin namespace is `connect`. -/
theorem read_only_registry (mode : Str) (ro : Bool) (h : ro = true ∨ isDev mode = false) :
    registered mode ro = ["connect".toList] ∧ ∀ ev ∈ mutators, ev ∉ registered mode ro := by
  refine ⟨registered_ro h, ?_⟩
  intro ev hev hin
  have := (registry_mutators mode ro ev hev).mp hin
  rcases h with h | h
  · simp [h] at this
  · simp [h] at this

/-- non-vacuity: the writable configuration does register them -/
example : registered "development".toList false =
    ["connect".toList, "emit".toList, "join".toList, "leave".toList, "_disconnect".toList] := by decide
example : registered "production".toList false = ["connect".toList] := by decide
example : registered "development".toList true = ["connect".toList] := by decide

/-- **No admin request resolves to a handler** in read-only mode (application without handlers on
    the admin namespace and without catch-all *namespace* handlers, `AppClear`): whatever the
    event is called — `emit`, `join`, `leave`, `_disconnect` or anything but `connect` — and
    whatever its arguments, `_trigger_event` finds nobody (`self.not_handled`). -/
theorem read_only_resolve {app : Registry} {adminNs : Ns} {mode : Str} {ro : Bool}
    (hro : ro = true ∨ isDev mode = false) (hc : AppClear app adminNs) (hns : adminNs ≠ star)
    {ev : Str} (hev : ev ∈ mutators ∨ ev ≠ "connect".toList) (args : List J) :
    resolve (instrumentReg app adminNs mode ro) adminNs (.str ev) args = .ok .notHandled := by
  have hne : ev ≠ "connect".toList := by
    rcases hev with h | h
    · intro e; subst e; simp [mutators] at h
    · exact h
  exact resolve_ro_notHandled hro hc hns hne args

/-- Without any assumption on the application: the admin namespace itself never contributes a
    mutator — a function handler an admin event resolves to in read-only mode is either
    `connect`'s or one the application registered. -/
theorem read_only_no_mutator_slot {app : Registry} {adminNs : Ns} {mode : Str} {ro : Bool}
    (hro : ro = true ∨ isDev mode = false) (ev : Str) (hev : ev ∈ mutators) :
    (instrumentReg app adminNs mode ro).fn adminNs ev = app.fn adminNs ev := by
  have hne : ev ≠ "connect".toList := by
    intro e; subst e; simp [mutators] at hev
  have hne' : ¬ ev = ['c', 'o', 'n', 'n', 'e', 'c', 't'] := hne
  simp [instrumentReg, registered_ro hro, hne']

/-- In the writable configuration the same request does resolve to the admin's handler. -/
theorem writable_resolve (app : Registry) {adminNs : Ns} (hadm : adminNs ≠ star) {mode : Str}
    (hd : isDev mode = true)
    {ev : Str} (hev : ev ∈ mutators) (args : List J) :
    resolve (instrumentReg app adminNs mode false) adminNs (.str ev) args =
      .ok (.fn (.fn adminNs ev) args) := by
  have hin : ev ∈ registered mode false := (registry_mutators mode false ev hev).mpr ⟨hd, rfl⟩
  have hstar : ¬ ev = star := by
    intro e; subst e; simp [mutators, star] at hev
  simp [resolve, instrumentReg, hashable, inDict, evStr, hin, hstar, hadm]

/-! ### frame: read-only admin traffic does nothing (over `Sio.Server.step`) -/

section frame
variable {app : Registry} {adminNs : Ns} {mode : Str} {ro : Bool} {cfg : Cfg}

/-- **Synchronous handlers.** An EVENT (or reassembled BINARY_EVENT) frame from an admin client
    whose name is one of the mutators — or anything but `connect` — leaves the *entire* server
    state unchanged and produces no output at all: no room membership changes, no packet to any
    client on any namespace, no handler invocation, no disconnect, not even an ACK. -/
theorem read_only_frame_inert (dec : Str → Except Err (Packet × Nat))
    (hreg : cfg.reg = instrumentReg app adminNs mode ro)
    (hro : ro = true ∨ isDev mode = false) (hc : AppClear app adminNs) (hns : adminNs ≠ star)
    {ev : Str} (hev : ev ≠ "connect".toList) (hsync : cfg.asyncHandlers = false)
    (s : Srv) (t : Eio) (c : Char) (cs : Str) {p : Packet} {n : Nat} {rest : List J}
    (hbuf : s.binbuf.find? (fun e => e.1 = t) = none)
    (hdec : dec (c :: cs) = .ok (p, n)) (hty : p.type = EVENT) (hnsp : p.nsp = some adminNs)
    (hd : splitEvent p.data = .ok (.str ev, rest)) :
    step dec cfg s (.frame t (.str (c :: cs))) = (s, []) :=
  step_frame_ro_sync dec hreg hro hc hns hev hsync s t c cs hbuf hdec hty hnsp hd

/-- The event handler proper, for any payload shape (`handleEvent` is also what a completed binary
    packet is given to). -/
theorem read_only_event_inert
    (hreg : cfg.reg = instrumentReg app adminNs mode ro)
    (hro : ro = true ∨ isDev mode = false) (hc : AppClear app adminNs) (hns : adminNs ≠ star)
    {ev : Str} (hev : ev ≠ "connect".toList) (hsync : cfg.asyncHandlers = false)
    (s : Srv) (t : Eio) (id : Option Nat) {data : Option J} {rest : List J}
    (hd : splitEvent data = .ok (.str ev, rest)) :
    handleEvent cfg s t (some adminNs) id data = (s, []) :=
  handleEvent_ro_sync hreg hro hc hns hev hsync s t id hd

/-- **`async_handlers=True`** (the default): the frame queues the handler, `settle` runs it; the
    two steps together leave the state unchanged and produce nothing. -/
theorem read_only_frame_inert_async (dec : Str → Except Err (Packet × Nat))
    (hreg : cfg.reg = instrumentReg app adminNs mode ro)
    (hro : ro = true ∨ isDev mode = false) (hc : AppClear app adminNs) (hns : adminNs ≠ star)
    {ev : Str} (hev : ev ≠ "connect".toList) (hasync : cfg.asyncHandlers = true)
    (s : Srv) (hbg : s.bg = []) (t : Eio) (c : Char) (cs : Str) {p : Packet} {n : Nat}
    {rest : List J}
    (hbuf : s.binbuf.find? (fun e => e.1 = t) = none)
    (hdec : dec (c :: cs) = .ok (p, n)) (hty : p.type = EVENT) (hnsp : p.nsp = some adminNs)
    (hd : splitEvent p.data = .ok (.str ev, rest)) :
    run dec cfg s [.frame t (.str (c :: cs)), .settle] = (s, []) :=
  run_frame_settle_ro_async dec hreg hro hc hns hev hasync s hbg t c cs hbuf hdec hty hnsp hd

/-- … and whenever such a queued handler runs, in whatever state: nothing. -/
theorem read_only_handler_inert
    (hreg : cfg.reg = instrumentReg app adminNs mode ro)
    (hro : ro = true ∨ isDev mode = false) (hc : AppClear app adminNs) (hns : adminNs ≠ star)
    {ev : Str} (hev : ev ≠ "connect".toList) (s : Srv) (b : Bg) (hb : b.ns = adminNs)
    (hf : b.first = .str ev) : runHandler cfg s b = (s, []) :=
  runHandler_ro hreg hro hc hns hev s b hb hf

/-! ### a refused attempt gains no membership -/

/-- **refused ⇒ no membership**: the admin CONNECT of a client whose payload the gate does not
    admit (the connect handler's outcome is `connectOutcome`) leaves the room relation exactly
    as it was (instance of the server model's connect with outcome *refuse*; `hfresh` is the
    trusted freshness of `eio.generate_id()`; `henv`: the transport was opened; `hadm`: the admin
    namespace is not called `*` — a constructor-time fact, `/admin` by default). -/
theorem refused_no_membership (hreg : cfg.reg = instrumentReg app adminNs mode ro)
    (hadm : adminNs ≠ star)
    (s : Srv) (t : Eio) (payload : Option J) (acfg : AuthCfg)
    (hscript : cfg.script.onConnect s.nConn = connectOutcome acfg payload)
    (hrefuse : admitsWire acfg payload = false)
    (henv : s.environ.contains t = true)
    (hfresh : ∀ e ∈ s.rooms, e.sid ≠ sidName s.nextSid) :
    (handleConnect cfg s t (some adminNs) payload).1.rooms = s.rooms ∧
    ∀ o ∈ (handleConnect cfg s t (some adminNs) payload).2,
      (∃ p, o = .send t p) ∨ (∃ a, o = .invoke (.fn adminNs "connect".toList) a) :=
  ⟨handleConnect_refused hreg hadm s t payload acfg hscript hrefuse henv hfresh,
   handleConnect_refused_outs hreg hadm s t payload acfg hscript hrefuse henv⟩

/-- Contrast (non-vacuity of the above): an admitted attempt does become a member. -/
theorem admitted_membership (hreg : cfg.reg = instrumentReg app adminNs mode ro)
    (hadm : adminNs ≠ star)
    (s : Srv) (t : Eio) (payload : Option J) (acfg : AuthCfg)
    (hscript : cfg.script.onConnect s.nConn = connectOutcome acfg payload)
    (hadmit : admitsWire acfg payload = true)
    (henv : s.environ.contains t = true)
    (hnew : Rooms.sidOf s.rooms adminNs t = none) :
    Rooms.isMember (handleConnect cfg s t (some adminNs) payload).1.rooms adminNs none
      (sidName s.nextSid) = true :=
  handleConnect_admitted hreg hadm s t payload acfg hscript hadmit henv hnew

end frame

/-! ### reports are invisible (model level) -/

/-- Every report of the instrumentation is a `sio.emit(..., namespace=admin_namespace)` without a
    callback.  In the server model such an emit changes no state and every packet it produces is
    on the admin namespace: filtered by `observeApp`, nothing is left. -/
theorem report_invisible (s : Srv) (ev : Str) (d : Data) (adminNs : Ns) (to : Rooms.Target)
    (skip : List Sid) :
    (emit s ev d adminNs to skip none).1 = s ∧
    observeApp adminNs (emit s ev d adminNs to skip none).2 = [] :=
  Admin.report_invisible s ev d adminNs to skip


/-! ### the instrumented server is transparent (model level)

`Instrumented.stepWith dec c a mode ro rep` is one input on the instrumented server: `Server.step`
on the configuration whose registry is `instrumentReg c.reg a mode ro`, then the API calls of the
admin handlers `emit / join / leave / _disconnect` the step invoked, then the reports `rep` says
the wrappers emit — each `Server.step … (.emit ev d a to [] none)`.  The theorems hold for EVERY
reporting policy `rep` (so also for the one transcribed from admin.py, `reports`, whatever the
abstract payloads are), every decoder, every application registry / script / server options.

What is compared (`observeTrace`, `appState`), input by input: packets of namespaces other than
`a` per transport in order, invocations of handlers of other namespaces with their arguments,
callbacks, results of API calls and the exceptions they raise to the caller; and the state
without the rooms and queued handlers of `a` (all callbacks, ack counters, sessions, environ,
reassembly buffers).  Exceptions *contained* while a frame / a transport loss / a queued handler
is processed are not observations of any client (`contained`).

The reference run is the same configuration with the application's own registry, on the SAME
history (admin frames included: the plain server refuses them), in which the id generator and
the connect / event scripts skip what the admin CONNECTs consumed on the instrumented server
(`Plain.traceSkip`, as C12's `runSkip`; with no skips it is literally `Server.run`,
`traceSkip_zero`).

Hypotheses (why `_partial`):
 * `AppClear`, `a ≠ "*"`, `isServed c a = false`: the application has no handler on the admin
   namespace, no catch-all namespace handlers, and does not serve `a` itself (for
   `namespaces='*'` the plain server would accept admin clients as ordinary ones — excluded);
 * `appInput`: the application's API calls do not address `a`; no blocking `call()` in the
   history (its nested inputs cannot be given skips) — excluded;
 * `Instrumented.quiet` (decidable, evaluated along the instrumented run): no step invokes one of
   the four mutators — they act on the application by design; in read-only / production mode
   this half is a THEOREM (`quiet_of_read_only`; `wrappers_transparent_read_only` and, with
   synchronous handlers, `wrappers_transparent_read_only_sync` no longer assume it) — and, when queued handlers
   run (`async_handlers`), no queued *admin* EVENT has a handler: the only such event is one
   literally named `connect` (it would run `admin_connect` as an event handler and thereby
   consume an outcome of the application's event script between two application events; with
   synchronous handlers it is covered).
One transport connected both to application namespaces and to the admin namespace IS covered:
nothing is assumed about which transport sends what. -/

/-- **One input.**  From any well-formed state whose application part is well formed, one input on
    the instrumented server and the same input on the plain server started in the application
    part of that state: same application-side outputs, and the application parts of the
    successor states agree up to the generators' positions. -/
theorem step_transparent (dec : Str → Except Err (Packet × Nat)) (c : Cfg) {a : Ns} (mode : Str)
    (ro : Bool) (rep : Srv → Input → List Out → List Report)
    (hc : AppClear c.reg a) (ha : a ≠ star) (hserved : isServed c a = false)
    {s : Srv} (h : Server.WF s) (h' : Server.WF (appPart a s)) (i : Input)
    (hi : appInput a i = true)
    (hq : Instrumented.quietStep c a mode ro s i
      (Server.step dec (Instrumented.cfg c a mode ro) s i).2 = true) :
    (∃ k, appPart a (Instrumented.stepWith dec c a mode ro rep s i).1 =
      bumpBy k (Server.step dec c (appPart a s) i).1) ∧
    appView a i (Instrumented.stepWith dec c a mode ro rep s i).2 =
      appView a i (Server.step dec c (appPart a s) i).2 :=
  stepWith_sim ha c hc hserved mode ro dec rep h (noAdminCb_of_wf h h') i hi hq

/-- **Histories, whether or not an admin is connected.** -/
theorem wrappers_transparent_partial (dec : Str → Except Err (Packet × Nat)) (c : Cfg) {a : Ns}
    (mode : Str) (ro : Bool) (rep : Srv → Input → List Out → List Report)
    (hc : AppClear c.reg a) (ha : a ≠ star) (hserved : isServed c a = false)
    (hist : List Input) (happ : hist.all (appInput a) = true)
    (hq : Instrumented.quiet dec c a mode ro rep {} hist = true) :
    ∃ skips : List Skip, skips.length = hist.length ∧
      observeTrace a (Instrumented.traceWith dec c a mode ro rep {} hist).2 =
        observeTrace a (Plain.traceSkip dec c {} (skips.zip hist)).2 ∧
      appState a (Instrumented.traceWith dec c a mode ro rep {} hist).1 =
        appState a (Plain.traceSkip dec c {} (skips.zip hist)).1 :=
  trace_sim ha c hc hserved mode ro dec rep hist {} {} {} Server.WF.init Server.WF.init rfl
    (fun i hi => List.all_eq_true.mp happ i hi) hq

/-- … in particular for the wrappers of admin.py (`reports`), whatever timestamps, serialised
    sockets and statistics they carry, and for the outputs of the whole run in one list. -/
theorem wrappers_transparent_partial_run (dec : Str → Except Err (Packet × Nat)) (c : Cfg) {a : Ns}
    (mode : Str) (ro : Bool) (P : Payloads)
    (hc : AppClear c.reg a) (ha : a ≠ star) (hserved : isServed c a = false)
    (hist : List Input) (happ : hist.all (appInput a) = true)
    (hq : Instrumented.quiet dec c a mode ro
      (reports dec (Instrumented.cfg c a mode ro) a mode P) {} hist = true) :
    ∃ skips : List Skip, skips.length = hist.length ∧
      (observeTrace a (Instrumented.trace dec c a mode ro P {} hist).2).flatMap (·.2) =
        (observeTrace a (Plain.traceSkip dec c {} (skips.zip hist)).2).flatMap (·.2) ∧
      appState a (Instrumented.run dec c a mode ro P {} hist).1 =
        appState a (Plain.runSkip dec c {} (skips.zip hist)).1 := by
  obtain ⟨skips, hl, h1, h2⟩ := wrappers_transparent_partial dec c mode ro
    (reports dec (Instrumented.cfg c a mode ro) a mode P) hc ha hserved hist happ hq
  exact ⟨skips, hl, congrArg (fun l => l.flatMap (·.2)) h1, h2⟩

/-- without skips the reference run is the server model's `run` -/
theorem traceSkip_zero (dec : Str → Except Err (Packet × Nat)) (c : Cfg) (s : Srv) (hist : List Input) :
    Plain.runSkip dec c s (hist.map (fun i => (({} : Skip), i))) = Server.run dec c s hist := by
  induction hist generalizing s with
  | nil => rw [run_nil]; rfl
  | cons i is ih =>
    have := ih (Server.step dec c s i).1
    simp only [Plain.runSkip] at this ⊢
    rw [run_cons, List.map_cons, Plain.traceSkip]
    simp only [List.flatMap_cons]
    rw [← this]
    rfl

/-- In read-only / non-development mode no event resolves to one of the four mutators, on any
    namespace, whatever its name and arguments (so the first half of `quiet` holds by
    construction there). -/
theorem ro_resolve_no_mutator {app : Registry} {a : Ns} {mode : Str} {ro : Bool}
    (hro : ro = true ∨ isDev mode = false) (hc : AppClear app a) (ha : a ≠ star)
    {ns : Ns} {ev : J} {args : List J} {r : Resolved}
    (h : resolve (instrumentReg app a mode ro) ns ev args = .ok r) :
    ∀ slot args', (r = .fn slot args' ∨ r = .clsCall slot args') →
      mutatorCalled a (.invoke slot args') = false :=
  Admin.ro_resolve_no_mutator hro hc ha h

/-! ### read-only / production mode: `quiet`'s first half is a theorem

`Instrumented.quiet` is the conjunction of `Instrumented.noMutator` (no step of the history invokes
`emit / join / leave / _disconnect`) and `Instrumented.settleQuiet` (at `settle`, no queued admin
EVENT has a handler) — `quiet_split`.  With `read_only=True`, or in any mode other than
`development`, the first conjunct holds of EVERY history from EVERY state: `ro_resolve_no_mutator`
lifted through `endSession`, `handleConnect`, `runHandler`, `handleEvent`, `handleFrame`,
`handleLost`, `settle`, blocking `call()`s with their nested histories, the admin handlers' API
calls and the reports (`Sio/Lemmas/AdminTransparent.lean`, `step_run_noMut`, `stepWith_noMut`). -/

/-- `quiet` is its two halves -/
theorem quiet_split (dec : Str → Except Err (Packet × Nat)) (c : Cfg) (a : Ns) (mode : Str) (ro : Bool)
    (rep : Srv → Input → List Out → List Report) (s : Srv) (hist : List Input) :
    Instrumented.quiet dec c a mode ro rep s hist =
      (Instrumented.noMutator dec c a mode ro rep s hist &&
        Instrumented.settleQuiet dec c a mode ro rep s hist) :=
  quiet_eq dec c a mode ro rep s hist

/-- **The server core never invokes a mutator in read-only / production mode**: for every decoder,
    every configuration whose registry is `instrumentReg app a mode ro`, every state `s` (reachable
    or not) and every history (any inputs, blocking `call()`s with nested histories included), no
    output of the run is the invocation of `emit / join / leave / _disconnect` of the admin
    namespace. -/
theorem read_only_run_no_mutator (dec : Str → Except Err (Packet × Nat)) {cfg : Cfg} {app : Registry}
    {a : Ns} {mode : Str} {ro : Bool} (hreg : cfg.reg = instrumentReg app a mode ro)
    (hro : ro = true ∨ isDev mode = false) (hc : AppClear app a) (ha : a ≠ star)
    (s : Srv) (hist : List Input) :
    ∀ slot args, Out.invoke slot args ∈ (run dec cfg s hist).2 →
      mutatorCalled a (.invoke slot args) = false := by
  intro slot args hm
  have hR : RegNoMut cfg.reg a := by rw [hreg]; exact regNoMut_ro hro hc ha
  exact (step_run_noMut dec hR).2 s hist _ hm

/-- **`quiet`'s first half, proved** (read-only / production mode): from every state, along every
    history and for every reporting policy, no step invokes a mutator
    (`Instrumented.noMutator … = true`); moreover NO output of the instrumented run — of the core,
    of the admin handlers' API calls, of the reports — is the invocation of a mutator; hence
    `quiet` is just its second half. -/
theorem quiet_of_read_only (dec : Str → Except Err (Packet × Nat)) (c : Cfg) {a : Ns} {mode : Str}
    {ro : Bool} (rep : Srv → Input → List Out → List Report)
    (hro : ro = true ∨ isDev mode = false) (hc : AppClear c.reg a) (ha : a ≠ star)
    (s : Srv) (hist : List Input) :
    Instrumented.noMutator dec c a mode ro rep s hist = true ∧
    (∀ x ∈ (Instrumented.traceWith dec c a mode ro rep s hist).2, ∀ slot args,
      Out.invoke slot args ∈ x.2 → mutatorCalled a (.invoke slot args) = false) ∧
    Instrumented.quiet dec c a mode ro rep s hist =
      Instrumented.settleQuiet dec c a mode ro rep s hist :=
  ⟨noMutator_ro c hro hc ha dec rep hist s,
   fun x hx _ _ hm => traceWith_noMut c hro hc ha dec rep hist s x hx _ hm,
   quiet_ro c hro hc ha dec rep s hist⟩

/-- … and with synchronous handlers (`async_handlers=False`) the second half holds too, from any
    state with an empty queue: nothing is ever queued. -/
theorem quiet_of_read_only_sync (dec : Str → Except Err (Packet × Nat)) (c : Cfg) {a : Ns} {mode : Str}
    {ro : Bool} (rep : Srv → Input → List Out → List Report)
    (hro : ro = true ∨ isDev mode = false) (hc : AppClear c.reg a) (ha : a ≠ star)
    (hsync : c.asyncHandlers = false) {s : Srv} (hbg : s.bg = []) (hist : List Input) :
    Instrumented.quiet dec c a mode ro rep s hist = true := by
  rw [quiet_ro c hro hc ha dec rep s hist]
  exact settleQuiet_sync dec c a mode ro rep hsync hist hbg

/-- **Transparency in read-only / production mode**: `wrappers_transparent_partial` with `quiet`
    replaced by the mode hypothesis and the remaining half of `quiet` — along the run, whenever
    queued handlers are run, no queued admin EVENT has a handler (in this mode: no admin client
    sent an EVENT literally named `connect` under `async_handlers=True`). -/
theorem wrappers_transparent_read_only (dec : Str → Except Err (Packet × Nat)) (c : Cfg) {a : Ns}
    (mode : Str) (ro : Bool) (rep : Srv → Input → List Out → List Report)
    (hro : ro = true ∨ isDev mode = false)
    (hc : AppClear c.reg a) (ha : a ≠ star) (hserved : isServed c a = false)
    (hist : List Input) (happ : hist.all (appInput a) = true)
    (hq : Instrumented.settleQuiet dec c a mode ro rep {} hist = true) :
    ∃ skips : List Skip, skips.length = hist.length ∧
      observeTrace a (Instrumented.traceWith dec c a mode ro rep {} hist).2 =
        observeTrace a (Plain.traceSkip dec c {} (skips.zip hist)).2 ∧
      appState a (Instrumented.traceWith dec c a mode ro rep {} hist).1 =
        appState a (Plain.traceSkip dec c {} (skips.zip hist)).1 :=
  wrappers_transparent_partial dec c mode ro rep hc ha hserved hist happ
    (by rw [quiet_ro c hro hc ha dec rep {} hist]; exact hq)

theorem wrappers_transparent_read_only_run (dec : Str → Except Err (Packet × Nat)) (c : Cfg) {a : Ns}
    (mode : Str) (ro : Bool) (P : Payloads) (hro : ro = true ∨ isDev mode = false)
    (hc : AppClear c.reg a) (ha : a ≠ star) (hserved : isServed c a = false)
    (hist : List Input) (happ : hist.all (appInput a) = true)
    (hq : Instrumented.settleQuiet dec c a mode ro
      (reports dec (Instrumented.cfg c a mode ro) a mode P) {} hist = true) :
    ∃ skips : List Skip, skips.length = hist.length ∧
      (observeTrace a (Instrumented.trace dec c a mode ro P {} hist).2).flatMap (·.2) =
        (observeTrace a (Plain.traceSkip dec c {} (skips.zip hist)).2).flatMap (·.2) ∧
      appState a (Instrumented.run dec c a mode ro P {} hist).1 =
        appState a (Plain.runSkip dec c {} (skips.zip hist)).1 :=
  wrappers_transparent_partial_run dec c mode ro P hc ha hserved hist happ
    (by rw [quiet_ro c hro hc ha dec _ {} hist]; exact hq)

/-- **Transparency in read-only / production mode with `async_handlers=False`: no `quiet` left.**
    For every history whose API calls do not address the admin namespace, whatever the admin
    clients send. -/
theorem wrappers_transparent_read_only_sync (dec : Str → Except Err (Packet × Nat)) (c : Cfg) {a : Ns}
    (mode : Str) (ro : Bool) (rep : Srv → Input → List Out → List Report)
    (hro : ro = true ∨ isDev mode = false)
    (hc : AppClear c.reg a) (ha : a ≠ star) (hserved : isServed c a = false)
    (hsync : c.asyncHandlers = false)
    (hist : List Input) (happ : hist.all (appInput a) = true) :
    ∃ skips : List Skip, skips.length = hist.length ∧
      observeTrace a (Instrumented.traceWith dec c a mode ro rep {} hist).2 =
        observeTrace a (Plain.traceSkip dec c {} (skips.zip hist)).2 ∧
      appState a (Instrumented.traceWith dec c a mode ro rep {} hist).1 =
        appState a (Plain.traceSkip dec c {} (skips.zip hist)).1 :=
  wrappers_transparent_partial dec c mode ro rep hc ha hserved hist happ
    (quiet_of_read_only_sync dec c rep hro hc ha hsync rfl hist)

theorem wrappers_transparent_read_only_sync_run (dec : Str → Except Err (Packet × Nat)) (c : Cfg)
    {a : Ns} (mode : Str) (ro : Bool) (P : Payloads) (hro : ro = true ∨ isDev mode = false)
    (hc : AppClear c.reg a) (ha : a ≠ star) (hserved : isServed c a = false)
    (hsync : c.asyncHandlers = false)
    (hist : List Input) (happ : hist.all (appInput a) = true) :
    ∃ skips : List Skip, skips.length = hist.length ∧
      (observeTrace a (Instrumented.trace dec c a mode ro P {} hist).2).flatMap (·.2) =
        (observeTrace a (Plain.traceSkip dec c {} (skips.zip hist)).2).flatMap (·.2) ∧
      appState a (Instrumented.run dec c a mode ro P {} hist).1 =
        appState a (Plain.runSkip dec c {} (skips.zip hist)).1 :=
  wrappers_transparent_partial_run dec c mode ro P hc ha hserved hist happ
    (quiet_of_read_only_sync dec c _ hro hc ha hsync rfl hist)

/-! ### read-only means read-only, on the instrumented server as a whole -/

/-- **No request of an admin client can emit application events, change room membership or
    disconnect clients** — per step, from ANY state (reachable or not), for any reporting policy.
    The input is a frame that delivers an EVENT packet of the admin namespace (`arriving`: a text
    frame, or the last attachment of a BINARY_EVENT), whatever the event is called and whatever
    its arguments are.  After the step of the instrumented server (core, admin handlers' API calls,
    reports):
    * the room relation is unchanged, on every namespace (no membership change, no session gone);
    * every session is connected iff it was;
    * every packet sent is a packet of the admin namespace (no application event, no DISCONNECT
      to an application client);
    * every handler invoked is a handler of the admin namespace and none of the four mutators
      (no application handler, in particular no `disconnect` handler, runs);
    * no callback fires; nothing at all is visible on the application side. -/
theorem read_only_request_inert (dec : Str → Except Err (Packet × Nat)) (c : Cfg) {a : Ns}
    {mode : Str} {ro : Bool} (rep : Srv → Input → List Out → List Report)
    (hro : ro = true ∨ isDev mode = false) (hc : AppClear c.reg a) (ha : a ≠ star)
    (s : Srv) (t : Eio) (v : J) {p : Packet}
    (harr : arriving dec s t v = some p) (hty : p.type = EVENT) (hns : p.nsp.getD ['/'] = a) :
    (Instrumented.stepWith dec c a mode ro rep s (.frame t v)).1.rooms = s.rooms ∧
    (∀ sid ns, isConnected (Instrumented.stepWith dec c a mode ro rep s (.frame t v)).1 sid ns =
      isConnected s sid ns) ∧
    (∀ t' q, Out.send t' q ∈ (Instrumented.stepWith dec c a mode ro rep s (.frame t v)).2 →
      q.nsp = some a) ∧
    (∀ slot args, Out.invoke slot args ∈ (Instrumented.stepWith dec c a mode ro rep s (.frame t v)).2 →
      slotNs slot = a ∧ mutatorCalled a (.invoke slot args) = false) ∧
    (∀ n args, Out.callback n args ∉ (Instrumented.stepWith dec c a mode ro rep s (.frame t v)).2) ∧
    appView a (.frame t v) (Instrumented.stepWith dec c a mode ro rep s (.frame t v)).2 = [] := by
  obtain ⟨hr, hp, hh, hn⟩ := stepWith_adminEvent_ro c hro hc ha dec rep s t v harr hty hns
  refine ⟨hr, ?_, ?_, ?_, ?_, ?_⟩
  · intro sid ns; simp only [isConnected, hr, hp]
  · intro t' q hm
    simpa [appVisible] using hh _ hm
  · intro slot args hm
    exact ⟨by simpa [appVisible] using hh _ hm, hn _ hm⟩
  · intro n args hm
    have := hh _ hm
    simp [appVisible] at this
  · rw [appView, List.filter_eq_nil_iff]
    intro o ho
    simp [contained, hh o ho]

/-- **… nor when the request runs later** (`async_handlers=True`: the frame above only queued it):
    the queued handler of an admin EVENT, run in whatever state, moves nothing but the position
    of the event script (an event literally named `connect` runs `admin_connect`); rooms,
    sessions, callbacks are untouched; every output is an admin-namespace packet, an invocation of
    an admin-namespace handler that is not a mutator, or a contained exception. -/
theorem read_only_queued_request_inert (c : Cfg) {a : Ns} {mode : Str} {ro : Bool}
    (hro : ro = true ∨ isDev mode = false) (hc : AppClear c.reg a) (ha : a ≠ star)
    (s : Srv) (b : Bg) (hb : b.ns = a) :
    (∃ k, (runHandler (Instrumented.cfg c a mode ro) s b).1 = { s with nEv := s.nEv + k }) ∧
    (∀ t' q, Out.send t' q ∈ (runHandler (Instrumented.cfg c a mode ro) s b).2 → q.nsp = some a) ∧
    (∀ slot args, Out.invoke slot args ∈ (runHandler (Instrumented.cfg c a mode ro) s b).2 →
      slotNs slot = a ∧ mutatorCalled a (.invoke slot args) = false) ∧
    (∀ n args, Out.callback n args ∉ (runHandler (Instrumented.cfg c a mode ro) s b).2) := by
  obtain ⟨hk, hh, hn⟩ := runHandler_admin_ro c hro hc ha s b hb
  refine ⟨hk, ?_, ?_, ?_⟩
  · intro t' q hm
    simpa [appVisible] using hh _ hm
  · intro slot args hm
    exact ⟨by simpa [appVisible] using hh _ hm, hn _ hm⟩
  · intro n args hm
    have := hh _ hm
    simp [appVisible] at this

/-- **Whole histories: the admin clients' requests might as well not have been sent.**
    In read-only / production mode, for every history whose API calls do not address the admin
    namespace (admin transports contribute frames — any frames, any payloads — and losses), the
    application side observes on the instrumented server exactly the outputs, in the same order,
    and ends in the same application state as on the PLAIN server (the application's own registry)
    run on the history from which every EVENT frame of the admin namespace has been removed
    (`Instrumented.withoutAdminEvents`: text frames, i.e. sent while no binary packet of that
    transport is being reassembled, that decode to an EVENT packet on `a`) — up to the positions
    of the id generator and of the scripts (`skips`, as in `wrappers_transparent_partial`).
    Remaining hypothesis: `settleQuiet` (see `wrappers_transparent_read_only`). -/
theorem read_only_history_inert (dec : Str → Except Err (Packet × Nat)) (c : Cfg) {a : Ns}
    (mode : Str) (ro : Bool) (rep : Srv → Input → List Out → List Report)
    (hro : ro = true ∨ isDev mode = false)
    (hc : AppClear c.reg a) (ha : a ≠ star) (hserved : isServed c a = false)
    (hist : List Input) (happ : hist.all (appInput a) = true)
    (hq : Instrumented.settleQuiet dec c a mode ro rep {} hist = true) :
    ∃ skips : List Skip,
      skips.length = (Instrumented.withoutAdminEvents dec c a mode ro rep {} hist).length ∧
      (observeTrace a (Instrumented.traceWith dec c a mode ro rep {} hist).2).flatMap (·.2) =
        (observeTrace a (Plain.traceSkip dec c {}
          (skips.zip (Instrumented.withoutAdminEvents dec c a mode ro rep {} hist))).2).flatMap (·.2) ∧
      appState a (Instrumented.traceWith dec c a mode ro rep {} hist).1 =
        appState a (Plain.traceSkip dec c {}
          (skips.zip (Instrumented.withoutAdminEvents dec c a mode ro rep {} hist))).1 :=
  pruned_sim ha c hc hserved mode ro dec rep hist {} {} {} Server.WF.init Server.WF.init rfl
    (fun i hi => List.all_eq_true.mp happ i hi)
    (by rw [quiet_ro c hro hc ha dec rep {} hist]; exact hq)

/-- … with `async_handlers=False`: for every such history, no further hypothesis. -/
theorem read_only_history_inert_sync (dec : Str → Except Err (Packet × Nat)) (c : Cfg) {a : Ns}
    (mode : Str) (ro : Bool) (rep : Srv → Input → List Out → List Report)
    (hro : ro = true ∨ isDev mode = false)
    (hc : AppClear c.reg a) (ha : a ≠ star) (hserved : isServed c a = false)
    (hsync : c.asyncHandlers = false)
    (hist : List Input) (happ : hist.all (appInput a) = true) :
    ∃ skips : List Skip,
      skips.length = (Instrumented.withoutAdminEvents dec c a mode ro rep {} hist).length ∧
      (observeTrace a (Instrumented.traceWith dec c a mode ro rep {} hist).2).flatMap (·.2) =
        (observeTrace a (Plain.traceSkip dec c {}
          (skips.zip (Instrumented.withoutAdminEvents dec c a mode ro rep {} hist))).2).flatMap (·.2) ∧
      appState a (Instrumented.traceWith dec c a mode ro rep {} hist).1 =
        appState a (Plain.traceSkip dec c {}
          (skips.zip (Instrumented.withoutAdminEvents dec c a mode ro rep {} hist))).1 :=
  read_only_history_inert dec c mode ro rep hro hc ha hserved hist happ
    (settleQuiet_sync dec c a mode ro rep hsync hist rfl)

/-! ### non-vacuity: one concrete instrumented server -/

def exApp : Registry :=
  { fn := fun ns ev => ns == ['/'] && ev == "msg".toList,
    fnNs := fun ns => ns == ['/'],
    cls := fun _ => false, clsMethod := fun _ _ => false }

def exAdminNs : Ns := "/admin".toList

theorem exApp_clear : AppClear exApp exAdminNs :=
  ⟨by decide, by intro e; simp [exApp, exAdminNs], by decide, by decide, by decide⟩

def exCreds : List (Str × J) := [("username".toList, .str "u".toList), ("password".toList, .str "p".toList)]

/-- read-only development server; the connect handler is the gate for `exCreds`, fed with a
    superset payload -/
def exCfg (payload : Option J) : Cfg :=
  { alwaysConnect := false, served := some [['/']], asyncHandlers := false,
    reg := instrumentReg exApp exAdminNs "development".toList true,
    script := ⟨fun _ => connectOutcome (.dict exCreds) payload, fun _ => .ret .none, fun _ => .ok⟩ }

def exSuperset : J := .obj (exCreds ++ [("admin".toList, .bool true)])

/-- a server with one application client in room `r1` and one open, not yet connected transport -/
def exSrv : Srv :=
  { rooms := [⟨['/'], none, "s0".toList, "T1".toList⟩, ⟨['/'], some "s0".toList, "s0".toList, "T1".toList⟩,
              ⟨['/'], some "r1".toList, "s0".toList, "T1".toList⟩],
    environ := ["T1".toList, "A".toList], socks := ["T1".toList, "A".toList], nextSid := 1 }

/-- the hypotheses of `refused_no_membership` hold here, and the conclusion is not about an
    empty relation -/
example : admitsWire (.dict exCreds) (some exSuperset) = false ∧
    exSrv.environ.contains "A".toList = true ∧
    (∀ e ∈ exSrv.rooms, e.sid ≠ sidName exSrv.nextSid) ∧
    (handleConnect (exCfg (some exSuperset)) exSrv "A".toList (some exAdminNs) (some exSuperset)).1.rooms
      = exSrv.rooms ∧ exSrv.rooms.length = 3 := by
  refine ⟨by decide, by decide, by decide, ?_, rfl⟩
  exact (refused_no_membership (app := exApp) (mode := "development".toList) (ro := true) rfl (by decide)
    exSrv "A".toList (some exSuperset) (.dict exCreds) rfl (by decide) (by decide) (by decide)).1

/-- the right credentials (keys permuted) are admitted -/
example : admitsWire (.dict exCreds)
    (some (.obj [("password".toList, .str "p".toList), ("username".toList, .str "u".toList)])) = true := by
  decide

/-- read-only: an admin `_disconnect` / `emit` / `join` / `leave` resolves to nobody … -/
example : resolve (exCfg none).reg exAdminNs (.str "_disconnect".toList)
    [.str "a0".toList, .str ['/'], .bool false] = .ok .notHandled :=
  read_only_resolve (Or.inl rfl) exApp_clear (by decide) (Or.inl (by decide)) _

/-- … whereas on the writable server it resolves to the admin's handler. -/
example : resolve (instrumentReg exApp exAdminNs "development".toList false) exAdminNs
    (.str "_disconnect".toList) [.str "a0".toList] =
    .ok (.fn (.fn exAdminNs "_disconnect".toList) [.str "a0".toList]) :=
  writable_resolve exApp (adminNs := exAdminNs) (by decide) (by decide) (by decide) _

/-! ### non-vacuity of `wrappers_transparent_partial` -/

/-- toy decoder: `c` CONNECT to `/`, `a` CONNECT to `/admin`, `e` EVENT `msg` on `/` (ack id 1),
    `x` EVENT `_disconnect` on `/admin`, `q` EVENT `connect` on `/admin`, `d` DISCONNECT `/admin` -/
def exDec : Str → Except Err (Packet × Nat)
  | ['c'] => .ok (⟨CONNECT, none, none, none⟩, 0)
  | ['a'] => .ok (⟨CONNECT, some exAdminNs, none, none⟩, 0)
  | ['e'] => .ok (⟨EVENT, none, some 1, some (.arr [.str "msg".toList, .int 1])⟩, 0)
  | ['x'] => .ok (⟨EVENT, some exAdminNs, none,
      some (.arr [.str "_disconnect".toList, .str ['/'], .bool false])⟩, 0)
  | ['q'] => .ok (⟨EVENT, some exAdminNs, none, some (.arr [.str "connect".toList])⟩, 0)
  | ['d'] => .ok (⟨DISCONNECT, some exAdminNs, none, none⟩, 0)
  | _ => .error .valueError

/-- the application's own configuration: one handler `msg` on `/`, only `/` served -/
def exPlain : Cfg :=
  { alwaysConnect := false, served := some [['/']], asyncHandlers := false, reg := exApp,
    script := ⟨fun _ => .accept, fun n => .ret (.one (.int n)), fun _ => .ok⟩ }

def exPayloads : Payloads :=
  { stamp := .str "t".toList, socket := fun sid ns => .arr [.str sid, .str ns], features := .null,
    stats := fun _ i => match i with | .settle => some .null | _ => none }

/-- one admin (transport `A`, which is ALSO an application client on `/`), two application-only
    clients `T1`, `T2`; the admin sends a mutator request (read-only: nobody's) and an event
    named `connect`, leaves and the others go on -/
def exHist : List Input :=
  [.eioConnect ['A'], .eioConnect ['1'], .eioConnect ['2'],
   .frame ['A'] (.str ['a']), .frame ['1'] (.str ['c']), .frame ['2'] (.str ['c']),
   .frame ['A'] (.str ['c']),
   .frame ['1'] (.str ['e']), .emit "news".toList (.one (.int 7)) ['/'] .all [] (some 3),
   .frame ['A'] (.str ['x']), .frame ['A'] (.str ['q']),
   .enterRoom (sidName 1) ['/'] ['r'], .frame ['A'] (.str ['d']), .frame ['2'] (.str ['e']),
   .settle, .eioLost ['A'] "transport close".toList, .frame ['2'] (.str ['e'])]

def exRep := reports exDec (Instrumented.cfg exPlain exAdminNs "development".toList true) exAdminNs
  "development".toList exPayloads

/-- the hypotheses of `wrappers_transparent_partial` hold of this history … -/
example : AppClear exPlain.reg exAdminNs ∧ exAdminNs ≠ star ∧ isServed exPlain exAdminNs = false ∧
    exHist.all (appInput exAdminNs) = true ∧
    Instrumented.quiet exDec exPlain exAdminNs "development".toList true exRep {} exHist = true :=
  ⟨exApp_clear, by decide, by decide, by decide, by decide⟩


/-- … and its conclusion is about something: 32 outputs on the instrumented server, 12 of them
    visible on the application side (CONNECT ×3, `msg` handler ×3 with its ACKs, the `news` EVENT
    to three clients) — the same 12 the plain server produces when its generators skip the
    session id and the `admin_connect` outcome the admin CONNECT consumed, and the outcome the
    admin's event named `connect` consumed. -/
def exSkips : List Skip :=
  [{}, {}, {}, {}, ⟨1, 1, 0⟩, {}, {}, {}, {}, {}, {}, ⟨0, 0, 1⟩, {}, {}, {}, {}, {}]

/-- an output, rendered (only to compare two concrete runs by `decide`) -/
def exKey : Out → Str × Nat × Str × Option Nat × Str
  | .send t p => (t, p.type, p.nsp.getD [], p.id, (p.data.map J.dumps).getD [])
  | .invoke slot args => (slotNs slot, 100, [], none, J.dumps (.arr args))
  | .callback n args => ([], 101, [], some n, J.dumps (.arr args))
  | .raised _ => ([], 102, [], none, [])
  | .result j => ([], 103, [], none, J.dumps j)
  | .timeout => ([], 104, [], none, [])

example :
    let tr := Instrumented.trace exDec exPlain exAdminNs "development".toList true exPayloads {} exHist
    let pl := Plain.traceSkip exDec exPlain {} (exSkips.zip exHist)
    (tr.2.flatMap (·.2)).length = 32 ∧
    ((observeTrace exAdminNs tr.2).flatMap (·.2)).length = 12 ∧
    ((observeTrace exAdminNs tr.2).flatMap (·.2)).map exKey =
      ((observeTrace exAdminNs pl.2).flatMap (·.2)).map exKey ∧
    (appState exAdminNs tr.1).rooms = (appState exAdminNs pl.1).rooms ∧
    (appState exAdminNs tr.1).rooms.length = 5 ∧
    (appState exAdminNs tr.1).cbs = (appState exAdminNs pl.1).cbs ∧
    (appState exAdminNs tr.1).cbs.length = 2 := by
  decide

/-! ### non-vacuity of the read-only theorems (same server, same 17-input history) -/

def exDev : Str := "development".toList

/-- the reports of the same server with `read_only=False` -/
def exRepW := reports exDec (Instrumented.cfg exPlain exAdminNs exDev false) exAdminNs exDev exPayloads

def exIsInvoke : Out → Bool
  | .invoke _ _ => true
  | _ => false

/-- `quiet_of_read_only` / `read_only_run_no_mutator`: the hypotheses hold of the example server,
    the run does invoke handlers (five times: `admin_connect` as connect handler and as handler of
    the EVENT named `connect`, `msg` three times) — and on the WRITABLE server the same history
    does invoke a mutator (the admin's `_disconnect` request), so the first half of `quiet` is
    not a tautology of the model. -/
example : (true = true ∨ isDev exDev = false) ∧ AppClear exPlain.reg exAdminNs ∧ exAdminNs ≠ star ∧
    ((Instrumented.traceWith exDec exPlain exAdminNs exDev true exRep {} exHist).2.flatMap
      (·.2)).countP exIsInvoke = 5 ∧
    Instrumented.noMutator exDec exPlain exAdminNs exDev true exRep {} exHist = true ∧
    Instrumented.noMutator exDec exPlain exAdminNs exDev false exRepW {} exHist = false :=
  ⟨Or.inl rfl, exApp_clear, by decide, by decide, by decide, by decide⟩

/-- `wrappers_transparent_read_only_sync` / `read_only_history_inert_sync`: the example server has
    synchronous handlers (the conclusion for this history is the comparison above) -/
example : exPlain.asyncHandlers = false ∧ isServed exPlain exAdminNs = false ∧
    exHist.all (appInput exAdminNs) = true := ⟨rfl, by decide, by decide⟩

/-- the same application with `async_handlers=True` -/
def exPlainA : Cfg := { exPlain with asyncHandlers := true }

def exRepA := reports exDec (Instrumented.cfg exPlainA exAdminNs exDev true) exAdminNs exDev exPayloads

/-- the history without the admin's EVENT named `connect` (16 inputs; the `_disconnect` request
    stays) -/
def exHistA : List Input := exHist.take 10 ++ exHist.drop 11

/-- `wrappers_transparent_read_only` (asynchronous handlers): the remaining half of `quiet` holds
    of `exHistA` — and it is exactly the admin's EVENT named `connect` that it excludes: with that
    frame (`exHist`) it fails. -/
example : AppClear exPlainA.reg exAdminNs ∧ isServed exPlainA exAdminNs = false ∧
    exHistA.length = 16 ∧ exHistA.all (appInput exAdminNs) = true ∧
    Instrumented.settleQuiet exDec exPlainA exAdminNs exDev true exRepA {} exHistA = true ∧
    Instrumented.settleQuiet exDec exPlainA exAdminNs exDev true exRepA {} exHist = false :=
  ⟨exApp_clear, by decide, by decide, by decide, by decide, by decide⟩

/-- … and its conclusion is about something: the queued `msg` handlers run at `settle` (and the
    last one never), the plain server skips what the admin CONNECT consumed -/
def exSkipsA : List Skip :=
  [{}, {}, {}, {}, ⟨1, 1, 0⟩, {}, {}, {}, {}, {}, {}, {}, {}, {}, {}, {}]

example :
    let tr := Instrumented.traceWith exDec exPlainA exAdminNs exDev true exRepA {} exHistA
    let pl := Plain.traceSkip exDec exPlainA {} (exSkipsA.zip exHistA)
    ((observeTrace exAdminNs tr.2).flatMap (·.2)).length = 10 ∧
    ((observeTrace exAdminNs tr.2).flatMap (·.2)).map exKey =
      ((observeTrace exAdminNs pl.2).flatMap (·.2)).map exKey ∧
    (appState exAdminNs tr.1).rooms = (appState exAdminNs pl.1).rooms ∧
    (appState exAdminNs tr.1).bg.length = 1 ∧ (appState exAdminNs pl.1).bg.length = 1 := by
  decide

/-- the state in which the admin's `_disconnect` request arrives (after nine inputs), on the
    read-only and on the writable server -/
def exS9 : Srv := (Instrumented.traceWith exDec exPlain exAdminNs exDev true exRep {} (exHist.take 9)).1
def exS9W : Srv := (Instrumented.traceWith exDec exPlain exAdminNs exDev false exRepW {} (exHist.take 9)).1

/-- `read_only_request_inert`: its hypotheses hold of that frame in that state (8 entries in the
    room relation, 5 of them of application sessions) and the step leaves them alone, its one
    output being a report to the admin — whereas on the writable server the same request, in the
    corresponding state, removes all three application sessions (6 entries) and the application
    side sees it (3 DISCONNECT packets). -/
example :
    (∃ p, arriving exDec exS9 ['A'] (.str ['x']) = some p ∧ p.type = EVENT ∧
      p.nsp.getD ['/'] = exAdminNs) ∧
    exS9.rooms.length = 8 ∧ exS9W.rooms = exS9.rooms ∧
    (Instrumented.stepWith exDec exPlain exAdminNs exDev true exRep exS9
      (.frame ['A'] (.str ['x']))).1.rooms = exS9.rooms ∧
    (Instrumented.stepWith exDec exPlain exAdminNs exDev true exRep exS9
      (.frame ['A'] (.str ['x']))).2.length = 1 ∧
    (Instrumented.stepWith exDec exPlain exAdminNs exDev false exRepW exS9W
      (.frame ['A'] (.str ['x']))).1.rooms.length = 2 ∧
    (appView exAdminNs (.frame ['A'] (.str ['x']))
      (Instrumented.stepWith exDec exPlain exAdminNs exDev false exRepW exS9W
        (.frame ['A'] (.str ['x']))).2).length = 3 := by
  refine ⟨?_, by decide, by decide, by decide, by decide, by decide, by decide⟩
  obtain ⟨t, v, p, hi, _, h1, h2, h3⟩ :=
    adminEventInput_inv (dec := exDec) (a := exAdminNs) (s := exS9) (i := .frame ['A'] (.str ['x']))
      (by decide)
  cases hi
  exact ⟨p, h1, h2, h3⟩

/-- `read_only_queued_request_inert`: a queued admin EVENT named `connect` with an ack id does run
    `admin_connect` and is acknowledged — to the admin — and the event script moves by one -/
example :
    let b : Bg := ⟨"s0".toList, ['A'], .str "connect".toList, [], exAdminNs, some 4⟩
    let r := runHandler (Instrumented.cfg exPlainA exAdminNs exDev true) { socks := [['A']] } b
    b.ns = exAdminNs ∧ r.1.nEv = 1 ∧ r.2.map exKey =
      [(exAdminNs, 100, [], none, "[\"s0\"]".toList),
       (['A'], ACK, exAdminNs, some 4, "[0]".toList)] := by
  decide

/-- `read_only_history_inert`: of the 17 inputs, the admin's two requests are removed; the plain
    server, run on the remaining 15 (skipping what the admin CONNECT and — on the instrumented
    server — the admin's event named `connect` consumed), shows the application side the same 12
    outputs and ends in the same application state. -/
def exSkipsP : List Skip :=
  [{}, {}, {}, {}, ⟨1, 1, 0⟩, {}, {}, {}, {}, ⟨0, 0, 1⟩, {}, {}, {}, {}, {}]

example :
    let tr := Instrumented.traceWith exDec exPlain exAdminNs exDev true exRep {} exHist
    let h' := Instrumented.withoutAdminEvents exDec exPlain exAdminNs exDev true exRep {} exHist
    let pl := Plain.traceSkip exDec exPlain {} (exSkipsP.zip h')
    Instrumented.settleQuiet exDec exPlain exAdminNs exDev true exRep {} exHist = true ∧
    h'.length = 15 ∧
    ((observeTrace exAdminNs tr.2).flatMap (·.2)).length = 12 ∧
    ((observeTrace exAdminNs tr.2).flatMap (·.2)).map exKey =
      ((observeTrace exAdminNs pl.2).flatMap (·.2)).map exKey ∧
    (appState exAdminNs tr.1).rooms = (appState exAdminNs pl.1).rooms ∧
    (appState exAdminNs tr.1).cbs = (appState exAdminNs pl.1).cbs := by
  decide

end Sio.C18
