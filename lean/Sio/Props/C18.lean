/-
  C18 — admin instrumentation: gated by credentials, read-only means read-only.

  Models: `Sio/Model/Admin.lean` (`pyEq`, `adminConnect`/`admits`, `registered`/`instrumentReg`)
  on top of the server model `Sio/Model/Server.lean` (`resolve`, `step`).  Every theorem is for
  ARBITRARY payloads (any `J`, unbounded depth and width), arbitrary credential dicts / lists /
  predicates (`J → Bool`), arbitrary application registries, server states and mode strings.

  The third clause of the property (application clients observe the same with and without
  instrumentation): `wrappers_transparent_partial` at the end of this file, over the model
  `Instrumented.stepWith` (= `Server.step` on the instrumented registry, the admin handlers' API
  calls, the wrappers' reports), tied to admin.py by harness/props/c18.py which runs the model
  next to the real instrumented server (and the real instrumented next to the real plain server).
-/
import Sio.Lemmas.Admin
import Sio.Lemmas.AdminTransparent
namespace Sio.C18
open Sio Sio.Admin Sio.Server
open Sio.Rooms (Ns Sid Eio)

/-! ### the gate -/

/-- **The gate, outright.**  `admin_connect` lets a client in iff authentication was disabled, or
    the payload equals the credentials dict, or it equals one of the listed credential sets, or
    the predicate holds of it.  (`a` is the value the handler receives.) -/
theorem admits_iff (cfg : AuthCfg) (a : J) :
    admits cfg a = true ↔
      cfg = .disabled ∨
      (∃ d, cfg = .dict d ∧ pyEq a (.obj d) = true) ∨
      (∃ ds, cfg = .list ds ∧ ∃ d ∈ ds, pyEq a d = true) ∨
      (∃ p, cfg = .pred p ∧ p a = true) := by
  cases cfg with
  | disabled => simp [admits]
  | dict d => simp [admits]
  | list ds => simp [admits, List.any_eq_true]
  | pred p => simp [admits]

/-- The line-by-line transcription of `admin_connect` on the raw `auth=` argument is the gate of
    the classified configuration; it raises exactly when `configure` does. -/
theorem adminConnect_eq (auth : AuthArg) (a : J) :
    adminConnect auth a = (configure auth).map (fun cfg => admits cfg a) := by
  cases auth with
  | missing => rfl
  | fn p => rfl
  | val j =>
    simp only [adminConnect, configure]
    cases ht : j.truthy
    · simp [Except.map, admits]
    · cases j <;> simp [Except.map, admits]

/-- `auth=None` never yields an open door: the constructor raises (in every mode). -/
theorem configure_missing : configure .missing = .error .valueError := rfl

/-- Authentication is disabled only by an explicitly passed falsy value. -/
theorem configure_disabled_iff (auth : AuthArg) :
    configure auth = .ok .disabled ↔ ∃ j, auth = .val j ∧ j.truthy = false := by
  cases auth with
  | missing => simp [configure]
  | fn p => simp [configure]
  | val j =>
    simp only [configure]
    cases ht : j.truthy
    · simp [ht]
    · cases j <;> simp_all

/-! ### Python `==` on payloads -/

/-- Equal dicts have the same number of entries and every key of the left is a key of the right:
    a payload with a key missing or a key too many is never equal to the credentials. -/
theorem pyEq_keys {a b : List (Str × J)} (h : pyEq (.obj a) (.obj b) = true) :
    a.length = b.length ∧ ∀ k ∈ keys a, k ∈ keys b := by
  rw [pyEq_obj_obj] at h
  simp only [Bool.and_eq_true, beq_iff_eq] at h
  exact ⟨h.1, pyEqO_keys_subset h.2⟩

/-- … and for a real dict on the left (distinct keys) the key sets coincide. -/
theorem pyEq_keys_iff {a b : List (Str × J)} (nd : (keys a).Nodup)
    (h : pyEq (.obj a) (.obj b) = true) : ∀ k, k ∈ keys a ↔ k ∈ keys b := by
  obtain ⟨hl, hsub⟩ := pyEq_keys h
  intro k
  refine ⟨hsub k, ?_⟩
  exact nodup_subset_surj (keys a) (keys b) nd hsub (by simp [keys, hl]) k

/-- A strict superset of the credentials (one more key, whatever its value) is refused. -/
theorem pyEq_superset_false (d : List (Str × J)) (k : Str) (v : J) (pre post : List (Str × J)) :
    pyEq (.obj (pre ++ (k, v) :: post)) (.obj d) = true → (pre ++ post).length ≠ d.length := by
  intro h
  have := (pyEq_keys h).1
  simp only [List.length_append, List.length_cons] at this ⊢
  omega

/-- A payload that lacks a key of the credentials is refused. -/
theorem pyEq_missing_key_false {a d : List (Str × J)} {k : Str} (nd : (keys a).Nodup)
    (hk : k ∈ keys d) (hna : k ∉ keys a) : pyEq (.obj a) (.obj d) = false := by
  cases h : pyEq (.obj a) (.obj d) with
  | false => rfl
  | true => exact absurd ((pyEq_keys_iff nd h k).mpr hk) hna

/-- A payload with a key the credentials do not have is refused. -/
theorem pyEq_extra_key_false {a d : List (Str × J)} {k : Str}
    (hk : k ∈ keys a) (hnd : k ∉ keys d) : pyEq (.obj a) (.obj d) = false := by
  cases h : pyEq (.obj a) (.obj d) with
  | false => rfl
  | true => exact absurd ((pyEq_keys h).2 k hk) hnd

/-- Nothing but a dict equals a dict (absent / `None` / numbers / strings / lists never pass a
    dict credential), in either operand order. -/
theorem pyEq_nondict (a : J) (d : List (Str × J)) :
    (pyEq a (.obj d) = true → ∃ a', a = .obj a') ∧ (pyEq (.obj d) a = true → ∃ a', a = .obj a') :=
  ⟨pyEq_obj_right, pyEq_obj_left⟩

/-- `==` is reflexive on JSON-shaped values (distinct dict keys, no NaN): the right credentials
    are always accepted. -/
theorem pyEq_refl (a : J) (h : Dom a) : pyEq a a = true := Admin.pyEq_refl a h

/-- `==` is symmetric on JSON-shaped values: `client_auth == self.auth` and
    `self.auth == client_auth` (what `in` evaluates) agree. -/
theorem pyEq_symm (a b : J) (ha : Dom a) (hb : Dom b) : pyEq a b = pyEq b a :=
  Admin.pyEq_symm a b ha hb

/-- Key order is irrelevant (a permutation of the credentials is accepted)… -/
example : pyEq (.obj [("username".toList, .str "u".toList), ("password".toList, .str "p".toList)])
    (.obj [("password".toList, .str "p".toList), ("username".toList, .str "u".toList)]) = true := by
  decide
/-- … list order is not, `True == 1 == 1.0`, `"1"` is not `1`, bytes are not text, sub- and
    supersets fail. -/
example : pyEq (.arr [.int 1, .int 2]) (.arr [.int 2, .int 1]) = false := by decide
example : pyEq (.obj [("k".toList, .bool true)]) (.obj [("k".toList, .int 1)]) = true := by decide
example : pyEq (.obj [("k".toList, .flt "1.0".toList)]) (.obj [("k".toList, .int 1)]) = true := by decide
example : pyEq (.obj [("k".toList, .str "1".toList)]) (.obj [("k".toList, .int 1)]) = false := by decide
example : pyEq (.str "ab".toList) (.bin [97, 98]) = false := by decide
example : pyEq (.obj [("u".toList, .int 1)]) (.obj [("u".toList, .int 1), ("p".toList, .int 2)]) = false := by
  decide
example : pyEq (.obj [("u".toList, .int 1), ("p".toList, .int 2), ("x".toList, .null)])
    (.obj [("u".toList, .int 1), ("p".toList, .int 2)]) = false := by decide
example : pyEq (.obj [("u".toList, .obj [("n".toList, .arr [.int 1, .null])])])
    (.obj [("u".toList, .obj [("n".toList, .arr [.bool true, .null])])]) = true := by decide
/-- the hypotheses of `pyEq_refl` / `pyEq_symm` are met by nested values -/
example : Dom (.obj [("u".toList, .arr [.int 1, .flt "1.5".toList]), ("p".toList, .obj [])]) := by
  refine .obj _ (by decide) ?_
  intro p hp
  simp only [List.mem_cons, List.not_mem_nil, or_false] at hp
  rcases hp with rfl | rfl
  · refine .arr _ ?_
    intro x hx
    simp only [List.mem_cons, List.not_mem_nil, or_false] at hx
    rcases hx with rfl | rfl
    · exact .int _
    · exact .flt _ (by decide)
  · exact .obj _ (by decide) (by simp)
/-- `nan` is why reflexivity needs the domain hypothesis -/
example : pyEq (.flt "nan".toList) (.flt "nan".toList) = false := by decide

/-! ### the gate as seen from the wire

`Server._handle_connect` passes the CONNECT payload on only if it is truthy; the handler
receives `None` otherwise.  For credential dicts and lists of credential dicts this is invisible:
acceptance is still "the payload the client presented equals the credentials". -/

theorem pyEq_falsy_obj_false {a : J} {d : List (Str × J)} (hd : d ≠ []) (ha : a.truthy = false) :
    pyEq a (.obj d) = false := by
  cases h : pyEq a (.obj d) with
  | false => rfl
  | true =>
    obtain ⟨a', rfl⟩ := pyEq_obj_right h
    have hl := (pyEq_keys h).1
    cases a' with
    | nil => cases d with
      | nil => exact absurd rfl hd
      | cons _ _ => simp at hl
    | cons _ _ => simp [J.truthy] at ha

theorem admitsWire_dict {d : List (Str × J)} (hd : d ≠ []) (w : Option J) :
    admitsWire (.dict d) w = true ↔ ∃ a, w = some a ∧ pyEq a (.obj d) = true := by
  cases w with
  | none => simp [admitsWire, present, admits, pyEq, scalarEq]
  | some a =>
    simp only [admitsWire, present, admits, Option.some.injEq, exists_eq_left']
    cases ht : a.truthy
    · simp [pyEq, scalarEq, pyEq_falsy_obj_false hd ht]
    · simp

theorem admitsWire_list {ds : List J} (hds : ∀ d ∈ ds, ∃ kv, d = .obj kv ∧ kv ≠ []) (w : Option J) :
    admitsWire (.list ds) w = true ↔ ∃ a, w = some a ∧ ∃ d ∈ ds, pyEq a d = true := by
  have hnull : ∀ a : J, a.truthy = false → ∀ d ∈ ds, pyEq a d = false := by
    intro a ha d hd
    obtain ⟨kv, rfl, hkv⟩ := hds d hd
    exact pyEq_falsy_obj_false hkv ha
  cases w with
  | none =>
    simp only [admitsWire, present, admits, List.any_eq_true]
    constructor
    · rintro ⟨d, hd, h⟩
      rw [hnull .null rfl d hd] at h; exact absurd h (by simp)
    · rintro ⟨a, ha, _⟩; simp at ha
  | some a =>
    simp only [admitsWire, present, admits, Option.some.injEq, exists_eq_left', List.any_eq_true]
    cases ht : a.truthy
    · simp only [Bool.false_eq_true, if_false]
      constructor
      · rintro ⟨d, hd, h⟩
        rw [hnull .null rfl d hd] at h; exact absurd h (by simp)
      · rintro ⟨d, hd, h⟩
        rw [hnull a ht d hd] at h; exact absurd h (by simp)
    · simp

/-- For a predicate the statement is about what the handler is given. -/
theorem admitsWire_pred (p : J → Bool) (w : Option J) :
    admitsWire (.pred p) w = p (present w) := rfl

/-- the boundary recorded as known finding `C18/falsy-auth-presented-as-None`: the predicate
    `a is None` is false of the payload `0`, which is nevertheless admitted -/
example : Pred.isNull.eval (.int 0) = false ∧ admitsWire (.pred Pred.isNull.eval) (some (.int 0)) = true := by
  decide

/-! ### what `instrument()` registers -/

/-- **Exactly when the four mutators exist**: `emit`, `join`, `leave`, `_disconnect` have a
    handler on the admin namespace iff the mode is `development` and `read_only` is off.
    (`production` never has them, `read_only` or not.) -/
theorem registry_mutators (mode : Str) (ro : Bool) (ev : Str) (hev : ev ∈ mutators) :
    ev ∈ registered mode ro ↔ (isDev mode = true ∧ ro = false) := by
  have hne : ev ≠ "connect".toList := by
    intro h; subst h; simp [mutators] at hev
  have hne' : ¬ ev = ['c', 'o', 'n', 'n', 'e', 'c', 't'] := hne
  cases hd : isDev mode <;> cases ro <;> simp [registered, hd, hne', hev]

/-- **read-only registry**: with `read_only` on, or in any mode other than `development`, the only
    handler on the admin namespace is `connect`. -/
theorem read_only_registry (mode : Str) (ro : Bool) (h : ro = true ∨ isDev mode = false) :
    registered mode ro = ["connect".toList] ∧ ∀ ev ∈ mutators, ev ∉ registered mode ro := by
  refine ⟨registered_ro h, ?_⟩
  intro ev hev hin
  have := (registry_mutators mode ro ev hev).mp hin
  rcases h with h | h
  · simp [h] at this
  · simp [h] at this

/-- non-vacuity: the writable configuration does register them -/
example : registered "development".toList false =
    ["connect".toList, "emit".toList, "join".toList, "leave".toList, "_disconnect".toList] := by decide
example : registered "production".toList false = ["connect".toList] := by decide
example : registered "development".toList true = ["connect".toList] := by decide

/-- **No admin request resolves to a handler** in read-only mode (application without handlers on
    the admin namespace and without catch-all *namespace* handlers, `AppClear`): whatever the
    event is called — `emit`, `join`, `leave`, `_disconnect` or anything but `connect` — and
    whatever its arguments, `_trigger_event` finds nobody (`self.not_handled`). -/
theorem read_only_resolve {app : Registry} {adminNs : Ns} {mode : Str} {ro : Bool}
    (hro : ro = true ∨ isDev mode = false) (hc : AppClear app adminNs) (hns : adminNs ≠ star)
    {ev : Str} (hev : ev ∈ mutators ∨ ev ≠ "connect".toList) (args : List J) :
    resolve (instrumentReg app adminNs mode ro) adminNs (.str ev) args = .ok .notHandled := by
  have hne : ev ≠ "connect".toList := by
    rcases hev with h | h
    · intro e; subst e; simp [mutators] at h
    · exact h
  exact resolve_ro_notHandled hro hc hns hne args

/-- Without any assumption on the application: the admin namespace itself never contributes a
    mutator — a function handler an admin event resolves to in read-only mode is either
    `connect`'s or one the application registered. -/
theorem read_only_no_mutator_slot {app : Registry} {adminNs : Ns} {mode : Str} {ro : Bool}
    (hro : ro = true ∨ isDev mode = false) (ev : Str) (hev : ev ∈ mutators) :
    (instrumentReg app adminNs mode ro).fn adminNs ev = app.fn adminNs ev := by
  have hne : ev ≠ "connect".toList := by
    intro e; subst e; simp [mutators] at hev
  have hne' : ¬ ev = ['c', 'o', 'n', 'n', 'e', 'c', 't'] := hne
  simp [instrumentReg, registered_ro hro, hne']

/-- In the writable configuration the same request does resolve to the admin's handler. -/
theorem writable_resolve (app : Registry) {adminNs : Ns} (hadm : adminNs ≠ star) {mode : Str}
    (hd : isDev mode = true)
    {ev : Str} (hev : ev ∈ mutators) (args : List J) :
    resolve (instrumentReg app adminNs mode false) adminNs (.str ev) args =
      .ok (.fn (.fn adminNs ev) args) := by
  have hin : ev ∈ registered mode false := (registry_mutators mode false ev hev).mpr ⟨hd, rfl⟩
  have hstar : ¬ ev = star := by
    intro e; subst e; simp [mutators, star] at hev
  simp [resolve, instrumentReg, hashable, inDict, evStr, hin, hstar, hadm]

/-! ### frame: read-only admin traffic does nothing (over `Sio.Server.step`) -/

section frame
variable {app : Registry} {adminNs : Ns} {mode : Str} {ro : Bool} {cfg : Cfg}

/-- **Synchronous handlers.** An EVENT (or reassembled BINARY_EVENT) frame from an admin client
    whose name is one of the mutators — or anything but `connect` — leaves the *entire* server
    state unchanged and produces no output at all: no room membership changes, no packet to any
    client on any namespace, no handler invocation, no disconnect, not even an ACK. -/
theorem read_only_frame_inert (dec : Str → Except Err (Packet × Nat))
    (hreg : cfg.reg = instrumentReg app adminNs mode ro)
    (hro : ro = true ∨ isDev mode = false) (hc : AppClear app adminNs) (hns : adminNs ≠ star)
    {ev : Str} (hev : ev ≠ "connect".toList) (hsync : cfg.asyncHandlers = false)
    (s : Srv) (t : Eio) (c : Char) (cs : Str) {p : Packet} {n : Nat} {rest : List J}
    (hbuf : s.binbuf.find? (fun e => e.1 = t) = none)
    (hdec : dec (c :: cs) = .ok (p, n)) (hty : p.type = EVENT) (hnsp : p.nsp = some adminNs)
    (hd : splitEvent p.data = .ok (.str ev, rest)) :
    step dec cfg s (.frame t (.str (c :: cs))) = (s, []) :=
  step_frame_ro_sync dec hreg hro hc hns hev hsync s t c cs hbuf hdec hty hnsp hd

/-- The event handler proper, for any payload shape (`handleEvent` is also what a completed binary
    packet is given to). -/
theorem read_only_event_inert
    (hreg : cfg.reg = instrumentReg app adminNs mode ro)
    (hro : ro = true ∨ isDev mode = false) (hc : AppClear app adminNs) (hns : adminNs ≠ star)
    {ev : Str} (hev : ev ≠ "connect".toList) (hsync : cfg.asyncHandlers = false)
    (s : Srv) (t : Eio) (id : Option Nat) {data : Option J} {rest : List J}
    (hd : splitEvent data = .ok (.str ev, rest)) :
    handleEvent cfg s t (some adminNs) id data = (s, []) :=
  handleEvent_ro_sync hreg hro hc hns hev hsync s t id hd

/-- **`async_handlers=True`** (the default): the frame queues the handler, `settle` runs it; the
    two steps together leave the state unchanged and produce nothing. -/
theorem read_only_frame_inert_async (dec : Str → Except Err (Packet × Nat))
    (hreg : cfg.reg = instrumentReg app adminNs mode ro)
    (hro : ro = true ∨ isDev mode = false) (hc : AppClear app adminNs) (hns : adminNs ≠ star)
    {ev : Str} (hev : ev ≠ "connect".toList) (hasync : cfg.asyncHandlers = true)
    (s : Srv) (hbg : s.bg = []) (t : Eio) (c : Char) (cs : Str) {p : Packet} {n : Nat}
    {rest : List J}
    (hbuf : s.binbuf.find? (fun e => e.1 = t) = none)
    (hdec : dec (c :: cs) = .ok (p, n)) (hty : p.type = EVENT) (hnsp : p.nsp = some adminNs)
    (hd : splitEvent p.data = .ok (.str ev, rest)) :
    run dec cfg s [.frame t (.str (c :: cs)), .settle] = (s, []) :=
  run_frame_settle_ro_async dec hreg hro hc hns hev hasync s hbg t c cs hbuf hdec hty hnsp hd

/-- … and whenever such a queued handler runs, in whatever state: nothing. -/
theorem read_only_handler_inert
    (hreg : cfg.reg = instrumentReg app adminNs mode ro)
    (hro : ro = true ∨ isDev mode = false) (hc : AppClear app adminNs) (hns : adminNs ≠ star)
    {ev : Str} (hev : ev ≠ "connect".toList) (s : Srv) (b : Bg) (hb : b.ns = adminNs)
    (hf : b.first = .str ev) : runHandler cfg s b = (s, []) :=
  runHandler_ro hreg hro hc hns hev s b hb hf

/-! ### a refused attempt gains no membership -/

/-- **refused ⇒ no membership**: the admin CONNECT of a client whose payload the gate does not
    admit (the connect handler's outcome is `connectOutcome`) leaves the room relation exactly
    as it was (instance of the server model's connect with outcome *refuse*; `hfresh` is the
    trusted freshness of `eio.generate_id()`; `henv`: the transport was opened; `hadm`: the admin
    namespace is not called `*` — a constructor-time fact, `/admin` by default). -/
theorem refused_no_membership (hreg : cfg.reg = instrumentReg app adminNs mode ro)
    (hadm : adminNs ≠ star)
    (s : Srv) (t : Eio) (payload : Option J) (acfg : AuthCfg)
    (hscript : cfg.script.onConnect s.nConn = connectOutcome acfg payload)
    (hrefuse : admitsWire acfg payload = false)
    (henv : s.environ.contains t = true)
    (hfresh : ∀ e ∈ s.rooms, e.sid ≠ sidName s.nextSid) :
    (handleConnect cfg s t (some adminNs) payload).1.rooms = s.rooms ∧
    ∀ o ∈ (handleConnect cfg s t (some adminNs) payload).2,
      (∃ p, o = .send t p) ∨ (∃ a, o = .invoke (.fn adminNs "connect".toList) a) :=
  ⟨handleConnect_refused hreg hadm s t payload acfg hscript hrefuse henv hfresh,
   handleConnect_refused_outs hreg hadm s t payload acfg hscript hrefuse henv⟩

/-- Contrast (non-vacuity of the above): an admitted attempt does become a member. -/
theorem admitted_membership (hreg : cfg.reg = instrumentReg app adminNs mode ro)
    (hadm : adminNs ≠ star)
    (s : Srv) (t : Eio) (payload : Option J) (acfg : AuthCfg)
    (hscript : cfg.script.onConnect s.nConn = connectOutcome acfg payload)
    (hadmit : admitsWire acfg payload = true)
    (henv : s.environ.contains t = true)
    (hnew : Rooms.sidOf s.rooms adminNs t = none) :
    Rooms.isMember (handleConnect cfg s t (some adminNs) payload).1.rooms adminNs none
      (sidName s.nextSid) = true :=
  handleConnect_admitted hreg hadm s t payload acfg hscript hadmit henv hnew

end frame

/-! ### reports are invisible (model level) -/

/-- Every report of the instrumentation is a `sio.emit(..., namespace=admin_namespace)` without a
    callback.  In the server model such an emit changes no state and every packet it produces is
    on the admin namespace: filtered by `observeApp`, nothing is left. -/
theorem report_invisible (s : Srv) (ev : Str) (d : Data) (adminNs : Ns) (to : Rooms.Target)
    (skip : List Sid) :
    (emit s ev d adminNs to skip none).1 = s ∧
    observeApp adminNs (emit s ev d adminNs to skip none).2 = [] :=
  Admin.report_invisible s ev d adminNs to skip


/-! ### the instrumented server is transparent (model level)

`Instrumented.stepWith dec c a mode ro rep` is one input on the instrumented server: `Server.step`
on the configuration whose registry is `instrumentReg c.reg a mode ro`, then the API calls of the
admin handlers `emit / join / leave / _disconnect` the step invoked, then the reports `rep` says
the wrappers emit — each `Server.step … (.emit ev d a to [] none)`.  The theorems hold for EVERY
reporting policy `rep` (so also for the one transcribed from admin.py, `reports`, whatever the
abstract payloads are), every decoder, every application registry / script / server options.

What is compared (`observeTrace`, `appState`), input by input: packets of namespaces other than
`a` per transport in order, invocations of handlers of other namespaces with their arguments,
callbacks, results of API calls and the exceptions they raise to the caller; and the state
without the rooms and queued handlers of `a` (all callbacks, ack counters, sessions, environ,
reassembly buffers).  Exceptions *contained* while a frame / a transport loss / a queued handler
is processed are not observations of any client (`contained`).

The reference run is the same configuration with the application's own registry, on the SAME
history (admin frames included: the plain server refuses them), in which the id generator and
the connect / event scripts skip what the admin CONNECTs consumed on the instrumented server
(`Plain.traceSkip`, as C12's `runSkip`; with no skips it is literally `Server.run`,
`traceSkip_zero`).

Hypotheses (why `_partial`):
 * `AppClear`, `a ≠ "*"`, `isServed c a = false`: the application has no handler on the admin
   namespace, no catch-all namespace handlers, and does not serve `a` itself (for
   `namespaces='*'` the plain server would accept admin clients as ordinary ones — excluded);
 * `appInput`: the application's API calls do not address `a`; no blocking `call()` in the
   history (its nested inputs cannot be given skips) — excluded;
 * `Instrumented.quiet` (decidable, evaluated along the instrumented run): no step invokes one of
   the four mutators — they act on the application by design; in read-only / production mode
   none is registered (`read_only_registry`, `ro_resolve_no_mutator`) — and, when queued handlers
   run (`async_handlers`), no queued *admin* EVENT has a handler: the only such event is one
   literally named `connect` (it would run `admin_connect` as an event handler and thereby
   consume an outcome of the application's event script between two application events; with
   synchronous handlers it is covered).
One transport connected both to application namespaces and to the admin namespace IS covered:
nothing is assumed about which transport sends what. -/

/-- **One input.**  From any well-formed state whose application part is well formed, one input on
    the instrumented server and the same input on the plain server started in the application
    part of that state: same application-side outputs, and the application parts of the
    successor states agree up to the generators' positions. -/
theorem step_transparent (dec : Str → Except Err (Packet × Nat)) (c : Cfg) {a : Ns} (mode : Str)
    (ro : Bool) (rep : Srv → Input → List Out → List Report)
    (hc : AppClear c.reg a) (ha : a ≠ star) (hserved : isServed c a = false)
    {s : Srv} (h : Server.WF s) (h' : Server.WF (appPart a s)) (i : Input)
    (hi : appInput a i = true)
    (hq : Instrumented.quietStep c a mode ro s i
      (Server.step dec (Instrumented.cfg c a mode ro) s i).2 = true) :
    (∃ k, appPart a (Instrumented.stepWith dec c a mode ro rep s i).1 =
      bumpBy k (Server.step dec c (appPart a s) i).1) ∧
    appView a i (Instrumented.stepWith dec c a mode ro rep s i).2 =
      appView a i (Server.step dec c (appPart a s) i).2 :=
  stepWith_sim ha c hc hserved mode ro dec rep h (noAdminCb_of_wf h h') i hi hq

/-- **Histories, whether or not an admin is connected.** -/
theorem wrappers_transparent_partial (dec : Str → Except Err (Packet × Nat)) (c : Cfg) {a : Ns}
    (mode : Str) (ro : Bool) (rep : Srv → Input → List Out → List Report)
    (hc : AppClear c.reg a) (ha : a ≠ star) (hserved : isServed c a = false)
    (hist : List Input) (happ : hist.all (appInput a) = true)
    (hq : Instrumented.quiet dec c a mode ro rep {} hist = true) :
    ∃ skips : List Skip, skips.length = hist.length ∧
      observeTrace a (Instrumented.traceWith dec c a mode ro rep {} hist).2 =
        observeTrace a (Plain.traceSkip dec c {} (skips.zip hist)).2 ∧
      appState a (Instrumented.traceWith dec c a mode ro rep {} hist).1 =
        appState a (Plain.traceSkip dec c {} (skips.zip hist)).1 :=
  trace_sim ha c hc hserved mode ro dec rep hist {} {} {} Server.WF.init Server.WF.init rfl
    (fun i hi => List.all_eq_true.mp happ i hi) hq

/-- … in particular for the wrappers of admin.py (`reports`), whatever timestamps, serialised
    sockets and statistics they carry, and for the outputs of the whole run in one list. -/
theorem wrappers_transparent_partial_run (dec : Str → Except Err (Packet × Nat)) (c : Cfg) {a : Ns}
    (mode : Str) (ro : Bool) (P : Payloads)
    (hc : AppClear c.reg a) (ha : a ≠ star) (hserved : isServed c a = false)
    (hist : List Input) (happ : hist.all (appInput a) = true)
    (hq : Instrumented.quiet dec c a mode ro
      (reports dec (Instrumented.cfg c a mode ro) a mode P) {} hist = true) :
    ∃ skips : List Skip, skips.length = hist.length ∧
      (observeTrace a (Instrumented.trace dec c a mode ro P {} hist).2).flatMap (·.2) =
        (observeTrace a (Plain.traceSkip dec c {} (skips.zip hist)).2).flatMap (·.2) ∧
      appState a (Instrumented.run dec c a mode ro P {} hist).1 =
        appState a (Plain.runSkip dec c {} (skips.zip hist)).1 := by
  obtain ⟨skips, hl, h1, h2⟩ := wrappers_transparent_partial dec c mode ro
    (reports dec (Instrumented.cfg c a mode ro) a mode P) hc ha hserved hist happ hq
  exact ⟨skips, hl, congrArg (fun l => l.flatMap (·.2)) h1, h2⟩

/-- without skips the reference run is the server model's `run` -/
theorem traceSkip_zero (dec : Str → Except Err (Packet × Nat)) (c : Cfg) (s : Srv) (hist : List Input) :
    Plain.runSkip dec c s (hist.map (fun i => (({} : Skip), i))) = Server.run dec c s hist := by
  induction hist generalizing s with
  | nil => rw [run_nil]; rfl
  | cons i is ih =>
    have := ih (Server.step dec c s i).1
    simp only [Plain.runSkip] at this ⊢
    rw [run_cons, List.map_cons, Plain.traceSkip]
    simp only [List.flatMap_cons]
    rw [← this]
    rfl

/-- In read-only / non-development mode no event resolves to one of the four mutators, on any
    namespace, whatever its name and arguments (so the first half of `quiet` holds by
    construction there). -/
theorem ro_resolve_no_mutator {app : Registry} {a : Ns} {mode : Str} {ro : Bool}
    (hro : ro = true ∨ isDev mode = false) (hc : AppClear app a) (ha : a ≠ star)
    {ns : Ns} {ev : J} {args : List J} {r : Resolved}
    (h : resolve (instrumentReg app a mode ro) ns ev args = .ok r) :
    ∀ slot args', (r = .fn slot args' ∨ r = .clsCall slot args') →
      mutatorCalled a (.invoke slot args') = false :=
  Admin.ro_resolve_no_mutator hro hc ha h

/-! ### non-vacuity: one concrete instrumented server -/

def exApp : Registry :=
  { fn := fun ns ev => ns == ['/'] && ev == "msg".toList,
    fnNs := fun ns => ns == ['/'],
    cls := fun _ => false, clsMethod := fun _ _ => false }

def exAdminNs : Ns := "/admin".toList

theorem exApp_clear : AppClear exApp exAdminNs :=
  ⟨by decide, by intro e; simp [exApp, exAdminNs], by decide, by decide, by decide⟩

def exCreds : List (Str × J) := [("username".toList, .str "u".toList), ("password".toList, .str "p".toList)]

/-- read-only development server; the connect handler is the gate for `exCreds`, fed with a
    superset payload -/
def exCfg (payload : Option J) : Cfg :=
  { alwaysConnect := false, served := some [['/']], asyncHandlers := false,
    reg := instrumentReg exApp exAdminNs "development".toList true,
    script := ⟨fun _ => connectOutcome (.dict exCreds) payload, fun _ => .ret .none, fun _ => .ok⟩ }

def exSuperset : J := .obj (exCreds ++ [("admin".toList, .bool true)])

/-- a server with one application client in room `r1` and one open, not yet connected transport -/
def exSrv : Srv :=
  { rooms := [⟨['/'], none, "s0".toList, "T1".toList⟩, ⟨['/'], some "s0".toList, "s0".toList, "T1".toList⟩,
              ⟨['/'], some "r1".toList, "s0".toList, "T1".toList⟩],
    environ := ["T1".toList, "A".toList], socks := ["T1".toList, "A".toList], nextSid := 1 }

/-- the hypotheses of `refused_no_membership` hold here, and the conclusion is not about an
    empty relation -/
example : admitsWire (.dict exCreds) (some exSuperset) = false ∧
    exSrv.environ.contains "A".toList = true ∧
    (∀ e ∈ exSrv.rooms, e.sid ≠ sidName exSrv.nextSid) ∧
    (handleConnect (exCfg (some exSuperset)) exSrv "A".toList (some exAdminNs) (some exSuperset)).1.rooms
      = exSrv.rooms ∧ exSrv.rooms.length = 3 := by
  refine ⟨by decide, by decide, by decide, ?_, rfl⟩
  exact (refused_no_membership (app := exApp) (mode := "development".toList) (ro := true) rfl (by decide)
    exSrv "A".toList (some exSuperset) (.dict exCreds) rfl (by decide) (by decide) (by decide)).1

/-- the right credentials (keys permuted) are admitted -/
example : admitsWire (.dict exCreds)
    (some (.obj [("password".toList, .str "p".toList), ("username".toList, .str "u".toList)])) = true := by
  decide

/-- read-only: an admin `_disconnect` / `emit` / `join` / `leave` resolves to nobody … -/
example : resolve (exCfg none).reg exAdminNs (.str "_disconnect".toList)
    [.str "a0".toList, .str ['/'], .bool false] = .ok .notHandled :=
  read_only_resolve (Or.inl rfl) exApp_clear (by decide) (Or.inl (by decide)) _

/-- … whereas on the writable server it resolves to the admin's handler. -/
example : resolve (instrumentReg exApp exAdminNs "development".toList false) exAdminNs
    (.str "_disconnect".toList) [.str "a0".toList] =
    .ok (.fn (.fn exAdminNs "_disconnect".toList) [.str "a0".toList]) :=
  writable_resolve exApp (adminNs := exAdminNs) (by decide) (by decide) (by decide) _

/-! ### non-vacuity of `wrappers_transparent_partial` -/

/-- toy decoder: `c` CONNECT to `/`, `a` CONNECT to `/admin`, `e` EVENT `msg` on `/` (ack id 1),
    `x` EVENT `_disconnect` on `/admin`, `q` EVENT `connect` on `/admin`, `d` DISCONNECT `/admin` -/
def exDec : Str → Except Err (Packet × Nat)
  | ['c'] => .ok (⟨CONNECT, none, none, none⟩, 0)
  | ['a'] => .ok (⟨CONNECT, some exAdminNs, none, none⟩, 0)
  | ['e'] => .ok (⟨EVENT, none, some 1, some (.arr [.str "msg".toList, .int 1])⟩, 0)
  | ['x'] => .ok (⟨EVENT, some exAdminNs, none,
      some (.arr [.str "_disconnect".toList, .str ['/'], .bool false])⟩, 0)
  | ['q'] => .ok (⟨EVENT, some exAdminNs, none, some (.arr [.str "connect".toList])⟩, 0)
  | ['d'] => .ok (⟨DISCONNECT, some exAdminNs, none, none⟩, 0)
  | _ => .error .valueError

/-- the application's own configuration: one handler `msg` on `/`, only `/` served -/
def exPlain : Cfg :=
  { alwaysConnect := false, served := some [['/']], asyncHandlers := false, reg := exApp,
    script := ⟨fun _ => .accept, fun n => .ret (.one (.int n)), fun _ => .ok⟩ }

def exPayloads : Payloads :=
  { stamp := .str "t".toList, socket := fun sid ns => .arr [.str sid, .str ns], features := .null,
    stats := fun _ i => match i with | .settle => some .null | _ => none }

/-- one admin (transport `A`, which is ALSO an application client on `/`), two application-only
    clients `T1`, `T2`; the admin sends a mutator request (read-only: nobody's) and an event
    named `connect`, leaves and the others go on -/
def exHist : List Input :=
  [.eioConnect ['A'], .eioConnect ['1'], .eioConnect ['2'],
   .frame ['A'] (.str ['a']), .frame ['1'] (.str ['c']), .frame ['2'] (.str ['c']),
   .frame ['A'] (.str ['c']),
   .frame ['1'] (.str ['e']), .emit "news".toList (.one (.int 7)) ['/'] .all [] (some 3),
   .frame ['A'] (.str ['x']), .frame ['A'] (.str ['q']),
   .enterRoom (sidName 1) ['/'] ['r'], .frame ['A'] (.str ['d']), .frame ['2'] (.str ['e']),
   .settle, .eioLost ['A'] "transport close".toList, .frame ['2'] (.str ['e'])]

def exRep := reports exDec (Instrumented.cfg exPlain exAdminNs "development".toList true) exAdminNs
  "development".toList exPayloads

/-- the hypotheses of `wrappers_transparent_partial` hold of this history … -/
example : AppClear exPlain.reg exAdminNs ∧ exAdminNs ≠ star ∧ isServed exPlain exAdminNs = false ∧
    exHist.all (appInput exAdminNs) = true ∧
    Instrumented.quiet exDec exPlain exAdminNs "development".toList true exRep {} exHist = true :=
  ⟨exApp_clear, by decide, by decide, by decide, by decide⟩


/-- … and its conclusion is about something: 32 outputs on the instrumented server, 12 of them
    visible on the application side (CONNECT ×3, `msg` handler ×3 with its ACKs, the `news` EVENT
    to three clients) — the same 12 the plain server produces when its generators skip the
    session id and the `admin_connect` outcome the admin CONNECT consumed, and the outcome the
    admin's event named `connect` consumed. -/
def exSkips : List Skip :=
  [{}, {}, {}, {}, ⟨1, 1, 0⟩, {}, {}, {}, {}, {}, {}, ⟨0, 0, 1⟩, {}, {}, {}, {}, {}]

/-- an output, rendered (only to compare two concrete runs by `decide`) -/
def exKey : Out → Str × Nat × Str × Option Nat × Str
  | .send t p => (t, p.type, p.nsp.getD [], p.id, (p.data.map J.dumps).getD [])
  | .invoke slot args => (slotNs slot, 100, [], none, J.dumps (.arr args))
  | .callback n args => ([], 101, [], some n, J.dumps (.arr args))
  | .raised _ => ([], 102, [], none, [])
  | .result j => ([], 103, [], none, J.dumps j)
  | .timeout => ([], 104, [], none, [])

example :
    let tr := Instrumented.trace exDec exPlain exAdminNs "development".toList true exPayloads {} exHist
    let pl := Plain.traceSkip exDec exPlain {} (exSkips.zip exHist)
    (tr.2.flatMap (·.2)).length = 32 ∧
    ((observeTrace exAdminNs tr.2).flatMap (·.2)).length = 12 ∧
    ((observeTrace exAdminNs tr.2).flatMap (·.2)).map exKey =
      ((observeTrace exAdminNs pl.2).flatMap (·.2)).map exKey ∧
    (appState exAdminNs tr.1).rooms = (appState exAdminNs pl.1).rooms ∧
    (appState exAdminNs tr.1).rooms.length = 5 ∧
    (appState exAdminNs tr.1).cbs = (appState exAdminNs pl.1).cbs ∧
    (appState exAdminNs tr.1).cbs.length = 2 := by
  decide

end Sio.C18
