/-
  Glue (dispatch) — the separately built models agree with each other on handler resolution.

  K4 ↔ K8: `Sio.Server.resolve` (the handler resolution inside the server-core model) selects, for
  every registry, namespace (a namespace literally named `"*"` included) and STRING event name
  (ordinary, reserved, `"*"`, empty), exactly what `Sio.Dispatch.resolve .server` selects, with the
  documented argument prefix; hence the C13 precedence table holds for the handler `Sio.Server.step`
  invokes for an incoming EVENT.  K7 ↔ K8: the same for the client model's registry
  `Sio.Client.Reg.resolve` and `Sio.Dispatch.resolve .client`.
  (The only glue module that depends on `Sio.Props.C13`; the constants are in GlueCodec / GlueServer /
  GlueReconnect.)
-/
import Sio.Model.Dispatch
import Sio.Model.Server
import Sio.Model.Client
import Sio.Props.C13
import Sio.Props.C05
import Sio.Props.C09
namespace Sio.GlueDispatch
open Sio

/-! ## K4 ↔ K8: the server core's own `resolve` is `Dispatch.resolve .server` -/

/-- A `Server.Registry` as a `Dispatch.Reg`: `handlers[n][e]` exists iff the namespace key exists
    (`fnNs n`) and the event key exists in it. -/
def serverReg (reg : Server.Registry) : Dispatch.Reg where
  fn n e := reg.fnNs n && reg.fn n e
  cls := reg.cls
  attr := reg.clsMethod

/-- the registered object a `Dispatch.Slot` stands for, for concrete names -/
def serverSlot (ns : Str) (ev : Str) : Dispatch.Slot → Server.Slot
  | .fnNsEv => .fn ns ev
  | .fnNsStar => .fn ns Dispatch.star
  | .fnStarEv => .fn Dispatch.star ev
  | .fnStarStar => .fn Dispatch.star Dispatch.star
  | .clsNs => .cls ns (Dispatch.methodName ev)
  | .clsStar => .cls Dispatch.star (Dispatch.methodName ev)

/-- the documented argument prefix (`[]`, `[ev]`, `[ns]`, `[ev, ns]`) as handler arguments -/
def prefixJ (ns ev : Str) (pre : List Dispatch.PArg) : List J :=
  pre.map (fun p => J.str (p.render ns ev))

/-- `Dispatch.Res` as a `Server.Resolved`: the slot, and `prefix ++ args`; `dropped` is
    `clsNoMethod`, `notHandled` is `notHandled` -/
def serverRes (ns ev : Str) (args : List J) : Dispatch.Res → Server.Resolved
  | .invoke slot pre =>
    if slot.isFn then .fn (serverSlot ns ev slot) (prefixJ ns ev pre ++ args)
    else .clsCall (serverSlot ns ev slot) (prefixJ ns ev pre ++ args)
  | .dropped _ => .clsNoMethod
  | .notHandled => .notHandled

/-- the server model's own reserved list is the one the source has now -/
theorem server_reserved_eq : Server.reserved = Generated.serverReserved := by decide

/-- the shape of one `if n in self.handlers:` block of `Server.resolve` -/
theorem ifchain_cases {c1 c2 c3 c4 : Bool} {e : Err} {r1 r2 : Server.Resolved} (hc2 : c2 = false)
    (x : Except Err (Option Server.Resolved))
    (h : (if c1 = true then
            if c2 = true then Except.error e
            else if c3 = true then Except.ok (some r1)
            else if c4 = true then Except.ok (some r2) else Except.ok none
          else (Except.ok none : Except Err (Option Server.Resolved))) = x) :
    ((c1 && c3) = true ∧ x = .ok (some r1)) ∨
    ((c1 && c3) = false ∧ (c1 && c4) = true ∧ x = .ok (some r2)) ∨
    ((c1 && c3) = false ∧ (c1 && c4) = false ∧ x = .ok none) := by
  subst hc2; subst h
  cases c1 <;> cases c3 <;> cases c4 <;> simp

/-! the rows of `Dispatch.table`, first match first -/
section rows
open Dispatch
variable {res b1 b2 b3 b4 b5 b6 m5 m6 : Bool}

theorem row1 (h1 : b1 = true) : table res b1 b2 b3 b4 b5 b6 m5 m6 = .invoke .fnNsEv [] := by
  subst h1; rfl
theorem row2 (h1 : b1 = false) (h2 : (b2 && !res) = true) :
    table res b1 b2 b3 b4 b5 b6 m5 m6 = .invoke .fnNsStar [.ev] := by
  subst h1; simp only [table, h2]
theorem row3 (h1 : b1 = false) (h2 : (b2 && !res) = false) (h3 : b3 = true) :
    table res b1 b2 b3 b4 b5 b6 m5 m6 = .invoke .fnStarEv [.ns] := by
  subst h1; subst h3; simp only [table, h2]
theorem row4 (h1 : b1 = false) (h2 : (b2 && !res) = false) (h3 : b3 = false)
    (h4 : (b4 && !res) = true) :
    table res b1 b2 b3 b4 b5 b6 m5 m6 = .invoke .fnStarStar [.ev, .ns] := by
  subst h1; subst h3; simp only [table, h2, h4]
theorem row567 (h1 : b1 = false) (h2 : (b2 && !res) = false) (h3 : b3 = false)
    (h4 : (b4 && !res) = false) :
    table res b1 b2 b3 b4 b5 b6 m5 m6 =
      if b5 = true then (bif m5 then .invoke .clsNs [] else .dropped .clsNs)
      else if b6 = true then (bif m6 then .invoke .clsStar [.ns] else .dropped .clsStar)
      else .notHandled := by
  subst h1; subst h3; simp only [table, h2, h4]
  cases b5 <;> cases b6 <;> rfl
end rows

/-- **K4 ↔ K8.**  For every registry, namespace, string event name and argument list, the server
    core's `resolve` succeeds with exactly the handler `Dispatch.resolve .server` selects (on the
    translated registry), called with the documented prefix prepended to `args`. -/
theorem server_resolve_eq (reg : Server.Registry) (ns ev : Str) (args : List J) :
    Server.resolve reg ns (.str ev) args =
      .ok (serverRes ns ev args (Dispatch.resolve .server (serverReg reg) ns ev)) := by
  have hR : (Dispatch.reservedOf .server).contains ev = Server.reserved.contains ev := by
    rw [server_reserved_eq]; rfl
  have hb1 : ∀ n, (serverReg reg).exact n ev =
      (reg.fnNs n && (!(ev == Server.star) && reg.fn n ev)) := by
    intro n
    show (!(ev == Server.star) && (reg.fnNs n && reg.fn n ev)) = _
    exact Bool.and_left_comm ..
  have hb2 : ∀ n, ((serverReg reg).fn n Dispatch.star && !(Server.reserved.contains ev)) =
      (reg.fnNs n && (!(Server.reserved.contains ev) && reg.fn n Server.star)) := by
    intro n
    show (reg.fnNs n && reg.fn n Server.star && !(Server.reserved.contains ev)) = _
    cases reg.fnNs n <;> cases reg.fn n Server.star <;> cases Server.reserved.contains ev <;> rfl
  have hn1 : (serverReg reg).nsExact ns ev =
      ((ns != Server.star && reg.fnNs ns) && (!(ev == Server.star) && reg.fn ns ev)) := by
    show (ns != Server.star && (!(ev == Server.star) && (reg.fnNs ns && reg.fn ns ev))) = _
    cases (ns != Server.star) <;> cases reg.fnNs ns <;> cases (ev == Server.star) <;>
      cases reg.fn ns ev <;> rfl
  have hn2 : ((serverReg reg).nsCatch ns && !(Server.reserved.contains ev)) =
      ((ns != Server.star && reg.fnNs ns) && (!(Server.reserved.contains ev) && reg.fn ns Server.star)) := by
    show (ns != Server.star && (reg.fnNs ns && reg.fn ns Server.star) && !(Server.reserved.contains ev)) = _
    cases (ns != Server.star) <;> cases reg.fnNs ns <;> cases reg.fn ns Server.star <;>
      cases Server.reserved.contains ev <;> rfl
  rw [C13.precedence_table, hR]
  unfold Server.resolve
  dsimp only
  split
  · rename_i e heq
    rcases ifchain_cases (c2 := !Server.hashable (J.str ev)) rfl _ heq with ⟨_, h⟩ | ⟨_, _, h⟩ | ⟨_, _, h⟩ <;>
      cases h
  · rename_i r heq
    rcases ifchain_cases (c2 := !Server.hashable (J.str ev)) rfl _ heq with ⟨h1, h⟩ | ⟨h1, h2, h⟩ | ⟨_, _, h⟩
    · cases h
      rw [row1 (hn1.trans h1)]; rfl
    · cases h
      rw [row2 (hn1.trans h1) (hn2.trans h2)]; rfl
    · cases h
  · rename_i heq
    rcases ifchain_cases (c2 := !Server.hashable (J.str ev)) rfl _ heq with ⟨_, h⟩ | ⟨_, _, h⟩ | ⟨h1, h2, _⟩
    · cases h
    · cases h
    · have g1 := hn1.trans h1
      have g2 := hn2.trans h2
      split
      · rename_i e heq
        rcases ifchain_cases (c2 := !Server.hashable (J.str ev)) rfl _ heq with
          ⟨_, h⟩ | ⟨_, _, h⟩ | ⟨_, _, h⟩ <;> cases h
      · rename_i r heq
        rcases ifchain_cases (c2 := !Server.hashable (J.str ev)) rfl _ heq with
          ⟨h3, h⟩ | ⟨h3, h4, h⟩ | ⟨_, _, h⟩
        · cases h
          rw [row3 g1 g2 ((hb1 Dispatch.star).trans h3)]; rfl
        · cases h
          rw [row4 g1 g2 ((hb1 Dispatch.star).trans h3) ((hb2 Dispatch.star).trans h4)]; rfl
        · cases h
      · rename_i heq
        rcases ifchain_cases (c2 := !Server.hashable (J.str ev)) rfl _ heq with
          ⟨_, h⟩ | ⟨_, _, h⟩ | ⟨h3, h4, _⟩
        · cases h
        · cases h
        · rw [row567 g1 g2 ((hb1 Dispatch.star).trans h3) ((hb2 Dispatch.star).trans h4)]
          have hon : "on_".toList = ['o', 'n', '_'] := by decide
          have hm : ∀ n, (serverReg reg).hasMethod n ev = reg.clsMethod n (['o', 'n', '_'] ++ ev) :=
            fun _ => rfl
          have hc : (serverReg reg).cls = reg.cls := rfl
          simp only [Dispatch.Reg.nsCls, hm, hc, hon, J.truthy, Server.evStr, Server.star, Dispatch.star]
          by_cases h5 : (ns != ['*'] && reg.cls ns) = true
          · simp only [h5, if_true]
            cases ev with
            | nil =>
              cases h : reg.clsMethod ns ['o', 'n', '_']
              all_goals simp [h, serverRes, serverSlot, prefixJ, Dispatch.Slot.isFn, Dispatch.methodName]
            | cons c cs =>
              cases h : reg.clsMethod ns (['o', 'n', '_'] ++ c :: cs)
              all_goals simp [serverRes, serverSlot, prefixJ, Dispatch.Slot.isFn, Dispatch.methodName]
          · have h5' : (ns != ['*'] && reg.cls ns) = false := by simpa using h5
            by_cases h6 : reg.cls ['*'] = true
            · simp only [h5', h6, if_true, if_false, Bool.false_eq_true]
              cases ev with
              | nil =>
                cases h : reg.clsMethod ['*'] ['o', 'n', '_']
                all_goals simp [h, serverRes, serverSlot, prefixJ, Dispatch.Slot.isFn, Dispatch.methodName,
                    Dispatch.PArg.render, Dispatch.star]
              | cons c cs =>
                cases h : reg.clsMethod ['*'] (['o', 'n', '_'] ++ c :: cs)
                all_goals simp [serverRes, serverSlot, prefixJ, Dispatch.Slot.isFn, Dispatch.methodName,
                    Dispatch.PArg.render, Dispatch.star]
            · have h6' : reg.cls ['*'] = false := by simpa using h6
              simp only [h5', h6', if_false, Bool.false_eq_true]
              rfl

/-! ## K7 ↔ K8: the client model's registry is `Dispatch.resolve .client` -/

/-- A `Client.Reg` as a `Dispatch.Reg`: `hasattr(obj, a)` is `method n e` for `a = 'on_' + e`. -/
def clientReg (r : Client.Reg) : Dispatch.Reg where
  fn := r.fn
  cls := r.cls
  attr n a := match a with
    | 'o' :: 'n' :: '_' :: e => r.method n e
    | _ => false

def clientSlot (n ev : Str) : Dispatch.Slot → Client.Slot
  | .fnNsEv => ⟨false, n, ev⟩
  | .fnNsStar => ⟨false, n, Dispatch.star⟩
  | .fnStarEv => ⟨false, Dispatch.star, ev⟩
  | .fnStarStar => ⟨false, Dispatch.star, Dispatch.star⟩
  | .clsNs => ⟨true, n, ev⟩
  | .clsStar => ⟨true, Dispatch.star, ev⟩

/-- `Dispatch.Res` as the client model's answer: the slot and `prefix ++ args` (minus the `reason`
    for a legacy `disconnect` handler, `Reg.args`); `dropped` and `notHandled` are both "nothing
    runs" -/
def clientRes (r : Client.Reg) (n ev : Str) (args : List J) : Dispatch.Res → Option (Client.Slot × List J)
  | .invoke slot pre =>
    some (clientSlot n ev slot, r.args (clientSlot n ev slot) ev (prefixJ n ev pre ++ args))
  | _ => none

/-- the client model's own reserved list is the one the source has now -/
theorem client_reserved_eq : Client.reserved = Generated.clientReserved := by decide

/-- **K7 ↔ K8.**  For every registry, namespace, event name and argument list, the client model's
    registry selects exactly what `Dispatch.resolve .client` selects. -/
theorem client_resolve_eq (r : Client.Reg) (n ev : Str) (args : List J) :
    r.resolve n ev args = clientRes r n ev args (Dispatch.resolve .client (clientReg r) n ev) := by
  have hR : (Dispatch.reservedOf .client).contains ev = Client.reserved.contains ev := by
    rw [client_reserved_eq]; rfl
  have hx : ∀ k, (clientReg r).exact k ev = (decide (ev ≠ Client.star) && r.fn k ev) := by
    intro k
    have hs : Client.star = Dispatch.star := rfl
    show (ev != Dispatch.star && r.fn k ev) = _
    rw [hs]
    by_cases h : ev = Dispatch.star <;> simp [h]
  have hm : ∀ k, (clientReg r).hasMethod k ev = r.method k ev := fun _ => rfl
  rw [C13.precedence_table, hR, hx, hm, hm]
  unfold Client.Reg.resolve
  simp only [Dispatch.Reg.nsExact, Dispatch.Reg.nsCatch, Dispatch.Reg.nsCls, hx, bne,
    show (clientReg r).fn = r.fn from rfl, show (clientReg r).cls = r.cls from rfl,
    show Dispatch.star = Client.star from rfl]
  have hs : (n == Client.star) = true ∨ (n == Client.star) = false := by
    cases (n == Client.star) <;> simp
  rcases hs with hs | hs <;> simp only [hs, Bool.not_true, Bool.not_false, Bool.false_and, Bool.true_and,
    Bool.false_eq_true, if_false, if_true]
  all_goals
    generalize (decide (ev ≠ Client.star) && r.fn n ev) = b1
    generalize (decide (ev ≠ Client.star) && r.fn Client.star ev) = b3
    generalize Client.reserved.contains ev = res
    generalize r.fn n Client.star = b2
    generalize r.fn Client.star Client.star = b4
    generalize r.cls n = b5
    generalize r.cls Client.star = b6
    generalize r.method n ev = m5
    generalize r.method Client.star ev = m6
    cases b1 <;> cases b2 <;> cases b3 <;> cases b4 <;> cases res <;> cases b5 <;> cases b6 <;> cases m5 <;>
      cases m6 <;> rfl

/-! ## corollaries: the C13 table for what the models invoke -/

/-- the `invoke` outputs a resolution result stands for -/
def invokesOf (ns ev : Str) (sidArgs : List J) : Dispatch.Res → List Server.Out
  | .invoke slot pre => [.invoke (serverSlot ns ev slot) (prefixJ ns ev pre ++ sidArgs)]
  | _ => []

/-- **C13 for `Server.step`.**  An EVENT `(nsp, id, ev :: args)` with a string name from a transport
    connected to the namespace with session `sid`, inline handlers: the handler invocations of the
    step are exactly the one `Dispatch.resolve .server` selects — that slot, with the documented
    prefix before `sid :: args` — and none when it selects nothing. -/
theorem step_invokes_dispatch {dec : Str → Except Err (Packet × Nat)} {cfg : Server.Cfg}
    {s s₀ : Server.Srv} (h : Server.WF s) {t : Rooms.Eio} {v : J} {nsp : Option Str}
    {id : Option Nat} {ev : Str} {args : List J} {sid : Rooms.Sid}
    (hc : Server.CompletesEvent dec s t v nsp id (some (.arr (.str ev :: args))) s₀)
    (hs : Rooms.sidOf s.rooms (nsp.getD ['/']) t = some sid) (hsync : cfg.asyncHandlers = false) :
    (Server.step dec cfg s (.frame t v)).2.filter Server.Out.isInvoke =
      invokesOf (nsp.getD ['/']) ev (.str sid :: args)
        (Dispatch.resolve .server (serverReg cfg.reg) (nsp.getD ['/']) ev) := by
  rw [(C05.invoke_once h hc hs hsync (server_resolve_eq ..)).1]
  cases Dispatch.resolve .server (serverReg cfg.reg) (nsp.getD ['/']) ev with
  | invoke slot pre => cases slot <;> rfl
  | dropped slot => rfl
  | notHandled => rfl

/-- … and therefore follows the documented precedence table, read off the server registry. -/
theorem step_invokes_table {dec : Str → Except Err (Packet × Nat)} {cfg : Server.Cfg}
    {s s₀ : Server.Srv} (h : Server.WF s) {t : Rooms.Eio} {v : J} {nsp : Option Str}
    {id : Option Nat} {ev : Str} {args : List J} {sid : Rooms.Sid}
    (hc : Server.CompletesEvent dec s t v nsp id (some (.arr (.str ev :: args))) s₀)
    (hs : Rooms.sidOf s.rooms (nsp.getD ['/']) t = some sid) (hsync : cfg.asyncHandlers = false) :
    (Server.step dec cfg s (.frame t v)).2.filter Server.Out.isInvoke =
      invokesOf (nsp.getD ['/']) ev (.str sid :: args)
        (Dispatch.table (Generated.serverReserved.contains ev)
          (nsp.getD ['/'] != Dispatch.star &&
            (ev != Dispatch.star && (cfg.reg.fnNs (nsp.getD ['/']) && cfg.reg.fn (nsp.getD ['/']) ev)))
          (nsp.getD ['/'] != Dispatch.star &&
            (cfg.reg.fnNs (nsp.getD ['/']) && cfg.reg.fn (nsp.getD ['/']) Dispatch.star))
          (ev != Dispatch.star && (cfg.reg.fnNs Dispatch.star && cfg.reg.fn Dispatch.star ev))
          (cfg.reg.fnNs Dispatch.star && cfg.reg.fn Dispatch.star Dispatch.star)
          (nsp.getD ['/'] != Dispatch.star && cfg.reg.cls (nsp.getD ['/'])) (cfg.reg.cls Dispatch.star)
          (cfg.reg.clsMethod (nsp.getD ['/']) ("on_".toList ++ ev))
          (cfg.reg.clsMethod Dispatch.star ("on_".toList ++ ev))) := by
  rw [step_invokes_dispatch h hc hs hsync, C13.precedence_table]
  rfl

-- non-vacuity: the demo state of C05 (two transports connected to `/`), the frame "e"
example : (Server.step C05.dec0 C05.cfg0 C05.demo0 (.frame C05.tA (.str ['e']))).2.filter
      Server.Out.isInvoke =
    invokesOf ['/'] ['e', 'v'] [.str (Server.sidName 0), .int 1]
      (Dispatch.resolve .server (serverReg C05.cfg0.reg) ['/'] ['e', 'v']) :=
  step_invokes_dispatch C05.demo0_wf
    (.text (p := ⟨EVENT, none, some 3, some (.arr [.str ['e', 'v'], .int 1])⟩) (n := 0)
      (by decide) rfl rfl) (by decide) rfl

/-- The reserved events of the server (`connect`, `disconnect`: what `_handle_connect`,
    `_handle_disconnect` and `disconnect()` resolve) never reach a catch-all *event* handler
    (`handlers[n]['*']`, for any key `n`) in the server-core model. -/
theorem server_reserved_never_catchall (reg : Server.Registry) (ns ev : Str) (args : List J)
    (hev : ev = "connect".toList ∨ ev = "disconnect".toList) (n : Str) (a : List J) :
    Server.resolve reg ns (.str ev) args ≠ .ok (.fn (.fn n Dispatch.star) a) := by
  rw [server_resolve_eq]
  have hk := C13.connect_disconnect_never_catchall .server (serverReg reg) ns ev
    (hev.elim Or.inl (fun h => Or.inr (Or.inl h)))
  have hne : ev ≠ Dispatch.star := by rcases hev with h | h <;> subst h <;> decide
  intro he
  cases hres : Dispatch.resolve .server (serverReg reg) ns ev with
  | invoke slot pre =>
    rw [hres] at he
    cases slot <;> simp [serverRes, serverSlot, Dispatch.Slot.isFn] at he
    · exact hne he.1.2
    · exact (hk pre).1 hres
    · exact hne he.1.2
    · exact (hk pre).2 hres
  | dropped slot => rw [hres] at he; simp [serverRes] at he
  | notHandled => rw [hres] at he; simp [serverRes] at he

/-- **C13 for the client model.**  An EVENT the server sends (no binary packet pending, transport
    connected), with the registry the driver instantiates `Cfg.resolve` with: `_trigger_event`
    runs once, and the callable that runs is the one `Dispatch.resolve .client` selects. -/
theorem client_event_dispatch (r : Client.Reg) (ret : Client.Slot → List J → Data) (c : Client.Cli)
    (raw : J) (ns : Option Client.Ns) (id : Option Nat) (name : Str) (args : List J)
    (hb : c.binbuf = none) (he : c.eio = .connected) :
    C09.trigs (Client.deliver ⟨r.resolve, ret⟩ c
        (.msg raw (.ok (⟨EVENT, ns, id, some (.arr (.str name :: args))⟩, 0)))).2 =
      [(name, Client.nsOr ns,
        clientRes r (Client.nsOr ns) name args
          (Dispatch.resolve .client (clientReg r) (Client.nsOr ns) name))] := by
  rw [← client_resolve_eq]
  exact (C09.invoke_once ⟨r.resolve, ret⟩ c raw ns id name args hb he).2

end Sio.GlueDispatch
