/-
  C07 — Multi-host pub/sub: a cluster behaves like one server holding all clients.

  Model: `Sio/Model/PubSub.lean` — `Cluster` (hosts with their own room tables and callback tables,
  the ordered channel, one cursor per host, a write-only manager), `step` (the public methods of
  `PubSubManager` / `AsyncPubSubManager` as the server calls them, `deliver`, `drain`), `Single`
  (ONE server with a plain `Manager` holding all the clients).  Helper lemmas:
  `Sio/Lemmas/PubSub*.lean`.  Nothing is bounded: any number of hosts, clients, rooms, namespaces,
  histories of any length, any placement of clients on hosts.
-/
import Sio.Lemmas.PubSubSyncOps
import Sio.Lemmas.PubSubRunOps
import Sio.Lemmas.PubSubTokOps
import Sio.Lemmas.PubSubDeliver
import Sio.Lemmas.PubSubLinkedEmit
import Sio.Lemmas.PubSubLinkedHist
import Sio.Props.C03
namespace Sio.C07
open Sio.PubSub Sio.Rooms

/-! ## Vocabulary -/

/-- a placement: on which host every session id and every transport lives -/
structure Placement where
  home : Sid → HostId
  ehome : Eio → HostId

/-- every operation of the history names existing hosts, a `connect` happens where the placement
    says, emit targets are proper (`to=[]` is not a target), and an emit with a callback goes
    through a host and names one room -/
def OpsOk (p : Placement) (ids : List HostId) (ops : List PubSub.Op) : Prop :=
  ∀ op ∈ ops, OpOk p.home p.ehome ids op

/-- a fresh cluster: hosts without clients, an empty channel -/
def Cluster.init (ids : List HostId) (wo : HostId) : Cluster :=
  { hosts := ids.map (fun i => { id := i }), wo := { id := wo } }

def Single.init : Single := { srv := { id := [] } }

theorem sim_init (p : Placement) (ids : List HostId) (wo : HostId) (hnd : ids.Nodup)
    (hwo : wo ∉ ids) : Sim p.home p.ehome (Cluster.init ids wo) Single.init := by
  have hids : (Cluster.init ids wo).hosts.map Host.id = ids := by
    simp only [Cluster.init, List.map_map]
    exact List.map_id' ids
  have hviews : ∀ v ∈ (Cluster.init ids wo).views, v.2 = [] := by
    intro v hv
    simp only [Cluster.views, Cluster.init, List.map_map, List.mem_map] at hv
    obtain ⟨i, _, rfl⟩ := hv
    rfl
  refine ⟨⟨?_, ?_, ?_, ?_⟩, Inv.nil, ?_, ?_, EmitsOk.nil, ?_, rfl⟩
  · rw [views_fst, hids]; exact hnd
  · intro v hv; rw [hviews v hv]; exact Inv.nil
  · intro v hv e he; rw [hviews v hv] at he; cases he
  · intro v hv e he; rw [hviews v hv] at he; cases he
  · intro e
    constructor
    · intro he; cases he
    · rintro ⟨v, hv, he⟩; rw [hviews v hv] at he; cases he
  · intro h hh
    simp only [Cluster.init, List.mem_map] at hh
    obtain ⟨i, _, rfl⟩ := hh
    exact ⟨Nat.le_refl _, AllCb.nil⟩
  · rw [hids]; exact hwo

/-! ## sync_equiv — immediate delivery: exact equivalence with one server -/

/-- **Frames and disconnects.**  From any pair of related states, for every history whose
    operations are each followed by a drain pass: every client receives exactly the packets (in
    its own order, ack ids abstracted to "asks for an acknowledgement") that it would receive
    from a single server holding all the clients, the same disconnect handlers run in the same
    order, and the states are related again — for every placement. -/
theorem sync_equiv_frames_from (p : Placement) (c : Cluster) (s : Single)
    (hs : Sim p.home p.ehome c s) (ops : List PubSub.Op)
    (hops : OpsOk p (c.hosts.map Host.id) ops) :
    (∀ x, seenBy x (runSync c ops).2 = seenBy x (Single.run s ops).2) ∧
    discEvents (runSync c ops).2 = discEvents (Single.run s ops).2 ∧
    Sim p.home p.ehome (runSync c ops).1 (Single.run s ops).1 := by
  induction ops generalizing c s with
  | nil => exact ⟨fun _ => rfl, rfl, hs⟩
  | cons op ops ih =>
    have hop : OpOk p.home p.ehome (c.views.map Prod.fst) op := by
      rw [views_fst]; exact hops op List.mem_cons_self
    obtain ⟨h1, h2, h3, h4⟩ := sim_step hs op hop
    have hops' : OpsOk p ((step (step c op).1 .drain).1.hosts.map Host.id) ops := by
      rw [h4]; exact fun o ho => hops o (List.mem_cons_of_mem _ ho)
    obtain ⟨i1, i2, i3⟩ := ih _ _ h1 hops'
    refine ⟨?_, ?_, i3⟩
    · intro x
      show seenBy x ((step c op).2 ++ (step (step c op).1 .drain).2 ++ _) = seenBy x ((s.step op).2 ++ _)
      rw [seenBy_append, seenBy_append x (s.step op).2, h2 x, i1 x]
    · show discEvents ((step c op).2 ++ (step (step c op).1 .drain).2 ++ _) = discEvents ((s.step op).2 ++ _)
      rw [discEvents_append, discEvents_append (s.step op).2, h3, i2]

/-- ... in particular from the empty cluster against the empty server. -/
theorem sync_equiv_frames (p : Placement) (ids : List HostId) (wo : HostId) (hnd : ids.Nodup)
    (hwo : wo ∉ ids) (ops : List PubSub.Op) (hops : OpsOk p ids ops) (x : Sid) :
    seenBy x (runSync (Cluster.init ids wo) ops).2 = seenBy x (Single.run Single.init ops).2 ∧
    discEvents (runSync (Cluster.init ids wo) ops).2 = discEvents (Single.run Single.init ops).2 := by
  have hids : (Cluster.init ids wo).hosts.map Host.id = ids := by
    simp only [Cluster.init, List.map_map]
    exact List.map_id' ids
  obtain ⟨h1, h2, _⟩ := sync_equiv_frames_from p _ _ (sim_init p ids wo hnd hwo) ops (by rw [hids]; exact hops)
  exact ⟨h1 x, h2⟩

/-- `sync_equiv` without the hypotheses on the history that the callback part needs (hence
    `_partial`): the per-client packet sequences (`seenBy`, ack ids abstracted to "asks for an
    acknowledgement") and the disconnect handlers (`discEvents`) of the cluster equal those of the
    single server, for every placement, every history with `OpsOk` alone, any number of hosts.
    The full statement of DESIGN §5 — `observe (runSync c ops) = observe (Single.run s ops)` with
    `observe` = per-client packet sequences + application events (callback invocations AND
    disconnect handlers) — is `sync_equiv` below; it needs `HistOk` in addition (fresh session ids;
    an emit with a callback addresses a personal room with nobody but its owner in it), without
    which the callback part is false (see `aliasOps`).  It is proved with the invariant
    `Sio.PubSub.Linked` between the drained cluster and the single server: same number of asks per
    client; for every outstanding ask of a connected client the single server's user callback entry
    exists iff the client's host has the relay entry AND the issuing host has the user entry it
    points at; `cbs k i ≠ none → i ≤ ctr k` and `asked ids ≤ ctr` on both sides
    (`Sio/Lemmas/PubSubLinked*.lean`, one lemma per operation kind, `linked_step`).  About callbacks
    under ANY schedule (not only immediate delivery) see `callback_once`,
    `callback_exactly_once_when_linked`, `callback_args_from_ack` / `callback_args_relayed`. -/
theorem sync_equiv_partial (p : Placement) (ids : List HostId) (wo : HostId) (hnd : ids.Nodup)
    (hwo : wo ∉ ids) (ops : List PubSub.Op) (hops : OpsOk p ids ops) (x : Sid) :
    seenBy x (runSync (Cluster.init ids wo) ops).2 = seenBy x (Single.run Single.init ops).2 ∧
    discEvents (runSync (Cluster.init ids wo) ops).2 = discEvents (Single.run Single.init ops).2 :=
  sync_equiv_frames p ids wo hnd hwo ops hops x


/-! ### sync_equiv — packets AND application events -/

theorem linked_init (home : Sid → HostId) (ids : List HostId) (wo : HostId) :
    Linked home (Cluster.init ids wo) Single.init := by
  refine ⟨?_, ?_, fun _ => rfl, ?_, ?_, ?_⟩
  · intro h hh
    simp only [Cluster.init, List.mem_map] at hh
    obtain ⟨i, _, rfl⟩ := hh
    rfl
  · intro e₁ h1; cases h1
  · intro h hh k i hne
    simp only [Cluster.init, List.mem_map] at hh
    obtain ⟨j, _, rfl⟩ := hh
    exact absurd rfl hne
  · intro k i hne; exact absurd rfl hne
  · rintro x ⟨e, he, _⟩; cases he

/-- From any pair of related states (`Sim`: the room tables of the hosts partition the single
    server's; `Linked`: the callback tables are linked, every host has drained), for every history
    whose operations are each followed by a drain pass and that respects `HistOk` on the way. -/
theorem sync_equiv_from (p : Placement) (c : Cluster) (s : Single)
    (hs : Sim p.home p.ehome c s) (hl : Linked p.home c s) (ops : List PubSub.Op)
    (hops : OpsOk p (c.hosts.map Host.id) ops) (hh : HistOk s ops) :
    (∀ x, seenBy x (runSync c ops).2 = seenBy x (Single.run s ops).2) ∧
    appEvents (runSync c ops).2 = appEvents (Single.run s ops).2 ∧
    Sim p.home p.ehome (runSync c ops).1 (Single.run s ops).1 ∧
    Linked p.home (runSync c ops).1 (Single.run s ops).1 := by
  induction ops generalizing c s with
  | nil => exact ⟨fun _ => rfl, rfl, hs, hl⟩
  | cons op ops ih =>
    have hop : OpOk p.home p.ehome (c.views.map Prod.fst) op := by
      rw [views_fst]; exact hops op List.mem_cons_self
    obtain ⟨h1, h2, h3, h4⟩ := sim_step hs op hop
    obtain ⟨l1, l2, l3⟩ := linked_step hs hl op hop hh.1
    have hops' : OpsOk p ((step (step c op).1 .drain).1.hosts.map Host.id) ops := by
      rw [h4]; exact fun o ho => hops o (List.mem_cons_of_mem _ ho)
    obtain ⟨i1, i2, i3, i4⟩ := ih _ _ h1 l1 hops' hh.2
    refine ⟨?_, ?_, i3, i4⟩
    · intro x
      show seenBy x ((step c op).2 ++ (step (step c op).1 .drain).2 ++ _) = seenBy x ((s.step op).2 ++ _)
      rw [seenBy_append, seenBy_append x (s.step op).2, h2 x, i1 x]
    · show appEvents ((step c op).2 ++ (step (step c op).1 .drain).2 ++ _) = appEvents ((s.step op).2 ++ _)
      rw [appEvents_append, appEvents_append (s.step op).2, appEvents_eq h3 l2 l3, i2]

/-- **A pub/sub cluster with immediate delivery behaves like one server holding all the clients.**
    For every placement of clients (and transports) on hosts, any number of hosts with distinct ids,
    a write-only manager with its own id, and every history `ops` — `connect`, `enter_room`,
    `leave_room`, `close_room`, `emit` through a host or through the write-only manager (any target,
    any `skip_sid`, with or without a callback), `disconnect`, client ACKs by position (any position,
    also out of range, repeated, of a client that is gone), each operation followed by one drain
    pass — the cluster and the single server are observably equal:

    * every client receives the same packets in the same order (`seenBy`; ack ids are abstracted to
      "asks for an acknowledgement" — the ids themselves differ, by design: the cluster's client is
      handed the id of the relay entry on its own host);
    * the application sees the same events in the same order (`appEvents`): every callback
      invocation with its token and the arguments the client sent, and every disconnect handler.

    Hypotheses: `OpsOk` (the operations name existing hosts, a `connect` happens where the placement
    says, `to=[]` is no target, an emit with a callback goes through a host and names one room) and
    `HistOk` (decidable, judged on the run of the reference server): session ids are fresh — a
    `connect` brings an id that is not in use and was never asked anything — and, at the moment of
    an emit with a callback, nobody but the client of that name is in the addressed (personal) room
    ("callback functions can only be used when addressing an individual client").  Both are what the
    quantifier of C07 says (`harness/props/c07.py: in_domain`); without the second the statement is
    false (one user callback on the cluster, one per recipient on the single server). -/
theorem sync_equiv (p : Placement) (ids : List HostId) (wo : HostId) (hnd : ids.Nodup)
    (hwo : wo ∉ ids) (ops : List PubSub.Op) (hops : OpsOk p ids ops) (hh : HistOk Single.init ops) :
    (∀ x, seenBy x (runSync (Cluster.init ids wo) ops).2 = seenBy x (Single.run Single.init ops).2) ∧
    appEvents (runSync (Cluster.init ids wo) ops).2 = appEvents (Single.run Single.init ops).2 := by
  have hids : (Cluster.init ids wo).hosts.map Host.id = ids := by
    simp only [Cluster.init, List.map_map]
    exact List.map_id' ids
  obtain ⟨h1, h2, _, _⟩ := sync_equiv_from p _ _ (sim_init p ids wo hnd hwo) (linked_init p.home ids wo) ops
    (by rw [hids]; exact hops) hh
  exact ⟨h1, h2⟩

/-- The same with the freshness of session ids stated on the history itself: the session ids of the
    `connect`s are pairwise distinct (`connSids ops` has no duplicates), and (`CbPersonal`, judged on
    the run of the reference server, decidable) at the moment of every emit with a callback nobody
    but the client of that name is in the addressed personal room. -/
theorem sync_equiv_fresh (p : Placement) (ids : List HostId) (wo : HostId) (hnd : ids.Nodup)
    (hwo : wo ∉ ids) (ops : List PubSub.Op) (hops : OpsOk p ids ops) (hfresh : (connSids ops).Nodup)
    (hcb : CbPersonal Single.init ops) :
    (∀ x, seenBy x (runSync (Cluster.init ids wo) ops).2 = seenBy x (Single.run Single.init ops).2) ∧
    appEvents (runSync (Cluster.init ids wo) ops).2 = appEvents (Single.run Single.init ops).2 :=
  sync_equiv p ids wo hnd hwo ops hops
    (histOk_of_fresh Single.init Inv.nil ops hfresh
      (fun _ _ => ⟨fun _ he => (nomatch he), fun _ ha => (nomatch ha)⟩) hcb)

/-- ... in particular the callback invocations alone (token, arguments), in order -/
theorem sync_equiv_callbacks (p : Placement) (ids : List HostId) (wo : HostId) (hnd : ids.Nodup)
    (hwo : wo ∉ ids) (ops : List PubSub.Op) (hops : OpsOk p ids ops) (hh : HistOk Single.init ops) :
    cbEvents (runSync (Cluster.init ids wo) ops).2 = cbEvents (Single.run Single.init ops).2 := by
  have h := (sync_equiv p ids wo hnd hwo ops hops hh).2
  have key : ∀ outs : List Out, cbEvents outs =
      (appEvents outs).filterMap (fun e => match e with | .callback t a => some (t, a) | _ => none) := by
    intro outs
    induction outs with
    | nil => rfl
    | cons o outs ih => cases o <;> simp [cbEvents, appEvents, ih]
  rw [key, key, h]

/-! ### a concrete history (non-vacuity) -/

def hA : HostId := ['h', 'A']
def hB : HostId := ['h', 'B']
def hW : HostId := ['w', 'o']
def nsR : Ns := ['/']
def sA : Sid := ['s', 'A']
def sB : Sid := ['s', 'B']
def tA : Eio := ['t', 'A']
def tB : Eio := ['t', 'B']
def rR : Room := ['r']

/-- `sA` lives on host A, `sB` on host B -/
def demoPlacement : Placement :=
  { home := fun s => if s = sA then hA else hB, ehome := fun t => if t = tA then hA else hB }

def demoOps : List PubSub.Op :=
  [ .connect hA nsR tA sA, .connect hB nsR tB sB,
    .enter hB nsR sA rR,                                  -- asked of the host where sA does NOT live
    .enter hB nsR sB rR,
    .emit (some hA) ['e', '1'] (.one (.int 1)) nsR (.one rR) .none none,
    .emit none ['e', '2'] .none nsR .all (.one sA) none,  -- the write-only manager, skipping sA
    .emit (some hB) ['e', '3'] .none nsR (.one sA) .none (some 7),
    .ack nsR sA 0 [.int 9],
    .disconnect hA nsR sB ]

theorem demoOps_ok : OpsOk demoPlacement [hA, hB] demoOps := by
  intro op hop
  simp only [demoOps, List.mem_cons, List.not_mem_nil, or_false] at hop
  rcases hop with rfl | rfl | rfl | rfl | rfl | rfl | rfl | rfl | rfl <;>
    simp [OpOk, demoPlacement, Target.ok] <;> decide

-- the history respects `HistOk`: fresh session ids, and `sA` is alone in its personal room when
-- host B emits to it with callback 7
theorem demoOps_hist : HistOk Single.init demoOps := by decide
example : (connSids demoOps).Nodup ∧ CbPersonal Single.init demoOps := by decide

-- what the two clients see, and that the callback ran on the issuing host B with the client's 9
example : seenBy sA (runSync (Cluster.init [hA, hB] hW) demoOps).2 =
    [.event nsR (.str ['e', '1']) [.int 1] false, .event nsR (.str ['e', '3']) [] true] := by rfl
example : seenBy sB (runSync (Cluster.init [hA, hB] hW) demoOps).2 =
    [.event nsR (.str ['e', '1']) [.int 1] false, .event nsR (.str ['e', '2']) [] false,
     .disconnect nsR] := by rfl
example : (runSync (Cluster.init [hA, hB] hW) demoOps).2.filter isCallbackOut =
    [.callback hB 7 [.int 9]] := by rfl
example : appEvents (runSync (Cluster.init [hA, hB] hW) demoOps).2 =
    appEvents (Single.run Single.init demoOps).2 := by rfl
-- `sync_equiv` applies to it, and what it equates is not empty: the callback with the client's 9,
-- then the disconnect handler of `sB`
example : (∀ x, seenBy x (runSync (Cluster.init [hA, hB] hW) demoOps).2 =
      seenBy x (Single.run Single.init demoOps).2) ∧
    appEvents (runSync (Cluster.init [hA, hB] hW) demoOps).2 = appEvents (Single.run Single.init demoOps).2 :=
  sync_equiv demoPlacement [hA, hB] hW (by decide) (by decide) demoOps demoOps_ok demoOps_hist
example : appEvents (Single.run Single.init demoOps).2 =
    [.callback 7 [.int 9], .disconnected sB nsR] := by rfl
-- a history outside `HistOk` on which the statement is indeed false: `sB` has entered the personal
-- room of `sA`, both acknowledge — the single server calls back twice, the cluster once
def aliasOps : List PubSub.Op :=
  [ .connect hA nsR tA sA, .connect hB nsR tB sB, .enter hA nsR sB sA,
    .emit (some hA) ['e'] .none nsR (.one sA) .none (some 7),
    .ack nsR sA 0 [.int 1], .ack nsR sB 0 [.int 2] ]
example : ¬ HistOk Single.init aliasOps := by decide
example : cbEvents (Single.run Single.init aliasOps).2 = [(7, [.int 1]), (7, [.int 2])] := by rfl
example : cbEvents (runSync (Cluster.init [hA, hB] hW) aliasOps).2 = [(7, [.int 1])] := by rfl

/-! ## eligible — who receives an emit when a host applies it -/

/-- **Exactly the eligible clients, once each, at the moment of application.**  When host `h`
    applies another host's emit (at whatever moment its listener gets to it), a client of `h`
    receives the event exactly once if, on `h` at that moment, it is connected to the namespace, is
    a member of an addressed room and is not skipped — and otherwise not at all. -/
theorem eligible (h : Host) (hinv : Inv h.rooms) (o : HostId) (ev : Str) (d : Data) (ns : Ns)
    (to : Target) (skip : Skip) (cb : Option (Str × Ns × Nat)) (ho : o ≠ h.id) (hok : Target.ok to)
    (sid : Sid) :
    ((C03.connected h.rooms ns sid ∧ C03.addressedBy h.rooms ns sid to ∧ sid ∉ skip.toList) →
      seenBy sid (listenMsg h (.emit o ev d ns to skip cb)).outs =
        [Seen.event ns (.str ev) d.pack cb.isSome]) ∧
    (¬ (C03.connected h.rooms ns sid ∧ C03.addressedBy h.rooms ns sid to ∧ sid ∉ skip.toList) →
      seenBy sid (listenMsg h (.emit o ev d ns to skip cb)).outs = []) := by
  have he := (listenMsg_effect h hinv (.emit o ev d ns to skip cb) rfl
    (fun _ _ _ _ _ _ _ heq => by cases heq; exact hok)).2.2.2.2.1 sid
  rw [he]
  simp only [seenAfter, if_neg ho, seenEmit]
  have hiff := C03.recipients_exact hinv ns to skip.toList sid
  exact ⟨fun hx => by rw [if_pos (hiff.mpr hx)], fun hx => by rw [if_neg (fun hc => hx (hiff.mp hc))]⟩

/-- the same on the issuing host, which applies the emit to its own clients before publishing -/
theorem eligible_local (h : Host) (hinv : Inv h.rooms) (ev : Str) (d : Data) (ns : Ns)
    (to : Target) (skip : Skip) (cb : Option Nat) (hok : Target.ok to)
    (hcb : cb.isSome → ∃ r, to = .one r) (sid : Sid) :
    ((C03.connected h.rooms ns sid ∧ C03.addressedBy h.rooms ns sid to ∧ sid ∉ skip.toList) →
      seenBy sid (apiEmit h true ev d ns to skip cb).outs =
        [Seen.event ns (.str ev) d.pack cb.isSome]) ∧
    (¬ (C03.connected h.rooms ns sid ∧ C03.addressedBy h.rooms ns sid to ∧ sid ∉ skip.toList) →
      seenBy sid (apiEmit h true ev d ns to skip cb).outs = []) := by
  rw [(apiEmit_effect h hinv ev d ns to skip cb hok hcb).2.2.2.2.2.1 sid]
  simp only [seenEmit]
  have hiff := C03.recipients_exact hinv ns to skip.toList sid
  exact ⟨fun hx => by rw [if_pos (hiff.mpr hx)], fun hx => by rw [if_neg (fun hc => hx (hiff.mp hc))]⟩

/-- a host never applies its own emit a second time: the echo is dropped -/
theorem own_echo_dropped (h : Host) (m : Msg) (hm : m.isCb = false) (ho : m.origin = some h.id) :
    listenMsg h m = { h := h } := listenMsg_own h m hm ho

/-! ## at_most_once — any consumption schedule -/

/-- a history in which every `connect` happens on the host where the placement puts the session and
    emit targets are proper; `deliver` / `drain` may come anywhere, with any `k` -/
def OpsFine (home : Sid → HostId) (ops : List PubSub.Op) : Prop := ∀ op ∈ ops, OpFine home op

/-- how many emits of the history use the event name `ev` -/
def emitsNamed (ev : Str) : List PubSub.Op → Nat
  | [] => 0
  | op :: ops => opBudget ev op + emitsNamed ev ops

theorem running_init (home : Sid → HostId) (ids : List HostId) (wo : HostId) (hnd : ids.Nodup) :
    Running home (Cluster.init ids wo) := by
  have hids : (Cluster.init ids wo).hosts.map Host.id = ids := by
    simp only [Cluster.init, List.map_map]
    exact List.map_id' ids
  have hrooms : ∀ h ∈ (Cluster.init ids wo).hosts, h.rooms = [] ∧ h.cursor = 0 := by
    intro h hh
    simp only [Cluster.init, List.mem_map] at hh
    obtain ⟨i, _, rfl⟩ := hh
    exact ⟨rfl, rfl⟩
  refine ⟨by rw [hids]; exact hnd, ?_, ?_, ?_, EmitsOk.nil, rfl⟩
  · intro h hh; rw [(hrooms h hh).1]; exact Inv.nil
  · intro h hh e he; rw [(hrooms h hh).1] at he; cases he
  · intro h hh; rw [(hrooms h hh).2]; exact Nat.zero_le _

/-- From any state a run can reach, under ANY interleaving of operations with per-host
    consumption of the channel: a client sees the event `ev` at most as often as the history emits
    it, plus the copies already in flight towards its host. -/
theorem at_most_once_from (home : Sid → HostId) (c : Cluster) (hrun : Running home c)
    (ops : List PubSub.Op) (hops : OpsFine home ops) (ev : Str) (sid : Sid) :
    evCount ev (seenBy sid (PubSub.run c ops).2) ≤ emitsNamed ev ops + pendingEv home ev sid c ∧
    Running home (PubSub.run c ops).1 := by
  induction ops generalizing c with
  | nil => exact ⟨by simp [PubSub.run, seenBy, evCount], hrun⟩
  | cons op ops ih =>
    obtain ⟨h1, h2⟩ := once_step c hrun op (hops op List.mem_cons_self) ev sid
    obtain ⟨i1, i2⟩ := ih (step c op).1 h1 (fun o ho => hops o (List.mem_cons_of_mem _ ho))
    refine ⟨?_, i2⟩
    show evCount ev (seenBy sid ((step c op).2 ++ (PubSub.run (step c op).1 ops).2)) ≤ _
    rw [seenBy_append, evCount_append]
    simp only [emitsNamed]
    omega

/-- **Each emit reaches each client at most once** — also on the issuing host, which applies it
    locally and later meets its own message on the channel — for every placement of clients on
    hosts and every consumption schedule: if one emit of the history is called `ev`, no client
    ever sees `ev` twice. -/
theorem at_most_once (home : Sid → HostId) (ids : List HostId) (wo : HostId) (hnd : ids.Nodup)
    (ops : List PubSub.Op) (hops : OpsFine home ops) (ev : Str) (hone : emitsNamed ev ops ≤ 1)
    (sid : Sid) :
    evCount ev (seenBy sid (PubSub.run (Cluster.init ids wo) ops).2) ≤ 1 := by
  have h := (at_most_once_from home _ (running_init home ids wo hnd) ops hops ev sid).1
  have hp : pendingEv home ev sid (Cluster.init ids wo) = 0 := by
    unfold pendingEv
    split
    · rfl
    · simp [Cluster.init]
  omega

/-- the structural reason, stated on its own: a `deliver` applies exactly the next entries of the
    channel, in order, and moves the cursor past them — no entry is ever applied twice by a host -/
theorem deliver_consumes_next (chan : List Msg) (k : Nat) (h : Host) :
    (deliverOn chan k h).h.cursor = h.cursor + ((chan.drop h.cursor).take k).length ∧
    (deliverOn chan k h).outs = (catchUp h ((chan.drop h.cursor).take k)).outs := ⟨rfl, rfl⟩

-- non-vacuity: a schedule with delayed delivery; `e1` is emitted once and seen once by each member
def lazyOps : List PubSub.Op :=
  [ .connect hA nsR tA sA, .connect hB nsR tB sB, .enter hA nsR sA rR, .enter hB nsR sB rR,
    .emit (some hA) ['e', '1'] .none nsR (.one rR) .none none,
    .deliver hB 1, .deliver hA 5, .deliver hB 5, .deliver hB 5, .drain ]

example : OpsFine demoPlacement.home lazyOps := by
  intro op hop
  simp only [lazyOps, List.mem_cons, List.not_mem_nil, or_false] at hop
  rcases hop with rfl | rfl | rfl | rfl | rfl | rfl | rfl | rfl | rfl | rfl <;>
    simp [OpFine, demoPlacement, Target.ok] <;> decide
example : emitsNamed ['e', '1'] lazyOps = 1 := by decide
example : evCount ['e', '1'] (seenBy sA (PubSub.run (Cluster.init [hA, hB] hW) lazyOps).2) = 1 := by decide
example : evCount ['e', '1'] (seenBy sB (PubSub.run (Cluster.init [hA, hB] hW) lazyOps).2) = 1 := by decide

/-! ## callback_once — any consumption schedule -/

/-- how many emits of the history carry the callback `tok` -/
def regsOf (tok : Nat) : List PubSub.Op → Nat
  | [] => 0
  | .emit _ _ _ _ _ _ (some t) :: ops => (if t = tok then 1 else 0) + regsOf tok ops
  | _ :: ops => regsOf tok ops

/-- every emit that carries `tok` is issued through host `v` -/
def RegVia (tok : Nat) (v : HostId) (ops : List PubSub.Op) : Prop :=
  ∀ op ∈ ops, ∀ via ev d ns to skip, op = PubSub.Op.emit via ev d ns to skip (some tok) → via = some v

theorem notReg_of_regsOf_zero {tok : Nat} {op : PubSub.Op} {ops : List PubSub.Op}
    (h : regsOf tok (op :: ops) = 0) : NotReg tok op ∧ regsOf tok ops = 0 := by
  cases op with
  | emit via ev d ns to skip cb =>
    cases cb with
    | none => exact ⟨by simp [NotReg], h⟩
    | some t =>
      simp only [regsOf] at h
      by_cases ht : t = tok
      · simp [ht] at h
      · simp only [ht, if_false, Nat.zero_add] at h
        exact ⟨by simp [NotReg, ht], h⟩
  | _ => exact ⟨trivial, h⟩

/-- once the entry is gone and no emit carries `tok` any more, it is never invoked again -/
theorem callback_never_without_entry (home : Sid → HostId) (tok : Nat) (c : Cluster)
    (hrun : Running home c) (ops : List PubSub.Op) (hops : OpsFine home ops) (hno : TokNowhere tok c.hosts)
    (hreg : regsOf tok ops = 0) : cbCount tok (PubSub.run c ops).2 = 0 := by
  induction ops generalizing c with
  | nil => rfl
  | cons op ops ih =>
    obtain ⟨hnr, hreg'⟩ := notReg_of_regsOf_zero hreg
    have hfine := hops op List.mem_cons_self
    have hstep := tok_step tok [] [] 0 c hrun op hfine hnr (hno.tokAt [] [] 0)
    obtain ⟨h0, hno'⟩ := hstep.2.2.2.2 hno
    have hrun' := (once_step c hrun op hfine [] []).1
    have := ih (step c op).1 hrun' (fun o ho => hops o (List.mem_cons_of_mem _ ho)) hno' hreg'
    show cbCount tok ((step c op).2 ++ (PubSub.run (step c op).1 ops).2) = 0
    rw [cbCount_append]; omega

/-- while the entry sits in its slot on host `v`: at most one invocation, on `v` -/
theorem callback_once_stored (home : Sid → HostId) (tok : Nat) (v : HostId) (k : Str) (i : Nat)
    (c : Cluster) (hrun : Running home c) (ops : List PubSub.Op) (hops : OpsFine home ops)
    (ht : TokAt tok v k i c.hosts) (hreg : regsOf tok ops = 0) :
    cbCount tok (PubSub.run c ops).2 ≤ 1 ∧ CbOn tok v (PubSub.run c ops).2 := by
  induction ops generalizing c with
  | nil => exact ⟨by simp [PubSub.run, cbCount], CbOn.of_count_zero rfl⟩
  | cons op ops ih =>
    obtain ⟨hnr, hreg'⟩ := notReg_of_regsOf_zero hreg
    have hfine := hops op List.mem_cons_self
    obtain ⟨s1, s2, s3, s4, _⟩ := tok_step tok v k i c hrun op hfine hnr ht
    have hrun' := (once_step c hrun op hfine [] []).1
    have hops' : OpsFine home ops := fun o ho => hops o (List.mem_cons_of_mem _ ho)
    show cbCount tok ((step c op).2 ++ (PubSub.run (step c op).1 ops).2) ≤ 1 ∧
      CbOn tok v ((step c op).2 ++ (PubSub.run (step c op).1 ops).2)
    rw [cbCount_append]
    by_cases hc : cbCount tok (step c op).2 = 1
    · have hz := callback_never_without_entry home tok _ hrun' ops hops' (s4 hc) hreg'
      exact ⟨by omega, s3.append (CbOn.of_count_zero hz)⟩
    · obtain ⟨i1, i2⟩ := ih (step c op).1 hrun' hops' s1 hreg'
      exact ⟨by omega, s3.append i2⟩

/-- **The callback given to an emit is invoked at most once, and only by the issuing server** —
    for every placement of clients and every consumption schedule: if at most one emit of the
    history carries `tok`, through host `v`, then `tok` is invoked at most once, on `v`. -/
theorem callback_once (home : Sid → HostId) (tok : Nat) (v : HostId) (c : Cluster)
    (hrun : Running home c) (ops : List PubSub.Op) (hops : OpsFine home ops) (hno : TokNowhere tok c.hosts)
    (hreg : regsOf tok ops ≤ 1) (hvia : RegVia tok v ops) :
    cbCount tok (PubSub.run c ops).2 ≤ 1 ∧ CbOn tok v (PubSub.run c ops).2 := by
  induction ops generalizing c with
  | nil => exact ⟨by simp [PubSub.run, cbCount], CbOn.of_count_zero rfl⟩
  | cons op ops ih =>
    have hfine := hops op List.mem_cons_self
    have hrun' := (once_step c hrun op hfine [] []).1
    have hops' : OpsFine home ops := fun o ho => hops o (List.mem_cons_of_mem _ ho)
    have hvia' : RegVia tok v ops := fun o ho => hvia o (List.mem_cons_of_mem _ ho)
    show cbCount tok ((step c op).2 ++ (PubSub.run (step c op).1 ops).2) ≤ 1 ∧
      CbOn tok v ((step c op).2 ++ (PubSub.run (step c op).1 ops).2)
    rw [cbCount_append]
    by_cases hr : ∃ via ev d ns to skip, op = PubSub.Op.emit via ev d ns to skip (some tok)
    · -- the emit that carries `tok`
      obtain ⟨via, ev, d, ns, to, skip, rfl⟩ := hr
      have hv : via = some v := hvia _ List.mem_cons_self via ev d ns to skip rfl
      subst hv
      have hreg' : regsOf tok ops = 0 := by simp [regsOf] at hreg; omega
      obtain ⟨k, i, t1, t2⟩ := tok_register tok c hrun v ev d ns to skip hno
      obtain ⟨a1, a2⟩ := callback_once_stored home tok v k i _ hrun' ops hops' t1 hreg'
      exact ⟨by omega, (CbOn.of_count_zero t2).append a2⟩
    · have hnr : NotReg tok op := by
        cases op with
        | emit via ev d ns to skip cb =>
          intro hc
          exact hr ⟨via, ev, d, ns, to, skip, by rw [hc]⟩
        | _ => trivial
      have hreg' : regsOf tok ops ≤ 1 := by
        cases op with
        | emit via ev d ns to skip cb =>
          cases cb with
          | none => exact hreg
          | some t => simp only [regsOf] at hreg; omega
        | _ => exact hreg
      obtain ⟨h0, hno'⟩ := (tok_step tok v [] 0 c hrun op hfine hnr (hno.tokAt v [] 0)).2.2.2.2 hno
      obtain ⟨i1, i2⟩ := ih (step c op).1 hrun' hops' hno' hreg' hvia'
      exact ⟨by omega, (CbOn.of_count_zero h0).append i2⟩

/-- from the empty cluster -/
theorem callback_once_init (home : Sid → HostId) (ids : List HostId) (wo : HostId) (hnd : ids.Nodup)
    (tok : Nat) (v : HostId) (ops : List PubSub.Op) (hops : OpsFine home ops)
    (hreg : regsOf tok ops ≤ 1) (hvia : RegVia tok v ops) :
    cbCount tok (PubSub.run (Cluster.init ids wo) ops).2 ≤ 1 ∧
    CbOn tok v (PubSub.run (Cluster.init ids wo) ops).2 := by
  refine callback_once home tok v _ (running_init home ids wo hnd) ops hops ?_ hreg hvia
  intro h hh k i hx
  simp only [Cluster.init, List.mem_map] at hh
  obtain ⟨j, _, rfl⟩ := hh
  cases hx

-- non-vacuity: the demo history (run without the automatic drains, then drained) invokes callback 7
-- exactly once, on host B which issued it
example : regsOf 7 (demoOps ++ [.drain]) = 1 := by decide
example : RegVia 7 hB (demoOps ++ [.drain]) := by
  intro op hop via ev d ns to skip he
  subst he
  simp [demoOps] at hop
  obtain ⟨rfl, _⟩ := hop
  rfl
example : cbCount 7 (runSync (Cluster.init [hA, hB] hW) demoOps).2 = 1 := by decide

/-! ## unraced_exact -/

/-- **A message that no membership change races is delivered exactly as one server would.**
    Let `vs` be the hosts' room tables *as they are when each host applies the emit* and `s` the
    table of the single server at the moment of publication; "not raced" is: these are still the
    partition of `s` (`Placed`, `Union` — no membership operation has been applied on a host
    between publication and its application).  Then the host that applies the emit sends every
    client that lives on it exactly what the single server sends that client, and nothing to
    anybody else.  (Each host applies each entry once — `at_most_once` — so over all hosts every
    client receives exactly the single server's packets.) -/
theorem unraced_exact (p : Placement) (vs : List View) (s : Rooms.St) (hp : Placed p.home p.ehome vs)
    (hu : Union vs s) (hs : Inv s) (h : Host) (hv : h.view ∈ vs) (o : HostId) (ev : Str) (d : Data)
    (ns : Ns) (to : Target) (skip : Skip) (cb : Option (Str × Ns × Nat)) (ho : o ≠ h.id)
    (hok : Target.ok to) (x : Sid) :
    seenBy x (listenMsg h (.emit o ev d ns to skip cb)).outs =
      if p.home x = h.id then seenEmit s ns to skip.toList (.str ev) d.pack cb.isSome x else [] := by
  have hinv : Inv h.rooms := hp.inv h.view hv
  have he := (listenMsg_effect h hinv (.emit o ev d ns to skip cb) rfl
    (fun _ _ _ _ _ _ _ heq => by cases heq; exact hok)).2.2.2.2.1 x
  rw [he]
  simp only [seenAfter, if_neg ho]
  have hhome : HomeOk p.home h.id h.rooms := hp.home h.view hv
  by_cases hx : p.home x = h.id
  · rw [if_pos hx]
    have hsplit := seenEmit_union_split hp hu hs ns to skip.toList (.str ev) d.pack cb.isSome x h.view hv
    have hothers : vs.flatMap (fun v => if h.view.1 = v.1 then [] else
        seenEmit v.2 ns to skip.toList (.str ev) d.pack cb.isSome x) = [] := by
      rw [List.flatMap_eq_nil_iff]
      intro v hvv
      split
      · rfl
      · rename_i hne
        exact seenEmit_nil_of_elsewhere (hp.inv v hvv) (hp.home v hvv)
          (fun hc => hne (by rw [← hc, hx]; rfl)) ns to _ _ _ _
    rw [hothers, List.append_nil] at hsplit
    exact hsplit
  · rw [if_neg hx]
    exact seenEmit_nil_of_elsewhere hinv hhome hx ns to _ _ _ _

/-- the same for the issuing host's local application -/
theorem unraced_exact_local (p : Placement) (vs : List View) (s : Rooms.St)
    (hp : Placed p.home p.ehome vs) (hu : Union vs s) (hs : Inv s) (h : Host) (hv : h.view ∈ vs)
    (ev : Str) (d : Data) (ns : Ns) (to : Target) (skip : Skip) (cb : Option Nat) (hok : Target.ok to)
    (hcb : cb.isSome → ∃ r, to = .one r) (x : Sid) :
    seenBy x (apiEmit h true ev d ns to skip cb).outs =
      if p.home x = h.id then seenEmit s ns to skip.toList (.str ev) d.pack cb.isSome x else [] := by
  have hinv : Inv h.rooms := hp.inv h.view hv
  rw [(apiEmit_effect h hinv ev d ns to skip cb hok hcb).2.2.2.2.2.1 x]
  have hhome : HomeOk p.home h.id h.rooms := hp.home h.view hv
  by_cases hx : p.home x = h.id
  · rw [if_pos hx]
    have hsplit := seenEmit_union_split hp hu hs ns to skip.toList (.str ev) d.pack cb.isSome x h.view hv
    have hothers : vs.flatMap (fun v => if h.view.1 = v.1 then [] else
        seenEmit v.2 ns to skip.toList (.str ev) d.pack cb.isSome x) = [] := by
      rw [List.flatMap_eq_nil_iff]
      intro v hvv
      split
      · rfl
      · rename_i hne
        exact seenEmit_nil_of_elsewhere (hp.inv v hvv) (hp.home v hvv)
          (fun hc => hne (by rw [← hc, hx]; rfl)) ns to _ _ _ _
    rw [hothers, List.append_nil] at hsplit
    exact hsplit
  · rw [if_neg hx]
    exact seenEmit_nil_of_elsewhere hinv hhome hx ns to _ _ _ _

/-! ## the callback relay: the client's arguments, and exactly once when acknowledged -/

/-- **The arguments are the client's.**  Whatever an ACK packet sets off on the client's host — the
    user callback directly, or (through the relay entry) a `callback` message for the issuing host —
    carries exactly the arguments of that ACK ... -/
theorem callback_args_from_ack (h : Host) (sid : Sid) (id : Nat) (args : List J) :
    CarriesArgs args (apiAck h sid id args) := by
  rw [apiAck_eq]; exact trigger_carries chainFuel h sid id args

/-- ... and whatever a `callback` message sets off on the host that consumes it carries exactly the
    arguments in the message.  (Together: from the client's ACK to the invocation on the issuing
    host the arguments are never altered.) -/
theorem callback_args_relayed (h : Host) (origin : Option HostId) (key : Str) (ns : Ns) (id : Nat)
    (args : List J) : CarriesArgs args (listenMsg h (.callback origin key ns id args)) := by
  rw [listenMsg_callback]
  split
  · exact trigger_carries chainFuel h key id args
  · exact ⟨fun o ho => (nomatch ho), fun m hm => (nomatch hm)⟩

/-- **Exactly once when the client ACKs and the hosts drain**, for every placement (the client's
    host `hs` and the issuing host `hv` may be the same or different, any number of other hosts):
    in a drained cluster in which the relay entry of the acknowledged event on `hs` is linked to the
    user callback `tok` on `hv` — the configuration that `emit(..., to=sid, callback=cb)` via `hv`
    plus a drain creates, see the example — the ACK followed by one drain pass invokes exactly one
    callback: `tok`, on `hv`, with the client's arguments.  With `callback_once` (never more than
    once, never elsewhere, under any schedule) this is "exactly once, on the issuing server, with
    the remote client's acknowledgement". -/
theorem callback_exactly_once_when_linked (home : Sid → HostId) (c : Cluster) (hrun : Running home c)
    (hdr : ∀ h ∈ c.hosts, h.cursor = c.chan.length) (hs hv : Host) (hhs : hs ∈ c.hosts)
    (hhv : hv ∈ c.hosts) (ns : Ns) (sid : Sid) (n ic : Nat) (args : List J) (k : Str) (ns' : Ns)
    (id0 tok : Nat) (hconn : hs.connected ns sid = true) (hnth : nthAsked c.asked sid n = some ic)
    (hrel : hs.cbs sid ic = some (.relay (some hv.id) k ns' id0))
    (huser : hv.cbs k id0 = some (.user tok)) :
    cbOuts (runSync c [.ack ns sid n args]).2 = [.callback hv.id tok args] := by
  have := callback_delivered c hrun hdr hs hv hhs hhv ns sid n ic args k ns' id0 tok hconn hnth hrel huser
  show cbOuts ((step c (.ack ns sid n args)).2 ++ (step (step c (.ack ns sid n args)).1 .drain).2 ++ []) = _
  rw [List.append_nil]; exact this

-- non-vacuity: host B emits to client `sA` (which lives on host A) with callback 7, everybody drains:
-- the tables are linked as the theorem requires, and the ACK is delivered across the channel
def linkedOps : List PubSub.Op :=
  [ .connect hA nsR tA sA, .connect hB nsR tB sB,
    .emit (some hB) ['e', '3'] .none nsR (.one sA) .none (some 7), .drain ]
def linked : Cluster := (PubSub.run (Cluster.init [hA, hB] hW) linkedOps).1
def linkedA : Host := linked.hosts.head!
def linkedB : Host := linked.hosts.getLast!

example : cbOuts (runSync linked [.ack nsR sA 0 [.int 9]]).2 = [.callback hB 7 [.int 9]] := by
  have hfine : OpsFine demoPlacement.home linkedOps := by
    intro op hop
    simp only [linkedOps, List.mem_cons, List.not_mem_nil, or_false] at hop
    rcases hop with rfl | rfl | rfl | rfl <;> simp [OpFine, demoPlacement, Target.ok] <;> decide
  have hrun : Running demoPlacement.home linked :=
    (at_most_once_from demoPlacement.home _ (running_init _ [hA, hB] hW (by decide)) linkedOps hfine [] []).2
  have hhosts : linked.hosts = [linkedA, linkedB] := rfl
  have hdr : ∀ h ∈ linked.hosts, h.cursor = linked.chan.length := by
    intro h hh
    rw [hhosts] at hh
    simp only [List.mem_cons, List.not_mem_nil, or_false] at hh
    rcases hh with rfl | rfl <;> rfl
  exact callback_exactly_once_when_linked demoPlacement.home linked hrun hdr linkedA linkedB
    (by rw [hhosts]; simp) (by rw [hhosts]; simp) nsR sA 0 1 [.int 9] sA nsR 1 7 rfl rfl rfl rfl

/-! ## remote_ops_local_effect -/

/-- **A published `enter_room` / `leave_room` / `disconnect` changes state only on the host where
    the session is connected**: everywhere else the entry is a no-op. -/
theorem remote_ops_local_effect (h : Host) (o : HostId) (sid : Sid) (ns : Ns)
    (room : Room) (hn : h.connected ns sid = false) :
    listenMsg h (.enterRoom o sid ns room) = { h := h } ∧
    listenMsg h (.leaveRoom o sid ns room) = { h := h } ∧
    listenMsg h (.disconnect o sid ns) = { h := h } := by
  have hq : eioOf h.rooms ns sid = none := by
    simpa [Host.connected] using hn
  by_cases ho : o = h.id
  · refine ⟨listenMsg_own h _ rfl (by simp [Msg.origin, ho]), listenMsg_own h _ rfl (by simp [Msg.origin, ho]),
      listenMsg_own h _ rfl (by simp [Msg.origin, ho])⟩
  · refine ⟨?_, ?_, ?_⟩
    · have hd := dispatch_enterRoom h o sid ns room ho
      rw [hq] at hd
      rw [listenMsg_eq_dispatch (by rw [hd]), hd]
    · have hd := dispatch_leaveRoom h o sid ns room ho
      rw [hn] at hd
      rw [listenMsg_eq_dispatch (by rw [hd]; rfl), hd]; rfl
    · have hd := dispatch_disconnect h o sid ns ho
      have hl : localDisconnect h sid ns = { h := h } := by simp [localDisconnect, hq]
      rw [listenMsg_eq_dispatch (by rw [hd, hl]), hd, hl]

/-- ... and where it is connected, it has the effect of the local operation -/
theorem remote_ops_effect_where_connected (h : Host) (hinv : Inv h.rooms) (o : HostId) (ho : o ≠ h.id)
    (sid : Sid) (ns : Ns) (room : Room) :
    (listenMsg h (.enterRoom o sid ns room)).h.rooms = enterLocal h.rooms ns sid room ∧
    (listenMsg h (.leaveRoom o sid ns room)).h.rooms = Rooms.leave h.rooms ns sid (some room) ∧
    (listenMsg h (.disconnect o sid ns)).h.rooms = Rooms.disconnect h.rooms ns sid ∧
    (listenMsg h (.closeRoom o ns room)).h.rooms = Rooms.closeRoom h.rooms ns room := by
  have e1 := (listenMsg_effect h hinv (.enterRoom o sid ns room) rfl (fun _ _ _ _ _ _ _ heq => by cases heq)).1
  have e2 := (listenMsg_effect h hinv (.leaveRoom o sid ns room) rfl (fun _ _ _ _ _ _ _ heq => by cases heq)).1
  have e3 := (listenMsg_effect h hinv (.disconnect o sid ns) rfl (fun _ _ _ _ _ _ _ heq => by cases heq)).1
  have e4 := (listenMsg_effect h hinv (.closeRoom o ns room) rfl (fun _ _ _ _ _ _ _ heq => by cases heq)).1
  simp only [roomsAfter, if_neg ho] at e1 e2 e3 e4
  exact ⟨e1, e2, e3, e4⟩

-- non-vacuity: after the demo history `sA` lives on host A only; an `enter_room` for it published
-- by B changes A and nothing on B
def demoCluster : Cluster := (runSync (Cluster.init [hA, hB] hW) (demoOps.take 4)).1
example : (demoCluster.hosts.map (fun h => h.connected nsR sA)) = [true, false] := by decide
example : (demoCluster.hosts.map (fun h => (listenMsg h (.enterRoom hW sA nsR ['q'])).h.rooms.length))
    = [4, 3] := by decide

end Sio.C07
