/-
  C07 — Multi-host pub/sub: a cluster behaves like one server holding all clients.

  Model: `Sio/Model/PubSub.lean` — `Cluster` (hosts with their own room tables and callback tables,
  the ordered channel, one cursor per host, a write-only manager), `step` (the public methods of
  `PubSubManager` / `AsyncPubSubManager` as the server calls them, `deliver`, `drain`), `Single`
  (ONE server with a plain `Manager` holding all the clients).  Helper lemmas:
  `Sio/Lemmas/PubSub*.lean`.  Nothing is bounded: any number of hosts, clients, rooms, namespaces,
  histories of any length, any placement of clients on hosts.
-/
import Sio.Lemmas.PubSubSyncOps
import Sio.Props.C03
namespace Sio.C07
open Sio.PubSub Sio.Rooms

/-! ## Vocabulary -/

/-- a placement: on which host every session id and every transport lives -/
structure Placement where
  home : Sid → HostId
  ehome : Eio → HostId

/-- every operation of the history names existing hosts, a `connect` happens where the placement
    says, emit targets are proper (`to=[]` is not a target), and an emit with a callback goes
    through a host and names one room -/
def OpsOk (p : Placement) (ids : List HostId) (ops : List PubSub.Op) : Prop :=
  ∀ op ∈ ops, OpOk p.home p.ehome ids op

/-- a fresh cluster: hosts without clients, an empty channel -/
def Cluster.init (ids : List HostId) (wo : HostId) : Cluster :=
  { hosts := ids.map (fun i => { id := i }), wo := { id := wo } }

def Single.init : Single := { srv := { id := [] } }

theorem sim_init (p : Placement) (ids : List HostId) (wo : HostId) (hnd : ids.Nodup)
    (hwo : wo ∉ ids) : Sim p.home p.ehome (Cluster.init ids wo) Single.init := by
  have hids : (Cluster.init ids wo).hosts.map Host.id = ids := by
    simp only [Cluster.init, List.map_map]
    exact List.map_id' ids
  have hviews : ∀ v ∈ (Cluster.init ids wo).views, v.2 = [] := by
    intro v hv
    simp only [Cluster.views, Cluster.init, List.map_map, List.mem_map] at hv
    obtain ⟨i, _, rfl⟩ := hv
    rfl
  refine ⟨⟨?_, ?_, ?_, ?_⟩, Inv.nil, ?_, ?_, EmitsOk.nil, ?_, rfl⟩
  · rw [views_fst, hids]; exact hnd
  · intro v hv; rw [hviews v hv]; exact Inv.nil
  · intro v hv e he; rw [hviews v hv] at he; cases he
  · intro v hv e he; rw [hviews v hv] at he; cases he
  · intro e
    constructor
    · intro he; cases he
    · rintro ⟨v, hv, he⟩; rw [hviews v hv] at he; cases he
  · intro h hh
    simp only [Cluster.init, List.mem_map] at hh
    obtain ⟨i, _, rfl⟩ := hh
    exact ⟨Nat.le_refl _, AllCb.nil⟩
  · rw [hids]; exact hwo

/-! ## sync_equiv — immediate delivery: exact equivalence with one server -/

/-- **Frames and disconnects.**  From any pair of related states, for every history whose
    operations are each followed by a drain pass: every client receives exactly the packets (in
    its own order, ack ids abstracted to "asks for an acknowledgement") that it would receive
    from a single server holding all the clients, the same disconnect handlers run in the same
    order, and the states are related again — for every placement. -/
theorem sync_equiv_frames_from (p : Placement) (c : Cluster) (s : Single)
    (hs : Sim p.home p.ehome c s) (ops : List PubSub.Op)
    (hops : OpsOk p (c.hosts.map Host.id) ops) :
    (∀ x, seenBy x (runSync c ops).2 = seenBy x (Single.run s ops).2) ∧
    discEvents (runSync c ops).2 = discEvents (Single.run s ops).2 ∧
    Sim p.home p.ehome (runSync c ops).1 (Single.run s ops).1 := by
  induction ops generalizing c s with
  | nil => exact ⟨fun _ => rfl, rfl, hs⟩
  | cons op ops ih =>
    have hop : OpOk p.home p.ehome (c.views.map Prod.fst) op := by
      rw [views_fst]; exact hops op List.mem_cons_self
    obtain ⟨h1, h2, h3, h4⟩ := sim_step hs op hop
    have hops' : OpsOk p ((step (step c op).1 .drain).1.hosts.map Host.id) ops := by
      rw [h4]; exact fun o ho => hops o (List.mem_cons_of_mem _ ho)
    obtain ⟨i1, i2, i3⟩ := ih _ _ h1 hops'
    refine ⟨?_, ?_, i3⟩
    · intro x
      show seenBy x ((step c op).2 ++ (step (step c op).1 .drain).2 ++ _) = seenBy x ((s.step op).2 ++ _)
      rw [seenBy_append, seenBy_append x (s.step op).2, h2 x, i1 x]
    · show discEvents ((step c op).2 ++ (step (step c op).1 .drain).2 ++ _) = discEvents ((s.step op).2 ++ _)
      rw [discEvents_append, discEvents_append (s.step op).2, h3, i2]

/-- ... in particular from the empty cluster against the empty server. -/
theorem sync_equiv_frames (p : Placement) (ids : List HostId) (wo : HostId) (hnd : ids.Nodup)
    (hwo : wo ∉ ids) (ops : List PubSub.Op) (hops : OpsOk p ids ops) (x : Sid) :
    seenBy x (runSync (Cluster.init ids wo) ops).2 = seenBy x (Single.run Single.init ops).2 ∧
    discEvents (runSync (Cluster.init ids wo) ops).2 = discEvents (Single.run Single.init ops).2 := by
  have hids : (Cluster.init ids wo).hosts.map Host.id = ids := by
    simp only [Cluster.init, List.map_map]
    exact List.map_id' ids
  obtain ⟨h1, h2, _⟩ := sync_equiv_frames_from p _ _ (sim_init p ids wo hnd hwo) ops (by rw [hids]; exact hops)
  exact ⟨h1 x, h2⟩

/-! ### a concrete history (non-vacuity) -/

def hA : HostId := ['h', 'A']
def hB : HostId := ['h', 'B']
def hW : HostId := ['w', 'o']
def nsR : Ns := ['/']
def sA : Sid := ['s', 'A']
def sB : Sid := ['s', 'B']
def tA : Eio := ['t', 'A']
def tB : Eio := ['t', 'B']
def rR : Room := ['r']

/-- `sA` lives on host A, `sB` on host B -/
def demoPlacement : Placement :=
  { home := fun s => if s = sA then hA else hB, ehome := fun t => if t = tA then hA else hB }

def demoOps : List PubSub.Op :=
  [ .connect hA nsR tA sA, .connect hB nsR tB sB,
    .enter hB nsR sA rR,                                  -- asked of the host where sA does NOT live
    .enter hB nsR sB rR,
    .emit (some hA) ['e', '1'] (.one (.int 1)) nsR (.one rR) .none none,
    .emit none ['e', '2'] .none nsR .all (.one sA) none,  -- the write-only manager, skipping sA
    .emit (some hB) ['e', '3'] .none nsR (.one sA) .none (some 7),
    .ack nsR sA 0 [.int 9],
    .disconnect hA nsR sB ]

example : OpsOk demoPlacement [hA, hB] demoOps := by
  intro op hop
  simp only [demoOps, List.mem_cons, List.not_mem_nil, or_false] at hop
  rcases hop with rfl | rfl | rfl | rfl | rfl | rfl | rfl | rfl | rfl <;>
    simp [OpOk, demoPlacement, Target.ok] <;> decide

-- what the two clients see, and that the callback ran on the issuing host B with the client's 9
example : seenBy sA (runSync (Cluster.init [hA, hB] hW) demoOps).2 =
    [.event nsR (.str ['e', '1']) [.int 1] false, .event nsR (.str ['e', '3']) [] true] := by rfl
example : seenBy sB (runSync (Cluster.init [hA, hB] hW) demoOps).2 =
    [.event nsR (.str ['e', '1']) [.int 1] false, .event nsR (.str ['e', '2']) [] false,
     .disconnect nsR] := by rfl
example : (runSync (Cluster.init [hA, hB] hW) demoOps).2.filter isCallbackOut =
    [.callback hB 7 [.int 9]] := by rfl
example : appEvents (runSync (Cluster.init [hA, hB] hW) demoOps).2 =
    appEvents (Single.run Single.init demoOps).2 := by rfl

/-! ## eligible — who receives an emit when a host applies it -/

/-- **Exactly the eligible clients, once each, at the moment of application.**  When host `h`
    applies another host's emit (at whatever moment its listener gets to it), a client of `h`
    receives the event exactly once if, on `h` at that moment, it is connected to the namespace, is
    a member of an addressed room and is not skipped — and otherwise not at all. -/
theorem eligible (h : Host) (hinv : Inv h.rooms) (o : HostId) (ev : Str) (d : Data) (ns : Ns)
    (to : Target) (skip : Skip) (cb : Option (Str × Ns × Nat)) (ho : o ≠ h.id) (hok : Target.ok to)
    (sid : Sid) :
    ((C03.connected h.rooms ns sid ∧ C03.addressedBy h.rooms ns sid to ∧ sid ∉ skip.toList) →
      seenBy sid (listenMsg h (.emit o ev d ns to skip cb)).outs =
        [Seen.event ns (.str ev) d.pack cb.isSome]) ∧
    (¬ (C03.connected h.rooms ns sid ∧ C03.addressedBy h.rooms ns sid to ∧ sid ∉ skip.toList) →
      seenBy sid (listenMsg h (.emit o ev d ns to skip cb)).outs = []) := by
  have he := (listenMsg_effect h hinv (.emit o ev d ns to skip cb) rfl
    (fun _ _ _ _ _ _ _ heq => by cases heq; exact hok)).2.2.2.2.1 sid
  rw [he]
  simp only [seenAfter, if_neg ho, seenEmit]
  have hiff := C03.recipients_exact hinv ns to skip.toList sid
  exact ⟨fun hx => by rw [if_pos (hiff.mpr hx)], fun hx => by rw [if_neg (fun hc => hx (hiff.mp hc))]⟩

/-- the same on the issuing host, which applies the emit to its own clients before publishing -/
theorem eligible_local (h : Host) (hinv : Inv h.rooms) (ev : Str) (d : Data) (ns : Ns)
    (to : Target) (skip : Skip) (cb : Option Nat) (hok : Target.ok to)
    (hcb : cb.isSome → ∃ r, to = .one r) (sid : Sid) :
    ((C03.connected h.rooms ns sid ∧ C03.addressedBy h.rooms ns sid to ∧ sid ∉ skip.toList) →
      seenBy sid (apiEmit h true ev d ns to skip cb).outs =
        [Seen.event ns (.str ev) d.pack cb.isSome]) ∧
    (¬ (C03.connected h.rooms ns sid ∧ C03.addressedBy h.rooms ns sid to ∧ sid ∉ skip.toList) →
      seenBy sid (apiEmit h true ev d ns to skip cb).outs = []) := by
  rw [(apiEmit_effect h hinv ev d ns to skip cb hok hcb).2.2.2.2.2.1 sid]
  simp only [seenEmit]
  have hiff := C03.recipients_exact hinv ns to skip.toList sid
  exact ⟨fun hx => by rw [if_pos (hiff.mpr hx)], fun hx => by rw [if_neg (fun hc => hx (hiff.mp hc))]⟩

/-- a host never applies its own emit a second time: the echo is dropped -/
theorem own_echo_dropped (h : Host) (m : Msg) (hm : m.isCb = false) (ho : m.origin = some h.id) :
    listenMsg h m = { h := h } := listenMsg_own h m hm ho

/-! ## remote_ops_local_effect -/

/-- **A published `enter_room` / `leave_room` / `disconnect` changes state only on the host where
    the session is connected**: everywhere else the entry is a no-op. -/
theorem remote_ops_local_effect (h : Host) (o : HostId) (sid : Sid) (ns : Ns)
    (room : Room) (hn : h.connected ns sid = false) :
    listenMsg h (.enterRoom o sid ns room) = { h := h } ∧
    listenMsg h (.leaveRoom o sid ns room) = { h := h } ∧
    listenMsg h (.disconnect o sid ns) = { h := h } := by
  have hq : eioOf h.rooms ns sid = none := by
    simpa [Host.connected] using hn
  by_cases ho : o = h.id
  · refine ⟨listenMsg_own h _ rfl (by simp [Msg.origin, ho]), listenMsg_own h _ rfl (by simp [Msg.origin, ho]),
      listenMsg_own h _ rfl (by simp [Msg.origin, ho])⟩
  · refine ⟨?_, ?_, ?_⟩
    · have hd := dispatch_enterRoom h o sid ns room ho
      rw [hq] at hd
      rw [listenMsg_eq_dispatch (by rw [hd]), hd]
    · have hd := dispatch_leaveRoom h o sid ns room ho
      rw [hn] at hd
      rw [listenMsg_eq_dispatch (by rw [hd]; rfl), hd]; rfl
    · have hd := dispatch_disconnect h o sid ns ho
      have hl : localDisconnect h sid ns = { h := h } := by simp [localDisconnect, hq]
      rw [listenMsg_eq_dispatch (by rw [hd, hl]), hd, hl]

/-- ... and where it is connected, it has the effect of the local operation -/
theorem remote_ops_effect_where_connected (h : Host) (hinv : Inv h.rooms) (o : HostId) (ho : o ≠ h.id)
    (sid : Sid) (ns : Ns) (room : Room) :
    (listenMsg h (.enterRoom o sid ns room)).h.rooms = enterLocal h.rooms ns sid room ∧
    (listenMsg h (.leaveRoom o sid ns room)).h.rooms = Rooms.leave h.rooms ns sid (some room) ∧
    (listenMsg h (.disconnect o sid ns)).h.rooms = Rooms.disconnect h.rooms ns sid ∧
    (listenMsg h (.closeRoom o ns room)).h.rooms = Rooms.closeRoom h.rooms ns room := by
  have e1 := (listenMsg_effect h hinv (.enterRoom o sid ns room) rfl (fun _ _ _ _ _ _ _ heq => by cases heq)).1
  have e2 := (listenMsg_effect h hinv (.leaveRoom o sid ns room) rfl (fun _ _ _ _ _ _ _ heq => by cases heq)).1
  have e3 := (listenMsg_effect h hinv (.disconnect o sid ns) rfl (fun _ _ _ _ _ _ _ heq => by cases heq)).1
  have e4 := (listenMsg_effect h hinv (.closeRoom o ns room) rfl (fun _ _ _ _ _ _ _ heq => by cases heq)).1
  simp only [roomsAfter, if_neg ho] at e1 e2 e3 e4
  exact ⟨e1, e2, e3, e4⟩

-- non-vacuity: after the demo history `sA` lives on host A only; an `enter_room` for it published
-- by B changes A and nothing on B
def demoCluster : Cluster := (runSync (Cluster.init [hA, hB] hW) (demoOps.take 4)).1
example : (demoCluster.hosts.map (fun h => h.connected nsR sA)) = [true, false] := by decide
example : (demoCluster.hosts.map (fun h => (listenMsg h (.enterRoom hW sA nsR ['q'])).h.rooms.length))
    = [4, 3] := by decide

end Sio.C07
