/-
  C10 — Client reconnection: only after accidental loss, bounded back-off and attempts.

  Statements about `Sio.Reconnect.reconnect` (the transcription of `_handle_reconnect`), about the
  decision taken in `_handle_eio_disconnect`, and about the event layout of one effort.
  Indices are 0-based: `waits[k]` is the timeout of the (k+1)-th back-off wait, which precedes the
  (k+1)-th attempt, so the property's `2**(k-1)` reads `2^k` here.  Nothing is bounded: the
  scripts `outcomes`, `rands` are arbitrary functions, `fuel` (how long the effort is observed) is
  arbitrary.
-/
import Sio.Lemmas.Reconnect
namespace Sio.C10
open Sio.Reconnect

variable (cfg : Cfg) (o : Nat → Bool) (r : Nat → Q) (a : Option Nat) (fuel : Nat)

/-! ### back-off -/

/-- The (k+1)-th wait is `min(delay·2^k, delay_max) + rf·(2·random_k − 1)`, exactly. -/
theorem delay (k : Nat) (w : Q) (h : (reconnect cfg o r a fuel).waits[k]? = some w) :
    w = min (cfg.delay * 2 ^ k) cfg.delayMax + cfg.rf * (2 * r k - 1) := by
  have := loop_waits cfg o r a fuel 0 cfg.delay k w h
  rw [this, waitOf, capped_eq_min, jitter]
  simp

/-- Hence, for a non-negative factor and `random()` in `[0, 1]`, it is within `± rf` of the
    capped doubled delay.  (The value is handed to `Event.wait` / `asyncio.wait_for` as it is; when
    `rf` exceeds the capped delay it can be negative, which both primitives treat as "do not wait":
    see `negative_wait_possible`.) -/
theorem delay_within (k : Nat) (w : Q) (h : (reconnect cfg o r a fuel).waits[k]? = some w)
    (hrf : 0 ≤ cfg.rf) (h0 : 0 ≤ r k) (h1 : r k ≤ 1) :
    min (cfg.delay * 2 ^ k) cfg.delayMax - cfg.rf ≤ w ∧
    w ≤ min (cfg.delay * 2 ^ k) cfg.delayMax + cfg.rf := by
  rw [delay cfg o r a fuel k w h]
  have hlo : cfg.rf * (-1) ≤ cfg.rf * (2 * r k - 1) :=
    Rat.mul_le_mul_of_nonneg_left (by grind) hrf
  have hhi : cfg.rf * (2 * r k - 1) ≤ cfg.rf * 1 :=
    Rat.mul_le_mul_of_nonneg_left (by grind) hrf
  constructor <;> grind

/-- `random()` never returns 1, so the upper end is not reached when `rf > 0`. -/
theorem delay_below (k : Nat) (w : Q) (h : (reconnect cfg o r a fuel).waits[k]? = some w)
    (hrf : 0 < cfg.rf) (h1 : r k < 1) :
    w < min (cfg.delay * 2 ^ k) cfg.delayMax + cfg.rf := by
  rw [delay cfg o r a fuel k w h]
  have : cfg.rf * (2 * r k - 1) < cfg.rf * 1 :=
    Rat.mul_lt_mul_of_pos_left (by grind) hrf
  grind

/-- The wait never exceeds the cap plus the factor, however long the effort lasts. -/
theorem delay_capped (k : Nat) (w : Q) (h : (reconnect cfg o r a fuel).waits[k]? = some w)
    (hrf : 0 ≤ cfg.rf) (h0 : 0 ≤ r k) (h1 : r k ≤ 1) : w ≤ cfg.delayMax + cfg.rf := by
  have := (delay_within cfg o r a fuel k w h hrf h0 h1).2
  have hm : min (cfg.delay * 2 ^ k) cfg.delayMax ≤ cfg.delayMax := by
    rw [Rat.min_def]; split <;> grind
  grind

/-- When the factor does not exceed the capped delay the timeout is not negative. -/
theorem delay_nonneg (k : Nat) (w : Q) (h : (reconnect cfg o r a fuel).waits[k]? = some w)
    (hrf : 0 ≤ cfg.rf) (h0 : 0 ≤ r k) (h1 : r k ≤ 1)
    (hsmall : cfg.rf ≤ min (cfg.delay * 2 ^ k) cfg.delayMax) : 0 ≤ w := by
  have := (delay_within cfg o r a fuel k w h hrf h0 h1).1
  grind

-- non-vacuity of the hypotheses of `delay_within`/`delay_nonneg`: the library defaults
example : (0:Q) ≤ (1/2 : Q) ∧ (1/2 : Q) ≤ min ((1:Q) * 2 ^ 0) 5 := by decide +kernel

def cfgEx : Cfg := ⟨true, 3, 1, 5, 1/2⟩
def cfgInf : Cfg := ⟨true, 0, 1/4, 1, 1⟩

-- non-vacuity: the defaults (1 s, cap 5 s, factor ½), three failures, random() = ¼, ¾, ½
example : (reconnect cfgEx (fun _ => false) (fun k => if k = 0 then 1/4 else if k = 1 then 3/4 else 1/2)
    none 10).waits = [3/4, 9/4, 4] := by decide +kernel
-- the cap is strict `>`: a delay equal to the cap is left alone, the next one is cut
example : (reconnect ⟨true, 0, 1, 4, 0⟩ (fun _ => false) (fun _ => 0) none 5).waits = [1, 2, 4, 4, 4] := by
  decide +kernel
/-- with `rf` above the capped delay the computed timeout can be negative -/
theorem negative_wait_possible :
    (reconnect cfgInf (fun _ => false) (fun _ => 0) none 1).waits = [-3/4] := by decide +kernel

/-! ### the back-off grows (session 4) -/

/-- before jitter, the back-off never shrinks from one attempt to the next -/
theorem base_monotone (hd : 0 ≤ cfg.delay) (k : Nat) :
    min (cfg.delay * 2 ^ k) cfg.delayMax ≤ min (cfg.delay * 2 ^ (k + 1)) cfg.delayMax := by
  have hp := pow2_pos k
  have h0 : 0 ≤ cfg.delay * 2 ^ k := Rat.mul_nonneg hd (by grind)
  have : cfg.delay * 2 ^ (k + 1) = cfg.delay * 2 ^ k * 2 := by rw [Rat.pow_succ]; grind
  rw [this, Rat.min_def, Rat.min_def]
  split <;> split <;> grind

/-- without jitter (`randomization_factor = 0`) successive waits never decrease -/
theorem waits_monotone_no_jitter (hrf : cfg.rf = 0) (hd : 0 ≤ cfg.delay) (k : Nat) (w w' : Q)
    (h : (reconnect cfg o r a fuel).waits[k]? = some w)
    (h' : (reconnect cfg o r a fuel).waits[k+1]? = some w') : w ≤ w' := by
  rw [delay cfg o r a fuel k w h, delay cfg o r a fuel (k+1) w' h', hrf]
  have := base_monotone cfg hd k
  grind

/-- with jitter, a later wait undercuts an earlier one by at most twice the factor -/
theorem waits_monotone_up_to_jitter (hrf : 0 ≤ cfg.rf) (hd : 0 ≤ cfg.delay) (k : Nat) (w w' : Q)
    (h : (reconnect cfg o r a fuel).waits[k]? = some w)
    (h' : (reconnect cfg o r a fuel).waits[k+1]? = some w')
    (h0 : 0 ≤ r k) (h1 : r k ≤ 1) (h0' : 0 ≤ r (k+1)) (h1' : r (k+1) ≤ 1) :
    w - 2 * cfg.rf ≤ w' := by
  have ha := (delay_within cfg o r a fuel k w h hrf h0 h1).2
  have hb := (delay_within cfg o r a fuel (k+1) w' h' hrf h0' h1').1
  have := base_monotone cfg hd k
  grind

-- non-vacuity: the library defaults without jitter, four failures: 1, 2, 4, 5 (capped)
example : (reconnect ⟨true, 0, 1, 5, 0⟩ (fun _ => false) (fun _ => 1/2) none 4).waits = [1, 2, 4, 5] := by
  decide +kernel

/-! ### number of attempts -/

/-- A limit `N > 0` is never exceeded. -/
theorem attempts_bounded (hN : cfg.attempts > 0) : (reconnect cfg o r a fuel).attempts ≤ cfg.attempts :=
  loop_attempts_le cfg o r a (by omega) fuel 0 cfg.delay hN

/-- Giving up happens only when the limit is reached — and then after exactly `N` attempts. -/
theorem gave_up_exactly (h : (reconnect cfg o r a fuel).final = .gaveUp) :
    cfg.attempts ≠ 0 ∧ (reconnect cfg o r a fuel).attempts = cfg.attempts := by
  have ⟨h1, h2⟩ := (loop_final_sound cfg o r a fuel 0 cfg.delay).2 h
  have := loop_attempts_le cfg o r a h1 fuel 0 cfg.delay (by omega)
  exact ⟨h1, by unfold reconnect; omega⟩

-- non-vacuity: limit 3, everything fails: exactly 3 attempts, then the effort gives up
example : (reconnect cfgEx (fun _ => false) (fun _ => 1/2) none 10).attempts = 3 ∧
    (reconnect cfgEx (fun _ => false) (fun _ => 1/2) none 10).final = .gaveUp := by decide

/-- `reconnection_attempts = 0`: if every attempt fails and nobody aborts, then for every `n` the
    effort makes an `n`-th attempt and is still running afterwards (it never gives up). -/
theorem unbounded_when_zero (h0 : cfg.attempts = 0) (ho : ∀ k, o k = false) (n : Nat) :
    (reconnect cfg o r none n).attempts = n ∧ (reconnect cfg o r none n).final = .running ∧
    (reconnect cfg o r none n).waits.length = n := by
  have := loop_unbounded cfg o r h0 ho n 0 cfg.delay
  simpa [reconnect] using this

example : (reconnect cfgInf (fun _ => false) (fun _ => 1/2) none 25).attempts = 25 := by decide

/-- Every attempt is preceded by exactly one wait; an abort adds the interrupted wait. -/
theorem one_wait_per_attempt :
    (reconnect cfg o r a fuel).waits.length =
      (reconnect cfg o r a fuel).attempts + (if (reconnect cfg o r a fuel).final = .aborted then 1 else 0) := by
  unfold reconnect
  exact loop_waits_length cfg o r a fuel 0 cfg.delay

/-! ### end of the effort -/

/-- The effort stops at the first success: if attempt `j` is the first to succeed and neither the
    limit nor an abort intervenes earlier, exactly `j+1` attempts are made and the effort ends
    connected. -/
theorem stops_at_first_success (j : Nat) (hf : j < fuel)
    (hfail : ∀ i, i < j → o i = false) (hsucc : o j = true)
    (hab : ∀ i, i ≤ j → a ≠ some i) (hN : cfg.attempts = 0 ∨ j < cfg.attempts) :
    (reconnect cfg o r a fuel).attempts = j + 1 ∧ (reconnect cfg o r a fuel).final = .connected ∧
    (reconnect cfg o r a fuel).waits.length = j + 1 := by
  have := loop_first_success cfg o r a fuel 0 cfg.delay j (Nat.zero_le _) (by omega)
    (fun i _ h => hfail i h) hsucc (fun i _ h => hab i h) hN
  simpa [reconnect] using this

/-- Conversely an effort that ended connected made its last attempt successfully and every earlier
    one failed: there is no attempt after a success. -/
theorem connected_is_first_success (h : (reconnect cfg o r a fuel).final = .connected) :
    0 < (reconnect cfg o r a fuel).attempts ∧ o ((reconnect cfg o r a fuel).attempts - 1) = true ∧
    ∀ i, i + 1 < (reconnect cfg o r a fuel).attempts → o i = false := by
  have ⟨h1, h2, h3⟩ := loop_connected_sound cfg o r a fuel 0 cfg.delay h
  exact ⟨h1, h2, fun i hi => h3 i (Nat.zero_le _) hi⟩

example : (reconnect cfgEx (fun k => k == 1) (fun _ => 1/2) none 10).attempts = 2 ∧
    (reconnect cfgEx (fun k => k == 1) (fun _ => 1/2) none 10).final = .connected := by decide

/-- An abort (shutdown) observed by the (k+1)-th wait ends the effort with exactly `k` attempts
    — the ones made before — and no more. -/
theorem abort_stops (k : Nat) (ha : a = some k) (hf : k < fuel)
    (hfail : ∀ i, i < k → o i = false) (hN : cfg.attempts = 0 ∨ k < cfg.attempts) :
    (reconnect cfg o r a fuel).attempts = k ∧ (reconnect cfg o r a fuel).final = .aborted ∧
    (reconnect cfg o r a fuel).waits.length = k + 1 := by
  have := loop_abort cfg o r a fuel 0 cfg.delay k ha (Nat.zero_le _) (by omega)
    (fun i _ h => hfail i h) hN
  simpa [reconnect] using this

/-- Unconditionally: with an abort pending at wait `k+1` there are never more than `k` attempts. -/
theorem abort_caps (k : Nat) (ha : a = some k) : (reconnect cfg o r a fuel).attempts ≤ k :=
  loop_abort_le cfg o r a fuel 0 cfg.delay k ha (Nat.zero_le _)

/-- An effort ends aborted only if the abort was observed by the wait that follows its last attempt. -/
theorem aborted_only_by_abort (h : (reconnect cfg o r a fuel).final = .aborted) :
    a = some (reconnect cfg o r a fuel).attempts :=
  (loop_final_sound cfg o r a fuel 0 cfg.delay).1 h

example : (reconnect cfgInf (fun _ => false) (fun _ => 1/2) (some 2) 10).attempts = 2 ∧
    (reconnect cfgInf (fun _ => false) (fun _ => 1/2) (some 2) 10).final = .aborted ∧
    (reconnect cfgInf (fun _ => false) (fun _ => 1/2) (some 2) 10).waits.length = 3 := by decide

/-! ### same parameters, handlers again -/

section layout
variable {P : Type} (s : Stored P) (outs : Nat → Outcome)

/-- Every `connect()` of the effort is called with what the last `connect()` stored: url, headers,
    auth, transports, socketio_path (`s.conn`) and namespaces (`s.nss`), unchanged. -/
theorem same_parameters (p : Stored P) (h : Ev.attempt p ∈ (effort cfg s outs r a fuel).2) : p = s := by
  unfold effort at h
  simp only [List.mem_append] at h
  cases h with
  | inl h => exact body_attempts cfg s outs _ _ 0 p h
  | inr h => exact absurd h (final_no_attempt _ _ p)

/-- …and there are exactly as many `connect()` calls in the trace as the policy counts. -/
theorem attempts_in_trace :
    countAttempts (effort cfg s outs r a fuel).2 = (effort cfg s outs r a fuel).1.attempts := by
  unfold effort
  simp only [countAttempts_append, countAttempts_final]
  have hl := one_wait_per_attempt cfg (fun k => (outs k).success s.nss) r a fuel
  rw [countAttempts_body cfg s outs _ _ 0 (Nat.zero_le _) (by omega)]
  simp

/-- After the successful attempt the `connect` handler runs again for every stored namespace:
    the events of a successful `connect()` are exactly one `connect` invocation per namespace. -/
theorem handlers_again (oc : Outcome) (h : oc.success s.nss = true) (i : Nat) (n : Ns)
    (hn : s.nss[i]? = some n) :
    (Ev.handler .connect n : Ev P) ∈ attemptEvents cfg s.nss oc := by
  cases oc with
  | transport => simp [Outcome.success] at h
  | lost => simp [Outcome.success] at h
  | served acc =>
    simp only [Outcome.success, List.all_eq_true, List.mem_range] at h
    have hi : i < s.nss.length := by
      have := List.getElem?_eq_some_iff.mp hn
      exact this.1
    have hacc := h i hi
    simp only [attemptEvents, List.mem_append, List.mem_map]
    left
    have hmem : ∀ (l : List Ns) (b : Nat) (j : Nat) (m : Ns), l[j]? = some m → (b + j, m) ∈ enum b l := by
      intro l
      induction l with
      | nil => intro b j m h; simp at h
      | cons x xs ih =>
        intro b j m h
        cases j with
        | zero => simp at h; subst h; simp [enum]
        | succ j =>
          simp only [List.getElem?_cons_succ] at h
          have := ih (b + 1) j m h
          simp only [enum, List.mem_cons]
          right
          have e : b + 1 + j = b + (j + 1) := by omega
          rw [← e]; exact this
    refine ⟨(i, n), ?_, ?_⟩
    · have := hmem s.nss 0 i n hn
      simpa using this
    · show Ev.handler (if accepted acc i = true then HName.connect else HName.connectError) n = _
      rw [hacc]; rfl

/-- When the effort gives up or is aborted, `__disconnect_final` is invoked for every stored namespace. -/
theorem final_handlers (f : Final) (hf : f = .gaveUp ∨ f = .aborted) (n : Ns) (hn : n ∈ s.nss) :
    (Ev.handler .disconnectFinal n : Ev P) ∈ finalEvents s.nss f := by
  cases hf with
  | inl h => subst h; simp [finalEvents, hn]
  | inr h => subst h; simp [finalEvents, hn]

end layout

/-! ### when an effort starts -/

/-- The decision of `_handle_eio_disconnect`. -/
theorem decision (st : EioState) (task : Bool) :
    startsEffort cfg st task = true ↔ cfg.reconnection = true ∧ st = .connected ∧ task = false := by
  cases st <;> cases task <;> simp [startsEffort, willReconnect]

/-- With engine.io's contract (`eioStateDuring`): only an accidental loss starts an effort — never
    `disconnect()`, a server DISCONNECT of the last namespace, or a server-side close. -/
theorem only_accidental (c : Cause) (task : Bool)
    (h : startsEffort cfg (eioStateDuring c) task = true) : c = .transportError := by
  cases c <;> simp [startsEffort, willReconnect, eioStateDuring] at h ⊢

/-- …and an accidental loss does start one when reconnection is enabled and none is running. -/
theorem accidental_starts (hr : cfg.reconnection = true) :
    startsEffort cfg (eioStateDuring .transportError) false = true := by
  simp [startsEffort, willReconnect, eioStateDuring, hr]

/-- Reconnection disabled: never. -/
theorem disabled_never (hr : cfg.reconnection = false) (st : EioState) (task : Bool) :
    startsEffort cfg st task = false := by
  simp [startsEffort, willReconnect, hr]

/-- One effort at a time: while one is running no notification starts another. -/
theorem one_at_a_time (st : EioState) : startsEffort cfg st true = false := by
  simp [startsEffort]

/-- Whatever engine.io notifies while an attempt of the running effort is under way (the
    transport lost again inside the attempt, or the `disconnect()` that `connect()` itself issues
    after a refusal) starts no second effort. -/
theorem nested_notifications_start_nothing {P : Type} (nss : List Ns) (oc : Outcome) (st : EioState)
    (b : Bool) (h : (Ev.notified st b : Ev P) ∈ attemptEvents cfg nss oc) : b = false := by
  cases oc with
  | served acc =>
    simp only [attemptEvents, List.mem_append, List.mem_map] at h
    cases h with
    | inl h => obtain ⟨x, _, hx⟩ := h; cases hx
    | inr h =>
      split at h
      · simp at h
      · simp [startsEffort] at h; exact h.2
  | transport => simp [attemptEvents] at h
  | lost => simp [attemptEvents, startsEffort] at h; exact h.2

/-! ### over a whole client history

  FULL-STRENGTH STATEMENT (what the property says, and what is FALSE on the code as it is):

      theorem next_loss_starts_effort (c0 c : Cli P) (is : List (Input P)) (evs : List (Ev P))
          (h0 : c0.task = false) (hrun : run c0 is = some (c, evs))
          (hdone : no effort of the history is still running)
          (hr : c.cfg.reconnection = true) :
          startsEffort c.cfg (eioStateDuring .transportError) c.task = true

  i.e. whenever no effort is in flight, an accidental loss starts one.  `_handle_reconnect` clears
  `_reconnect_task` on its success exit only, so after an effort that ended by give-up or abort the
  guard `not self._reconnect_task` stays false for the rest of the client's life
  (KNOWN_FINDINGS `stale-reconnect-task`; `stale_task_witness` below is the machine-checked
  counter-example).  The `_partial` theorem excludes exactly that region by the decidable
  hypothesis `cleanHistory` (every effort of the history ended connected).
-/

theorem step_task_partial {P : Type} (c : Cli P) (i : Input P) (c' : Cli P) (evs : List (Ev P))
    (htask : c.task = false) (hclean : effortFailed c i = false) (h : step c i = some (c', evs)) :
    c'.task = false ∧ c'.cfg = c.cfg := by
  cases i with
  | connect s =>
    simp only [step] at h
    split at h
    · simp at h
    · simp only [Option.some.injEq, Prod.mk.injEq] at h
      rw [← h.1]; exact ⟨htask, rfl⟩
  | connectNoWait s acc =>
    simp only [step] at h
    split at h
    · simp at h
    · simp only [Option.some.injEq, Prod.mk.injEq] at h
      rw [← h.1]; exact ⟨htask, rfl⟩
  | nsEnd n =>
    simp only [step] at h
    split at h
    · simp only [Option.some.injEq, Prod.mk.injEq] at h
      rw [← h.1]; exact ⟨htask, rfl⟩
    · simp at h
  | lose cause sc =>
    simp only [step] at h
    simp only [effortFailed] at hclean
    cases hc : c.connected <;> cases hs : c.stored <;> simp only [hc, hs] at h hclean <;>
      try (simp at h; done)
    rename_i s
    split at h
    · rename_i hstart
      simp only [Option.some.injEq, Prod.mk.injEq] at h
      rw [← h.1]
      simp only [hstart, Bool.true_and] at hclean
      refine ⟨?_, rfl⟩
      simpa using hclean
    · simp only [Option.some.injEq, Prod.mk.injEq] at h
      rw [← h.1]; exact ⟨htask, rfl⟩

/-- What `connect()` stored is written by the application's `connect()` calls only: the server
    ending one namespace (the client stays up on the others) and any loss leave it as it is. -/
theorem stored_kept {P : Type} (c c' : Cli P) (i : Input P) (evs : List (Ev P))
    (hi : (∀ s, i ≠ .connect s) ∧ (∀ s acc, i ≠ .connectNoWait s acc))
    (h : step c i = some (c', evs)) : c'.stored = c.stored := by
  cases i with
  | connect s => exact absurd rfl (hi.1 s)
  | connectNoWait s acc => exact absurd rfl (hi.2 s acc)
  | nsEnd n =>
    simp only [step] at h
    split at h
    · simp only [Option.some.injEq, Prod.mk.injEq] at h
      rw [← h.1]
    · simp at h
  | lose cause sc =>
    simp only [step] at h
    cases hc : c.connected <;> cases hs : c.stored <;> simp only [hc, hs] at h <;>
      try (simp at h; done)
    split at h <;>
      (simp only [Option.some.injEq, Prod.mk.injEq] at h; rw [← h.1])

/-- `same_parameters` over the life of a connection: whatever happened since `connect()` stored
    its parameters — namespaces refused at connect time, namespaces ended by the server — every
    `connect()` made by the effort a loss starts is called with exactly the stored parameters
    (url, headers, auth, transports, path: `conn`; and the full namespace list `nss`, including the
    namespaces that are not connected any more). -/
theorem lose_same_parameters {P : Type} (c c' : Cli P) (cause : Cause) (sc : Script)
    (evs : List (Ev P)) (p : Stored P) (h : step c (.lose cause sc) = some (c', evs))
    (hp : Ev.attempt p ∈ evs) : c.stored = some p := by
  simp only [step] at h
  cases hc : c.connected <;> cases hs : c.stored <;> simp only [hc, hs] at h <;>
    try (simp at h; done)
  rename_i s
  have hh : ∀ (l : List Ns), Ev.attempt p ∉ l.flatMap (fun n =>
      (Ev.handler (.disconnect (reasonOf cause)) n : Ev P) ::
        (if willReconnect c.cfg (eioStateDuring cause) then [] else [.handler .disconnectFinal n])) := by
    intro l hm
    simp only [List.mem_flatMap] at hm
    obtain ⟨n, _, hn⟩ := hm
    by_cases hw : willReconnect c.cfg (eioStateDuring cause) = true <;> simp [hw] at hn
  split at h
  · simp only [Option.some.injEq, Prod.mk.injEq] at h
    rw [← h.2] at hp
    simp only [List.mem_append] at hp
    rcases hp with (hp | hp) | hp
    · exact absurd hp (hh _)
    · simp at hp
    · rw [same_parameters c.cfg sc.rands sc.abortAt sc.fuel s sc.outs p hp]
  · simp only [Option.some.injEq, Prod.mk.injEq] at h
    rw [← h.2] at hp
    simp only [List.mem_append] at hp
    rcases hp with hp | hp
    · exact absurd hp (hh _)
    · simp at hp

/-- Outside the region of the known finding: after a history in which every effort ended
    connected, no effort is recorded as in flight … -/
theorem history_task_partial {P : Type} (is : List (Input P)) : ∀ (c0 c : Cli P) (evs : List (Ev P)),
    c0.task = false → cleanHistory c0 is = true → run c0 is = some (c, evs) →
    c.task = false ∧ c.cfg = c0.cfg := by
  induction is with
  | nil =>
    intro c0 c evs h0 _ hrun
    simp only [run, Option.some.injEq, Prod.mk.injEq] at hrun
    rw [← hrun.1]; exact ⟨h0, rfl⟩
  | cons i is ih =>
    intro c0 c evs h0 hclean hrun
    unfold run at hrun
    unfold cleanHistory at hclean
    simp only [Bool.and_eq_true, Bool.not_eq_true'] at hclean
    cases hst : step c0 i with
    | none => simp [hst] at hrun
    | some p =>
      obtain ⟨c1, e1⟩ := p
      simp only [hst] at hrun hclean
      have ⟨ht, hcfg⟩ := step_task_partial c0 i c1 e1 h0 hclean.1 hst
      cases hr : run c1 is with
      | none => simp [hr] at hrun
      | some q =>
        obtain ⟨c2, e2⟩ := q
        simp only [hr, Option.some.injEq, Prod.mk.injEq] at hrun
        have := ih c1 c2 e2 ht hclean.2 hr
        rw [← hrun.1]
        exact ⟨this.1, this.2.trans hcfg⟩

/-- … hence the next accidental loss starts a new effort (the property's "retries the connection"),
    for a client with reconnection enabled. -/
theorem next_loss_starts_effort_partial {P : Type} (c0 c : Cli P) (is : List (Input P))
    (evs : List (Ev P)) (h0 : c0.task = false) (hclean : cleanHistory c0 is = true)
    (hrun : run c0 is = some (c, evs)) (hr : c0.cfg.reconnection = true) :
    startsEffort c.cfg (eioStateDuring .transportError) c.task = true := by
  have ⟨ht, hcfg⟩ := history_task_partial is c0 c evs h0 hclean hrun
  rw [ht, hcfg]
  exact accidental_starts c0.cfg hr

def scFail : Script := ⟨fun _ => .transport, fun _ => 1/2, none, 10⟩
def scSecond : Script := ⟨fun k => if k = 1 then .served [] else .transport, fun _ => 1/2, none, 10⟩
def stored0 : Stored Nat := ⟨7, ["/".toList]⟩
def cfgOne : Cfg := ⟨true, 1, 1, 5, 0⟩
def cfgThree : Cfg := ⟨true, 3, 1, 5, 0⟩

def storedAB : Stored Nat := ⟨7, ["/a".toList, "/b".toList]⟩

-- non-vacuity: two namespaces, the server ends "/b", the transport is lost: the effort's attempt
-- carries both namespaces, and afterwards both are connected again
example :
    (match run (Cli.init cfgThree : Cli Nat)
        [.connect storedAB, .nsEnd "/b".toList, .lose .transportError scSecond] with
     | some (c, evs) => (c.live, c.stored.map (·.nss), countAttempts evs,
                          evs.any (fun e => match e with | .attempt p => p.nss != storedAB.nss | _ => false))
     | none => ([], none, 0, true)) =
    (["/a".toList, "/b".toList], some ["/a".toList, "/b".toList], 3, false) := by decide


-- non-vacuity of `next_loss_starts_effort_partial`: an effort that reconnects at its second
-- attempt, then another accidental loss: the history is clean and a second effort runs (2 + 2
-- attempts besides the initial connect)
example :
    cleanHistory (Cli.init cfgThree : Cli Nat)
      [.connect stored0, .lose .transportError scSecond, .lose .transportError scSecond] = true ∧
    (match run (Cli.init cfgThree : Cli Nat)
        [.connect stored0, .lose .transportError scSecond, .lose .transportError scSecond] with
     | some (c, evs) => (c.task, c.connected, countAttempts evs)
     | none => (true, false, 0)) = (false, true, 5) := by decide

/-- NEGATION WITNESS of the full-strength statement (known finding `stale-reconnect-task`):
    limit 1; connect; accidental loss; the single attempt fails, the effort gives up; the
    application connects again; accidental loss — reconnection is enabled, no effort is running,
    and yet none is started (and, `will_reconnect` being true, `__disconnect_final` is not invoked
    either: the only events are the `disconnect` handler and the notification). -/
theorem stale_task_witness :
    (match run (Cli.init cfgOne : Cli Nat)
        [.connect stored0, .lose .transportError scFail, .connect stored0] with
     | some (c, _) =>
        (c.cfg.reconnection, c.connected, startsEffort c.cfg (eioStateDuring .transportError) c.task)
     | none => (false, false, true)) = (true, true, false) ∧
    (match run (Cli.init cfgOne : Cli Nat)
        [.connect stored0, .lose .transportError scFail, .connect stored0,
         .lose .transportError scFail] with
     | some (_, evs) => countAttempts evs
     | none => 0) = 3 := by decide

/-! ### nothing is carried from one effort to the next (session 4) -/

/-- **Every effort starts from `reconnection_delay`.**  Whatever happened before (any history of
    connects, losses, efforts that succeeded, gave up or were aborted), the (k+1)-th wait of the
    effort a later loss starts is given by the closed form with `k` counted from the start of THAT
    effort and the configuration the client was created with: nothing is carried from one effort
    to the next. -/
theorem every_effort_from_initial_delay {P : Type} (c0 c : Cli P) (is : List (Input P))
    (evs : List (Ev P)) (hrun : run c0 is = some (c, evs)) (s : Stored P) (sc : Script)
    (k : Nat) (w : Q)
    (h : (effort c.cfg s sc.outs sc.rands sc.abortAt sc.fuel).1.waits[k]? = some w) :
    w = min (c0.cfg.delay * 2 ^ k) c0.cfg.delayMax + c0.cfg.rf * (2 * sc.rands k - 1) := by
  rw [run_cfg is c0 c evs hrun] at h
  exact delay c0.cfg _ sc.rands sc.abortAt sc.fuel k w h

-- non-vacuity: a history whose first effort fails twice and then reconnects, followed by a second
-- effort on the same client: the waits of the second effort are 1, 2 again (not 4, 5)
example :
    (match run (Cli.init cfgThree : Cli Nat) [.connect stored0, .lose .transportError scSecond] with
     | some (c, _) => (effort c.cfg stored0 scSecond.outs scSecond.rands scSecond.abortAt scSecond.fuel
                        : Res × List (Ev Nat)).1.waits
     | none => []) = [1, 2] := by decide +kernel

end Sio.C10
