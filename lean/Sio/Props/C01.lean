import Sio.Model.Codec
namespace Sio.C01
theorem placeholder_stub : True := trivial
end Sio.C01
