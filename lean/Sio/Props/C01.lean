/-
  C01 — Packet codec: encode/decode round-trip and Socket.IO v5 wire conformance.

  Property theorems only; every proof is a one-line appeal to Sio/Lemmas/Codec*.lean.  The
  predicates used in the statements (`NoReservedKey`, `NoBin`, `binLeaves`, `phNums`, `TopOK`,
  `WFHdr`, `BodyOK`, `StartOK`, `PayloadOK`, `WFCore`, `WF`, `WFArgs`, `normNs`, `Packet.norm`,
  `Packet.wire`) are defined in Sio/Lemmas/CodecDefs.lean (`AsciiCls`, `DecLt10` in
  Lemmas/CodecDigits.lean; `FltOK`, `FltLits` in Lemmas/JsonNum.lean, Lemmas/JsonRoundtrip.lean),
  the model in Sio/Model/Codec.lean, the independent specification codec in
  Sio/Model/CodecSpec.lean, the concrete JSON reader in Sio/Model/JsonParse.lean.

  Parameters (not verified here, supplied and exercised by the correspondence harness):
  * `cls`   — Python's `str.isdigit()`/`int()` table; only `AsciiCls cls` (it is right on ASCII)
              is assumed, resp. `DecLt10 cls` (digit values are below ten) for the guards;
  * `dumps`/`loads` — the JSON text layer; assumed only at the *one* value that is printed
              (`hrt`, `hstart` below); `hstart` is proved for the Lean printer `J.dumps`, and
              §7 instantiates both with the concrete `J.dumps`/`J.loads` and proves `hrt`
              (`loads_dumps`), so that `roundtrip_concrete` has no JSON hypothesis left.
-/
import Sio.Lemmas.CodecPacket
import Sio.Lemmas.CodecSpec
import Sio.Lemmas.CodecGuards
import Sio.Lemmas.CodecHdrConv
import Sio.Lemmas.JsonRoundtrip
import Sio.Lemmas.CodecJson
namespace Sio.C01
open Sio

/-! ## a concrete non-trivial packet for the non-vacuity examples

`Packet(EVENT, ["ev", b"\x01\x02", {"k": [b"\x03", "-1"]}, 7], namespace="/chat?x=1", id=12)`
after promotion to BINARY_EVENT: two optional header fields, a query string, byte strings at
depth 1 and 3, a string that starts with `-`. -/

def exData : J :=
  .arr [.str "ev".toList, .bin [1, 2], .obj [("k".toList, .arr [.bin [3], .str "-1".toList])], .int 7]

def exP : Packet := ⟨BINARY_EVENT, some "/chat?x=1".toList, some 12, some exData⟩

/-- a `loads` that inverts `J.dumps` at the one value the example prints -/
def exLoads (s : Str) : Except Err J :=
  if s = J.dumps (decon exData []).1 then .ok (decon exData []).1 else .error .jsonError

theorem exP_wf : WF exP = true := by decide
theorem exP_mk : mkPacket true EVENT (some exData) (some "/chat?x=1".toList) (some 12) none = .ok exP := rfl

/-! ## 1. binary deconstruction / reconstruction -/

/-- Reconstruction undoes deconstruction, at any nesting depth, for an arbitrary accumulator
    prefix `acc` (placeholders index into `acc ++ leaves`) and any continuation `rest` of the
    attachment list. -/
theorem recon_decon_gen (j : J) (acc rest : List Bytes) (h : NoReservedKey j = true) :
    recon (((decon j acc).2 ++ rest).map J.bin) (decon j acc).1 = .ok j :=
  Sio.recon_decon_gen j acc rest h

theorem recon_decon (j : J) (h : NoReservedKey j = true) :
    recon ((decon j []).2.map J.bin) (decon j []).1 = .ok j := by
  simpa using Sio.recon_decon_gen j [] [] h

example : NoReservedKey exData = true ∧ (decon exData []).2 = [[1, 2], [3]] := by decide

/-- The attachments are the byte strings in depth-first order, the text part contains none, and
    its placeholders are numbered `0, 1, 2, …` in depth-first order. -/
theorem decon_dfs (j : J) :
    (decon j []).2 = binLeaves j ∧ NoBin (decon j []).1 = true ∧
    (NoReservedKey j = true → phNums (decon j []).1 = List.range (binLeaves j).length) := by
  refine ⟨by simpa using decon_snd j [], noBin_decon j [], fun h => ?_⟩
  simpa [List.range_eq_range'] using phNums_decon j [] h

/-- the same from an arbitrary accumulator: numbering continues at `acc.length` -/
theorem decon_dfs_gen (j : J) (acc : List Bytes) :
    (decon j acc).2 = acc ++ binLeaves j ∧ NoBin (decon j acc).1 = true ∧
    (NoReservedKey j = true →
      phNums (decon j acc).1 = List.range' acc.length (binLeaves j).length) :=
  ⟨decon_snd j acc, noBin_decon j acc, phNums_decon j acc⟩

example : phNums (decon exData []).1 = [0, 1] := by decide

/-! ## 2. header round trip -/

/-- Every header of the property's quantifier, followed by any text that cannot be mistaken for
    a header field (`BodyOK`, the weakest such condition: see its definition), is read back
    exactly — for *all* values of the adjacent decimal fields. -/
theorem hdr_roundtrip {cls : Char → DC} (hcls : AsciiCls cls) (t : Nat) (nsp : Option Str)
    (id natt : Option Nat) (body : Str) (hwf : WFHdr t nsp id natt = true)
    (hb : BodyOK cls nsp id natt body = true) :
    decodeHdr cls (encodeHdr t nsp id natt ++ body) = .ok ⟨t, normNs nsp, id, body, natt.getD 0⟩ :=
  hdr_roundtrip_lem hcls hwf hb

/-- `BodyOK` is exactly the weakest condition: for a well-formed header the round trip holds
    *iff* the text that follows satisfies it. -/
theorem hdr_roundtrip_iff {cls : Char → DC} (hcls : AsciiCls cls) (t : Nat) (nsp : Option Str)
    (id natt : Option Nat) (body : Str) (hwf : WFHdr t nsp id natt = true) :
    decodeHdr cls (encodeHdr t nsp id natt ++ body) = .ok ⟨t, normNs nsp, id, body, natt.getD 0⟩
      ↔ BodyOK cls nsp id natt body = true :=
  ⟨bodyOK_necessary hcls hwf, hdr_roundtrip_lem hcls hwf⟩

/-- header-independent corollary: the body is empty or starts with an ASCII character other
    than a digit, `-` and `/` -/
theorem hdr_roundtrip_start {cls : Char → DC} (hcls : AsciiCls cls) (t : Nat) (nsp : Option Str)
    (id natt : Option Nat) (body : Str) (hwf : WFHdr t nsp id natt = true)
    (hb : body = [] ∨ StartOK body = true) :
    decodeHdr cls (encodeHdr t nsp id natt ++ body) = .ok ⟨t, normNs nsp, id, body, natt.getD 0⟩ := by
  rcases hb with rfl | hb
  · exact hdr_roundtrip_lem hcls hwf (bodyOK_nil _ _ _)
  · exact hdr_roundtrip_lem hcls hwf (bodyOK_of_startOK hcls _ _ _ hb)

example : StartOK "[\"a-b\"]".toList = true ∧ StartOK "{}".toList = true ∧
    StartOK "-5".toList = false ∧ StartOK "5".toList = false := by decide

/-- the subtle case of the brief: id present, no namespace, non-binary type, a `-` inside the
    body: `2` `12` `["a-b"]` -/
example : AsciiCls asciiCls ∧ WFHdr 2 none (some 12) none = true ∧
    BodyOK asciiCls none (some 12) none "[\"a-b\"]".toList = true ∧
    encodeHdr 2 none (some 12) none ++ "[\"a-b\"]".toList = "212[\"a-b\"]".toList :=
  ⟨asciiCls_ascii, by decide, by decide, by decide⟩

/-- `BodyOK` is weaker than `StartOK`: a negative number after a header *without* id (or with a
    namespace) is read back — `Packet(CONNECT_ERROR, data=-5)` ↦ `"4-5"` ↦ data `-5`,
    `"4/ns,3-5"` ↦ id 3, data `-5` (both confirmed on the real code) -/
example : BodyOK asciiCls none none none "-5".toList = true ∧
    BodyOK asciiCls (some "/ns".toList) (some 3) none "-5".toList = true ∧
    BodyOK asciiCls none (some 3) none "-5".toList = false ∧
    decodeHdr asciiCls "4-5".toList = .ok ⟨4, none, none, "-5".toList, 0⟩ :=
  ⟨by decide, by decide, by decide, rfl⟩

example : WFNs (some "/chat?x=1".toList) = true ∧ WFNs (some "/a,b".toList) = false ∧
    WFNs (some "chat".toList) = false ∧
    nsPath (normNs (some "/chat?x=1".toList)) = "/chat".toList ∧ nsPath (normNs none) = "/".toList := by
  decide

/-- the namespace as a path: decoding yields the path without its query string -/
theorem nsPath_normNs (nsp : Option Str) (h : WFNs nsp = true) :
    nsPath (normNs nsp) = (nsPath nsp).takeWhile (· != '?') := by
  cases nsp with
  | none => rfl
  | some ns =>
    by_cases hd : ns = ['/']
    · subst hd; rfl
    · simp [normNs, nsPath, hd]

/-! ## 3. packet round trip and attachment hand-back -/

/-- Encoding a packet, decoding the text frame and handing the attachments back one by one
    yields the same packet (namespace normalised): the text frame decodes to the wire packet and
    announces exactly the number of attachments produced; after the last attachment the packet
    is complete (`.inr`), with no attachment nothing is pending (`.inl` with need 0).

    This is the statement under the *weakest* hypotheses: `WFCore` (no restriction on the
    top-level payload) and `PayloadOK` — the printed JSON text is non-empty and cannot be
    mistaken for a field of *this* header.  It covers e.g. `Packet(CONNECT_ERROR, data=-5)`. -/
theorem roundtrip_weakest {cls : Char → DC} (hcls : AsciiCls cls) {dumps : J → Str}
    {loads : Str → Except Err J} (p : Packet)
    (hrt : ∀ j, p.wire.data = some j → loads (dumps j) = .ok j)
    (hbody : ∀ j, p.wire.data = some j → PayloadOK cls p (dumps j) = true)
    (hwf : WFCore p = true) :
    let atts := (encode dumps p).2.getD []
    decode cls loads (encode dumps p).1 = .ok (p.wire, atts.length) ∧
    feed ⟨p.wire, atts.length, []⟩ (atts.map J.bin)
      = .ok (if atts = [] then .inl ⟨p.norm, 0, []⟩ else .inr p.norm) :=
  ⟨decode_encode hcls hrt hbody hwf, feed_encode hwf⟩

/-- `Packet(CONNECT_ERROR, data=-5, namespace="/ns", id=3)` ↦ `"4/ns,3-5"` is inside
    `roundtrip_weakest` although its payload is a bare number -/
example : WFCore ⟨CONNECT_ERROR, some "/ns".toList, some 3, some (.int (-5))⟩ = true ∧
    PayloadOK asciiCls ⟨CONNECT_ERROR, some "/ns".toList, some 3, some (.int (-5))⟩
      (J.dumps (.int (-5))) = true ∧
    (encode J.dumps ⟨CONNECT_ERROR, some "/ns".toList, some 3, some (.int (-5))⟩).1
      = "4/ns,3-5".toList := ⟨by decide, by decide, by decide⟩

/-- The property as stated (DESIGN §5): for well-formed packets (`WF`: payload not a bare number)
    it suffices that the JSON text starts like a JSON text that is not a number (`StartOK`). -/
theorem roundtrip {cls : Char → DC} (hcls : AsciiCls cls) {dumps : J → Str}
    {loads : Str → Except Err J} (p : Packet)
    (hrt : ∀ j, p.wire.data = some j → loads (dumps j) = .ok j)
    (hstart : ∀ j, p.wire.data = some j → StartOK (dumps j) = true)
    (hwf : WF p = true) :
    let atts := (encode dumps p).2.getD []
    decode cls loads (encode dumps p).1 = .ok (p.wire, atts.length) ∧
    feed ⟨p.wire, atts.length, []⟩ (atts.map J.bin)
      = .ok (if atts = [] then .inl ⟨p.norm, 0, []⟩ else .inr p.norm) :=
  roundtrip_weakest hcls p hrt (fun j h => payloadOK_of_startOK hcls p (hstart j h)) (wf_core hwf)

/- The global form of DESIGN §5 (`hrt : ∀ j, NoBin j → loads (dumps j) = ok j`,
   `hstart : ∀ j, TopOK j → StartOK (dumps j)`) implies the pointwise hypotheses above:
   the printed value is `NoBin` and `TopOK` (`Sio.wire_json_hyps`).  It is not stated as a theorem
   of its own because no natural printer satisfies the global `hrt` (float literals are opaque
   text, so `flt "1"` and `int 1` print alike); the pointwise form is the stronger theorem. -/

/-- `hstart` holds for the Lean printer: it is discharged, not assumed. -/
theorem dumps_start (j : J) (h : TopOK j = true) : StartOK (J.dumps j) = true :=
  dumps_startOK j h

/-- For packets made by the constructor (with binary auto-detection), printed by `J.dumps`:
    only the `loads ∘ dumps` hypothesis at the printed value remains. -/
theorem roundtrip_mk {cls : Char → DC} (hcls : AsciiCls cls) {loads : Str → Except Err J}
    (t : Nat) (d : Option J) (nsp : Option Str) (id : Option Nat) (p : Packet)
    (hargs : WFArgs t d nsp id = true) (hmk : mkPacket true t d nsp id none = .ok p)
    (hrt : ∀ j, p.wire.data = some j → loads (J.dumps j) = .ok j) :
    let atts := (encode J.dumps p).2.getD []
    decode cls loads (encode J.dumps p).1 = .ok (p.wire, atts.length) ∧
    feed ⟨p.wire, atts.length, []⟩ (atts.map J.bin)
      = .ok (if atts = [] then .inl ⟨p.norm, 0, []⟩ else .inr p.norm) :=
  have hwf := wf_of_mkPacket hargs hmk
  roundtrip hcls p hrt (fun j h => dumps_startOK j (wire_json_hyps hwf h).2) hwf

/-- non-vacuity: the hypotheses of `roundtrip`/`roundtrip_mk` hold for `exP`, and the frame is
    the expected one -/
example : WFArgs EVENT (some exData) (some "/chat?x=1".toList) (some 12) = true ∧
    (∀ j, exP.wire.data = some j → exLoads (J.dumps j) = .ok j) ∧
    (encode J.dumps exP).1 = ("52-/chat?x=1,12[\"ev\",{\"_placeholder\":true,\"num\":0}," ++
      "{\"k\":[{\"_placeholder\":true,\"num\":1},\"-1\"]},7]").toList := by
  refine ⟨by decide, ?_, by decide⟩
  intro j h
  have : j = (decon exData []).1 := by
    have : exP.wire.data = some (decon exData []).1 := rfl
    rw [this] at h; injection h with h; exact h.symm
  subst this; simp [exLoads]

/-- `handback`: wherever the attachment list is split, the attachment at the split point is
    answered "more" unless it is the last one, which completes the packet `norm p`; any
    attachment after that is refused with `ValueError`. -/
theorem handback {dumps : J → Str} (p : Packet) (hwf : WFCore p = true) :
    let atts := (encode dumps p).2.getD []
    (∀ (pre post : List J) (b : J), atts.map J.bin = pre ++ b :: post →
      addAttachment ⟨p.wire, atts.length, pre⟩ b
        = .ok (if post = [] then .complete p.norm
               else .more ⟨p.wire, atts.length, pre ++ [b]⟩)) ∧
    (∀ (pk : Packet) (x : J),
      addAttachment ⟨pk, atts.length, atts.map J.bin⟩ x = .error .valueError) := by
  refine ⟨fun pre post b h => handback_split hwf pre post b h, fun pk x => ?_⟩
  simpa using handback_extra pk (((encode dumps p).2.getD []).map J.bin) x

/-- independent of any packet: before the count is reached the answer is "more", once it is
    reached every further attachment is refused -/
theorem handback_more (pk : Packet) (need : Nat) (got : List J) (b : J)
    (h : got.length + 1 < need) :
    addAttachment ⟨pk, need, got⟩ b = .ok (.more ⟨pk, need, got ++ [b]⟩) :=
  addAttachment_more b h

theorem handback_refuse (pk : Packet) (need : Nat) (got : List J) (b : J) (h : need ≤ got.length) :
    addAttachment ⟨pk, need, got⟩ b = .error .valueError :=
  addAttachment_extra b h

example : WFCore exP = true ∧
    ((encode J.dumps exP).2.getD []).map J.bin = [J.bin [1, 2]] ++ J.bin [3] :: [] ∧
    ([J.bin [1, 2]] : List J).length + 1 < 3 ∧ 2 ≤ ([J.bin [1, 2], J.bin [3]] : List J).length :=
  ⟨by decide, rfl, by decide, by decide⟩

/-! ## 4. byte strings only for events and acknowledgements -/

theorem binary_only_event_ack (t : Nat) (d : Option J) (nsp : Option Str) (id : Option Nat) :
    (∃ e, mkPacket true t d nsp id none = .error e) ↔
      ((∃ j, d = some j ∧ binLeaves j ≠ []) ∧ t ≠ EVENT ∧ t ≠ ACK) :=
  mkPacket_error_iff t d nsp id

/-- and the error is always `ValueError`, also with an explicit `binary=` argument -/
theorem binary_error_is_valueError (t : Nat) (d : Option J) (nsp : Option Str) (id : Option Nat)
    (b : Option Bool) (e : Err) (h : mkPacket true t d nsp id b = .error e) : e = .valueError :=
  mkPacket_error_valueError t d nsp id b e h

example : (∃ e, mkPacket true CONNECT (some exData) none none none = .error e) :=
  ⟨.valueError, rfl⟩

/-- the constructor promotes exactly EVENT and ACK with a binary payload -/
theorem mk_wellformed (t : Nat) (d : Option J) (nsp : Option Str) (id : Option Nat) (p : Packet)
    (hargs : WFArgs t d nsp id = true) (hmk : mkPacket true t d nsp id none = .ok p) :
    WF p = true :=
  wf_of_mkPacket hargs hmk

/-! ## 5. wire conformance against the independent specification codec -/

/-- `encode` writes exactly the text frame and the attachment list that the grammar of the
    Socket.IO v5 protocol prescribes — for every packet, no hypothesis. -/
theorem encode_is_spec (dumps : J → Str) (p : Packet) :
    encode dumps p = ((Spec.frame dumps p).1,
      if isBinType p.type then some (Spec.frame dumps p).2 else none) :=
  encode_is_spec_lem dumps p

/-- The grammar-directed parser of the specification accepts the frame and reads the wire
    packet and the attachment count from it. -/
theorem spec_accepts {dumps : J → Str} {loads : Str → Except Err J} (p : Packet)
    (hrt : ∀ j, p.wire.data = some j → loads (dumps j) = .ok j)
    (hstart : ∀ j, p.wire.data = some j → StartOK (dumps j) = true)
    (hwf : WF p = true) :
    Spec.parse loads (Spec.frame dumps p).1 = .ok (p.wire, (Spec.frame dumps p).2.length) :=
  spec_accepts_lem hrt hstart (wf_core hwf)

/-- The specification's reassembly puts the byte strings back: placeholders are numbered as
    the specification says. -/
theorem spec_fill (j : J) (h : NoReservedKey j = true) :
    Spec.fill (Spec.blobs j) (Spec.strip 0 j) = some j :=
  spec_fill_strip j h

/-- In the other direction: frames produced by the specification codec are accepted by this
    decoder. -/
theorem spec_frames_decode {cls : Char → DC} (hcls : AsciiCls cls) {dumps : J → Str}
    {loads : Str → Except Err J} (p : Packet)
    (hrt : ∀ j, p.wire.data = some j → loads (dumps j) = .ok j)
    (hstart : ∀ j, p.wire.data = some j → StartOK (dumps j) = true)
    (hwf : WF p = true) :
    decode cls loads (Spec.frame dumps p).1 = .ok (p.wire, (Spec.frame dumps p).2.length) ∧
    feed ⟨p.wire, (Spec.frame dumps p).2.length, []⟩ ((Spec.frame dumps p).2.map J.bin)
      = .ok (if (Spec.frame dumps p).2 = [] then .inl ⟨p.norm, 0, []⟩ else .inr p.norm) := by
  rw [spec_frame_fst, spec_frame_snd]
  exact roundtrip hcls p hrt hstart hwf

example : Spec.parse exLoads (Spec.frame J.dumps exP).1 = .ok (exP.wire, 2) :=
  spec_accepts exP (by
    intro j h
    have : j = (decon exData []).1 := by
      have : exP.wire.data = some (decon exData []).1 := rfl
      rw [this] at h; injection h with h; exact h.symm
    subst this; simp [exLoads])
    (fun j h => dumps_startOK j (wire_json_hyps exP_wf h).2) exP_wf

/-! ## 6. guards (reused by C12) -/

/-- whatever the input: an accepted header announces fewer than `10^10` attachments … -/
theorem hdr_natt_guard {cls : Char → DC} (hd : DecLt10 cls) (s : Str) (h : Hdr)
    (hh : decodeHdr cls s = .ok h) : h.natt < 10 ^ 10 :=
  decodeHdr_natt_bound hd hh

/-- … and carries an id below `10^100` -/
theorem hdr_id_guard {cls : Char → DC} (hd : DecLt10 cls) (s : Str) (h : Hdr) (i : Nat)
    (hh : decodeHdr cls s = .ok h) (hi : h.id = some i) : i < 10 ^ 100 :=
  decodeHdr_id_bound hd hh hi

/-- the hypotheses are met by the ASCII table, and the bound is attained -/
example : DecLt10 asciiCls := asciiCls_decLt10
example : ∃ h, decodeHdr asciiCls "59999999999-".toList = .ok h ∧ h.natt = 9999999999 :=
  ⟨⟨5, none, none, [], 9999999999⟩, rfl, rfl⟩

/-! ## 7. phase 2: the JSON text layer made concrete

`J.loads` (Sio/Model/JsonParse.lean) is a recursive-descent reader for compact JSON: strings with
all escapes including `\uXXXX` surrogate pairs, integers exactly, float literals kept as text.
With it the hypothesis `hrt` of `roundtrip` is discharged: nothing about JSON is assumed any more,
only that float leaves carry well-formed literals (`FltLits`; every `repr` of a finite Python
float is one). -/

/-- The concrete reader inverts the concrete printer on every tree without byte strings. -/
theorem loads_dumps (j : J) (hb : NoBin j = true) (hf : FltLits j = true) :
    J.loads (J.dumps j) = .ok j :=
  loads_dumps_lem j hb hf

example : NoBin (decon exData []).1 = true ∧ FltLits (decon exData []).1 = true ∧
    FltLits (.arr [.flt "1.5e+10".toList, .flt "-0.0".toList, .str "x".toList]) = true := by decide

/-- `roundtrip` with both JSON parameters instantiated: no hypothesis on the text layer. -/
theorem roundtrip_concrete {cls : Char → DC} (hcls : AsciiCls cls) (p : Packet)
    (hwf : WF p = true) (hfl : optAll FltLits p.data = true) :
    let atts := (encode J.dumps p).2.getD []
    decode cls J.loads (encode J.dumps p).1 = .ok (p.wire, atts.length) ∧
    feed ⟨p.wire, atts.length, []⟩ (atts.map J.bin)
      = .ok (if atts = [] then .inl ⟨p.norm, 0, []⟩ else .inr p.norm) :=
  roundtrip hcls p
    (fun j h => loads_dumps_lem j (wire_json_hyps hwf h).1 (wire_fltLits hfl h))
    (fun j h => dumps_startOK j (wire_json_hyps hwf h).2) hwf

/-- likewise for the specification parser -/
theorem spec_accepts_concrete (p : Packet) (hwf : WF p = true)
    (hfl : optAll FltLits p.data = true) :
    Spec.parse J.loads (Spec.frame J.dumps p).1 = .ok (p.wire, (Spec.frame J.dumps p).2.length) :=
  spec_accepts p
    (fun j h => loads_dumps_lem j (wire_json_hyps hwf h).1 (wire_fltLits hfl h))
    (fun j h => dumps_startOK j (wire_json_hyps hwf h).2) hwf

example : WF exP = true ∧ optAll FltLits exP.data = true := by decide

/-! ## 7b. the wire format is unambiguous

A consequence of the round trip that the receiver relies on: no two well-formed packets that differ
(after namespace normalisation) are ever sent as the same frames — whatever the receiver rebuilds
is what the sender meant. -/

/-- Two well-formed packets whose encodings (text frame and attachment list) coincide are the
    same packet up to namespace normalisation. -/
theorem encode_unambiguous {cls : Char → DC} (hcls : AsciiCls cls) (p q : Packet)
    (hp : WF p = true) (hq : WF q = true)
    (hfp : optAll FltLits p.data = true) (hfq : optAll FltLits q.data = true)
    (he : encode J.dumps p = encode J.dumps q) : p.norm = q.norm := by
  have rp := roundtrip_concrete hcls p hp hfp
  have rq := roundtrip_concrete hcls q hq hfq
  simp only [he] at rp
  obtain ⟨dp, fp⟩ := rp
  obtain ⟨dq, fq⟩ := rq
  have hw : p.wire = q.wire := by
    have := dp.symm.trans dq
    injection this with this
    exact (Prod.mk.inj this).1
  rw [hw, fq] at fp
  injection fp with fp
  by_cases ha : (encode J.dumps q).2.getD [] = []
  · simp only [ha, if_true] at fp
    injection fp with fp
    injection fp with fp
    exact fp.symm
  · simp only [ha, if_false] at fp
    injection fp with fp
    exact fp.symm

/-- contrapositive, in the form a reader of the wire uses it: different packets, different frames -/
theorem encode_distinguishes {cls : Char → DC} (hcls : AsciiCls cls) (p q : Packet)
    (hp : WF p = true) (hq : WF q = true)
    (hfp : optAll FltLits p.data = true) (hfq : optAll FltLits q.data = true)
    (hne : p.norm ≠ q.norm) : encode J.dumps p ≠ encode J.dumps q :=
  fun he => hne (encode_unambiguous hcls p q hp hq hfp hfq he)

/-- non-vacuity: `exP` and the same packet with another ack id meet the hypotheses and differ -/
example : WF exP = true ∧ WF ⟨exP.type, exP.nsp, some 13, exP.data⟩ = true ∧
    optAll FltLits exP.data = true ∧
    exP.norm ≠ (⟨exP.type, exP.nsp, some 13, exP.data⟩ : Packet).norm := by
  refine ⟨by decide, by decide, by decide, fun h => ?_⟩
  have := congrArg Packet.id h
  revert this; decide

/-! ## 8. the domain boundary (informational; DESIGN §5 C01)

A bare number as the top-level payload is outside the quantifier (`TopOK`): it is
indistinguishable from an id / an attachment count.  Both witnesses are reproduced on the real
code by the harness on every run. -/

/-- `Packet(CONNECT, data=5)` encodes to `"05"`, which reads as id 5 without payload -/
theorem number_payload_not_roundtrip :
    (encode J.dumps ⟨CONNECT, none, none, some (.int 5)⟩).1 = "05".toList ∧
    decodeHdr asciiCls "05".toList = .ok ⟨0, none, some 5, [], 0⟩ := ⟨rfl, rfl⟩

/-- `Packet(CONNECT_ERROR, id=3, data=-5)` encodes to `"43-5"`: three attachments, id 5 -/
theorem negative_payload_not_roundtrip :
    (encode J.dumps ⟨CONNECT_ERROR, none, some 3, some (.int (-5))⟩).1 = "43-5".toList ∧
    decodeHdr asciiCls "43-5".toList = .ok ⟨4, none, some 5, [], 3⟩ := ⟨rfl, rfl⟩

end Sio.C01
