/-
  C17 — class-based namespace helpers use their own namespace and forward every argument.

  `forwards` is checked against the table regenerated from the Python source on every run;
  `eval_faithful` and its corollaries hold for EVERY row, EVERY value type and EVERY environment, so
  "arbitrary argument values, falsy-but-meaningful ones included" is a theorem, not a sample.
-/
import Sio.Model.Forward
import Sio.Generated.Forward
namespace Sio.C17
open Sio.Forward

/-! ### helper lemmas about association lists -/

theorem assoc_mem {β : Type} {k : Str} {v : β} :
    ∀ {l : List (Str × β)}, assoc k l = some v → (k, v) ∈ l := by
  intro l
  induction l with
  | nil => intro h; simp [assoc] at h
  | cons hd tl ih =>
    obtain ⟨k', v'⟩ := hd
    intro h
    simp only [assoc] at h
    by_cases hk : k' = k
    · simp [hk] at h; subst hk; subst h; simp
    · simp [hk] at h; exact List.mem_cons_of_mem _ (ih h)

theorem assoc_filterMap_self {α : Type} (g : Str → Option α) (k : Str) :
    ∀ l : List Str, k ∈ l →
      assoc k (l.filterMap (fun tp => (g tp).map (fun v => (tp, v)))) = g k := by
  intro l
  induction l with
  | nil => intro h; simp at h
  | cons hd tl ih =>
    intro h
    by_cases hk : hd = k
    · subst hk
      cases hg : g hd with
      | some v => simp [hg, assoc]
      | none =>
        simp only [List.filterMap_cons, hg, Option.map_none]
        by_cases ht : hd ∈ tl
        · rw [ih ht, hg]
        · -- `hd` does not occur in the tail: nothing is found
          have : ∀ l' : List Str, hd ∉ l' →
              assoc hd (l'.filterMap (fun tp => (g tp).map (fun v => (tp, v)))) = none := by
            intro l'
            induction l' with
            | nil => intro _; simp [assoc]
            | cons a as ih' =>
              intro hn
              have ha : a ≠ hd := fun e => hn (by simp [e])
              have hn' : hd ∉ as := fun e => hn (List.mem_cons_of_mem _ e)
              cases hga : g a with
              | none => simpa [List.filterMap_cons, hga] using ih' hn'
              | some w => simpa [List.filterMap_cons, hga, assoc, ha] using ih' hn'
          exact this tl ht
    · have ht : k ∈ tl := by
        rcases List.mem_cons.mp h with e | e
        · exact absurd e.symm hk
        · exact e
      cases hg : g hd with
      | none => simpa [List.filterMap_cons, hg] using ih ht
      | some w => simpa [List.filterMap_cons, hg, assoc, hk] using ih ht

theorem filterMap_congr' {α β : Type} {f g : α → Option β} :
    ∀ {l : List α}, (∀ x ∈ l, f x = g x) → l.filterMap f = l.filterMap g := by
  intro l
  induction l with
  | nil => intro _; rfl
  | cons a as ih =>
    intro h
    have ha : f a = g a := h a (by simp)
    have ht : ∀ x ∈ as, f x = g x := fun x hx => h x (List.mem_cons_of_mem _ hx)
    simp only [List.filterMap_cons, ha, ih ht]

/-! ### the table satisfies the property -/

/-- Every helper of every one of the four classes, as the source reads now, is faithful. -/
theorem forwards : ∀ row ∈ Generated.forwardTable, Faithful row = true := by
  have h : Generated.forwardTable.all Faithful = true := by decide
  intro row hm
  exact List.all_eq_true.mp h row hm

/-- The table covers exactly the helpers the property names: eleven on each server-side class, four
    on each client-side class. -/
theorem table_covers :
    (Generated.forwardTable.map (fun r => (r.cls, r.helper))) =
      ([sNamespace, sAsyncNamespace].flatMap (fun c =>
          ["emit", "send", "call", "enter_room", "leave_room", "close_room", "rooms", "get_session",
           "save_session", "session", "disconnect"].map (fun h => (c, h.toList))))
      ++ ([sClientNamespace, sAsyncClientNamespace].flatMap (fun c =>
          ["emit", "send", "call", "disconnect"].map (fun h => (c, h.toList)))) := by
  decide

/-- The threaded and the asyncio class of each pair have the same table modulo `async`/`await`
    (one listed exception: the vestigial `room` parameter of `ClientNamespace.send`). -/
theorem sync_async_tables_equal : syncAsyncEqual Generated.forwardTable = true := by
  decide

/-! ### a faithful row does what the property says, for every environment -/

theorem wanted_some {pn : List Str} {n : Str} {e : Expr} :
    wanted pn n = some e ↔ (n ∈ pn ∧ e = (if n = nsName then Expr.nsOrSelf else Expr.param n)) := by
  unfold wanted
  by_cases hc : n ∈ pn
  · simp [hc, eq_comm]
  · simp [hc]

theorem wanted_none {pn : List Str} {n : Str} : wanted pn n = none ↔ n ∉ pn := by
  unfold wanted
  by_cases hc : n ∈ pn <;> simp [hc]

/-- the wanted expression evaluates to the value the property names -/
theorem eval_wanted {α : Type} (env : Env α) {pn : List Str} {n : Str} (hn : n ∈ pn) :
    evalExpr env pn (if n = nsName then Expr.nsOrSelf else Expr.param n) =
      some (if n = nsName then nsOr env else env.val n) := by
  by_cases h : n = nsName
  · subst h; simp [evalExpr, hn]
  · simp [h, evalExpr, hn]

/-- **Semantics of a faithful row**: for any value type, any values of the helper's parameters
    (falsy ones included), any `self.namespace`: the call that reaches the server / client is the
    expected one. -/
theorem eval_faithful {α : Type} (r : Row) (env : Env α) (hf : Faithful r = true) :
    eval r env = expected r env := by
  unfold Faithful at hf
  simp only [Bool.and_eq_true] at hf
  obtain ⟨⟨⟨⟨⟨⟨hshape, hpeer⟩, hmeth⟩, hres⟩, _hns⟩, _hord⟩, hcall⟩ := hf
  cases hb : resolveCall r.targetNames r.call with
  | none => simp [hb] at hcall
  | some b =>
    simp only [hb, Bool.and_eq_true] at hcall
    obtain ⟨⟨hbind, hA⟩, hB⟩ := hcall
    have hpeer' : peerOf r.cls = some r.targetObj := by simpa using hpeer
    have hmeth' : r.targetMethod = r.helper := by simpa using hmeth
    -- (A): every binding is the wanted expression
    have hA' : ∀ n e, (n, e) ∈ b → wanted r.paramNames n = some e := by
      intro n e hm
      have := List.all_eq_true.mp hA (n, e) hm
      simpa using this
    -- every bound expression evaluates
    have hev : b.all (fun ne => (evalExpr env r.paramNames ne.2).isSome) = true := by
      apply List.all_eq_true.mpr
      intro ⟨n, e⟩ hm
      obtain ⟨hn, he⟩ := wanted_some.mp (hA' n e hm)
      subst he
      simp only [eval_wanted env hn, Option.isSome_some]
    -- the argument lists agree pointwise
    have hargs : ∀ tp ∈ r.targetNames,
        (match assoc tp b with
          | none => none
          | some e => (evalExpr env r.paramNames e).map (fun v => (tp, v))) =
        (if r.paramNames.contains tp then some (tp, if tp = nsName then nsOr env else env.val tp)
          else none) := by
      intro tp htp
      have hB' := List.all_eq_true.mp hB tp htp
      cases hl : assoc tp b with
      | none =>
        have hc : tp ∉ r.paramNames := by simpa [hl] using hB'
        simp [hc]
      | some e =>
        obtain ⟨hn, he⟩ := wanted_some.mp (hA' tp e (assoc_mem hl))
        subst he
        simp only [eval_wanted env hn, Option.map_some, List.contains_iff_mem, hn, if_true]
    unfold eval expected
    simp only [hshape, hb, hbind, hev, hpeer', hmeth', hres, Bool.not_true, Bool.false_eq_true,
      if_false]
    congr 2
    exact filterMap_congr' hargs

/-- every row of the regenerated table behaves as the property says, in every environment -/
theorem table_behaves {α : Type} (env : Env α) :
    ∀ row ∈ Generated.forwardTable, eval row env = expected row env :=
  fun row hm => eval_faithful row env (forwards row hm)

/-! ### the same, in the words of the property -/

/-- the `expected` argument list, looked up by parameter name -/
theorem expected_assoc {α : Type} (r : Row) (env : Env α) (peer : Str) (hp : peerOf r.cls = some peer)
    (tp : Str) (htp : tp ∈ r.targetNames) :
    ∃ c, expected r env = some c ∧ c.obj = peer ∧ c.method = r.helper ∧ c.resultPassedBack = true ∧
      assoc tp c.args =
        (if tp ∈ r.paramNames then some (if tp = nsName then nsOr env else env.val tp) else none) := by
  refine ⟨_, by simp only [expected, hp]; rfl, rfl, rfl, rfl, ?_⟩
  have h := assoc_filterMap_self
    (fun tp => if tp ∈ r.paramNames then some (if tp = nsName then nsOr env else env.val tp)
               else none) tp r.targetNames htp
  simp only [] at h ⊢
  rw [← h]
  congr 1
  apply filterMap_congr'
  intro a _
  by_cases hc : a ∈ r.paramNames <;> simp [hc]

theorem faithful_peer {r : Row} (hf : Faithful r = true) : peerOf r.cls = some r.targetObj := by
  unfold Faithful at hf; simp only [Bool.and_eq_true] at hf
  simpa using hf.1.1.1.1.1.2

theorem faithful_ns {r : Row} (hf : Faithful r = true) (hp : nsName ∈ r.paramNames) :
    nsName ∈ r.targetNames := by
  unfold Faithful at hf; simp only [Bool.and_eq_true] at hf
  have := hf.1.1.2
  simp only [Bool.or_eq_true, Bool.not_eq_true', List.contains_iff_mem] at this
  rcases this with h | h
  · simp [hp] at h
  · exact h

/-- **Positional arguments reach the same-named parameter**: in a faithful row the parameters the
    helper shares with the target are in the target's relative order, so the i-th positional
    argument of a call written for the target's signature is bound by the helper to the same name
    (as long as no parameter that only one side has comes before it). -/
theorem positional_order (r : Row) (hf : Faithful r = true) :
    r.paramNames.filter (fun p => r.targetNames.contains p)
      = r.targetNames.filter (fun p => r.paramNames.contains p) := by
  unfold Faithful at hf; simp only [Bool.and_eq_true] at hf
  simpa [Row.orderOk] using hf.1.2

/-- in particular, a helper all of whose parameters exist on the target lists them exactly in the
    target's order -/
theorem positional_order_no_vestigial (r : Row) (hf : Faithful r = true)
    (hall : ∀ p ∈ r.paramNames, p ∈ r.targetNames) :
    r.paramNames = r.targetNames.filter (fun p => r.paramNames.contains p) := by
  rw [← positional_order r hf]
  exact (List.filter_eq_self.mpr (fun p hp => by simpa using hall p hp)).symm

/-- **Every argument reaches the same-named parameter unchanged**: for a faithful row, a parameter
    `p` of the helper that the target also has (other than `namespace`) arrives at the target's
    parameter `p` with exactly the helper's value — whatever that value is. -/
theorem argument_forwarded {α : Type} (r : Row) (env : Env α) (hf : Faithful r = true)
    (p : Str) (hp : p ∈ r.paramNames) (ht : p ∈ r.targetNames) (hn : p ≠ nsName) :
    ∃ c, eval r env = some c ∧ assoc p c.args = some (env.val p) := by
  obtain ⟨c, hc, _, _, _, hl⟩ := expected_assoc r env _ (faithful_peer hf) p ht
  refine ⟨c, by rw [eval_faithful r env hf]; exact hc, ?_⟩
  rw [hl]; simp [hp, hn]

/-- **An omitted (falsy) namespace means the namespace the object was registered for**, an explicit
    one is passed through. -/
theorem namespace_rule {α : Type} (r : Row) (env : Env α) (hf : Faithful r = true)
    (hp : nsName ∈ r.paramNames) :
    ∃ c, eval r env = some c ∧
      assoc nsName c.args =
        some (if env.truthy (env.val nsName) then env.val nsName else env.selfNs) := by
  obtain ⟨c, hc, _, _, _, hl⟩ :=
    expected_assoc r env _ (faithful_peer hf) nsName (faithful_ns hf hp)
  refine ⟨c, by rw [eval_faithful r env hf]; exact hc, ?_⟩
  rw [hl]; simp [hp, nsOr]

/-- **Nothing else is touched, same method, result passed back**: the call goes to the same-named
    method of the peer object, its result is returned, and a target parameter the helper does not
    have is not bound (the target's own default applies). -/
theorem same_method_nothing_added {α : Type} (r : Row) (env : Env α) (hf : Faithful r = true) :
    ∃ c, eval r env = some c ∧ some c.obj = peerOf r.cls ∧ c.method = r.helper ∧
      c.resultPassedBack = true ∧
      ∀ tp ∈ r.targetNames, tp ∉ r.paramNames → assoc tp c.args = none := by
  have hpeer := faithful_peer hf
  have hex : ∃ c, expected r env = some c ∧ c.obj = r.targetObj ∧ c.method = r.helper ∧
      c.resultPassedBack = true := ⟨_, by simp only [expected, hpeer]; rfl, rfl, rfl, rfl⟩
  obtain ⟨c, hc, ho, hm, hr⟩ := hex
  refine ⟨c, by rw [eval_faithful r env hf]; exact hc, by rw [ho, hpeer], hm, hr, ?_⟩
  intro tp htp hnp
  obtain ⟨c', hc', _, _, _, hl⟩ := expected_assoc r env _ hpeer tp htp
  have : c' = c := by rw [hc] at hc'; exact (Option.some.inj hc').symm
  subst this
  rw [hl]; simp [hnp]

/-! ### non-vacuity and negative witnesses -/

/-- an environment over `Nat` in which every argument is falsy (0) and `self.namespace` is 7 -/
def exEnv : Env Nat := { val := fun _ => 0, selfNs := 7, truthy := fun n => n != 0, const := fun _ => 99 }

example : Generated.forwardTable ≠ [] := by decide

/-- `Namespace.emit` with the `skip_sid=skip_sid` argument removed from the call -/
def droppedSkipSid : Row :=
  { cls := sNamespace, helper := "emit".toList, isAsync := false,
    params := [⟨"event".toList, false⟩, ⟨"skip_sid".toList, true⟩, ⟨nsName, true⟩], exotic := false,
    bodyOk := true, returned := true, awaited := false, targetObj := sServer,
    targetMethod := "emit".toList, targetFound := true, targetAsync := false,
    targetParams := [⟨"event".toList, false⟩, ⟨"skip_sid".toList, true⟩, ⟨nsName, true⟩],
    targetExotic := false,
    call := [(.pos 0, .param "event".toList), (.kw nsName, .nsOrSelf)] }

/-- the same with the argument in place -/
def keptSkipSid : Row :=
  { droppedSkipSid with call := [(.pos 0, .param "event".toList),
      (.kw "skip_sid".toList, .param "skip_sid".toList), (.kw nsName, .nsOrSelf)] }

example : Faithful keptSkipSid = true := by decide
example : Faithful droppedSkipSid = false := by decide
example : eval droppedSkipSid exEnv ≠ expected droppedSkipSid exEnv := by decide
-- `namespace=self.namespace`-style replacement, swapped parameters and `data or {}` are not faithful
example : Faithful { keptSkipSid with call := [(.pos 0, .param "event".toList),
    (.kw "skip_sid".toList, .param "skip_sid".toList), (.kw nsName, .opaque "self.namespace".toList)] }
    = false := by decide
example : Faithful { keptSkipSid with call := [(.pos 0, .param "skip_sid".toList),
    (.kw "skip_sid".toList, .param "event".toList), (.kw nsName, .nsOrSelf)] } = false := by decide
example : Faithful { keptSkipSid with call := [(.pos 0, .param "event".toList),
    (.kw "skip_sid".toList, .const "None".toList), (.kw nsName, .nsOrSelf)] } = false := by decide
-- the helper's parameters in another order than the target's (everything still forwarded by
-- keyword): a positional caller would be mis-bound, not faithful
example : Faithful { keptSkipSid with
    params := [⟨"event".toList, false⟩, ⟨nsName, true⟩, ⟨"skip_sid".toList, true⟩] } = false := by decide
-- passing an argument by position instead of by keyword is still faithful
example : Faithful { keptSkipSid with call := [(.pos 0, .param "event".toList),
    (.pos 1, .param "skip_sid".toList), (.kw nsName, .nsOrSelf)] } = true := by decide
-- a falsy explicit namespace falls back to self.namespace, a truthy one is kept
example : (eval keptSkipSid exEnv).map (fun c => assoc nsName c.args) = some (some 7) := by decide
example : (eval keptSkipSid { exEnv with val := fun _ => 5 }).map (fun c => assoc nsName c.args)
    = some (some 5) := by decide

end Sio.C17
