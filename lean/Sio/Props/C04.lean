import Sio.Model.Server
namespace Sio.C04
theorem placeholder_stub : True := trivial
end Sio.C04
