/-
  C04 — server connection lifecycle (histories; the asyncio schedules are in C04sched).

  `connect_once`, `connect_no_handler`, `not_served`, `duplicate`: what a CONNECT does — exact
  state and outputs.  `sids_fresh`: session ids are `sidName n` for the values of a counter that
  never decreases, so they are pairwise distinct over any history (relative to DESIGN §4:
  `generate_id()` never repeats).  `disconnect_once`: over any history of the domain the
  disconnect handler of a session runs at most once.  `after_end`: afterwards the session is not
  connected, in no room, never a recipient — for ever.  `other_namespaces_unaffected`.

  About `Sio.Server.step` / `run`, for every decoder, configuration, registry and script; from
  every well-formed state (`Server.WF`, invariant of all reachable states).
-/
import Sio.Lemmas.ServerOnce
namespace Sio.C04
open Sio Sio.Server Sio.Rooms

variable {dec : Str → Except Err (Packet × Nat)} {cfg : Cfg}

/-- frame `v` from `t` is a CONNECT packet for namespace `nsp` with payload `data` -/
structure IsConnect (dec : Str → Except Err (Packet × Nat)) (s : Srv) (t : Eio) (v : J)
    (nsp : Option Str) (data : Option J) : Prop where
  noPartial : s.binbuf.find? (fun e => e.1 = t) = none
  decoded : ∃ n id, frameDecode dec v = .ok (⟨CONNECT, nsp, id, data⟩, n)

theorem step_of_isConnect {s : Srv} {t : Eio} {v : J} {nsp : Option Str} {data : Option J}
    (h : IsConnect dec s t v nsp data) :
    step dec cfg s (.frame t v) = handleConnect cfg s t nsp data := by
  obtain ⟨n, id, hd⟩ := h.decoded
  rw [step, handleFrame_text dec cfg h.noPartial, hd]
  unfold dispatchPacket
  simp

/-! ### demo state -/

def reg0 : Registry := ⟨fun _ _ => true, fun _ => true, fun _ => false, fun _ _ => false⟩
/-- first connect handler call accepts, the second refuses with two arguments -/
def cfg0 : Cfg := ⟨false, some [['/']], false, reg0,
  ⟨fun n => if n = 0 then .accept else .refuse [.str ['n', 'o'], .int 7], fun _ => .ret .none,
   fun _ => .ok⟩⟩
def dec0 : Str → Except Err (Packet × Nat)
  | ['c'] => .ok (⟨CONNECT, none, none, some (.obj [(['k'], .int 1)])⟩, 0)
  | ['d'] => .ok (⟨DISCONNECT, none, none, none⟩, 0)
  | _ => .error .valueError
def tA : Eio := ['A']
def tB : Eio := ['B']
def nsRoot : Ns := ['/']
def hist0 : List Input := [.eioConnect tA, .eioConnect tB, .frame tA (.str ['c'])]
def demo0 : Srv := (run dec0 cfg0 {} hist0).1
theorem demo0_wf : Server.WF demo0 := Server.WF.init.run dec0 cfg0 hist0

/-! ### `connect_once` -/

/-- A CONNECT for a served namespace on which the (open) transport has no session yet, with a
    connect handler registered: the handler is invoked exactly once, with the fresh session id
    `sidName nextSid` and the auth payload when it is truthy (`a = prefix ++ sid :: auth`); then
    * accepted: CONNECT `{sid}` (before the invocation with `always_connect`), the session is
      registered;
    * returned `False` / raised `ConnectionRefusedError(*args)`: CONNECT_ERROR `errorArgs args`
      (with `always_connect`: CONNECT, then DISCONNECT `errorArgs args`), and the state is the
      old one except for the two counters — no membership is retained;
    * raised something else: the exception propagates (no answer; outside the property's domain). -/
theorem connect_once {s : Srv} (h : Server.WF s) {t : Eio} {v : J} {nsp : Option Str}
    {data : Option J} {slot : Slot} {a : List J} (hc : IsConnect dec s t v nsp data)
    (hs : isServed cfg (nsp.getD ['/']) = true) (hn : sidOf s.rooms (nsp.getD ['/']) t = none)
    (ht : t ∈ s.socks)
    (hr : resolve cfg.reg (nsp.getD ['/']) (.str "connect".toList)
            (.str (sidName s.nextSid) :: authArgs data) = .ok (.fn slot a) ∨
          resolve cfg.reg (nsp.getD ['/']) (.str "connect".toList)
            (.str (sidName s.nextSid) :: authArgs data) = .ok (.clsCall slot a)) :
    let ns := nsp.getD ['/']
    let sid := sidName s.nextSid
    let s1 : Srv := { connected s (roomsAfterConnect s.rooms ns t sid) with nConn := s.nConn + 1 }
    let s0 : Srv := { s with nextSid := s.nextSid + 1, nConn := s.nConn + 1 }
    (∃ pre, a = pre ++ (.str sid :: authArgs data)) ∧
    step dec cfg s (.frame t v) =
      match cfg.script.onConnect s.nConn with
      | .accept =>
        (s1, if cfg.alwaysConnect then [.send t (pktConnect ns sid), .invoke slot a]
             else [.invoke slot a, .send t (pktConnect ns sid)])
      | .retFalse =>
        (s0, if cfg.alwaysConnect then
               [.send t (pktConnect ns sid), .invoke slot a, .send t (pktDisconnect ns (some (errorArgs [])))]
             else [.invoke slot a, .send t (pktConnectError ns (errorArgs []))])
      | .refuse args =>
        (s0, if cfg.alwaysConnect then
               [.send t (pktConnect ns sid), .invoke slot a, .send t (pktDisconnect ns (some (errorArgs args)))]
             else [.invoke slot a, .send t (pktConnectError ns (errorArgs args))])
      | .raise =>
        (s1, if cfg.alwaysConnect then [.send t (pktConnect ns sid), .invoke slot a, .raised .other]
             else [.invoke slot a, .raised .other]) := by
  intro ns sid s1 s0
  refine ⟨?_, ?_⟩
  · rcases hr with hr | hr <;> exact resolve_args hr
  · rw [step_of_isConnect hc]
    exact handleConnect_handler h cfg data hs hn ht hr

-- transport B connects: second handler call, refused with ("no", 7)
example : IsConnect dec0 demo0 tB (.str ['c']) none (some (.obj [(['k'], .int 1)])) :=
  ⟨rfl, 0, none, rfl⟩
example : isServed cfg0 nsRoot = true ∧ sidOf demo0.rooms nsRoot tB = none ∧ tB ∈ demo0.socks := by
  decide
example : (step dec0 cfg0 demo0 (.frame tB (.str ['c']))).2 =
    [.invoke (.fn nsRoot "connect".toList) [.str (sidName 1), .obj [(['k'], .int 1)]],
     .send tB (pktConnectError nsRoot (errorArgs [.str ['n', 'o'], .int 7]))] := by rfl
example : (step dec0 cfg0 demo0 (.frame tB (.str ['c']))).1.rooms = demo0.rooms := by rfl

/-- No connect handler registered: accepted, CONNECT `{sid}`, nothing invoked. -/
theorem connect_no_handler {s : Srv} (h : Server.WF s) {t : Eio} {v : J} {nsp : Option Str}
    {data : Option J} (hc : IsConnect dec s t v nsp data)
    (hs : isServed cfg (nsp.getD ['/']) = true) (hn : sidOf s.rooms (nsp.getD ['/']) t = none)
    (ht : t ∈ s.socks)
    (hr : resolve cfg.reg (nsp.getD ['/']) (.str "connect".toList)
            (.str (sidName s.nextSid) :: authArgs data) = .ok .notHandled ∨
          resolve cfg.reg (nsp.getD ['/']) (.str "connect".toList)
            (.str (sidName s.nextSid) :: authArgs data) = .ok .clsNoMethod) :
    step dec cfg s (.frame t v) =
      (connected s (roomsAfterConnect s.rooms (nsp.getD ['/']) t (sidName s.nextSid)),
        [.send t (pktConnect (nsp.getD ['/']) (sidName s.nextSid))]) := by
  rw [step_of_isConnect hc]
  exact handleConnect_no_handler h cfg data hs hn ht hr

/-- CONNECT for a namespace that is not served: CONNECT_ERROR "Unable to connect", no handler,
    state unchanged. -/
theorem not_served {s : Srv} {t : Eio} {v : J} {nsp : Option Str} {data : Option J}
    (hc : IsConnect dec s t v nsp data) (hs : isServed cfg (nsp.getD ['/']) = false) :
    step dec cfg s (.frame t v) =
      (s, sendTo s (some t) (pktConnectError (nsp.getD ['/']) (.str "Unable to connect".toList))) := by
  rw [step_of_isConnect hc]
  exact handleConnect_refused_early cfg s t nsp data (Or.inl hs)

/-- a configuration that serves only `/` and registers no handler at all -/
def reg1 : Registry := ⟨fun _ _ => false, fun _ => false, fun _ => false, fun _ _ => false⟩
def cfg1 : Cfg := ⟨false, some [['/']], false, reg1, cfg0.script⟩
def dec1 : Str → Except Err (Packet × Nat)
  | ['z'] => .ok (⟨CONNECT, some ['/', 'z'], none, none⟩, 0)
  | t => dec0 t
def demo1 : Srv := (run dec1 cfg1 {} [.eioConnect tA]).1
example : IsConnect dec1 demo1 tA (.str ['z']) (some ['/', 'z']) none := ⟨rfl, 0, none, rfl⟩
example : isServed cfg1 ['/', 'z'] = false := by decide
example : (step dec1 cfg1 demo1 (.frame tA (.str ['z']))).2 =
    [.send tA (pktConnectError ['/', 'z'] (.str "Unable to connect".toList))] := by rfl
-- … and `/` is served there without any connect handler (`connect_no_handler`)
example : isServed cfg1 nsRoot = true ∧ sidOf demo1.rooms nsRoot tA = none ∧ tA ∈ demo1.socks := by
  decide
example : (step dec1 cfg1 demo1 (.frame tA (.str ['c']))).2 =
    [.send tA (pktConnect nsRoot (sidName 0))] := by rfl

/-- CONNECT on a namespace the transport is already connected to: the same refusal. -/
theorem duplicate {s : Srv} {t : Eio} {v : J} {nsp : Option Str} {data : Option J} {sid : Sid}
    (hc : IsConnect dec s t v nsp data) (hs : sidOf s.rooms (nsp.getD ['/']) t = some sid) :
    step dec cfg s (.frame t v) =
      (s, sendTo s (some t) (pktConnectError (nsp.getD ['/']) (.str "Unable to connect".toList))) := by
  rw [step_of_isConnect hc]
  exact handleConnect_refused_early cfg s t nsp data (Or.inr (by rw [hs]; rfl))

example : sidOf demo0.rooms nsRoot tA = some (sidName 0) := by decide

/-! ### `sids_fresh` -/

/-- Every session id in use is `sidName k` for some `k` below the counter; ids in use on
    different transports or namespaces are different; the counter never decreases over any
    history.  Hence the id `sidName nextSid` handed out by a CONNECT was never used before and
    is never handed out again: all allocated ids are pairwise distinct. -/
theorem sids_fresh {s : Srv} (h : Server.WF s) :
    (∀ e ∈ s.rooms, ∃ k, k < s.nextSid ∧ e.sid = sidName k) ∧
    (∀ e₁ ∈ s.rooms, ∀ e₂ ∈ s.rooms, e₁.sid = e₂.sid → e₁.ns = e₂.ns ∧ e₁.eio = e₂.eio) ∧
    (∀ is : List Input, s.nextSid ≤ (run dec cfg s is).1.nextSid) ∧
    (∀ (is : List Input), ∀ e ∈ (run dec cfg s is).1.rooms,
      e.sid = sidName (run dec cfg s is).1.nextSid → False) ∧
    (∀ a b : Nat, sidName a = sidName b → a = b) := by
  refine ⟨h.sidAlloc, ?_, fun is => nextSid_mono h dec cfg is, ?_, fun _ _ => sidName_inj⟩
  · intro e₁ h₁ e₂ h₂ heq
    have hns := h.sidNs e₁ h₁ e₂ h₂ heq
    exact ⟨hns, h.rooms.sidEio e₁ h₁ e₂ h₂ hns heq⟩
  · intro is e he heq
    obtain ⟨k, hk, hs⟩ := (h.run dec cfg is).sidAlloc e he
    have := sidName_inj (hs.symm.trans heq)
    omega

/-- A later CONNECT gets a different id than an earlier one, whatever happened in between. -/
theorem sids_fresh_later {s : Srv} (h : Server.WF s) (i : Input) (is : List Input)
    (hi : (step dec cfg s i).1.nextSid = s.nextSid + 1) :
    sidName (run dec cfg (step dec cfg s i).1 is).1.nextSid ≠ sidName s.nextSid := by
  intro heq
  have h1 := nextSid_mono (h.step dec cfg i) dec cfg is
  have := sidName_inj heq
  omega

example : (step dec0 cfg0 demo0 (.frame tB (.str ['c']))).1.nextSid = demo0.nextSid + 1 := by decide

/-! ### `disconnect_once` -/

/-- Over any history of the property's domain (`Dom`: no handler is run for a client event that
    is literally named "disconnect"), from any well-formed state, for every session id: the
    disconnect handler is invoked at most once; not at all if the session had already ended; and
    when it is invoked the session has ended (`Dead`: allocated and connected nowhere). -/
theorem disconnect_once {s : Srv} (h : Server.WF s) {is : List Input} (hd : Dom dec cfg s is)
    (k : Nat) :
    discCount (sidName k) (run dec cfg s is).2 ≤ 1 ∧
    (Dead k s → discCount (sidName k) (run dec cfg s is).2 = 0) ∧
    (discCount (sidName k) (run dec cfg s is).2 = 1 → Dead k (run dec cfg s is).1) := by
  have := once_run hd h k
  exact ⟨this.le1, this.dead0, this.dead1⟩

-- the demo: A's session ends by a client DISCONNECT; the later transport loss and the server's
-- disconnect() find nothing to end
def histD : List Input :=
  [.frame tA (.str ['d']), .eioLost tA ['x'], .apiDisconnect (sidName 0) nsRoot]
example : Dom dec0 cfg0 demo0 histD := by
  refine .frame ?_ (.other (by simp) (by simp) (by simp) (.other (by simp) (by simp) (by simp) .nil))
  intro nsp id data s₁ first rest hc
  cases hc with
  | text hf hd ht =>
    have : frameDecode dec0 (.str ['d']) = .ok (⟨DISCONNECT, none, none, none⟩, 0) := rfl
    rw [this] at hd
    cases hd
    cases ht
  | binary hf => cases hf
example : discCount (sidName 0) (run dec0 cfg0 demo0 histD).2 = 1 := by decide

/-- `disconnect(sid, ns)` for a connected session with a disconnect handler registered: the
    handler is invoked exactly once, with `sid` and the reason of this path. -/
theorem disconnect_api_runs {s : Srv} {sid : Sid} {ns : Ns} {slot : Slot} {a : List J}
    (hc : isConnected s sid ns = true)
    (hr : resolve cfg.reg ns (.str "disconnect".toList)
            [.str sid, .str "server disconnect".toList] = .ok (.fn slot a) ∨
          resolve cfg.reg ns (.str "disconnect".toList)
            [.str sid, .str "server disconnect".toList] = .ok (.clsCall slot a)) :
    (step dec cfg s (.apiDisconnect sid ns)).2.filter Out.isInvoke = [.invoke slot a] ∧
    (∃ pre, a = pre ++ [.str sid, .str "server disconnect".toList]) ∧
    ∃ k, (step dec cfg s (.apiDisconnect sid ns)).1 = ending s sid ns k := by
  rw [step]; unfold apiDisconnect
  simp only [hc, Bool.not_true, Bool.false_eq_true, if_false]
  obtain ⟨h1, h2⟩ := endSession_invokes cfg s sid ns "server disconnect".toList true hr
  exact ⟨h1, h2, endSession_state ..⟩

/-- frame `v` from `t` is a DISCONNECT packet for namespace `nsp` -/
structure IsDisconnect (dec : Str → Except Err (Packet × Nat)) (s : Srv) (t : Eio) (v : J)
    (nsp : Option Str) : Prop where
  noPartial : s.binbuf.find? (fun e => e.1 = t) = none
  decoded : ∃ n id data, frameDecode dec v = .ok (⟨DISCONNECT, nsp, id, data⟩, n)

/-- A client DISCONNECT on a namespace the transport is connected to, with a disconnect handler
    registered: the handler is invoked exactly once, with the session id of that transport on
    that namespace and the reason "client disconnect"; the session is ended. -/
theorem disconnect_client_runs {s : Srv} (h : Server.WF s) {t : Eio} {v : J} {nsp : Option Str}
    {sid : Sid} {slot : Slot} {a : List J} (hd : IsDisconnect dec s t v nsp)
    (hs : sidOf s.rooms (nsp.getD ['/']) t = some sid)
    (hr : resolve cfg.reg (nsp.getD ['/']) (.str "disconnect".toList)
            [.str sid, .str "client disconnect".toList] = .ok (.fn slot a) ∨
          resolve cfg.reg (nsp.getD ['/']) (.str "disconnect".toList)
            [.str sid, .str "client disconnect".toList] = .ok (.clsCall slot a)) :
    (step dec cfg s (.frame t v)).2.filter Out.isInvoke = [.invoke slot a] ∧
    (∃ pre, a = pre ++ [.str sid, .str "client disconnect".toList]) ∧
    ∃ k, (step dec cfg s (.frame t v)).1 = ending s sid (nsp.getD ['/']) k := by
  obtain ⟨n, id, data, hdec⟩ := hd.decoded
  have hstep : step dec cfg s (.frame t v) =
      ((handleDisconnect cfg s t (nsp.getD ['/']) "client disconnect".toList).1,
       (handleDisconnect cfg s t (nsp.getD ['/']) "client disconnect".toList).2.1) := by
    rw [step, handleFrame_text dec cfg hd.noPartial, hdec]
    unfold dispatchPacket
    simp [DISCONNECT, CONNECT]
  have hdis : handleDisconnect cfg s t (nsp.getD ['/']) "client disconnect".toList =
      endSession cfg s sid (nsp.getD ['/']) "client disconnect".toList false := by
    unfold handleDisconnect
    rw [hs]
    simp only [isConnected_of_sidOf h hs, Bool.not_true, Bool.false_eq_true, if_false]
  rw [hstep, hdis]
  obtain ⟨h1, h2⟩ := endSession_invokes cfg s sid (nsp.getD ['/']) "client disconnect".toList false hr
  exact ⟨h1, h2, endSession_state ..⟩

example : IsDisconnect dec0 demo0 tA (.str ['d']) none := ⟨rfl, 0, none, none, rfl⟩
example : (step dec0 cfg0 demo0 (.frame tA (.str ['d']))).2 =
    [.invoke (.fn nsRoot "disconnect".toList) [.str (sidName 0), .str "client disconnect".toList]] := by
  rfl
example : isConnected demo0 (sidName 0) nsRoot = true := by decide

/-- The gate itself: once a session has ended, `disconnect()` and a client DISCONNECT for it do
    nothing. -/
theorem disconnect_after_end {s : Srv} (h : Server.WF s) {sid : Sid} (hl : ¬ sidLive s.rooms sid)
    (ns : Ns) : step dec cfg s (.apiDisconnect sid ns) = (s, []) := by
  rw [step]; unfold apiDisconnect
  rw [(not_connected_of_not_live h hl ns).1]; rfl

example : ¬ sidLive (step dec0 cfg0 demo0 (.frame tA (.str ['d']))).1.rooms (sidName 0) := by
  rintro ⟨ns, e, he⟩
  have : (step dec0 cfg0 demo0 (.frame tA (.str ['d']))).1.rooms = [] := by decide
  rw [this] at he; cases he

/-! ### `after_end` -/

/-- After a session `sid` on `ns` (transport `t`) has been ended — by a client DISCONNECT,
    `disconnect()` or transport loss: all three reach `ending` — in every later state of every
    history it is not connected, is in no room, and is not among the recipients of any emit on
    any namespace: nothing is delivered through it again. -/
theorem after_end {s : Srv} (h : Server.WF s) {sid : Sid} {ns : Ns} {t : Eio}
    (he : eioOf s.rooms ns sid = some t) (k : Nat) (is : List Input) (ns' : Ns) :
    let s' := (run dec cfg (ending s sid ns k) is).1
    isConnected s' sid ns' = false ∧ getRooms s'.rooms ns' sid = [] ∧
    ∀ to skip, sid ∉ (recipients s'.rooms ns' to skip).map Prod.fst := by
  intro s'
  have hw := (Reach.ending h he k).wf h
  obtain ⟨j, hj, hs⟩ := h.sidAlloc _ (eioOf_some_mem he)
  simp only at hs
  subst hs
  have hd : Dead j (ending s (sidName j) ns k) := ⟨hj, not_sidLive_disconnect h.toWF0 he⟩
  exact not_connected_of_not_live (hw.run dec cfg is) (hd.run hw dec cfg is).2 ns'

example : eioOf demo0.rooms nsRoot (sidName 0) = some tA := by decide

/-- each of the three causes ends the session through the same state change -/
theorem end_paths (s : Srv) (sid : Sid) (ns : Ns) (reason : Str) (b : Bool) :
    ∃ k, (endSession cfg s sid ns reason b).1 = ending s sid ns k :=
  endSession_state cfg s sid ns reason b

/-! ### `other_namespaces_unaffected` -/

/-- Ending the session on `ns` leaves every room entry of every other namespace — the same
    transport's other sessions included — exactly as it was. -/
theorem other_namespaces_unaffected (s : Srv) (sid : Sid) (ns : Ns) (k : Nat) :
    (ending s sid ns k).rooms.filter (fun e => e.ns != ns) = s.rooms.filter (fun e => e.ns != ns) :=
  ending_other_ns s sid ns k

end Sio.C04
