/-
  C15 — The pub/sub listener survives anything that arrives on the channel.

  Model: `Sio/Model/PubSub.lean` — `listen` (the `for message in self._listen()` loop of
  `PubSubManager._thread` / `AsyncPubSubManager._thread` with both `except` clauses), `listenStep`
  (one iteration: decoding fallbacks, the pre-dispatch test, the per-message `try`), `dispatch`
  (the `_handle_*` methods on a decoded dict whose fields arrive classified), `retryRun`
  (`_redis_listen_with_retries`).  The statements quantify over every stream of entries, every
  host state and every classified message; nothing is bounded.
-/
import Sio.Lemmas.PubSubListen
namespace Sio.C15
open Sio.PubSub Sio.Rooms

/-! ## Vocabulary -/

/-- no entry of the stream makes application code raise a `BaseException` that is not an
    `Exception` (`SystemExit`, `KeyboardInterrupt`, task cancellation: by design the way out) -/
def NoFatal (es : List Item) : Prop := ∀ e ∈ es, e.fault ≠ .fatal

/-- the result of processing nothing -/
def idle (h : Host) : LRes := { h := h }

/-! ## A host and a stream used for the non-vacuity examples

`hA` has one client `s0` (transport `t0`) in room `r`, and an outstanding user callback 7 under
key `s0`, id 1 (what `emit(..., to='s0', callback=cb)` leaves).  -/

def hidA : HostId := ['h', 'A']
def hidB : HostId := ['h', 'B']
def nsR : Ns := ['/']
def s0 : Sid := ['s', '0']
def t0 : Eio := ['t', '0']
def rR : Room := ['r']

def hA : Host :=
  { id := hidA,
    rooms := [⟨nsR, none, s0, t0⟩, ⟨nsR, some s0, s0, t0⟩, ⟨nsR, some rR, s0, t0⟩],
    cbs := fun k i => if k = s0 ∧ i = 1 then some (.user 7) else none,
    ctr := fun k => if k = s0 then 1 else 0 }

/-- a valid emit to room `r` published by host B -/
def goodEmit : DMsg := (Msg.emit hidB ['e'] .none nsR (.one rR) .none none).toD
/-- the acknowledgement of callback (s0, 1), addressed to host A -/
def goodCallback : DMsg := (Msg.callback (some hidA) s0 nsR 1 [.int 5]).toD
/-- the same acknowledgement addressed to host B -/
def foreignCallback : DMsg := (Msg.callback (some hidB) s0 nsR 1 [.int 5]).toD
/-- host A's own emit coming back -/
def ownEcho : DMsg := (Msg.emit hidA ['e'] .none nsR (.one rR) .none none).toD
/-- an emit whose `callback` field has no `len()` -/
def badEmit : DMsg := { goodEmit with cb := .noLen }

def entry (m : DMsg) (f : Fault := .none) : Item := { raw := .bytes (.dict m) .none, fault := f }

def garbage : List Item :=
  [ { raw := .bytes .none .none },              -- random bytes: neither pickle nor JSON
    { raw := .bytes .none (.seq false) },       -- JSON of a list
    { raw := .bytes .scalar .none },            -- pickle of 42: `'method' in 42` raises
    { raw := .text (.seq true) },               -- the string "method": `data['method']` raises
    { raw := .listenRaises },
    entry badEmit, entry ownEcho, entry foreignCallback,
    entry { goodEmit with method := some ['n', 'o', 'p', 'e'] } ]

/-! ## never_dies -/

/-- Whatever arrives — undecodable bytes, values of any type, dicts with any fields, handlers and
    application code raising any `Exception`, the iterator raising — the loop is still running
    after it. -/
theorem never_dies (h : Host) (es : List Item) (hn : NoFatal es) : (listen h es).alive = true := by
  induction es generalizing h with
  | nil => rfl
  | cons e es ih =>
    have he : (listenStep h e).alive = true := by
      cases ha : (listenStep h e).alive with
      | true => rfl
      | false => exact absurd (listenStep_dies ha) (hn e List.mem_cons_self)
    rw [listen_cons]
    simp only [he, if_true]
    exact ih _ (fun x hx => hn x (List.mem_cons_of_mem _ hx))

/-- the only exit: application code raised a `BaseException` that is not an `Exception` -/
theorem dies_only_fatal {h : Host} {e : Item} (hd : (listenStep h e).alive = false) :
    e.fault = .fatal := listenStep_dies hd

example : NoFatal garbage := by
  intro e he
  simp only [garbage, entry, List.mem_cons, List.not_mem_nil, or_false] at he
  rcases he with rfl | rfl | rfl | rfl | rfl | rfl | rfl | rfl | rfl <;> decide
example : (listen hA garbage).alive = true := never_dies _ _ (by
  intro e he
  simp only [garbage, entry, List.mem_cons, List.not_mem_nil, or_false] at he
  rcases he with rfl | rfl | rfl | rfl | rfl | rfl | rfl | rfl | rfl <;> decide)
-- the hypothesis is needed: a callback that raises SystemExit ends the listener
example : (listen hA [entry goodCallback .fatal, entry goodEmit]).alive = false := by decide
example : (listen hA [entry goodCallback .fatal, entry goodEmit]).outs.length = 1 := by decide

/-! ## continues -/

/-- Fold law: after any prefix and any entry `m`, the rest of the stream is processed from the
    state that `m` left — completely, and with nothing else changed. -/
theorem continues (h : Host) (pre post : List Item) (m : Item) (hpre : NoFatal pre)
    (hm : m.fault ≠ .fatal) :
    listen h (pre ++ m :: post) =
      ((listen h pre).andThen (listenStep (listen h pre).h m)).andThen
        (listen (listenStep (listen h pre).h m).h post) := by
  have h1 : (listen h pre).alive = true := never_dies h pre hpre
  have h2 : (listenStep (listen h pre).h m).alive = true := by
    cases ha : (listenStep (listen h pre).h m).alive with
    | true => rfl
    | false => exact absurd (listenStep_dies ha) hm
  rw [listen_append]
  simp only [h1, if_true]
  rw [listen_cons]
  simp only [h2, if_true, LRes.andThen_assoc]

/-- In particular every later entry takes effect: the final state is the one reached by running
    `post` after `m`. -/
theorem continues_state (h : Host) (pre post : List Item) (m : Item) (hpre : NoFatal pre)
    (hm : m.fault ≠ .fatal) :
    (listen h (pre ++ m :: post)).h = (listen (listenStep (listen h pre).h m).h post).h := by
  rw [continues h pre post m hpre hm]; rfl

/-- An entry that leaves the state alone (garbage) can be deleted from the stream: the state at the
    end, and what the remaining entries output, are those of the stream without it.  (This is the
    oracle of the check: run with and without the garbage.) -/
theorem inert_removable (h : Host) (pre post : List Item) (m : Item) (hpre : NoFatal pre)
    (hm : m.fault ≠ .fatal) (hin : (listenStep (listen h pre).h m).h = (listen h pre).h) :
    (listen h (pre ++ m :: post)).h = (listen h (pre ++ post)).h ∧
    (listen h (pre ++ m :: post)).alive = (listen h (pre ++ post)).alive ∧
    (listen h (pre ++ m :: post)).outs =
      (listen h pre).outs ++ (listenStep (listen h pre).h m).outs ++
        (listen (listen h pre).h post).outs ∧
    (listen h (pre ++ post)).outs = (listen h pre).outs ++ (listen (listen h pre).h post).outs := by
  have h1 : (listen h pre).alive = true := never_dies h pre hpre
  rw [continues h pre post m hpre hm, listen_append, hin]
  simp [h1, LRes.andThen]

example : (listen hA (garbage ++ [entry goodEmit])).outs.filter isCallbackOut = [] := by decide
example : (listen hA (garbage ++ [entry goodEmit])).h.rooms = hA.rooms := by decide
-- the valid emit after nine pieces of garbage reaches the client
example : ((listen hA (garbage ++ [entry goodEmit])).outs.getLast?).isSome = true := by decide

/-! ## what is inert -/

/-- Undecodable bytes, falsy values, containers without `'method'`: nothing happens at all. -/
theorem undecodable_inert (h : Host) (raw : Raw) (f : Fault)
    (hs : preDispatch (decode raw) = .skip) (hr : raw ≠ .listenRaises) :
    listenStep h ⟨raw, f⟩ = idle h := by
  unfold listenStep
  split
  · rename_i heq; exact absurd heq hr
  · simp only [hs]; rfl

/-- Truthy values for which the test `'method' in data` or the debug line `data['method']` raises
    (numbers, the string "…method…", a list containing "method"): the exception escapes the
    per-message `try`, the OUTER handler logs it, `_listen()` is called again; state untouched. -/
theorem boom_restarts (h : Host) (raw : Raw) (f : Fault)
    (hs : preDispatch (decode raw) = .boom) (hr : raw ≠ .listenRaises) :
    listenStep h ⟨raw, f⟩ = { h := h, outs := [.restarted h.id] } := by
  unfold listenStep
  split
  · rename_i heq; exact absurd heq hr
  · simp only [hs]

/-- The iterator itself raising: same containment. -/
theorem listen_raises_restarts (h : Host) (f : Fault) :
    listenStep h ⟨.listenRaises, f⟩ = { h := h, outs := [.restarted h.id] } := rfl

def knownMethods : List Str := [mCallback, mEmit, mDisconnect, mEnterRoom, mLeaveRoom, mCloseRoom]

/-- A dict with an unknown (or non-string) method. -/
theorem unknown_method_inert (h : Host) (m : DMsg)
    (hu : ∀ s ∈ knownMethods, m.method ≠ some s) : dispatch h m = { h := h } := by
  have h1 := hu mCallback (by simp [knownMethods])
  have h2 := hu mEmit (by simp [knownMethods])
  have h3 := hu mDisconnect (by simp [knownMethods])
  have h4 := hu mEnterRoom (by simp [knownMethods])
  have h5 := hu mLeaveRoom (by simp [knownMethods])
  have h6 := hu mCloseRoom (by simp [knownMethods])
  simp [dispatch, h1, h2, h3, h4, h5, h6]

/-- **A server never re-applies a message it published itself**: whatever the method (other than
    `callback`) and whatever the fields, a dict that carries this host's id does nothing. -/
theorem no_self_apply (h : Host) (m : DMsg) (hown : m.hostId = some h.id)
    (hm : m.method ≠ some mCallback) : dispatch h m = { h := h } := by
  simp [dispatch, hm, hown]

/-- ... also with the application scripted to fail, at the level of the loop -/
theorem no_self_apply_step (h : Host) (m : DMsg) (f : Fault) (hown : m.hostId = some h.id)
    (hm : m.method ≠ some mCallback) (j : Decoded) :
    listenStep h ⟨.dict (.dict m), f⟩ = idle h ∧
    listenStep h ⟨.bytes (.dict m) j, f⟩ = idle h ∧
    listenStep h ⟨.bytes .none (.dict m), f⟩ = idle h ∧
    listenStep h ⟨.text (.dict m), f⟩ = idle h := by
  have hd := no_self_apply h m hown hm
  have key : ∀ raw, raw ≠ Raw.listenRaises → decode raw = .dict m → listenStep h ⟨raw, f⟩ = idle h := by
    intro raw hr hdec
    unfold listenStep
    split
    · rename_i heq; exact absurd heq hr
    · simp only [hdec, preDispatch, dispatchF, hd, hown]
      simp [idle]
  refine ⟨key _ (by simp) rfl, key _ (by simp) rfl, key _ (by simp) rfl, key _ (by simp) rfl⟩

/-- **An acknowledgement addressed to another server never completes a local callback**: a
    `callback` message whose `host_id` is not this host's does nothing, whatever ids it names —
    even ids of callbacks that are outstanding here. -/
theorem foreign_callback_inert (h : Host) (m : DMsg) (hm : m.method = some mCallback)
    (hf : m.hostId ≠ some h.id) : dispatch h m = { h := h } := by
  simp [dispatch, hm, handleCallback, hf]

theorem foreign_callback_inert_step (h : Host) (m : DMsg) (f : Fault)
    (hm : m.method = some mCallback) (hf : m.hostId ≠ some h.id) :
    listenStep h ⟨.bytes (.dict m) .none, f⟩ = idle h := by
  have hd := foreign_callback_inert h m hm hf
  have hne : m.method ≠ some mDisconnect := by rw [hm]; decide
  unfold listenStep
  simp only [decode, preDispatch, dispatchF, hd, hne]
  simp [idle]

/-- A `callback` for this host that names an unknown id (already answered, never issued, key of a
    client that is gone) is ignored. -/
theorem unknown_callback_inert (h : Host) (m : DMsg) (key : Str) (id : Nat)
    (hm : m.method = some mCallback) (hs : m.sid = .ok key) (hi : m.id = .ok id)
    (hn : h.cbs key id = none) : dispatch h m = { h := h } := by
  simp only [dispatch, hm, if_true, handleCallback]
  split
  · rw [hs, hi]
    cases m.args <;> simp [trigger_absent _ _ _ _ _ hn]
  · rfl

-- non-vacuity: the callback (s0, 1) IS outstanding on hA; the same message completes it when it is
-- addressed to hA and does nothing when it is addressed to hB
example : (dispatch hA goodCallback).outs.length = 1 := by decide
example : ((dispatch hA goodCallback).h.cbs s0 1).isNone = true := by decide
example : ((dispatch hA foreignCallback).h.cbs s0 1).isSome = true := by
  rw [foreign_callback_inert hA foreignCallback rfl (by decide)]; decide
example : dispatch hA ownEcho = { h := hA } := no_self_apply hA ownEcho rfl (by decide)
-- ... while the same emit from another host is delivered
example : (dispatch hA goodEmit).outs.length = 1 := by decide

/-! ## error_is_noop -/

/-- A handler that fails, fails before it has done anything: the state is the one before the
    message, nothing was sent, nothing published.  The one exception is excluded by hypothesis: a
    `callback` message whose `args` cannot be unpacked (`callback(*args)` raises after
    `trigger_callback` has removed the entry). -/
theorem error_is_noop (h : Host) (m : DMsg) (e : Err) (herr : (dispatch h m).err = some e)
    (hargs : m.args ≠ .nonIterable) :
    (dispatch h m).h = h ∧ (dispatch h m).outs = [] ∧ (dispatch h m).pubs = [] := by
  rcases errNoop_dispatch h m hargs with hnone | hnoop
  · rw [hnone] at herr; cases herr
  · exact hnoop

/-- at the level of the loop: a contained handler error leaves the state alone and the loop alive -/
theorem error_is_noop_step (h : Host) (m : DMsg) (e : Err) (herr : (dispatch h m).err = some e)
    (hargs : m.args ≠ .nonIterable) (f : Fault) :
    (listenStep h ⟨.bytes (.dict m) .none, f⟩).h = h ∧
    (listenStep h ⟨.bytes (.dict m) .none, f⟩).alive = true ∧
    (listenStep h ⟨.bytes (.dict m) .none, f⟩).pubs = [] := by
  obtain ⟨h1, h2, h3⟩ := error_is_noop h m e herr hargs
  unfold listenStep
  simp only [decode, preDispatch, dispatchF]
  split
  · simp
  · simp [herr, h1, h2, h3]

/-- `server.disconnect` itself failing (before it does anything): contained, state untouched -/
theorem server_failure_is_noop (h : Host) (m : DMsg) (hm : m.method = some mDisconnect)
    (hf : m.hostId ≠ some h.id) :
    listenStep h ⟨.bytes (.dict m) .none, .srv⟩ =
      { h := h, outs := [.handlerError h.id .other] } := by
  unfold listenStep
  simp [decode, preDispatch, dispatchF, hm, hf]

-- non-vacuity: `badEmit` fails with TypeError and is a no-op; a `callback` with non-iterable
-- arguments is the excluded case (the entry is gone although the callback never ran)
example : (dispatch hA badEmit).err = some .typeError := by decide
example : (dispatch hA badEmit).h.rooms = hA.rooms := by decide
example : (dispatch hA { goodCallback with args := .nonIterable }).err = some .typeError := by decide
example : ((dispatch hA { goodCallback with args := .nonIterable }).h.cbs s0 1).isNone = true := by
  decide

/-! ## surplus fields -/

/-- Fields a method does not read do not matter: e.g. an `enter_room` message may carry any
    `event`, `data`, `skip_sid`, `callback`, `id`, `args`. -/
theorem surplus_ignored_room_ops (h : Host) (m : DMsg) (ev : Option J) (d : Option Data) (sk : Skip)
    (cb : CbFld) (id : IdFld) (args : ArgsFld)
    (hm : m.method = some mEnterRoom ∨ m.method = some mLeaveRoom ∨ m.method = some mCloseRoom ∨
          m.method = some mDisconnect) :
    dispatch h { m with event := ev, data := d, skip := sk, cb := cb, id := id, args := args } =
      dispatch h m := by
  rcases hm with hm | hm | hm | hm <;>
    simp [dispatch, hm, handleEnterRoom, handleLeaveRoom, handleCloseRoom, handleDisconnect]

theorem surplus_ignored_emit (h : Host) (m : DMsg) (sid : Fld Str) (id : IdFld) (args : ArgsFld)
    (hm : m.method = some mEmit) :
    dispatch h { m with sid := sid, id := id, args := args } = dispatch h m := by
  simp [dispatch, hm, handleEmit]

/-! ## Redis: capped back-off, and nothing is lost -/

/-- consecutive failures to reconnect, `k` of them, after the connection broke while listening:
    the sleeps are 1, 2, 4, …, capped at 60 -/
theorem backoff (n k : Nat) :
    (retryRun {} (.listenFails n :: List.replicate k .connectFails)).2.sleeps =
      (List.range (k + 1)).map (fun i => min (2 ^ i) 60) := by
  have key : ∀ (k j : Nat),
      (retryRun { retrySleep := min (2 ^ j) 60, connect := true } (List.replicate k .connectFails)).2.sleeps
        = (List.range k).map (fun i => min (2 ^ (j + i)) 60) := by
    intro k
    induction k with
    | zero => intro j; rfl
    | succ k ih =>
      intro j
      simp only [List.replicate_succ, retryRun, retryPass, if_true]
      rw [min_double, ← Nat.pow_succ, ih (j + 1)]
      rw [List.range_succ_eq_map, List.map_cons, List.map_map]
      simp only [List.cons_append, List.nil_append, Nat.add_zero, List.cons.injEq, true_and]
      apply List.map_congr_left
      intro i _
      simp only [Function.comp, Nat.succ_eq_add_one]
      congr 2
      omega
  simp only [retryRun, retryPass]
  have := key k 1
  simp only [Nat.pow_one] at this
  simp only [Bool.false_eq_true, if_false, Nat.one_mul]
  show [1] ++ _ = _
  have h2 : min (1 * 2) 60 = min 2 60 := rfl
  rw [h2, this, List.range_succ_eq_map, List.map_cons, List.map_map]
  simp only [Nat.pow_zero, List.cons_append, List.nil_append, List.cons.injEq]
  refine ⟨by decide, ?_⟩
  apply List.map_congr_left
  intro i _
  simp only [Function.comp, Nat.succ_eq_add_one]
  congr 2
  omega

/-- a reconnection that succeeds puts the sleep back to 1 -/
theorem backoff_resets (s : Retry) (hc : s.connect = true) (n : Nat) :
    (retryPass s (.listenFails n)).2.2.1 = some 1 := by
  simp [retryPass, hc]

def Pass.msgs : Pass → Nat
  | .connectFails => 0
  | .listenFails n => n
  | .listenEnds n => n

/-- the retry generator never stops and never drops: every message that any `listen()` yields is
    yielded, whatever fails in between -/
theorem retry_yields_all (s : Retry) (ps : List Pass) :
    (retryRun s ps).2.yielded = (ps.map Pass.msgs).sum := by
  induction ps generalizing s with
  | nil => rfl
  | cons p ps ih =>
    simp only [retryRun, List.map_cons, List.sum_cons, ih]
    cases p <;> simp [retryPass, Pass.msgs]
    split <;> rfl

example : (retryRun {} (.listenFails 3 :: List.replicate 8 .connectFails)).2.sleeps
    = [1, 2, 4, 8, 16, 32, 60, 60, 60] := by decide
example : (retryRun {} [.listenFails 3, .connectFails, .connectFails, .listenFails 2, .connectFails]).2.sleeps
    = [1, 2, 4, 1, 2] := by decide

end Sio.C15
