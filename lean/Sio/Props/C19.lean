/-
  C19 — SimpleClient / AsyncSimpleClient: events are received once each, in arrival order.

  Every theorem quantifies over ALL schedules (`sched : List Choice`, any length): which thread
  makes its next access to `input_buffer` / `input_event` / `connected_event` / `connected`, when a
  timed wait expires, when the application starts its next call (Sio/Model/Simple.lean).
  `run init sched` is the thread variant, `Async.run init sched` the asyncio variant (whose steps are
  blocks of thread steps: `async_schedule_is_thread_schedule`).

  A log entry `(o, v)` is a finished call: `o` its outcome, `v` the snapshot of the state in which it
  finished (`log_is_snapshot`).
-/
import Sio.Lemmas.Simple
import Sio.Lemmas.SimpleAsync
namespace Sio.C19
open Sio.Simple

/-! ## the log records the state in which a call finished -/

theorem log_is_snapshot (s : State) (c : Choice) :
    (step s c).log = s.log ∨ ∃ o, (step s c).log = s.log ++ [(o, view s)] := by
  cases c with
  | prod => left; simp only [step, prodStep]; split <;> rfl
  | timeout =>
    simp only [step, timeoutStep]; split
    · right; exact ⟨_, rfl⟩
    · left; rfl
  | conn k =>
    left; simp only [step, connStep]; split
    · cases k <;> rfl
    · rfl
    · rfl
  | start op =>
    left; simp only [step, startStep]; split
    · cases op <;> rfl
    · rfl
  | cons ok =>
    simp only [step, consStep]
    split
    case h_10 =>
      split
      · right; exact ⟨_, rfl⟩
      · right; exact ⟨_, rfl⟩
    all_goals first
      | (left; rfl)
      | (split
         · first | (left; rfl) | (right; exact ⟨_, rfl⟩)
         · first | (left; rfl) | (right; exact ⟨_, rfl⟩))

/-! ## once each, in arrival order -/

/-- No loss, no duplicate, no overtaking: at every step of every schedule the arrivals are exactly
    the events already returned followed by the events still in the buffer. -/
theorem conservation (sched : List Choice) :
    (run init sched).arrived = (run init sched).returned ++ (run init sched).buf :=
  (inv_reach sched).conserve

/-- `returned ⊑ arrived`. -/
theorem fifo_once (sched : List Choice) :
    (run init sched).returned <+: (run init sched).arrived :=
  ⟨_, (conservation sched).symm⟩

/-- arrivals are pairwise distinct (the n-th append carries n), so a prefix has no repetition. -/
theorem arrivals_distinct (sched : List Choice) : (run init sched).arrived.Nodup := by
  rw [(inv_reach sched).ids]; exact List.nodup_range

theorem returned_distinct (sched : List Choice) : (run init sched).returned.Nodup := by
  have h := arrivals_distinct sched
  rw [conservation sched] at h
  exact (List.nodup_append.mp h).1

/-- the k-th value returned is the k-th arrival, and it was the head of the buffer. -/
theorem returns_kth_arrival (sched : List Choice) (x : Nat) (v : View)
    (h : (Outcome.returned x, v) ∈ (run init sched).log) :
    x = v.returnedN ∧ v.buf.head? = some x := by
  have := (inv_reach sched).logOK _ h
  simp only [Good] at this
  exact ⟨this.2.2, this.2.1⟩

/-- non-vacuity: two arrivals, two receives, the second arrival lands while the first receive is parked. -/
example : ((run init [.conn .connect, .conn .connect, .start (.recv false), .cons true, .cons true,
    .cons true, .cons true, .prod, .prod, .prod, .cons true, .cons true, .cons true, .cons true, .prod,
    .start (.recv true), .cons true, .cons true]).log.map Prod.fst) = [.returned 0, .returned 1] := by decide

/-- `pop(0)` never meets an empty buffer. -/
theorem no_index_error (sched : List Choice) (v : View) :
    (Outcome.indexErr, v) ∉ (run init sched).log := by
  intro h
  have := (inv_reach sched).logOK _ h
  simp [Good] at this

/-! ## no lost wake-up -/

/-- Indexed by the consumer's pc: parked in `input_event.wait` (r3w) or about to call it (r3) with
    a non-empty buffer, the consumer has been notified / the flag is set, or the producer is between
    `append` and `set`. -/
theorem no_lost_wakeup (sched : List Choice) :
    let s := run init sched
    (s.cpc = .r3w → s.buf ≠ [] → s.woken = true ∨ s.ppc = .appended) ∧
    (s.cpc = .r3 → s.buf ≠ [] → s.iev = true ∨ s.ppc = .appended) := by
  intro s
  have hi : Inv s := inv_reach sched
  have hlen : s.buf ≠ [] → s.returned.length < s.arrived.length := by
    intro hb
    have := congrArg List.length hi.conserve
    have : 0 < s.buf.length := List.length_pos_iff.mpr hb
    simp only [List.length_append] at *
    omega
  constructor
  · intro hc hb
    cases hw : s.woken
    · right
      have h1 := (hi.unsigW hc hw).1
      cases hp : s.ppc
      · have := hi.sigIdle hp; have := hlen hb; omega
      · rfl
    · left; rfl
  · intro hc hb
    cases hv : s.iev
    · right
      have h1 := hi.unsig (by simp [hc, CPc.preInput]) hv
      cases hp : s.ppc
      · have := hi.sigIdle hp; have := hlen hb; omega
      · rfl
    · left; rfl

example : let s := run init [.conn .connect, .conn .connect, .start (.recv false), .cons true,
    .cons true, .cons true, .cons true, .prod]
    s.cpc = .r3w ∧ s.buf ≠ [] ∧ s.woken = false ∧ s.ppc = .appended := by decide

/-- … so a parked `receive()` with an available event always becomes enabled: the producer's next
    step (its `set`) notifies it, and four consumer steps later it has returned the head of the
    buffer (whatever else was appended meanwhile is behind it). -/
theorem parked_receive_is_released (s : State) (x : Nat) (rest : List Nat)
    (hc : s.cpc = .r3w) (hp : s.ppc = .appended) (hb : s.buf = x :: rest) (b1 b2 b3 b4 : Bool) :
    blocked (step s .prod) = false ∧
    (run s [.prod, .cons b1, .cons b2, .cons b3, .cons b4]).log.map Prod.fst =
      s.log.map Prod.fst ++ [.returned x] := by
  constructor
  · simp [step, prodStep, hp, setInput, hc, blocked]
  · simp [run, step, prodStep, hp, setInput, hc, consStep, hb, finish]

/-! ## TimeoutError -/

/-- number of arrivals that are *available*: signalled (append + set done) and not yet returned. -/
def available (v : View) : Nat := v.signalled - v.returnedN


/-
  FULL STATEMENT (false for this version of the code, see `timeout_full_statement_fails`):

    theorem timeout_only_when_unsignalled (sched) (v) :
        (Outcome.timeoutErr, v) ∈ (run init sched).log → available v = 0

  It fails only for a timeout of the wait on `connected_event` (pc r1w): `receive()` tests the buffer
  at the loop head and does not look at it again before / while waiting for the connection.
-/

/-- TimeoutError is raised only by a `receive(timeout)` that is parked and not notified; if it is
    parked on `input_event`, no arrival is available (every signalled arrival has been returned) and
    the flag is clear; otherwise it is parked on `connected_event` with that flag clear (connection
    lost or not yet established). -/
theorem timeout_only_when_unsignalled_partial (sched : List Choice) (v : View)
    (h : (Outcome.timeoutErr, v) ∈ (run init sched).log) :
    v.tmo = true ∧ v.woken = false ∧
    ((v.pc = .r3w ∧ available v = 0 ∧ v.iev = false) ∨ (v.pc = .r1w ∧ v.cev = false)) := by
  have := (inv_reach sched).logOK _ h
  simp only [Good] at this
  refine ⟨this.1, this.2.1, ?_⟩
  rcases this.2.2 with ⟨a, b, c⟩ | ⟨a, b⟩
  · left; exact ⟨a, by simp only [available]; omega, c⟩
  · right; exact ⟨a, b⟩

/-- non-vacuity: a timeout of the wait on input_event (connected, nothing arrived). -/
example : ((run init [.conn .connect, .conn .connect, .start (.recv true), .cons true, .cons true,
    .cons true, .cons true, .timeout]).log.map (fun e => (e.1, e.2.pc))) = [(.timeoutErr, .r3w)] := by decide

/-- the excluded region as a decidable hypothesis: a timeout that is not one of the connection wait. -/
theorem timeout_only_when_unsignalled_of_input_wait (sched : List Choice) (v : View)
    (h : (Outcome.timeoutErr, v) ∈ (run init sched).log) (hpc : v.pc ≠ .r1w) : available v = 0 := by
  rcases (timeout_only_when_unsignalled_partial sched v h).2.2 with ⟨_, b, _⟩ | ⟨a, _⟩
  · exact b
  · exact absurd a hpc

/-- the schedule reported in KNOWN_FINDINGS (recv-at-connection-wait-ignores-buffer): connect handler;
    receive(timeout) finds the buffer empty; an event arrives (append, set); disconnect handler;
    receive parks on connected_event; its timeout expires. -/
def timeoutWitness : List Choice :=
  [.conn .connect, .conn .connect, .start (.recv true), .cons true, .prod, .prod,
   .conn .disconnect, .cons true, .timeout]

theorem timeout_full_statement_fails :
    ¬ ∀ (sched : List Choice) (v : View),
        (Outcome.timeoutErr, v) ∈ (run init sched).log → available v = 0 := by
  intro h
  have hall : ((run init timeoutWitness).log.all
      fun e => e.1 != .timeoutErr || decide (available e.2 = 0)) = true := by
    rw [List.all_eq_true]; intro ⟨o, v⟩ he
    by_cases ho : o = .timeoutErr
    · subst ho; simp [h timeoutWitness v he]
    · simp [ho]
  revert hall; decide

/-- the same region without a timeout: the call stays parked with an available event. -/
theorem held_back_witness :
    let s := run init timeoutWitness.dropLast
    blocked s = true ∧ s.cpc = .r1w ∧ s.buf = [0] ∧ s.signalled = 1 ∧ s.returned = [] := by decide

/-- … and the event is not lost: whenever a call is over and the buffer is non-empty, the next
    `receive()` returns its head without waiting for anything (two consumer steps). -/
theorem next_receive_returns_head (s : State) (x : Nat) (rest : List Nat) (t b1 b2 : Bool)
    (hc : s.cpc = .idle) (hb : s.buf = x :: rest) :
    (run s [.start (.recv t), .cons b1, .cons b2]).log.map Prod.fst =
      s.log.map Prod.fst ++ [.returned x] := by
  simp [run, step, startStep, hc, consStep, hb, finish]

example : (run init [.prod, .prod]).cpc = .idle ∧ (run init [.prod, .prod]).buf = [0] := by decide

/-- the same under any interference: whatever the producer and the connection handlers do before,
    between and after the two steps of the next `receive()`, it returns the event that was at the
    head of the buffer when the previous call ended. -/
theorem next_receive_returns_head_under_interference (s : State) (x : Nat) (rest : List Nat)
    (t b1 b2 : Bool) (e1 e2 e3 : List Choice)
    (h1 : ∀ c ∈ e1, isEnv c = true) (h2 : ∀ c ∈ e2, isEnv c = true) (h3 : ∀ c ∈ e3, isEnv c = true)
    (hc : s.cpc = .idle) (hb : s.buf = x :: rest) :
    (run s (e1 ++ [.start (.recv t)] ++ e2 ++ [.cons b1] ++ e3 ++ [.cons b2])).log.map Prod.fst =
      s.log.map Prod.fst ++ [.returned x] := by
  simp only [run_append]
  obtain ⟨a1, a2, x1, a3⟩ := env_run e1 h1 s
  generalize run s e1 = s1 at a1 a2 a3
  have hs2 : (run s1 [.start (.recv t)]).cpc = .r0 ∧ (run s1 [.start (.recv t)]).log = s.log ∧
      (run s1 [.start (.recv t)]).buf = x :: (rest ++ x1) := by
    simp [run, step, startStep, a1, hc, a2, a3, hb]
  generalize run s1 [.start (.recv t)] = s2 at hs2
  obtain ⟨b1', b2', x2, b3'⟩ := env_run e2 h2 s2
  generalize run s2 e2 = s3 at b1' b2' b3'
  have hs4 : (run s3 [.cons b1]).cpc = .r5 ∧ (run s3 [.cons b1]).log = s.log ∧
      (run s3 [.cons b1]).buf = x :: (rest ++ x1 ++ x2) := by
    simp [run, step, consStep, b1', hs2.1, b3', hs2.2.2, b2', hs2.2.1]
  generalize run s3 [.cons b1] = s4 at hs4
  obtain ⟨c1', c2', x3, c3'⟩ := env_run e3 h3 s4
  generalize run s4 e3 = s5 at c1' c2' c3'
  simp [run, step, consStep, c1', hs4.1, c3', hs4.2.2, finish, c2', hs4.2.1]

/-- "the event, if any, is returned by the next receive()": after any schedule that leaves no call
    in progress (in particular right after a TimeoutError or DisconnectedError) while a signalled
    arrival is unreturned, the next `receive()` returns exactly the oldest unreturned arrival. -/
theorem available_event_is_returned_next (sched : List Choice) (t b1 b2 : Bool) :
    let s := run init sched
    s.cpc = .idle → s.returned.length < s.signalled →
      (run s [.start (.recv t), .cons b1, .cons b2]).log.map Prod.fst =
        s.log.map Prod.fst ++ [.returned s.returned.length] := by
  intro s hc hlt
  have hi : Inv s := inv_reach sched
  have hlen := congrArg List.length hi.conserve
  simp only [List.length_append] at hlen
  have hsl := hi.sigLe
  cases hb : s.buf with
  | nil => simp [hb] at hlen; omega
  | cons x rest =>
    have hx : x = s.returned.length := by
      have h := hi.ids
      rw [hi.conserve, hb] at h
      exact range_split h
    rw [← hx]
    exact next_receive_returns_head s x rest t b1 b2 hc hb

example : let s := run init C19.timeoutWitness
    s.cpc = .idle ∧ s.returned.length < s.signalled := by decide

/-! ## DisconnectedError -/

/-
  `receive()` after the repair of the recorded finding `disconnected-before-drain`:

      if not self.connected:            -- r2
          if self.input_buffer:         -- r2b   events that arrived before the end are returned first
              break
          raise DisconnectedError()

  "The connection has ended for good" is the ghost `ended` (the last connect / __disconnect_final
  handler started is `__disconnect_final`; together with `fresh = false`: some handler ran at all).
  The read of `self.connected` and the test of the buffer are two accesses, and the schedules of the
  model are NOT restricted to those in which an end "for good" is final: a connect handler may start
  after `__disconnect_final`, also between those two accesses (`revived`).  The statement therefore
  says: the connection had ended for good when `self.connected` was read (`endedRd`), and it still has
  in the raising state unless a connect handler has started after a final one.
-/

/-- DisconnectedError (from receive, emit or call) is raised only after `__disconnect_final`, in
    EVERY schedule; from `receive()` only in a state in which the buffer is empty and every event
    that has arrived — signalled or not — has been returned (no arrival is available). -/
theorem disconnected_after_drain (sched : List Choice) (v : View)
    (h : (Outcome.disconnectedErr, v) ∈ (run init sched).log) :
    (v.pc = .r2b ∨ v.pc = .e2) ∧ v.fresh = false ∧
    (v.conn = false → v.ended = true) ∧
    (v.revived = false → v.ended = true ∧ v.conn = false) ∧
    (v.pc = .e2 → v.ended = true ∧ v.conn = false) ∧
    (v.pc = .r2b →
      v.endedRd = true ∧ v.buf = [] ∧ v.returnedN = v.arrivedN ∧ available v = 0) := by
  have := (inv_reach sched).logOK _ h
  simp only [Good] at this
  obtain ⟨h1, h2, h3, h4⟩ := this
  refine ⟨?_, h1, h2, h3, ?_, ?_⟩
  · rcases h4 with ⟨a, _⟩ | ⟨a, _⟩
    · left; exact a
    · right; exact a
  · intro hpc
    rcases h4 with ⟨a, _⟩ | ⟨_, b, c⟩
    · rw [hpc] at a; cases a
    · exact ⟨b, c⟩
  · intro hpc
    rcases h4 with ⟨_, b, c, d, e⟩ | ⟨a, _⟩
    · exact ⟨e, b, c, by simp only [available]; omega⟩
    · rw [hpc] at a; cases a

/-- the clause of the property, literally: in every schedule in which the end of the connection is
    for good (no connect handler starts after a `__disconnect_final` handler), DisconnectedError is
    raised only in a state where the connection has ended for good and — for `receive()` — every
    arrived event has been returned. -/
theorem disconnected_after_drain_for_good (sched : List Choice) (v : View)
    (h : (Outcome.disconnectedErr, v) ∈ (run init sched).log) (hg : v.revived = false) :
    v.ended = true ∧ v.conn = false ∧
    (v.pc = .r2b → v.buf = [] ∧ v.returnedN = v.arrivedN ∧ available v = 0) := by
  obtain ⟨_, _, _, h4, _, h6⟩ := disconnected_after_drain sched v h
  exact ⟨(h4 hg).1, (h4 hg).2, fun hpc => (h6 hpc).2⟩

/-- non-vacuity: DisconnectedError from receive() with everything drained (r2b) and from emit() (e2),
    in a schedule where the end is for good. -/
example : ((run init [.conn .connect, .conn .connect, .conn .disconnect, .conn .final, .conn .final,
    .start (.recv false), .cons true, .cons true, .cons true, .cons true, .start .send, .cons true,
    .cons true]).log.map (fun e => (e.1, e.2.pc, e.2.buf, e.2.ended, e.2.revived))) =
      [(.disconnectedErr, .r2b, [], true, false), (.disconnectedErr, .e2, [], true, false)] := by decide

/-- the schedule of the former finding `disconnected-before-drain` (the event arrives between the
    empty-buffer test and the end of the connection), continued: -/
def lateArrival : List Choice :=
  [.conn .connect, .conn .connect, .start (.recv false), .cons true, .prod, .prod,
   .conn .disconnect, .conn .final, .conn .final, .cons true, .cons true, .cons true, .cons true,
   .start (.recv false), .cons true, .cons true, .cons true, .cons true]

/-- non-vacuity: … `receive()` reads `connected = False` (r2) with the event buffered and signalled,
    returns it, and the next `receive()` raises DisconnectedError from the drained buffer. -/
example :
    (let s := run init (lateArrival.take 11)
     s.cpc = .r2b ∧ s.conn = false ∧ s.ended = true ∧ s.buf = [0] ∧ s.signalled = 1 ∧ s.returned = []) ∧
    (run init lateArrival).log.map (fun e => (e.1, e.2.pc, e.2.buf, e.2.returnedN)) =
      [(.returned 0, .r5, [0], 0), (.disconnectedErr, .r2b, [], 1)] := by decide

/-- why `revived` is in the statement: a connect handler that starts between the read of
    `self.connected` and the test of the buffer is the only way `ended` is false in the raising state
    (the connection HAD ended for good when `connected` was read). -/
example : ((run init [.conn .connect, .conn .connect, .conn .final, .conn .final, .start (.recv false),
    .cons true, .cons true, .cons true, .conn .connect, .cons true]).log.map
    (fun e => (e.1, e.2.pc, e.2.ended, e.2.endedRd, e.2.revived))) =
      [(.disconnectedErr, .r2b, false, true, true)] := by decide

/-! ## emit() / call() -/

/-- emit/call finish in exactly two ways: the client accepted the event (`sent`, at e3), or
    DisconnectedError after the connection ended for good; TimeoutError belongs to receive() only. -/
theorem emit_waits (sched : List Choice) (o : Outcome) (v : View)
    (h : (o, v) ∈ (run init sched).log) :
    (o = .sent → v.pc = .e3) ∧
    (o = .disconnectedErr → v.pc ≠ .r2b → v.pc = .e2 ∧ v.ended = true ∧ v.conn = false) ∧
    (o = .timeoutErr → v.pc = .r1w ∨ v.pc = .r3w) ∧
    (v.pc = .e1 ∨ v.pc = .e1w ∨ v.pc = .e2 ∨ v.pc = .e3 → o = .sent ∨ (o = .disconnectedErr ∧ v.ended = true)) := by
  have hg := (inv_reach sched).logOK _ h
  cases o <;> simp only [Good] at hg
  · refine ⟨by simp, by simp, by simp, ?_⟩
    intro hp; rw [hg.1] at hp; simp at hp
  · refine ⟨fun _ => hg, by simp, by simp, fun _ => Or.inl rfl⟩
  · refine ⟨by simp, by simp, fun _ => ?_, ?_⟩
    · rcases hg.2.2 with ⟨a, _⟩ | ⟨a, _⟩
      · right; exact a
      · left; exact a
    · intro hp
      rcases hg.2.2 with ⟨a, _⟩ | ⟨a, _⟩ <;> (rw [a] at hp; simp at hp)
  · refine ⟨by simp, fun _ hne => ?_, by simp, fun hp => Or.inr ⟨rfl, ?_⟩⟩
    · rcases hg.2.2.2 with ⟨a, _⟩ | a
      · exact absurd a hne
      · exact a
    · rcases hg.2.2.2 with ⟨a, _⟩ | ⟨_, b, _⟩
      · rw [a] at hp; simp at hp
      · exact b

/-- non-vacuity: emit() during a reconnection: refused once by the client, parked, released by the
    connect handler, accepted. -/
example : ((run init [.conn .connect, .conn .connect, .start .send, .cons true, .cons true,
    .conn .disconnect, .cons false, .cons true, .conn .connect, .conn .connect, .cons true, .cons true,
    .cons true]).log.map Prod.fst) = [.sent] := by decide

/-- while a reconnection is in progress (a disconnect handler ran, no connect/final handler has set
    the event since) the connected event is clear, an emit()/call() that reaches the wait parks
    without an outcome, and once parked nothing but a connection handler moves it. -/
theorem emit_parks_while_reconnecting (sched : List Choice) :
    let s := run init sched
    s.recon = true →
      s.cev = false ∧
      (s.cpc = .e1 → ∀ ok, (step s (.cons ok)).cpc = .e1w ∧ (step s (.cons ok)).log = s.log) ∧
      (s.cpc = .e1w → s.woken = false → ∀ c, (∀ k, c ≠ .conn k) →
        (step s c).cpc = .e1w ∧ (step s c).woken = false ∧ (step s c).log = s.log) := by
  intro s hr
  have hcev : s.cev = false := (inv_reach sched).reconC hr
  refine ⟨hcev, ?_, ?_⟩
  · intro hc ok
    simp [step, consStep, hc, hcev]
  · intro hc hw c hnc
    cases c with
    | conn k => exact absurd rfl (hnc k)
    | prod => simp only [step, prodStep]; split <;> simp [setInput, hc, hw]
    | cons ok => simp [step, consStep, hc, hw]
    | timeout => simp [step, timeoutStep, canTimeout, hc, hw]
    | start op => simp [step, startStep, hc, hw]

example : let s := run init [.conn .connect, .conn .connect, .start .send, .conn .disconnect, .cons true]
    s.recon = true ∧ s.cpc = .e1w ∧ s.woken = false := by decide

/-! ## liveness observation -/

/-- the consumer is inside a call and neither its own steps nor the expiry of a timeout move it -/
def stuck (s : State) : Prop := (∀ ok, consStep s ok = s) ∧ timeoutStep s = s

/-- Once the connection has ended for good (final handler completed: `ended`, connected event set),
    the only way a call in progress can be stuck is `receive(timeout=None)` parked on `input_event`
    and not notified — `__disconnect_final` sets the *connected* event only.  In that state, if the
    producer is idle, the buffer is empty: nothing is lost, but DisconnectedError never surfaces. -/
theorem deadlock_characterised (sched : List Choice) :
    let s := run init sched
    s.ended = true → s.cev = true → s.cpc ≠ .idle →
      ((stuck s ↔ (s.cpc = .r3w ∧ s.tmo = false ∧ s.woken = false)) ∧
       (s.cpc = .r3w → s.woken = false → s.ppc = .idle → s.buf = [])) := by
  intro s he hcev hidle
  have hi : Inv s := inv_reach sched
  have hconn : s.conn = false := by
    cases hc : s.conn
    · rfl
    · have := hi.connEnded hc; rw [he] at this; cases this
  refine ⟨⟨?_, ?_⟩, ?_⟩
  · intro ⟨h1, h2⟩
    have hc1 := congrArg State.cpc (h1 true)
    have hc2 := congrArg State.cpc (h1 false)
    have ht := congrArg State.cpc h2
    cases hc : s.cpc
    case idle => exact absurd hc hidle
    case r3w =>
      cases hw : s.woken
      · cases htm : s.tmo
        · exact ⟨rfl, rfl, rfl⟩
        · simp [timeoutStep, canTimeout, hc, hw, htm, finish] at ht
      · simp [consStep, hc, hw] at hc1
    case r1w =>
      cases hw : s.woken
      · have := hi.parkedC (by simp [hc, CPc.waitsConn]) hw; rw [hcev] at this; cases this
      · simp [consStep, hc, hw] at hc1
    case e1w =>
      cases hw : s.woken
      · have := hi.parkedC (by simp [hc, CPc.waitsConn]) hw; rw [hcev] at this; cases this
      · simp [consStep, hc, hw] at hc1
    case r0 => cases hb : s.buf <;> simp [consStep, hc, hb] at hc1
    case r1 => simp [consStep, hc, hcev] at hc1
    case r2 => simp [consStep, hc, hconn] at hc1
    case r2b => cases hb : s.buf <;> simp [consStep, hc, hb, finish] at hc1
    case r3 => cases hv : s.iev <;> simp [consStep, hc, hv] at hc1
    case r4 => simp [consStep, hc] at hc1
    case r5 => cases hb : s.buf <;> simp [consStep, hc, hb, finish] at hc1
    case e1 => simp [consStep, hc, hcev] at hc1
    case e2 => simp [consStep, hc, hconn, finish] at hc1
    case e3 => simp [consStep, hc] at hc2
  · intro ⟨hc, htm, hw⟩
    constructor
    · intro ok; simp [consStep, hc, hw]
    · simp [timeoutStep, canTimeout, hc, htm]
  · intro hc hw hp
    have h1 := (hi.unsigW hc hw).1
    have h2 := hi.sigIdle hp
    have h3 := congrArg List.length hi.conserve
    simp only [List.length_append] at h3
    exact List.length_eq_zero_iff.mp (by omega)

/-- such a state is reachable: receive() parks on input_event, then disconnect + final. -/
example : let s := run init [.conn .connect, .conn .connect, .start (.recv false), .cons true,
    .cons true, .cons true, .cons true, .conn .disconnect, .conn .final, .conn .final]
    s.ended = true ∧ s.cev = true ∧ s.cpc = .r3w ∧ s.tmo = false ∧ s.woken = false ∧ s.buf = [] := by
  decide

/-! ## asyncio variant -/

/-- every asyncio schedule is a thread schedule (handlers run to completion, the consumer runs until
    an await really suspends) … -/
theorem async_schedule_is_thread_schedule (asched : List Choice) :
    ∃ sched, Async.run init asched = run init sched := arun_is_run asched init

/-- a consumer step of the asyncio variant always ends at a real suspension point (the call is over,
    it awaits `client.emit/call`, or it is parked and not notified), from any state whatsoever. -/
theorem async_consumer_runs_to_suspension (s : State) (ok : Bool) :
    Async.stop (Async.step s (.cons ok)) = true := consRun_stops _

/-- … so whatever holds after every thread schedule holds after every asyncio schedule. -/
theorem async_transfer (P : State → Prop) (h : ∀ sched, P (run init sched)) (asched : List Choice) :
    P (Async.run init asched) := by
  obtain ⟨l, hl⟩ := async_schedule_is_thread_schedule asched
  rw [hl]; exact h l

theorem fifo_once_async (asched : List Choice) :
    (Async.run init asched).returned <+: (Async.run init asched).arrived :=
  async_transfer (fun s => s.returned <+: s.arrived) fifo_once asched

theorem conservation_async (asched : List Choice) :
    (Async.run init asched).arrived = (Async.run init asched).returned ++ (Async.run init asched).buf :=
  async_transfer (fun s => s.arrived = s.returned ++ s.buf) conservation asched

theorem no_lost_wakeup_async (asched : List Choice) :
    let s := Async.run init asched
    (s.cpc = .r3w → s.buf ≠ [] → s.woken = true ∨ s.ppc = .appended) ∧
    (s.cpc = .r3 → s.buf ≠ [] → s.iev = true ∨ s.ppc = .appended) :=
  async_transfer (fun s => (s.cpc = .r3w → s.buf ≠ [] → s.woken = true ∨ s.ppc = .appended) ∧
    (s.cpc = .r3 → s.buf ≠ [] → s.iev = true ∨ s.ppc = .appended)) no_lost_wakeup asched

theorem timeout_only_when_unsignalled_partial_async (asched : List Choice) (v : View)
    (h : (Outcome.timeoutErr, v) ∈ (Async.run init asched).log) :
    v.tmo = true ∧ v.woken = false ∧
    ((v.pc = .r3w ∧ available v = 0 ∧ v.iev = false) ∨ (v.pc = .r1w ∧ v.cev = false)) :=
  async_transfer (fun s => (Outcome.timeoutErr, v) ∈ s.log → _)
    (fun sched => timeout_only_when_unsignalled_partial sched v) asched h

theorem disconnected_after_drain_async (asched : List Choice) (v : View)
    (h : (Outcome.disconnectedErr, v) ∈ (Async.run init asched).log) :
    (v.pc = .r2b ∨ v.pc = .e2) ∧ v.fresh = false ∧
    (v.conn = false → v.ended = true) ∧
    (v.revived = false → v.ended = true ∧ v.conn = false) ∧
    (v.pc = .e2 → v.ended = true ∧ v.conn = false) ∧
    (v.pc = .r2b →
      v.endedRd = true ∧ v.buf = [] ∧ v.returnedN = v.arrivedN ∧ available v = 0) :=
  async_transfer (fun s => (Outcome.disconnectedErr, v) ∈ s.log → _)
    (fun sched => disconnected_after_drain sched v) asched h

/-- in the asyncio variant the read of `self.connected` and the test of the buffer are in one block
    (no await between them), so the clause holds literally in EVERY schedule, with no hypothesis on
    the environment: DisconnectedError is raised only in a state in which the connection has ended
    for good and — for `receive()` — every arrived event has been returned. -/
theorem disconnected_after_drain_async_literal (asched : List Choice) (v : View)
    (h : (Outcome.disconnectedErr, v) ∈ (Async.run init asched).log) :
    v.ended = true ∧ v.conn = false ∧
    (v.pc = .r2b → v.buf = [] ∧ v.returnedN = v.arrivedN ∧ available v = 0) := by
  obtain ⟨h1, _, h3, _, h5, h6⟩ := disconnected_after_drain_async asched v h
  have hconn : v.conn = false := by
    rcases h1 with hp | hp
    · exact (ard_areach asched).1 _ h rfl hp
    · exact (h5 hp).2
  exact ⟨h3 hconn, hconn, fun hpc => (h6 hpc).2⟩

theorem emit_waits_async (asched : List Choice) (o : Outcome) (v : View)
    (h : (o, v) ∈ (Async.run init asched).log) :
    (o = .sent → v.pc = .e3) ∧
    (o = .disconnectedErr → v.pc ≠ .r2b → v.pc = .e2 ∧ v.ended = true ∧ v.conn = false) ∧
    (o = .timeoutErr → v.pc = .r1w ∨ v.pc = .r3w) ∧
    (v.pc = .e1 ∨ v.pc = .e1w ∨ v.pc = .e2 ∨ v.pc = .e3 → o = .sent ∨ (o = .disconnectedErr ∧ v.ended = true)) :=
  async_transfer (fun s => (o, v) ∈ s.log → _) (fun sched => emit_waits sched o v) asched h

/-- the asyncio counterpart of the witness needs the event handler to run after the disconnect
    handler (the only way an arrival can fall between the buffer test and the wait when the consumer
    yields only at real suspensions). -/
def timeoutWitnessAsync : List Choice :=
  [.conn .connect, .conn .disconnect, .start (.recv true), .cons true, .prod, .timeout]

/-- non-vacuity (asyncio) of `disconnected_after_drain_async`, on the schedule of the former finding:
    receive() parks on connected_event (reconnecting), the event arrives, the connection ends for
    good; the resumed receive() returns the event, the next one raises DisconnectedError. -/
def lateArrivalAsync : List Choice :=
  [.conn .connect, .conn .disconnect, .start (.recv false), .cons true, .prod, .conn .final, .cons true,
   .start (.recv false), .cons true]

example :
    (let s := Async.run init (lateArrivalAsync.take 6)
     s.cpc = .r1w ∧ s.woken = true ∧ s.conn = false ∧ s.ended = true ∧ s.buf = [0] ∧ s.signalled = 1) ∧
    (Async.run init lateArrivalAsync).log.map (fun e => (e.1, e.2.pc, e.2.buf, e.2.returnedN, e.2.ended)) =
      [(.returned 0, .r5, [0], 0, true), (.disconnectedErr, .r2b, [], 1, true)] := by decide

theorem timeout_full_statement_fails_async :
    ¬ ∀ (asched : List Choice) (v : View),
        (Outcome.timeoutErr, v) ∈ (Async.run init asched).log → available v = 0 := by
  intro h
  have hall : ((Async.run init timeoutWitnessAsync).log.all
      fun e => e.1 != .timeoutErr || decide (available e.2 = 0)) = true := by
    rw [List.all_eq_true]; intro ⟨o, v⟩ he
    by_cases ho : o = .timeoutErr
    · subst ho; simp [h timeoutWitnessAsync v he]
    · simp [ho]
  revert hall; decide

end Sio.C19
