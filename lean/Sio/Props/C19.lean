import Sio.Model.Simple
namespace Sio.C19
theorem placeholder_stub : True := trivial
end Sio.C19
