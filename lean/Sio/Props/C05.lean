/-
  C05 — incoming events: one handler invocation, one matching ACK, to the sender only; binary
  events are reassembled per transport; with inline handlers the outputs of a history are the
  concatenation of the per-input outputs (arrival order).

  Statements about `Sio.Server.step` / `run` for every decoder, configuration, registry and
  script, from every well-formed state (`Server.WF`, an invariant of all reachable states).
-/
import Sio.Lemmas.ServerOnce
namespace Sio.C05
open Sio Sio.Server Sio.Rooms

variable {dec : Str → Except Err (Packet × Nat)} {cfg : Cfg}

/-- A frame that completes an EVENT `(nsp, id, data)` (`Server.CompletesEvent`: a text EVENT
    packet, or the last attachment of a BINARY_EVENT) is handled by `_handle_event` on it. -/
theorem step_of_completesEvent {s s₀ : Srv} {t : Eio} {v : J} {nsp : Option Str} {id : Option Nat}
    {data : Option J} (h : CompletesEvent dec s t v nsp id data s₀) :
    step dec cfg s (.frame t v) = handleEvent cfg s₀ t nsp id data :=
  Server.step_of_completesEvent h

/-- the handler `resolve` selected, with its arguments -/
def target : Resolved → Option (Slot × List J)
  | .fn slot a => some (slot, a)
  | .clsCall slot a => some (slot, a)
  | _ => none

/-- the value that is acknowledged: the handler's return value; `None` for a class-based namespace
    without a method for the event; nothing when nobody is responsible or the handler raised -/
def returned (script : Script) (nEv : Nat) : Resolved → Option Data
  | .fn _ _ | .clsCall _ _ => match script.onEvent nEv with | .ret d => some d | .raise => none
  | .clsNoMethod => some .none
  | .notHandled => none

/-! ### the demo state: two transports connected to `/`, inline handlers -/

def reg0 : Registry := ⟨fun _ _ => true, fun _ => true, fun _ => false, fun _ _ => false⟩
def cfg0 : Cfg :=
  ⟨false, none, false, reg0, ⟨fun _ => .accept, fun _ => .ret (.one (.int 5)), fun _ => .ok⟩⟩
/-- toy decoder: "c" CONNECT; "e" EVENT id 3 `["ev", 1]`; "h" BINARY_EVENT, one attachment,
    `["ev", placeholder 0]` -/
def dec0 : Str → Except Err (Packet × Nat)
  | ['c'] => .ok (⟨CONNECT, none, none, none⟩, 0)
  | ['e'] => .ok (⟨EVENT, none, some 3, some (.arr [.str ['e', 'v'], .int 1])⟩, 0)
  | ['h'] => .ok (⟨BINARY_EVENT, none, none, some (.arr [.str ['e', 'v'], placeholder 0])⟩, 1)
  | ['u'] => .ok (⟨EVENT, none, some 4, some (.arr [.arr [], .int 1])⟩, 0)
  | _ => .error .valueError
def tA : Eio := ['A']
def tB : Eio := ['B']
def nsRoot : Ns := ['/']
def hist0 : List Input :=
  [.eioConnect tA, .eioConnect tB, .frame tA (.str ['c']), .frame tB (.str ['c'])]
def demo0 : Srv := (run dec0 cfg0 {} hist0).1
theorem demo0_wf : Server.WF demo0 := Server.WF.init.run dec0 cfg0 hist0

/-! ### `invoke_once` -/

/-- An EVENT `(nsp, id, ev :: args)` from a transport that is connected to the namespace with
    session `sid`, inline handlers: the step's outputs contain exactly one `invoke` when `resolve`
    (K8) selects a handler — that handler, with the arguments `resolve` built, which are
    `sid :: args` after the catch-all prefix — and none otherwise. -/
theorem invoke_once {s s₀ : Srv} (h : Server.WF s) {t : Eio} {v : J} {nsp : Option Str}
    {id : Option Nat} {ev : J} {args : List J} {sid : Sid} {r : Resolved}
    (hc : CompletesEvent dec s t v nsp id (some (.arr (ev :: args))) s₀)
    (hs : sidOf s.rooms (nsp.getD ['/']) t = some sid) (hsync : cfg.asyncHandlers = false)
    (hr : resolve cfg.reg (nsp.getD ['/']) ev (.str sid :: args) = .ok r) :
    (step dec cfg s (.frame t v)).2.filter Out.isInvoke =
        (match target r with
          | some (slot, a) => [.invoke slot a]
          | none => []) ∧
      ∀ slot a, target r = some (slot, a) → ∃ pre, a = pre ++ (.str sid :: args) := by
  obtain ⟨hw0, hr0, _⟩ := hc.wf h
  rw [step_of_completesEvent hc,
    handleEvent_connected hw0 cfg id (by rw [hr0]; exact hs) (first := ev) (rest := args) rfl]
  simp only [hsync, Bool.false_eq_true, if_false]
  have ha := resolve_args hr
  constructor
  · cases r with
    | fn slot a =>
      rw [runHandler_handled cfg s₀ _ (Or.inl hr)]
      dsimp only [target]
      cases cfg.script.onEvent s₀.nEv <;>
        simp [List.filter_cons, Out.isInvoke, ackFor_isInvoke]
    | clsCall slot a =>
      rw [runHandler_handled cfg s₀ _ (Or.inr hr)]
      dsimp only [target]
      cases cfg.script.onEvent s₀.nEv <;>
        simp [List.filter_cons, Out.isInvoke, ackFor_isInvoke]
    | clsNoMethod => rw [runHandler_noMethod cfg s₀ _ hr]; exact ackFor_isInvoke ..
    | notHandled => rw [runHandler_notHandled cfg s₀ _ hr]; rfl
  · intro slot a ht
    cases r <;> simp only [target, Option.some.injEq, Prod.mk.injEq, reduceCtorEq] at ht
    · obtain ⟨rfl, rfl⟩ := ht; exact ha
    · obtain ⟨rfl, rfl⟩ := ht; exact ha

example : CompletesEvent dec0 demo0 tA (.str ['e']) none (some 3)
    (some (.arr [.str ['e', 'v'], .int 1])) demo0 :=
  .text (p := ⟨EVENT, none, some 3, some (.arr [.str ['e', 'v'], .int 1])⟩) (n := 0)
    (by decide) rfl rfl
example : sidOf demo0.rooms nsRoot tA = some (sidName 0) := by decide
example : (step dec0 cfg0 demo0 (.frame tA (.str ['e']))).2 =
    [.invoke (.fn nsRoot ['e', 'v']) [.str (sidName 0), .int 1],
     .send tA (mkOut ACK nsRoot (some 3) [.int 5])] := by rfl

/-- An unhashable event name (`TypeError` at the first dictionary test): no invocation, no ACK. -/
theorem invoke_none_on_error {s s₀ : Srv} (h : Server.WF s) {t : Eio} {v : J} {nsp : Option Str}
    {id : Option Nat} {ev : J} {args : List J} {sid : Sid} {e : Err}
    (hc : CompletesEvent dec s t v nsp id (some (.arr (ev :: args))) s₀)
    (hs : sidOf s.rooms (nsp.getD ['/']) t = some sid) (hsync : cfg.asyncHandlers = false)
    (hr : resolve cfg.reg (nsp.getD ['/']) ev (.str sid :: args) = .error e) :
    step dec cfg s (.frame t v) = (s₀, [.raised e]) := by
  obtain ⟨hw0, hr0, _⟩ := hc.wf h
  rw [step_of_completesEvent hc,
    handleEvent_connected hw0 cfg id (by rw [hr0]; exact hs) (first := ev) (rest := args) rfl]
  simp only [hsync, Bool.false_eq_true, if_false]
  exact runHandler_error cfg s₀ _ hr

example : resolve cfg0.reg nsRoot (.arr []) [.str (sidName 0), .int 1] = .error .typeError := rfl
example : (step dec0 cfg0 demo0 (.frame tA (.str ['u']))).2 = [.raised .typeError] := by rfl

/-- With `async_handlers = True` the frame itself outputs nothing: exactly one background handler
    is queued (sid, transport, event, arguments, namespace, id), behind those already queued. -/
theorem invoke_queued {s s₀ : Srv} (h : Server.WF s) {t : Eio} {v : J} {nsp : Option Str}
    {id : Option Nat} {ev : J} {args : List J} {sid : Sid}
    (hc : CompletesEvent dec s t v nsp id (some (.arr (ev :: args))) s₀)
    (hs : sidOf s.rooms (nsp.getD ['/']) t = some sid) (hasync : cfg.asyncHandlers = true) :
    step dec cfg s (.frame t v) =
      ({ s₀ with bg := s₀.bg ++ [⟨sid, t, ev, args, nsp.getD ['/'], id⟩] }, []) := by
  obtain ⟨hw0, hr0, _⟩ := hc.wf h
  rw [step_of_completesEvent hc,
    handleEvent_connected hw0 cfg id (by rw [hr0]; exact hs) (first := ev) (rest := args) rfl]
  simp only [hasync, if_true]

/-- … and `settle` (the background tasks run) handles the queue front to back: the first queued
    event's handler output comes first, the rest follows from the state it leaves. -/
theorem settle_in_order {s : Srv} {b : Bg} {rest : List Bg} (hb : s.bg = b :: rest) :
    step dec cfg s .settle =
      ((step.drain cfg (runHandler cfg { s with bg := [] } b).1 [] rest).1,
        (runHandler cfg { s with bg := [] } b).2 ++
          (step.drain cfg (runHandler cfg { s with bg := [] } b).1 [] rest).2) := by
  have hc : ∀ (s' : Srv) (o : List Out), step.drain cfg s' o (b :: rest) =
      step.drain cfg (runHandler cfg s' b).1 (o ++ (runHandler cfg s' b).2) rest :=
    fun s' o => by rw [step.drain]
  rw [step, hb, hc, drain_outs_eq]
  simp

/-- An EVENT on a namespace the transport is not connected to: no output at all, the state is
    unchanged (a completed binary packet leaves the buffer). -/
theorem not_connected {s s₀ : Srv} {t : Eio} {v : J} {nsp : Option Str} {id : Option Nat} {ev : J}
    {args : List J} (hc : CompletesEvent dec s t v nsp id (some (.arr (ev :: args))) s₀)
    (hs : sidOf s.rooms (nsp.getD ['/']) t = none) :
    step dec cfg s (.frame t v) = (s₀, []) := by
  have hr0 : s₀.rooms = s.rooms := by rcases hc.state with rfl | rfl <;> rfl
  rw [step_of_completesEvent hc]
  exact handleEvent_not_connected cfg id (by rw [hr0]; exact hs) (first := ev) (rest := args) rfl

example : sidOf demo0.rooms ['/', 'x'] tA = none := by decide

/-! ### `ack_exact` -/

/-- The `send` outputs of that step are exactly one ACK with the event's id, on its namespace, to
    the sending transport, carrying the packed return value — when the event had an id and a
    handler (or a class-based namespace) was responsible and returned; nothing otherwise.
    (`t ∈ s.socks`: engine.io delivers messages of open sockets only.) -/
theorem ack_exact {s s₀ : Srv} (h : Server.WF s) {t : Eio} {v : J} {nsp : Option Str}
    {id : Option Nat} {ev : J} {args : List J} {sid : Sid} {r : Resolved}
    (hc : CompletesEvent dec s t v nsp id (some (.arr (ev :: args))) s₀)
    (hs : sidOf s.rooms (nsp.getD ['/']) t = some sid) (hsync : cfg.asyncHandlers = false)
    (ht : t ∈ s.socks)
    (hr : resolve cfg.reg (nsp.getD ['/']) ev (.str sid :: args) = .ok r) :
    (step dec cfg s (.frame t v)).2.filter Out.isSend =
      match id, returned cfg.script s₀.nEv r with
      | some i, some d => [.send t (mkOut ACK (nsp.getD ['/']) (some i) d.pack)]
      | _, _ => [] := by
  obtain ⟨hw0, hr0, hs0⟩ := hc.wf h
  rw [step_of_completesEvent hc,
    handleEvent_connected hw0 cfg id (by rw [hr0]; exact hs) (first := ev) (rest := args) rfl]
  simp only [hsync, Bool.false_eq_true, if_false]
  have hopen : ∀ (s' : Srv) (p : Packet), s'.socks = s₀.socks → sendTo s' (some t) p = [.send t p] :=
    fun s' p hq => sendTo_open (by rw [hq, hs0]; exact ht) p
  cases r with
  | fn slot a =>
    rw [runHandler_handled cfg s₀ _ (Or.inl hr)]
    dsimp only [returned]
    cases cfg.script.onEvent s₀.nEv <;> cases id <;>
      simp [List.filter_cons, Out.isSend, ackFor, hopen]
  | clsCall slot a =>
    rw [runHandler_handled cfg s₀ _ (Or.inr hr)]
    dsimp only [returned]
    cases cfg.script.onEvent s₀.nEv <;> cases id <;>
      simp [List.filter_cons, Out.isSend, ackFor, hopen]
  | clsNoMethod =>
    rw [runHandler_noMethod cfg s₀ _ hr]
    cases id <;> simp [returned, ackFor, hopen, Out.isSend]
  | notHandled =>
    rw [runHandler_notHandled cfg s₀ _ hr]
    cases id <;> simp [returned]

example : tA ∈ demo0.socks := by decide

/-- Whatever the event and the state: every packet the step sends goes to the sending transport,
    and every invocation carries the session id that transport has on the namespace. -/
theorem ack_to_sender_only {s s₀ : Srv} {t : Eio} {v : J} {nsp : Option Str} {id : Option Nat}
    {data : Option J} (hc : CompletesEvent dec s t v nsp id data s₀) :
    ∀ o ∈ (step dec cfg s (.frame t v)).2,
      o.confined t (fun a => ∃ sid, sidOf s.rooms (nsp.getD ['/']) t = some sid ∧ carries sid a) := by
  have hr0 : s₀.rooms = s.rooms := by rcases hc.state with rfl | rfl <;> rfl
  rw [step_of_completesEvent hc, ← hr0]
  exact handleEvent_outs cfg s₀ t nsp id data

/-- the ACK is a BINARY_ACK exactly when the returned data contains bytes -/
theorem ack_binary_iff (ns : Ns) (i : Nat) (data : List J) :
    (mkOut ACK ns (some i) data).type = if (J.arr data).isBinary then BINARY_ACK else ACK := by
  unfold mkOut mkPacket
  by_cases hb : (J.arr data).isBinary = true <;> simp [hb, ACK, EVENT]

/-! ### `binary_reassembly` -/

/-- A BINARY_EVENT header from `t` followed by its attachments, nothing else from `t` in between
    (here: contiguous), is the reconstructed event: same final state and outputs as
    `_handle_event` on the reconstructed payload in the original state. -/
theorem binary_reassembly {s : Srv} {t : Eio} {hdr : J} {p : Packet} {k : Nat} {d : Option J}
    (hf : s.binbuf.find? (fun e => e.1 = t) = none) (hd : frameDecode dec hdr = .ok (p, k))
    (hp : p.type = BINARY_EVENT) (atts : List J) (hk : atts.length = k) (hk0 : 0 < k)
    (hrec : reconData ⟨p, k, []⟩ atts = .ok d) :
    run dec cfg s (.frame t hdr :: atts.map (fun a => Input.frame t a)) =
      handleEvent cfg s t p.nsp p.id d := by
  -- after the header, `i` attachments stored, `rest` to come
  have key : ∀ (rest got : List J) (s1 : Srv), got.length + rest.length = k → 0 < rest.length →
      s1.binbuf.find? (fun e => e.1 = t) = some (t, ⟨p, k, got⟩) →
      dropBin s1 t = s → reconData ⟨p, k, []⟩ (got ++ rest) = .ok d →
      run dec cfg s1 (rest.map (fun a => Input.frame t a)) = handleEvent cfg s t p.nsp p.id d := by
    intro rest
    induction rest with
    | nil => intro got s1 _ h0; simp at h0
    | cons a rest ih =>
      intro got s1 hlen _ hfind hdrop hrec'
      rw [List.map_cons, run_cons, step]
      by_cases hlast : rest = []
      · subst hlast
        have h1 : ¬ k ≤ got.length := by simp at hlen; omega
        have h2 : k = (got ++ [a]).length := by simp at hlen ⊢; omega
        rw [handleFrame_last dec cfg hfind h1 h2 (d := d) hrec', if_pos hp, hdrop]
        simp [run_nil]
      · have hpos : 0 < rest.length := List.length_pos_iff.mpr hlast
        have h1 : ¬ k ≤ got.length := by simp at hlen; omega
        have h2 : k ≠ (got ++ [a]).length := by simp at hlen ⊢; omega
        have hstep : handleFrame dec cfg s1 t a = (storeBin s1 t ⟨p, k, got⟩ a, []) := by
          have hfc := frameCase dec cfg s1 t a
          unfold handleFrame
          rw [hfind]
          dsimp only
          rw [if_neg h1, if_neg h2]
          rfl
        rw [hstep]
        simp only [List.nil_append]
        have := ih (got ++ [a]) (storeBin s1 t ⟨p, k, got⟩ a) (by simp at hlen ⊢; omega) hpos
          (find_setBin _ _ _ (by rw [hfind]; rfl))
          (by rw [← hdrop]; simp only [dropBin, storeBin, filter_setBin])
          (by rw [List.append_assoc]; exact hrec')
        rw [this]
  rw [run_cons, step, handleFrame_text dec cfg hf, hd]
  have hdisp : dispatchPacket cfg s t p k = ({ s with binbuf := s.binbuf ++ [(t, ⟨p, k, []⟩)] }, []) := by
    unfold dispatchPacket
    simp [hp, BINARY_EVENT, CONNECT, DISCONNECT, EVENT, ACK]
  dsimp only
  rw [hdisp]
  simp only [List.nil_append]
  have := key atts [] { s with binbuf := s.binbuf ++ [(t, ⟨p, k, []⟩)] } (by simpa using hk)
    (by rw [hk]; exact hk0) (find_push hf _)
    (by simp only [dropBin, filter_push hf]) (by simpa using hrec)
  rw [this]

example : demo0.binbuf.find? (fun e => e.1 = tA) = none ∧
    frameDecode dec0 (.str ['h']) =
      .ok (⟨BINARY_EVENT, none, none, some (.arr [.str ['e', 'v'], placeholder 0])⟩, 1) := by
  constructor <;> rfl
example : (run dec0 cfg0 demo0 [.frame tA (.str ['h']), .frame tA (.bin [1, 2])]).2 =
    [.invoke (.fn nsRoot ['e', 'v']) [.str (sidName 0), .bin [1, 2]]] := by rfl

/-- The reassembly buffer is keyed by transport: a frame from another transport never changes the
    partially received packet of `t` — so other clients' traffic may interleave freely. -/
theorem binbuf_keyed {s : Srv} {t t' : Eio} (hne : t' ≠ t) (v : J) :
    (step dec cfg s (.frame t' v)).1.binbuf.find? (fun e => e.1 = t) =
      s.binbuf.find? (fun e => e.1 = t) :=
  binbuf_other hne v

/-! ### `order_inline` -/

/-- The output of a history is the concatenation of the outputs of its inputs, in arrival order;
    with inline handlers (`async_handlers = False`) each event's invocation and ACK are in the
    output of its own frame (`invoke_once`, `ack_exact`), hence one client's events are handled
    in arrival order. -/
theorem order_inline (s : Srv) (is : List Input) :
    (run dec cfg s is).2 = (trace dec cfg s is).flatten := run_outs_eq_trace dec cfg s is

theorem order_inline_append (s : Srv) (is js : List Input) :
    run dec cfg s (is ++ js) =
      ((run dec cfg (run dec cfg s is).1 js).1,
        (run dec cfg s is).2 ++ (run dec cfg (run dec cfg s is).1 js).2) := run_append dec cfg s is js

end Sio.C05
