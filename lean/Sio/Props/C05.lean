import Sio.Model.Server
namespace Sio.C05
theorem placeholder_stub : True := trivial
end Sio.C05
