import Sio.Model.Server
namespace Sio.C11
theorem placeholder_stub : True := trivial
end Sio.C11
