/-
  C11 — no residual server state once a client's transport is gone.

  `erase`: the loss of an open transport `t`, handled in *any* well-formed state — after any
  prefix history: partially received binary packets, refused connections, unanswered callbacks,
  malformed packets, handlers that raise in connect / event / disconnect position (the script is
  universally quantified) — leaves exactly the state with everything of `t` filtered out.
  `fresh`: when every opened transport has been lost the state is the initial one up to the
  counters (`nextSid`, script counters, `call()` bookkeeping, queued background handlers).
  No hypothesis about handlers or pending binary packets is needed (the two defects of the
  original tree, DESIGN §6 F2/F3, are repaired in /repo and the model has the repaired
  behaviour: cleanup in `finally`, `_binary_packet` dropped at transport end).
-/
import Sio.Lemmas.ServerLost
namespace Sio.C11
open Sio Sio.Server Sio.Rooms

variable {dec : Str → Except Err (Packet × Nat)} {cfg : Cfg}

/-! ### demo: transport A with a session, a room, an unanswered callback, a stored session and a
    half-received binary event; handlers that raise; transport B as bystander -/

def reg0 : Registry := ⟨fun _ _ => true, fun _ => true, fun _ => false, fun _ _ => false⟩
def cfg0 : Cfg := ⟨false, none, false, reg0, ⟨fun _ => .accept, fun _ => .raise, fun _ => .raise⟩⟩
def dec0 : Str → Except Err (Packet × Nat)
  | ['c'] => .ok (⟨CONNECT, none, none, none⟩, 0)
  | ['h'] => .ok (⟨BINARY_EVENT, none, none, some (.arr [.str ['e'], placeholder 0, placeholder 1])⟩, 2)
  | _ => .error .valueError
def tA : Eio := ['A']
def tB : Eio := ['B']
def nsRoot : Ns := ['/']
def hist0 : List Input :=
  [.eioConnect tA, .eioConnect tB, .frame tA (.str ['c']), .frame tB (.str ['c']),
   .enterRoom (sidName 0) nsRoot ['r'], .emit ['e'] .none nsRoot (.one (sidName 0)) [] (some 7),
   .saveSession (sidName 0) nsRoot (.int 1), .frame tA (.str ['h']), .frame tA (.bin [1])]
def demo0 : Srv := (run dec0 cfg0 {} hist0).1
theorem demo0_wf : Server.WF demo0 := Server.WF.init.run dec0 cfg0 hist0

/-! ### `erase` -/

/-- The loss of an open transport `t` in a well-formed state: afterwards rooms, callbacks, ack
    counters, environ, the reassembly buffer, sessions and the socket table are exactly the old
    ones with every entry of `t` — and of every session that lived on `t` — removed, and no
    disconnect is pending.  (`Erased t s s'` lists the eight equalities.) -/
theorem erase {s : Srv} (h : Server.WF s) {t : Eio} (ht : t ∈ s.socks) (reason : Str) :
    Erased t s (step dec cfg s (.eioLost t reason)).1 := by
  rw [step]; exact erased_handleLost h cfg ht reason

example : tA ∈ demo0.socks ∧ demo0.binbuf.length = 1 ∧ demo0.cbs.length = 1 ∧
    demo0.sess.length = 1 ∧ demo0.rooms.length = 5 := by decide

/-- Spelled out: nothing mentions `t`, or a session id that was on `t`. -/
theorem erase_nothing_left {s : Srv} (h : Server.WF s) {t : Eio} (ht : t ∈ s.socks) (reason : Str) :
    let s' := (step dec cfg s (.eioLost t reason)).1
    (∀ e ∈ s'.rooms, e.eio ≠ t ∧ onT s.rooms t e.sid = false) ∧
    s'.pending = [] ∧
    (∀ c ∈ s'.cbs, onT s.rooms t c.1 = false) ∧
    (∀ c ∈ s'.ctr, onT s.rooms t c.1 = false) ∧
    t ∉ s'.environ ∧ t ∉ s'.socks ∧
    (∀ e ∈ s'.binbuf, e.1 ≠ t) ∧ (∀ e ∈ s'.sess, e.1 ≠ t) := by
  intro s'
  have he : Erased t s s' := erase h ht reason
  refine ⟨?_, he.pending, ?_, ?_, ?_, ?_, ?_, ?_⟩
  · intro e hm
    rw [he.rooms, List.mem_filter] at hm
    have hne : e.eio ≠ t := by simpa using hm.2
    refine ⟨hne, ?_⟩
    rw [Bool.eq_false_iff]
    intro hon
    obtain ⟨e', he', h1, h2⟩ := onT_iff.mp hon
    have hns := h.sidNs e' he' e hm.1 h1
    exact hne ((h.rooms.sidEio e' he' e hm.1 hns h1).symm.trans h2)
  · intro c hm
    rw [he.cbs, List.mem_filter] at hm
    simpa using hm.2
  · intro c hm
    rw [he.ctr, List.mem_filter] at hm
    simpa using hm.2
  · rw [he.environ]; simp
  · rw [he.socks]; simp
  · intro e hm
    rw [he.binbuf, List.mem_filter] at hm
    simpa using hm.2
  · intro e hm
    rw [he.sess, List.mem_filter] at hm
    simpa using hm.2

/-- … and everything of the other transports is kept: what `view t` shows is unchanged, except
    that `t` leaves `environ` and the socket table. -/
theorem erase_keeps_others {s : Srv} (h : Server.WF s) {t : Eio} (ht : t ∈ s.socks) (reason : Str) :
    let s' := (step dec cfg s (.eioLost t reason)).1
    (view t s').rooms = (view t s).rooms ∧ (view t s').cbs = (view t s).cbs ∧
    (view t s').ctr = (view t s).ctr ∧ (view t s').binbuf = (view t s).binbuf ∧
    (view t s').sess = (view t s).sess := by
  intro s'
  have he : Erased t s s' := erase h ht reason
  have hno : ∀ e ∈ s'.rooms, e.eio ≠ t := fun e hm => ((erase_nothing_left h ht reason).1 e hm).1
  refine ⟨?_, ?_, ?_, ?_, ?_⟩
  · simp only [view, he.rooms, List.filter_filter, Bool.and_self]
  · simp only [view]
    rw [List.filter_eq_self.mpr (fun c _ => by simp [not_onT_of_no_entry hno]), he.cbs]
  · simp only [view]
    rw [List.filter_eq_self.mpr (fun c _ => by simp [not_onT_of_no_entry hno]), he.ctr]
  · simp only [view, he.binbuf, List.filter_filter, Bool.and_self]
  · simp only [view, he.sess, List.filter_filter, Bool.and_self]

/-- The loss of a transport that is not open (never opened, or already lost) is a no-op. -/
theorem erase_closed {s : Srv} {t : Eio} (ht : t ∉ s.socks) (reason : Str) :
    step dec cfg s (.eioLost t reason) = (s, []) := by
  rw [step]; exact handleLost_closed cfg ht reason

/-- For every prefix history `h` (from the initial state) and every open transport. -/
theorem erase_history (h : List Input) {t : Eio} (ht : t ∈ (run dec cfg {} h).1.socks)
    (reason : Str) :
    Erased t (run dec cfg {} h).1 (run dec cfg {} (h ++ [.eioLost t reason])).1 := by
  rw [run_append, run_cons, run_nil]
  exact erase (Server.WF.init.run dec cfg h) ht reason

-- in the demo state everything of A goes, B's session stays, whatever the handlers raise
example : ((step dec0 cfg0 demo0 (.eioLost tA ['x'])).1.rooms.map (·.eio)) = [tB, tB] ∧
    (step dec0 cfg0 demo0 (.eioLost tA ['x'])).1.cbs = [] ∧
    (step dec0 cfg0 demo0 (.eioLost tA ['x'])).1.binbuf.length = 0 ∧
    (step dec0 cfg0 demo0 (.eioLost tA ['x'])).1.sess.length = 0 ∧
    (step dec0 cfg0 demo0 (.eioLost tA ['x'])).1.socks = [tB] := by decide

/-! ### `fresh` -/

/-- the state without its counters, `call()` bookkeeping and queued background handlers -/
def uncounted (s : Srv) : Srv :=
  { s with nextSid := 0, nConn := 0, nEv := 0, nDisc := 0, nCall := 0, callDone := [], bg := [] }

/-- When no socket is open — every opened transport has been lost — and only open transports
    were ever mentioned (`Open`, an invariant of admissible histories), the state is the initial
    one up to the counters. -/
theorem fresh {s : Srv} (h : Server.WF s) (ho : Open s) (hs : s.socks = []) : uncounted s = {} := by
  have hr : s.rooms = [] := by
    apply List.eq_nil_iff_forall_not_mem.mpr
    intro e he; have := ho.rooms e he; rw [hs] at this; cases this
  have hb : s.binbuf = [] := by
    apply List.eq_nil_iff_forall_not_mem.mpr
    intro e he; have := ho.binbuf e he; rw [hs] at this; cases this
  have hse : s.sess = [] := by
    apply List.eq_nil_iff_forall_not_mem.mpr
    intro e he; have := h.sessOpen e he; rw [hs] at this; cases this
  have hcb : s.cbs = [] := by
    apply List.eq_nil_iff_forall_not_mem.mpr
    intro c hc; obtain ⟨_, _, hm⟩ := h.cbsLive c hc; rw [hr] at hm; cases hm
  have hct : s.ctr = [] := by
    apply List.eq_nil_iff_forall_not_mem.mpr
    intro c hc; obtain ⟨_, _, hm⟩ := h.ctrLive c hc; rw [hr] at hm; cases hm
  have hen : s.environ = [] := h.envSocks.trans hs
  simp only [uncounted, hr, hb, hse, hcb, hct, hen, hs, h.pendingNil]

/-- Over every history in which engine.io delivers frames of open sockets only (`Adm`): once all
    opened transports are lost the server equals a freshly started one up to the counters. -/
theorem fresh_history {h : List Input} (ha : Adm dec cfg {} h)
    (hs : (run dec cfg {} h).1.socks = []) : uncounted (run dec cfg {} h).1 = {} :=
  fresh (Server.WF.init.run dec cfg h) (Open.run ha Open.init Server.WF.init) hs

example : Adm dec0 cfg0 {} (hist0 ++ [.eioLost tA ['x'], .eioLost tB ['y']]) := by
  unfold hist0
  refine .other (by simp) (by simp) (.other (by simp) (by simp) (.frame (by decide)
    (.frame (by decide) (.other (by simp) (by simp) (.other (by simp) (by simp)
    (.other (by simp) (by simp) (.frame (by decide) (.frame (by decide)
    (.other (by simp) (by simp) (.other (by simp) (by simp) .nil))))))))))
example : (run dec0 cfg0 {} (hist0 ++ [.eioLost tA ['x'], .eioLost tB ['y']])).1.socks = [] := by
  decide

end Sio.C11
