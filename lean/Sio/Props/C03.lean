/-
  C03 — Rooms: an emit reaches exactly the addressed members, once each.

  Model: `Sio/Model/Rooms.lean` (the relation-as-list-of-entries rendering of
  `base_manager.py` / `manager.py` / `async_manager.py`), abstract specification:
  `Sio/Model/RoomsSpec.lean` (membership and connections as plain functions).
  Everything below holds for histories of any length over any number of clients, rooms and
  namespaces.  Helper lemmas: `Sio/Lemmas/Rooms*.lean`.
-/
import Sio.Lemmas.RoomsHist
import Sio.Lemmas.RoomsAlgebra
namespace Sio.C03
open Sio.Rooms

/-! ## Vocabulary of the statements -/

/-- `sid` is connected to `ns` (it is in room `None`, i.e. `eio_sid_from_sid` answers) -/
def connected (s : St) (ns : Ns) (sid : Sid) : Prop := eioOf s ns sid ≠ none

/-- `sid` is a member of at least one room the emit is addressed to (`Target.all`: no room is
    named, everybody on the namespace is addressed) -/
def addressedBy (s : St) (ns : Ns) (sid : Sid) : Target → Prop
  | .all => True
  | .one r => isMember s ns (some r) sid = true
  | .many rs => ∃ r ∈ rs, isMember s ns (some r) sid = true

/-- the states the real manager can be in: whatever a finite history produces from nothing -/
def Reachable (s : St) : Prop := ∃ ops : List Op, s = run [] ops

/-! ## A concrete history used for the non-vacuity examples

Two namespaces, three transports; `s0` and `s1` share room `r`, `s1` is also in room `q` and in
the room named like `s2`'s session id; transport `t0` is on both namespaces. -/

def nsA : Ns := ['/']
def nsB : Ns := ['/', 'b']
def t0 : Eio := ['t', '0']
def t1 : Eio := ['t', '1']
def t2 : Eio := ['t', '2']
def s0 : Sid := ['s', '0']
def s1 : Sid := ['s', '1']
def s2 : Sid := ['s', '2']
def s3 : Sid := ['s', '3']
def rR : Room := ['r']
def rQ : Room := ['q']

def demoOps : List Op :=
  [.connect nsA t0 s0, .connect nsA t1 s1, .connect nsA t2 s2, .connect nsB t0 s3,
   .enter nsA s0 rR, .enter nsA s1 rR, .enter nsA s1 rQ, .enter nsA s1 s2, .enter nsA s0 rR,
   .leave nsA s2 rQ, .closeRoom nsB rR]

def demo : St := run [] demoOps

/-! ## Invariant -/

/-- the empty manager satisfies the invariant -/
theorem inv_init : Inv [] := Inv.nil

/-- every operation preserves the invariant: no duplicate entries; every member of any room of a
    namespace is in room `None` of that namespace with the same transport; session ↔ transport
    one-to-one per namespace -/
theorem inv_step {s : St} (h : Inv s) (op : Op) : Inv (apply s op) := h.apply op

/-- ... hence it holds in every reachable state -/
theorem inv_reachable {s : St} (h : Reachable s) : Inv s := by
  obtain ⟨ops, rfl⟩ := h
  exact Inv.nil.run ops

example : Reachable demo := ⟨demoOps, rfl⟩
example : Inv demo := inv_reachable ⟨demoOps, rfl⟩
example : demo.length = 12 := by decide

/-! ## Refinement: the model is the abstract specification -/

/-- one operation on the model is the pointwise update of the specification -/
theorem refines {s : St} (h : Inv s) (op : Op) : abs (apply s op) = (abs s).apply op :=
  refines_op h op

/-- ... hence so is every finite history, from any state satisfying the invariant -/
theorem history_from {s : St} (h : Inv s) (ops : List Op) :
    abs (run s ops) = (abs s).run ops := by
  induction ops generalizing s with
  | nil => rfl
  | cons op ops ih =>
    show abs (run (apply s op) ops) = ((abs s).apply op).run ops
    rw [ih (h.apply op), refines h op]

/-- from the empty manager: the model after a history *is* the specification after that history -/
theorem history (ops : List Op) : abs (run [] ops) = Spec.init.run ops :=
  history_from Inv.nil ops

example : (abs demo).member nsA (some rR) s1 = true := by decide
example : (Spec.init.run demoOps).member nsA (some rR) s1 = true := by decide
example : (Spec.init.run demoOps).member nsB (some rR) s1 = false := by decide

/-! ## Exactly the addressed members, once each -/

/-- a session receives the emit iff it is connected to the namespace, is a member of at least one
    addressed room, and is not skipped -/
theorem recipients_exact {s : St} (h : Inv s) (ns : Ns) (t : Target) (skip : List Sid)
    (sid : Sid) :
    sid ∈ (recipients s ns t skip).map Prod.fst ↔
      connected s ns sid ∧ addressedBy s ns sid t ∧ sid ∉ skip := by
  have hc : isMember s ns none sid = true ↔ connected s ns sid := by
    unfold connected
    rw [Ne, eioOf_none_iff, isMember_iff]
    simp
  have ha : Rooms.addressed s ns sid t ↔ addressedBy s ns sid t := by
    cases t <;> rfl
  unfold recipients
  rw [mem_fst_filter_skip, h.mem_fst_participants, hc, ha, and_assoc]

/-- nobody receives an emit twice, even through overlapping rooms -/
theorem recipients_nodup {s : St} (h : Inv s) (ns : Ns) (t : Target) (skip : List Sid) :
    ((recipients s ns t skip).map Prod.fst).Nodup := by
  unfold recipients
  have := h.participants_nodup ns t
  rw [List.nodup_iff_pairwise_ne] at this ⊢
  rw [List.pairwise_map] at this ⊢
  exact this.filter _

/-- every frame goes to the transport recorded for that session in that namespace, and that
    transport's session on the namespace is this one: never a connection of another namespace -/
theorem sends_addressed {s : St} (h : Inv s) {ns : Ns} {t : Target} {skip : List Sid}
    {sid : Sid} {eio : Eio} (hm : (sid, eio) ∈ recipients s ns t skip) :
    eioOf s ns sid = some eio ∧ sidOf s ns eio = some sid := by
  unfold recipients at hm
  obtain ⟨room, he⟩ := mem_participants (List.mem_filter.mp hm).1
  exact ⟨h.eioOf_of_mem he, h.sidOf_of_mem he⟩

/-- the same three statements about the state after any history, phrased on the specification:
    the recipients are exactly those the abstract statement of C03 names -/
theorem recipients_spec (ops : List Op) (ns : Ns) (t : Target) (skip : List Sid) (sid : Sid) :
    sid ∈ (recipients (run [] ops) ns t skip).map Prod.fst ↔
      (Spec.init.run ops).shouldReceive ns t skip sid = true := by
  have hinv : Inv (run [] ops) := Inv.nil.run ops
  rw [recipients_exact hinv, ← history ops]
  unfold Spec.shouldReceive connected
  simp only [Bool.and_eq_true, Bool.not_eq_true', abs]
  have h1 : eioOf (run [] ops) ns sid ≠ none ↔ (eioOf (run [] ops) ns sid).isSome = true := by
    cases eioOf (run [] ops) ns sid <;> simp
  have h2 : addressedBy (run [] ops) ns sid t ↔
      Spec.addressed ⟨isMember (run [] ops), eioOf (run [] ops), sidOf (run [] ops)⟩ ns sid t
        = true := by
    cases t with
    | all => simp [addressedBy, Spec.addressed]
    | one r => simp [addressedBy, Spec.addressed]
    | many rs => simp [addressedBy, Spec.addressed, List.any_eq_true]
  have h3 : sid ∉ skip ↔ skip.contains sid = false := by
    cases hc : skip.contains sid with
    | false => simp; intro hin; simp at hc; exact hc hin
    | true => simp [List.contains_iff_mem.mp hc]
  rw [h1, h2, h3, and_assoc]

-- non-vacuity: overlapping rooms `r` and `s2`'s personal room, `s1` in both, `s0` skipped
example : recipients demo nsA (.many [rR, s2]) [s0] = [(s1, t1), (s2, t2)] := by decide
example : recipients demo nsA .all [] = [(s0, t0), (s1, t1), (s2, t2)] := by decide
example : recipients demo nsB .all [] = [(s3, t0)] := by decide
example : recipients demo nsA (.one rR) [s1] = [(s0, t0)] := by decide
example : (s1, t1) ∈ recipients demo nsA (.many [rR, rQ]) [] := by decide

/-! ## Left, closed, disconnected: not reached until it re-enters -/

/-- once `sid` is not in `room`, no sequence of operations that does not put it back makes it a
    member again -/
theorem not_member_stable {s : St} {ns : Ns} {room : Option Room} {sid : Sid} {ops : List Op}
    (h : isMember s ns room sid = false) (hops : ∀ op ∈ ops, ¬ op.enters ns room sid) :
    isMember (run s ops) ns room sid = false := not_member_run h hops

/-- after `leave_room` / `close_room` / disconnect (requested or by transport loss), an emit to
    that room does not reach the session, however many other operations happen in between, until
    the session enters the room again (`room = none`: until it connects again) -/
theorem left_never_reached {s : St} {ns : Ns} {room : Option Room} {sid : Sid} {op₀ : Op}
    (hrm : op₀.removes s ns room sid) {ops : List Op}
    (hops : ∀ op ∈ ops, ¬ op.enters ns room sid)
    {t : Target} (ht : t.rooms = [room]) (skip : List Sid) :
    sid ∉ (recipients (run (apply s op₀) ops) ns t skip).map Prod.fst := by
  intro hin
  obtain ⟨room', hr, hm⟩ := mem_fst_participants_imp (mem_fst_recipients_imp hin)
  rw [ht, List.mem_singleton] at hr
  subst hr
  have := not_member_run (removes_not_member hrm) hops
  rw [this] at hm; cases hm

/-- the same for an emit to several rooms: a session that is in none of them, and enters none of
    them, is not reached -/
theorem not_addressed_never_reached {s : St} {ns : Ns} {sid : Sid} {t : Target}
    (h : ∀ room ∈ t.rooms, isMember s ns room sid = false) {ops : List Op}
    (hops : ∀ room ∈ t.rooms, ∀ op ∈ ops, ¬ op.enters ns room sid) (skip : List Sid) :
    sid ∉ (recipients (run s ops) ns t skip).map Prod.fst := by
  intro hin
  obtain ⟨room, hr, hm⟩ := mem_fst_participants_imp (mem_fst_recipients_imp hin)
  have := not_member_run (h room hr) (hops room hr)
  rw [this] at hm; cases hm

/-- corollaries, one per way of leaving -/
theorem after_leave (s : St) (ns : Ns) (sid : Sid) (r : Room) (skip : List Sid) :
    sid ∉ (recipients (leave s ns sid (some r)) ns (.one r) skip).map Prod.fst :=
  left_never_reached (op₀ := .leave ns sid r) (ops := []) ⟨rfl, rfl, rfl⟩ (by simp) rfl skip

theorem after_close (s : St) (ns : Ns) (sid : Sid) (r : Room) (skip : List Sid) :
    sid ∉ (recipients (closeRoom s ns r) ns (.one r) skip).map Prod.fst :=
  left_never_reached (op₀ := .closeRoom ns r) (ops := []) ⟨rfl, rfl⟩ (by simp) rfl skip

theorem after_disconnect (s : St) (ns : Ns) (sid : Sid) (t : Target) (skip : List Sid) :
    sid ∉ (recipients (disconnect s ns sid) ns t skip).map Prod.fst := by
  apply not_addressed_never_reached (s := disconnect s ns sid) (ops := [])
  · intro room _
    exact removes_not_member (op := .disconnect ns sid) ⟨rfl, rfl⟩
  · simp

theorem after_lost (s : St) (ns : Ns) (sid : Sid) (eio : Eio) (h : sidOf s ns eio = some sid)
    (t : Target) (skip : List Sid) :
    sid ∉ (recipients (lost s eio) ns t skip).map Prod.fst := by
  apply not_addressed_never_reached (s := lost s eio) (ops := [])
  · intro room _
    exact removes_not_member (op := .lost eio) h
  · simp

-- non-vacuity: `s1` leaves `r`, other things happen (it even enters another room), then an emit
-- to `r` reaches `s0` only; after it re-enters it is reached again
example : (Op.leave nsA s1 rR).removes demo nsA (some rR) s1 := ⟨rfl, rfl, rfl⟩
example : ∀ op ∈ [Op.enter nsA s2 rR, Op.enter nsA s1 rQ, Op.connect nsB t1 ['s', '4']],
    ¬ op.enters nsA (some rR) s1 := by
  intro op hop
  simp only [List.mem_cons, List.not_mem_nil, or_false] at hop
  rcases hop with rfl | rfl | rfl <;> simp [Op.enters] <;> decide
example : recipients (run demo [.leave nsA s1 rR, .enter nsA s2 rR, .enter nsA s1 rQ]) nsA
    (.one rR) [] = [(s0, t0), (s2, t2)] := by decide
example : recipients (run demo [.leave nsA s1 rR, .enter nsA s1 rR]) nsA (.one rR) []
    = [(s0, t0), (s1, t1)] := by decide
example : sidOf demo nsB t0 = some s3 := by decide
example : recipients (lost demo t0) nsA .all [] = [(s1, t1), (s2, t2)] := by decide
example : recipients (lost demo t0) nsB .all [] = [] := by decide

/-! ## `rooms()` -/

/-- `rooms(sid)` lists exactly the rooms the session is a member of ... -/
theorem rooms_query (s : St) (ns : Ns) (sid : Sid) (r : Room) :
    r ∈ getRooms s ns sid ↔ isMember s ns (some r) sid = true := mem_getRooms

/-- ... each once ... -/
theorem rooms_nodup {s : St} (h : Inv s) (ns : Ns) (sid : Sid) : (getRooms s ns sid).Nodup :=
  h.getRooms_nodup ns sid

/-- ... which after any history is: entered (the personal room at connect) and not since left,
    closed, or disconnected -/
theorem rooms_spec (ops : List Op) (ns : Ns) (sid : Sid) (r : Room) :
    r ∈ getRooms (run [] ops) ns sid ↔ (Spec.init.run ops).member ns (some r) sid = true := by
  rw [rooms_query, ← history ops]; rfl

example : getRooms demo nsA s1 = [s1, rR, rQ, s2] := by decide
example : getRooms demo nsB s1 = [] := by decide

/-! ## Algebra of the room operations (session 4)

Repetition and order of room operations are not observable: stated on `abs`, i.e. on every
membership / connection query, and carried to the recipients of any later emit. -/

/-- entering a room twice is the same as entering it once: observable membership and connections
    are unchanged by the repetition -/
theorem enter_idempotent {s : St} (h : Inv s) (ns : Ns) (sid : Sid) (r : Room) :
    abs (apply (apply s (.enter ns sid r)) (.enter ns sid r)) = abs (apply s (.enter ns sid r)) := by
  rw [refines (h.apply _), refines h, Spec_enter_idem]

theorem leave_idempotent {s : St} (h : Inv s) (ns : Ns) (sid : Sid) (r : Room) :
    abs (apply (apply s (.leave ns sid r)) (.leave ns sid r)) = abs (apply s (.leave ns sid r)) := by
  rw [refines (h.apply _), refines h, Spec_leave_idem]

/-- the order in which clients enter rooms is not observable -/
theorem enter_commutes {s : St} (h : Inv s) (ns ns' : Ns) (sid sid' : Sid) (r r' : Room) :
    abs (apply (apply s (.enter ns sid r)) (.enter ns' sid' r'))
      = abs (apply (apply s (.enter ns' sid' r')) (.enter ns sid r)) := by
  rw [refines (h.apply _), refines h, refines (h.apply _), refines h, Spec_enter_comm]

/-- what an emit reaches depends only on the observable state (`abs`): two manager states with the
    same memberships and connections serve the same recipients -/
theorem recipients_of_abs {s s' : St} (h : Inv s) (h' : Inv s') (e : abs s = abs s')
    (ns : Ns) (t : Target) (skip : List Sid) (sid : Sid) :
    sid ∈ (recipients s ns t skip).map Prod.fst ↔ sid ∈ (recipients s' ns t skip).map Prod.fst := by
  have hm : isMember s = isMember s' := congrArg Spec.member e
  have hc : eioOf s = eioOf s' := congrArg Spec.conn e
  rw [recipients_exact h, recipients_exact h']
  unfold connected
  rw [hc]
  have : addressedBy s ns sid t ↔ addressedBy s' ns sid t := by
    cases t <;> simp [addressedBy, hm]
  rw [this]

/-- so the recipients of any emit are the same whether a client entered a room once or twice, and
    whichever of two clients entered first -/
theorem recipients_enter_twice {s : St} (h : Inv s) (ns : Ns) (sid : Sid) (r : Room)
    (ns' : Ns) (t : Target) (skip : List Sid) (x : Sid) :
    x ∈ (recipients (apply (apply s (.enter ns sid r)) (.enter ns sid r)) ns' t skip).map Prod.fst ↔
    x ∈ (recipients (apply s (.enter ns sid r)) ns' t skip).map Prod.fst :=
  recipients_of_abs ((h.apply _).apply _) (h.apply _) (enter_idempotent h ns sid r) ns' t skip x

example : Inv demo := Inv.nil.run demoOps

/-- leaving undoes entering, however often the room was entered: there is no entry count -/
theorem enter_then_leave {s : St} (h : Inv s) (ns : Ns) (sid : Sid) (r : Room) :
    abs (apply (apply s (.enter ns sid r)) (.leave ns sid r)) = abs (apply s (.leave ns sid r)) := by
  rw [refines (h.apply _), refines h, refines h, Spec_enter_leave]

/-- a connected client that left a room and enters it again is a member exactly as if it had never left -/
theorem leave_then_enter {s : St} (h : Inv s) (ns : Ns) (sid : Sid) (r : Room)
    (hc : connected s ns sid) :
    abs (apply (apply s (.leave ns sid r)) (.enter ns sid r)) = abs (apply s (.enter ns sid r)) := by
  rw [refines (h.apply _), refines h, refines h, Spec_leave_enter]
  unfold connected at hc
  show (eioOf s ns sid).isSome = true
  cases h' : eioOf s ns sid with
  | none => exact absurd h' hc
  | some _ => rfl

theorem close_idempotent {s : St} (h : Inv s) (ns : Ns) (r : Room) :
    abs (apply (apply s (.closeRoom ns r)) (.closeRoom ns r)) = abs (apply s (.closeRoom ns r)) := by
  rw [refines (h.apply _), refines h, Spec_close_idem]

theorem disconnect_idempotent {s : St} (h : Inv s) (ns : Ns) (sid : Sid) :
    abs (apply (apply s (.disconnect ns sid)) (.disconnect ns sid)) = abs (apply s (.disconnect ns sid)) := by
  rw [refines (h.apply _), refines h, Spec_disconnect_idem]

-- non-vacuity of `leave_then_enter`: `s1` is connected to `nsA` in the demo state
example : connected demo nsA s1 := by unfold connected; decide

end Sio.C03
