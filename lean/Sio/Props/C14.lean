/-
  C14 — the asyncio classes behave like their threaded counterparts.

  Parity is decided by *double correspondence*: both class families are compared with the same
  deterministic Lean models (and directly with each other) by the harness.  What Lean contributes
  as theorems of its own is the part that is regenerated from the source: the forwarding tables
  of the class-based namespaces and the reserved-event lists agree between the two families.
-/
import Sio.Props.C13
import Sio.Props.C17
namespace Sio.C14

/-- `Namespace`/`AsyncNamespace` and `ClientNamespace`/`AsyncClientNamespace` forward the same
    arguments to the same targets (modulo `await`), over the tables regenerated from the source. -/
theorem forward_tables_equal : Sio.Forward.syncAsyncEqual Sio.Generated.forwardTable = true :=
  Sio.C17.sync_async_tables_equal

/-- handler resolution of the asyncio classes is the threaded classes' (same reserved lists). -/
theorem dispatch_async_eq_sync :
    Sio.Dispatch.resolve .asyncServer = Sio.Dispatch.resolve .server ∧
    Sio.Dispatch.resolve .asyncClient = Sio.Dispatch.resolve .client :=
  Sio.C13.async_eq_sync

end Sio.C14
