/-
  C13 — handler resolution follows the documented precedence on server and client.

  Every theorem quantifies over ARBITRARY registries (`Reg` is three functions), arbitrary
  namespace and event names; nothing is enumerated.  The reserved-event lists are the ones
  regenerated from the Python source (`Sio/Generated/Reserved.lean`); theorems that mention
  `reservedOf k` / `resolve k` are re-checked against the current source on every run.
-/
import Sio.Model.Dispatch
namespace Sio.C13
open Sio.Dispatch

/-- some function handler is eligible for `(ns, ev)`: an exact-name handler (never for an event
    literally named `"*"`) or, for a non-reserved event, a catch-all event handler -/
def eligibleFn (reserved : List Ev) (r : Reg) (ns : Ns) (ev : Ev) : Bool :=
  r.nsExact ns ev || r.exact star ev || (!reserved.contains ev && (r.nsCatch ns || r.fn star star))

/-! ### the precedence table -/

/-- General form (server transcription): `resolveS` is the documented table, for every reserved
    list, registry, namespace and event (reserved or not; `"*"` as a name included: `Reg.exact` is false for it). -/
theorem precedence_table_S (reserved : List Ev) (r : Reg) (ns : Ns) (ev : Ev) :
    resolveS reserved r ns ev =
      table (reserved.contains ev) (r.nsExact ns ev) (r.nsCatch ns) (r.exact star ev) (r.fn star star)
        (r.nsCls ns) (r.cls star) (r.hasMethod ns ev) (r.hasMethod star ev) := by
  by_cases hns : ns = star
  · have hb : (ns == star) = true := by simpa using hns
    simp only [resolveS, getEventHandler, eventHandlerNs, eventHandlerStar, getNamespaceHandlerS,
      triggerEvent, table, Reg.hasMethod, Reg.nsExact, Reg.nsCatch, Reg.nsCls, bne, hb]
    cases reserved.contains ev <;> cases r.exact ns ev <;> cases r.fn ns star <;>
      cases r.exact star ev <;> cases r.fn star star <;> cases r.cls ns <;> cases r.cls star <;> rfl
  · have hb : (ns == star) = false := by simpa using hns
    simp only [resolveS, getEventHandler, eventHandlerNs, eventHandlerStar, getNamespaceHandlerS,
      triggerEvent, table, Reg.hasMethod, Reg.nsExact, Reg.nsCatch, Reg.nsCls, bne, hb]
    cases reserved.contains ev <;> cases r.exact ns ev <;> cases r.fn ns star <;>
      cases r.exact star ev <;> cases r.fn star star <;> cases r.cls ns <;> cases r.cls star <;> rfl

/-- General form (client transcription). -/
theorem precedence_table_C (reserved : List Ev) (r : Reg) (ns : Ns) (ev : Ev) :
    resolveC reserved r ns ev =
      table (reserved.contains ev) (r.nsExact ns ev) (r.nsCatch ns) (r.exact star ev) (r.fn star star)
        (r.nsCls ns) (r.cls star) (r.hasMethod ns ev) (r.hasMethod star ev) := by
  by_cases hns : ns = star
  · have hb : (ns == star) = true := by simpa using hns
    simp only [resolveC, getEventHandler, eventHandlerNs, eventHandlerStar, getNamespaceHandlerC,
      triggerEvent, table, Reg.hasMethod, Reg.nsExact, Reg.nsCatch, Reg.nsCls, bne, hb]
    cases reserved.contains ev <;> cases r.exact ns ev <;> cases r.fn ns star <;>
      cases r.exact star ev <;> cases r.fn star star <;> cases r.cls ns <;> cases r.cls star <;> rfl
  · have hb : (ns == star) = false := by simpa using hns
    simp only [resolveC, getEventHandler, eventHandlerNs, eventHandlerStar, getNamespaceHandlerC,
      triggerEvent, table, Reg.hasMethod, Reg.nsExact, Reg.nsCatch, Reg.nsCls, bne, hb]
    cases reserved.contains ev <;> cases r.exact ns ev <;> cases r.fn ns star <;>
      cases r.exact star ev <;> cases r.fn star star <;> cases r.cls ns <;> cases r.cls star <;> rfl

/-- All four classes, with the regenerated reserved lists. -/
theorem precedence_table (k : Kind) (r : Reg) (ns : Ns) (ev : Ev) :
    resolve k r ns ev =
      table ((reservedOf k).contains ev) (r.nsExact ns ev) (r.nsCatch ns) (r.exact star ev)
        (r.fn star star) (r.nsCls ns) (r.cls star) (r.hasMethod ns ev) (r.hasMethod star ev) := by
  cases k <;> simp only [resolve, reservedOf]
  · exact precedence_table_S _ r ns ev
  · exact precedence_table_S _ r ns ev
  · exact precedence_table_C _ r ns ev
  · exact precedence_table_C _ r ns ev

theorem contains_false {l : List Ev} {ev : Ev} (h : ev ∉ l) : l.contains ev = false := by
  simpa [List.contains_iff_mem] using h

theorem contains_true {l : List Ev} {ev : Ev} (h : ev ∈ l) : l.contains ev = true := by
  simpa [List.contains_iff_mem] using h

/-- **The six-line table of the statement**, on every one of the four classes, for every registry,
    every namespace and EVERY non-reserved event name — an event literally named `"*"` included.
    The two exact-name lines test `Reg.exact` (`ev ≠ "*"` and a handler registered under that
    name), so for `ev = "*"` they are never taken (`star_event`).  A class slot invokes the
    attribute `on_<event>` (`methodName ev`) if the class has it.  Likewise the three
    exact-namespace lines test `Reg.nsExact/nsCatch/nsCls` (`ns ≠ "*"` and …), so a namespace
    literally named `"*"` is never an exact match (`star_namespace`). -/
theorem precedence (k : Kind) (r : Reg) (ns : Ns) (ev : Ev) (hres : ev ∉ reservedOf k) :
    resolve k r ns ev =
      match r.nsExact ns ev, r.nsCatch ns, r.exact star ev, r.fn star star, r.nsCls ns, r.cls star with
      | true,  _,     _,     _,     _,     _     => .invoke .fnNsEv []
      | false, true,  _,     _,     _,     _     => .invoke .fnNsStar [.ev]
      | false, false, true,  _,     _,     _     => .invoke .fnStarEv [.ns]
      | false, false, false, true,  _,     _     => .invoke .fnStarStar [.ev, .ns]
      | false, false, false, false, true,  _     =>
        bif r.attr ns (methodName ev) then .invoke .clsNs [] else .dropped .clsNs
      | false, false, false, false, false, true  =>
        bif r.attr star (methodName ev) then .invoke .clsStar [.ns] else .dropped .clsStar
      | false, false, false, false, false, false => .notHandled := by
  rw [precedence_table, contains_false hres]
  simp only [table, Reg.hasMethod]
  cases r.nsExact ns ev <;> cases r.nsCatch ns <;> cases r.exact star ev <;>
    cases r.fn star star <;> cases r.nsCls ns <;> cases r.cls star <;> rfl

/-- The same table for a reserved event: the two catch-all *event* lines disappear, everything else
    keeps its place. -/
theorem precedence_reserved (k : Kind) (r : Reg) (ns : Ns) (ev : Ev) (hres : ev ∈ reservedOf k) :
    resolve k r ns ev =
      match r.nsExact ns ev, r.exact star ev, r.nsCls ns, r.cls star with
      | true,  _,     _,     _     => .invoke .fnNsEv []
      | false, true,  _,     _     => .invoke .fnStarEv [.ns]
      | false, false, true,  _     =>
        bif r.attr ns (methodName ev) then .invoke .clsNs [] else .dropped .clsNs
      | false, false, false, true  =>
        bif r.attr star (methodName ev) then .invoke .clsStar [.ns] else .dropped .clsStar
      | false, false, false, false => .notHandled := by
  rw [precedence_table, contains_true hres]
  simp only [table, Reg.hasMethod]
  cases r.nsExact ns ev <;> cases r.nsCatch ns <;> cases r.exact star ev <;>
    cases r.fn star star <;> cases r.nsCls ns <;> cases r.cls star <;> rfl

theorem exact_star (r : Reg) (n : Ns) : r.exact n star = false := by
  simp [Reg.exact]

theorem exact_of_ne (r : Reg) (n : Ns) {ev : Ev} (h : ev ≠ star) : r.exact n ev = r.fn n ev := by
  simp [Reg.exact, h]

theorem nsBits_star (r : Reg) (ev : Ev) :
    r.nsExact star ev = false ∧ r.nsCatch star = false ∧ r.nsCls star = false := by
  simp [Reg.nsExact, Reg.nsCatch, Reg.nsCls]

theorem nsBits_of_ne (r : Reg) {ns : Ns} (h : ns ≠ star) (ev : Ev) :
    r.nsExact ns ev = r.exact ns ev ∧ r.nsCatch ns = r.fn ns star ∧ r.nsCls ns = r.cls ns := by
  simp [Reg.nsExact, Reg.nsCatch, Reg.nsCls, h]

/-- **An event literally named `"*"`** (it is not reserved on any class) is routed like any other
    event without a handler of its own: to the namespace's catch-all event handler with the event
    name prepended, else to `handlers['*']['*']` with `[ev, ns]` prepended, else to the class-based
    namespaces (method `on_*`) — and NEVER as an exact-name match, whatever is registered: the
    catch-all handlers are not invoked without the event name.  (Before /repo 6dcbd32 the first
    line was `invoke fnNsEv []`: arguments shifted by one.) -/
theorem star_event (k : Kind) (r : Reg) (ns : Ns) :
    resolve k r ns star =
      (match r.nsCatch ns, r.fn star star, r.nsCls ns, r.cls star with
       | true,  _,     _,     _     => .invoke .fnNsStar [.ev]
       | false, true,  _,     _     => .invoke .fnStarStar [.ev, .ns]
       | false, false, true,  _     =>
         bif r.attr ns (methodName star) then .invoke .clsNs [] else .dropped .clsNs
       | false, false, false, true  =>
         bif r.attr star (methodName star) then .invoke .clsStar [.ns] else .dropped .clsStar
       | false, false, false, false => .notHandled) ∧
    (∀ pre, resolve k r ns star ≠ .invoke .fnNsEv pre ∧ resolve k r ns star ≠ .invoke .fnStarEv pre) := by
  have hres : star ∉ reservedOf k := by cases k <;> decide
  have h1 : r.nsExact ns star = false := by simp [Reg.nsExact, exact_star]
  rw [precedence k r ns star hres, h1, exact_star]
  constructor
  · cases r.nsCatch ns <;> cases r.fn star star <;> cases r.nsCls ns <;> cases r.cls star <;> rfl
  · intro pre
    cases r.nsCatch ns <;> cases r.fn star star <;> cases r.nsCls ns <;> cases r.cls star <;>
      cases r.attr ns (methodName star) <;> cases r.attr star (methodName star) <;> simp

/-- **A namespace literally named `"*"`** (the default packet format cannot express one — a
    namespace starts with `/` — but a msgpack peer can send it) is routed like any other namespace
    that has nothing registered under its own name: NEVER as an exact namespace match, whatever is
    registered — to `handlers['*'][ev]` with `[ns]` prepended, else (non-reserved event) to
    `handlers['*']['*']` with `[ev, ns]`, else to the catch-all class-based namespace with `[ns]`.
    So the catch-all handlers always receive the namespace argument.  (Before /repo 74a0887 the
    first line was `invoke fnNsEv []`: the handler's namespace parameter received the sid.) -/
theorem star_namespace (k : Kind) (r : Reg) (ev : Ev) :
    resolve k r star ev =
      (match r.exact star ev, !(reservedOf k).contains ev && r.fn star star, r.cls star with
       | true,  _,     _     => .invoke .fnStarEv [.ns]
       | false, true,  _     => .invoke .fnStarStar [.ev, .ns]
       | false, false, true  =>
         bif r.attr star (methodName ev) then .invoke .clsStar [.ns] else .dropped .clsStar
       | false, false, false => .notHandled) ∧
    (∀ pre, resolve k r star ev ≠ .invoke .fnNsEv pre ∧ resolve k r star ev ≠ .invoke .fnNsStar pre ∧
            resolve k r star ev ≠ .invoke .clsNs pre) ∧
    resolve k r star ev ≠ .dropped .clsNs := by
  obtain ⟨h1, h2, h5⟩ := nsBits_star r ev
  rw [precedence_table, h1, h2, h5]
  simp only [table, Reg.hasMethod]
  refine ⟨?_, ?_, ?_⟩
  · cases (reservedOf k).contains ev <;> cases r.exact star ev <;> cases r.fn star star <;>
      cases r.cls star <;> rfl
  · intro pre
    cases (reservedOf k).contains ev <;> cases r.exact star ev <;> cases r.fn star star <;>
      cases r.cls star <;> cases r.attr star (methodName ev) <;> simp
  · cases (reservedOf k).contains ev <;> cases r.exact star ev <;> cases r.fn star star <;>
      cases r.cls star <;> cases r.attr star (methodName ev) <;> simp

/-- Every line of the table is reachable: for `ns ≠ "*"` the presence bits and the two "class has
    the method" bits are independent — some registry realises any combination (non-vacuity of
    `precedence`); for `ev = "*"` the two exact-event bits are necessarily false, the other six
    remain free.  (For `ns = "*"` the three exact-namespace bits are false: `nsBits_star`.) -/
theorem precedence_realizable (ns : Ns) (ev : Ev) (hns : ns ≠ star)
    (b1 b2 b3 b4 b5 b6 m5 m6 : Bool) :
    ∃ r : Reg, r.nsExact ns ev = (ev != star && b1) ∧ r.nsCatch ns = b2 ∧
      r.exact star ev = (ev != star && b3) ∧ r.fn star star = b4 ∧
      r.nsCls ns = b5 ∧ r.cls star = b6 ∧ r.attr ns (methodName ev) = m5 ∧
      r.attr star (methodName ev) = m6 := by
  refine ⟨{ fn := fun n e => if n = star then (if e = star then b4 else b3)
                              else (if e = star then b2 else b1),
            cls := fun n => if n = star then b6 else b5,
            attr := fun n _ => if n = star then m6 else m5 }, ?_⟩
  by_cases hev : ev = star <;> simp [Reg.exact, Reg.nsExact, Reg.nsCatch, Reg.nsCls, hns, hev]

/-- The result depends on the registry only through the eight bits of the table: whatever else is
    registered (other events of the same namespace, other namespaces, other attributes of the
    classes) is irrelevant. -/
theorem unrelated_irrelevant (k : Kind) (r r' : Reg) (ns : Ns) (ev : Ev)
    (h1 : r.nsExact ns ev = r'.nsExact ns ev) (h2 : r.nsCatch ns = r'.nsCatch ns)
    (h3 : r.exact star ev = r'.exact star ev) (h4 : r.fn star star = r'.fn star star)
    (h5 : r.nsCls ns = r'.nsCls ns) (h6 : r.cls star = r'.cls star)
    (h7 : r.attr ns (methodName ev) = r'.attr ns (methodName ev))
    (h8 : r.attr star (methodName ev) = r'.attr star (methodName ev)) :
    resolve k r ns ev = resolve k r' ns ev := by
  simp only [precedence_table, Reg.hasMethod, h1, h2, h3, h4, h5, h6, h7, h8]

/-! ### a function handler always wins over a class-based one -/

/-- the result is a call of a registered function -/
def isFnCall : Res → Bool
  | .invoke s _ => s.isFn
  | _ => false

/-- the result was decided by a class-based namespace (method called, or dropped for lack of it) -/
def isClassOutcome : Res → Bool
  | .invoke s _ => !s.isFn
  | .dropped s => !s.isFn
  | .notHandled => false

theorem table_fn_iff : ∀ res b1 b2 b3 b4 b5 b6 m5 m6 : Bool,
    isFnCall (table res b1 b2 b3 b4 b5 b6 m5 m6) = (b1 || b3 || (!res && (b2 || b4))) := by
  decide

theorem table_class_iff : ∀ res b1 b2 b3 b4 b5 b6 m5 m6 : Bool,
    isClassOutcome (table res b1 b2 b3 b4 b5 b6 m5 m6) =
      (!(b1 || b3 || (!res && (b2 || b4))) && (b5 || b6)) := by
  decide

/-- If any function handler is eligible, a registered function is what runs — whatever class-based
    namespaces are registered and whatever methods they have; and only then. -/
theorem function_beats_class (k : Kind) (r : Reg) (ns : Ns) (ev : Ev) :
    isFnCall (resolve k r ns ev) = eligibleFn (reservedOf k) r ns ev := by
  rw [precedence_table, table_fn_iff]; rfl

/-- A class-based namespace decides the outcome exactly when no function handler is eligible and
    one of the two class-based namespaces is registered. -/
theorem class_only_without_function (k : Kind) (r : Reg) (ns : Ns) (ev : Ev) :
    isClassOutcome (resolve k r ns ev) =
      (!eligibleFn (reservedOf k) r ns ev && (r.nsCls ns || r.cls star)) := by
  rw [precedence_table, table_class_iff]; rfl

/-- …and an event with no target is dropped (`notHandled`) exactly when nothing is eligible. -/
theorem not_handled_iff (k : Kind) (r : Reg) (ns : Ns) (ev : Ev) :
    resolve k r ns ev = .notHandled ↔
      (eligibleFn (reservedOf k) r ns ev = false ∧ r.nsCls ns = false ∧ r.cls star = false) := by
  have key : ∀ res b1 b2 b3 b4 b5 b6 m5 m6 : Bool,
      table res b1 b2 b3 b4 b5 b6 m5 m6 = .notHandled ↔
        ((b1 || b3 || (!res && (b2 || b4))) = false ∧ b5 = false ∧ b6 = false) := by decide
  rw [precedence_table, key]; rfl

/-! ### reserved events -/

/-- the result is a call of one of the two catch-all *event* handlers -/
def isCatchAllEvent : Res → Bool
  | .invoke .fnNsStar _ => true
  | .invoke .fnStarStar _ => true
  | _ => false

theorem table_reserved : ∀ b1 b2 b3 b4 b5 b6 m5 m6 : Bool,
    isCatchAllEvent (table true b1 b2 b3 b4 b5 b6 m5 m6) = false := by
  decide

/-- A reserved event never reaches a catch-all *event* handler (`handlers[ns]['*']`,
    `handlers['*']['*']`), on any of the four classes, for any registry. -/
theorem reserved_never_catchall_event (k : Kind) (r : Reg) (ns : Ns) (ev : Ev)
    (hres : ev ∈ reservedOf k) (pre : List PArg) :
    resolve k r ns ev ≠ .invoke .fnNsStar pre ∧ resolve k r ns ev ≠ .invoke .fnStarStar pre := by
  have h := table_reserved (r.nsExact ns ev) (r.nsCatch ns) (r.exact star ev) (r.fn star star) (r.nsCls ns)
    (r.cls star) (r.hasMethod ns ev) (r.hasMethod star ev)
  rw [precedence_table, contains_true hres]
  constructor <;> (intro e; rw [e] at h; simp [isCatchAllEvent] at h)

/-- What the source lists as reserved (checked against the regenerated lists): `connect` and
    `disconnect` everywhere, `connect_error` on both clients; `"*"` nowhere. -/
theorem reserved_lists :
    (∀ k, "connect".toList ∈ reservedOf k ∧ "disconnect".toList ∈ reservedOf k) ∧
    "connect_error".toList ∈ reservedOf .client ∧ "connect_error".toList ∈ reservedOf .asyncClient ∧
    (∀ k, star ∉ reservedOf k) := by
  refine ⟨?_, ?_, ?_, ?_⟩
  · intro k; cases k <;> decide
  · decide
  · decide
  · intro k; cases k <;> decide

/-- The statement's clause verbatim: connect / disconnect (/ connect_error on the client) are never
    routed to a catch-all event handler. -/
theorem connect_disconnect_never_catchall (k : Kind) (r : Reg) (ns : Ns) (ev : Ev)
    (hev : ev = "connect".toList ∨ ev = "disconnect".toList ∨
      (ev = "connect_error".toList ∧ (k = .client ∨ k = .asyncClient)))
    (pre : List PArg) :
    resolve k r ns ev ≠ .invoke .fnNsStar pre ∧ resolve k r ns ev ≠ .invoke .fnStarStar pre := by
  apply reserved_never_catchall_event
  rcases hev with h | h | ⟨h, hk | hk⟩
  · subst h; exact (reserved_lists.1 k).1
  · subst h; exact (reserved_lists.1 k).2
  · subst h; subst hk; exact reserved_lists.2.1
  · subst h; subst hk; exact reserved_lists.2.2.1

/-! ### server and client apply the same rules -/

/-- The client transcription (`elif '*' in self.namespace_handlers`) and the server transcription
    (`if handler is None and '*' in …`) are the same function of reserved list, registry, namespace
    and event.  (Holds since /repo commit a085733; before it `_get_event_handler` differed.) -/
theorem client_eq_server : resolveC = resolveS := by
  funext reserved r ns ev
  rw [precedence_table_C, precedence_table_S]

/-- With the regenerated lists: client and server route an event identically whenever they agree on
    whether it is reserved (the lists differ by `connect_error` / `__disconnect_final`). -/
theorem client_eq_server_generated (r : Reg) (ns : Ns) (ev : Ev)
    (h : ev ∈ reservedOf .client ↔ ev ∈ reservedOf .server) :
    resolveClient r ns ev = resolveServer r ns ev := by
  have hc : (reservedOf .client).contains ev = (reservedOf .server).contains ev := by
    rw [Bool.eq_iff_iff]; simpa [List.contains_iff_mem] using h
  simp only [resolveClient, resolveServer, precedence_table, hc]

/-- asyncio classes resolve exactly like the threaded ones (their reserved lists are equal in the
    source as it is now). -/
theorem async_eq_sync :
    resolve .asyncServer = resolve .server ∧ resolve .asyncClient = resolve .client := by
  have h1 : Generated.asyncServerReserved = Generated.serverReserved := by decide
  have h2 : Generated.asyncClientReserved = Generated.clientReserved := by decide
  constructor <;> simp only [resolve, h1, h2]

/-! ### class-based namespaces: `on_<event>`, no fall-through -/

/-- what `method_name` says about one result, as a Boolean (so that the table can be checked by
    evaluation) -/
def clsOk (b5 b6 m5 m6 : Bool) : Res → Bool
  | .invoke s p => s.isFn || (s == .clsNs && p == [] && b5 && m5) ||
      (s == .clsStar && p == [.ns] && !b5 && b6 && m6)
  | _ => true

/-- A class-based target is the attribute `on_<event>` of the selected namespace object: the class
    slot is invoked only if *that* attribute exists on *that* object; the specific namespace gets no
    prefix, the catch-all namespace gets the namespace prepended. -/
theorem method_name (k : Kind) (r : Reg) (ns : Ns) (ev : Ev) (slot : Slot) (pre : List PArg)
    (h : resolve k r ns ev = .invoke slot pre) (hs : slot.isFn = false) :
    methodName ev = "on_".toList ++ ev ∧
    ((slot = .clsNs ∧ pre = [] ∧ r.nsCls ns = true ∧ r.attr ns ("on_".toList ++ ev) = true) ∨
     (slot = .clsStar ∧ pre = [.ns] ∧ r.nsCls ns = false ∧ r.cls star = true ∧
        r.attr star ("on_".toList ++ ev) = true)) := by
  have hm : methodName ev = "on_".toList ++ ev := rfl
  refine ⟨hm, ?_⟩
  rw [← hm]
  have key : ∀ res b1 b2 b3 b4 b5 b6 m5 m6 : Bool,
      clsOk b5 b6 m5 m6 (table res b1 b2 b3 b4 b5 b6 m5 m6) = true := by decide
  have h' := key ((reservedOf k).contains ev) (r.nsExact ns ev) (r.nsCatch ns) (r.exact star ev)
    (r.fn star star) (r.nsCls ns) (r.cls star) (r.hasMethod ns ev) (r.hasMethod star ev)
  rw [← precedence_table, h] at h'
  simpa [clsOk, hs, Reg.hasMethod, and_assoc] using h'

/-- No fall-through (as coded): when the namespace has its own class-based namespace and that class
    lacks `on_<event>`, the event is dropped — the catch-all class-based namespace is not tried,
    even if it is registered and has the method. -/
theorem no_fallthrough (k : Kind) (r : Reg) (ns : Ns) (ev : Ev)
    (hf : eligibleFn (reservedOf k) r ns ev = false) (hc : r.nsCls ns = true)
    (hm : r.attr ns (methodName ev) = false) :
    resolve k r ns ev = .dropped .clsNs := by
  have key : ∀ res b1 b2 b3 b4 b6 m6 : Bool, (b1 || b3 || (!res && (b2 || b4))) = false →
      table res b1 b2 b3 b4 true b6 false m6 = .dropped .clsNs := by decide
  rw [precedence_table]
  simp only [Reg.hasMethod, hc, hm]
  exact key _ _ _ _ _ _ _ hf

/-! ### non-vacuity: concrete registries meeting the hypotheses -/

/-- a registry with a specific handler, both catch-all namespace handlers, and both class-based
    namespaces of which only the catch-all one has `on_msg` -/
def exReg : Reg where
  fn n e := (n = "/chat".toList ∧ e = "other".toList) ∨ (n = star ∧ (e = "msg".toList ∨ e = star))
  cls _ := true
  attr n a := n = star ∧ a = "on_msg".toList

example : resolveServer exReg "/chat".toList "msg".toList = .invoke .fnStarEv [.ns] := by decide
example : resolveClient exReg "/chat".toList "zzz".toList = .invoke .fnStarStar [.ev, .ns] := by decide
example : resolveClient exReg "/chat".toList "connect_error".toList = .dropped .clsNs := by decide
example : resolveServer exReg "/chat".toList "connect_error".toList
    = .invoke .fnStarStar [.ev, .ns] := by decide
-- an event literally named "*": catch-all WITH the event name (and namespace) prepended
example : resolveServer exReg "/chat".toList star = .invoke .fnStarStar [.ev, .ns] := by decide
example : resolveAsyncClient { exReg with fn := fun n e => n = "/chat".toList ∧ e = star } "/chat".toList star
    = .invoke .fnNsStar [.ev] := by decide
-- a namespace literally named "*": never an exact match, the namespace is prepended
example : resolveServer exReg star "msg".toList = .invoke .fnStarEv [.ns] := by decide
example : resolveAsyncClient exReg star "zzz".toList = .invoke .fnStarStar [.ev, .ns] := by decide
example : "msg".toList ∉ reservedOf .server ∧ "/chat".toList ≠ star ∧ "msg".toList ≠ star := by decide
example : eligibleFn (reservedOf .asyncClient) exReg "/chat".toList "connect".toList = false ∧
    exReg.cls "/chat".toList = true ∧ exReg.attr "/chat".toList (methodName "connect".toList) = false ∧
    exReg.cls star = true := by decide
example : resolve .asyncServer { exReg with fn := fun _ _ => false } "/x".toList "msg".toList
    = .dropped .clsNs := by decide
example : resolve .asyncServer { exReg with fn := fun _ _ => false, cls := fun n => n = star }
    "/x".toList "msg".toList = .invoke .clsStar [.ns] := by decide

end Sio.C13
