import Sio.Model.Server
namespace Sio.C06
theorem placeholder_stub : True := trivial
end Sio.C06
