/-
  C06 — server-initiated acknowledgements: the id on an emit-with-callback is unique among the
  client's outstanding callbacks and larger than every id handed to it before; a callback fires at
  most once, only for an ACK from the transport + namespace that resolves to the session it was
  registered for, with the acknowledged arguments; other ACKs are inert; nothing fires after the
  disconnect; `call()` returns what was acknowledged during its wait or times out.

  All statements are about `Sio.Server.step` / `run` (model of server.py, base_manager.py,
  manager.py), for every decoder `dec`, configuration and handler script, from every well-formed
  state `Server.WF s` — an invariant of all reachable states (`reachable_wf`).
-/
import Sio.Lemmas.ServerAck
namespace Sio.C06
open Sio Sio.Server Sio.Rooms

variable {dec : Str → Except Err (Packet × Nat)} {cfg : Cfg}

/-- states reachable from the initial state by any history -/
def Reachable (dec : Str → Except Err (Packet × Nat)) (cfg : Cfg) (s : Srv) : Prop :=
  ∃ is : List Input, s = (run dec cfg {} is).1

/-- every reachable state is well formed (unbounded histories, any decoder / config / script) -/
theorem reachable_wf {s : Srv} (h : Reachable dec cfg s) : Server.WF s ∧ Calls s := by
  obtain ⟨is, rfl⟩ := h
  exact ⟨Server.WF.init.run dec cfg is, Calls.run Server.WF.init Calls.init dec cfg is⟩

/-! ### a concrete non-trivial state for the non-vacuity examples

two transports, each connected to `/`; an emit with callback 7 to the first session -/

def reg0 : Registry := ⟨fun _ _ => true, fun _ => true, fun _ => false, fun _ _ => false⟩
def cfg0 : Cfg := ⟨false, none, true, reg0, ⟨fun _ => .accept, fun _ => .ret .none, fun _ => .ok⟩⟩
/-- a toy decoder: "c" is CONNECT, "a" is ACK id 1 `["x"]`, "b" is ACK id 9, anything else fails -/
def dec0 : Str → Except Err (Packet × Nat)
  | ['c'] => .ok (⟨CONNECT, none, none, none⟩, 0)
  | ['a'] => .ok (⟨ACK, none, some 1, some (.arr [.str ['x']])⟩, 0)
  | ['b'] => .ok (⟨ACK, none, some 9, some (.arr [])⟩, 0)
  | _ => .error .valueError
def tA : Eio := ['A']
def tB : Eio := ['B']
def nsRoot : Ns := ['/']
def hist0 : List Input :=
  [.eioConnect tA, .eioConnect tB, .frame tA (.str ['c']), .frame tB (.str ['c'])]
def demo0 : Srv := (run dec0 cfg0 {} hist0).1
def demo1 : Srv := (step dec0 cfg0 demo0 (.emit ['e'] .none nsRoot (.one (sidName 0)) [] (some 7))).1

theorem demo0_wf : Server.WF demo0 := Server.WF.init.run dec0 cfg0 hist0
theorem demo1_wf : Server.WF demo1 := demo0_wf.step dec0 cfg0 _

/-! ### `id_unique` -/

/-- Emitting with a callback to exactly one recipient `sid` (on transport `t`): the event carries
    the id `counter sid + 1`, which is strictly greater than the id of every outstanding callback
    of `sid`; the callback is registered under it, the counter becomes that id, and the
    outstanding `(sid, id)` pairs stay pairwise distinct. -/
theorem id_unique {s : Srv} (h : Server.WF s) (ev : Str) (d : Data) (ns : Ns) (to : Target)
    (skip : List Sid) (tok : CbTok) {sid : Sid} {t : Eio}
    (hn : hasNs s.rooms ns = true) (hr : recipients s.rooms ns to skip = [(sid, t)]) :
    emit s ev d ns to skip (some tok) =
        (addCb s sid tok,
          sendTo s (some t) (mkOut EVENT ns (some (ctrOf s.ctr sid + 1)) (J.str ev :: d.pack))) ∧
      (addCb s sid tok).cbs = s.cbs ++ [(sid, ctrOf s.ctr sid + 1, tok)] ∧
      (∀ c ∈ s.cbs, c.1 = sid → c.2.1 < ctrOf s.ctr sid + 1) ∧
      ctrOf (addCb s sid tok).ctr sid = ctrOf s.ctr sid + 1 ∧
      ((addCb s sid tok).cbs.map (fun c => (c.1, c.2.1))).Nodup := by
  refine ⟨?_, ?_, ?_, ?_, ?_⟩
  · rw [emit_cb_eq, hr]
    simp only [hn, Bool.not_true, Bool.false_eq_true, if_false, List.foldl_cons, List.foldl_nil,
      emitOne, List.nil_append, nextAckId_eq]
    congr 1
  · simp only [addCb, nextAckId_eq]
  · intro c hc hs
    have := (h.cbsLe c hc).2
    rw [hs] at this; omega
  · simp [addCb, ctrOf_setCtr, nextAckId_eq]
  · have hl : sidLive s.rooms sid :=
      recipients_live h.rooms (p := (sid, t)) (by rw [hr]; simp)
    exact (h.toWF0.addCb hl tok).cbsNodup

example : hasNs demo0.rooms nsRoot = true ∧
    recipients demo0.rooms nsRoot (.one (sidName 0)) [] = [(sidName 0, tA)] := by decide

/-- In every well-formed (hence every reachable) state the outstanding `(sid, id)` pairs are
    pairwise distinct and every outstanding id is at most the session's counter. -/
theorem outstanding_unique {s : Srv} (h : Server.WF s) :
    (s.cbs.map (fun c => (c.1, c.2.1))).Nodup ∧ ∀ c ∈ s.cbs, 1 ≤ c.2.1 ∧ c.2.1 ≤ ctrOf s.ctr c.1 :=
  ⟨h.cbsNodup, h.cbsLe⟩

/-- Over any history, as long as the session is connected its counter does not decrease: an id
    handed out later (`counter + 1` at that time) is strictly greater than every id handed out
    earlier. -/
theorem id_increasing {s : Srv} (h : Server.WF s) (is : List Input) (sid : Sid)
    (hl : sidLive (run dec cfg s is).1.rooms sid) :
    ctrOf s.ctr sid < ctrOf (run dec cfg s is).1.ctr sid + 1 :=
  Nat.lt_succ_of_le (ctr_mono h dec cfg is sid hl)

example : sidLive (run dec0 cfg0 demo1 [.frame tB (.str ['a'])]).1.rooms (sidName 0) :=
  ⟨nsRoot, tA, by decide⟩

/-! ### `callback_only_on_matching_ack`, at most once -/

/-- A `callback n args` in the output of a frame step: the frame (from transport `t`) completes an
    ACK `(nsp, id, data)`, the session `sid` that `t` has on that namespace has `(sid, id, n)`
    outstanding, `args` are the ACK's arguments, the callback is the only output and the entry is
    popped. -/
theorem callback_only_on_matching_ack {s : Srv} (h : Server.WF s) {t : Eio} {v : J} {n : Nat}
    {args : List J} (hm : Out.callback n args ∈ (step dec cfg s (.frame t v)).2) :
    ∃ nsp id data s₀ sid i, CompletesAck dec s t v nsp id data s₀ ∧
      sidOf s.rooms (nsp.getD ['/']) t = some sid ∧ id = some i ∧
      (sid, i, CbTok.user n) ∈ s.cbs ∧ starArgs data = .ok args ∧
      step dec cfg s (.frame t v) = (popCb s₀ sid i, [.callback n args]) := by
  rw [step] at hm ⊢
  exact fires_of_frame h hm

example : Out.callback 7 [.str ['x']] ∈ (step dec0 cfg0 demo1 (.frame tA (.str ['a']))).2 := by
  have : (step dec0 cfg0 demo1 (.frame tA (.str ['a']))).2 = [Out.callback 7 [.str ['x']]] := by rfl
  rw [this]; simp

/-- Over any history (frames inside the wait of a `call()` included) every `callback` output is
    produced by a frame, handled in a well-formed state `s₀`, that completes a matching ACK. -/
theorem callback_only_from_frames {s : Srv} (h : Server.WF s) (is : List Input) {n : Nat} {args : List J}
    (hm : Out.callback n args ∈ (run dec cfg s is).2) :
    ∃ s₀ t v, FrameAt dec cfg s is s₀ t v ∧ Server.WF s₀ ∧ Fires dec cfg s₀ t v n args :=
  (callback_source dec cfg).2 s is h n args hm

example : Out.callback 7 [.str ['x']] ∈
    (run dec0 cfg0 demo1 [.frame tB (.str ['a']), .frame tA (.str ['a'])]).2 := by
  have : (run dec0 cfg0 demo1 [.frame tB (.str ['a']), .frame tA (.str ['a'])]).2 =
      [Out.callback 7 [.str ['x']]] := by rfl
  rw [this]; simp

/-- After the callback fired, `(sid, id)` is not outstanding any more … -/
theorem popped {s : Srv} (sid : Sid) (i : Nat) : ∀ tok, (sid, i, tok) ∉ (popCb s sid i).cbs := by
  intro tok hm
  simp [popCb] at hm

/-- A frame that completes an ACK whose `(sid, id)` is not outstanding — never issued, already
    used, issued to another client or on another namespace, id 0 included — outputs nothing and
    leaves the state unchanged (a completed BINARY_ACK only leaves the reassembly buffer). -/
theorem foreign_ack_inert {s s₀ : Srv} {t : Eio} {v : J} {nsp : Option Str} {id : Option Nat}
    {data : Option J} (hc : CompletesAck dec s t v nsp id data s₀)
    (hf : ∀ sid i, sidOf s.rooms (nsp.getD ['/']) t = some sid → id = some i →
      ∀ tok, (sid, i, tok) ∉ s.cbs) :
    step dec cfg s (.frame t v) = (s₀, []) ∧ (s₀ = s ∨ s₀ = dropBin s t) := by
  rw [step, handleFrame_of_completesAck cfg hc]
  refine ⟨handleAck_inert ?_, hc.state⟩
  rw [hc.rooms.1, hc.rooms.2]; exact hf

/-- … so a second identical ACK is inert: at most once. -/
theorem at_most_once {s s₀ s₁ : Srv} {t : Eio} {v : J} {nsp : Option Str} {data : Option J}
    {sid : Sid} {i : Nat} (hs : sidOf s.rooms (nsp.getD ['/']) t = some sid)
    (hc : CompletesAck dec (popCb s₀ sid i) t v nsp (some i) data s₁)
    (hr : (popCb s₀ sid i).rooms = s.rooms) :
    step dec cfg (popCb s₀ sid i) (.frame t v) = (s₁, []) := by
  refine (foreign_ack_inert hc ?_).1
  intro sid' i' h1 h2 tok
  rw [hr, hs] at h1
  cases h1; cases h2
  exact popped sid i tok

example : sidOf demo1.rooms nsRoot tA = some (sidName 0) ∧
    (popCb demo1 (sidName 0) 1).rooms = demo1.rooms := ⟨by decide, rfl⟩
example : CompletesAck dec0 (popCb demo1 (sidName 0) 1) tA (.str ['a']) none (some 1)
    (some (.arr [.str ['x']])) (popCb demo1 (sidName 0) 1) :=
  .text (p := ⟨ACK, none, some 1, some (.arr [.str ['x']])⟩) (n := 0) (by decide) rfl rfl

-- the ACK for id 9 from transport A, and the ACK for id 1 from the *other* transport B, are foreign
example : CompletesAck dec0 demo1 tA (.str ['b']) none (some 9) (some (.arr [])) demo1 :=
  .text (p := ⟨ACK, none, some 9, some (.arr [])⟩) (n := 0) (by decide) rfl rfl
example : sidOf demo1.rooms nsRoot tB = some (sidName 1) ∧
    demo1.cbs.all (fun c => !(c.1 == sidName 1 && c.2.1 == 1)) = true := by decide

/-! ### `none_after_disconnect` -/

/-- `basic_disconnect` erases the session's callbacks and its counter … -/
theorem none_after_disconnect (s : Srv) (sid : Sid) (ns : Ns) :
    (∀ c ∈ (mgrDisconnect s sid ns).cbs, c.1 ≠ sid) ∧
    (∀ c ∈ (mgrDisconnect s sid ns).ctr, c.1 ≠ sid) := by
  constructor <;> intro c hc <;> simp [mgrDisconnect] at hc <;> exact hc.2

/-- … and since session ids are never reused, no later state of any history has a callback for
    it (so nothing can fire: firing needs an outstanding entry of a connected session). -/
theorem none_after_disconnect_history {s : Srv} (h : Server.WF s) {sid : Sid} {ns : Ns} {t : Eio}
    (he : eioOf s.rooms ns sid = some t) (k : Nat) (is : List Input) :
    ∀ c ∈ (run dec cfg (ending s sid ns k) is).1.cbs, c.1 ≠ sid := by
  have hw := (Reach.ending h he k).wf h
  obtain ⟨j, hj, hs⟩ := h.sidAlloc _ (eioOf_some_mem he)
  simp only at hs
  subst hs
  have hd : Dead j (ending s (sidName j) ns k) :=
    ⟨hj, not_sidLive_disconnect h.toWF0 he⟩
  have hd' := hd.run hw dec cfg is
  intro c hc heq
  have := (hw.run dec cfg is).cbsLive c hc
  rw [heq] at this
  exact hd'.2 this

example : eioOf demo1.rooms nsRoot (sidName 0) = some tA := by decide

/-! ### `call_result` -/

/-- `call()` (needs `async_handlers`): emit with an internal callback, run the history that
    happens during the wait; the result is `callResult args` for the first result `(n, args)`
    delivered *during the wait* to this call's number `n`, otherwise `TimeoutError`.  (Results are
    delivered only by `_handle_ack` popping the internal callback — `Prim.callDone`.) -/
theorem call_result {s : Srv} (h : Server.WF s) (hc : Calls s) (ha : cfg.asyncHandlers = true)
    (ev : Str) (d : Data) (ns : Ns) (sid : Sid) (during : List Input) :
    ∃ l, (run dec cfg (callStart s ev d ns sid).1 during).1.callDone = s.callDone ++ l ∧
      step dec cfg s (.call ev d ns sid during) =
        ((run dec cfg (callStart s ev d ns sid).1 during).1,
          (callStart s ev d ns sid).2 ++ (run dec cfg (callStart s ev d ns sid).1 during).2 ++
            [match l.find? (fun c => c.1 = s.nCall) with
              | some c => .result (callResult c.2)
              | none => .timeout]) := by
  obtain ⟨l, hl⟩ := DoneGrows.run (h.callStart ev d ns sid) dec cfg during
  have h0 : (callStart s ev d ns sid).1.callDone = s.callDone := callStart_callDone s ev d ns sid
  rw [h0] at hl
  refine ⟨l, hl, ?_⟩
  rw [step_call]
  simp only [ha, Bool.not_true, Bool.false_eq_true, if_false]
  congr 2
  unfold callOutcome
  rw [hl, List.find?_append]
  have : s.callDone.find? (fun c => c.1 = s.nCall) = none := by
    rw [List.find?_eq_none]
    intro c hcm
    have := hc.done c hcm
    simp; omega
  rw [this]; rfl

/-- A frame step delivers a `call()` result (appends to `callDone`) only when the frame completes
    an ACK `(nsp, id, data)` such that the session the transport has on that namespace has the
    internal callback `(sid, id, call n)` outstanding; the delivered arguments are the ACK's. -/
theorem call_delivery_only_on_matching_ack (s : Srv) (t : Eio) (v : J) :
    (step dec cfg s (.frame t v)).1.callDone = s.callDone ∨
    ∃ n args nsp id data s₀ sid i, CompletesAck dec s t v nsp id data s₀ ∧
      sidOf s.rooms (nsp.getD ['/']) t = some sid ∧ id = some i ∧
      (sid, i, CbTok.call n) ∈ s.cbs ∧ starArgs data = .ok args ∧
      (step dec cfg s (.frame t v)).1.callDone = s.callDone ++ [(n, args)] := by
  rw [step]
  rcases callDone_of_frame (dec := dec) (cfg := cfg) (s := s) t v with h | ⟨n, args, h⟩
  · exact Or.inl h
  · exact Or.inr ⟨n, args, h⟩

/-- with synchronous handlers `call()` refuses to run -/
theorem call_needs_async {s : Srv} (ha : cfg.asyncHandlers = false) (ev : Str) (d : Data) (ns : Ns)
    (sid : Sid) (during : List Input) :
    step dec cfg s (.call ev d ns sid during) = (s, [.raised .other]) := by
  rw [step_call]; simp [ha]

example : (step dec0 cfg0 demo0 (.call ['e'] .none nsRoot (sidName 0) [.frame tA (.str ['a'])])).2
    = [.send tA (mkOut EVENT nsRoot (some 1) [.str ['e']]), .result (.str ['x'])] := by
  rfl

end Sio.C06
