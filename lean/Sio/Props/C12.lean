/-
  C12 — hostile input from one client is contained.

  The theorems are *parametric in the decoder*: `dec : Str → Except Err (Packet × Nat)` is
  universally quantified, so they hold for whatever the real decoder makes of a frame (every
  packet type, namespace, id, attachment count, payload shape, or an exception), and for every
  non-text value engine.io can hand up (`decodeOdd`).  `view t s` erases everything indexed by
  transport `t` or by one of its sessions, the global counters and the `call()` results.

  What is proved: a frame from `t`, in any well-formed state, leaves `view t` unchanged, sends
  only to `t`, invokes handlers only with a session id of `t`, fires only callbacks registered
  for a session of `t` (`step_confined`; sequences: `hostile_run_confined`); for a session on
  another transport every public query — rooms, transport, outstanding callbacks, ack counter —
  and every stored user session of another transport is unchanged (`bystander_unchanged`), and
  the state stays well formed, so every theorem of C04–C06, C11, C16 keeps applying to the others
  afterwards (`still_serving`); an undecodable frame
  changes nothing and reaches no handler (`undecodable_inert`); what a frame makes the server
  store is bounded by item counts that do not depend on any declared number (`bounded_reserve`).

  What is NOT proved (full noninterference
    `observeOthers (run (interleave hostile others)) = observeOthers (run others)`):
  the second unwinding lemma — "inputs of the others produce the same outputs and view-equal
  successors from view-equal states" — is false for `view` as literal equality of outputs, for
  two reasons that are properties of the model (and of the code), not of the proof:
    1. session ids are allocated from one global counter (`nextSid`; in the code: random ids):
       a hostile CONNECT shifts the *names* of the sessions the others get afterwards, so
       outputs agree only up to a renaming of session ids (the harness renames by order of first
       appearance);
    2. the handler scripts are indexed by global invocation counters (`nConn`, `nEv`, `nDisc`):
       a hostile CONNECT / EVENT / DISCONNECT that reaches a handler advances them, so the
       *scripted* outcomes of the others' later handler calls shift.  With outcome functions
       that do not depend on the counters (e.g. constant scripts) only reason 1 remains.
  Closing the gap needs `step` to be shown equivariant under renamings of session ids; the
  statement would be `observeOthers ρ (run …) = observeOthers (run …)` for the renaming `ρ`
  induced by the two histories.  That is not done here.  `step_confined` is the first unwinding
  lemma at full strength.
-/
import Sio.Lemmas.ServerBound
namespace Sio.C12
open Sio Sio.Server Sio.Rooms

variable {dec : Str → Except Err (Packet × Nat)} {cfg : Cfg}

/-! ### demo state: transports A (hostile) and B, both connected to `/`, B has a callback
    outstanding and a room -/

def reg0 : Registry := ⟨fun _ _ => true, fun _ => true, fun _ => false, fun _ _ => false⟩
def cfg0 : Cfg := ⟨false, none, false, reg0, ⟨fun _ => .accept, fun _ => .ret .none, fun _ => .ok⟩⟩
/-- toy decoder: "c" CONNECT, "d" DISCONNECT, "a" ACK id 1, "x…" undecodable -/
def dec0 : Str → Except Err (Packet × Nat)
  | ['c'] => .ok (⟨CONNECT, none, none, none⟩, 0)
  | ['d'] => .ok (⟨DISCONNECT, none, none, none⟩, 0)
  | ['a'] => .ok (⟨ACK, none, some 1, some (.arr [])⟩, 0)
  | ['h'] => .ok (⟨BINARY_EVENT, none, none, none⟩, 9999999999)
  | _ => .error .valueError
def tA : Eio := ['A']
def tB : Eio := ['B']
def nsRoot : Ns := ['/']
def hist0 : List Input :=
  [.eioConnect tA, .eioConnect tB, .frame tA (.str ['c']), .frame tB (.str ['c']),
   .enterRoom (sidName 1) nsRoot ['r'], .emit ['e'] .none nsRoot (.one (sidName 1)) [] (some 7)]
def demo0 : Srv := (run dec0 cfg0 {} hist0).1
theorem demo0_wf : Server.WF demo0 := Server.WF.init.run dec0 cfg0 hist0

/-! ### `step_confined` -/

/-- A frame from transport `t` — whatever it decodes to — leaves everything the others can see
    unchanged, and each of its outputs is: a packet for `t`; a handler invocation that carries a
    session id of `t`; a callback that was outstanding for the session `t` has on the ACK's
    namespace (`Fires`); or a contained exception.  Never a `result` / `timeout`. -/
theorem step_confined {s : Srv} (h : Server.WF s) (t : Eio) (v : J) :
    view t (step dec cfg s (.frame t v)).1 = view t s ∧
    ∀ o ∈ (step dec cfg s (.frame t v)).2, o.hostileOk dec cfg s t v := by
  rw [step]
  exact ⟨view_handleFrame h dec cfg t v, frame_outs h dec cfg t v⟩

-- the hostile transport disconnects, reconnects and floods: B's rooms, callback, counter stay
example : (view tA (run dec0 cfg0 demo0
    [.frame tA (.str ['d']), .frame tA (.str ['c']), .frame tA (.str ['a']),
     .frame tA (.str ['h'])]).1).cbs = [(sidName 1, 1, .user 7)] := by decide

/-- In particular: no packet to another transport, and no callback of another transport's
    session (a callback that fires was outstanding for a session that lives on `t`). -/
theorem step_confined_others {s : Srv} (h : Server.WF s) (t : Eio) (v : J) :
    (∀ t' p, Out.send t' p ∈ (step dec cfg s (.frame t v)).2 → t' = t) ∧
    (∀ n args, Out.callback n args ∈ (step dec cfg s (.frame t v)).2 →
      ∃ sid i, onT s.rooms t sid = true ∧ (sid, i, CbTok.user n) ∈ s.cbs) := by
  have hc := (step_confined (dec := dec) (cfg := cfg) h t v).2
  constructor
  · intro t' p hm; exact hc _ hm
  · intro n args hm
    obtain ⟨nsp, id, data, s₀, sid, i, _, hs, _, hcb, _, _⟩ := hc _ hm
    exact ⟨sid, i, onT_of_sidOf hs, hcb⟩

/-- Any number of frames from `t` in a row: the others' view is the same afterwards, every
    packet sent went to `t`, and no `result` / `timeout` was produced. -/
theorem hostile_run_confined {s : Srv} (h : Server.WF s) (t : Eio) (vs : List J) :
    view t (run dec cfg s (vs.map (fun v => Input.frame t v))).1 = view t s ∧
    ∀ o ∈ (run dec cfg s (vs.map (fun v => Input.frame t v))).2,
      ∀ t' p, o = .send t' p → t' = t := by
  induction vs generalizing s with
  | nil => simp [run_nil]
  | cons v vs ih =>
    rw [List.map_cons, run_cons]
    have h1 := step_confined (dec := dec) (cfg := cfg) h t v
    have h2 := ih (h.step dec cfg (.frame t v))
    refine ⟨h2.1.trans h1.1, ?_⟩
    intro o ho t' p heq
    rcases List.mem_append.mp ho with ho | ho
    · subst heq; exact h1.2 _ ho
    · exact h2.2 o ho t' p heq

/-- What that means for a bystander: for a session that lives on another transport `t'`, after
    any number of frames from `t` — whatever they decode to — its rooms, its transport, its
    outstanding callbacks, its ack counter, and the stored user sessions of every transport other
    than `t` are exactly what they were. -/
theorem bystander_unchanged {s : Srv} (h : Server.WF s) {t t' : Eio} (hne : t' ≠ t) {ns' : Ns}
    {sid' : Sid} (he : eioOf s.rooms ns' sid' = some t') (vs : List J) :
    let s' := (run dec cfg s (vs.map (fun v => Input.frame t v))).1
    (∀ ns, getRooms s'.rooms ns sid' = getRooms s.rooms ns sid') ∧
    (∀ ns, eioOf s'.rooms ns sid' = eioOf s.rooms ns sid') ∧
    s'.cbs.filter (fun x => x.1 == sid') = s.cbs.filter (fun x => x.1 == sid') ∧
    ctrOf s'.ctr sid' = ctrOf s.ctr sid' ∧
    (∀ t'' ns, t'' ≠ t → sessGet s' t'' ns = sessGet s t'' ns) := by
  intro s'
  obtain ⟨k, rfl, hb⟩ := boundTo_of_eioOf h he
  have hb' : BoundTo k t' s' :=
    (Reach.run h dec cfg _).preserve (fun _ _ hw p hq => BoundTo.prim hw p hq) hb
  exact bystander_of_view (hostile_run_confined (dec := dec) (cfg := cfg) h t vs).1
    (not_onT_of_boundTo hb hne) (not_onT_of_boundTo hb' hne)

example : eioOf demo0.rooms nsRoot (sidName 1) = some tB := by decide

/-- The server keeps serving: after any history whatsoever — hostile frames included — the state
    satisfies the invariant from which all theorems about connects, events, acknowledgements,
    disconnects and sessions of the other clients are proved. -/
theorem still_serving {s : Srv} (h : Server.WF s) (is : List Input) :
    Server.WF (run dec cfg s is).1 := h.run dec cfg is

/-! ### `undecodable_inert` -/

/-- A text frame the decoder rejects, while no binary packet of `t` is being reassembled: the
    state is unchanged and the only output is the contained exception — no handler, no packet.
    (While a binary packet is pending, *any* frame is taken as its next attachment: it is stored,
    `bounded_reserve`, and still reaches no handler and no other client, `step_confined`.) -/
theorem undecodable_inert {s : Srv} {t : Eio} {c : Char} {cs : Str} {e : Err}
    (hd : dec (c :: cs) = .error e) (hb : s.binbuf.find? (fun x => x.1 = t) = none) :
    step dec cfg s (.frame t (.str (c :: cs))) = (s, [.raised e]) := by
  rw [step, handleFrame_text dec cfg hb]
  simp only [frameDecode, hd]

example : dec0 ['x', '9'] = .error .valueError ∧
    demo0.binbuf.find? (fun x => x.1 = tA) = none := ⟨rfl, rfl⟩

/-- a stray binary frame (no binary packet pending) is a contained `TypeError` -/
theorem stray_binary_inert {s : Srv} {t : Eio} {b : UInt8} {bs : Bytes}
    (hb : s.binbuf.find? (fun x => x.1 = t) = none) :
    step dec cfg s (.frame t (.bin (b :: bs))) = (s, [.raised .typeError]) := by
  rw [step, handleFrame_text dec cfg hb]
  simp only [frameDecode]

/-! ### `bounded_reserve` -/

/-- What one frame can make the server store, for every decoder result (so: whatever attachment
    count or id the frame declares): at most two room entries, one queued handler, one `call()`
    result, one reassembly-buffer entry; callbacks, counters, sessions, environ do not grow; and
    every partial packet in the buffer afterwards is an old one, a new header with *no*
    attachment stored, or an old one with exactly this frame appended.  The declared count
    (`Partial.need`) is kept as a number; nothing is sized by it. -/
theorem bounded_reserve {s : Srv} (h : Server.WF s) (t : Eio) (v : J) :
    FrameBound s (step dec cfg s (.frame t v)).1 v := by
  rw [step]; exact bound_handleFrame h dec cfg t v

-- a header that announces 9999999999 attachments stores one entry with no attachment
example : ((step dec0 cfg0 demo0 (.frame tA (.str ['h']))).1.binbuf.map
    (fun e => (e.1, e.2.need, e.2.got.length))) = [(tA, 9999999999, 0)] := by decide

end Sio.C12
