/-
  C12 — hostile input from one client is contained.

  The theorems are *parametric in the decoder*: `dec : Str → Except Err (Packet × Nat)` is
  universally quantified, so they hold for whatever the real decoder makes of a frame (every
  packet type, namespace, id, attachment count, payload shape, or an exception), and for every
  non-text value engine.io can hand up (`decodeOdd`).  `view t s` erases everything indexed by
  transport `t` or by one of its sessions, the global counters and the `call()` results.

  What is proved: a frame from `t`, in any well-formed state, leaves `view t` unchanged, sends
  only to `t`, invokes handlers only with a session id of `t`, fires only callbacks registered
  for a session of `t` (`step_confined`; sequences: `hostile_run_confined`); for a session on
  another transport every public query — rooms, transport, outstanding callbacks, ack counter —
  and every stored user session of another transport is unchanged (`bystander_unchanged`), and
  the state stays well formed, so every theorem of C04–C06, C11, C16 keeps applying to the others
  afterwards (`still_serving`); an undecodable frame
  changes nothing and reaches no handler (`undecodable_inert`); what a frame makes the server
  store is bounded by item counts that do not depend on any declared number (`bounded_reserve`).

  Noninterference (`noninterference`, `output_consistent`): for handler scripts whose outcomes do
  not depend on the global invocation counters (`Script.Stable`, what the C12 harness uses), any
  interleaving of the hostile transport's inputs (its frames — arbitrary values, arbitrary
  decoder — and engine.io opening / losing it) with frames of other transports and engine.io
  opening other transports: what the others' inputs output in the mixed run is *exactly* what
  they output in a run without the hostile transport in which the id generator skips some ids
  (`runSkip`; the ids the hostile CONNECTs consumed) — and the final states agree outside `t`.
  The two obstacles named before are handled like this: the invocation counters by `Stable`;
  the global id counter not by renaming outputs afterwards but by letting the reference run's id
  generator skip ids — `generate_id()` only promises fresh ids (DESIGN §4), so "a hostile-free run
  with another sequence of fresh ids" is a hostile-free run.  With no skipped ids the reference is
  literally `run` (`runSkip_zero`).

  Remaining obligations, NOT proved:
   * bystander inputs other than frames / `eioConnect`: application API calls (emit, call,
     disconnect(), rooms, sessions), `settle` (so with `async_handlers = True` the handler
     invocations, which happen at `settle`, are not covered) and `eioLost t'` of a bystander.
     For `eioLost t'` literal equality is in fact false: the order in which the namespaces of
     `t'` get their disconnect handler is the order of `namespacesOf rooms`, which depends on
     whether the hostile transport was the first to use a namespace (so equality holds only up
     to a permutation of that step's outputs);
   * scripts that depend on the invocation counters.
-/
import Sio.Lemmas.ServerNIMain
namespace Sio.C12
open Sio Sio.Server Sio.Rooms

variable {dec : Str → Except Err (Packet × Nat)} {cfg : Cfg}

/-! ### demo state: transports A (hostile) and B, both connected to `/`, B has a callback
    outstanding and a room -/

def reg0 : Registry := ⟨fun _ _ => true, fun _ => true, fun _ => false, fun _ _ => false⟩
def cfg0 : Cfg := ⟨false, none, false, reg0, ⟨fun _ => .accept, fun _ => .ret .none, fun _ => .ok⟩⟩
/-- toy decoder: "c" CONNECT, "d" DISCONNECT, "a" ACK id 1, "x…" undecodable -/
def dec0 : Str → Except Err (Packet × Nat)
  | ['c'] => .ok (⟨CONNECT, none, none, none⟩, 0)
  | ['d'] => .ok (⟨DISCONNECT, none, none, none⟩, 0)
  | ['a'] => .ok (⟨ACK, none, some 1, some (.arr [])⟩, 0)
  | ['h'] => .ok (⟨BINARY_EVENT, none, none, none⟩, 9999999999)
  | _ => .error .valueError
def tA : Eio := ['A']
def tB : Eio := ['B']
def nsRoot : Ns := ['/']
def hist0 : List Input :=
  [.eioConnect tA, .eioConnect tB, .frame tA (.str ['c']), .frame tB (.str ['c']),
   .enterRoom (sidName 1) nsRoot ['r'], .emit ['e'] .none nsRoot (.one (sidName 1)) [] (some 7)]
def demo0 : Srv := (run dec0 cfg0 {} hist0).1
theorem demo0_wf : Server.WF demo0 := Server.WF.init.run dec0 cfg0 hist0

/-! ### `step_confined` -/

/-- A frame from transport `t` — whatever it decodes to — leaves everything the others can see
    unchanged, and each of its outputs is: a packet for `t`; a handler invocation that carries a
    session id of `t`; a callback that was outstanding for the session `t` has on the ACK's
    namespace (`Fires`); or a contained exception.  Never a `result` / `timeout`. -/
theorem step_confined {s : Srv} (h : Server.WF s) (t : Eio) (v : J) :
    view t (step dec cfg s (.frame t v)).1 = view t s ∧
    ∀ o ∈ (step dec cfg s (.frame t v)).2, o.hostileOk dec cfg s t v := by
  rw [step]
  exact ⟨view_handleFrame h dec cfg t v, frame_outs h dec cfg t v⟩

-- the hostile transport disconnects, reconnects and floods: B's rooms, callback, counter stay
example : (view tA (run dec0 cfg0 demo0
    [.frame tA (.str ['d']), .frame tA (.str ['c']), .frame tA (.str ['a']),
     .frame tA (.str ['h'])]).1).cbs = [(sidName 1, 1, .user 7)] := by decide

/-- In particular: no packet to another transport, and no callback of another transport's
    session (a callback that fires was outstanding for a session that lives on `t`). -/
theorem step_confined_others {s : Srv} (h : Server.WF s) (t : Eio) (v : J) :
    (∀ t' p, Out.send t' p ∈ (step dec cfg s (.frame t v)).2 → t' = t) ∧
    (∀ n args, Out.callback n args ∈ (step dec cfg s (.frame t v)).2 →
      ∃ sid i, onT s.rooms t sid = true ∧ (sid, i, CbTok.user n) ∈ s.cbs) := by
  have hc := (step_confined (dec := dec) (cfg := cfg) h t v).2
  constructor
  · intro t' p hm; exact hc _ hm
  · intro n args hm
    obtain ⟨nsp, id, data, s₀, sid, i, _, hs, _, hcb, _, _⟩ := hc _ hm
    exact ⟨sid, i, onT_of_sidOf hs, hcb⟩

/-- Any number of frames from `t` in a row: the others' view is the same afterwards, every
    packet sent went to `t`, and no `result` / `timeout` was produced. -/
theorem hostile_run_confined {s : Srv} (h : Server.WF s) (t : Eio) (vs : List J) :
    view t (run dec cfg s (vs.map (fun v => Input.frame t v))).1 = view t s ∧
    ∀ o ∈ (run dec cfg s (vs.map (fun v => Input.frame t v))).2,
      ∀ t' p, o = .send t' p → t' = t := by
  induction vs generalizing s with
  | nil => simp [run_nil]
  | cons v vs ih =>
    rw [List.map_cons, run_cons]
    have h1 := step_confined (dec := dec) (cfg := cfg) h t v
    have h2 := ih (h.step dec cfg (.frame t v))
    refine ⟨h2.1.trans h1.1, ?_⟩
    intro o ho t' p heq
    rcases List.mem_append.mp ho with ho | ho
    · subst heq; exact h1.2 _ ho
    · exact h2.2 o ho t' p heq

/-- What that means for a bystander: for a session that lives on another transport `t'`, after
    any number of frames from `t` — whatever they decode to — its rooms, its transport, its
    outstanding callbacks, its ack counter, and the stored user sessions of every transport other
    than `t` are exactly what they were. -/
theorem bystander_unchanged {s : Srv} (h : Server.WF s) {t t' : Eio} (hne : t' ≠ t) {ns' : Ns}
    {sid' : Sid} (he : eioOf s.rooms ns' sid' = some t') (vs : List J) :
    let s' := (run dec cfg s (vs.map (fun v => Input.frame t v))).1
    (∀ ns, getRooms s'.rooms ns sid' = getRooms s.rooms ns sid') ∧
    (∀ ns, eioOf s'.rooms ns sid' = eioOf s.rooms ns sid') ∧
    s'.cbs.filter (fun x => x.1 == sid') = s.cbs.filter (fun x => x.1 == sid') ∧
    ctrOf s'.ctr sid' = ctrOf s.ctr sid' ∧
    (∀ t'' ns, t'' ≠ t → sessGet s' t'' ns = sessGet s t'' ns) := by
  intro s'
  obtain ⟨k, rfl, hb⟩ := boundTo_of_eioOf h he
  have hb' : BoundTo k t' s' :=
    (Reach.run h dec cfg _).preserve (fun _ _ hw p hq => BoundTo.prim hw p hq) hb
  exact bystander_of_view (hostile_run_confined (dec := dec) (cfg := cfg) h t vs).1
    (not_onT_of_boundTo hb hne) (not_onT_of_boundTo hb' hne)

example : eioOf demo0.rooms nsRoot (sidName 1) = some tB := by decide

/-- The server keeps serving: after any history whatsoever — hostile frames included — the state
    satisfies the invariant from which all theorems about connects, events, acknowledgements,
    disconnects and sessions of the other clients are proved. -/
theorem still_serving {s : Srv} (h : Server.WF s) (is : List Input) :
    Server.WF (run dec cfg s is).1 := h.run dec cfg is

/-! ### noninterference -/

theorem cfg0_stable : cfg0.script.Stable := ⟨fun _ _ => rfl, fun _ _ => rfl, fun _ _ => rfl⟩

/-- **Second unwinding lemma** (`output_consistent`): an input of another transport — a frame
    with any content, or engine.io opening it — produces the same outputs from `s₁` and `s₂`
    whenever the two states agree outside `t` (`strip t`), and the successors agree outside `t`
    again.  Handler outcomes must not depend on the invocation counters (`Stable`). -/
theorem output_consistent (hst : cfg.script.Stable) {s₁ s₂ : Srv} (h₁ : Server.WF s₁)
    (h₂ : Server.WF s₂) {t : Eio} (hs : strip t s₁ = strip t s₂) {i : Input}
    (hi : ofOther t i = true) :
    (step dec cfg s₁ i).2 = (step dec cfg s₂ i).2 ∧
    strip t (step dec cfg s₁ i).1 = strip t (step dec cfg s₂ i).1 := by
  have l1 := loc_step (dec := dec) hst h₁ hi
  have l2 := loc_step (dec := dec) hst h₂ hi
  rw [hs] at l1
  exact l1.trans l2.symm

example : strip tA (step dec0 cfg0 demo0 (.frame tA (.str ['d']))).1 = strip tA demo0 ∧
    ofOther tA (.frame tB (.str ['a'])) = true := ⟨by rfl, rfl⟩

/-- **First unwinding lemma**, for all of the hostile transport's inputs: they change the state
    outside `t` at most by advancing the session-id counter. -/
theorem hostile_invisible {s : Srv} (h : Server.WF s) {t : Eio} {i : Input} (hi : ofT t i = true) :
    ∃ d, strip t (step dec cfg s i).1 = bump d (strip t s) :=
  strip_hostile h dec cfg hi

/-- **Noninterference.**  `mix` is any interleaving of inputs of the hostile transport `t` with
    inputs of other transports.  There is a schedule of id skips such that the run of the others'
    inputs alone, with those skips (`runSkip`), outputs exactly what the others' inputs output in
    the mixed run (`othersOuts`, a sublist of the mixed run's outputs in order), and ends in a
    state that agrees with the mixed run's outside `t`; every packet output by the hostile
    inputs goes to `t`, and every output of the mixed run is one or the other. -/
theorem noninterference (hst : cfg.script.Stable) {s : Srv} (h : Server.WF s) (t : Eio)
    (mix : List Input) (hmix : ∀ i ∈ mix, ofT t i = true ∨ ofOther t i = true) :
    ∃ skips : List Nat, skips.length = (mix.filter (ofOther t)).length ∧
      othersOuts dec cfg t s mix =
        (runSkip dec cfg s (skips.zip (mix.filter (ofOther t)))).2 ∧
      (∃ d, strip t (run dec cfg s mix).1 =
        strip t (bump d (runSkip dec cfg s (skips.zip (mix.filter (ofOther t)))).1)) ∧
      List.Sublist (othersOuts dec cfg t s mix) (run dec cfg s mix).2 ∧
      (∀ o ∈ (run dec cfg s mix).2,
        o ∈ hostileOuts dec cfg t s mix ∨ o ∈ othersOuts dec cfg t s mix) ∧
      (∀ o ∈ hostileOuts dec cfg t s mix, ∀ t' p, o = .send t' p → t' = t) := by
  obtain ⟨skips, h1, h2, h3⟩ := ni_sim (dec := dec) hst t mix hmix s s h h ⟨0, rfl⟩
  exact ⟨skips, h1, h2, h3, othersOuts_sublist dec cfg t mix s,
    fun o ho => (mem_run_outs dec cfg t mix s o).mp ho, hostileOuts_confined t mix s h⟩

/-- When the hostile inputs consumed no session id the reference run is literally `run`. -/
theorem runSkip_no_skips (s : Srv) (is : List Input) :
    runSkip dec cfg s (is.map (fun i => (0, i))) = run dec cfg s is := runSkip_zero dec cfg s is

-- A disconnects, reconnects (consuming the id `s2`), sends garbage and a giant binary header;
-- meanwhile transport C is opened and connects, and B acknowledges its outstanding callback
def tC : Eio := ['C']
def mix0 : List Input :=
  [.frame tA (.str ['d']), .frame tA (.str ['c']), .eioConnect tC, .frame tA (.str ['x', '1']),
   .frame tC (.str ['c']), .frame tA (.str ['h']), .frame tB (.str ['a']), .eioLost tA ['q']]
example : ∀ i ∈ mix0, ofT tA i = true ∨ ofOther tA i = true := by decide
example : mix0.filter (ofOther tA) = [.eioConnect tC, .frame tC (.str ['c']), .frame tB (.str ['a'])] := by
  rfl
-- the others' outputs in the mixed run = the hostile-free run in which one id is skipped
example : othersOuts dec0 cfg0 tA demo0 mix0 =
    (runSkip dec0 cfg0 demo0 [(1, .eioConnect tC), (0, .frame tC (.str ['c'])),
      (0, .frame tB (.str ['a']))]).2 := by rfl
example : othersOuts dec0 cfg0 tA demo0 mix0 =
    [.invoke (.fn nsRoot "connect".toList) [.str (sidName 3)], .send tC (pktConnect nsRoot (sidName 3)),
     .callback 7 []] := by rfl

/-! ### `undecodable_inert` -/

/-- A text frame the decoder rejects, while no binary packet of `t` is being reassembled: the
    state is unchanged and the only output is the contained exception — no handler, no packet.
    (While a binary packet is pending, *any* frame is taken as its next attachment: it is stored,
    `bounded_reserve`, and still reaches no handler and no other client, `step_confined`.) -/
theorem undecodable_inert {s : Srv} {t : Eio} {c : Char} {cs : Str} {e : Err}
    (hd : dec (c :: cs) = .error e) (hb : s.binbuf.find? (fun x => x.1 = t) = none) :
    step dec cfg s (.frame t (.str (c :: cs))) = (s, [.raised e]) := by
  rw [step, handleFrame_text dec cfg hb]
  simp only [frameDecode, hd]

example : dec0 ['x', '9'] = .error .valueError ∧
    demo0.binbuf.find? (fun x => x.1 = tA) = none := ⟨rfl, rfl⟩

/-- a stray binary frame (no binary packet pending) is a contained `TypeError` -/
theorem stray_binary_inert {s : Srv} {t : Eio} {b : UInt8} {bs : Bytes}
    (hb : s.binbuf.find? (fun x => x.1 = t) = none) :
    step dec cfg s (.frame t (.bin (b :: bs))) = (s, [.raised .typeError]) := by
  rw [step, handleFrame_text dec cfg hb]
  simp only [frameDecode]

/-! ### `bounded_reserve` -/

/-- What one frame can make the server store, for every decoder result (so: whatever attachment
    count or id the frame declares): at most two room entries, one queued handler, one `call()`
    result, one reassembly-buffer entry; callbacks, counters, sessions, environ do not grow; and
    every partial packet in the buffer afterwards is an old one, a new header with *no*
    attachment stored, or an old one with exactly this frame appended.  The declared count
    (`Partial.need`) is kept as a number; nothing is sized by it. -/
theorem bounded_reserve {s : Srv} (h : Server.WF s) (t : Eio) (v : J) :
    FrameBound s (step dec cfg s (.frame t v)).1 v := by
  rw [step]; exact bound_handleFrame h dec cfg t v

-- a header that announces 9999999999 attachments stores one entry with no attachment
example : ((step dec0 cfg0 demo0 (.frame tA (.str ['h']))).1.binbuf.map
    (fun e => (e.1, e.2.need, e.2.got.length))) = [(tA, 9999999999, 0)] := by decide

end Sio.C12
