import Sio.Model.Server
namespace Sio.C12
theorem placeholder_stub : True := trivial
end Sio.C12
