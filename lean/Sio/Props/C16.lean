/-
  C16 — user sessions are private to one client connection and namespace.

  `read_your_write`, `read_stable`: what was saved for (sid, ns) is what `get_session` returns,
  through every input that is not a session operation or a transport loss.  `private_`: a save on
  (sid, ns) changes the session of no other (sid', ns') — other transports, and other namespaces
  of the same transport.  `context_manager`: the `session()` block is get; set key; save.
  `fresh`: FALSE on the unchanged code for a namespace re-connected on the same transport (the
  session is keyed by namespace on the engine.io socket and survives a namespace-level
  disconnect; DESIGN §6 F5): `fresh_witness`; proved under the explicit hypothesis that nothing
  is stored for (transport, namespace): `fresh_partial`, which holds on every new transport
  (`fresh_new_transport`).
-/
import Sio.Lemmas.ServerSess
namespace Sio.C16
open Sio Sio.Server Sio.Rooms

variable {dec : Str → Except Err (Packet × Nat)} {cfg : Cfg}

/-! ### demo: transport A connected to `/` and `/x`, transport B connected to `/` -/

def reg0 : Registry := ⟨fun _ _ => true, fun _ => true, fun _ => false, fun _ _ => false⟩
def cfg0 : Cfg := ⟨false, none, false, reg0, ⟨fun _ => .accept, fun _ => .ret .none, fun _ => .ok⟩⟩
def dec0 : Str → Except Err (Packet × Nat)
  | ['c'] => .ok (⟨CONNECT, none, none, none⟩, 0)
  | ['x'] => .ok (⟨CONNECT, some ['/', 'x'], none, none⟩, 0)
  | ['d'] => .ok (⟨DISCONNECT, none, none, none⟩, 0)
  | _ => .error .valueError
def tA : Eio := ['A']
def tB : Eio := ['B']
def nsRoot : Ns := ['/']
def nsX : Ns := ['/', 'x']
def hist0 : List Input :=
  [.eioConnect tA, .eioConnect tB, .frame tA (.str ['c']), .frame tA (.str ['x']),
   .frame tB (.str ['c'])]
def demo0 : Srv := (run dec0 cfg0 {} hist0).1
theorem demo0_wf : Server.WF demo0 := Server.WF.init.run dec0 cfg0 hist0

/-! ### `read_your_write` -/

/-- `save_session(sid, v, ns)` for a connected session on an open socket stores `v`, and the
    next `get_session(sid, ns)` returns exactly `v` (and changes nothing). -/
theorem read_your_write {s : Srv} {sid : Sid} {ns : Ns} {t : Eio}
    (hs : sessSock s sid ns = some t) (v : J) :
    step dec cfg s (.saveSession sid ns v) = (sessSet s t ns v, []) ∧
    step dec cfg (sessSet s t ns v) (.getSession sid ns) = (sessSet s t ns v, [.result v]) := by
  constructor
  · rw [step, hs]
  · rw [step, sessSock_sessSet, hs]
    simp only [sessGet_sessSet_same]

example : sessSock demo0 (sidName 0) nsRoot = some tA := by decide

/-- … and it keeps returning `v` through every input that is neither a session operation nor a
    transport loss (frames of any client, emits, room changes, namespace-level disconnects of
    others, …), as long as the session is still connected on its open socket. -/
theorem read_stable {s : Srv} (h : Server.WF s) {sid : Sid} {ns : Ns} {t : Eio} {v : J}
    (hg : sessGet s t ns = some v) (is : List Input) (hi : ∀ i ∈ is, touchesSess i = false)
    (hs : sessSock (run dec cfg s is).1 sid ns = some t) :
    step dec cfg (run dec cfg s is).1 (.getSession sid ns) = ((run dec cfg s is).1, [.result v]) := by
  have hsess : (run dec cfg s is).1.sess = s.sess := by
    clear hs hg
    induction is generalizing s with
    | nil => rw [run_nil]
    | cons i is ih =>
      rw [run_cons]
      rw [ih (h.step dec cfg i) (fun j hj => hi j (List.mem_cons_of_mem _ hj))]
      exact sess_untouched h (hi i List.mem_cons_self)
  have hg' : sessGet (run dec cfg s is).1 t ns = some v := by
    unfold sessGet at hg ⊢; rw [hsess]; exact hg
  rw [step, hs]
  simp only [hg']

example : touchesSess (.frame tB (.str ['d'])) = false ∧
    touchesSess (.apiDisconnect (sidName 2) nsRoot) = false := ⟨rfl, rfl⟩

/-! ### `private_` -/

/-- A save on (sid, ns) does not change what `get_session` returns for any other
    (sid', ns') — another client, or another namespace of the same client. -/
theorem private_ {s : Srv} (h : Server.WF s) {sid sid' : Sid} {ns ns' : Ns} {t t' : Eio}
    (hs : sessSock s sid ns = some t) (hs' : sessSock s sid' ns' = some t')
    (hne : ¬ (sid' = sid ∧ ns' = ns)) (v : J) :
    sessGet (step dec cfg s (.saveSession sid ns v)).1 t' ns' = sessGet s t' ns' ∧
    sessSock (step dec cfg s (.saveSession sid ns v)).1 sid' ns' = some t' := by
  rw [(read_your_write (dec := dec) (cfg := cfg) hs v).1]
  exact ⟨sessGet_sessSet_other s v (sessSock_inj h hs hs' hne), by rw [sessSock_sessSet]; exact hs'⟩

-- same transport, other namespace; other transport, same namespace
example : sessSock demo0 (sidName 1) nsX = some tA ∧ sessSock demo0 (sidName 2) nsRoot = some tB := by
  decide

/-- hence: after that save, `get_session(sid', ns')` answers exactly as before -/
theorem private_get {s : Srv} (h : Server.WF s) {sid sid' : Sid} {ns ns' : Ns} {t t' : Eio}
    (hs : sessSock s sid ns = some t) (hs' : sessSock s sid' ns' = some t')
    (hne : ¬ (sid' = sid ∧ ns' = ns)) (v : J) :
    (step dec cfg (step dec cfg s (.saveSession sid ns v)).1 (.getSession sid' ns')).2 =
      (step dec cfg s (.getSession sid' ns')).2 := by
  obtain ⟨h1, h2⟩ := private_ (dec := dec) (cfg := cfg) h hs hs' hne v
  rw [step, step, h2, hs']
  simp only [h1]
  cases sessGet s t' ns' <;> rfl

/-! ### `context_manager` -/

/-- what the `session()` block leaves: the dict with `k` set (a non-dict value is left alone) -/
def blockValue (cur : J) (k : Str) (v : J) : J :=
  match cur with
  | .obj kvs => .obj (setKey k v kvs)
  | other => other

/-- `with sio.session(sid, ns) as d: d[k] = v` is `get_session`, the assignment, `save_session`:
    same final state, and the value handed back is the saved one. -/
theorem context_manager {s : Srv} {sid : Sid} {ns : Ns} {t : Eio}
    (hs : sessSock s sid ns = some t) (k : Str) (v : J) :
    let cur := (sessGet s t ns).getD (.obj [])
    (step dec cfg s (.getSession sid ns)).2 = [.result cur] ∧
    step dec cfg s (.sessionBlock sid ns k v) =
      ((run dec cfg s [.getSession sid ns, .saveSession sid ns (blockValue cur k v)]).1,
        [.result (blockValue cur k v)]) := by
  intro cur
  have hblock : step dec cfg s (.sessionBlock sid ns k v) =
      (sessSet s t ns (blockValue cur k v), [.result (blockValue cur k v)]) := by
    rw [step, hs]
    simp only [cur, blockValue]
    cases (sessGet s t ns).getD (.obj []) <;> rfl
  constructor
  · rw [step, hs]
    cases hg : sessGet s t ns with
    | none => simp [cur, hg]
    | some x => simp [cur, hg]
  · rw [hblock, run_cons, run_cons, run_nil]
    congr 1
    cases hg : sessGet s t ns with
    | none =>
      have h1 : step dec cfg s (.getSession sid ns) = (sessSet s t ns (.obj []), [.result (.obj [])]) := by
        rw [step, hs]; simp only [hg]
      rw [h1, step, sessSock_sessSet, hs]
      exact (sessSet_sessSet s t ns _ _ hg).symm
    | some x =>
      have h1 : step dec cfg s (.getSession sid ns) = (s, [.result x]) := by
        rw [step, hs]; simp only [hg]
      rw [h1, step, hs]

/-! ### `fresh` -/

/- Full statement (FALSE on the unchanged code):
     for every history, the first `get_session` of a newly allocated session id returns `{}`.
   It fails when a namespace is re-connected on the same transport: -/

def histF : List Input :=
  [.eioConnect tA, .frame tA (.str ['c']), .saveSession (sidName 0) nsRoot (.int 1),
   .frame tA (.str ['d']), .frame tA (.str ['c']), .getSession (sidName 1) nsRoot]

/-- Negation witness: transport A connects to `/` (session id `s0`), saves `1`, disconnects from
    the namespace, connects to it again (new session id `s1`): `get_session(s1)` returns the old
    `1`, not `{}`. -/
theorem fresh_witness :
    (run dec0 cfg0 {} histF).2 =
      [.invoke (.fn nsRoot "connect".toList) [.str (sidName 0)],
       .send tA (pktConnect nsRoot (sidName 0)),
       .invoke (.fn nsRoot "disconnect".toList) [.str (sidName 0), .str "client disconnect".toList],
       .invoke (.fn nsRoot "connect".toList) [.str (sidName 1)],
       .send tA (pktConnect nsRoot (sidName 1)),
       .result (.int 1)] := by rfl

/-- `fresh` under the explicit hypothesis "no session is stored for this transport and
    namespace": the first `get_session` returns `{}` (and stores it). -/
theorem fresh_partial {s : Srv} {sid : Sid} {ns : Ns} {t : Eio}
    (hs : sessSock s sid ns = some t) (hn : sessGet s t ns = none) :
    step dec cfg s (.getSession sid ns) = (sessSet s t ns (.obj []), [.result (.obj [])]) := by
  rw [step, hs]
  simp only [hn]

example : sessSock demo0 (sidName 0) nsRoot = some tA ∧ sessGet demo0 tA nsRoot = none := by decide

/-- The hypothesis holds on every new transport: when engine.io reports a socket that is not in
    the socket table, nothing is stored for it on any namespace, and that stays so through every
    input that is not a session operation — so every session id allocated on a new transport
    starts with an empty session. -/
theorem fresh_new_transport {s : Srv} (h : Server.WF s) {t : Eio} (ht : t ∉ s.socks)
    (is : List Input) (hi : ∀ i ∈ is, touchesSess i = false) (ns : Ns) :
    sessGet (run dec cfg s (.eioConnect t :: is)).1 t ns = none := by
  have hsess : ∀ (s' : Srv), Server.WF s' → (run dec cfg s' is).1.sess = s'.sess := by
    clear ht
    induction is with
    | nil => intro s' _; rw [run_nil]
    | cons i is ih =>
      intro s' hw
      rw [run_cons]
      rw [ih (fun j hj => hi j (List.mem_cons_of_mem _ hj)) _ (hw.step dec cfg i)]
      exact sess_untouched hw (hi i List.mem_cons_self)
  rw [run_cons]
  unfold sessGet
  rw [hsess _ (h.step dec cfg _), step]
  simp only [Option.map_eq_none_iff, List.find?_eq_none]
  intro e he hp
  have := h.sessOpen e he
  simp only [decide_eq_true_eq] at hp
  rw [hp.1] at this
  exact ht this

example : (['C'] : Eio) ∉ demo0.socks := by decide

end Sio.C16
