import Sio.Model.Server
namespace Sio.C16
theorem placeholder_stub : True := trivial
end Sio.C16
