import Sio.Props.GlueReconnect
#print axioms Sio.GlueReconnect.reason_strings
#print axioms Sio.GlueReconnect.reconnect_defaults
#print axioms Sio.GlueReconnect.default_waits_bounded
