import Sio.Props.C16
#print axioms Sio.C16.placeholder_stub
