import Sio.Props.C16
#print axioms Sio.C16.read_your_write
#print axioms Sio.C16.read_stable
#print axioms Sio.C16.private_
#print axioms Sio.C16.private_get
#print axioms Sio.C16.context_manager
#print axioms Sio.C16.fresh_witness
#print axioms Sio.C16.fresh_partial
#print axioms Sio.C16.fresh_new_transport
