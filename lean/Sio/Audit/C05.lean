import Sio.Props.C05
#print axioms Sio.C05.step_of_completesEvent
#print axioms Sio.C05.invoke_once
#print axioms Sio.C05.invoke_none_on_error
#print axioms Sio.C05.invoke_queued
#print axioms Sio.C05.settle_in_order
#print axioms Sio.C05.not_connected
#print axioms Sio.C05.ack_exact
#print axioms Sio.C05.ack_to_sender_only
#print axioms Sio.C05.ack_binary_iff
#print axioms Sio.C05.binary_reassembly
#print axioms Sio.C05.binbuf_keyed
#print axioms Sio.C05.order_inline
#print axioms Sio.C05.order_inline_append
