import Sio.Props.C05
#print axioms Sio.C05.placeholder_stub
