import Sio.Props.C06
#print axioms Sio.C06.placeholder_stub
