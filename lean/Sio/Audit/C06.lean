import Sio.Props.C06
#print axioms Sio.C06.reachable_wf
#print axioms Sio.C06.id_unique
#print axioms Sio.C06.outstanding_unique
#print axioms Sio.C06.id_increasing
#print axioms Sio.C06.callback_only_on_matching_ack
#print axioms Sio.C06.callback_only_from_frames
#print axioms Sio.C06.popped
#print axioms Sio.C06.foreign_ack_inert
#print axioms Sio.C06.at_most_once
#print axioms Sio.C06.none_after_disconnect
#print axioms Sio.C06.none_after_disconnect_history
#print axioms Sio.C06.call_result
#print axioms Sio.C06.call_delivery_only_on_matching_ack
#print axioms Sio.C06.call_needs_async
