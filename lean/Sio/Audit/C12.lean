import Sio.Props.C12
#print axioms Sio.C12.placeholder_stub
