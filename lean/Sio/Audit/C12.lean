import Sio.Props.C12
#print axioms Sio.C12.step_confined
#print axioms Sio.C12.step_confined_others
#print axioms Sio.C12.hostile_run_confined
#print axioms Sio.C12.bystander_unchanged
#print axioms Sio.C12.still_serving
#print axioms Sio.C12.output_consistent
#print axioms Sio.C12.hostile_invisible
#print axioms Sio.C12.noninterference
#print axioms Sio.C12.runSkip_no_skips
#print axioms Sio.C12.undecodable_inert
#print axioms Sio.C12.stray_binary_inert
#print axioms Sio.C12.bounded_reserve
