import Sio.Props.C14
#print axioms Sio.C14.forward_tables_equal
#print axioms Sio.C14.dispatch_async_eq_sync
