import Sio.Props.C11
#print axioms Sio.C11.placeholder_stub
