import Sio.Props.C11
#print axioms Sio.C11.erase
#print axioms Sio.C11.erase_nothing_left
#print axioms Sio.C11.erase_keeps_others
#print axioms Sio.C11.erase_closed
#print axioms Sio.C11.erase_history
#print axioms Sio.C11.fresh
#print axioms Sio.C11.fresh_history
