import Sio.Props.C20
#print axioms Sio.C20.serial_inv
#print axioms Sio.C20.gate_serial_partial
#print axioms Sio.C20.gate_serial_causes_only
#print axioms Sio.C20.serial_refused_never_notified_after
#print axioms Sio.C20.race_double_call
#print axioms Sio.C20.race_double_call_silent
#print axioms Sio.C20.race_raise_residue
#print axioms Sio.C20.race_lost_swallowed_residue
#print axioms Sio.C20.full_statement_fails
#print axioms Sio.C20.serial_reason_is_gate_winner
#print axioms Sio.C20.serial_reason_follows_gate
#print axioms Sio.C20.serial_reason_names_cause_in_progress
#print axioms Sio.C20.reason_names_passing_task_any_schedule
