import Sio.Props.C20
#print axioms Sio.C20.serial_inv
#print axioms Sio.C20.gate_serial_partial
#print axioms Sio.C20.gate_serial_causes_only
#print axioms Sio.C20.serial_refused_never_notified_after
#print axioms Sio.C20.race_double_call
#print axioms Sio.C20.race_double_call_silent
#print axioms Sio.C20.race_raise_residue
#print axioms Sio.C20.race_lost_swallowed_residue
#print axioms Sio.C20.full_statement_fails
