import Sio.Props.C08
#print axioms Sio.C08.connect_sends
#print axioms Sio.C08.related
#print axioms Sio.C08.wait_all
#print axioms Sio.C08.refusal_reported
#print axioms Sio.C08.mirror_partial
#print axioms Sio.C08.bad_namespace
#print axioms Sio.C08.bad_namespace_iff
#print axioms Sio.C08.connect_handler_once
#print axioms Sio.C08.notifications_partial
#print axioms Sio.C08.disconnect_once_partial
#print axioms Sio.C08.reset_partial
#print axioms Sio.C08.reset_transport
#print axioms Sio.C08.reconnecting_partial
#print axioms Sio.C08.effort_started
#print axioms Sio.C08.F8_witness
#print axioms Sio.C08.F8b_witness
#print axioms Sio.C08.F9_witness
