import Sio.Props.C08
#print axioms Sio.C08.placeholder_stub
