import Sio.Props.GlueDispatch
#print axioms Sio.GlueDispatch.server_reserved_eq
#print axioms Sio.GlueDispatch.server_resolve_eq
#print axioms Sio.GlueDispatch.client_reserved_eq
#print axioms Sio.GlueDispatch.client_resolve_eq
#print axioms Sio.GlueDispatch.step_invokes_dispatch
#print axioms Sio.GlueDispatch.step_invokes_table
#print axioms Sio.GlueDispatch.server_reserved_never_catchall
#print axioms Sio.GlueDispatch.client_event_dispatch
