import Sio.Props.GlueServer
#print axioms Sio.GlueServer.unable_to_connect
#print axioms Sio.GlueServer.refused_error_args
#print axioms Sio.GlueServer.server_disconnect_reason
#print axioms Sio.GlueServer.client_disconnect_reason
#print axioms Sio.GlueServer.call_timeouts
