import Sio.Props.C19
#print axioms Sio.C19.placeholder_stub
