import Sio.Props.C13
#print axioms Sio.C13.precedence_table
#print axioms Sio.C13.precedence
#print axioms Sio.C13.precedence_reserved
#print axioms Sio.C13.precedence_realizable
#print axioms Sio.C13.unrelated_irrelevant
#print axioms Sio.C13.function_beats_class
#print axioms Sio.C13.class_only_without_function
#print axioms Sio.C13.not_handled_iff
#print axioms Sio.C13.reserved_never_catchall_event
#print axioms Sio.C13.reserved_lists
#print axioms Sio.C13.connect_disconnect_never_catchall
#print axioms Sio.C13.client_eq_server
#print axioms Sio.C13.client_eq_server_generated
#print axioms Sio.C13.async_eq_sync
#print axioms Sio.C13.method_name
#print axioms Sio.C13.no_fallthrough
