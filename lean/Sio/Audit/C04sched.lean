import Sio.Props.C04sched
#print axioms Sio.C04sched.async_inv
#print axioms Sio.C04sched.async_inv_every_step
#print axioms Sio.C04sched.async_disconnect_once
#print axioms Sio.C04sched.disconnect_once_sched
#print axioms Sio.C04sched.bystander_frame
#print axioms Sio.C04sched.refused_never_notified_after
#print axioms Sio.C04sched.refused_before_gate
#print axioms Sio.C04sched.reason_is_gate_winner
#print axioms Sio.C04sched.reason_follows_gate
#print axioms Sio.C04sched.reason_names_cause_in_progress
#print axioms Sio.C04sched.reason_is_terminating_cause
