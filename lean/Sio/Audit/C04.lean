import Sio.Props.C04
#print axioms Sio.C04.step_of_isConnect
#print axioms Sio.C04.connect_once
#print axioms Sio.C04.connect_no_handler
#print axioms Sio.C04.not_served
#print axioms Sio.C04.duplicate
#print axioms Sio.C04.sids_fresh
#print axioms Sio.C04.sids_fresh_later
#print axioms Sio.C04.disconnect_once
#print axioms Sio.C04.disconnect_api_runs
#print axioms Sio.C04.disconnect_client_runs
#print axioms Sio.C04.disconnect_after_end
#print axioms Sio.C04.after_end
#print axioms Sio.C04.end_paths
#print axioms Sio.C04.other_namespaces_unaffected
