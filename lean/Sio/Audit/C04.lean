import Sio.Props.C04
#print axioms Sio.C04.placeholder_stub
