import Sio.Props.GlueCodec
#print axioms Sio.GlueCodec.packet_types_eq
#print axioms Sio.GlueCodec.packet_names_consistent
#print axioms Sio.GlueCodec.attDigitLimit_eq
#print axioms Sio.GlueCodec.idDigitLimit_eq
#print axioms Sio.GlueCodec.header_guards
#print axioms Sio.GlueCodec.scanners_accept
