import Sio.Props.C17
#print axioms Sio.C17.forwards
#print axioms Sio.C17.table_covers
#print axioms Sio.C17.sync_async_tables_equal
#print axioms Sio.C17.eval_faithful
#print axioms Sio.C17.table_behaves
#print axioms Sio.C17.positional_order
#print axioms Sio.C17.positional_order_no_vestigial
#print axioms Sio.C17.argument_forwarded
#print axioms Sio.C17.namespace_rule
#print axioms Sio.C17.same_method_nothing_added
