import Sio.Props.C09
#print axioms Sio.C09.placeholder_stub
