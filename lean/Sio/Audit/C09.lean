import Sio.Props.C09
#print axioms Sio.C09.invoke_once
#print axioms Sio.C09.invoke_once_binary
#print axioms Sio.C09.ack_unconditional
#print axioms Sio.C09.ack_packet
#print axioms Sio.C09.id_invariant
#print axioms Sio.C09.id_unique
#print axioms Sio.C09.callback_at_most_once
#print axioms Sio.C09.callback_on_matching_ack
#print axioms Sio.C09.callback_only_by_ack
#print axioms Sio.C09.unknown_ack_inert
#print axioms Sio.C09.call_result
