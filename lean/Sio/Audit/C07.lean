import Sio.Props.C07
#print axioms Sio.C07.sim_init
#print axioms Sio.C07.sync_equiv_frames_from
#print axioms Sio.C07.sync_equiv_frames
#print axioms Sio.C07.eligible
#print axioms Sio.C07.eligible_local
#print axioms Sio.C07.own_echo_dropped
#print axioms Sio.C07.remote_ops_local_effect
#print axioms Sio.C07.remote_ops_effect_where_connected
