import Sio.Props.C01
#print axioms Sio.C01.placeholder_stub
