/-
  Helper lemmas for K6 (pub/sub), set level: every operation of C07, applied by each host to its
  own clients, keeps the hosts' tables disjoint and their union equal to the single server's table
  after the same operation.
-/
import Sio.Lemmas.PubSubSim
namespace Sio.PubSub
open Sio.Rooms

/-- `enter_room` where the session is connected, nothing elsewhere -/
def enterLocal (r : Rooms.St) (ns : Ns) (sid : Sid) (room : Room) : Rooms.St :=
  match eioOf r ns sid with
  | some eio => add r ⟨ns, some room, sid, eio⟩
  | none => r

/-- what an operation does to the room table of one host, once every host has caught up -/
def localRooms (op : Op) (v : View) : Rooms.St :=
  match op with
  | .connect hid ns eio sid => if v.1 = hid then Rooms.apply v.2 (.connect ns eio sid) else v.2
  | .enter _ ns sid room => enterLocal v.2 ns sid room
  | .leave _ ns sid room => Rooms.leave v.2 ns sid (some room)
  | .close _ ns room => Rooms.closeRoom v.2 ns room
  | .disconnect _ ns sid => Rooms.disconnect v.2 ns sid
  | _ => v.2

/-- what it does to the table of the single server -/
def singleRooms (op : Op) (s : Rooms.St) : Rooms.St :=
  match op with
  | .connect _ ns eio sid => Rooms.apply s (.connect ns eio sid)
  | .enter _ ns sid room => enterLocal s ns sid room
  | .leave _ ns sid room => Rooms.leave s ns sid (some room)
  | .close _ ns room => Rooms.closeRoom s ns room
  | .disconnect _ ns sid => Rooms.disconnect s ns sid
  | _ => s

/-- the operation names hosts that exist, and a `connect` happens on the host where the session
    (and the transport) lives -/
def OpOk (home : Sid → HostId) (ehome : Eio → HostId) (ids : List HostId) : Op → Prop
  | .connect hid _ eio sid => hid ∈ ids ∧ home sid = hid ∧ ehome eio = hid
  | .enter via _ _ _ => via ∈ ids
  | .leave via _ _ _ => via ∈ ids
  | .close via _ _ => via ∈ ids
  | .disconnect via _ _ => via ∈ ids
  | .emit via _ _ _ to _ cb =>
    (∀ v, via = some v → v ∈ ids) ∧ Target.ok to ∧ (cb.isSome → via.isSome ∧ ∃ r, to = .one r)
  | .ack _ _ _ _ => True
  | .deliver _ _ => False
  | .drain => False

theorem inv_enterLocal {r : Rooms.St} (h : Inv r) (ns : Ns) (sid : Sid) (room : Room) :
    Inv (enterLocal r ns sid room) := by
  unfold enterLocal
  split
  · rename_i eio hq; exact h.add (eioOf_some_mem hq)
  · exact h

theorem inv_singleRooms {s : Rooms.St} (h : Inv s) (op : Op) : Inv (singleRooms op s) := by
  cases op <;> simp only [singleRooms] <;>
    first
    | exact h
    | exact h.apply _
    | exact inv_enterLocal h _ _ _
    | exact h.leave _ _ _
    | exact h.closeRoom _ _
    | exact h.disconnect _ _

theorem inv_localRooms {v : View} (h : Inv v.2) (op : Op) : Inv (localRooms op v) := by
  cases op <;> simp only [localRooms] <;>
    first
    | exact h
    | (split <;> first | exact h.apply _ | exact h)
    | exact inv_enterLocal h _ _ _
    | exact h.leave _ _ _
    | exact h.closeRoom _ _
    | exact h.disconnect _ _

section pres
variable {home : Sid → HostId} {ehome : Eio → HostId} {vs : List View} {s : Rooms.St}

theorem map_fst_local (g : View → Rooms.St) :
    (vs.map (fun v => (v.1, g v))).map Prod.fst = vs.map Prod.fst := by
  rw [List.map_map]; rfl

/-- entries only disappear -/
theorem placed_shrink (hp : Placed home ehome vs) (g : View → Rooms.St)
    (hinv : ∀ v ∈ vs, Inv (g v)) (hsub : ∀ v ∈ vs, ∀ e ∈ g v, e ∈ v.2) :
    Placed home ehome (vs.map (fun v => (v.1, g v))) where
  ids := by rw [map_fst_local]; exact hp.ids
  inv := by
    intro v' hv'
    obtain ⟨v, hv, rfl⟩ := List.mem_map.mp hv'
    exact hinv v hv
  home := by
    intro v' hv' e he
    obtain ⟨v, hv, rfl⟩ := List.mem_map.mp hv'
    exact hp.home v hv e (hsub v hv e he)
  ehome := by
    intro v' hv' e he
    obtain ⟨v, hv, rfl⟩ := List.mem_map.mp hv'
    exact hp.ehome v hv e (hsub v hv e he)

theorem union_filter (hu : Union vs s) (p : Entry → Bool) :
    Union (vs.map (fun v => (v.1, v.2.filter p))) (s.filter p) := by
  intro e
  rw [List.mem_filter, hu]
  constructor
  · rintro ⟨⟨v, hv, he⟩, hpe⟩
    exact ⟨(v.1, v.2.filter p), List.mem_map_of_mem hv, List.mem_filter.mpr ⟨he, hpe⟩⟩
  · rintro ⟨v', hv', he⟩
    obtain ⟨v, hv, rfl⟩ := List.mem_map.mp hv'
    obtain ⟨he1, he2⟩ := List.mem_filter.mp he
    exact ⟨⟨v, hv, he1⟩, he2⟩

/-- one entry is added on the host `v0` (and to the single table), nothing else changes -/
theorem union_add_at (hu : Union vs s) (v0 : View) (hv0 : v0 ∈ vs) (g : View → Rooms.St) (s' : Rooms.St)
    (news : List Entry)
    (hg0 : ∀ e, e ∈ g v0 ↔ e ∈ v0.2 ∨ e ∈ news) (hgo : ∀ v ∈ vs, v ≠ v0 → g v = v.2)
    (hs' : ∀ e, e ∈ s' ↔ e ∈ s ∨ e ∈ news) :
    Union (vs.map (fun v => (v.1, g v))) s' := by
  intro e
  rw [hs', hu]
  constructor
  · rintro (⟨v, hv, he⟩ | hn)
    · refine ⟨(v.1, g v), List.mem_map_of_mem hv, ?_⟩
      by_cases hvv : v = v0
      · subst hvv; exact (hg0 e).mpr (Or.inl he)
      · show e ∈ g v
        rw [hgo v hv hvv]; exact he
    · exact ⟨(v0.1, g v0), List.mem_map_of_mem hv0, (hg0 e).mpr (Or.inr hn)⟩
  · rintro ⟨v', hv', he⟩
    obtain ⟨v, hv, rfl⟩ := List.mem_map.mp hv'
    by_cases hvv : v = v0
    · subst hvv
      rcases (hg0 e).mp he with h | h
      · exact Or.inl ⟨v, hv, h⟩
      · exact Or.inr h
    · have : e ∈ v.2 := by
        have he' : e ∈ g v := he
        rw [hgo v hv hvv] at he'; exact he'
      exact Or.inl ⟨v, hv, this⟩

theorem placed_add_at (hp : Placed home ehome vs) (v0 : View) (hv0 : v0 ∈ vs) (g : View → Rooms.St)
    (news : List Entry) (hinv : ∀ v ∈ vs, Inv (g v))
    (hg0 : ∀ e, e ∈ g v0 ↔ e ∈ v0.2 ∨ e ∈ news) (hgo : ∀ v ∈ vs, v ≠ v0 → g v = v.2)
    (hnew : ∀ e ∈ news, home e.sid = v0.1 ∧ ehome e.eio = v0.1) :
    Placed home ehome (vs.map (fun v => (v.1, g v))) where
  ids := by rw [map_fst_local]; exact hp.ids
  inv := by
    intro v' hv'
    obtain ⟨v, hv, rfl⟩ := List.mem_map.mp hv'
    exact hinv v hv
  home := by
    intro v' hv' e he
    obtain ⟨v, hv, rfl⟩ := List.mem_map.mp hv'
    by_cases hvv : v = v0
    · subst hvv
      rcases (hg0 e).mp he with h | h
      · exact hp.home v hv e h
      · exact (hnew e h).1
    · have he' : e ∈ g v := he
      rw [hgo v hv hvv] at he'
      exact hp.home v hv e he'
  ehome := by
    intro v' hv' e he
    obtain ⟨v, hv, rfl⟩ := List.mem_map.mp hv'
    by_cases hvv : v = v0
    · subst hvv
      rcases (hg0 e).mp he with h | h
      · exact hp.ehome v hv e h
      · exact (hnew e h).2
    · have he' : e ∈ g v := he
      rw [hgo v hv hvv] at he'
      exact hp.ehome v hv e he'

/-- a host where the session is not connected has no entry for it -/
theorem eioOf_none_elsewhere (hp : Placed home ehome vs) {v0 v : View} (hv0 : v0 ∈ vs) (hv : v ∈ vs)
    (hne : v ≠ v0) {ns : Ns} {sid : Sid} {eio : Eio} (h0 : eioOf v0.2 ns sid = some eio) :
    eioOf v.2 ns sid = none := by
  cases hq : eioOf v.2 ns sid with
  | none => rfl
  | some e2 =>
    exact absurd (hp.same_host hv hv0 (eioOf_some_mem hq) (eioOf_some_mem h0) rfl) hne

theorem exists_view_of_id (hid : HostId) (h : hid ∈ vs.map Prod.fst) : ∃ v ∈ vs, v.1 = hid := by
  obtain ⟨v, hv, rfl⟩ := List.mem_map.mp h
  exact ⟨v, hv, rfl⟩

/-- **Every operation keeps the cluster a partition of the single server.** -/
theorem local_preserves (hp : Placed home ehome vs) (hu : Union vs s) (hs : Inv s) (op : Op)
    (hop : OpOk home ehome (vs.map Prod.fst) op) :
    Placed home ehome (vs.map (fun v => (v.1, localRooms op v))) ∧
    Union (vs.map (fun v => (v.1, localRooms op v))) (singleRooms op s) := by
  have hsame : ∀ (g : View → Rooms.St), (∀ v ∈ vs, g v = v.2) →
      vs.map (fun v => (v.1, g v)) = vs := by
    intro g hg
    have : vs.map (fun v => (v.1, g v)) = vs.map id := by
      apply List.map_congr_left
      intro v hv
      rw [hg v hv]; rfl
    rw [this, List.map_id]
  cases op with
  | connect hid ns eio sid =>
    obtain ⟨hin, hh, he⟩ := hop
    obtain ⟨v0, hv0, hid0⟩ := exists_view_of_id hid hin
    subst hid0
    -- the two tests of `connect` agree between the host and the single server
    have hsome : (eioOf s ns sid).isSome = (eioOf v0.2 ns sid).isSome := by
      cases hq : eioOf v0.2 ns sid with
      | some x =>
        rw [(union_eioOf hp hu hs ns sid x).mpr ⟨v0, hv0, hq⟩]
      | none =>
        cases hq' : eioOf s ns sid with
        | none => rfl
        | some x =>
          obtain ⟨v, hv, hqv⟩ := (union_eioOf hp hu hs ns sid x).mp hq'
          have hvv : v = v0 := eq_of_fst_eq hp.ids hv hv0
            (by rw [← hp.home v hv _ (eioOf_some_mem hqv)]; exact hh)
          rw [hvv, hq] at hqv; cases hqv
    have hsid : (sidOf s ns eio).isSome = (sidOf v0.2 ns eio).isSome := by
      cases hq : sidOf v0.2 ns eio with
      | some x =>
        rw [(union_sidOf hp hu hs ns eio x).mpr ⟨v0, hv0, hq⟩]
      | none =>
        cases hq' : sidOf s ns eio with
        | none => rfl
        | some x =>
          obtain ⟨v, hv, hqv⟩ := (union_sidOf hp hu hs ns eio x).mp hq'
          have hvv : v = v0 := eq_of_fst_eq hp.ids hv hv0
            (by rw [← hp.ehome v hv _ (sidOf_some_mem hqv)]; exact he)
          rw [hvv, hq] at hqv; cases hqv
    have hgo : ∀ v ∈ vs, v ≠ v0 → localRooms (.connect v0.1 ns eio sid) v = v.2 := by
      intro v hv hne
      simp only [localRooms]
      rw [if_neg (fun h => hne (eq_of_fst_eq hp.ids hv hv0 h))]
    have hinv : ∀ v ∈ vs, Inv (localRooms (.connect v0.1 ns eio sid) v) :=
      fun v hv => inv_localRooms (hp.inv v hv) _
    by_cases hc : (eioOf v0.2 ns sid).isSome = true ∨ (sidOf v0.2 ns eio).isSome = true
    · -- nothing happens, on either side
      have h1 : localRooms (.connect v0.1 ns eio sid) v0 = v0.2 := by
        simp only [localRooms, if_true, Rooms.apply, Rooms.connect]
        rcases hc with hc | hc
        · rw [if_pos hc]
        · split
          · rfl
          · cases hq : sidOf v0.2 ns eio with
            | none => rw [hq] at hc; cases hc
            | some x => simp
      have h2 : singleRooms (.connect v0.1 ns eio sid) s = s := by
        simp only [singleRooms, Rooms.apply, Rooms.connect]
        rcases hc with hc | hc
        · rw [if_pos (by rw [hsome]; exact hc)]
        · split
          · rfl
          · cases hq : sidOf s ns eio with
            | none =>
              have : (sidOf s ns eio).isSome = true := by rw [hsid]; exact hc
              rw [hq] at this; cases this
            | some x => simp
      have hall : ∀ v ∈ vs, localRooms (.connect v0.1 ns eio sid) v = v.2 := by
        intro v hv
        by_cases hvv : v = v0
        · rw [hvv]; exact h1
        · exact hgo v hv hvv
      rw [hsame _ hall, h2]
      exact ⟨hp, hu⟩
    · -- two entries are added on both sides
      have hc1 : (eioOf v0.2 ns sid).isSome = false := by
        cases hq : (eioOf v0.2 ns sid).isSome with
        | false => rfl
        | true => exact absurd (Or.inl hq) hc
      have hc2 : sidOf v0.2 ns eio = none := by
        cases hq : sidOf v0.2 ns eio with
        | none => rfl
        | some x => exact absurd (Or.inr (by rw [hq]; rfl)) hc
      have hc2' : sidOf s ns eio = none := by
        cases hq : sidOf s ns eio with
        | none => rfl
        | some x => rw [hc2, hq] at hsid; cases hsid
      have h1 : localRooms (.connect v0.1 ns eio sid) v0 =
          add (add v0.2 ⟨ns, none, sid, eio⟩) ⟨ns, some sid, sid, eio⟩ := by
        simp [localRooms, Rooms.apply, Rooms.connect, hc1, hc2]
      have h2 : singleRooms (.connect v0.1 ns eio sid) s =
          add (add s ⟨ns, none, sid, eio⟩) ⟨ns, some sid, sid, eio⟩ := by
        simp [singleRooms, Rooms.apply, Rooms.connect, hsome, hc1, hc2']
      have hg0 : ∀ e, e ∈ localRooms (.connect v0.1 ns eio sid) v0 ↔
          e ∈ v0.2 ∨ e ∈ [(⟨ns, none, sid, eio⟩ : Entry), ⟨ns, some sid, sid, eio⟩] := by
        intro e
        rw [h1, mem_add, mem_add]
        simp only [List.mem_cons, List.not_mem_nil, or_false, or_assoc]
      have hs' : ∀ e, e ∈ singleRooms (.connect v0.1 ns eio sid) s ↔
          e ∈ s ∨ e ∈ [(⟨ns, none, sid, eio⟩ : Entry), ⟨ns, some sid, sid, eio⟩] := by
        intro e
        rw [h2, mem_add, mem_add]
        simp only [List.mem_cons, List.not_mem_nil, or_false, or_assoc]
      refine ⟨placed_add_at hp v0 hv0 _ _ hinv hg0 hgo ?_, union_add_at hu v0 hv0 _ _ _ hg0 hgo hs'⟩
      intro e hmem
      simp only [List.mem_cons, List.not_mem_nil, or_false] at hmem
      rcases hmem with rfl | rfl <;> exact ⟨hh, he⟩
  | enter via ns sid room =>
    have hinv : ∀ v ∈ vs, Inv (localRooms (.enter via ns sid room) v) :=
      fun v hv => inv_localRooms (hp.inv v hv) _
    cases hq : eioOf s ns sid with
    | none =>
      have hall : ∀ v ∈ vs, localRooms (.enter via ns sid room) v = v.2 := by
        intro v hv
        simp only [localRooms, enterLocal, (union_eioOf_none hp hu hs ns sid).mp hq v hv]
      rw [hsame _ hall]
      simp only [singleRooms, enterLocal, hq]
      exact ⟨hp, hu⟩
    | some eio =>
      obtain ⟨v0, hv0, hq0⟩ := (union_eioOf hp hu hs ns sid eio).mp hq
      have hgo : ∀ v ∈ vs, v ≠ v0 → localRooms (.enter via ns sid room) v = v.2 := by
        intro v hv hne
        simp only [localRooms, enterLocal, eioOf_none_elsewhere hp hv0 hv hne hq0]
      have hg0 : ∀ e, e ∈ localRooms (.enter via ns sid room) v0 ↔
          e ∈ v0.2 ∨ e ∈ [(⟨ns, some room, sid, eio⟩ : Entry)] := by
        intro e
        simp only [localRooms, enterLocal, hq0, mem_add, List.mem_singleton]
      have hs' : ∀ e, e ∈ singleRooms (.enter via ns sid room) s ↔
          e ∈ s ∨ e ∈ [(⟨ns, some room, sid, eio⟩ : Entry)] := by
        intro e
        simp only [singleRooms, enterLocal, hq, mem_add, List.mem_singleton]
      refine ⟨placed_add_at hp v0 hv0 _ _ hinv hg0 hgo ?_, union_add_at hu v0 hv0 _ _ _ hg0 hgo hs'⟩
      intro e hmem
      simp only [List.mem_singleton] at hmem
      subst hmem
      have hent := eioOf_some_mem hq0
      exact ⟨hp.home v0 hv0 ⟨ns, none, sid, eio⟩ hent, hp.ehome v0 hv0 ⟨ns, none, sid, eio⟩ hent⟩
  | leave via ns sid room =>
    refine ⟨placed_shrink hp _ (fun v hv => inv_localRooms (hp.inv v hv) _) ?_, ?_⟩
    · intro v _ e he
      exact (List.mem_filter.mp he).1
    · exact union_filter hu _
  | close via ns room =>
    refine ⟨placed_shrink hp _ (fun v hv => inv_localRooms (hp.inv v hv) _) ?_, ?_⟩
    · intro v _ e he
      exact (List.mem_filter.mp he).1
    · exact union_filter hu _
  | disconnect via ns sid =>
    refine ⟨placed_shrink hp _ (fun v hv => inv_localRooms (hp.inv v hv) _) ?_, ?_⟩
    · intro v _ e he
      exact (List.mem_filter.mp he).1
    · exact union_filter hu _
  | emit via ev d ns to skip cb =>
    rw [hsame (localRooms (.emit via ev d ns to skip cb)) (fun v _ => rfl)]; exact ⟨hp, hu⟩
  | ack ns sid n args =>
    rw [hsame (localRooms (.ack ns sid n args)) (fun v _ => rfl)]; exact ⟨hp, hu⟩
  | deliver h k => exact absurd hop (by simp [OpOk])
  | drain => exact absurd hop (by simp [OpOk])

end pres

end Sio.PubSub
