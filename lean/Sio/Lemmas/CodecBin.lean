/-
  C01 — lemmas about `decon` / `recon` (binary deconstruction and reconstruction).
-/
import Sio.Lemmas.CodecDefs
namespace Sio

/-! ### `decon` appends the depth-first leaves to the accumulator -/

mutual
  theorem decon_snd (j : J) (acc : List Bytes) : (decon j acc).2 = acc ++ binLeaves j := by
    cases j with
    | bin b => simp [decon, binLeaves]
    | arr xs => simp [decon, binLeaves, deconL_snd xs acc]
    | obj kvs => simp [decon, binLeaves, deconO_snd kvs acc]
    | null => simp [decon, binLeaves]
    | bool b => simp [decon, binLeaves]
    | int i => simp [decon, binLeaves]
    | flt l => simp [decon, binLeaves]
    | str s => simp [decon, binLeaves]
  theorem deconL_snd (xs : List J) (acc : List Bytes) : (deconL xs acc).2 = acc ++ binLeavesL xs := by
    cases xs with
    | nil => simp [deconL, binLeavesL]
    | cons x xs => simp [deconL, binLeavesL, decon_snd x acc, deconL_snd xs]
  theorem deconO_snd (kvs : List (Str × J)) (acc : List Bytes) :
      (deconO kvs acc).2 = acc ++ binLeavesO kvs := by
    match kvs with
    | [] => simp [deconO, binLeavesO]
    | (k, x) :: xs => simp [deconO, binLeavesO, decon_snd x acc, deconO_snd xs]
end

/-! ### the result has no byte-string leaf -/

theorem noBin_placeholder (n : Nat) : NoBin (placeholder n) = true := by
  simp [placeholder, NoBin, NoBinO]

mutual
  theorem noBin_decon (j : J) (acc : List Bytes) : NoBin (decon j acc).1 = true := by
    cases j with
    | bin b => simp [decon, noBin_placeholder]
    | arr xs => simp [decon, NoBin, noBinL_deconL xs acc]
    | obj kvs => simp [decon, NoBin, noBinO_deconO kvs acc]
    | null => simp [decon, NoBin]
    | bool b => simp [decon, NoBin]
    | int i => simp [decon, NoBin]
    | flt l => simp [decon, NoBin]
    | str s => simp [decon, NoBin]
  theorem noBinL_deconL (xs : List J) (acc : List Bytes) : NoBinL (deconL xs acc).1 = true := by
    cases xs with
    | nil => simp [deconL, NoBinL]
    | cons x xs => simp [deconL, NoBinL, noBin_decon x acc, noBinL_deconL xs]
  theorem noBinO_deconO (kvs : List (Str × J)) (acc : List Bytes) :
      NoBinO (deconO kvs acc).1 = true := by
    match kvs with
    | [] => simp [deconO, NoBinO]
    | (k, x) :: xs => simp [deconO, NoBinO, noBin_decon x acc, noBinO_deconO xs]
end

/-! ### `_data_is_binary` ↔ there is a leaf ↔ ¬ NoBin -/

mutual
  theorem isBinary_eq_not_noBin (j : J) : j.isBinary = !NoBin j := by
    cases j with
    | arr xs => simp [J.isBinary, NoBin, isBinaryL_eq xs]
    | obj kvs => simp [J.isBinary, NoBin, isBinaryO_eq kvs]
    | bin b => simp [J.isBinary, NoBin]
    | null => simp [J.isBinary, NoBin]
    | bool b => simp [J.isBinary, NoBin]
    | int i => simp [J.isBinary, NoBin]
    | flt l => simp [J.isBinary, NoBin]
    | str s => simp [J.isBinary, NoBin]
  theorem isBinaryL_eq (xs : List J) : J.isBinaryL xs = !NoBinL xs := by
    cases xs with
    | nil => simp [J.isBinaryL, NoBinL]
    | cons x xs => simp [J.isBinaryL, NoBinL, isBinary_eq_not_noBin x, isBinaryL_eq xs, Bool.not_and]
  theorem isBinaryO_eq (kvs : List (Str × J)) : J.isBinaryO kvs = !NoBinO kvs := by
    match kvs with
    | [] => simp [J.isBinaryO, NoBinO]
    | (k, x) :: xs => simp [J.isBinaryO, NoBinO, isBinary_eq_not_noBin x, isBinaryO_eq xs, Bool.not_and]
end

mutual
  theorem noBin_iff_leaves (j : J) : NoBin j = true ↔ binLeaves j = [] := by
    cases j with
    | arr xs => simp [NoBin, binLeaves, noBinL_iff_leaves xs]
    | obj kvs => simp [NoBin, binLeaves, noBinO_iff_leaves kvs]
    | bin b => simp [NoBin, binLeaves]
    | null => simp [NoBin, binLeaves]
    | bool b => simp [NoBin, binLeaves]
    | int i => simp [NoBin, binLeaves]
    | flt l => simp [NoBin, binLeaves]
    | str s => simp [NoBin, binLeaves]
  theorem noBinL_iff_leaves (xs : List J) : NoBinL xs = true ↔ binLeavesL xs = [] := by
    cases xs with
    | nil => simp [NoBinL, binLeavesL]
    | cons x xs => simp [NoBinL, binLeavesL, noBin_iff_leaves x, noBinL_iff_leaves xs]
  theorem noBinO_iff_leaves (kvs : List (Str × J)) : NoBinO kvs = true ↔ binLeavesO kvs = [] := by
    match kvs with
    | [] => simp [NoBinO, binLeavesO]
    | (k, x) :: xs => simp [NoBinO, binLeavesO, noBin_iff_leaves x, noBinO_iff_leaves xs]
end

theorem isBinary_iff_leaves (j : J) : j.isBinary = true ↔ binLeaves j ≠ [] := by
  have := noBin_iff_leaves j
  rw [isBinary_eq_not_noBin]
  cases h : NoBin j <;> simp_all

/-! a tree without byte strings is left alone -/
mutual
  theorem decon_noBin (j : J) (acc : List Bytes) (h : NoBin j = true) : (decon j acc).1 = j := by
    cases j with
    | bin b => simp [NoBin] at h
    | arr xs => simp [NoBin] at h; simp [decon, deconL_noBin xs acc h]
    | obj kvs => simp [NoBin] at h; simp [decon, deconO_noBin kvs acc h]
    | null => simp [decon]
    | bool b => simp [decon]
    | int i => simp [decon]
    | flt l => simp [decon]
    | str s => simp [decon]
  theorem deconL_noBin (xs : List J) (acc : List Bytes) (h : NoBinL xs = true) :
      (deconL xs acc).1 = xs := by
    cases xs with
    | nil => simp [deconL]
    | cons x xs =>
      simp [NoBinL] at h
      simp [deconL, decon_noBin x acc h.1, deconL_noBin xs _ h.2]
  theorem deconO_noBin (kvs : List (Str × J)) (acc : List Bytes) (h : NoBinO kvs = true) :
      (deconO kvs acc).1 = kvs := by
    match kvs with
    | [] => simp [deconO]
    | (k, x) :: xs =>
      simp [NoBinO] at h
      simp [deconO, decon_noBin x acc h.1, deconO_noBin xs _ h.2]
end

/-! ### reconstruction -/

theorem lookup_deconO_none (k : Str) (kvs : List (Str × J)) (acc : List Bytes)
    (h : lookup k kvs = none) : lookup k (deconO kvs acc).1 = none := by
  induction kvs generalizing acc with
  | nil => simp [deconO, lookup]
  | cons kv xs ih =>
    obtain ⟨k', x⟩ := kv
    simp only [lookup] at h
    by_cases hk : k' = k
    · simp [hk] at h
    · simp only [hk, if_false] at h
      simp [deconO, lookup, hk, ih _ h]

theorem lookup_reserved_none (kvs : List (Str × J)) (h : NoReservedKeyO kvs = true) :
    lookup reservedKey kvs = none := by
  induction kvs with
  | nil => simp [lookup]
  | cons kv xs ih =>
    obtain ⟨k', x⟩ := kv
    simp [NoReservedKeyO] at h
    simp [lookup, h.1.1, ih h.2]

theorem recon_placeholder (atts : List J) (n : Nat) :
    recon atts (placeholder n) = pyIndex atts (.int n) := by
  simp [placeholder, recon, lookup, J.truthy]

theorem pyIndex_append (acc : List Bytes) (b : Bytes) (rest : List Bytes) :
    pyIndex ((acc ++ [b] ++ rest).map J.bin) (.int acc.length) = .ok (.bin b) := by
  simp [pyIndex]

mutual
  /-- Generalised to an arbitrary accumulator prefix and an arbitrary continuation of the
      attachment list: the placeholders made by `decon j acc` index into `acc ++ leaves j`. -/
  theorem recon_decon_gen (j : J) (acc rest : List Bytes) (h : NoReservedKey j = true) :
      recon (((decon j acc).2 ++ rest).map J.bin) (decon j acc).1 = .ok j := by
    cases j with
    | bin b =>
      simp only [decon, recon_placeholder]
      exact pyIndex_append acc b rest
    | arr xs =>
      simp only [NoReservedKey] at h
      have := reconL_deconL_gen xs acc rest h
      simp only [decon, recon, this]; rfl
    | obj kvs =>
      simp only [NoReservedKey] at h
      have h1 := reconO_deconO_gen kvs acc rest h
      have h2 := lookup_deconO_none reservedKey kvs acc (lookup_reserved_none kvs h)
      rw [reservedKey_eq] at h2
      simp only [decon, recon, h1, h2]; rfl
    | null => simp [decon, recon]
    | bool b => simp [decon, recon]
    | int i => simp [decon, recon]
    | flt l => simp [decon, recon]
    | str s => simp [decon, recon]
  theorem reconL_deconL_gen (xs : List J) (acc rest : List Bytes) (h : NoReservedKeyL xs = true) :
      reconL (((deconL xs acc).2 ++ rest).map J.bin) (deconL xs acc).1 = .ok xs := by
    cases xs with
    | nil => simp [deconL, reconL]
    | cons x xs =>
      simp only [NoReservedKeyL, Bool.and_eq_true] at h
      have hx := recon_decon_gen x acc (binLeavesL xs ++ rest) h.1
      have hxs := reconL_deconL_gen xs (decon x acc).2 rest h.2
      simp only [deconL_snd, decon_snd, List.append_assoc] at hx hxs
      simp only [deconL, reconL, deconL_snd, decon_snd, List.append_assoc, hx, hxs]; rfl
  theorem reconO_deconO_gen (kvs : List (Str × J)) (acc rest : List Bytes)
      (h : NoReservedKeyO kvs = true) :
      reconO (((deconO kvs acc).2 ++ rest).map J.bin) (deconO kvs acc).1 = .ok kvs := by
    match kvs with
    | [] => simp [deconO, reconO]
    | (k, x) :: xs =>
      simp only [NoReservedKeyO, Bool.and_eq_true] at h
      have hx := recon_decon_gen x acc (binLeavesO xs ++ rest) h.1.2
      have hxs := reconO_deconO_gen xs (decon x acc).2 rest h.2
      simp only [deconO_snd, decon_snd, List.append_assoc] at hx hxs
      simp only [deconO, reconO, deconO_snd, decon_snd, List.append_assoc, hx, hxs]; rfl
end

/-! ### numbering -/

theorem asPlaceholder_placeholder (n : Nat) :
    asPlaceholder [("_placeholder".toList, .bool true), ("num".toList, .int (n : Int))] = some n := by
  simp [asPlaceholder, reservedKey_eq]

theorem asPlaceholder_none_of_lookup (kvs : List (Str × J)) (h : lookup reservedKey kvs = none) :
    asPlaceholder kvs = none := by
  unfold asPlaceholder
  split
  · rename_i k₁ k₂ n
    simp only [lookup] at h
    split at h
    · simp at h
    · simp [*]
  · rfl

mutual
  theorem phNums_decon (j : J) (acc : List Bytes) (h : NoReservedKey j = true) :
      phNums (decon j acc).1 = List.range' acc.length (binLeaves j).length := by
    cases j with
    | bin b =>
      simp only [decon, placeholder, phNums, binLeaves]
      rw [asPlaceholder_placeholder]; simp
    | arr xs =>
      simp only [NoReservedKey] at h
      simp [decon, phNums, binLeaves, phNumsL_deconL xs acc h]
    | obj kvs =>
      simp only [NoReservedKey] at h
      have h2 := lookup_deconO_none reservedKey kvs acc (lookup_reserved_none kvs h)
      simp [decon, phNums, binLeaves, asPlaceholder_none_of_lookup _ h2, phNumsO_deconO kvs acc h]
    | null => simp [decon, phNums, binLeaves]
    | bool b => simp [decon, phNums, binLeaves]
    | int i => simp [decon, phNums, binLeaves]
    | flt l => simp [decon, phNums, binLeaves]
    | str s => simp [decon, phNums, binLeaves]
  theorem phNumsL_deconL (xs : List J) (acc : List Bytes) (h : NoReservedKeyL xs = true) :
      phNumsL (deconL xs acc).1 = List.range' acc.length (binLeavesL xs).length := by
    cases xs with
    | nil => simp [deconL, phNumsL, binLeavesL]
    | cons x xs =>
      simp only [NoReservedKeyL, Bool.and_eq_true] at h
      simp only [deconL, phNumsL, binLeavesL, phNums_decon x acc h.1, phNumsL_deconL xs _ h.2,
        decon_snd, List.length_append]
      rw [List.range'_append_1]
  theorem phNumsO_deconO (kvs : List (Str × J)) (acc : List Bytes) (h : NoReservedKeyO kvs = true) :
      phNumsO (deconO kvs acc).1 = List.range' acc.length (binLeavesO kvs).length := by
    match kvs with
    | [] => simp [deconO, phNumsO, binLeavesO]
    | (k, x) :: xs =>
      simp only [NoReservedKeyO, Bool.and_eq_true] at h
      simp only [deconO, phNumsO, binLeavesO, phNums_decon x acc h.1.2, phNumsO_deconO xs _ h.2,
        decon_snd, List.length_append]
      rw [List.range'_append_1]
end

theorem topOK_decon (j : J) (acc : List Bytes) (h : TopOK j = true) : TopOK (decon j acc).1 = true := by
  cases j <;> simp_all [decon, TopOK, placeholder]

end Sio
