/-
  Helper lemmas for K6 (pub/sub), callback level of `sync_equiv` (C07), part 2: the invariant
  `Linked` between a drained cluster and the single reference server (same number of outstanding
  asks per client; for every ask of a connected client the single server's user callback exists iff
  the client's host holds the relay entry and the issuing host the user entry it points at; no entry
  above its counter), and the generic preservation lemma: an operation that touches the callback
  tables under one key only.
-/
import Sio.Lemmas.PubSubLinked
namespace Sio.PubSub
open Sio.Rooms

/-! ### the callback tables of all hosts under one key -/

/-- `C o i` is `callbacks[x][i]` of the host with id `o` (nothing for ids that are no host), `N o`
    its counter `ack_counters[x]` -/
def Rep (hosts : List Host) (x : Str) (C : HostId → Nat → Option Cb) (N : HostId → Nat) : Prop :=
  (∀ h ∈ hosts, (∀ i, C h.id i = h.cbs x i) ∧ N h.id = h.ctr x) ∧
  ∀ o, o ∉ hosts.map Host.id → ∀ i, C o i = none

def cbsAt (hosts : List Host) (x : Str) (o : HostId) (i : Nat) : Option Cb :=
  match hosts.find? (fun h => h.id = o) with
  | some h => h.cbs x i
  | none => none

def ctrAt (hosts : List Host) (x : Str) (o : HostId) : Nat :=
  match hosts.find? (fun h => h.id = o) with
  | some h => h.ctr x
  | none => 0

theorem rep_canonical {hosts : List Host} (hnd : (hosts.map Host.id).Nodup) (x : Str) :
    Rep hosts x (cbsAt hosts x) (ctrAt hosts x) := by
  refine ⟨?_, ?_⟩
  · intro h hh
    have := find_of_mem hnd hh
    exact ⟨fun i => by simp only [cbsAt, this], by simp only [ctrAt, this]⟩
  · intro o ho i
    have := find_none_of_not_mem ho
    simp only [cbsAt, this]

theorem map_id_eq {hosts : List Host} {G : Host → Host} (hGid : ∀ h ∈ hosts, (G h).id = h.id) :
    (hosts.map G).map Host.id = hosts.map Host.id := by
  rw [List.map_map]
  exact List.map_congr_left (fun h hh => hGid h hh)

theorem Rep.frame {hosts : List Host} {x : Str} {C : HostId → Nat → Option Cb} {N : HostId → Nat}
    (hr : Rep hosts x C N) (G : Host → Host) (hGid : ∀ h ∈ hosts, (G h).id = h.id)
    (hG : ∀ h ∈ hosts, (G h).cbs x = h.cbs x ∧ (G h).ctr x = h.ctr x) : Rep (hosts.map G) x C N := by
  refine ⟨?_, ?_⟩
  · intro h' hh'
    obtain ⟨h, hh, rfl⟩ := List.mem_map.mp hh'
    rw [hGid h hh, (hG h hh).1, (hG h hh).2]
    exact hr.1 h hh
  · rw [map_id_eq hGid]; exact hr.2

theorem Rep.bound {hosts : List Host} {x : Str} {C : HostId → Nat → Option Cb} {N : HostId → Nat}
    (hr : Rep hosts x C N) (hb : ∀ h ∈ hosts, h.Bounded) : ∀ o i, C o i ≠ none → i ≤ N o := by
  intro o i hne
  by_cases ho : o ∈ hosts.map Host.id
  · obtain ⟨h, hh, rfl⟩ := List.mem_map.mp ho
    rw [(hr.1 h hh).1] at hne
    rw [(hr.1 h hh).2]
    exact hb h hh x i hne
  · exact absurd (hr.2 o ho i) hne

theorem Rep.host {hosts : List Host} {x : Str} {C : HostId → Nat → Option Cb} {N : HostId → Nat}
    (hr : Rep hosts x C N) {o : HostId} {i : Nat} {cb : Cb} (hc : C o i = some cb) :
    ∃ h ∈ hosts, h.id = o ∧ h.cbs x i = some cb := by
  by_cases ho : o ∈ hosts.map Host.id
  · obtain ⟨h, hh, rfl⟩ := List.mem_map.mp ho
    exact ⟨h, hh, rfl, by rw [← (hr.1 h hh).1]; exact hc⟩
  · rw [hr.2 o ho i] at hc; cases hc

/-! ### the invariant -/

structure Linked (home : Sid → HostId) (c : Cluster) (s : Single) : Prop where
  /-- every host has consumed the whole channel -/
  drained : ∀ h ∈ c.hosts, h.cursor = c.chan.length
  /-- a session id is connected to one namespace -/
  oneNs : ∀ e₁ ∈ s.srv.rooms, ∀ e₂ ∈ s.srv.rooms, e₁.sid = e₂.sid → e₁.ns = e₂.ns
  len : ∀ x, (askedOf c.asked x).length = (askedOf s.asked x).length
  bound : ∀ h ∈ c.hosts, h.Bounded
  sbound : s.srv.Bounded
  link : ∀ x, (∃ e ∈ s.srv.rooms, e.sid = x) → ∃ C N, Rep c.hosts x C N ∧
    KL C (N (home x)) (s.srv.cbs x) (s.srv.ctr x) x (home x)
      ((askedOf c.asked x).zip (askedOf s.asked x))

/-- An operation (followed by its drain) that touches callback tables, counters and asks under at
    most one key `k0`: the invariant is kept if it is kept for `k0`.  A session that appears is new
    (it has never been asked anything). -/
theorem linked_keyed {home : Sid → HostId} {c : Cluster} {s : Single} (hl : Linked home c s)
    (hnd : (c.hosts.map Host.id).Nodup) (c' : Cluster) (s' : Single) (G : Host → Host) (k0 : Option Str)
    (hhosts : c'.hosts = c.hosts.map G)
    (hGid : ∀ h ∈ c.hosts, (G h).id = h.id)
    (hG : ∀ h ∈ c.hosts, ∀ y, some y ≠ k0 → (G h).cbs y = h.cbs y ∧ (G h).ctr y = h.ctr y)
    (hdr : ∀ h ∈ c'.hosts, h.cursor = c'.chan.length)
    (hone : ∀ e₁ ∈ s'.srv.rooms, ∀ e₂ ∈ s'.srv.rooms, e₁.sid = e₂.sid → e₁.ns = e₂.ns)
    (hlen : ∀ x, (askedOf c'.asked x).length = (askedOf s'.asked x).length)
    (hca : ∀ y, some y ≠ k0 → askedOf c'.asked y = askedOf c.asked y)
    (hsa : ∀ y, some y ≠ k0 → askedOf s'.asked y = askedOf s.asked y)
    (hS : ∀ y, some y ≠ k0 → s'.srv.cbs y = s.srv.cbs y ∧ s'.srv.ctr y = s.srv.ctr y)
    (hconn : ∀ y, some y ≠ k0 → (∃ e ∈ s'.srv.rooms, e.sid = y) →
      (∃ e ∈ s.srv.rooms, e.sid = y) ∨ askedOf s.asked y = [])
    (hk0 : ∀ k, k0 = some k →
      (∀ h ∈ c.hosts, ∀ i, (G h).cbs k i ≠ none → i ≤ (G h).ctr k) ∧
      (∀ i, s'.srv.cbs k i ≠ none → i ≤ s'.srv.ctr k) ∧
      ((∃ e ∈ s'.srv.rooms, e.sid = k) → ∃ C N, Rep c'.hosts k C N ∧
        KL C (N (home k)) (s'.srv.cbs k) (s'.srv.ctr k) k (home k)
          ((askedOf c'.asked k).zip (askedOf s'.asked k)))) :
    Linked home c' s' := by
  refine ⟨hdr, hone, hlen, ?_, ?_, ?_⟩
  · intro h' hh' k i hne
    rw [hhosts] at hh'
    obtain ⟨h, hh, rfl⟩ := List.mem_map.mp hh'
    by_cases hk : k0 = some k
    · exact (hk0 k hk).1 h hh i hne
    · have := hG h hh k (fun e => hk e.symm)
      rw [this.1] at hne
      rw [this.2]
      exact hl.bound h hh k i hne
  · intro k i hne
    by_cases hk : k0 = some k
    · exact (hk0 k hk).2.1 i hne
    · have := hS k (fun e => hk e.symm)
      rw [this.1] at hne
      rw [this.2]
      exact hl.sbound k i hne
  · intro x hx
    by_cases hk : k0 = some x
    · exact (hk0 x hk).2.2 hx
    · have hne : some x ≠ k0 := fun e => hk e.symm
      rcases hconn x hne hx with hold | hfresh
      · obtain ⟨C, N, hrep, hkl⟩ := hl.link x hold
        refine ⟨C, N, ?_, ?_⟩
        · rw [hhosts]
          exact hrep.frame G hGid (fun h hh => hG h hh x hne)
        · rw [hca x hne, hsa x hne, (hS x hne).1, (hS x hne).2]
          exact hkl
      · have hnd' : (c'.hosts.map Host.id).Nodup := by rw [hhosts, map_id_eq hGid]; exact hnd
        refine ⟨_, _, rep_canonical hnd' x, ?_⟩
        rw [hsa x hne, hfresh, List.zip_nil_right]
        exact KL.nil _ _ _ _ _ _

/-! ### the number of asks follows what the clients see -/

theorem askedOf_askedIn_length (outs : List Out) (x : Sid) :
    (askedOf (askedIn outs) x).length = ((seenBy x outs).filter Seen.asks).length := by
  induction outs with
  | nil => rfl
  | cons o outs ih =>
    cases o with
    | send host sid eio f =>
      obtain ⟨ns, ev, args, id⟩ := f
      cases id with
      | none =>
        simp only [askedIn, seenBy]
        split
        · simp [Seen.asks, ih]
        · exact ih
      | some i =>
        simp only [askedIn, seenBy]
        by_cases hs : sid = x
        · simp only [askedOf, List.length_map] at ih ⊢
          simp [hs, List.filter_cons, Seen.asks, ih]
        · simp only [askedOf, List.length_map] at ih ⊢
          simp [hs, ih]
    | sendDisc host sid eio ns =>
      simp only [askedIn, seenBy]
      split
      · simp [Seen.asks, ih]
      · exact ih
    | _ => simpa [askedIn, seenBy] using ih

theorem len_step {ca sa : List (Sid × Nat)} (h : ∀ x, (askedOf ca x).length = (askedOf sa x).length)
    {oc os : List Out} (hseen : ∀ x, seenBy x oc = seenBy x os) (x : Sid) :
    (askedOf (ca ++ askedIn oc) x).length = (askedOf (sa ++ askedIn os) x).length := by
  rw [askedOf_append, askedOf_append, List.length_append, List.length_append, h x,
    askedOf_askedIn_length, askedOf_askedIn_length, hseen x]

/-! ### the batch of one or no entry -/

theorem catchUp_nil (h : Host) : catchUp h [] = { h := h } := rfl

theorem catchUp_one (h : Host) (m : Msg) :
    (catchUp h [m]).h = (listenMsg h m).h ∧ (catchUp h [m]).outs = (listenMsg h m).outs ∧
    (catchUp h [m]).pubs = (listenMsg h m).pubs := by
  simp [catchUp]

/-- a drain pass from a cluster whose hosts have all consumed `A`, the channel being `A ++ P`, when
    applying `P` publishes nothing -/
theorem drain_full (c1 : Cluster) (A P : List Msg) (hc : c1.chan = A ++ P)
    (hcur : ∀ h ∈ c1.hosts, h.cursor = A.length)
    (hq : ∀ h ∈ c1.hosts, (catchUp h P).pubs = []) :
    (step c1 .drain).1.hosts = c1.hosts.map (fun h => { (catchUp h P).h with cursor := A.length + P.length }) ∧
    (step c1 .drain).1.chan = A ++ P ∧
    (step c1 .drain).1.asked = c1.asked ++ askedIn (c1.hosts.flatMap (fun h => (catchUp h P).outs)) ∧
    (step c1 .drain).2 = c1.hosts.flatMap (fun h => (catchUp h P).outs) ∧
    (step c1 .drain).1.wo = c1.wo := by
  have hdq := drainHosts_quiet A P c1.hosts hcur hq
  have hd : step c1 .drain =
      ({ c1 with hosts := (drainHosts c1.chan c1.hosts).1, chan := (drainHosts c1.chan c1.hosts).2.2,
                 asked := c1.asked ++ askedIn (drainHosts c1.chan c1.hosts).2.1 },
        (drainHosts c1.chan c1.hosts).2.1) := rfl
  rw [hd, hc, hdq]
  exact ⟨rfl, rfl, rfl, rfl, rfl⟩

/-- An API call that leaves the callback tables alone and publishes nothing or one plain entry, on
    a drained cluster, then the drain: every host keeps its callback table, nobody's callback runs. -/
theorem cluster_frame (c : Cluster) (hnd : (c.hosts.map Host.id).Nodup)
    (hdr : ∀ h ∈ c.hosts, h.cursor = c.chan.length) (hv : Host) (hin : hv ∈ c.hosts) (f : Host → Res)
    (hfid : (f hv).h.id = hv.id)
    (hcur : ∀ h ∈ c.hosts, (f h).h.cursor = h.cursor)
    (ha : (f hv).h.cbs = hv.cbs ∧ (f hv).h.ctr = hv.ctr)
    (hb : cbEvents (f hv).outs = [])
    (hP : (f hv).pubs = [] ∨ ∃ m, (f hv).pubs = [m] ∧ m.plain) :
    ∃ G : Host → Host, (step (c.on hv.id f).1 .drain).1.hosts = c.hosts.map G ∧
      (∀ h ∈ c.hosts, (G h).id = h.id ∧ (G h).cbs = h.cbs ∧ (G h).ctr = h.ctr) ∧
      (∀ h ∈ (step (c.on hv.id f).1 .drain).1.hosts,
        h.cursor = (step (c.on hv.id f).1 .drain).1.chan.length) ∧
      cbEvents ((c.on hv.id f).2 ++ (step (c.on hv.id f).1 .drain).2) = [] ∧
      (step (c.on hv.id f).1 .drain).1.asked =
        c.asked ++ askedIn ((c.on hv.id f).2 ++ (step (c.on hv.id f).1 .drain).2) := by
  have hsel : ∀ h ∈ c.hosts, (if h.id = hv.id then (f h).h else h).id = h.id ∧
      (if h.id = hv.id then (f h).h else h).cbs = h.cbs ∧
      (if h.id = hv.id then (f h).h else h).ctr = h.ctr := by
    intro h hh
    split
    · rename_i he
      have : h = hv := eq_of_id_eq hnd hh hin he
      subst this
      exact ⟨hfid, ha.1, ha.2⟩
    · exact ⟨rfl, rfl, rfl⟩
  rcases hP with hP | ⟨m, hP, hm⟩
  · obtain ⟨e1, e2, e3, e4, _⟩ := on_drain_full c hnd hdr hv hin f hcur (by intro h _; rw [hP]; rfl)
    rw [hP] at e1 e2 e3 e4
    refine ⟨_, e1, ?_, ?_, ?_, ?_⟩
    · intro h hh
      simp only [catchUp_nil]
      exact hsel h hh
    · intro h' hh'
      rw [e1] at hh'
      obtain ⟨h, _, rfl⟩ := List.mem_map.mp hh'
      rw [e2]
      simp
    · rw [e4, cbEvents_append, hb]
      exact cbEvents_flatMap_nil _ _ (fun _ _ => rfl)
    · rw [e3, e4]
  · have hq : ∀ h ∈ c.hosts, (catchUp (if h.id = hv.id then (f h).h else h) (f hv).pubs).pubs = [] := by
      intro h _
      rw [hP, (catchUp_one _ m).2.2]
      exact (listenMsg_plain _ m hm).2.2.2.2
    obtain ⟨e1, e2, e3, e4, _⟩ := on_drain_full c hnd hdr hv hin f hcur hq
    rw [hP] at e1 e2 e3 e4
    refine ⟨_, e1, ?_, ?_, ?_, ?_⟩
    · intro h hh
      have hp := listenMsg_plain (if h.id = hv.id then (f h).h else h) m hm
      simp only [(catchUp_one _ m).1]
      rw [hp.1, hp.2.1, hp.2.2.1]
      exact hsel h hh
    · intro h' hh'
      rw [e1] at hh'
      obtain ⟨h, _, rfl⟩ := List.mem_map.mp hh'
      rw [e2]
      simp
    · rw [e4, cbEvents_append, hb]
      refine cbEvents_flatMap_nil _ _ (fun h _ => ?_)
      rw [(catchUp_one _ m).2.1]
      exact (listenMsg_plain _ m hm).2.2.2.1
    · rw [e3, e4]

end Sio.PubSub
