/-
  Helper lemmas for K3 (rooms): every operation of the model is the pointwise update of the
  abstract specification (one lemma per operation).
-/
import Sio.Lemmas.Rooms
namespace Sio.Rooms

theorem opt_ext {α : Type} {a b : Option α} (h : ∀ x, a = some x ↔ b = some x) : a = b := by
  cases a with
  | none =>
    cases b with
    | none => rfl
    | some y => exact absurd ((h y).mpr rfl) (by simp)
  | some x => exact ((h x).mp rfl).symm

theorem Spec.ext' {σ τ : Spec} (h1 : ∀ n r x, σ.member n r x = τ.member n r x)
    (h2 : ∀ n x, σ.conn n x = τ.conn n x) (h3 : ∀ n e, σ.owner n e = τ.owner n e) : σ = τ := by
  cases σ; cases τ
  simp only [Spec.mk.injEq]
  exact ⟨funext fun n => funext fun r => funext fun x => h1 n r x,
         funext fun n => funext fun x => h2 n x, funext fun n => funext fun e => h3 n e⟩

/-! membership in the state after each operation -/

theorem mem_connect {s s' : St} {ns : Ns} {eio : Eio} {sid : Sid}
    (hc : connect s ns eio sid = some s') (x : Entry) :
    x ∈ s' ↔ x ∈ s ∨ x = ⟨ns, none, sid, eio⟩ ∨ x = ⟨ns, some sid, sid, eio⟩ := by
  unfold connect at hc
  split at hc
  · cases hc
  · cases hc; simp only [mem_add, or_assoc]

theorem connect_eq_none_iff {s : St} {ns : Ns} {eio : Eio} {sid : Sid} :
    connect s ns eio sid = none ↔ (sidOf s ns eio).isSome = true := by
  unfold connect
  split <;> simp_all

theorem mem_enter {s s' : St} {ns : Ns} {sid : Sid} {room : Room}
    (he : enter s ns sid room = .ok s') :
    ∃ eio, eioOf s ns sid = some eio ∧ ∀ x, x ∈ s' ↔ x ∈ s ∨ x = ⟨ns, some room, sid, eio⟩ := by
  unfold enter at he
  split at he
  · cases he
  · split at he
    · cases he
    · rename_i eio hq
      cases he
      exact ⟨eio, hq, fun x => mem_add⟩

theorem enter_ok_iff {s : St} {ns : Ns} {sid : Sid} {room : Room} :
    (∃ s', enter s ns sid room = .ok s') ↔ (eioOf s ns sid).isSome = true := by
  unfold enter
  constructor
  · rintro ⟨s', he⟩
    split at he
    · cases he
    · split at he
      · cases he
      · rename_i eio hq; simp [hq]
  · intro h
    obtain ⟨eio, hq⟩ := Option.isSome_iff_exists.mp h
    have : hasNs s ns = true := hasNs_iff.mpr ⟨_, eioOf_some_mem hq, rfl⟩
    simp [this, hq]

/-! the three components of `abs`, as statements about membership (under the invariant) -/

theorem abs_member {s : St} {n : Ns} {r : Option Room} {x : Sid} :
    (abs s).member n r x = true ↔ ∃ e, (⟨n, r, x, e⟩ : Entry) ∈ s := isMember_iff

theorem Inv.abs_conn {s : St} (h : Inv s) {n : Ns} {x : Sid} {e : Eio} :
    (abs s).conn n x = some e ↔ (⟨n, none, x, e⟩ : Entry) ∈ s := h.eioOf_iff

theorem Inv.abs_owner {s : St} (h : Inv s) {n : Ns} {x : Sid} {e : Eio} :
    (abs s).owner n e = some x ↔ (⟨n, none, x, e⟩ : Entry) ∈ s := h.sidOf_iff

theorem refines_leave {s : St} (h : Inv s) (ns : Ns) (sid : Sid) (room : Room) :
    abs (apply s (.leave ns sid room)) = (abs s).apply (.leave ns sid room) := by
  have h' : Inv (leave s ns sid (some room)) := h.leave ns sid room
  have hm : ∀ x, x ∈ leave s ns sid (some room) ↔
      x ∈ s ∧ ¬(x.ns = ns ∧ x.room = some room ∧ x.sid = sid) := by
    intro x; simp only [leave, List.mem_filter, Bool.not_eq_true', decide_eq_false_iff_not]
  apply Spec.ext'
  · intro n r x
    rw [Bool.eq_iff_iff, apply, abs_member]
    simp only [Spec.apply]
    split
    · rename_i hc
      obtain ⟨rfl, rfl, rfl⟩ := hc
      simp [hm]
    · rename_i hc
      rw [abs_member]
      simp only [hm]
      constructor
      · rintro ⟨e, he, _⟩; exact ⟨e, he⟩
      · rintro ⟨e, he⟩; exact ⟨e, he, fun ⟨a, b, c⟩ => hc ⟨a, b, c⟩⟩
  · intro n x
    apply opt_ext; intro e
    rw [apply, h'.abs_conn]
    simp only [Spec.apply]
    rw [h.abs_conn, hm]; simp
  · intro n e
    apply opt_ext; intro x
    rw [apply, h'.abs_owner]
    simp only [Spec.apply]
    rw [h.abs_owner, hm]; simp

theorem refines_closeRoom {s : St} (h : Inv s) (ns : Ns) (room : Room) :
    abs (apply s (.closeRoom ns room)) = (abs s).apply (.closeRoom ns room) := by
  have h' : Inv (closeRoom s ns room) := h.closeRoom ns room
  have hm : ∀ x, x ∈ closeRoom s ns room ↔ x ∈ s ∧ ¬(x.ns = ns ∧ x.room = some room) := by
    intro x; simp only [closeRoom, List.mem_filter, Bool.not_eq_true', decide_eq_false_iff_not]
  apply Spec.ext'
  · intro n r x
    rw [Bool.eq_iff_iff, apply, abs_member]
    simp only [Spec.apply]
    split
    · rename_i hc
      obtain ⟨rfl, rfl⟩ := hc
      simp [hm]
    · rename_i hc
      rw [abs_member]
      simp only [hm]
      constructor
      · rintro ⟨e, he, _⟩; exact ⟨e, he⟩
      · rintro ⟨e, he⟩; exact ⟨e, he, fun ⟨a, b⟩ => hc ⟨a, b⟩⟩
  · intro n x
    apply opt_ext; intro e
    rw [apply, h'.abs_conn]
    simp only [Spec.apply]
    rw [h.abs_conn, hm]; simp
  · intro n e
    apply opt_ext; intro x
    rw [apply, h'.abs_owner]
    simp only [Spec.apply]
    rw [h.abs_owner, hm]; simp

theorem refines_disconnect {s : St} (h : Inv s) (ns : Ns) (sid : Sid) :
    abs (apply s (.disconnect ns sid)) = (abs s).apply (.disconnect ns sid) := by
  have h' : Inv (disconnect s ns sid) := h.disconnect ns sid
  have hm : ∀ x, x ∈ disconnect s ns sid ↔ x ∈ s ∧ ¬(x.ns = ns ∧ x.sid = sid) := by
    intro x; simp only [disconnect, List.mem_filter, Bool.not_eq_true', decide_eq_false_iff_not]
  apply Spec.ext'
  · intro n r x
    rw [Bool.eq_iff_iff, apply, abs_member]
    simp only [Spec.apply]
    split
    · rename_i hc
      obtain ⟨rfl, rfl⟩ := hc
      simp [hm]
    · rename_i hc
      rw [abs_member]
      simp only [hm]
      constructor
      · rintro ⟨e, he, _⟩; exact ⟨e, he⟩
      · rintro ⟨e, he⟩; exact ⟨e, he, fun ⟨a, b⟩ => hc ⟨a, b⟩⟩
  · intro n x
    apply opt_ext; intro e
    rw [apply, h'.abs_conn]
    simp only [Spec.apply]
    split
    · rename_i hc
      obtain ⟨rfl, rfl⟩ := hc
      simp [hm]
    · rename_i hc
      rw [h.abs_conn, hm]
      exact ⟨fun hx => hx.1, fun hx => ⟨hx, fun ⟨a, b⟩ => hc ⟨a, b⟩⟩⟩
  · intro n e
    apply opt_ext; intro x
    rw [apply, h'.abs_owner]
    simp only [Spec.apply]
    split
    · rename_i hc
      obtain ⟨rfl, hq⟩ := hc
      have hq' := h.abs_conn.mp hq
      simp only [hm, reduceCtorEq, iff_false, not_and]
      intro hx hne
      have := h.eioSid _ hx _ hq' rfl rfl
      exact hne trivial this
    · rename_i hc
      rw [h.abs_owner, hm]
      refine ⟨fun hx => hx.1, fun hx => ⟨hx, ?_⟩⟩
      rintro ⟨rfl, rfl⟩
      exact hc ⟨rfl, h.abs_conn.mpr hx⟩

theorem refines_lost {s : St} (h : Inv s) (eio : Eio) :
    abs (apply s (.lost eio)) = (abs s).apply (.lost eio) := by
  have h' : Inv (lost s eio) := h.lost eio
  have hm : ∀ x, x ∈ lost s eio ↔ x ∈ s ∧ ¬(sidOf s x.ns eio = some x.sid) := by
    intro x
    simp only [lost, List.mem_filter, Bool.not_eq_true', beq_eq_false_iff_ne, ne_eq]
  apply Spec.ext'
  · intro n r x
    rw [Bool.eq_iff_iff, apply, abs_member]
    simp only [Spec.apply]
    split
    · rename_i hc
      have hc' : sidOf s n eio = some x := hc
      simp [hm, hc']
    · rename_i hc
      have hc' : ¬ sidOf s n eio = some x := hc
      rw [abs_member]
      simp only [hm]
      constructor
      · rintro ⟨e, he, _⟩; exact ⟨e, he⟩
      · rintro ⟨e, he⟩; exact ⟨e, he, hc'⟩
  · intro n x
    apply opt_ext; intro e
    rw [apply, h'.abs_conn]
    simp only [Spec.apply]
    split
    · rename_i hc
      have hc' : sidOf s n eio = some x := hc
      simp [hm, hc']
    · rename_i hc
      have hc' : ¬ sidOf s n eio = some x := hc
      rw [h.abs_conn, hm]
      exact ⟨fun hx => hx.1, fun hx => ⟨hx, hc'⟩⟩
  · intro n e
    apply opt_ext; intro x
    rw [apply, h'.abs_owner]
    simp only [Spec.apply]
    split
    · rename_i hc
      subst hc
      simp only [hm, reduceCtorEq, iff_false, not_and, Classical.not_not]
      intro hx
      exact h.sidOf_iff.mpr hx
    · rename_i hc
      rw [h.abs_owner, hm]
      refine ⟨fun hx => hx.1, fun hx => ⟨hx, ?_⟩⟩
      intro hq
      have := h.sidEio _ (h.sidOf_iff.mp hq) _ hx rfl rfl
      exact hc this.symm

theorem refines_enter {s : St} (h : Inv s) (ns : Ns) (sid : Sid) (room : Room) :
    abs (apply s (.enter ns sid room)) = (abs s).apply (.enter ns sid room) := by
  cases he : enter s ns sid room with
  | error err =>
    have hn : (eioOf s ns sid).isSome = false := by
      cases hq : (eioOf s ns sid).isSome with
      | false => rfl
      | true =>
        obtain ⟨s', hs'⟩ := enter_ok_iff.mpr hq
        rw [he] at hs'; cases hs'
    have hn' : ((abs s).conn ns sid).isSome = false := hn
    simp only [apply, he, Spec.apply, hn']
    rfl
  | ok s' =>
    have h' : Inv s' := h.enter he
    obtain ⟨eio, hq, hm⟩ := mem_enter he
    have hn' : ((abs s).conn ns sid).isSome = true := by
      show (eioOf s ns sid).isSome = true
      rw [hq]; rfl
    simp only [apply, he, Spec.apply, hn', if_true]
    apply Spec.ext'
    · intro n r x
      rw [Bool.eq_iff_iff, abs_member]
      simp only
      split
      · rename_i hc
        obtain ⟨rfl, rfl, rfl⟩ := hc
        simp only [iff_true]
        exact ⟨eio, (hm _).mpr (Or.inr rfl)⟩
      · rename_i hc
        rw [abs_member]
        constructor
        · rintro ⟨e, he⟩
          rcases (hm _).mp he with he | he
          · exact ⟨e, he⟩
          · simp only [Entry.mk.injEq] at he
            exact absurd ⟨he.1, he.2.1, he.2.2.1⟩ hc
        · rintro ⟨e, he⟩; exact ⟨e, (hm _).mpr (Or.inl he)⟩
    · intro n x
      apply opt_ext; intro e
      rw [h'.abs_conn, h.abs_conn, hm]
      simp
    · intro n e
      apply opt_ext; intro x
      rw [h'.abs_owner, h.abs_owner, hm]
      simp

theorem refines_connect {s : St} (h : Inv s) (ns : Ns) (eio : Eio) (sid : Sid) :
    abs (apply s (.connect ns eio sid)) = (abs s).apply (.connect ns eio sid) := by
  cases hfr : (eioOf s ns sid).isSome with
  | true =>
    have hfr' : ((abs s).conn ns sid).isSome = true := hfr
    simp only [apply, hfr, Spec.apply, hfr', Bool.or_true, if_true]
  | false =>
    have hfr' : ((abs s).conn ns sid).isSome = false := hfr
    have hfresh : eioOf s ns sid = none := by simpa using hfr
    cases hc : connect s ns eio sid with
    | none =>
      have ho : ((abs s).owner ns eio).isSome = true := connect_eq_none_iff.mp hc
      simp [apply, hfr, hc, Spec.apply, ho]
    | some s' =>
      have ho : ((abs s).owner ns eio).isSome = false := by
        cases hq : ((abs s).owner ns eio).isSome with
        | false => rfl
        | true => rw [connect_eq_none_iff.mpr hq] at hc; cases hc
      have hown : sidOf s ns eio = none := by
        have : (sidOf s ns eio).isSome = false := ho
        simpa using this
      have h' : Inv s' := h.connect hfresh hc
      have hm := mem_connect hc
      simp only [apply, hfr, hc, Spec.apply, hfr', ho, Bool.or_self, Bool.false_eq_true, if_false,
        Option.getD_some]
      apply Spec.ext'
      · intro n r x
        rw [Bool.eq_iff_iff, abs_member]
        simp only
        split
        · rename_i hcnd
          obtain ⟨rfl, rfl, hr⟩ := hcnd
          simp only [iff_true]
          rcases hr with rfl | rfl
          · exact ⟨eio, (hm _).mpr (Or.inr (Or.inl rfl))⟩
          · exact ⟨eio, (hm _).mpr (Or.inr (Or.inr rfl))⟩
        · rename_i hcnd
          rw [abs_member]
          constructor
          · rintro ⟨e, he⟩
            rcases (hm _).mp he with he | he | he
            · exact ⟨e, he⟩
            · simp only [Entry.mk.injEq] at he
              exact absurd ⟨he.1, he.2.2.1, Or.inl he.2.1⟩ hcnd
            · simp only [Entry.mk.injEq] at he
              exact absurd ⟨he.1, he.2.2.1, Or.inr he.2.1⟩ hcnd
          · rintro ⟨e, he⟩; exact ⟨e, (hm _).mpr (Or.inl he)⟩
      · intro n x
        apply opt_ext; intro e
        rw [h'.abs_conn, hm]
        simp only
        split
        · rename_i hcnd
          obtain ⟨rfl, rfl⟩ := hcnd
          have := eioOf_none_iff.mp hfresh e
          simp only [this, Entry.mk.injEq, true_and, reduceCtorEq, false_and, or_false, false_or,
            Option.some.injEq]
          exact eq_comm
        · rename_i hcnd
          rw [h.abs_conn]
          simp only [Entry.mk.injEq, true_and, reduceCtorEq, false_and, and_false, or_false]
          exact ⟨fun hx => hx.elim id (fun hx => absurd ⟨hx.1, hx.2.1⟩ hcnd), Or.inl⟩
      · intro n e
        apply opt_ext; intro x
        rw [h'.abs_owner, hm]
        simp only
        split
        · rename_i hcnd
          obtain ⟨rfl, rfl⟩ := hcnd
          have := sidOf_none_iff.mp hown x
          simp only [this, Entry.mk.injEq, true_and, reduceCtorEq, false_and, or_false, false_or,
            Option.some.injEq, and_true]
          exact eq_comm
        · rename_i hcnd
          rw [h.abs_owner]
          simp only [Entry.mk.injEq, true_and, reduceCtorEq, false_and, and_false, or_false]
          exact ⟨fun hx => hx.elim id (fun hx => absurd ⟨hx.1, hx.2.2⟩ hcnd), Or.inl⟩

theorem refines_op {s : St} (h : Inv s) (op : Op) : abs (apply s op) = (abs s).apply op := by
  cases op with
  | connect ns eio sid => exact refines_connect h ns eio sid
  | enter ns sid room => exact refines_enter h ns sid room
  | leave ns sid room => exact refines_leave h ns sid room
  | closeRoom ns room => exact refines_closeRoom h ns room
  | disconnect ns sid => exact refines_disconnect h ns sid
  | lost eio => exact refines_lost h eio

theorem abs_nil : abs [] = Spec.init := rfl

end Sio.Rooms
