/-
  K4 — user sessions (property C16): `sessGet` / `sessSet` algebra, which inputs touch sessions.
-/
import Sio.Lemmas.ServerOnce
namespace Sio.Server
open Sio.Rooms

theorem sessGet_sessSet_same (s : Srv) (t : Eio) (ns : Ns) (v : J) :
    sessGet (sessSet s t ns v) t ns = some v := by
  unfold sessSet
  split
  · rename_i h
    unfold sessGet
    simp only
    have : ∀ l : List (Eio × Ns × J), l.any (fun e => e.1 = t ∧ e.2.1 = ns) = true →
        (l.map (fun e => if e.1 = t ∧ e.2.1 = ns then (t, ns, v) else e)).find?
          (fun e => e.1 = t ∧ e.2.1 = ns) = some (t, ns, v) := by
      intro l
      induction l with
      | nil => intro h; simp at h
      | cons a l ih =>
        intro h
        simp only [List.map_cons, List.find?_cons]
        by_cases ha : a.1 = t ∧ a.2.1 = ns
        · simp [ha]
        · simp only [ha, if_false, decide_false]
          simp only [List.any_cons, ha, decide_false, Bool.false_or] at h
          exact ih h
    rw [this _ h]; rfl
  · rename_i h
    unfold sessGet
    simp only
    rw [List.find?_append]
    have : s.sess.find? (fun e => e.1 = t ∧ e.2.1 = ns) = none := by
      rw [List.find?_eq_none]
      intro e he hc
      exact h (List.any_eq_true.mpr ⟨e, he, hc⟩)
    rw [this]; simp

theorem find_map_other (l : List (Eio × Ns × J)) {t t' : Eio} {ns ns' : Ns} (v : J)
    (hne : ¬ (t' = t ∧ ns' = ns)) :
    (l.map (fun e => if e.1 = t ∧ e.2.1 = ns then (t, ns, v) else e)).find?
        (fun e => e.1 = t' ∧ e.2.1 = ns') =
      l.find? (fun e => e.1 = t' ∧ e.2.1 = ns') := by
  have h2 : ¬ (t = t' ∧ ns = ns') := fun ⟨a, b⟩ => hne ⟨a.symm, b.symm⟩
  induction l with
  | nil => rfl
  | cons a l ih =>
    rw [List.map_cons, List.find?_cons, List.find?_cons, ih]
    by_cases ha : a.1 = t ∧ a.2.1 = ns
    · have h1 : ¬ (a.1 = t' ∧ a.2.1 = ns') := by
        rintro ⟨h1, h3⟩
        exact hne ⟨h1.symm.trans ha.1, h3.symm.trans ha.2⟩
      rw [if_pos ha]
      have e1 : decide ((t, ns, v).1 = t' ∧ (t, ns, v).2.1 = ns') = false := decide_eq_false h2
      have e2 : decide (a.1 = t' ∧ a.2.1 = ns') = false := decide_eq_false h1
      rw [e1, e2]
    · rw [if_neg ha]

theorem sessGet_sessSet_other (s : Srv) {t t' : Eio} {ns ns' : Ns} (v : J)
    (hne : ¬ (t' = t ∧ ns' = ns)) : sessGet (sessSet s t ns v) t' ns' = sessGet s t' ns' := by
  unfold sessSet
  split
  · unfold sessGet
    simp only
    rw [find_map_other _ v hne]
  · unfold sessGet
    simp only
    rw [List.find?_append]
    have h2 : ¬ (t = t' ∧ ns = ns') := fun ⟨a, b⟩ => hne ⟨a.symm, b.symm⟩
    cases hf : s.sess.find? (fun e => e.1 = t' ∧ e.2.1 = ns') with
    | none => simp [h2]
    | some x => simp

theorem sessSet_sessSet (s : Srv) (t : Eio) (ns : Ns) (v w : J)
    (h : sessGet s t ns = none) :
    sessSet (sessSet s t ns v) t ns w = sessSet s t ns w := by
  have hno : ∀ e ∈ s.sess, ¬ (e.1 = t ∧ e.2.1 = ns) := by
    intro e he hp
    unfold sessGet at h
    simp only [Option.map_eq_none_iff] at h
    have := List.find?_eq_none.mp h e he
    simp [hp.1, hp.2] at this
  have hnone : s.sess.any (fun e => e.1 = t ∧ e.2.1 = ns) = false := by
    rw [Bool.eq_false_iff]
    intro hc
    obtain ⟨e, he, hp⟩ := List.any_eq_true.mp hc
    exact hno e he (by simpa using hp)
  have hid : s.sess.map (fun e => if e.1 = t ∧ e.2.1 = ns then (t, ns, w) else e) = s.sess := by
    rw [List.map_congr_left (g := id)]
    · simp
    · intro e he
      simp [hno e he]
  have h1 : sessSet s t ns v = { s with sess := s.sess ++ [(t, ns, v)] } := by
    unfold sessSet; rw [hnone]; rfl
  have h2 : sessSet s t ns w = { s with sess := s.sess ++ [(t, ns, w)] } := by
    unfold sessSet; rw [hnone]; rfl
  rw [h1, h2]
  unfold sessSet
  have hany : (s.sess ++ [(t, ns, v)]).any (fun e => e.1 = t ∧ e.2.1 = ns) = true := by simp
  simp only [hany, if_true, List.map_append, hid, List.map_cons, List.map_nil, and_self]

/-- the inputs that can touch the session store -/
def touchesSess : Input → Bool
  | .getSession _ _ | .saveSession _ _ _ | .sessionBlock _ _ _ _ | .eioLost _ _ | .call _ _ _ _ _ => true
  | _ => false

theorem lostGo_sess {s : Srv} (cfg : Cfg) (t : Eio) (reason : Str) (outs : List Out)
    (nss : List Ns) : (handleLost.go cfg t reason s outs nss).1.sess = s.sess := by
  induction nss generalizing s outs with
  | nil => rfl
  | cons ns rest ih =>
    unfold handleLost.go
    rw [ih]
    rcases handleDisconnect_state cfg s t ns reason with ⟨h1, _⟩ | ⟨sid, k, _, _, h1⟩ <;>
      rw [h1] <;> rfl

/-- every other input leaves all stored sessions exactly as they are — in particular a
    namespace-level disconnect (client DISCONNECT or `disconnect()`) does -/
theorem sess_untouched {dec : Str → Except Err (Packet × Nat)} {cfg : Cfg} {s : Srv} (h : WF s)
    {i : Input} (hi : touchesSess i = false) : (step dec cfg s i).1.sess = s.sess := by
  cases i with
  | eioConnect t => rw [step]
  | frame t v => rw [step]; exact (bound_handleFrame h dec cfg t v).sess
  | eioLost t r => simp [touchesSess] at hi
  | emit ev d ns to skip cb => rw [step]; exact (emit_keeps ..).sess
  | call ev d ns sid during => simp [touchesSess] at hi
  | apiDisconnect sid ns =>
    rw [step]; unfold apiDisconnect
    split
    · rfl
    · obtain ⟨k, hk⟩ := endSession_state cfg s sid ns "server disconnect".toList true
      rw [hk]; rfl
  | enterRoom sid ns room => rw [step]; split <;> rfl
  | leaveRoom sid ns room => rw [step]
  | closeRoom ns room => rw [step]
  | rooms sid ns => rw [step]
  | getSession sid ns => simp [touchesSess] at hi
  | saveSession sid ns v => simp [touchesSess] at hi
  | sessionBlock sid ns k v => simp [touchesSess] at hi
  | settle => rw [step]; exact (core_fields (drain_core cfg _ [] s.bg)).sess

/-- two different (session id, namespace) pairs never share a session slot -/
theorem sessSock_inj {s : Srv} (h : WF s) {sid sid' : Sid} {ns ns' : Ns} {t t' : Eio}
    (h1 : sessSock s sid ns = some t) (h2 : sessSock s sid' ns' = some t')
    (hne : ¬ (sid' = sid ∧ ns' = ns)) : ¬ (t' = t ∧ ns' = ns) := by
  rintro ⟨rfl, rfl⟩
  apply hne
  refine ⟨?_, rfl⟩
  have e1 : eioOf s.rooms ns' sid = some t' := by
    unfold sessSock at h1
    split at h1
    · rename_i t0 ht0; split at h1 <;> cases h1; exact ht0
    · cases h1
  have e2 : eioOf s.rooms ns' sid' = some t' := by
    unfold sessSock at h2
    split at h2
    · rename_i t0 ht0; split at h2 <;> cases h2; exact ht0
    · cases h2
  have := h.rooms.eioSid _ (eioOf_some_mem e2) _ (eioOf_some_mem e1) rfl rfl
  exact this

theorem sessSock_sessSet (s : Srv) (t : Eio) (ns : Ns) (v : J) (sid' : Sid) (ns' : Ns) :
    sessSock (sessSet s t ns v) sid' ns' = sessSock s sid' ns' := by
  obtain ⟨a, _, c⟩ := sessSet_keeps s t ns v
  unfold sessSock
  rw [a, c]

end Sio.Server
