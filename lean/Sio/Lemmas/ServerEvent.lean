/-
  K4 — incoming events (property C05): the connected gate, the one invocation, the ACK, binary
  reassembly, and the concatenation law of `run`.
-/
import Sio.Lemmas.ServerAck
namespace Sio.Server
open Sio.Rooms

/-- under the invariant "the transport has a session on the namespace" is "connected" -/
theorem isConnected_of_sidOf {s : Srv} (h : WF s) {ns : Ns} {t : Eio} {sid : Sid}
    (hs : sidOf s.rooms ns t = some sid) : isConnected s sid ns = true := by
  unfold isConnected
  rw [h.pendingNil, sidOf_eioOf h.rooms hs]
  rfl

/-- the ACK `_handle_event_internal` sends for return value `d` -/
def ackFor (s : Srv) (t : Eio) (ns : Ns) (id : Option Nat) (d : Data) : List Out :=
  match id with
  | some i => sendTo s (some t) (mkOut ACK ns (some i) d.pack)
  | none => []

/-- an event from a transport that is connected to the namespace reaches `_handle_event_internal`
    (inline handlers) or the queue of background handlers -/
theorem handleEvent_connected {s : Srv} (h : WF s) (cfg : Cfg) {t : Eio} {nsp : Option Str}
    {sid : Sid} (id : Option Nat) {data : Option J} {first : J} {rest : List J}
    (hs : sidOf s.rooms (nsp.getD ['/']) t = some sid) (hd : splitEvent data = .ok (first, rest)) :
    handleEvent cfg s t nsp id data =
      if cfg.asyncHandlers then
        ({ s with bg := s.bg ++ [⟨sid, t, first, rest, nsp.getD ['/'], id⟩] }, [])
      else runHandler cfg s ⟨sid, t, first, rest, nsp.getD ['/'], id⟩ := by
  unfold handleEvent
  dsimp only
  rw [hd]
  dsimp only
  rw [hs]
  dsimp only
  rw [isConnected_of_sidOf h hs]
  rfl

/-- an event on a namespace the transport is not connected to: nothing at all -/
theorem handleEvent_not_connected (cfg : Cfg) {s : Srv} {t : Eio} {nsp : Option Str}
    (id : Option Nat) {data : Option J} {first : J} {rest : List J}
    (hs : sidOf s.rooms (nsp.getD ['/']) t = none) (hd : splitEvent data = .ok (first, rest)) :
    handleEvent cfg s t nsp id data = (s, []) := by
  unfold handleEvent
  dsimp only
  rw [hd]
  dsimp only
  rw [hs]

/-- `_handle_event_internal` when a handler (function or class method) is responsible -/
theorem runHandler_handled (cfg : Cfg) (s : Srv) (b : Bg) {slot : Slot} {a : List J}
    (hr : resolve cfg.reg b.ns b.first (.str b.sid :: b.rest) = .ok (.fn slot a) ∨
          resolve cfg.reg b.ns b.first (.str b.sid :: b.rest) = .ok (.clsCall slot a)) :
    runHandler cfg s b =
      ({ s with nEv := s.nEv + 1 },
        match cfg.script.onEvent s.nEv with
        | .ret d => .invoke slot a :: ackFor { s with nEv := s.nEv + 1 } b.eio b.ns b.id d
        | .raise => [.invoke slot a, .raised .other]) := by
  unfold runHandler
  rcases hr with hr | hr <;> rw [hr] <;> dsimp only <;> cases cfg.script.onEvent s.nEv <;> rfl

theorem runHandler_noMethod (cfg : Cfg) (s : Srv) (b : Bg)
    (hr : resolve cfg.reg b.ns b.first (.str b.sid :: b.rest) = .ok .clsNoMethod) :
    runHandler cfg s b = (s, ackFor s b.eio b.ns b.id .none) := by
  unfold runHandler; rw [hr]; rfl

theorem runHandler_notHandled (cfg : Cfg) (s : Srv) (b : Bg)
    (hr : resolve cfg.reg b.ns b.first (.str b.sid :: b.rest) = .ok .notHandled) :
    runHandler cfg s b = (s, []) := by
  unfold runHandler; rw [hr]

theorem runHandler_error (cfg : Cfg) (s : Srv) (b : Bg) {e : Err}
    (hr : resolve cfg.reg b.ns b.first (.str b.sid :: b.rest) = .error e) :
    runHandler cfg s b = (s, [.raised e]) := by
  unfold runHandler; rw [hr]

/-! ### counting outputs -/

def Out.isInvoke : Out → Bool
  | .invoke _ _ => true
  | _ => false

def Out.isSend : Out → Bool
  | .send _ _ => true
  | _ => false

theorem sendTo_open {s : Srv} {t : Eio} (ht : t ∈ s.socks) (p : Packet) :
    sendTo s (some t) p = [.send t p] := by
  unfold sendTo
  simp [ht]

theorem sendTo_isInvoke (s : Srv) (t : Option Eio) (p : Packet) :
    (sendTo s t p).filter Out.isInvoke = [] := by
  rw [List.filter_eq_nil_iff]
  intro o ho
  obtain ⟨_, _, _, rfl⟩ := mem_sendTo ho
  simp [Out.isInvoke]

theorem ackFor_isInvoke (s : Srv) (t : Eio) (ns : Ns) (id : Option Nat) (d : Data) :
    (ackFor s t ns id d).filter Out.isInvoke = [] := by
  unfold ackFor; split
  · exact sendTo_isInvoke ..
  · rfl

/-! ### the concatenation law -/

theorem run_append (dec : Str → Except Err (Packet × Nat)) (cfg : Cfg) (s : Srv)
    (is js : List Input) :
    run dec cfg s (is ++ js) =
      ((run dec cfg (run dec cfg s is).1 js).1,
        (run dec cfg s is).2 ++ (run dec cfg (run dec cfg s is).1 js).2) := by
  induction is generalizing s with
  | nil => simp [run_nil]
  | cons i is ih =>
    rw [List.cons_append, run_cons, ih, run_cons]
    simp [List.append_assoc]

/-- the outputs of the steps of a history, one list per input -/
def trace (dec : Str → Except Err (Packet × Nat)) (cfg : Cfg) (s : Srv) : List Input → List (List Out)
  | [] => []
  | i :: is => (step dec cfg s i).2 :: trace dec cfg (step dec cfg s i).1 is

theorem run_outs_eq_trace (dec : Str → Except Err (Packet × Nat)) (cfg : Cfg) (s : Srv)
    (is : List Input) : (run dec cfg s is).2 = (trace dec cfg s is).flatten := by
  induction is generalizing s with
  | nil => simp [run_nil, trace]
  | cons i is ih => rw [run_cons, trace, List.flatten_cons, ih]

/-! ### binary reassembly -/

theorem find_setBin (b : List (Eio × Partial)) (t : Eio) (p : Partial)
    (h : (b.find? (fun e => e.1 = t)).isSome) :
    (setBin b t p).find? (fun e => e.1 = t) = some (t, p) := by
  induction b with
  | nil => simp at h
  | cons a b ih =>
    unfold setBin
    simp only [List.map_cons, List.find?_cons]
    by_cases ha : a.1 = t
    · simp [ha]
    · simp only [ha, if_false, decide_false]
      simp only [List.find?_cons, ha, decide_false] at h
      exact ih h

theorem find_push {b : List (Eio × Partial)} {t : Eio} (h : b.find? (fun e => e.1 = t) = none)
    (p : Partial) : (b ++ [(t, p)]).find? (fun e => e.1 = t) = some (t, p) := by
  rw [List.find?_append, h]; simp

theorem filter_setBin (b : List (Eio × Partial)) (t : Eio) (p : Partial) :
    (setBin b t p).filter (fun e => e.1 != t) = b.filter (fun e => e.1 != t) := by
  induction b with
  | nil => rfl
  | cons a b ih =>
    unfold setBin at ih ⊢
    simp only [List.map_cons, List.filter_cons]
    by_cases ha : a.1 = t
    · simp [ha, ih]
    · simp [ha, ih]

theorem filter_push {b : List (Eio × Partial)} {t : Eio} (h : b.find? (fun e => e.1 = t) = none)
    (p : Partial) : (b ++ [(t, p)]).filter (fun e => e.1 != t) = b := by
  rw [List.filter_append]
  have : b.filter (fun e => e.1 != t) = b := by
    rw [List.filter_eq_self]
    intro e he
    have := List.find?_eq_none.mp h e he
    simpa using this
  simp [this]

/-! ### the reassembly buffer is keyed by transport -/

theorem handleConnect_binbuf (cfg : Cfg) (s : Srv) (t : Eio) (nsp : Option Str) (data : Option J) :
    (handleConnect cfg s t nsp data).1.binbuf = s.binbuf := by
  rcases handleConnect_state cfg s t nsp data with h1 | ⟨rooms', k, _, _, h1 | ⟨p, _, h1⟩⟩ <;>
    rw [h1] <;> rfl

theorem handleDisconnect_binbuf (cfg : Cfg) (s : Srv) (t : Eio) (ns : Ns) (reason : Str) :
    (handleDisconnect cfg s t ns reason).1.binbuf = s.binbuf := by
  rcases handleDisconnect_state cfg s t ns reason with ⟨h1, _⟩ | ⟨sid, k, _, _, h1⟩ <;>
    rw [h1] <;> rfl

theorem handleAck_binbuf (s : Srv) (t : Eio) (nsp : Option Str) (id : Option Nat) (data : Option J) :
    (handleAck s t nsp id data).1.binbuf = s.binbuf := by
  rcases handleAck_state s t nsp id data with h1 | ⟨sid, i, tok, _, _, _, h1 | ⟨n, args, _, _, h1⟩⟩ <;>
    rw [h1] <;> rfl

theorem handleEvent_binbuf (cfg : Cfg) (s : Srv) (t : Eio) (nsp : Option Str) (id : Option Nat)
    (data : Option J) : (handleEvent cfg s t nsp id data).1.binbuf = s.binbuf :=
  (core_fields (handleEvent_core cfg s t nsp id data)).binbuf

theorem find_setBin_ne (b : List (Eio × Partial)) {t t' : Eio} (hne : t' ≠ t) (p : Partial) :
    (setBin b t' p).find? (fun e => e.1 = t) = b.find? (fun e => e.1 = t) := by
  induction b with
  | nil => rfl
  | cons a b ih =>
    unfold setBin at ih ⊢
    simp only [List.map_cons, List.find?_cons]
    by_cases ha : a.1 = t'
    · have : ¬ a.1 = t := fun h => hne (ha.symm.trans h)
      simp [ha, hne, ih]
    · simp only [ha, if_false]
      rw [ih]

theorem find_filter_ne (b : List (Eio × Partial)) {t t' : Eio} (hne : t' ≠ t) :
    (b.filter (fun e => e.1 != t')).find? (fun e => e.1 = t) = b.find? (fun e => e.1 = t) := by
  induction b with
  | nil => rfl
  | cons a b ih =>
    simp only [List.filter_cons]
    by_cases ha : a.1 = t'
    · have : ¬ a.1 = t := fun h => hne (ha.symm.trans h)
      rw [List.find?_cons]
      simp only [ha, bne_self_eq_false, Bool.false_eq_true, if_false]
      rw [ih]
      have h2 : decide (t' = t) = false := by simp [hne]
      simp [h2]
    · simp [ha, List.find?_cons, ih]

theorem find_push_ne (b : List (Eio × Partial)) {t t' : Eio} (hne : t' ≠ t) (p : Partial) :
    (b ++ [(t', p)]).find? (fun e => e.1 = t) = b.find? (fun e => e.1 = t) := by
  rw [List.find?_append]
  simp [hne]

theorem binbuf_other {dec : Str → Except Err (Packet × Nat)} {cfg : Cfg} {s : Srv}
    {t t' : Eio} (hne : t' ≠ t) (v : J) :
    (step dec cfg s (.frame t' v)).1.binbuf.find? (fun e => e.1 = t) =
      s.binbuf.find? (fun e => e.1 = t) := by
  rw [step]
  have key : ∀ r, FrameCase dec cfg s t' v r →
      r.1.binbuf.find? (fun e => e.1 = t) = s.binbuf.find? (fun e => e.1 = t) := by
    intro r hfc
    cases hfc with
    | tooMany _ _ => rfl
    | reconErr _ _ _ _ => exact find_setBin_ne _ hne _
    | binEvent _ _ _ _ _ => rw [handleEvent_binbuf]; exact find_filter_ne _ hne
    | binAck _ _ _ _ _ => rw [handleAck_binbuf]; exact find_filter_ne _ hne
    | more _ _ _ => exact find_setBin_ne _ hne _
    | undecodable _ _ => rfl
    | packet hf hd =>
      rename_i p natt
      have hdc := dispatchCase cfg s t' p natt
      generalize dispatchPacket cfg s t' p natt = r' at hdc
      cases hdc with
      | connect _ => rw [handleConnect_binbuf]
      | disconnect _ => rw [handleDisconnect_binbuf]
      | event _ => rw [handleEvent_binbuf]
      | ack _ => rw [handleAck_binbuf]
      | binHeader _ => exact find_push_ne _ hne _
      | other => rfl
  exact key _ (frameCase dec cfg s t' v)

/-! ### frames that complete an EVENT -/

variable {dec : Str → Except Err (Packet × Nat)} {cfg : Cfg}

/-- Frame `v` from transport `t` completes an EVENT `(nsp, id, data)` in state `s`: a text EVENT
    packet, or the last attachment of a BINARY_EVENT (then `data` is the reconstructed payload and
    the packet leaves the reassembly buffer: `s₀ = dropBin s t`). -/
inductive CompletesEvent (dec : Str → Except Err (Packet × Nat)) (s : Srv) (t : Eio) (v : J) :
    Option Str → Option Nat → Option J → Srv → Prop where
  | text {p : Packet} {n : Nat} : s.binbuf.find? (fun e => e.1 = t) = none →
      frameDecode dec v = .ok (p, n) → p.type = EVENT → CompletesEvent dec s t v p.nsp p.id p.data s
  | binary {t' : Eio} {part : Partial} {d : Option J} :
      s.binbuf.find? (fun e => e.1 = t) = some (t', part) → ¬ part.need ≤ part.got.length →
      part.need = (part.got ++ [v]).length → reconData part (part.got ++ [v]) = .ok d →
      part.pkt.type = BINARY_EVENT →
      CompletesEvent dec s t v part.pkt.nsp part.pkt.id d (dropBin s t)

theorem step_of_completesEvent {s s₀ : Srv} {t : Eio} {v : J} {nsp : Option Str} {id : Option Nat}
    {data : Option J} (h : CompletesEvent dec s t v nsp id data s₀) :
    step dec cfg s (.frame t v) = handleEvent cfg s₀ t nsp id data := by
  rw [step]
  cases h with
  | text hf hd ht =>
    rw [handleFrame_text dec cfg hf, hd]
    unfold dispatchPacket
    simp [ht, EVENT, CONNECT, DISCONNECT]
  | binary hf h1 h2 h3 h4 => rw [handleFrame_last dec cfg hf h1 h2 h3, if_pos h4]

theorem CompletesEvent.state {s s₀ : Srv} {t : Eio} {v : J} {nsp : Option Str} {id : Option Nat}
    {data : Option J} (h : CompletesEvent dec s t v nsp id data s₀) : s₀ = s ∨ s₀ = dropBin s t := by
  cases h with
  | text => exact Or.inl rfl
  | binary => exact Or.inr rfl

theorem CompletesEvent.wf {s s₀ : Srv} {t : Eio} {v : J} {nsp : Option Str} {id : Option Nat}
    {data : Option J} (h : CompletesEvent dec s t v nsp id data s₀) (hw : WF s) :
    WF s₀ ∧ s₀.rooms = s.rooms ∧ s₀.socks = s.socks := by
  cases h with
  | text => exact ⟨hw, rfl, rfl⟩
  | binary => exact ⟨⟨hw.toWF0.filterBin _, hw.pendingNil⟩, rfl, rfl⟩


end Sio.Server
