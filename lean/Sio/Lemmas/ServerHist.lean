/-
  K4 — facts about whole histories, each obtained by one case analysis over the primitive state
  changes (`Reach.preserve`): dead session ids stay dead, ack counters of a live session never
  decrease, `call()` bookkeeping.
-/
import Sio.Lemmas.ServerFrame
namespace Sio.Server
open Sio.Rooms

/-- what `core s' = core s` says, field by field -/
structure CoreEq (s' s : Srv) : Prop where
  rooms : s'.rooms = s.rooms
  pending : s'.pending = s.pending
  cbs : s'.cbs = s.cbs
  ctr : s'.ctr = s.ctr
  environ : s'.environ = s.environ
  binbuf : s'.binbuf = s.binbuf
  sess : s'.sess = s.sess
  socks : s'.socks = s.socks
  nextSid : s'.nextSid = s.nextSid
  nCall : s'.nCall = s.nCall
  callDone : s'.callDone = s.callDone

theorem core_fields {s' s : Srv} (h : core s' = core s) : CoreEq s' s :=
  ⟨show (core s').rooms = (core s).rooms from congrArg Srv.rooms h,
   show (core s').pending = (core s).pending from congrArg Srv.pending h,
   show (core s').cbs = (core s).cbs from congrArg Srv.cbs h,
   show (core s').ctr = (core s).ctr from congrArg Srv.ctr h,
   show (core s').environ = (core s).environ from congrArg Srv.environ h,
   show (core s').binbuf = (core s).binbuf from congrArg Srv.binbuf h,
   show (core s').sess = (core s).sess from congrArg Srv.sess h,
   show (core s').socks = (core s).socks from congrArg Srv.socks h,
   show (core s').nextSid = (core s).nextSid from congrArg Srv.nextSid h,
   show (core s').nCall = (core s).nCall from congrArg Srv.nCall h,
   show (core s').callDone = (core s).callDone from congrArg Srv.callDone h⟩

/-! ### a session id that is dead stays dead -/

/-- `sidName k` has been allocated and is not connected any more (or was refused) -/
def Dead (k : Nat) (s : Srv) : Prop := k < s.nextSid ∧ ¬ sidLive s.rooms (sidName k)

theorem sidLive_connected {s : Srv} {ns : Ns} {t : Eio} {rooms' : Rooms.St} {sid : Sid}
    (hc : Rooms.connect s.rooms ns t (sidName s.nextSid) = some rooms') (hl : sidLive rooms' sid) :
    sidLive s.rooms sid ∨ sid = sidName s.nextSid := by
  obtain ⟨n, e, he⟩ := hl
  rcases (mem_connect hc _).mp he with h1 | h1 | h1
  · exact Or.inl ⟨n, e, h1⟩
  · right; exact (Entry.mk.inj h1).2.2.1
  · cases (Entry.mk.inj h1).2.1

theorem sidLive_disconnect_imp {r : Rooms.St} {ns : Ns} {sid sid' : Sid}
    (hl : sidLive (Rooms.disconnect r ns sid) sid') : sidLive r sid' := by
  obtain ⟨n, e, he⟩ := hl
  exact ⟨n, e, (List.mem_filter.mp he).1⟩

/-- after `basic_disconnect` the session id is connected nowhere -/
theorem not_sidLive_disconnect {s : Srv} (h : WF0 s) {ns : Ns} {sid : Sid} {t : Eio}
    (he : eioOf s.rooms ns sid = some t) : ¬ sidLive (Rooms.disconnect s.rooms ns sid) sid := by
  rintro ⟨n, e, hm⟩
  unfold Rooms.disconnect at hm
  rw [List.mem_filter] at hm
  have := h.sidNs _ hm.1 _ (eioOf_some_mem he) rfl
  simp only at this
  simp [this] at hm

theorem Dead.prim {k : Nat} {s s' : Srv} (hw : WF s) (p : Prim s s') (h : Dead k s) : Dead k s' := by
  obtain ⟨hk, hd⟩ := h
  cases p with
  | core hc => have := core_fields hc; exact ⟨this.nextSid ▸ hk, this.rooms ▸ hd⟩
  | bumpCall => exact ⟨hk, hd⟩
  | callDone _ _ => exact ⟨hk, hd⟩
  | connect hc =>
    refine ⟨Nat.lt_succ_of_lt hk, fun hl => ?_⟩
    rcases sidLive_connected hc hl with h1 | h1
    · exact hd h1
    · have := sidName_inj h1; omega
  | disc he hc =>
    have := core_fields hc
    refine ⟨this.nextSid ▸ hk, fun hl => hd ?_⟩
    rw [this.rooms] at hl
    exact sidLive_disconnect_imp hl
  | cbsFilter _ => exact ⟨hk, hd⟩
  | addCb _ _ _ => exact ⟨hk, hd⟩
  | binbuf _ => exact ⟨hk, hd⟩
  | rooms hi hsub hkeep =>
    refine ⟨hk, fun hl => hd ?_⟩
    obtain ⟨n, e, he⟩ := hl
    obtain ⟨e', he', h1, _, _⟩ := hsub _ he
    have := sidLive_of_mem hw.rooms he'
    rw [h1] at this; exact this
  | sess ns v _ => exact ⟨by unfold sessSet; split <;> exact hk, by unfold sessSet; split <;> exact hd⟩
  | eioConnect _ => exact ⟨hk, hd⟩
  | drop _ => exact ⟨hk, hd⟩

/-- over any history: once dead, always dead — session ids are never reused -/
theorem Dead.run {k : Nat} {s : Srv} (hw : WF s) (h : Dead k s)
    (dec : Str → Except Err (Packet × Nat)) (cfg : Cfg) (is : List Input) :
    Dead k (run dec cfg s is).1 :=
  (Reach.run hw dec cfg is).preserve (fun _ _ hw p h => Dead.prim hw p h) h

theorem Dead.step {k : Nat} {s : Srv} (hw : WF s) (h : Dead k s)
    (dec : Str → Except Err (Packet × Nat)) (cfg : Cfg) (i : Input) :
    Dead k (step dec cfg s i).1 :=
  (Reach.step hw dec cfg i).preserve (fun _ _ hw p h => Dead.prim hw p h) h

/-! ### the counter of a live session never decreases -/

/-- `sidName k` is allocated, and as long as it is connected its ack counter is at least `n` -/
def CtrGe (k n : Nat) (s : Srv) : Prop :=
  k < s.nextSid ∧ (sidLive s.rooms (sidName k) → n ≤ ctrOf s.ctr (sidName k))

theorem CtrGe.prim {k n : Nat} {s s' : Srv} (hw : WF s) (p : Prim s s') (h : CtrGe k n s) :
    CtrGe k n s' := by
  obtain ⟨hk, hc⟩ := h
  cases p with
  | core hq => have := core_fields hq; exact ⟨this.nextSid ▸ hk, by rw [this.rooms, this.ctr]; exact hc⟩
  | bumpCall => exact ⟨hk, hc⟩
  | callDone _ _ => exact ⟨hk, hc⟩
  | connect hq =>
    refine ⟨Nat.lt_succ_of_lt hk, fun hl => ?_⟩
    rcases sidLive_connected hq hl with h1 | h1
    · exact hc h1
    · have := sidName_inj h1; omega
  | disc he hq =>
    rename_i sid ns t
    have hf := core_fields hq
    refine ⟨hf.nextSid ▸ hk, fun hl => ?_⟩
    rw [hf.rooms] at hl
    rw [hf.ctr]
    have hne : sidName k ≠ sid := by
      rintro rfl
      exact not_sidLive_disconnect hw.toWF0 he hl
    simp only [Server.mgrDisconnect]
    rw [ctrOf_filter_ne _ _ _ hne]
    exact hc (sidLive_disconnect_imp hl)
  | cbsFilter _ => exact ⟨hk, hc⟩
  | addCb tok _ _ =>
    rename_i sid
    refine ⟨hk, fun hl => ?_⟩
    have := hc hl
    simp only [Server.addCb, ctrOf_setCtr, nextAckId_eq]
    split
    · rename_i heq; rw [heq] at this; omega
    · exact this
  | binbuf _ => exact ⟨hk, hc⟩
  | rooms hi hsub hkeep =>
    refine ⟨hk, fun hl => hc ?_⟩
    obtain ⟨n, e, he⟩ := hl
    obtain ⟨e', he', h1, _, _⟩ := hsub _ he
    have := sidLive_of_mem hw.rooms he'
    rw [h1] at this; exact this
  | sess ns v _ =>
    exact ⟨by unfold sessSet; split <;> exact hk, by unfold sessSet; split <;> exact hc⟩
  | eioConnect _ => exact ⟨hk, hc⟩
  | drop _ => exact ⟨hk, hc⟩

theorem ctrOf_eq_zero_of_not_live {s : Srv} (h : WF0 s) {sid : Sid} (hl : ¬ sidLive s.rooms sid) :
    ctrOf s.ctr sid = 0 := by
  apply ctrOf_of_not_any
  intro ha
  simp only [List.any_eq_true, decide_eq_true_eq] at ha
  obtain ⟨c, hc, rfl⟩ := ha
  exact hl (h.ctrLive c hc)

/-- over any history, the ack counter of a session that is still connected has not decreased -/
theorem ctr_mono {s : Srv} (hw : WF s) (dec : Str → Except Err (Packet × Nat)) (cfg : Cfg)
    (is : List Input) (sid : Sid) (hl : sidLive (run dec cfg s is).1.rooms sid) :
    ctrOf s.ctr sid ≤ ctrOf (run dec cfg s is).1.ctr sid := by
  by_cases h0 : sidLive s.rooms sid
  · obtain ⟨ns, e, he⟩ := h0
    obtain ⟨k, hk, hs⟩ := hw.sidAlloc _ he
    simp only at hs
    subst hs
    have h1 : CtrGe k (ctrOf s.ctr (sidName k)) s := ⟨hk, fun _ => Nat.le_refl _⟩
    exact ((Reach.run hw dec cfg is).preserve (fun _ _ hw p h => CtrGe.prim hw p h) h1).2 hl
  · rw [ctrOf_eq_zero_of_not_live hw.toWF0 h0]; exact Nat.zero_le _

/-! ### `call()` bookkeeping -/

/-- internal callbacks and delivered results belong to `call()`s that were started -/
structure Calls (s : Srv) : Prop where
  tok : ∀ c ∈ s.cbs, ∀ n, c.2.2 = .call n → n < s.nCall
  done : ∀ d ∈ s.callDone, d.1 < s.nCall

theorem Calls.init : Calls {} := ⟨by simp, by simp⟩

theorem Calls.prim {s s' : Srv} (_hw : WF s) (p : Prim s s') (h : Calls s) : Calls s' := by
  cases p with
  | core hq =>
    have := core_fields hq
    exact ⟨by rw [this.cbs, this.nCall]; exact h.tok, by rw [this.callDone, this.nCall]; exact h.done⟩
  | bumpCall =>
    exact ⟨fun c hc n hn => Nat.lt_succ_of_lt (h.tok c hc n hn),
      fun d hd => Nat.lt_succ_of_lt (h.done d hd)⟩
  | callDone args hm =>
    refine ⟨h.tok, ?_⟩
    intro d hd
    simp only [List.mem_append, List.mem_singleton] at hd
    rcases hd with hd | rfl
    · exact h.done d hd
    · exact h.tok _ hm _ rfl
  | connect _ => exact ⟨h.tok, h.done⟩
  | disc _ hq =>
    have := core_fields hq
    refine ⟨?_, by rw [this.callDone, this.nCall]; exact h.done⟩
    rw [this.cbs, this.nCall]
    intro c hc
    exact h.tok c (List.mem_filter.mp hc).1
  | cbsFilter f => exact ⟨fun c hc => h.tok c (List.mem_filter.mp hc).1, h.done⟩
  | addCb tok _ ht =>
    refine ⟨?_, h.done⟩
    intro c hc n hn
    simp only [Server.addCb, List.mem_append, List.mem_singleton] at hc
    rcases hc with hc | rfl
    · exact h.tok c hc n hn
    · exact ht n hn
  | binbuf _ => exact ⟨h.tok, h.done⟩
  | rooms _ _ _ => exact ⟨h.tok, h.done⟩
  | sess ns v _ => unfold sessSet; split <;> exact ⟨h.tok, h.done⟩
  | eioConnect _ => exact ⟨h.tok, h.done⟩
  | drop _ => exact ⟨h.tok, h.done⟩

theorem Calls.run {s : Srv} (hw : WF s) (h : Calls s) (dec : Str → Except Err (Packet × Nat))
    (cfg : Cfg) (is : List Input) : Calls (run dec cfg s is).1 :=
  (Reach.run hw dec cfg is).preserve (fun _ _ hw p h => Calls.prim hw p h) h

/-- `callDone` only grows, and what is appended carries numbers of internal callbacks that were
    outstanding -/
def DoneGrows (s s' : Srv) : Prop := ∃ l, s'.callDone = s.callDone ++ l

theorem DoneGrows.prim {s s' : Srv} (_hw : WF s) (p : Prim s s') : DoneGrows s s' := by
  cases p with
  | core hq => exact ⟨[], by rw [(core_fields hq).callDone]; simp⟩
  | callDone args _ => exact ⟨_, rfl⟩
  | disc _ hq => exact ⟨[], by rw [(core_fields hq).callDone]; simp [Server.mgrDisconnect]⟩
  | sess ns v _ => exact ⟨[], by unfold sessSet; split <;> simp⟩
  | bumpCall | connect _ | cbsFilter _ | addCb _ _ _ | binbuf _ | rooms _ _ _ | eioConnect _
  | drop _ => exact ⟨[], by simp [connected, Server.addCb, dropTransport]⟩

theorem DoneGrows.run {s : Srv} (hw : WF s) (dec : Str → Except Err (Packet × Nat)) (cfg : Cfg)
    (is : List Input) : DoneGrows s (run dec cfg s is).1 :=
  (Reach.run hw dec cfg is).rel (fun _ => ⟨[], by simp⟩)
    (fun _ _ _ ⟨l1, h1⟩ ⟨l2, h2⟩ => ⟨l1 ++ l2, by rw [h2, h1, List.append_assoc]⟩)
    (fun _ _ hw p => DoneGrows.prim hw p)

end Sio.Server
