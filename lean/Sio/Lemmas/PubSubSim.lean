/-
  Helper lemmas for K6 (pub/sub), set level: several room tables whose clients are disjoint
  (`Placed`) against the one table that is their union (`Union`).
-/
import Sio.Lemmas.PubSubStep
namespace Sio.PubSub
open Sio.Rooms

/-- every client (and every transport) lives on exactly one host -/
structure Placed (home : Sid → HostId) (ehome : Eio → HostId) (vs : List View) : Prop where
  ids : (vs.map Prod.fst).Nodup
  inv : ∀ v ∈ vs, Inv v.2
  home : ∀ v ∈ vs, ∀ e ∈ v.2, home e.sid = v.1
  ehome : ∀ v ∈ vs, ∀ e ∈ v.2, ehome e.eio = v.1

/-- the single server's table holds exactly the entries of all hosts -/
def Union (vs : List View) (s : Rooms.St) : Prop := ∀ e, e ∈ s ↔ ∃ v ∈ vs, e ∈ v.2

theorem eq_of_fst_eq {vs : List View} (hnd : (vs.map Prod.fst).Nodup) {v w : View} (hv : v ∈ vs)
    (hw : w ∈ vs) (h : v.1 = w.1) : v = w := by
  induction vs with
  | nil => cases hv
  | cons a l ih =>
    simp only [List.map_cons, List.nodup_cons] at hnd
    rcases List.mem_cons.mp hv with rfl | hv' <;> rcases List.mem_cons.mp hw with rfl | hw'
    · rfl
    · exact absurd (h ▸ List.mem_map_of_mem hw') hnd.1
    · exact absurd (h.symm ▸ List.mem_map_of_mem hv') hnd.1
    · exact ih hnd.2 hv' hw'

theorem nodup_of_nodup_map_fst {vs : List View} (hnd : (vs.map Prod.fst).Nodup) : vs.Nodup := by
  induction vs with
  | nil => exact List.nodup_nil
  | cons a l ih =>
    simp only [List.map_cons, List.nodup_cons] at hnd ⊢
    exact ⟨fun hin => hnd.1 (List.mem_map_of_mem hin), ih hnd.2⟩

namespace Placed
variable {home : Sid → HostId} {ehome : Eio → HostId} {vs : List View}

/-- two hosts that know the same session are the same host -/
theorem same_host (hp : Placed home ehome vs) {v w : View} (hv : v ∈ vs) (hw : w ∈ vs)
    {e₁ e₂ : Entry} (h1 : e₁ ∈ v.2) (h2 : e₂ ∈ w.2) (hs : e₁.sid = e₂.sid) : v = w :=
  eq_of_fst_eq hp.ids hv hw (by rw [← hp.home v hv e₁ h1, ← hp.home w hw e₂ h2, hs])

theorem same_host_eio (hp : Placed home ehome vs) {v w : View} (hv : v ∈ vs) (hw : w ∈ vs)
    {e₁ e₂ : Entry} (h1 : e₁ ∈ v.2) (h2 : e₂ ∈ w.2) (hs : e₁.eio = e₂.eio) : v = w :=
  eq_of_fst_eq hp.ids hv hw (by rw [← hp.ehome v hv e₁ h1, ← hp.ehome w hw e₂ h2, hs])

end Placed

/-! ### queries on the union -/

section queries
variable {home : Sid → HostId} {ehome : Eio → HostId} {vs : List View} {s : Rooms.St}

theorem union_eioOf (hp : Placed home ehome vs) (hu : Union vs s) (hs : Inv s) (ns : Ns) (sid : Sid)
    (eio : Eio) : eioOf s ns sid = some eio ↔ ∃ v ∈ vs, eioOf v.2 ns sid = some eio := by
  rw [hs.eioOf_iff, hu]
  constructor
  · rintro ⟨v, hv, he⟩; exact ⟨v, hv, (hp.inv v hv).eioOf_iff.mpr he⟩
  · rintro ⟨v, hv, he⟩; exact ⟨v, hv, (hp.inv v hv).eioOf_iff.mp he⟩

theorem union_eioOf_none (hp : Placed home ehome vs) (hu : Union vs s) (hs : Inv s) (ns : Ns)
    (sid : Sid) : eioOf s ns sid = none ↔ ∀ v ∈ vs, eioOf v.2 ns sid = none := by
  constructor
  · intro hn v hv
    cases hq : eioOf v.2 ns sid with
    | none => rfl
    | some eio =>
      have := (union_eioOf hp hu hs ns sid eio).mpr ⟨v, hv, hq⟩
      rw [hn] at this; cases this
  · intro hall
    cases hq : eioOf s ns sid with
    | none => rfl
    | some eio =>
      obtain ⟨v, hv, he⟩ := (union_eioOf hp hu hs ns sid eio).mp hq
      rw [hall v hv] at he; cases he

theorem union_sidOf (hp : Placed home ehome vs) (hu : Union vs s) (hs : Inv s) (ns : Ns) (eio : Eio)
    (sid : Sid) : sidOf s ns eio = some sid ↔ ∃ v ∈ vs, sidOf v.2 ns eio = some sid := by
  rw [hs.sidOf_iff, hu]
  constructor
  · rintro ⟨v, hv, he⟩; exact ⟨v, hv, (hp.inv v hv).sidOf_iff.mpr he⟩
  · rintro ⟨v, hv, he⟩; exact ⟨v, hv, (hp.inv v hv).sidOf_iff.mp he⟩

theorem union_isMember (hu : Union vs s) (ns : Ns) (room : Option Room) (sid : Sid) :
    isMember s ns room sid = true ↔ ∃ v ∈ vs, isMember v.2 ns room sid = true := by
  simp only [isMember_iff]
  constructor
  · rintro ⟨eio, he⟩
    obtain ⟨v, hv, hev⟩ := (hu _).mp he
    exact ⟨v, hv, eio, hev⟩
  · rintro ⟨v, hv, eio, he⟩
    exact ⟨eio, (hu _).mpr ⟨v, hv, he⟩⟩

/-- who receives an emit, in terms of membership -/
theorem mem_recipients_iff {r : Rooms.St} (hr : Inv r) (ns : Ns) (t : Target) (skip : List Sid)
    (sid : Sid) :
    sid ∈ (recipients r ns t skip).map Prod.fst ↔
      isMember r ns none sid = true ∧ addressed r ns sid t ∧ sid ∉ skip := by
  unfold recipients
  rw [mem_fst_filter_skip, hr.mem_fst_participants, and_assoc]

theorem union_recipients (hp : Placed home ehome vs) (hu : Union vs s) (hs : Inv s) (ns : Ns)
    (t : Target) (skip : List Sid) (sid : Sid) :
    sid ∈ (recipients s ns t skip).map Prod.fst ↔
      ∃ v ∈ vs, sid ∈ (recipients v.2 ns t skip).map Prod.fst := by
  rw [mem_recipients_iff hs]
  constructor
  · rintro ⟨hm, ha, hk⟩
    obtain ⟨v, hv, hmv⟩ := (union_isMember hu ns none sid).mp hm
    refine ⟨v, hv, (mem_recipients_iff (hp.inv v hv) ns t skip sid).mpr ⟨hmv, ?_, hk⟩⟩
    obtain ⟨eio, he⟩ := isMember_iff.mp hmv
    -- any room membership of `sid` lives on the same host
    have key : ∀ room, isMember s ns room sid = true → isMember v.2 ns room sid = true := by
      intro room hroom
      obtain ⟨w, hw, hmw⟩ := (union_isMember hu ns room sid).mp hroom
      obtain ⟨eio', he'⟩ := isMember_iff.mp hmw
      have : v = w := hp.same_host hv hw he he' rfl
      subst this; exact hmw
    cases t with
    | all => trivial
    | one r => exact key _ ha
    | many rs =>
      obtain ⟨r, hr, hmr⟩ := ha
      exact ⟨r, hr, key _ hmr⟩
  · rintro ⟨v, hv, hin⟩
    obtain ⟨hm, ha, hk⟩ := (mem_recipients_iff (hp.inv v hv) ns t skip sid).mp hin
    refine ⟨(union_isMember hu ns none sid).mpr ⟨v, hv, hm⟩, ?_, hk⟩
    cases t with
    | all => trivial
    | one r => exact (union_isMember hu ns _ sid).mpr ⟨v, hv, ha⟩
    | many rs =>
      obtain ⟨r, hr, hmr⟩ := ha
      exact ⟨r, hr, (union_isMember hu ns _ sid).mpr ⟨v, hv, hmr⟩⟩

/-- a recipient of an emit on a host is connected there -/
theorem recipient_entry {r : Rooms.St} (hr : Inv r) {ns : Ns} {t : Target} {skip : List Sid}
    {sid : Sid} (h : sid ∈ (recipients r ns t skip).map Prod.fst) :
    ∃ eio, (⟨ns, none, sid, eio⟩ : Entry) ∈ r :=
  isMember_iff.mp ((mem_recipients_iff hr ns t skip sid).mp h).1

end queries

/-! ### at most one host contributes -/

theorem flatMap_unique {α β : Type} (l : List α) (hnd : l.Nodup) (P : α → Prop) [DecidablePred P]
    (a : β) (huniq : ∀ x ∈ l, ∀ y ∈ l, P x → P y → x = y) :
    l.flatMap (fun x => if P x then [a] else []) = if ∃ x ∈ l, P x then [a] else [] := by
  induction l with
  | nil => simp
  | cons x l ih =>
    rw [List.nodup_cons] at hnd
    rw [List.flatMap_cons]
    have ih' := ih hnd.2 (fun y hy z hz => huniq y (List.mem_cons_of_mem _ hy) z (List.mem_cons_of_mem _ hz))
    by_cases hx : P x
    · have hno : ¬ ∃ y ∈ l, P y := by
        rintro ⟨y, hy, hpy⟩
        have := huniq x List.mem_cons_self y (List.mem_cons_of_mem _ hy) hx hpy
        exact hnd.1 (this ▸ hy)
      rw [ih', if_pos hx, if_neg hno, if_pos ⟨x, List.mem_cons_self, hx⟩]
      rfl
    · rw [ih', if_neg hx, List.nil_append]
      by_cases hex : ∃ y ∈ l, P y
      · obtain ⟨y, hy, hpy⟩ := hex
        rw [if_pos ⟨y, hy, hpy⟩, if_pos ⟨y, List.mem_cons_of_mem _ hy, hpy⟩]
      · rw [if_neg hex, if_neg]
        rintro ⟨y, hy, hpy⟩
        rcases List.mem_cons.mp hy with rfl | hy'
        · exact hx hpy
        · exact hex ⟨y, hy', hpy⟩

section seen
variable {home : Sid → HostId} {ehome : Eio → HostId} {vs : List View} {s : Rooms.St}

/-- what a client sees of an emit applied on every host = what it sees on the single server -/
theorem seenEmit_union (hp : Placed home ehome vs) (hu : Union vs s) (hs : Inv s) (ns : Ns)
    (t : Target) (skip : List Sid) (ev : J) (args : List J) (w : Bool) (sid : Sid) :
    vs.flatMap (fun v => seenEmit v.2 ns t skip ev args w sid) = seenEmit s ns t skip ev args w sid := by
  unfold seenEmit
  rw [flatMap_unique vs (nodup_of_nodup_map_fst hp.ids)
    (fun v => sid ∈ (recipients v.2 ns t skip).map Prod.fst)]
  · by_cases h : sid ∈ (recipients s ns t skip).map Prod.fst
    · rw [if_pos h, if_pos ((union_recipients hp hu hs ns t skip sid).mp h)]
    · rw [if_neg h, if_neg (fun hc => h ((union_recipients hp hu hs ns t skip sid).mpr hc))]
  · intro x hx y hy px py
    obtain ⟨e1, h1⟩ := recipient_entry (hp.inv x hx) px
    obtain ⟨e2, h2⟩ := recipient_entry (hp.inv y hy) py
    exact hp.same_host hx hy h1 h2 rfl

/-- the issuing host first, then the others: the same, because only one host contributes -/
theorem seenEmit_union_split (hp : Placed home ehome vs) (hu : Union vs s) (hs : Inv s) (ns : Ns)
    (t : Target) (skip : List Sid) (ev : J) (args : List J) (w : Bool) (sid : Sid) (hv : View)
    (hin : hv ∈ vs) :
    seenEmit hv.2 ns t skip ev args w sid ++
      vs.flatMap (fun v => if hv.1 = v.1 then [] else seenEmit v.2 ns t skip ev args w sid) =
    seenEmit s ns t skip ev args w sid := by
  rw [← seenEmit_union hp hu hs ns t skip ev args w sid]
  have hnd := nodup_of_nodup_map_fst hp.ids
  have huniq : ∀ x ∈ vs, ∀ y ∈ vs, sid ∈ (recipients x.2 ns t skip).map Prod.fst →
      sid ∈ (recipients y.2 ns t skip).map Prod.fst → x = y := by
    intro x hx y hy px py
    obtain ⟨e1, h1⟩ := recipient_entry (hp.inv x hx) px
    obtain ⟨e2, h2⟩ := recipient_entry (hp.inv y hy) py
    exact hp.same_host hx hy h1 h2 rfl
  have hfun : (fun v : View => if hv.1 = v.1 then [] else seenEmit v.2 ns t skip ev args w sid) =
      (fun v : View => if (¬ hv.1 = v.1 ∧ sid ∈ (recipients v.2 ns t skip).map Prod.fst)
        then [Seen.event ns ev args w] else []) := by
    funext v
    unfold seenEmit
    by_cases h1 : hv.1 = v.1
    · rw [if_pos h1, if_neg (fun hc => hc.1 h1)]
    · rw [if_neg h1]
      by_cases h2 : sid ∈ (recipients v.2 ns t skip).map Prod.fst
      · rw [if_pos h2, if_pos ⟨h1, h2⟩]
      · rw [if_neg h2, if_neg (fun hc => h2 hc.2)]
  rw [hfun]
  unfold seenEmit
  rw [flatMap_unique vs hnd (fun v => ¬ hv.1 = v.1 ∧ sid ∈ (recipients v.2 ns t skip).map Prod.fst)
        _ (fun x hx y hy px py => huniq x hx y hy px.2 py.2),
      flatMap_unique vs hnd (fun v => sid ∈ (recipients v.2 ns t skip).map Prod.fst) _ huniq]
  by_cases h : sid ∈ (recipients hv.2 ns t skip).map Prod.fst
  · have hno : ¬ ∃ x ∈ vs, ¬ hv.1 = x.1 ∧ sid ∈ (recipients x.2 ns t skip).map Prod.fst := by
      rintro ⟨x, hx, hne, hr⟩
      exact hne (by rw [huniq hv hin x hx h hr])
    rw [if_pos h, if_neg hno, if_pos ⟨hv, hin, h⟩]
    rfl
  · rw [if_neg h, List.nil_append]
    by_cases hex : ∃ x ∈ vs, sid ∈ (recipients x.2 ns t skip).map Prod.fst
    · obtain ⟨x, hx, hr⟩ := hex
      have hne : ¬ hv.1 = x.1 := by
        intro he
        have : hv = x := eq_of_fst_eq hp.ids hin hx he
        exact h (this ▸ hr)
      rw [if_pos ⟨x, hx, hne, hr⟩, if_pos ⟨x, hx, hr⟩]
    · rw [if_neg hex, if_neg]
      rintro ⟨x, hx, _, hr⟩
      exact hex ⟨x, hx, hr⟩

end seen

end Sio.PubSub
