/-
  K4 — foundations: the state invariant `WF` of the server core and its preservation by every
  input (`step`), hence over any history (`run`), for every decoder, configuration and script.
-/
import Sio.Model.Server
import Sio.Lemmas.RoomsRefine
import Sio.Lemmas.RoomsEmit
import Sio.Lemmas.CodecDigits
namespace Sio.Server
open Sio.Rooms

/-! ### session-id names -/

theorem natStr_inj {a b : Nat} (h : natStr a = natStr b) : a = b := by
  have ha := pyInt_natStr asciiCls_ascii a
  have hb := pyInt_natStr asciiCls_ascii b
  rw [h, hb] at ha
  injection ha with ha; exact ha.symm

theorem sidName_inj {a b : Nat} (h : sidName a = sidName b) : a = b := by
  unfold sidName at h
  exact natStr_inj (List.cons.inj h).2

/-! ### the per-sid ack counter -/

/-- `ack_counters.get(sid, 0)`: the last id handed out to `sid`. -/
def ctrOf (c : List (Sid × Nat)) (sid : Sid) : Nat :=
  match c.find? (fun e => e.1 = sid) with
  | some e => e.2
  | none => 0

theorem nextAckId_eq (s : Srv) (sid : Sid) : nextAckId s sid = ctrOf s.ctr sid + 1 := by
  unfold nextAckId ctrOf; split <;> rename_i h <;> rw [h]

theorem ctrOf_nil (sid : Sid) : ctrOf [] sid = 0 := rfl

theorem ctrOf_cons (a : Sid × Nat) (c : List (Sid × Nat)) (sid : Sid) :
    ctrOf (a :: c) sid = if a.1 = sid then a.2 else ctrOf c sid := by
  simp only [ctrOf, List.find?_cons]
  by_cases h : a.1 = sid <;> simp [h]

theorem ctrOf_append (c d : List (Sid × Nat)) (sid : Sid) :
    ctrOf (c ++ d) sid = if c.any (fun e => e.1 = sid) then ctrOf c sid else ctrOf d sid := by
  induction c with
  | nil => simp
  | cons a c ih =>
    simp only [List.cons_append, ctrOf_cons, ih, List.any_cons]
    grind

theorem ctrOf_map_set (c : List (Sid × Nat)) (sid sid' : Sid) (n : Nat) :
    ctrOf (c.map (fun e => if e.1 = sid then (sid, n) else e)) sid'
      = if sid' = sid then (if c.any (fun e => e.1 = sid) then n else 0) else ctrOf c sid' := by
  induction c with
  | nil => simp [ctrOf_nil]
  | cons a c ih =>
    simp only [List.map_cons, ctrOf_cons, ih, List.any_cons]
    grind

theorem ctrOf_of_not_any (c : List (Sid × Nat)) (sid : Sid)
    (h : ¬ c.any (fun e => e.1 = sid) = true) : ctrOf c sid = 0 := by
  induction c with
  | nil => rfl
  | cons a c ih =>
    simp only [List.any_cons, Bool.or_eq_true, not_or] at h
    rw [ctrOf_cons, ih h.2]
    have := h.1
    simp at this
    simp [this]

theorem ctrOf_setCtr (c : List (Sid × Nat)) (sid sid' : Sid) (n : Nat) :
    ctrOf (setCtr c sid n) sid' = if sid' = sid then n else ctrOf c sid' := by
  unfold setCtr
  split
  · rename_i h; rw [ctrOf_map_set, h]; simp
  · rename_i h
    rw [ctrOf_append]
    by_cases h2 : sid' = sid
    · subst h2; simp [h, ctrOf_cons]
    · have h3 : ¬ sid = sid' := fun h => h2 h.symm
      simp only [h2, if_false]
      split
      · rfl
      · rename_i h4
        rw [ctrOf_of_not_any _ _ h4]; simp [ctrOf_cons, h3, ctrOf_nil]

theorem ctrOf_filter_ne (c : List (Sid × Nat)) (sid sid' : Sid) (h : sid' ≠ sid) :
    ctrOf (c.filter (fun e => e.1 != sid)) sid' = ctrOf c sid' := by
  induction c with
  | nil => rfl
  | cons a c ih =>
    simp only [List.filter_cons, ctrOf_cons]
    split <;> simp_all [ctrOf_cons]
    grind

theorem mem_setCtr {c : List (Sid × Nat)} {sid : Sid} {n : Nat} {x : Sid × Nat}
    (h : x ∈ setCtr c sid n) : x.1 = sid ∨ x ∈ c := by
  unfold setCtr at h
  split at h
  · simp only [List.mem_map] at h
    obtain ⟨e, he, rfl⟩ := h
    by_cases h1 : e.1 = sid <;> simp [h1, he]
  · simp at h; rcases h with h | h
    · exact Or.inr h
    · exact Or.inl (by rw [h])

/-! ### the invariant -/

/-- `sid` is connected to some namespace (has an entry in a room `None`). -/
def sidLive (r : Rooms.St) (sid : Sid) : Prop := ∃ ns eio, (⟨ns, none, sid, eio⟩ : Entry) ∈ r

/-- The part of the invariant that does not talk about `pending`. -/
structure WF0 (s : Srv) : Prop where
  /-- the rooms relation satisfies the C03 invariant -/
  rooms : Rooms.Inv s.rooms
  /-- every session id in use was allocated: it is `sidName k` for some `k < nextSid` -/
  sidAlloc : ∀ e ∈ s.rooms, ∃ k, k < s.nextSid ∧ e.sid = sidName k
  /-- a session id lives on one namespace -/
  sidNs : ∀ e₁ ∈ s.rooms, ∀ e₂ ∈ s.rooms, e₁.sid = e₂.sid → e₁.ns = e₂.ns
  /-- outstanding callbacks and ack counters belong to connected sessions -/
  cbsLive : ∀ c ∈ s.cbs, sidLive s.rooms c.1
  ctrLive : ∀ c ∈ s.ctr, sidLive s.rooms c.1
  /-- ids of outstanding callbacks are positive and at most the session's counter -/
  cbsLe : ∀ c ∈ s.cbs, 1 ≤ c.2.1 ∧ c.2.1 ≤ ctrOf s.ctr c.1
  /-- and unique per session -/
  cbsNodup : (s.cbs.map (fun c => (c.1, c.2.1))).Nodup
  /-- at most one partially received packet per transport -/
  binNodup : (s.binbuf.map (·.1)).Nodup
  /-- `environ` is kept exactly for the open sockets -/
  envSocks : s.environ = s.socks
  /-- sessions are stored on open sockets only -/
  sessOpen : ∀ e ∈ s.sess, e.1 ∈ s.socks

/-- What every state reachable through `step` satisfies: `WF0`, and no disconnect in progress
    between two inputs (the model is sequential: `pending_disconnect` is set and cleared inside
    one step — the cleanup runs in a `finally`). -/
structure WF (s : Srv) : Prop extends WF0 s where
  pendingNil : s.pending = []

/-- everything but the script counters and the queue of background handlers -/
def core (s : Srv) : Srv :=
  { s with bg := [], nConn := 0, nEv := 0, nDisc := 0 }

theorem WF0.of_core {s s' : Srv} (h : WF0 s) (hc : core s' = core s) : WF0 s' := by
  have h1 : (core s').rooms = (core s).rooms := congrArg Srv.rooms hc
  have h2 : (core s').cbs = (core s).cbs := congrArg Srv.cbs hc
  have h3 : (core s').ctr = (core s).ctr := congrArg Srv.ctr hc
  have h4 : (core s').binbuf = (core s).binbuf := congrArg Srv.binbuf hc
  have h5 : (core s').environ = (core s).environ := congrArg Srv.environ hc
  have h6 : (core s').socks = (core s).socks := congrArg Srv.socks hc
  have h7 : (core s').sess = (core s).sess := congrArg Srv.sess hc
  have h8 : (core s').nextSid = (core s).nextSid := congrArg Srv.nextSid hc
  change s'.rooms = s.rooms at h1
  change s'.cbs = s.cbs at h2
  change s'.ctr = s.ctr at h3
  change s'.binbuf = s.binbuf at h4
  change s'.environ = s.environ at h5
  change s'.socks = s.socks at h6
  change s'.sess = s.sess at h7
  change s'.nextSid = s.nextSid at h8
  exact ⟨h1 ▸ h.rooms, by rw [h1, h8]; exact h.sidAlloc, by rw [h1]; exact h.sidNs,
    by rw [h1, h2]; exact h.cbsLive, by rw [h1, h3]; exact h.ctrLive,
    by rw [h2, h3]; exact h.cbsLe, by rw [h2]; exact h.cbsNodup, by rw [h4]; exact h.binNodup,
    by rw [h5, h6]; exact h.envSocks, by rw [h6, h7]; exact h.sessOpen⟩

/-- `WF0` does not depend on `pending` -/
theorem WF0.set_pending {s : Srv} (h : WF0 s) (p : List (Ns × Sid)) :
    WF0 { s with pending := p } :=
  ⟨h.rooms, h.sidAlloc, h.sidNs, h.cbsLive, h.ctrLive, h.cbsLe, h.cbsNodup, h.binNodup,
    h.envSocks, h.sessOpen⟩

theorem WF.of_core {s s' : Srv} (h : WF s) (hc : core s' = core s) : WF s' :=
  ⟨h.toWF0.of_core hc, (show (core s').pending = (core s).pending from congrArg Srv.pending hc).trans h.pendingNil⟩

theorem WF.init : WF {} :=
  ⟨⟨Inv.nil, by simp, by simp, by simp, by simp, by simp, by simp, by simp, rfl, by simp⟩, rfl⟩

/-! ### liveness of a session id under the room operations -/

theorem sidLive_of_mem {r : Rooms.St} (h : Inv r) {e : Entry} (he : e ∈ r) : sidLive r e.sid :=
  ⟨e.ns, e.eio, h.inNone e he⟩

theorem sidLive.mono {r r' : Rooms.St} {sid : Sid} (h : sidLive r sid)
    (hs : ∀ e ∈ r, e.room = none → e ∈ r') : sidLive r' sid := by
  obtain ⟨ns, eio, he⟩ := h
  exact ⟨ns, eio, hs _ he rfl⟩

theorem sidLive_disconnect {r : Rooms.St} {sid sid' : Sid} {ns : Ns} (h : sidLive r sid')
    (hne : sid' ≠ sid) : sidLive (Rooms.disconnect r ns sid) sid' := by
  obtain ⟨n, eio, he⟩ := h
  refine ⟨n, eio, ?_⟩
  unfold Rooms.disconnect
  rw [List.mem_filter]
  refine ⟨he, ?_⟩
  simp [hne]

/-! ### primitive state transformers preserve `WF0` -/

/-- the state right after `manager.connect` allocated a session id -/
def connected (s : Srv) (rooms' : Rooms.St) : Srv :=
  { s with rooms := rooms', nextSid := s.nextSid + 1 }

theorem eioOf_fresh {s : Srv} (h : WF0 s) (ns : Ns) : eioOf s.rooms ns (sidName s.nextSid) = none := by
  rw [eioOf_none_iff]
  intro eio he
  obtain ⟨k, hk, hs⟩ := h.sidAlloc _ he
  have := sidName_inj hs
  omega

theorem WF0.connected {s : Srv} (h : WF0 s) {ns : Ns} {t : Eio} {rooms' : Rooms.St}
    (hc : Rooms.connect s.rooms ns t (sidName s.nextSid) = some rooms') :
    WF0 (connected s rooms') := by
  have hm := mem_connect hc
  have hsub : ∀ e ∈ s.rooms, e ∈ rooms' := fun e he => (hm e).mpr (Or.inl he)
  have hnew : ∀ e ∈ rooms', e ∈ s.rooms ∨ (e.ns = ns ∧ e.sid = sidName s.nextSid) := by
    intro e he
    rcases (hm e).mp he with h1 | rfl | rfl
    · exact Or.inl h1
    · exact Or.inr ⟨rfl, rfl⟩
    · exact Or.inr ⟨rfl, rfl⟩
  have hold : ∀ e ∈ s.rooms, e.sid ≠ sidName s.nextSid := by
    intro e he heq
    obtain ⟨k, hk, hs⟩ := h.sidAlloc _ he
    have := sidName_inj (hs.symm.trans heq)
    omega
  refine ⟨h.rooms.connect (eioOf_fresh h ns) hc, ?_, ?_, ?_, ?_, h.cbsLe, h.cbsNodup, h.binNodup,
    h.envSocks, h.sessOpen⟩
  · intro e he
    rcases hnew e he with h1 | ⟨_, h2⟩
    · obtain ⟨k, hk, hs⟩ := h.sidAlloc _ h1
      exact ⟨k, Nat.lt_succ_of_lt hk, hs⟩
    · exact ⟨s.nextSid, Nat.lt_succ_self _, h2⟩
  · intro e₁ h₁ e₂ h₂ heq
    rcases hnew e₁ h₁ with a | ⟨a1, a2⟩ <;> rcases hnew e₂ h₂ with b | ⟨b1, b2⟩
    · exact h.sidNs e₁ a e₂ b heq
    · exact absurd (heq.trans b2) (hold e₁ a)
    · exact absurd (heq.symm.trans a2) (hold e₂ b)
    · rw [a1, b1]
  · intro c hc'
    exact (h.cbsLive c hc').mono (fun e he _ => hsub e he)
  · intro c hc'
    exact (h.ctrLive c hc').mono (fun e he _ => hsub e he)

theorem WF0.mgrDisconnect {s : Srv} (h : WF0 s) (sid : Sid) (ns : Ns) :
    WF0 (mgrDisconnect s sid ns) := by
  have hsub : ∀ e ∈ Rooms.disconnect s.rooms ns sid, e ∈ s.rooms := fun e he =>
    (List.mem_filter.mp he).1
  refine ⟨h.rooms.disconnect ns sid, fun e he => h.sidAlloc e (hsub e he),
    fun e₁ h₁ e₂ h₂ => h.sidNs e₁ (hsub e₁ h₁) e₂ (hsub e₂ h₂), ?_, ?_, ?_, ?_, h.binNodup,
    h.envSocks, h.sessOpen⟩
  · intro c hc
    simp only [Server.mgrDisconnect, List.mem_filter, bne_iff_ne] at hc
    exact sidLive_disconnect (h.cbsLive c hc.1) hc.2
  · intro c hc
    simp only [Server.mgrDisconnect, List.mem_filter, bne_iff_ne] at hc
    exact sidLive_disconnect (h.ctrLive c hc.1) hc.2
  · intro c hc
    simp only [Server.mgrDisconnect, List.mem_filter, bne_iff_ne] at hc
    have := h.cbsLe c hc.1
    simp only [Server.mgrDisconnect]
    rw [ctrOf_filter_ne _ _ _ hc.2]
    exact this
  · simp only [Server.mgrDisconnect]
    exact (h.cbsNodup.sublist (List.Sublist.map _ List.filter_sublist))

/-- any change of the rooms that keeps every room-`None` entry and adds none -/
theorem WF0.set_rooms {s : Srv} (h : WF0 s) {r : Rooms.St} (hi : Inv r)
    (hsub : ∀ e ∈ r, ∃ e' ∈ s.rooms, e'.sid = e.sid ∧ e'.ns = e.ns)
    (hkeep : ∀ e ∈ s.rooms, e.room = none → e ∈ r) : WF0 { s with rooms := r } := by
  refine ⟨hi, ?_, ?_, fun c hc => (h.cbsLive c hc).mono hkeep,
    fun c hc => (h.ctrLive c hc).mono hkeep, h.cbsLe, h.cbsNodup, h.binNodup, h.envSocks, h.sessOpen⟩
  · intro e he
    obtain ⟨e', he', h1, _⟩ := hsub e he
    obtain ⟨k, hk, hs⟩ := h.sidAlloc e' he'
    exact ⟨k, hk, h1 ▸ hs⟩
  · intro e₁ h₁ e₂ h₂ heq
    obtain ⟨a, ha, a1, a2⟩ := hsub e₁ h₁
    obtain ⟨b, hb, b1, b2⟩ := hsub e₂ h₂
    rw [← a2, ← b2]
    exact h.sidNs a ha b hb (by rw [a1, b1, heq])

theorem WF0.enter {s : Srv} (h : WF0 s) {ns : Ns} {sid : Sid} {room : Room} {r : Rooms.St}
    (he : Rooms.enter s.rooms ns sid room = .ok r) : WF0 { s with rooms := r } := by
  obtain ⟨eio, hq, hm⟩ := mem_enter he
  refine h.set_rooms (h.rooms.enter he) ?_ (fun e he _ => (hm e).mpr (Or.inl he))
  intro e he'
  rcases (hm e).mp he' with h1 | rfl
  · exact ⟨e, h1, rfl, rfl⟩
  · exact ⟨_, eioOf_some_mem hq, rfl, rfl⟩

theorem WF0.leave {s : Srv} (h : WF0 s) (ns : Ns) (sid : Sid) (room : Room) :
    WF0 { s with rooms := Rooms.leave s.rooms ns sid (some room) } := by
  refine h.set_rooms (h.rooms.leave ns sid room)
    (fun e he => ⟨e, (List.mem_filter.mp he).1, rfl, rfl⟩) ?_
  intro e he hn
  unfold Rooms.leave
  rw [List.mem_filter]
  exact ⟨he, by simp [hn]⟩

theorem WF0.closeRoom {s : Srv} (h : WF0 s) (ns : Ns) (room : Room) :
    WF0 { s with rooms := Rooms.closeRoom s.rooms ns room } := by
  refine h.set_rooms (h.rooms.closeRoom ns room)
    (fun e he => ⟨e, (List.mem_filter.mp he).1, rfl, rfl⟩) ?_
  intro e he hn
  unfold Rooms.closeRoom
  rw [List.mem_filter]
  exact ⟨he, by simp [hn]⟩

/-- registering one callback for a connected session (`_generate_ack_id`) -/
def addCb (s : Srv) (sid : Sid) (tok : CbTok) : Srv :=
  { s with ctr := setCtr s.ctr sid (nextAckId s sid), cbs := s.cbs ++ [(sid, nextAckId s sid, tok)] }

theorem WF0.addCb {s : Srv} (h : WF0 s) {sid : Sid} (hl : sidLive s.rooms sid) (tok : CbTok) :
    WF0 (addCb s sid tok) := by
  refine ⟨h.rooms, h.sidAlloc, h.sidNs, ?_, ?_, ?_, ?_, h.binNodup, h.envSocks, h.sessOpen⟩
  · intro c hc
    simp only [Server.addCb, List.mem_append, List.mem_singleton] at hc
    rcases hc with hc | rfl
    · exact h.cbsLive c hc
    · exact hl
  · intro c hc
    rcases mem_setCtr hc with h1 | h1
    · rw [h1]; exact hl
    · exact h.ctrLive c h1
  · intro c hc
    simp only [Server.addCb, List.mem_append, List.mem_singleton] at hc
    simp only [Server.addCb, ctrOf_setCtr, nextAckId_eq]
    rcases hc with hc | rfl
    · have := h.cbsLe c hc
      split
      · rename_i heq; rw [heq] at this; omega
      · exact this
    · simp [nextAckId_eq]
  · simp only [Server.addCb, List.map_append, List.map_cons, List.map_nil]
    rw [List.nodup_append]
    refine ⟨h.cbsNodup, by simp, ?_⟩
    intro a ha b hb
    simp only [List.mem_singleton] at hb
    subst hb
    simp only [List.mem_map] at ha
    obtain ⟨c, hc, rfl⟩ := ha
    intro heq
    have := (h.cbsLe c hc).2
    simp only [Prod.mk.injEq] at heq
    rw [heq.1, heq.2, nextAckId_eq] at this
    omega

theorem WF0.set_binbuf {s : Srv} (h : WF0 s) {b : List (Eio × Partial)}
    (hb : (b.map (·.1)).Nodup) : WF0 { s with binbuf := b } :=
  ⟨h.rooms, h.sidAlloc, h.sidNs, h.cbsLive, h.ctrLive, h.cbsLe, h.cbsNodup, hb, h.envSocks,
    h.sessOpen⟩

theorem setBin_keys (b : List (Eio × Partial)) (t : Eio) (p : Partial) :
    (setBin b t p).map (·.1) = b.map (·.1) := by
  unfold setBin
  rw [List.map_map]
  apply List.map_congr_left
  intro e _
  simp only [Function.comp]
  split <;> simp_all

theorem WF0.setBin {s : Srv} (h : WF0 s) (t : Eio) (p : Partial) :
    WF0 { s with binbuf := setBin s.binbuf t p } :=
  h.set_binbuf (by rw [setBin_keys]; exact h.binNodup)

theorem WF0.filterBin {s : Srv} (h : WF0 s) (f : Eio × Partial → Bool) :
    WF0 { s with binbuf := s.binbuf.filter f } :=
  h.set_binbuf (h.binNodup.sublist (List.Sublist.map _ List.filter_sublist))

theorem WF0.pushBin {s : Srv} (h : WF0 s) {t : Eio} (hn : s.binbuf.find? (fun e => e.1 = t) = none)
    (p : Partial) : WF0 { s with binbuf := s.binbuf ++ [(t, p)] } := by
  apply h.set_binbuf
  simp only [List.map_append, List.map_cons, List.map_nil]
  rw [List.nodup_append]
  refine ⟨h.binNodup, by simp, ?_⟩
  intro a ha b hb
  simp only [List.mem_singleton] at hb
  subst hb
  simp only [List.mem_map] at ha
  obtain ⟨e, he, rfl⟩ := ha
  intro heq
  have := List.find?_eq_none.mp hn e he
  simp [heq] at this

theorem WF0.set_cbs_filter {s : Srv} (h : WF0 s) (f : Sid × Nat × CbTok → Bool) :
    WF0 { s with cbs := s.cbs.filter f } :=
  ⟨h.rooms, h.sidAlloc, h.sidNs, fun c hc => h.cbsLive c (List.mem_filter.mp hc).1, h.ctrLive,
    fun c hc => h.cbsLe c (List.mem_filter.mp hc).1,
    h.cbsNodup.sublist (List.Sublist.map _ List.filter_sublist), h.binNodup, h.envSocks,
    h.sessOpen⟩

theorem WF0.sessSet {s : Srv} (h : WF0 s) {t : Eio} (ht : t ∈ s.socks) (ns : Ns) (v : J) :
    WF0 (sessSet s t ns v) := by
  unfold Server.sessSet
  split
  · refine ⟨h.rooms, h.sidAlloc, h.sidNs, h.cbsLive, h.ctrLive, h.cbsLe, h.cbsNodup, h.binNodup,
      h.envSocks, ?_⟩
    intro e he
    simp only [List.mem_map] at he
    obtain ⟨e', he', rfl⟩ := he
    split
    · exact ht
    · exact h.sessOpen e' he'
  · refine ⟨h.rooms, h.sidAlloc, h.sidNs, h.cbsLive, h.ctrLive, h.cbsLe, h.cbsNodup, h.binNodup,
      h.envSocks, ?_⟩
    intro e he
    simp only [List.mem_append, List.mem_singleton] at he
    rcases he with he | rfl
    · exact h.sessOpen e he
    · exact ht

theorem sessSet_pending (s : Srv) (t : Eio) (ns : Ns) (v : J) :
    (sessSet s t ns v).pending = s.pending := by
  unfold Server.sessSet; split <;> rfl

theorem sessSock_open {s : Srv} {sid : Sid} {ns : Ns} {t : Eio} (h : sessSock s sid ns = some t) :
    t ∈ s.socks := by
  unfold sessSock at h
  split at h
  · split at h
    · rename_i hc; cases h; exact List.contains_iff_mem.mp hc
    · cases h
  · cases h

theorem WF0.eioConnect {s : Srv} (h : WF0 s) (t : Eio) :
    WF0 { s with environ := s.environ ++ [t], socks := s.socks ++ [t] } :=
  ⟨h.rooms, h.sidAlloc, h.sidNs, h.cbsLive, h.ctrLive, h.cbsLe, h.cbsNodup, h.binNodup,
    by simp [h.envSocks], fun e he => List.mem_append_left _ (h.sessOpen e he)⟩

/-- the final cleanup of `_handle_eio_disconnect` -/
def dropTransport (s : Srv) (t : Eio) : Srv :=
  { s with environ := s.environ.filter (· != t),
           binbuf := s.binbuf.filter (fun e => e.1 != t),
           socks := s.socks.filter (· != t),
           sess := s.sess.filter (fun e => e.1 != t) }

theorem WF0.dropTransport {s : Srv} (h : WF0 s) (t : Eio) : WF0 (dropTransport s t) := by
  refine ⟨h.rooms, h.sidAlloc, h.sidNs, h.cbsLive, h.ctrLive, h.cbsLe, h.cbsNodup,
    h.binNodup.sublist (List.Sublist.map _ List.filter_sublist), ?_, ?_⟩
  · simp only [Server.dropTransport, h.envSocks]
  · intro e he
    simp only [Server.dropTransport, List.mem_filter] at he ⊢
    exact ⟨h.sessOpen e he.1, he.2⟩

end Sio.Server
