/-
  Helper lemmas for K3 (rooms): `rooms()` answers, and non-membership is stable under every
  operation that does not (re-)enter the room.
-/
import Sio.Lemmas.RoomsEmit
import Sio.Lemmas.RoomsRefine
namespace Sio.Rooms

theorem mem_getRooms {s : St} {ns : Ns} {sid : Sid} {r : Room} :
    r ∈ getRooms s ns sid ↔ isMember s ns (some r) sid = true := by
  rw [isMember_iff]
  simp only [getRooms, List.mem_filterMap]
  constructor
  · rintro ⟨⟨a, b, c, d⟩, he, hr⟩
    simp only at hr
    split at hr
    · rename_i hc
      obtain ⟨rfl, rfl⟩ := hc
      subst hr
      exact ⟨d, he⟩
    · cases hr
  · rintro ⟨e, he⟩
    exact ⟨_, he, by simp⟩

/-- `rooms()` lists each room once -/
theorem Inv.getRooms_nodup {s : St} (h : Inv s) (ns : Ns) (sid : Sid) :
    (getRooms s ns sid).Nodup := by
  have key : ∀ (l : List Entry), l.Nodup → (∀ e ∈ l, e ∈ s) →
      (l.filterMap (fun e => if e.ns = ns ∧ e.sid = sid then e.room else none)).Nodup := by
    intro l
    induction l with
    | nil => intro _ _; simp
    | cons a l ih =>
      intro hnd hsub
      rw [List.nodup_cons] at hnd
      have ih' := ih hnd.2 (fun e he => hsub e (List.mem_cons_of_mem _ he))
      rw [List.filterMap_cons]
      split
      · exact ih'
      · rename_i r hr
        rw [List.nodup_cons]
        refine ⟨?_, ih'⟩
        simp only [List.mem_filterMap, not_exists, not_and]
        intro b hb hbr
        split at hr
        · rename_i hca
          split at hbr
          · rename_i hcb
            have hbe := h.sidEio b (hsub b (List.mem_cons_of_mem _ hb)) a
              (hsub a List.mem_cons_self) (hcb.1.trans hca.1.symm) (hcb.2.trans hca.2.symm)
            have : b = a := by
              obtain ⟨b1, b2, b3, b4⟩ := b
              obtain ⟨a1, a2, a3, a4⟩ := a
              simp only at hr hbr hbe hca hcb
              obtain ⟨h1, h2⟩ := hca
              obtain ⟨h3, h4⟩ := hcb
              subst h1 h2 h3 h4 hr hbr hbe; rfl
            exact hnd.1 (this ▸ hb)
          · cases hbr
        · cases hr
  exact key s h.nodup (fun _ he => he)

/-! ### Who can (re-)enter a room, who is removed from it -/

/-- the operation puts `sid` into `room` of `ns` (`room = none`: connects it) -/
def Op.enters (ns : Ns) (room : Option Room) (sid : Sid) : Op → Prop
  | .enter ns' sid' r => ns' = ns ∧ sid' = sid ∧ room = some r
  | .connect ns' _ sid' => ns' = ns ∧ sid' = sid ∧ (room = none ∨ room = some sid)
  | _ => False

/-- the operation takes `sid` out of `room` of `ns` -/
def Op.removes (s : St) (ns : Ns) (room : Option Room) (sid : Sid) : Op → Prop
  | .leave ns' sid' r => ns' = ns ∧ sid' = sid ∧ room = some r
  | .closeRoom ns' r => ns' = ns ∧ room = some r
  | .disconnect ns' sid' => ns' = ns ∧ sid' = sid
  | .lost eio => sidOf s ns eio = some sid
  | _ => False

theorem mem_apply_imp {s : St} {op : Op} {x : Entry} (hx : x ∈ apply s op) :
    x ∈ s ∨ op.enters x.ns x.room x.sid := by
  cases op with
  | connect ns eio sid =>
    simp only [apply] at hx
    split at hx
    · exact Or.inl hx
    · cases hc : connect s ns eio sid with
      | none => rw [hc] at hx; exact Or.inl hx
      | some s' =>
        rw [hc] at hx
        rcases (mem_connect hc x).mp hx with h | rfl | rfl
        · exact Or.inl h
        · exact Or.inr ⟨rfl, rfl, Or.inl rfl⟩
        · exact Or.inr ⟨rfl, rfl, Or.inr rfl⟩
  | enter ns sid room =>
    simp only [apply] at hx
    split at hx
    · rename_i s' he
      obtain ⟨eio, _, hm⟩ := mem_enter he
      rcases (hm x).mp hx with h | rfl
      · exact Or.inl h
      · exact Or.inr ⟨rfl, rfl, rfl⟩
    · exact Or.inl hx
  | leave ns sid room => exact Or.inl (List.mem_filter.mp hx).1
  | closeRoom ns room => exact Or.inl (List.mem_filter.mp hx).1
  | disconnect ns sid => exact Or.inl (List.mem_filter.mp hx).1
  | lost eio => exact Or.inl (List.mem_filter.mp hx).1

theorem not_member_apply {s : St} {ns : Ns} {room : Option Room} {sid : Sid} {op : Op}
    (h : isMember s ns room sid = false) (hop : ¬ op.enters ns room sid) :
    isMember (apply s op) ns room sid = false := by
  rw [isMember_false_iff] at h ⊢
  intro eio hx
  rcases mem_apply_imp hx with hx | hx
  · exact h eio hx
  · exact hop hx

theorem not_member_run {s : St} {ns : Ns} {room : Option Room} {sid : Sid} {ops : List Op}
    (h : isMember s ns room sid = false) (hops : ∀ op ∈ ops, ¬ op.enters ns room sid) :
    isMember (run s ops) ns room sid = false := by
  induction ops generalizing s with
  | nil => exact h
  | cons op ops ih =>
    exact ih (not_member_apply h (hops op List.mem_cons_self))
      (fun op' h' => hops op' (List.mem_cons_of_mem _ h'))

theorem removes_not_member {s : St} {ns : Ns} {room : Option Room} {sid : Sid} {op : Op}
    (hop : op.removes s ns room sid) : isMember (apply s op) ns room sid = false := by
  rw [isMember_false_iff]
  intro eio hx
  cases op with
  | connect ns' eio' sid' => exact hop
  | enter ns' sid' r => exact hop
  | leave ns' sid' r =>
    obtain ⟨rfl, rfl, rfl⟩ := hop
    have := (List.mem_filter.mp hx).2
    simp at this
  | closeRoom ns' r =>
    obtain ⟨rfl, rfl⟩ := hop
    have := (List.mem_filter.mp hx).2
    simp at this
  | disconnect ns' sid' =>
    obtain ⟨rfl, rfl⟩ := hop
    have := (List.mem_filter.mp hx).2
    simp at this
  | lost eio' =>
    have hop' : sidOf s ns eio' = some sid := hop
    have := (List.mem_filter.mp hx).2
    simp [hop'] at this

/-- the rooms an emit looks into -/
def Target.rooms : Target → List (Option Room)
  | .all => [none]
  | .one r => [some r]
  | .many rs => rs.map some

theorem mem_fst_participants_imp {s : St} {ns : Ns} {t : Target} {sid : Sid}
    (h : sid ∈ (participants s ns t).map Prod.fst) :
    ∃ room ∈ t.rooms, isMember s ns room sid = true := by
  cases t with
  | all => exact ⟨none, by simp [Target.rooms], mem_fst_roomMembers.mp h⟩
  | one r => exact ⟨some r, by simp [Target.rooms], mem_fst_roomMembers.mp h⟩
  | many rs =>
    have := (mem_fst_manyFrom (s := s) (ns := ns) (acc := []) (rs := rs) (x := sid)).mp h
    rcases this with h | ⟨r, hr, hm⟩
    · simp at h
    · exact ⟨some r, by simp [Target.rooms, hr], hm⟩

theorem mem_fst_recipients_imp {s : St} {ns : Ns} {t : Target} {skip : List Sid} {sid : Sid}
    (h : sid ∈ (recipients s ns t skip).map Prod.fst) :
    sid ∈ (participants s ns t).map Prod.fst := (mem_fst_filter_skip.mp h).1

end Sio.Rooms
