/-
  C01 — the three phases of the header scanner on the image of `encodeHdr`.
-/
import Sio.Lemmas.CodecDigits
namespace Sio

variable {cls : Char → DC}

theorem isDigit_ne {c d : Char} (hc : c.isDigit = true) (hd : d.isDigit = false) : c ≠ d := by
  rintro rfl; simp_all

theorem natStr_bne {n : Nat} {d : Char} (hd : d.isDigit = false) :
    ∀ c ∈ natStr n, (c != d) = true :=
  fun _ hc => bne_iff_ne.mpr (isDigit_ne (natStr_isDigit hc) hd)

/-! ### attachment count -/

theorem scanAtt_count (hcls : AsciiCls cls) {n : Nat} (hn : n < 10 ^ 10) (rest : Str) :
    scanAtt cls (natStr n ++ '-' :: rest) = .ok (n, rest) := by
  have hpre : (natStr n ++ '-' :: rest).takeWhile (· != '-') = natStr n :=
    takeWhile_stop (natStr_bne (by decide)) (by simp)
  have hlen : ¬ (natStr n).length > 10 := by
    have := (natStr_length_le (n := n) (k := 10) (by decide)).mpr hn; omega
  have hne : (natStr n).isEmpty = false := by
    cases h : natStr n with
    | nil => exact absurd h (natStr_ne_nil n)
    | cons _ _ => rfl
  unfold scanAtt
  simp only [hpre, allDigits_natStr hcls, pyInt_natStr hcls, hne, hlen]
  simp [List.drop_length_add_append]
  rfl

theorem scanAtt_nil : scanAtt cls [] = .ok (0, []) := by
  simp [scanAtt]; rfl

theorem scanAtt_skip_nondigit {c : Char} {r : Str} (hc : (cls c).isDigit = false) :
    scanAtt cls (c :: r) = .ok (0, c :: r) := by
  unfold scanAtt
  by_cases h : c = '-'
  · subst h; simp; rfl
  · have hb : (c != '-') = true := bne_iff_ne.mpr h
    rw [List.takeWhile_cons_of_pos (p := (· != '-')) hb]
    dsimp only
    rw [allDigits_false_of_mem (c := c) (by simp) hc]
    simp; rfl

theorem scanAtt_skip_digits {ds body : Str} (hds : ∀ c ∈ ds, c.isDigit = true)
    (hbody : body = [] ∨ ∃ c r, body = c :: r ∧ (cls c).isDigit = false ∧ c ≠ '-') :
    scanAtt cls (ds ++ body) = .ok (0, ds ++ body) := by
  have hds' : ∀ c ∈ ds, (c != '-') = true :=
    fun c hc => bne_iff_ne.mpr (isDigit_ne (hds c hc) (by decide))
  unfold scanAtt
  rcases hbody with rfl | ⟨c, r, rfl, hc, hne⟩
  · simp only [List.append_nil, takeWhile_all hds']
    simp; rfl
  · rw [List.takeWhile_append_of_pos hds', List.takeWhile_cons_of_pos (p := (· != '-')) (bne_iff_ne.mpr hne)]
    dsimp only
    rw [allDigits_false_of_mem (c := c) (by simp) hc]
    simp; rfl

/-! ### namespace -/

theorem scanNs_ns {tl rest : Str} (hcomma : ',' ∉ ('/' :: tl)) :
    scanNs (('/' :: tl) ++ ',' :: rest) = (some (('/' :: tl).takeWhile (· != '?')), rest) := by
  have hraw : ((('/' :: tl) ++ ',' :: rest)).takeWhile (· != ',') = '/' :: tl :=
    takeWhile_stop (fun c hc => bne_iff_ne.mpr (by rintro rfl; exact hcomma hc)) (by simp)
  have hraw' : ('/' :: (tl ++ ',' :: rest)).takeWhile (· != ',') = '/' :: tl := hraw
  simp only [scanNs, List.cons_append, hraw']
  simp [List.drop_length_add_append]

theorem scanNs_nil : scanNs [] = (none, []) := rfl

theorem scanNs_skip {c : Char} {r : Str} (hc : c ≠ '/') : scanNs (c :: r) = (none, c :: r) := by
  unfold scanNs
  split
  · rename_i h; injection h with h1 _; exact absurd h1 hc
  · rfl

/-! ### id -/

theorem scanId_nil : scanId cls [] = .ok (none, []) := rfl

theorem scanId_skip {c : Char} {r : Str} (hc : (cls c).isDigit = false) :
    scanId cls (c :: r) = .ok (none, c :: r) := by
  simp [scanId, hc]; rfl

theorem scanId_digit {c : Char} {r : Str} (hc : (cls c).isDigit = true) :
    scanId cls (c :: r) =
      (do
        let v ← pyInt cls ((c :: r).take
          (min ((c :: r).takeWhile (fun c => (cls c).isDigit)).length 100))
        match (c :: r).drop (min ((c :: r).takeWhile (fun c => (cls c).isDigit)).length 100) with
        | d :: _ => if (cls d).isDigit then (.error .valueError : Except Err (Option Nat × Str))
                    else pure (some v,
                      (c :: r).drop (min ((c :: r).takeWhile (fun c => (cls c).isDigit)).length 100))
        | [] => pure (some v,
            (c :: r).drop (min ((c :: r).takeWhile (fun c => (cls c).isDigit)).length 100))) := by
  simp only [scanId, hc, if_true]
  rfl

theorem scanId_id (hcls : AsciiCls cls) {i : Nat} (hi : i < 10 ^ 100) {body : Str}
    (hbody : body = [] ∨ ∃ c r, body = c :: r ∧ (cls c).isDigit = false) :
    scanId cls (natStr i ++ body) = .ok (some i, body) := by
  have hdig : ∀ c ∈ natStr i, (cls c).isDigit = true :=
    fun c hc => cls_isDigit_of_isDigit hcls (natStr_isDigit hc)
  have hrun : (natStr i ++ body).takeWhile (fun c => (cls c).isDigit) = natStr i := by
    rcases hbody with rfl | ⟨c, r, rfl, hc⟩
    · simpa using takeWhile_all hdig
    · exact takeWhile_stop hdig hc
  have hlen : min (natStr i).length 100 = (natStr i).length :=
    Nat.min_eq_left ((natStr_length_le (by decide)).mpr hi)
  obtain ⟨d, ds, hd, hdd⟩ := natStr_cons i
  have hd0 : (cls d).isDigit = true := cls_isDigit_of_isDigit hcls hdd
  have hep : natStr i ++ body = d :: (ds ++ body) := by rw [hd]; rfl
  rw [hep, scanId_digit hd0, ← hep, hrun, hlen]
  rw [List.take_left, List.drop_left, pyInt_natStr hcls]
  rcases hbody with rfl | ⟨c, r, rfl, hc⟩
  · rfl
  · simp [hc]; rfl


/-! ### the header round trip, phase by phase -/

def attPart : Option Nat → Str
  | some n => natStr n ++ ['-']
  | none => []

theorem encodeHdr_eq (t : Nat) (nsp : Option Str) (id natt : Option Nat) (body : Str) :
    encodeHdr t nsp id natt ++ body
      = natStr t ++ (attPart natt ++ (nspPart nsp ++ (idPart id ++ body))) := by
  cases natt <;> simp [encodeHdr, attPart]

theorem wfNs_some {ns : Str} (h : WFNs (some ns) = true) : ∃ tl, ns = '/' :: tl ∧ ',' ∉ ns := by
  simp only [WFNs, Bool.and_eq_true, Bool.not_eq_eq_eq_not, Bool.not_true] at h
  obtain ⟨h1, h2⟩ := h
  cases ns with
  | nil => simp at h1
  | cons c tl =>
    simp at h1; subst h1
    refine ⟨tl, rfl, ?_⟩
    intro hm
    have : ('/' :: tl).contains ',' = true := List.contains_iff_mem.mpr hm
    rw [h2] at this; cases this

/-- the namespace part is empty (default namespace) or `'/' :: tl ++ [',']` without other commas -/
theorem nspPart_cases {nsp : Option Str} (h : WFNs nsp = true) :
    (isDefaultNs nsp = true ∧ nspPart nsp = [] ∧ normNs nsp = none) ∨
    (∃ tl, isDefaultNs nsp = false ∧ nspPart nsp = ('/' :: tl) ++ [','] ∧ ',' ∉ ('/' :: tl) ∧
      normNs nsp = some (('/' :: tl).takeWhile (· != '?'))) := by
  cases nsp with
  | none => left; simp [isDefaultNs, nspPart, normNs]
  | some ns =>
    by_cases hd : ns = ['/']
    · left; simp [isDefaultNs, nspPart, normNs, hd]
    · right
      obtain ⟨tl, rfl, hc⟩ := wfNs_some h
      exact ⟨tl, by simp [isDefaultNs, hd], by simp [nspPart, hd], hc, by simp [normNs, hd]⟩

theorem cls_slash (hcls : AsciiCls cls) : (cls '/').isDigit = false := by
  rw [cls_of_ascii_nondigit hcls (by decide) (by decide)]; rfl

theorem bodyOK_cons {nsp : Option Str} {id natt : Option Nat} {c : Char} {r : Str}
    (h : BodyOK cls nsp id natt (c :: r) = true) :
    (cls c).isDigit = false ∧ (isDefaultNs nsp = true → id = none → c ≠ '/') ∧
    (natt = none → isDefaultNs nsp = true → id ≠ none → c ≠ '-') := by
  simp only [BodyOK, Bool.and_eq_true, Bool.not_eq_eq_eq_not, Bool.not_true, Bool.or_eq_true,
    bne_iff_ne, ne_eq, Bool.and_eq_false_imp] at h
  obtain ⟨⟨h1, h2⟩, h3⟩ := h
  refine ⟨h1, ?_, ?_⟩
  · intro hd hi; subst hi
    rcases h2 with h2 | h2
    · simp [hd] at h2
    · exact h2
  · intro hn hd hi; subst hn
    rcases h3 with h3 | h3
    · cases id with
      | none => exact absurd rfl hi
      | some i => simp [hd] at h3
    · exact h3

theorem phase_att (hcls : AsciiCls cls) {t : Nat} {nsp : Option Str} {id natt : Option Nat}
    {body : Str} (hwf : WFHdr t nsp id natt = true) (hb : BodyOK cls nsp id natt body = true) :
    scanAtt cls (attPart natt ++ (nspPart nsp ++ (idPart id ++ body)))
      = .ok (natt.getD 0, nspPart nsp ++ (idPart id ++ body)) := by
  simp only [WFHdr, Bool.and_eq_true, decide_eq_true_eq] at hwf
  obtain ⟨⟨⟨_, hns⟩, _⟩, hatt⟩ := hwf
  cases natt with
  | some n =>
    simp only [decide_eq_true_eq] at hatt
    simp only [attPart, List.append_assoc, List.singleton_append, Option.getD_some]
    exact scanAtt_count hcls hatt _
  | none =>
    simp only [attPart, List.nil_append, Option.getD_none]
    rcases nspPart_cases hns with ⟨hd, hn, _⟩ | ⟨tl, _, hn, _, _⟩
    · rw [hn, List.nil_append]
      cases id with
      | some i =>
        refine scanAtt_skip_digits (fun c hc => natStr_isDigit hc) ?_
        cases body with
        | nil => left; rfl
        | cons c r =>
          right
          obtain ⟨h1, _, h3⟩ := bodyOK_cons hb
          exact ⟨c, r, rfl, h1, h3 rfl hd (by simp)⟩
      | none =>
        simp only [idPart, List.nil_append]
        cases body with
        | nil => exact scanAtt_nil
        | cons c r => exact scanAtt_skip_nondigit (bodyOK_cons hb).1
    · rw [hn]
      exact scanAtt_skip_nondigit (cls_slash hcls)

theorem phase_ns {t : Nat} {nsp : Option Str} {id natt : Option Nat}
    {body : Str} (hwf : WFHdr t nsp id natt = true) (hb : BodyOK cls nsp id natt body = true) :
    scanNs (nspPart nsp ++ (idPart id ++ body)) = (normNs nsp, idPart id ++ body) := by
  simp only [WFHdr, Bool.and_eq_true, decide_eq_true_eq] at hwf
  obtain ⟨⟨⟨_, hns⟩, _⟩, _⟩ := hwf
  rcases nspPart_cases hns with ⟨hd, hn, hnorm⟩ | ⟨tl, _, hn, hc, hnorm⟩
  · rw [hn, hnorm, List.nil_append]
    cases id with
    | some i =>
      obtain ⟨d, ds, hd', hdd⟩ := natStr_cons i
      simp only [idPart, hd', List.cons_append]
      exact scanNs_skip (isDigit_ne hdd (by decide))
    | none =>
      simp only [idPart, List.nil_append]
      cases body with
      | nil => rfl
      | cons c r => exact scanNs_skip ((bodyOK_cons hb).2.1 hd rfl)
  · rw [hn, hnorm, List.append_assoc, List.singleton_append]
    exact scanNs_ns hc

theorem phase_id (hcls : AsciiCls cls) {t : Nat} {nsp : Option Str} {id natt : Option Nat}
    {body : Str} (hwf : WFHdr t nsp id natt = true) (hb : BodyOK cls nsp id natt body = true) :
    scanId cls (idPart id ++ body) = .ok (id, body) := by
  simp only [WFHdr, Bool.and_eq_true, decide_eq_true_eq] at hwf
  obtain ⟨⟨_, hid⟩, _⟩ := hwf
  cases id with
  | some i =>
    simp only [decide_eq_true_eq] at hid
    refine scanId_id hcls hid ?_
    cases body with
    | nil => left; rfl
    | cons c r => right; exact ⟨c, r, rfl, (bodyOK_cons hb).1⟩
  | none =>
    simp only [idPart, List.nil_append]
    cases body with
    | nil => rfl
    | cons c r => exact scanId_skip (bodyOK_cons hb).1

theorem hdr_roundtrip_lem (hcls : AsciiCls cls) {t : Nat} {nsp : Option Str} {id natt : Option Nat}
    {body : Str} (hwf : WFHdr t nsp id natt = true) (hb : BodyOK cls nsp id natt body = true) :
    decodeHdr cls (encodeHdr t nsp id natt ++ body)
      = .ok ⟨t, normNs nsp, id, body, natt.getD 0⟩ := by
  have ht : t < 10 := by
    simp only [WFHdr, Bool.and_eq_true, decide_eq_true_eq] at hwf; omega
  have h1 : natStr t = [Nat.digitChar t] := natStr_of_lt_ten ht
  rw [encodeHdr_eq, h1]
  simp only [decodeHdr, List.singleton_append, List.take_succ_cons, List.take_zero,
    List.drop_succ_cons, List.drop_zero]
  rw [← h1, pyInt_natStr hcls, phase_att hcls hwf hb]
  simp only [bind, Except.bind, phase_ns hwf hb, phase_id hcls hwf hb]
  rfl

end Sio
