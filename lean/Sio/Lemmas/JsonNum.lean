/-
  C01 phase 2 — the JSON reader inverts the printer on numbers.
-/
import Sio.Model.JsonParse
import Sio.Lemmas.CodecDigits
namespace Sio
open JP

/-- A float literal the reader keeps as it is: non-empty, made of number characters, of the
    JSON `int frac? exp?` shape with a fraction or an exponent (so not an integer literal).
    Every `repr` of a finite Python float is of this form. -/
def FltOK (l : Str) : Bool :=
  !l.isEmpty && l.all isNumChar && !isIntLit l && isFloatLit l

/-- what may follow a number: the end of the text or a character that cannot continue it -/
def delim : Str → Bool
  | [] => true
  | c :: _ => !isNumChar c

theorem isNumChar_of_isDigit {c : Char} (h : c.isDigit = true) : isNumChar c = true := by
  simp [isNumChar, h]

/-! ### no leading zero -/

theorem natStr_head_ne_zero (n : Nat) (h : 0 < n) : (natStr n).head? ≠ some '0' := by
  induction n using Nat.strongRecOn with
  | _ n ih =>
    rw [natStr, Nat.toDigits_eq_if (by decide)]
    split
    · simp only [List.head?_cons, ne_eq, Option.some.injEq, Nat.digitChar_eq_zero]; omega
    · have := ih (n / 10) (by omega) (by omega)
      rw [natStr] at this
      rw [List.head?_append]
      cases hd : (Nat.toDigits 10 (n / 10)).head? with
      | none =>
        cases ht : Nat.toDigits 10 (n / 10) with
        | nil => exact absurd ht Nat.toDigits_ne_nil
        | cons a b => rw [ht] at hd; simp at hd
      | some c => rw [hd] at this; simpa using this

theorem digitsOK_natStr (n : Nat) : digitsOK (natStr n) = true := by
  have hne : (natStr n).isEmpty = false := by
    cases h : natStr n with
    | nil => exact absurd h (natStr_ne_nil n)
    | cons _ _ => rfl
  have hall : (natStr n).all Char.isDigit = true :=
    List.all_eq_true.mpr fun c hc => natStr_isDigit hc
  simp only [digitsOK, hne, hall, Bool.not_false, Bool.true_and, Bool.or_eq_true, beq_iff_eq,
    bne_iff_ne, ne_eq]
  by_cases h0 : n = 0
  · subst h0; left; rfl
  · right; exact natStr_head_ne_zero n (by omega)

/-! ### integer literals -/

theorem isIntLit_of_head {s : Str} (h : s.head? ≠ some '-') : isIntLit s = digitsOK s := by
  unfold isIntLit
  split
  · simp at h
  · rfl

theorem intVal_of_head {s : Str} (h : s.head? ≠ some '-') :
    intVal s = Int.ofNat (Nat.ofDigitChars 10 s 0) := by
  unfold intVal
  split
  · simp at h
  · rfl

theorem natStr_head_ne_dash (n : Nat) : (natStr n).head? ≠ some '-' := by
  obtain ⟨d, ds, hd, hdd⟩ := natStr_cons n
  rw [hd]
  simp only [List.head?_cons, ne_eq, Option.some.injEq]
  rintro rfl; simp at hdd

theorem isIntLit_intStr (i : Int) : isIntLit (intStr i) = true := by
  cases i with
  | ofNat n => rw [intStr, isIntLit_of_head (natStr_head_ne_dash n)]; exact digitsOK_natStr n
  | negSucc n => exact digitsOK_natStr (n + 1)

theorem intVal_intStr (i : Int) : intVal (intStr i) = i := by
  cases i with
  | ofNat n =>
    rw [intStr, intVal_of_head (natStr_head_ne_dash n)]
    simp [natStr]
  | negSucc n =>
    show Int.negOfNat (Nat.ofDigitChars 10 (natStr (n + 1)) 0) = Int.negSucc n
    simp [natStr]; rfl

theorem intStr_all_numChar (i : Int) : ∀ c ∈ intStr i, isNumChar c = true := by
  cases i with
  | ofNat n => exact fun c hc => isNumChar_of_isDigit (natStr_isDigit hc)
  | negSucc n =>
    intro c hc
    simp only [intStr, List.mem_cons] at hc
    rcases hc with rfl | hc
    · rfl
    · exact isNumChar_of_isDigit (natStr_isDigit hc)

theorem intStr_cons (i : Int) : ∃ c r, intStr i = c :: r ∧ isNumChar c = true := by
  cases h : intStr i with
  | nil =>
    cases i with
    | ofNat n => exact absurd h (natStr_ne_nil n)
    | negSucc n => cases h
  | cons c r => exact ⟨c, r, rfl, intStr_all_numChar i c (by rw [h]; simp)⟩

/-! ### the number token -/

theorem token_split (tok rest : Str) (ht : ∀ c ∈ tok, isNumChar c = true) (hr : delim rest = true) :
    (tok ++ rest).takeWhile isNumChar = tok ∧ (tok ++ rest).drop tok.length = rest := by
  refine ⟨?_, List.drop_left⟩
  cases rest with
  | nil => simpa using takeWhile_all ht
  | cons c r =>
    simp only [delim, Bool.not_eq_eq_eq_not, Bool.not_true] at hr
    exact takeWhile_stop ht hr

theorem number_int (i : Int) (rest : Str) (hr : delim rest = true) :
    number (intStr i ++ rest) = .ok (.int i, rest) := by
  obtain ⟨h1, h2⟩ := token_split (intStr i) rest (intStr_all_numChar i) hr
  simp only [number, h1, h2, isIntLit_intStr, intVal_intStr, if_true]

theorem number_flt (l rest : Str) (hl : FltOK l = true) (hr : delim rest = true) :
    number (l ++ rest) = .ok (.flt l, rest) := by
  simp only [FltOK, Bool.and_eq_true, Bool.not_eq_eq_eq_not, Bool.not_true, List.all_eq_true] at hl
  obtain ⟨⟨⟨_, hall⟩, hni⟩, hf⟩ := hl
  obtain ⟨h1, h2⟩ := token_split l rest hall hr
  simp [number, h1, h2, hni, hf]

theorem fltOK_cons {l : Str} (hl : FltOK l = true) : ∃ c r, l = c :: r ∧ isNumChar c = true := by
  simp only [FltOK, Bool.and_eq_true, Bool.not_eq_eq_eq_not, Bool.not_true, List.all_eq_true] at hl
  obtain ⟨⟨⟨hne, hall⟩, _⟩, _⟩ := hl
  cases l with
  | nil => simp at hne
  | cons c r => exact ⟨c, r, rfl, hall c (by simp)⟩

/-- the `repr`s of some Python floats -/
example : FltOK "1.5".toList = true ∧ FltOK "-0.0".toList = true ∧ FltOK "1e+100".toList = true ∧
    FltOK "1e-07".toList = true ∧ FltOK "123456789.125".toList = true ∧
    FltOK "3.141592653589793".toList = true ∧ FltOK "1".toList = false ∧ FltOK "01.5".toList = false ∧
    FltOK "1.".toList = false ∧ FltOK "inf".toList = false ∧ FltOK "".toList = false := by decide

end Sio
