/-
  Helper lemmas for K6 (pub/sub), callback level of `sync_equiv` (C07), part 5: an emit with a
  callback to a personal room keeps the invariant `Linked` — the issuing host registers the user
  callback, the client's host the relay that points at it, the reference server the user callback,
  and the client is asked one new id on either side — and the step theorem for every operation.
-/
import Sio.Lemmas.PubSubLinkedCb
namespace Sio.PubSub
open Sio.Rooms

section ops
variable {home : Sid → HostId} {ehome : Eio → HostId} {c : Cluster} {s : Single}

theorem askedOf_single_ne (r : Sid) (i : Nat) {y : Sid} (hy : y ≠ r) : askedOf [(r, i)] y = [] := by
  simp only [askedOf, List.map_eq_nil_iff, List.filter_eq_nil_iff]
  intro a ha
  simp only [List.mem_singleton] at ha
  subst ha
  simpa using fun e : r = y => hy e.symm

theorem askedOf_single_self (r : Sid) (i : Nat) : askedOf [(r, i)] r = [i] := by
  simp [askedOf]

theorem linked_emit_cb (hs : Sim home ehome c s) (hl : Linked home c s) (via : HostId) (ev : Str)
    (d : Data) (ns : Ns) (to : Target) (skip : Skip) (tok : Nat)
    (hop : OpOk home ehome (c.views.map Prod.fst) (.emit (some via) ev d ns to skip (some tok)))
    (hh : HistOpOk s (.emit (some via) ev d ns to skip (some tok))) :
    StepGoal home c s (.emit (some via) ev d ns to skip (some tok)) := by
  obtain ⟨hvia, hok, hcb⟩ := hop
  obtain ⟨_, r, rfl⟩ := hcb rfl
  obtain ⟨hv, hin, rfl⟩ := exists_host_of_id c via (by rw [← views_fst]; exact hvia via rfl)
  have hpersS : ∀ e ∈ s.srv.rooms, e.ns = ns → e.room = some r → e.sid = r := hh rfl r rfl
  have hpers : ∀ h ∈ c.hosts, ∀ e ∈ h.rooms, e.ns = ns → e.room = some r → e.sid = r :=
    fun h hh' e he => hpersS e ((hs.union e).mpr ⟨h.view, view_mem hh', he⟩)
  have hseen : ∀ y, seenBy y
      ((c.on hv.id (fun h => apiEmit h true ev d ns (.one r) skip (some tok))).2 ++
        (step (c.on hv.id (fun h => apiEmit h true ev d ns (.one r) skip (some tok))).1 .drain).2) =
      seenBy y (s.step (.emit (some hv.id) ev d ns (.one r) skip (some tok))).2 :=
    (sim_step hs (.emit (some hv.id) ev d ns (.one r) skip (some tok)) ⟨hvia, hok, hcb⟩).2.1
  have hst : step c (.emit (some hv.id) ev d ns (.one r) skip (some tok)) =
      c.on hv.id (fun h => apiEmit h true ev d ns (.one r) skip (some tok)) := rfl
  unfold StepGoal
  rw [hst]
  obtain ⟨G, e1, e2, e3, e4, e5, e6⟩ :=
    cluster_emit_cb hs.ids hl.drained hs.hinv hv hin ev d ns r skip tok hpers
  have hS := emitLocal_cb_personal s.srv hs.sinv ns r skip.toList (.str ev) d.pack (.user tok) hpersS
  have hsstep : s.step (.emit (some hv.id) ev d ns (.one r) skip (some tok)) =
      ({ srv := (emitLocal s.srv ns (.one r) skip.toList (.str ev) d.pack (some (.user tok))).1,
         asked := s.asked ++ askedIn (emitLocal s.srv ns (.one r) skip.toList (.str ev) d.pack (some (.user tok))).2 },
        (emitLocal s.srv ns (.one r) skip.toList (.str ev) d.pack (some (.user tok))).2) := rfl
  have hrooms : (s.step (.emit (some hv.id) ev d ns (.one r) skip (some tok))).1.srv.rooms = s.srv.rooms :=
    single_step_rooms (s := s) hs.sinv _
  have hur := union_recipients hs.placed hs.union hs.sinv ns (.one r) skip.toList r
  -- what does not depend on whether the addressee receives the event
  have hGne : ∀ h ∈ c.hosts, ∀ y, some y ≠ some r → (G h).cbs y = h.cbs y ∧ (G h).ctr y = h.ctr y := by
    intro h hh' y hy
    have hyr : y ≠ r := fun e => hy (by rw [e])
    rw [(e2 h hh').2.1, (e2 h hh').2.2]
    have a := relayIf_ne r ns skip.toList (.relay (some hv.id) r ns (hv.ctr r + 1)) (userIf hv.id r tok h) hyr
    have b := userIf_ne hv.id r tok h hyr
    exact ⟨a.1.trans b.1, a.2.trans b.2⟩
  have hb0 : ∀ h ∈ c.hosts, ∀ i, (G h).cbs r i ≠ none → i ≤ (G h).ctr r := by
    intro h hh' i hne
    rw [(e2 h hh').2.1] at hne
    rw [(e2 h hh').2.2]
    exact relayIf_bounded (userIf_bounded (hl.bound h hh') _ _ _) _ _ _ _ r i hne
  have hlen : ∀ y, (askedOf (step (c.on hv.id (fun h => apiEmit h true ev d ns (.one r) skip (some tok))).1
      .drain).1.asked y).length =
      (askedOf (s.step (.emit (some hv.id) ev d ns (.one r) skip (some tok))).1.asked y).length := by
    intro y
    rw [e5, single_step_asked]
    exact len_step hl.len hseen y
  have hone : ∀ e₁ ∈ (s.step (.emit (some hv.id) ev d ns (.one r) skip (some tok))).1.srv.rooms,
      ∀ e₂ ∈ (s.step (.emit (some hv.id) ev d ns (.one r) skip (some tok))).1.srv.rooms,
      e₁.sid = e₂.sid → e₁.ns = e₂.ns := by rw [hrooms]; exact hl.oneNs
  have hconn : ∀ y, some y ≠ some r →
      (∃ e ∈ (s.step (.emit (some hv.id) ev d ns (.one r) skip (some tok))).1.srv.rooms, e.sid = y) →
      (∃ e ∈ s.srv.rooms, e.sid = y) ∨ askedOf s.asked y = [] := by
    intro y _ hy; rw [hrooms] at hy; exact Or.inl hy
  have hNhv : ∀ {C : HostId → Nat → Option Cb} {N : HostId → Nat}, Rep c.hosts r C N → N hv.id = hv.ctr r :=
    fun hrep => (hrep.1 hv hin).2
  rcases hS with ⟨hnb, heS⟩ | ⟨hb, eio, heS⟩
  · -- the addressee does not receive the event (not connected to the namespace, or skipped)
    have hnbh : ∀ h ∈ c.hosts, r ∉ (recipients h.rooms ns (.one r) skip.toList).map Prod.fst :=
      fun h hh' hc => hnb (hur.mpr ⟨h.view, view_mem hh', hc⟩)
    have hrel : ∀ h ∈ c.hosts, relayIf r ns skip.toList (.relay (some hv.id) r ns (hv.ctr r + 1))
        (userIf hv.id r tok h) = userIf hv.id r tok h := by
      intro h hh'
      unfold relayIf
      rw [(userIf_rooms hv.id r tok h).1, if_neg (hnbh h hh')]
    have hL : askedIn ((c.on hv.id (fun h => apiEmit h true ev d ns (.one r) skip (some tok))).2 ++
        (step (c.on hv.id (fun h => apiEmit h true ev d ns (.one r) skip (some tok))).1 .drain).2) = [] := by
      rw [e6, if_neg (hnbh hv hin), List.nil_append]
      refine flatMap_nil' _ _ (fun h hh' => ?_)
      rw [if_neg (hnbh h hh')]
      split <;> rfl
    have hca : (step (c.on hv.id (fun h => apiEmit h true ev d ns (.one r) skip (some tok))).1 .drain).1.asked =
        c.asked := by rw [e5, hL, List.append_nil]
    have hsst : s.step (.emit (some hv.id) ev d ns (.one r) skip (some tok)) =
        ({ srv := s.srv, asked := s.asked ++ [] }, []) := by rw [hsstep, heS]; rfl
    have hsa : (s.step (.emit (some hv.id) ev d ns (.one r) skip (some tok))).1.asked = s.asked := by
      rw [hsst]; exact List.append_nil _
    have hsrv : (s.step (.emit (some hv.id) ev d ns (.one r) skip (some tok))).1.srv = s.srv := by rw [hsst]
    refine ⟨?_, by rw [e4, hsst]; rfl, Or.inl (by rw [hsst]; rfl)⟩
    refine linked_keyed hl hs.ids _ _ G (some r) e1 (fun h hh' => (e2 h hh').1) hGne e3 hone hlen
      (fun y _ => by rw [hca]) (fun y _ => by rw [hsa]) (fun y _ => by rw [hsrv]; exact ⟨rfl, rfl⟩) hconn ?_
    intro k hk
    cases hk
    refine ⟨hb0, by rw [hsrv]; exact hl.sbound r, ?_⟩
    intro hx
    rw [hrooms] at hx
    obtain ⟨C, N, hrep, hkl⟩ := hl.link r hx
    refine ⟨regC C N hv.id (.user tok), regN N hv.id, ?_, ?_⟩
    · rw [e1]
      refine Rep.of_pointwise G (fun h hh' => (e2 h hh').1) ?_ ?_
      · intro h hh'
        have := (show RepAt C N r h.id h from hrep.1 h hh').reg hv.id (.user tok)
        refine ⟨fun i => ?_, ?_⟩
        · rw [(e2 h hh').2.1, hrel h hh']; exact this.1 i
        · rw [(e2 h hh').2.2, hrel h hh']; exact this.2
      · intro o ho i
        have hne : o ≠ hv.id := fun e => ho (e ▸ List.mem_map_of_mem hin)
        simp only [regC, hne, false_and, if_false]
        exact hrep.2 o ho i
    · rw [hca, hsa, hsrv]
      exact hkl.reg_host (hrep.bound hl.bound) hv.id (.user tok)
  · -- the addressee receives the event, on the host where it lives
    obtain ⟨Hv, hHv, hbH⟩ := hur.mp hb
    obtain ⟨H, hH, rfl⟩ := List.mem_map.mp hHv
    have hbH' : r ∈ (recipients H.rooms ns (.one r) skip.toList).map Prod.fst := hbH
    have huniq : ∀ h ∈ c.hosts, r ∈ (recipients h.rooms ns (.one r) skip.toList).map Prod.fst → h = H := by
      intro h hh' hc
      obtain ⟨e1', h1⟩ := recipient_entry (hs.hinv h hh') hc
      obtain ⟨e2', h2⟩ := recipient_entry (hs.hinv H hH) hbH'
      have := hs.placed.same_host (view_mem hh') (view_mem hH) h1 h2 rfl
      exact hs.host_eq hh' hH (congrArg Prod.fst this)
    have hhome : home r = H.id := by
      obtain ⟨e2', h2⟩ := recipient_entry (hs.hinv H hH) hbH'
      exact hs.placed.home H.view (view_mem hH) _ h2
    have hrelay : ∀ h ∈ c.hosts, relayIf r ns skip.toList (.relay (some hv.id) r ns (hv.ctr r + 1))
        (userIf hv.id r tok h) =
        if h.id = H.id then (register (userIf hv.id r tok h) r (.relay (some hv.id) r ns (hv.ctr r + 1))).1
        else userIf hv.id r tok h := by
      intro h hh'
      unfold relayIf
      rw [(userIf_rooms hv.id r tok h).1]
      by_cases hid : h.id = H.id
      · have : h = H := hs.host_eq hh' hH hid
        subst this
        rw [if_pos hbH', if_pos rfl]
      · have hnb' : r ∉ (recipients h.rooms ns (.one r) skip.toList).map Prod.fst :=
          fun hc => hid (by rw [huniq h hh' hc])
        rw [if_neg hid, if_neg hnb']
    -- the new id on the cluster
    have hL : askedIn ((c.on hv.id (fun h => apiEmit h true ev d ns (.one r) skip (some tok))).2 ++
        (step (c.on hv.id (fun h => apiEmit h true ev d ns (.one r) skip (some tok))).1 .drain).2) =
        [(r, (userIf hv.id r tok H).ctr r + 1)] := by
      rw [e6]
      by_cases hHv' : H.id = hv.id
      · have hHeq : H = hv := hs.host_eq hH hin hHv'
        have hbv : r ∈ (recipients hv.rooms ns (.one r) skip.toList).map Prod.fst := hHeq ▸ hbH'
        rw [if_pos hbv]
        have hnil : c.hosts.flatMap (fun h => if h.id = hv.id then [] else
            if r ∈ (recipients h.rooms ns (.one r) skip.toList).map Prod.fst then [(r, h.ctr r + 1)] else []) = [] := by
          refine flatMap_nil' _ _ (fun h hh' => ?_)
          by_cases hid : h.id = hv.id
          · rw [if_pos hid]
          · have hnb' : r ∉ (recipients h.rooms ns (.one r) skip.toList).map Prod.fst :=
              fun hc => hid (by rw [huniq h hh' hc, hHv'])
            rw [if_neg hid, if_neg hnb']
        rw [hnil, List.append_nil, hHeq]
        simp [userIf, register_ctr]
      · have hnv : r ∉ (recipients hv.rooms ns (.one r) skip.toList).map Prod.fst :=
          fun hc => hHv' (by rw [huniq hv hin hc])
        rw [if_neg hnv, List.nil_append]
        rw [flatMap_congr' (g := fun h => if h.id = H.id then [(r, h.ctr r + 1)] else [])]
        · rw [flatMap_if_id c.hosts hs.ids H hH (fun h => [(r, h.ctr r + 1)])]
          simp [userIf, hHv']
        · intro h hh'
          by_cases hid : h.id = H.id
          · have : h = H := hs.host_eq hh' hH hid
            subst this
            rw [if_neg hHv', if_pos hbH', if_pos rfl]
          · have hnb' : r ∉ (recipients h.rooms ns (.one r) skip.toList).map Prod.fst :=
              fun hc => hid (by rw [huniq h hh' hc])
            rw [if_neg hid, if_neg hnb']
            split <;> rfl
    have hca : (step (c.on hv.id (fun h => apiEmit h true ev d ns (.one r) skip (some tok))).1 .drain).1.asked =
        c.asked ++ [(r, (userIf hv.id r tok H).ctr r + 1)] := by rw [e5, hL]
    have hsst : s.step (.emit (some hv.id) ev d ns (.one r) skip (some tok)) =
        ({ srv := (register s.srv r (.user tok)).1, asked := s.asked ++ [(r, s.srv.ctr r + 1)] },
          [.send s.srv.id r eio ⟨ns, .str ev, d.pack, some (s.srv.ctr r + 1)⟩]) := by rw [hsstep, heS]; rfl
    have hsa : (s.step (.emit (some hv.id) ev d ns (.one r) skip (some tok))).1.asked =
        s.asked ++ [(r, s.srv.ctr r + 1)] := by rw [hsst]
    have hsrv : (s.step (.emit (some hv.id) ev d ns (.one r) skip (some tok))).1.srv =
        (register s.srv r (.user tok)).1 := by rw [hsst]
    refine ⟨?_, by rw [e4, hsst]; rfl, Or.inl (by rw [hsst]; rfl)⟩
    refine linked_keyed hl hs.ids _ _ G (some r) e1 (fun h hh' => (e2 h hh').1) hGne e3 hone hlen
      ?_ ?_ ?_ hconn ?_
    · intro y hy
      have hyr : y ≠ r := fun e => hy (by rw [e])
      rw [hca, askedOf_append, askedOf_single_ne r _ hyr, List.append_nil]
    · intro y hy
      have hyr : y ≠ r := fun e => hy (by rw [e])
      rw [hsa, askedOf_append, askedOf_single_ne r _ hyr, List.append_nil]
    · intro y hy
      have hyr : y ≠ r := fun e => hy (by rw [e])
      rw [hsrv]; exact register_ne s.srv r _ hyr
    intro k hk
    cases hk
    refine ⟨hb0, by rw [hsrv]; exact register_bounded hl.sbound r _ r, ?_⟩
    intro hx
    rw [hrooms] at hx
    obtain ⟨C, N, hrep, hkl⟩ := hl.link r hx
    have hbd := hrep.bound hl.bound
    have hNv : N hv.id = hv.ctr r := hNhv hrep
    -- the tables after the two registrations
    let relay : Cb := .relay (some hv.id) r ns (hv.ctr r + 1)
    have hat : ∀ h ∈ c.hosts, RepAt (regC (regC C N hv.id (.user tok)) (regN N hv.id) H.id relay)
        (regN (regN N hv.id) H.id) r h.id (G h) := by
      intro h hh'
      have a1 := (show RepAt C N r h.id h from hrep.1 h hh').reg hv.id (.user tok)
      have a2 := a1.reg H.id relay
      refine ⟨fun i => ?_, ?_⟩
      · rw [(e2 h hh').2.1, hrelay h hh']; exact a2.1 i
      · rw [(e2 h hh').2.2, hrelay h hh']; exact a2.2
    have hN1H : regN N hv.id H.id = (userIf hv.id r tok H).ctr r :=
      ((show RepAt C N r H.id H from hrep.1 H hH).reg hv.id (.user tok)).2
    refine ⟨regC (regC C N hv.id (.user tok)) (regN N hv.id) H.id relay, regN (regN N hv.id) H.id, ?_, ?_⟩
    · rw [e1]
      refine Rep.of_pointwise G (fun h hh' => (e2 h hh').1) hat ?_
      intro o ho i
      have hne1 : o ≠ hv.id := fun e => ho (e ▸ List.mem_map_of_mem hin)
      have hne2 : o ≠ H.id := fun e => ho (e ▸ List.mem_map_of_mem hH)
      simp only [regC, hne1, hne2, false_and, if_false]
      exact hrep.2 o ho i
    · have k1 : KL (regC C N hv.id (.user tok)) (regN N hv.id (home r)) (s.srv.cbs r) (s.srv.ctr r) r (home r)
          ((askedOf c.asked r).zip (askedOf s.asked r)) := hkl.reg_host hbd hv.id (.user tok)
      have hbd1 := reg_bound hbd hv.id (.user tok)
      have k2 : KL (regC (regC C N hv.id (.user tok)) (regN N hv.id) H.id relay)
          (regN (regN N hv.id) H.id (home r)) (s.srv.cbs r) (s.srv.ctr r) r (home r)
          ((askedOf c.asked r).zip (askedOf s.asked r)) := k1.reg_host (N := regN N hv.id) hbd1 H.id relay
      have k3 := k2.reg_single (.user tok)
      have hN2 : regN (regN N hv.id) H.id (home r) = (userIf hv.id r tok H).ctr r + 1 := by
        rw [hhome]; simp only [regN, if_true]; rw [← hN1H]; simp only [regN]
      have hSx : (register s.srv r (.user tok)).1.cbs r =
          fun i => if i = s.srv.ctr r + 1 then some (.user tok) else s.srv.cbs r i := by
        funext i; simp [register_cbs]
      have hSn : (register s.srv r (.user tok)).1.ctr r = s.srv.ctr r + 1 := by simp [register_ctr]
      rw [hca, hsa, hsrv, askedOf_append, askedOf_append, askedOf_single_self, askedOf_single_self,
        List.zip_append (hl.len r), hSx, hSn]
      refine k3.snoc _ _ (by rw [hN2]; exact Nat.le_refl _) (Nat.le_refl _) ?_ ?_ tok hv.id ns (N hv.id + 1)
        (by simp) ?_ ?_ ?_
      · intro p hp
        have h1 := hkl.cb p hp
        have h2 := regN_le N hv.id (home r)
        rw [hhome] at h1 h2
        rw [← hN1H]; omega
      · intro p hp
        have := hkl.sb p hp
        omega
      · -- the relay sits in the new slot of the client's host
        rw [hhome]
        show (if H.id = H.id ∧ (userIf hv.id r tok H).ctr r + 1 = regN N hv.id H.id + 1 then some relay
          else regC C N hv.id (.user tok) H.id ((userIf hv.id r tok H).ctr r + 1)) = _
        rw [if_pos ⟨rfl, by rw [hN1H]⟩, hNv]
      · -- the user callback sits in the new slot of the issuing host
        have hc1 : ¬ (hv.id = H.id ∧ N hv.id + 1 = regN N hv.id H.id + 1) := by
          rintro ⟨he, hi⟩
          have : regN N hv.id H.id = N hv.id + 1 := by unfold regN; rw [if_pos he.symm]
          omega
        show (if hv.id = H.id ∧ N hv.id + 1 = regN N hv.id H.id + 1 then some relay
          else (if hv.id = hv.id ∧ N hv.id + 1 = N hv.id + 1 then some (Cb.user tok)
            else C hv.id (N hv.id + 1))) = _
        rw [if_neg hc1, if_pos ⟨rfl, rfl⟩]
      · -- no earlier position points at the new user entry
        intro p hp n1 hc
        have h1 := hkl.cb p hp
        have h2 := regN_le N hv.id (home r)
        have hold : regC (regC C N hv.id (.user tok)) (regN N hv.id) H.id relay (home r) p.1 = C (home r) p.1 := by
          have hc1 : ¬ (home r = H.id ∧ p.1 = regN N hv.id H.id + 1) := by
            rintro ⟨_, hi⟩; rw [hhome] at h1 h2; omega
          have hc2 : ¬ (home r = hv.id ∧ p.1 = N hv.id + 1) := by
            rintro ⟨he, hi⟩; rw [he] at h1; omega
          show (if home r = H.id ∧ p.1 = regN N hv.id H.id + 1 then some relay
            else (if home r = hv.id ∧ p.1 = N hv.id + 1 then some (Cb.user tok) else C (home r) p.1)) = _
          rw [if_neg hc1, if_neg hc2]
        rw [hold] at hc
        rcases hkl.pair p hp with ⟨_, d2⟩ | ⟨t, o, n', id0, _, l2, l3⟩
        · rw [d2] at hc; cases hc
        · rw [l2] at hc
          cases hc
          have := hbd hv.id (N hv.id + 1) (by rw [l3]; simp)
          omega

/-! ### every operation -/

/-- **One step of the callback-level simulation**: after the operation and the drain the tables of
    the cluster and of the reference server are linked again, the cluster has invoked exactly the
    callbacks (token and arguments, in order) that the reference server has invoked, and a step
    never mixes callbacks with disconnect handlers. -/
theorem linked_step (hs : Sim home ehome c s) (hl : Linked home c s) (op : Op)
    (hop : OpOk home ehome (c.views.map Prod.fst) op) (hh : HistOpOk s op) : StepGoal home c s op := by
  cases op with
  | connect hid ns eio sid => exact linked_connect hs hl hid ns eio sid hop hh
  | enter via ns sid room => exact linked_enter hs hl via ns sid room hop
  | leave via ns sid room => exact linked_leave hs hl via ns sid room hop
  | close via ns room => exact linked_close hs hl via ns room hop
  | emit via ev d ns to skip cb =>
    cases via with
    | none => exact linked_emit_wo hs hl ev d ns to skip cb hop
    | some v =>
      cases cb with
      | none => exact linked_emit_plain hs hl v ev d ns to skip hop
      | some tok => exact linked_emit_cb hs hl v ev d ns to skip tok hop hh
  | disconnect via ns sid => exact linked_disconnect hs hl via ns sid hop
  | ack ns sid n args => exact linked_ack hs hl ns sid n args
  | deliver h k => exact absurd hop (by simp [OpOk])
  | drain => exact absurd hop (by simp [OpOk])

end ops

/-- the condition `HistOpOk` along a history, judged on the run of the reference server -/
def HistOk (s : Single) : List Op → Prop
  | [] => True
  | op :: ops => HistOpOk s op ∧ HistOk (s.step op).1 ops

instance (s : Single) (op : Op) : Decidable (HistOpOk s op) := by
  cases op with
  | connect hid ns eio sid => unfold HistOpOk; infer_instance
  | emit via ev d ns to skip cb =>
    cases cb with
    | none => exact isTrue (fun h => (nomatch h))
    | some t =>
      cases to with
      | one r =>
        exact decidable_of_iff (∀ e ∈ s.srv.rooms, e.ns = ns → e.room = some r → e.sid = r)
          ⟨fun h _ r' hr => by cases hr; exact h, fun h => h rfl r rfl⟩
      | all => exact isTrue (fun _ r h => (nomatch h))
      | many rs => exact isTrue (fun _ r h => (nomatch h))
  | enter via ns sid room => exact isTrue trivial
  | leave via ns sid room => exact isTrue trivial
  | close via ns room => exact isTrue trivial
  | disconnect via ns sid => exact isTrue trivial
  | ack ns sid n args => exact isTrue trivial
  | deliver h k => exact isTrue trivial
  | drain => exact isTrue trivial

instance : (s : Single) → (ops : List Op) → Decidable (HistOk s ops)
  | _, [] => isTrue trivial
  | s, op :: ops =>
    have := instDecidableHistOk (s.step op).1 ops
    (inferInstance : Decidable (HistOpOk s op ∧ HistOk (s.step op).1 ops))

end Sio.PubSub
