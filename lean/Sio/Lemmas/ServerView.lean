/-
  K4 — containment of one transport's traffic (property C12): `view t s` forgets everything that
  is indexed by transport `t` or by a session of `t`, and the counters; a frame from `t` does
  not change it.
-/
import Sio.Lemmas.ServerEvent
namespace Sio.Server
open Sio.Rooms

/-- `sid` is a session of transport `t` -/
def onT (r : Rooms.St) (t : Eio) (sid : Sid) : Bool := r.any (fun e => e.sid = sid ∧ e.eio = t)

/-- What the rest of the world can see: everything indexed by transport `t` or by one of its
    sessions is erased, and so are the global counters (session-id counter, script counters) and
    the results delivered to `call()`s. -/
def view (t : Eio) (s : Srv) : Srv :=
  { rooms := s.rooms.filter (fun e => e.eio != t),
    pending := s.pending.filter (fun p => !onT s.rooms t p.2),
    cbs := s.cbs.filter (fun c => !onT s.rooms t c.1),
    ctr := s.ctr.filter (fun c => !onT s.rooms t c.1),
    environ := s.environ,
    binbuf := s.binbuf.filter (fun e => e.1 != t),
    sess := s.sess.filter (fun e => e.1 != t),
    socks := s.socks,
    bg := s.bg.filter (fun b => b.eio != t),
    nextSid := 0, nConn := 0, nEv := 0, nDisc := 0, nCall := s.nCall, callDone := [] }

theorem onT_iff {r : Rooms.St} {t : Eio} {sid : Sid} :
    onT r t sid = true ↔ ∃ e ∈ r, e.sid = sid ∧ e.eio = t := by
  simp [onT]

/-- two states that agree on the fields below have the same view -/
theorem view_congr {t : Eio} {s s' : Srv}
    (h1 : s'.rooms.filter (fun e => e.eio != t) = s.rooms.filter (fun e => e.eio != t))
    (h2 : s'.pending.filter (fun p => !onT s'.rooms t p.2) = s.pending.filter (fun p => !onT s.rooms t p.2))
    (h3 : s'.cbs.filter (fun c => !onT s'.rooms t c.1) = s.cbs.filter (fun c => !onT s.rooms t c.1))
    (h4 : s'.ctr.filter (fun c => !onT s'.rooms t c.1) = s.ctr.filter (fun c => !onT s.rooms t c.1))
    (h5 : s'.environ = s.environ)
    (h6 : s'.binbuf.filter (fun e => e.1 != t) = s.binbuf.filter (fun e => e.1 != t))
    (h7 : s'.sess.filter (fun e => e.1 != t) = s.sess.filter (fun e => e.1 != t))
    (h8 : s'.socks = s.socks)
    (h9 : s'.bg.filter (fun b => b.eio != t) = s.bg.filter (fun b => b.eio != t))
    (h10 : s'.nCall = s.nCall) : view t s' = view t s := by
  simp only [view, h1, h2, h3, h4, h5, h6, h7, h8, h9, h10]

/-- a change that leaves rooms, callbacks, counters, sessions … alone -/
theorem view_of_coreEq {t : Eio} {s s' : Srv} (h : CoreEq s' s)
    (hb : s'.bg.filter (fun b => b.eio != t) = s.bg.filter (fun b => b.eio != t)) :
    view t s' = view t s :=
  view_congr (by rw [h.rooms]) (by rw [h.rooms, h.pending]) (by rw [h.rooms, h.cbs])
    (by rw [h.rooms, h.ctr]) h.environ (by rw [h.binbuf]) (by rw [h.sess]) h.socks hb h.nCall

theorem view_set_binbuf {t : Eio} {s : Srv} {b : List (Eio × Partial)}
    (hb : b.filter (fun e => e.1 != t) = s.binbuf.filter (fun e => e.1 != t)) :
    view t { s with binbuf := b } = view t s :=
  view_congr rfl rfl rfl rfl rfl hb rfl rfl rfl rfl

theorem view_dropBin (t : Eio) (s : Srv) : view t (dropBin s t) = view t s :=
  view_set_binbuf (by simp [List.filter_filter])

theorem view_storeBin (t : Eio) (s : Srv) (part : Partial) (v : J) :
    view t (storeBin s t part v) = view t s :=
  view_set_binbuf (filter_setBin _ _ _)

theorem view_pushBin (t : Eio) (s : Srv) (p : Partial) :
    view t { s with binbuf := s.binbuf ++ [(t, p)] } = view t s :=
  view_set_binbuf (by simp [List.filter_append])

/-! ### `connect` on `t` -/

theorem onT_connected {s : Srv} (h : WF0 s) {ns : Ns} {t : Eio} {rooms' : Rooms.St}
    (hc : Rooms.connect s.rooms ns t (sidName s.nextSid) = some rooms') {sid : Sid}
    (hl : sidLive s.rooms sid) (t' : Eio) : onT rooms' t' sid = onT s.rooms t' sid := by
  have hne := sid_ne_fresh h hl
  rw [Bool.eq_iff_iff, onT_iff, onT_iff]
  constructor
  · rintro ⟨e, he, h1, h2⟩
    rcases (mem_connect hc e).mp he with h3 | rfl | rfl
    · exact ⟨e, h3, h1, h2⟩
    · exact absurd h1.symm hne
    · exact absurd h1.symm hne
  · rintro ⟨e, he, h1, h2⟩
    exact ⟨e, (mem_connect hc e).mpr (Or.inl he), h1, h2⟩

theorem filter_connected {s : Srv} {ns : Ns} {t : Eio} {sid : Sid} {rooms' : Rooms.St}
    (hc : Rooms.connect s.rooms ns t sid = some rooms') :
    rooms'.filter (fun e => e.eio != t) = s.rooms.filter (fun e => e.eio != t) := by
  unfold Rooms.connect at hc
  split at hc
  · cases hc
  · cases hc
    have key : ∀ (r : Rooms.St) (e : Entry), e.eio = t →
        (Rooms.add r e).filter (fun e => e.eio != t) = r.filter (fun e => e.eio != t) := by
      intro r e he
      unfold Rooms.add
      split
      · rfl
      · simp [List.filter_append, he]
    rw [key _ _ rfl, key _ _ rfl]

theorem view_connected {s : Srv} (h : WF s) {ns : Ns} {t : Eio} {rooms' : Rooms.St}
    (hc : Rooms.connect s.rooms ns t (sidName s.nextSid) = some rooms') :
    view t (connected s rooms') = view t s := by
  refine view_congr (filter_connected hc) ?_ ?_ ?_ rfl rfl rfl rfl rfl rfl
  · simp [connected, h.pendingNil]
  · apply List.filter_congr
    intro c hcm
    simp only [connected]
    rw [onT_connected h.toWF0 hc (h.cbsLive c hcm)]
  · apply List.filter_congr
    intro c hcm
    simp only [connected]
    rw [onT_connected h.toWF0 hc (h.ctrLive c hcm)]

/-! ### `disconnect` of a session of `t` -/

theorem onT_disconnect_ne {r : Rooms.St} {ns : Ns} {sid sid' : Sid} (hne : sid' ≠ sid) (t : Eio) :
    onT (Rooms.disconnect r ns sid) t sid' = onT r t sid' := by
  rw [Bool.eq_iff_iff, onT_iff, onT_iff]
  constructor
  · rintro ⟨e, he, h1, h2⟩
    exact ⟨e, (List.mem_filter.mp he).1, h1, h2⟩
  · rintro ⟨e, he, h1, h2⟩
    refine ⟨e, ?_, h1, h2⟩
    unfold Rooms.disconnect
    rw [List.mem_filter]
    refine ⟨he, ?_⟩
    have : e.sid ≠ sid := h1 ▸ hne
    simp [this]

theorem filter_disconnect {r : Rooms.St} (hi : Inv r) {ns : Ns} {sid : Sid} {t : Eio}
    (he : (⟨ns, none, sid, t⟩ : Entry) ∈ r) :
    (Rooms.disconnect r ns sid).filter (fun e => e.eio != t) = r.filter (fun e => e.eio != t) := by
  unfold Rooms.disconnect
  rw [List.filter_filter]
  apply List.filter_congr
  intro e hm
  by_cases h1 : e.ns = ns ∧ e.sid = sid
  · have := hi.sidEio e hm _ he h1.1 h1.2
    simp only at this
    simp [this]
  · simp [h1]

theorem view_mgrDisconnect {s : Srv} (h : WF s) {ns : Ns} {sid : Sid} {t : Eio}
    (he : (⟨ns, none, sid, t⟩ : Entry) ∈ s.rooms) :
    view t { mgrDisconnect s sid ns with pending := [] } = view t s := by
  have hon : onT s.rooms t sid = true := onT_iff.mpr ⟨_, he, rfl, rfl⟩
  refine view_congr (filter_disconnect h.rooms he) ?_ ?_ ?_ rfl rfl rfl rfl rfl rfl
  · simp [h.pendingNil]
  · simp only [mgrDisconnect]
    rw [List.filter_filter]
    apply List.filter_congr
    intro c _
    by_cases hc : c.1 = sid
    · simp [hc, hon]
    · rw [onT_disconnect_ne hc]; simp [hc]
  · simp only [mgrDisconnect]
    rw [List.filter_filter]
    apply List.filter_congr
    intro c _
    by_cases hc : c.1 = sid
    · simp [hc, hon]
    · rw [onT_disconnect_ne hc]; simp [hc]

theorem ending_coreEq {s : Srv} (h : WF s) (sid : Sid) (ns : Ns) (k : Nat) :
    CoreEq (ending s sid ns k) { mgrDisconnect s sid ns with pending := [] } := by
  apply core_fields
  simp [ending, mgrDisconnect, core, h.pendingNil]

theorem view_ending {s : Srv} (h : WF s) {ns : Ns} {sid : Sid} {t : Eio}
    (he : (⟨ns, none, sid, t⟩ : Entry) ∈ s.rooms) (k : Nat) :
    view t (ending s sid ns k) = view t s :=
  (view_of_coreEq (ending_coreEq h sid ns k) rfl).trans (view_mgrDisconnect h he)

/-! ### popping a callback of a session of `t` -/

theorem view_popCb {s : Srv} {sid : Sid} {t : Eio} (hon : onT s.rooms t sid = true) (i : Nat) :
    view t (popCb s sid i) = view t s := by
  refine view_congr rfl rfl ?_ rfl rfl rfl rfl rfl rfl rfl
  simp only [popCb]
  rw [List.filter_filter]
  apply List.filter_congr
  intro c _
  by_cases hc : c.1 = sid
  · simp [hc, hon]
  · simp [hc]

theorem view_set_callDone (t : Eio) (s : Srv) (c : List (Nat × List J)) :
    view t { s with callDone := c } = view t s := rfl

theorem onT_of_sidOf {r : Rooms.St} {ns : Ns} {t : Eio} {sid : Sid} (h : sidOf r ns t = some sid) :
    onT r t sid = true := onT_iff.mpr ⟨_, sidOf_some_mem h, rfl, rfl⟩

/-! ### the handlers -/

theorem view_handleConnect {s : Srv} (h : WF s) (cfg : Cfg) (t : Eio) (nsp : Option Str)
    (data : Option J) : view t (handleConnect cfg s t nsp data).1 = view t s := by
  rcases handleConnect_state cfg s t nsp data with h1 | ⟨rooms', k, _, hc, h1 | ⟨p, hp, h1⟩⟩
  · rw [h1]
  · rw [h1]
    exact (view_of_coreEq (core_fields rfl) rfl).trans (view_connected h hc)
  · rw [h1, refusedSt_eq h.toWF0 hc]
    refine view_congr rfl ?_ rfl rfl rfl rfl rfl rfl rfl rfl
    rcases hp with rfl | rfl <;> simp [h.pendingNil]

theorem view_handleDisconnect {s : Srv} (h : WF s) (cfg : Cfg) (t : Eio) (ns : Ns) (reason : Str) :
    view t (handleDisconnect cfg s t ns reason).1 = view t s := by
  rcases handleDisconnect_state cfg s t ns reason with ⟨h1, _⟩ | ⟨sid, k, hs, _, h1⟩
  · rw [h1]
  · rw [h1]; exact view_ending h (sidOf_some_mem hs) k

theorem runHandler_bg (cfg : Cfg) (s : Srv) (b : Bg) : (runHandler cfg s b).1.bg = s.bg := by
  unfold runHandler
  split
  · rfl
  · rename_i r _
    cases r <;> dsimp only <;> (try cases cfg.script.onEvent s.nEv) <;> rfl

theorem handleEvent_bg (cfg : Cfg) (s : Srv) (t : Eio) (nsp : Option Str) (id : Option Nat)
    (data : Option J) :
    (handleEvent cfg s t nsp id data).1.bg.filter (fun b => b.eio != t) =
      s.bg.filter (fun b => b.eio != t) := by
  unfold handleEvent
  dsimp only
  split
  · rfl
  · split
    · rfl
    · split
      · rfl
      · split
        · simp [List.filter_append]
        · rw [runHandler_bg]

theorem view_handleEvent (cfg : Cfg) (s : Srv) (t : Eio) (nsp : Option Str) (id : Option Nat)
    (data : Option J) : view t (handleEvent cfg s t nsp id data).1 = view t s :=
  view_of_coreEq (core_fields (handleEvent_core ..)) (handleEvent_bg ..)

theorem view_handleAck (s : Srv) (t : Eio) (nsp : Option Str) (id : Option Nat) (data : Option J) :
    view t (handleAck s t nsp id data).1 = view t s := by
  rcases handleAck_state s t nsp id data with h1 | ⟨sid, i, tok, hs, _, _, h1 | ⟨n, args, _, _, h1⟩⟩
  · rw [h1]
  · rw [h1]; exact view_popCb (onT_of_sidOf hs) i
  · rw [h1]; exact (view_set_callDone t _ _).trans (view_popCb (onT_of_sidOf hs) i)

/-- **a frame from `t` does not change what the others see** -/
theorem view_handleFrame {s : Srv} (h : WF s) (dec : Str → Except Err (Packet × Nat)) (cfg : Cfg)
    (t : Eio) (v : J) : view t (handleFrame dec cfg s t v).1 = view t s := by
  have key : ∀ r, FrameCase dec cfg s t v r → view t r.1 = view t s := by
    intro r hfc
    cases hfc with
    | tooMany _ _ => rfl
    | reconErr _ _ _ _ => exact view_storeBin ..
    | binEvent _ _ _ _ _ => exact (view_handleEvent ..).trans (view_dropBin t s)
    | binAck _ _ _ _ _ => exact (view_handleAck ..).trans (view_dropBin t s)
    | more _ _ _ => exact view_storeBin ..
    | undecodable _ _ => rfl
    | packet hf hd =>
      rename_i p natt
      have hdc := dispatchCase cfg s t p natt
      generalize dispatchPacket cfg s t p natt = r' at hdc
      cases hdc with
      | connect _ => exact view_handleConnect h ..
      | disconnect _ => exact view_handleDisconnect h ..
      | event _ => exact view_handleEvent ..
      | ack _ => exact view_handleAck ..
      | binHeader _ => exact view_pushBin ..
      | other => rfl
  exact key _ (frameCase dec cfg s t v)

/-! ### what equal views mean for a bystander -/

theorem getRooms_filter {r : Rooms.St} {t : Eio} {sid : Sid} (h : onT r t sid = false) (ns : Ns) :
    getRooms (r.filter (fun e => e.eio != t)) ns sid = getRooms r ns sid := by
  have hno : ∀ e ∈ r, e.sid = sid → e.eio ≠ t := by
    intro e he h1 h2
    have := onT_iff.mpr ⟨e, he, h1, h2⟩
    rw [h] at this; cases this
  unfold getRooms
  induction r with
  | nil => rfl
  | cons a r ih =>
    have ih' := ih (by
      rw [Bool.eq_false_iff]; intro hc
      obtain ⟨e, he, h1, h2⟩ := onT_iff.mp hc
      exact hno e (List.mem_cons_of_mem _ he) h1 h2)
      (fun e he => hno e (List.mem_cons_of_mem _ he))
    simp only [List.filter_cons]
    by_cases ha : a.eio = t
    · have hs : ¬ (a.ns = ns ∧ a.sid = sid) := fun hq => hno a List.mem_cons_self hq.2 ha
      simp only [ha, bne_self_eq_false, Bool.false_eq_true, if_false, List.filterMap_cons, hs]
      exact ih'
    · have : (a.eio != t) = true := by simp [ha]
      simp only [this, if_true, List.filterMap_cons]
      rw [ih']

theorem eioOf_filter {r : Rooms.St} {t : Eio} {sid : Sid} (h : onT r t sid = false) (ns : Ns) :
    eioOf (r.filter (fun e => e.eio != t)) ns sid = eioOf r ns sid := by
  have hno : ∀ e ∈ r, e.sid = sid → e.eio ≠ t := by
    intro e he h1 h2
    have := onT_iff.mpr ⟨e, he, h1, h2⟩
    rw [h] at this; cases this
  unfold eioOf
  congr 1
  clear h
  induction r with
  | nil => rfl
  | cons a r ih =>
    have ih' := ih (fun e he => hno e (List.mem_cons_of_mem _ he))
    simp only [List.filter_cons]
    by_cases ha : a.eio = t
    · have hs : ¬ (a.ns = ns ∧ a.room = none ∧ a.sid = sid) :=
        fun hq => hno a List.mem_cons_self hq.2.2 ha
      simp only [ha, bne_self_eq_false, Bool.false_eq_true, if_false, List.find?_cons, hs,
        decide_false]
      exact ih'
    · have : (a.eio != t) = true := by simp [ha]
      simp only [this, if_true, List.find?_cons]
      rw [ih']

theorem ctrOf_filter_onT {c : List (Sid × Nat)} {r : Rooms.St} {t : Eio} {sid : Sid}
    (h : onT r t sid = false) : ctrOf (c.filter (fun x => !onT r t x.1)) sid = ctrOf c sid := by
  induction c with
  | nil => rfl
  | cons a c ih =>
    simp only [List.filter_cons]
    by_cases ha : a.1 = sid
    · have : (!onT r t a.1) = true := by rw [ha, h]; rfl
      rw [if_pos this, ctrOf_cons, ctrOf_cons, if_pos ha, if_pos ha]
    · by_cases hb : (!onT r t a.1) = true
      · simp only [hb, if_true, ctrOf_cons, ha, if_false]; exact ih
      · simp only [hb, if_false, ctrOf_cons, ha]; exact ih

theorem cbs_filter_onT {c : List (Sid × Nat × CbTok)} {r : Rooms.St} {t : Eio} {sid : Sid}
    (h : onT r t sid = false) :
    (c.filter (fun x => !onT r t x.1)).filter (fun x => x.1 == sid) = c.filter (fun x => x.1 == sid) := by
  rw [List.filter_filter]
  apply List.filter_congr
  intro x _
  by_cases hx : x.1 = sid
  · simp [hx, h]
  · simp [hx]

theorem sessGet_filter {l : List (Eio × Ns × J)} {t t' : Eio} (hne : t' ≠ t) (ns : Ns) :
    ((l.filter (fun e => e.1 != t)).find? (fun e => e.1 = t' ∧ e.2.1 = ns)) =
      l.find? (fun e => e.1 = t' ∧ e.2.1 = ns) := by
  induction l with
  | nil => rfl
  | cons a l ih =>
    simp only [List.filter_cons]
    by_cases ha : a.1 = t
    · have hs : ¬ (a.1 = t' ∧ a.2.1 = ns) := fun hq => hne (hq.1.symm.trans ha)
      simp only [ha, bne_self_eq_false, Bool.false_eq_true, if_false, List.find?_cons]
      rw [ih]
      have : decide (t = t' ∧ a.2.1 = ns) = false := decide_eq_false (fun hq => hne hq.1.symm)
      rw [this]
    · have : (a.1 != t) = true := by simp [ha]
      simp only [this, if_true, List.find?_cons]
      rw [ih]

/-- Two states with the same view: every public query about a session that is not on `t` — its
    rooms, its transport, its outstanding callbacks, its ack counter — and about the stored
    sessions of every other transport gives the same answer. -/
theorem bystander_of_view {t : Eio} {s s' : Srv} (hv : view t s' = view t s) {sid : Sid}
    (h1 : onT s.rooms t sid = false) (h2 : onT s'.rooms t sid = false) :
    (∀ ns, getRooms s'.rooms ns sid = getRooms s.rooms ns sid) ∧
    (∀ ns, eioOf s'.rooms ns sid = eioOf s.rooms ns sid) ∧
    s'.cbs.filter (fun x => x.1 == sid) = s.cbs.filter (fun x => x.1 == sid) ∧
    ctrOf s'.ctr sid = ctrOf s.ctr sid ∧
    (∀ t' ns, t' ≠ t → sessGet s' t' ns = sessGet s t' ns) := by
  have v1 : (view t s').rooms = (view t s).rooms := by rw [hv]
  have v2 : (view t s').cbs = (view t s).cbs := by rw [hv]
  have v3 : (view t s').ctr = (view t s).ctr := by rw [hv]
  have v7 : (view t s').sess = (view t s).sess := by rw [hv]
  simp only [view] at v1 v2 v3 v7
  refine ⟨?_, ?_, ?_, ?_, ?_⟩
  · intro ns; rw [← getRooms_filter h2, v1, getRooms_filter h1]
  · intro ns; rw [← eioOf_filter h2, v1, eioOf_filter h1]
  · rw [← cbs_filter_onT h2, v2, cbs_filter_onT h1]
  · rw [← ctrOf_filter_onT h2, v3, ctrOf_filter_onT h1]
  · intro t' ns hne
    unfold sessGet
    rw [← sessGet_filter hne, v7, sessGet_filter hne]

/-! ### a session id never moves to another transport -/

/-- `sidName k` is allocated and every room entry it has is on transport `t'` -/
def BoundTo (k : Nat) (t' : Eio) (s : Srv) : Prop :=
  k < s.nextSid ∧ ∀ e ∈ s.rooms, e.sid = sidName k → e.eio = t'

theorem BoundTo.prim {k : Nat} {t' : Eio} {s s' : Srv} (_hw : WF s) (p : Prim s s')
    (h : BoundTo k t' s) : BoundTo k t' s' := by
  obtain ⟨hk, hb⟩ := h
  cases p with
  | core hq => have := core_fields hq; exact ⟨this.nextSid ▸ hk, this.rooms ▸ hb⟩
  | disc _ hq =>
    have := core_fields hq
    refine ⟨this.nextSid ▸ hk, ?_⟩
    rw [this.rooms]
    intro e he
    exact hb e (List.mem_filter.mp he).1
  | connect hc =>
    refine ⟨Nat.lt_succ_of_lt hk, ?_⟩
    intro e he hs
    rcases (mem_connect hc e).mp he with h1 | rfl | rfl
    · exact hb e h1 hs
    · have := sidName_inj hs; omega
    · have := sidName_inj hs; omega
  | rooms _ hsub _ =>
    refine ⟨hk, ?_⟩
    intro e he hs
    obtain ⟨e', he', h1, _, h3⟩ := hsub e he
    rw [← h3]; exact hb e' he' (h1.trans hs)
  | sess ns v _ => exact ⟨by unfold sessSet; split <;> exact hk, by unfold sessSet; split <;> exact hb⟩
  | bumpCall | callDone _ _ | cbsFilter _ | addCb _ _ _ | binbuf _ | eioConnect _ | drop _ =>
    exact ⟨hk, hb⟩

theorem boundTo_of_eioOf {s : Srv} (h : WF s) {ns : Ns} {sid : Sid} {t' : Eio}
    (he : eioOf s.rooms ns sid = some t') : ∃ k, sid = sidName k ∧ BoundTo k t' s := by
  obtain ⟨k, hk, hs⟩ := h.sidAlloc _ (eioOf_some_mem he)
  simp only at hs
  refine ⟨k, hs, hk, ?_⟩
  intro e hm heq
  have hns := h.sidNs e hm _ (eioOf_some_mem he) (heq.trans hs.symm)
  exact h.rooms.sidEio e hm _ (eioOf_some_mem he) hns (heq.trans hs.symm)

theorem not_onT_of_boundTo {k : Nat} {t t' : Eio} {s : Srv} (h : BoundTo k t' s) (hne : t' ≠ t) :
    onT s.rooms t (sidName k) = false := by
  rw [Bool.eq_false_iff]
  intro hc
  obtain ⟨e, he, h1, h2⟩ := onT_iff.mp hc
  exact hne ((h.2 e he h1).symm.trans h2)

end Sio.Server
