/-
  Helper lemmas for K6 (pub/sub): the callback relay end to end — an acknowledged event whose relay
  entry points at a user callback on the issuing host invokes exactly that callback, with the
  client's arguments, once every host has drained.
-/
import Sio.Lemmas.PubSubTokOps
namespace Sio.PubSub
open Sio.Rooms

/-- the host state after `callbacks[key][id]` has been removed -/
def delCb (h : Host) (key : Str) (id : Nat) : Host :=
  { h with cbs := fun k j => if k = key ∧ j = id then none else h.cbs k j }

theorem trigger_user (f : Nat) (h : Host) (key : Str) (id : Nat) (t : Nat) (xs : List J)
    (hc : h.cbs key id = some (.user t)) :
    trigger (f + 1) h key id (some xs) = { h := delCb h key id, outs := [.callback h.id t xs] } := by
  simp [trigger, hc, delCb]

theorem trigger_relay_remote (f : Nat) (h : Host) (key : Str) (id : Nat) (o : Option HostId) (k : Str)
    (n : Ns) (i : Nat) (xs : List J) (hc : h.cbs key id = some (.relay o k n i)) (ho : o ≠ some h.id) :
    trigger (f + 1) h key id (some xs) =
      { h := delCb h key id, pubs := [.callback o k n i xs] } := by
  simp [trigger, hc, delCb, ho]

theorem trigger_relay_local (f : Nat) (h : Host) (key : Str) (id : Nat) (k : Str) (n : Ns) (i : Nat)
    (xs : List J) (hc : h.cbs key id = some (.relay (some h.id) k n i)) :
    trigger (f + 1) h key id (some xs) = trigger f (delCb h key id) k i (some xs) := by
  simp [trigger, hc, delCb]

/-- the callback invocations among the outputs -/
def cbOuts (outs : List Out) : List Out := outs.filter isCallbackOut

theorem cbOuts_append (a b : List Out) : cbOuts (a ++ b) = cbOuts a ++ cbOuts b := by
  simp [cbOuts]

/-- a drain pass over hosts that have all consumed everything but the last entry `m`, when
    applying `m` publishes nothing -/
theorem drainHosts_last (chan : List Msg) (m : Msg) (hosts : List Host)
    (hcur : ∀ h ∈ hosts, h.cursor = chan.length)
    (hnp : ∀ h ∈ hosts, (listenMsg h m).pubs = []) :
    (drainHosts (chan ++ [m]) hosts).2.1 = hosts.flatMap (fun h => (listenMsg h m).outs) := by
  induction hosts with
  | nil => rfl
  | cons h hs ih =>
    have hc := hcur h List.mem_cons_self
    have hb : ((chan ++ [m]).drop h.cursor).take (chan ++ [m]).length = [m] := by
      rw [hc, List.drop_left]; simp
    have hd : deliverOn (chan ++ [m]) (chan ++ [m]).length h =
        { h := { (listenMsg h m).h with cursor := h.cursor + 1 }, outs := (listenMsg h m).outs ++ [],
          pubs := (listenMsg h m).pubs ++ [] } := by
      simp only [deliverOn, hb, catchUp, List.length_singleton]
    simp only [drainHosts, List.flatMap_cons]
    rw [hd]
    simp only [List.append_nil, hnp h List.mem_cons_self]
    rw [ih (fun x hx => hcur x (List.mem_cons_of_mem _ hx)) (fun x hx => hnp x (List.mem_cons_of_mem _ hx))]

/-- a drain pass when every host has consumed everything: nothing happens -/
theorem drainHosts_idle (chan : List Msg) (hosts : List Host) (hcur : ∀ h ∈ hosts, h.cursor = chan.length) :
    (drainHosts chan hosts).2.1 = [] := by
  induction hosts with
  | nil => rfl
  | cons h hs ih =>
    have hc := hcur h List.mem_cons_self
    have hb : (chan.drop h.cursor).take chan.length = [] := by rw [hc, List.drop_length, List.take_nil]
    have hd : (deliverOn chan chan.length h).outs = [] ∧ (deliverOn chan chan.length h).pubs = [] := by
      simp [deliverOn, hb, catchUp]
    simp only [drainHosts, hd.1, hd.2, List.append_nil, List.nil_append]
    exact ih (fun x hx => hcur x (List.mem_cons_of_mem _ hx))

theorem find_connected {home : Sid → HostId} {c : Cluster} (hrun : Running home c) {hs : Host}
    (hhs : hs ∈ c.hosts) {ns : Ns} {sid : Sid} (hconn : hs.connected ns sid = true) :
    c.hosts.find? (fun h => h.connected ns sid) = some hs := by
  have hhome : ∀ h ∈ c.hosts, h.connected ns sid = true → home sid = h.id := by
    intro h hh hc
    obtain ⟨eio, he⟩ := Option.isSome_iff_exists.mp hc
    exact hrun.home h hh _ (eioOf_some_mem he)
  cases hf : c.hosts.find? (fun h => h.connected ns sid) with
  | none =>
    have := List.find?_eq_none.mp hf hs hhs
    simp [hconn] at this
  | some h0 =>
    have h0in := List.mem_of_find?_eq_some hf
    have h0c : h0.connected ns sid = true := by simpa using List.find?_some hf
    have : h0 = hs := eq_of_id_eq hrun.ids h0in hhs
      ((hhome h0 h0in h0c).symm.trans (hhome hs hhs hconn))
    rw [this]

theorem apiAck_eq (h : Host) (sid : Sid) (id : Nat) (args : List J) :
    apiAck h sid id args = trigger chainFuel h sid id (some args) := by
  have he := trigger_err_none chainFuel h sid id args
  simp only [apiAck, he]

/-- **The relay, end to end.**  All hosts have drained.  Client `sid` (on host `hs`) acknowledges the
    `n`-th event that asked it to; the relay entry of that event on `hs` names host `hv` and the slot
    `(k, id0)`, where `hv` still holds the user callback `tok`.  Then the acknowledgement followed by
    one drain pass invokes exactly one callback: `tok`, on `hv`, with the client's arguments. -/
theorem callback_delivered {home : Sid → HostId} (c : Cluster) (hrun : Running home c)
    (hdr : ∀ h ∈ c.hosts, h.cursor = c.chan.length) (hs hv : Host) (hhs : hs ∈ c.hosts)
    (hhv : hv ∈ c.hosts) (ns : Ns) (sid : Sid) (n ic : Nat) (args : List J) (k : Str) (ns' : Ns)
    (id0 tok : Nat) (hconn : hs.connected ns sid = true) (hnth : nthAsked c.asked sid n = some ic)
    (hrel : hs.cbs sid ic = some (.relay (some hv.id) k ns' id0))
    (huser : hv.cbs k id0 = some (.user tok)) :
    cbOuts ((step c (.ack ns sid n args)).2 ++ (step (step c (.ack ns sid n args)).1 .drain).2) =
      [.callback hv.id tok args] := by
  have hstep : step c (.ack ns sid n args) = c.on hs.id (fun h => apiAck h sid ic args) := by
    show (match c.hosts.find? (fun h => h.connected ns sid), nthAsked c.asked sid n with
      | some h, some i => c.on h.id (fun h => apiAck h sid i args)
      | _, _ => (c, [])) = _
    rw [find_connected hrun hhs hconn, hnth]
  rw [hstep]
  have hout : (c.on hs.id (fun h => apiAck h sid ic args)).2 = (apiAck hs sid ic args).outs :=
    flatMap_if_id c.hosts hrun.ids hs hhs _
  have hpub : c.hosts.flatMap (fun h => if h.id = hs.id then (apiAck h sid ic args).pubs else []) =
      (apiAck hs sid ic args).pubs := flatMap_if_id c.hosts hrun.ids hs hhs _
  have hchan : (c.on hs.id (fun h => apiAck h sid ic args)).1.chan = c.chan ++ (apiAck hs sid ic args).pubs := by
    show c.chan ++ c.hosts.flatMap (fun h => if h.id = hs.id then (apiAck h sid ic args).pubs else []) = _
    rw [hpub]
  have hhosts : (c.on hs.id (fun h => apiAck h sid ic args)).1.hosts =
      c.hosts.map (fun h => if h.id = hs.id then (apiAck h sid ic args).h else h) := rfl
  have hdrain : (step (c.on hs.id (fun h => apiAck h sid ic args)).1 .drain).2 =
      (drainHosts (c.on hs.id (fun h => apiAck h sid ic args)).1.chan
        (c.on hs.id (fun h => apiAck h sid ic args)).1.hosts).2.1 := rfl
  have hcur' : ∀ h' ∈ (c.on hs.id (fun h => apiAck h sid ic args)).1.hosts, h'.cursor = c.chan.length := by
    intro h' hh'
    rw [hhosts] at hh'
    obtain ⟨h, hh, rfl⟩ := List.mem_map.mp hh'
    split
    · rw [apiAck_eq, trigger_cursor]; exact hdr h hh
    · exact hdr h hh
  rw [hout, hdrain, hchan, cbOuts_append]
  by_cases hsame : hv.id = hs.id
  · -- the issuing host is the client's own host
    have : hv = hs := eq_of_id_eq hrun.ids hhv hhs hsame
    subst this
    have hne : ¬ (k = sid ∧ id0 = ic) := by
      rintro ⟨rfl, rfl⟩
      rw [hrel] at huser; cases huser
    have hdel : (delCb hv sid ic).cbs k id0 = some (.user tok) := by
      simp only [delCb, if_neg hne]; exact huser
    have hack : apiAck hv sid ic args =
        { h := delCb (delCb hv sid ic) k id0, outs := [.callback hv.id tok args] } := by
      rw [apiAck_eq]
      show trigger (7 + 1) hv sid ic (some args) = _
      rw [trigger_relay_local 7 hv sid ic k ns' id0 args hrel]
      exact trigger_user 6 (delCb hv sid ic) k id0 tok args hdel
    rw [hack]
    simp only [List.append_nil]
    rw [drainHosts_idle c.chan _ hcur']
    rfl
  · -- the acknowledgement travels the channel to the issuing host
    have ho : (some hv.id : Option HostId) ≠ some hs.id := by simpa using hsame
    have hack : apiAck hs sid ic args =
        { h := delCb hs sid ic, pubs := [.callback (some hv.id) k ns' id0 args] } := by
      rw [apiAck_eq]
      exact trigger_relay_remote 7 hs sid ic (some hv.id) k ns' id0 args hrel ho
    rw [hack]
    have hl : ∀ h' ∈ (c.on hs.id (fun h => apiAck h sid ic args)).1.hosts,
        listenMsg h' (.callback (some hv.id) k ns' id0 args) =
          if h'.id = hv.id then { h := delCb hv k id0, outs := [.callback hv.id tok args] } else { h := h' } := by
      intro h' hh'
      rw [listenMsg_callback]
      rw [hhosts] at hh'
      obtain ⟨h, hh, rfl⟩ := List.mem_map.mp hh'
      by_cases hid : h.id = hs.id
      · have : h = hs := eq_of_id_eq hrun.ids hh hhs hid
        subst this
        rw [if_pos rfl, hack]
        have h1 : ¬ (some hv.id = some (delCb h sid ic).id) := fun he => ho he
        have h2 : ¬ ((delCb h sid ic).id = hv.id) := fun he => hsame he.symm
        rw [if_neg h1, if_neg h2]
      · rw [if_neg hid]
        by_cases hv' : h.id = hv.id
        · have : h = hv := eq_of_id_eq hrun.ids hh hhv hv'
          subst this
          rw [if_pos rfl, if_pos rfl]
          exact trigger_user 7 h k id0 tok args huser
        · have h1 : ¬ (some hv.id = some h.id) := by simpa using fun he : hv.id = h.id => hv' he.symm
          rw [if_neg h1, if_neg hv']
    have hnp : ∀ h' ∈ (c.on hs.id (fun h => apiAck h sid ic args)).1.hosts,
        (listenMsg h' (.callback (some hv.id) k ns' id0 args)).pubs = [] := by
      intro h' hh'
      rw [hl h' hh']; split <;> rfl
    show cbOuts [] ++ cbOuts (drainHosts (c.chan ++ [Msg.callback (some hv.id) k ns' id0 args]) _).2.1 = _
    rw [drainHosts_last c.chan _ _ hcur' hnp]
    rw [flatMap_congr' (g := fun h' => if h'.id = hv.id then [Out.callback hv.id tok args] else [])
      (fun h' hh' => by rw [hl h' hh']; split <;> rfl)]
    have hids' : ((c.on hs.id (fun h => apiAck h sid ic args)).1.hosts.map Host.id).Nodup := by
      rw [hhosts, List.map_map]
      have : c.hosts.map (Host.id ∘ fun h => if h.id = hs.id then (apiAck h sid ic args).h else h) =
          c.hosts.map Host.id := by
        apply List.map_congr_left
        intro h _
        simp only [Function.comp]
        split
        · rw [apiAck_eq, trigger_id]
        · rfl
      rw [this]; exact hrun.ids
    have hvin' : hv ∈ (c.on hs.id (fun h => apiAck h sid ic args)).1.hosts := by
      rw [hhosts]
      refine List.mem_map.mpr ⟨hv, hhv, ?_⟩
      rw [if_neg hsame]
    rw [flatMap_if_id _ hids' hv hvin' (fun _ => [Out.callback hv.id tok args])]
    rfl

/-! ### the acknowledgement's arguments are never altered on the way -/

/-- every callback invoked in `outs` gets exactly `xs`, every `callback` message in `pubs` carries
    exactly `xs` -/
def CarriesArgs (xs : List J) (r : Res) : Prop :=
  (∀ o ∈ r.outs, ∀ host t a, o = Out.callback host t a → a = xs) ∧
  (∀ m ∈ r.pubs, ∀ o k n i a, m = Msg.callback o k n i a → a = xs)

theorem trigger_carries (fuel : Nat) (h : Host) (key : Str) (id : Nat) (xs : List J) :
    CarriesArgs xs (trigger fuel h key id (some xs)) := by
  induction fuel generalizing h key id with
  | zero => exact ⟨fun o ho => (nomatch ho), fun m hm => (nomatch hm)⟩
  | succ n ih =>
    unfold trigger
    split
    · exact ⟨fun o ho => (nomatch ho), fun m hm => (nomatch hm)⟩
    · rename_i cb _
      cases cb with
      | user t =>
        refine ⟨?_, fun m hm => (nomatch hm)⟩
        intro o ho host t' a he
        simp only [List.mem_singleton] at ho
        subst ho; cases he; rfl
      | relay origin key' ns' id' =>
        simp only
        split
        · exact ih _ _ _
        · refine ⟨fun o ho => (nomatch ho), ?_⟩
          intro m hm o k n i a he
          simp only [List.mem_singleton] at hm
          subst hm; cases he; rfl

end Sio.PubSub
