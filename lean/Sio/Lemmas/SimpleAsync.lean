/-
  asyncio variant of the SimpleClient hand-off model (K9): what the one-block execution of the
  consumer adds to the invariants of the thread variant.
-/
import Sio.Lemmas.Simple
namespace Sio.Simple

/-! ### asyncio variant: `self.connected` is read and the buffer tested within one block

In the thread variant a connection handler can run between the read of `self.connected` (r2) and the
test of the buffer (r2b); in the asyncio variant there is no await between them, so a
DisconnectedError of `receive()` is raised in a state in which `connected` is (still) false. -/

/-- every DisconnectedError of receive() so far was raised with `connected = False`, and the consumer
    is not between the read and the buffer test with `connected = True` -/
def RdOK (s : State) : Prop :=
  (∀ e ∈ s.log, e.1 = Outcome.disconnectedErr → e.2.pc = .r2b → e.2.conn = false) ∧
  (s.cpc = .r2b → s.conn = false)

theorem rdok_finish {s : State} (o : Outcome) (h : RdOK s) : RdOK (finish s o) := by
  obtain ⟨hl, hc2⟩ := h
  refine ⟨?_, by simp [finish]⟩
  intro e he
  simp only [finish, List.mem_append, List.mem_singleton] at he
  rcases he with he | he
  · exact hl e he
  · subst he; intro _ hp; exact hc2 (by simpa [view] using hp)

theorem rdok_of_eq {s s' : State} (h : RdOK s) (hl : s'.log = s.log) (hc : s'.cpc = .r2b → s'.conn = false) :
    RdOK s' := ⟨by rw [hl]; exact h.1, hc⟩

theorem rdok_cons {s : State} (ok : Bool) (h : RdOK s) : RdOK (consStep s ok) := by
  cases hc : s.cpc <;> simp only [consStep, hc]
  case idle => exact h
  case r5 =>
    split
    next x rest _ =>
      have := rdok_finish (.returned x) h
      exact ⟨this.1, by simp [finish]⟩
    · exact rdok_finish _ h
  all_goals first
    | exact rdok_of_eq h rfl (by simp)
    | (split
       · first | exact rdok_finish _ h | exact rdok_of_eq h rfl (by simp_all)
       · first | exact rdok_finish _ h | exact rdok_of_eq h rfl (by simp_all))

theorem rdok_consRun (fuel : Nat) {s : State} (h : RdOK s) : RdOK (Async.consRun fuel s) := by
  induction fuel generalizing s with
  | zero => exact h
  | succ n ih =>
    unfold Async.consRun
    split
    · exact h
    · exact ih (rdok_cons true h)

theorem stop_not_r2b {s : State} (h : Async.stop s = true) : s.cpc ≠ .r2b := by
  intro hc
  simp [Async.stop, blocked, hc] at h

theorem prodStep_same (s : State) :
    (prodStep s).log = s.log ∧ (prodStep s).cpc = s.cpc ∧ (prodStep s).conn = s.conn := by
  unfold prodStep; split <;> simp [setInput]

theorem connStep_same (s : State) (k : Conn) : (connStep s k).log = s.log ∧ (connStep s k).cpc = s.cpc := by
  unfold connStep; split
  · cases k <;> simp
  · simp [setConn]
  · simp [setConn]

/-- at the boundaries of asyncio steps the consumer is never between the read and the buffer test -/
theorem ard_astep {s : State} (c : Choice) (h : RdOK s ∧ s.cpc ≠ .r2b) :
    RdOK (Async.step s c) ∧ (Async.step s c).cpc ≠ .r2b := by
  obtain ⟨h1, h2⟩ := h
  cases c with
  | prod =>
    have a := prodStep_same s
    have b := prodStep_same (prodStep s)
    have hc : (prodStep (prodStep s)).cpc = s.cpc := by rw [b.2.1, a.2.1]
    show RdOK (prodStep (prodStep s)) ∧ (prodStep (prodStep s)).cpc ≠ .r2b
    refine ⟨rdok_of_eq h1 (by rw [b.1, a.1]) (fun hh => absurd (hc ▸ hh) h2), by rw [hc]; exact h2⟩
  | cons ok =>
    show RdOK (Async.consRun Async.fuel (consStep s ok)) ∧ (Async.consRun Async.fuel (consStep s ok)).cpc ≠ .r2b
    exact ⟨rdok_consRun _ (rdok_cons ok h1), stop_not_r2b (consRun_stops _)⟩
  | timeout =>
    simp only [Async.step, timeoutStep]
    split
    · exact ⟨rdok_finish _ h1, by simp [finish]⟩
    · exact ⟨h1, h2⟩
  | conn k =>
    have a := connStep_same s k
    have b := connStep_same (connStep s k) k
    cases k with
    | disconnect =>
      show RdOK (connStep s .disconnect) ∧ (connStep s .disconnect).cpc ≠ .r2b
      exact ⟨rdok_of_eq h1 a.1 (fun hh => absurd (a.2 ▸ hh) h2), by rw [a.2]; exact h2⟩
    | connect =>
      have hc : (connStep (connStep s .connect) .connect).cpc = s.cpc := by rw [b.2, a.2]
      show RdOK (connStep (connStep s .connect) .connect) ∧ (connStep (connStep s .connect) .connect).cpc ≠ .r2b
      exact ⟨rdok_of_eq h1 (by rw [b.1, a.1]) (fun hh => absurd (hc ▸ hh) h2), by rw [hc]; exact h2⟩
    | final =>
      have hc : (connStep (connStep s .final) .final).cpc = s.cpc := by rw [b.2, a.2]
      show RdOK (connStep (connStep s .final) .final) ∧ (connStep (connStep s .final) .final).cpc ≠ .r2b
      exact ⟨rdok_of_eq h1 (by rw [b.1, a.1]) (fun hh => absurd (hc ▸ hh) h2), by rw [hc]; exact h2⟩
  | start op =>
    simp only [Async.step, startStep]
    split
    · cases op
      · exact ⟨rdok_of_eq h1 rfl (by simp), by simp⟩
      · exact ⟨rdok_of_eq h1 rfl (by simp), by simp⟩
    · exact ⟨h1, h2⟩

theorem ard_areach (sched : List Choice) : RdOK (Async.run init sched) := by
  have : ∀ (l : List Choice) (s : State), RdOK s ∧ s.cpc ≠ .r2b → RdOK (Async.run s l) ∧ (Async.run s l).cpc ≠ .r2b := by
    intro l
    induction l with
    | nil => intro s h; exact h
    | cons c cs ih => intro s h; exact ih _ (ard_astep c h)
  exact (this sched init ⟨⟨by simp [init], by simp [init]⟩, by simp [init]⟩).1

end Sio.Simple
