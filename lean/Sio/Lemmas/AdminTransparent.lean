/-
  K10 on K4 — the reporting wrappers are transparent (property C18, last clause).

  `appPart a s` removes the admin namespace `a` from the server state.  Every handler of the server
  core, run for a namespace other than `a`, commutes with `appPart a` and produces the same
  outputs whether the registry is the application's or the instrumented one (section B); run for
  `a` itself it leaves `appPart a s` alone up to the positions of the id generator and of the
  script, and produces nothing an application client or the application can see (section C).
  From these: one input on the instrumented server simulates the same input on the plain server
  started in `appPart a s` (`step_sim`), and histories follow by induction (`trace_sim`).

  Read-only / production mode (last sections): no output of any step of any history is the
  invocation of a mutator (`step_run_noMut`, `stepWith_noMut`, `noMutator_ro`), so `quiet` is its
  second half (`quiet_ro`), which holds outright with synchronous handlers (`settleQuiet_sync`);
  one admin request is inert from any state (`stepWith_adminEvent_ro`, `runHandler_admin_ro`); the
  instrumented run simulates the plain run on the history without the admin clients' EVENT
  frames (`pruned_sim`).
-/
import Sio.Lemmas.Admin
import Sio.Lemmas.ServerStep
import Sio.Lemmas.ServerFrame
namespace Sio.Admin
open Sio.Server Sio.Rooms

set_option linter.unusedSimpArgs false
set_option linter.unusedSectionVars false

/-! ### the rooms relation without the admin namespace -/

/-- `appPart`'s rooms -/
def appR (a : Ns) (r : Rooms.St) : Rooms.St := r.filter (fun e => e.ns != a)

theorem mem_appR {a : Ns} {r : Rooms.St} {e : Entry} : e ∈ appR a r ↔ e ∈ r ∧ e.ns ≠ a := by
  simp [appR, List.mem_filter]

theorem find_filter_imp {α : Type} (l : List α) (p q : α → Bool)
    (h : ∀ x ∈ l, p x = true → q x = true) : (l.filter q).find? p = l.find? p := by
  induction l with
  | nil => rfl
  | cons x l ih =>
    have ih' := ih (fun y hy => h y (List.mem_cons_of_mem _ hy))
    simp only [List.filter_cons]
    by_cases hq : q x = true
    · simp only [hq, if_true, List.find?_cons]; rw [ih']
    · have hp : p x = false := by
        rw [Bool.eq_false_iff]; intro hp; exact hq (h x List.mem_cons_self hp)
      simp only [hq, Bool.false_eq_true, if_false, List.find?_cons, hp]; exact ih'

section app
variable {a ns : Ns} (hne : ns ≠ a)
include hne

theorem sidOf_app (r : Rooms.St) (t : Eio) : sidOf (appR a r) ns t = sidOf r ns t := by
  unfold sidOf appR
  rw [find_filter_imp]
  intro e _ he
  simp only [decide_eq_true_eq] at he
  simp [he.1, hne]

theorem eioOf_app (r : Rooms.St) (sid : Sid) : eioOf (appR a r) ns sid = eioOf r ns sid := by
  unfold eioOf appR
  rw [find_filter_imp]
  intro e _ he
  simp only [decide_eq_true_eq] at he
  simp [he.1, hne]

theorem hasNs_app (r : Rooms.St) : hasNs (appR a r) ns = hasNs r ns := by
  unfold hasNs appR
  rw [List.any_filter]
  congr 1; funext e
  by_cases h : e.ns = ns <;> simp [h, hne]

theorem filter_ns_app (r : Rooms.St) (p : Entry → Bool) (hp : ∀ e, p e = true → e.ns = ns) :
    (appR a r).filter p = r.filter p := by
  unfold appR
  rw [List.filter_filter]
  apply List.filter_congr
  intro e _
  by_cases h : p e = true
  · simp [h, hp e h, hne]
  · simp [h]

theorem roomMembers_app (r : Rooms.St) (room : Option Room) :
    roomMembers (appR a r) ns room = roomMembers r ns room := by
  unfold roomMembers
  rw [filter_ns_app hne]
  intro e he
  simp only [decide_eq_true_eq] at he
  exact he.1

theorem participants_app (r : Rooms.St) (to : Target) :
    participants (appR a r) ns to = participants r ns to := by
  cases to <;> simp only [participants, roomMembers_app hne]

theorem recipients_app (r : Rooms.St) (to : Target) (skip : List Sid) :
    recipients (appR a r) ns to skip = recipients r ns to skip := by
  simp only [recipients, participants_app hne]

theorem getRooms_app (r : Rooms.St) (sid : Sid) : getRooms (appR a r) ns sid = getRooms r ns sid := by
  unfold getRooms appR
  induction r with
  | nil => rfl
  | cons e r ih =>
    simp only [List.filter_cons]
    by_cases h2 : e.ns = a
    · have h : ¬ (e.ns = ns ∧ e.sid = sid) := fun h => hne (h.1.symm.trans h2)
      simp only [h2, bne_self_eq_false, Bool.false_eq_true, if_false, List.filterMap_cons]
      rw [ih]
      have h' : ¬ (a = ns ∧ e.sid = sid) := by rw [← h2]; exact h
      simp [h']
    · have h3 : (e.ns != a) = true := by simp [h2]
      simp only [h3, if_true, List.filterMap_cons, ih]

theorem add_app (r : Rooms.St) {e : Entry} (he : e.ns = ns) :
    appR a (Rooms.add r e) = Rooms.add (appR a r) e := by
  have hea : e.ns ≠ a := by rw [he]; exact hne
  have hm : e ∈ appR a r ↔ e ∈ r := by rw [mem_appR]; simp [hea]
  unfold Rooms.add
  by_cases h : e ∈ r
  · rw [if_pos h, if_pos (hm.mpr h)]
  · rw [if_neg h, if_neg (fun hh => h (hm.mp hh))]
    simp [appR, List.filter_append, hea]

theorem connect_app (r : Rooms.St) (t : Eio) (sid : Sid) :
    Rooms.connect (appR a r) ns t sid = (Rooms.connect r ns t sid).map (appR a) := by
  unfold Rooms.connect
  rw [sidOf_app hne]
  split
  · rfl
  · simp only [Option.map_some]
    rw [add_app hne _ rfl, add_app hne _ rfl]

theorem enter_app (r : Rooms.St) (sid : Sid) (room : Room) :
    Rooms.enter (appR a r) ns sid room = (Rooms.enter r ns sid room).map (appR a) := by
  unfold Rooms.enter
  rw [hasNs_app hne, eioOf_app hne]
  split
  · rfl
  · split
    · rfl
    · simp only [Except.map]
      rw [add_app hne _ rfl]

end app

theorem add_admin {a : Ns} (r : Rooms.St) {e : Entry} (he : e.ns = a) :
    appR a (Rooms.add r e) = appR a r := by
  unfold Rooms.add
  split
  · rfl
  · simp [appR, List.filter_append, he]

theorem connect_admin {a : Ns} {r r' : Rooms.St} {t : Eio} {sid : Sid}
    (h : Rooms.connect r a t sid = some r') : appR a r' = appR a r := by
  unfold Rooms.connect at h
  split at h
  · cases h
  · cases h
    rw [add_admin (a := a) _ rfl, add_admin (a := a) _ rfl]

theorem sidOf_appR_admin (a : Ns) (r : Rooms.St) (t : Eio) : sidOf (appR a r) a t = none := by
  rw [sidOf_none_iff]
  intro sid he
  exact (mem_appR.mp he).2 rfl

/-- the room operations are filters: they commute with `appR` for every namespace -/
theorem disconnect_appR (a : Ns) (r : Rooms.St) (ns : Ns) (sid : Sid) :
    appR a (Rooms.disconnect r ns sid) = Rooms.disconnect (appR a r) ns sid := by
  simp only [appR, Rooms.disconnect, List.filter_filter, Bool.and_comm]

theorem leave_appR (a : Ns) (r : Rooms.St) (ns : Ns) (sid : Sid) (room : Option Room) :
    appR a (Rooms.leave r ns sid room) = Rooms.leave (appR a r) ns sid room := by
  simp only [appR, Rooms.leave, List.filter_filter, Bool.and_comm]

theorem closeRoom_appR (a : Ns) (r : Rooms.St) (ns : Ns) (room : Room) :
    appR a (Rooms.closeRoom r ns room) = Rooms.closeRoom (appR a r) ns room := by
  simp only [appR, Rooms.closeRoom, List.filter_filter, Bool.and_comm]

theorem disconnect_admin (a : Ns) (r : Rooms.St) (sid : Sid) :
    appR a (Rooms.disconnect r a sid) = appR a r := by
  simp only [appR, Rooms.disconnect, List.filter_filter]
  apply List.filter_congr
  intro e _
  by_cases h : e.ns = a <;> simp [h]

theorem eraseDups_filter_ne (a : Ns) (l : List Ns) :
    (l.filter (· != a)).eraseDups = l.eraseDups.filter (· != a) := by
  generalize hn : l.length = n
  induction n using Nat.strongRecOn generalizing l with
  | _ n ih =>
  cases l with
  | nil => simp
  | cons x l =>
    have hlen : (l.filter fun b => !b == x).length < n := by
      subst hn
      exact Nat.lt_succ_of_le (List.length_filter_le _ _)
    have ih := ih _ hlen (l.filter fun b => !b == x) rfl
    rw [List.eraseDups_cons]
    by_cases hx : x = a
    · subst hx
      simp only [List.filter_cons, bne_self_eq_false, Bool.false_eq_true, if_false]
      rw [← ih, List.filter_filter]
      congr 1
      apply List.filter_congr; intro y _
      by_cases hy : y = x <;> simp [hy]
    · have hx' : (x != a) = true := by simp [hx]
      simp only [List.filter_cons, hx', if_true]
      rw [List.eraseDups_cons, ← ih, List.filter_filter, List.filter_filter]
      congr 2
      apply List.filter_congr; intro y _
      exact Bool.and_comm _ _

theorem namespacesOf_app (a : Ns) (r : Rooms.St) :
    namespacesOf (appR a r) = (namespacesOf r).filter (· != a) := by
  unfold namespacesOf appR
  rw [← eraseDups_filter_ne, List.filter_map]
  rfl


/-! ### `appPart`: projections -/

@[simp] theorem appPart_rooms (a : Ns) (s : Srv) : (appPart a s).rooms = appR a s.rooms := rfl
@[simp] theorem appPart_bg (a : Ns) (s : Srv) : (appPart a s).bg = s.bg.filter (fun b => b.ns != a) := rfl
@[simp] theorem appPart_pending (a : Ns) (s : Srv) : (appPart a s).pending = s.pending := rfl
@[simp] theorem appPart_cbs (a : Ns) (s : Srv) : (appPart a s).cbs = s.cbs := rfl
@[simp] theorem appPart_ctr (a : Ns) (s : Srv) : (appPart a s).ctr = s.ctr := rfl
@[simp] theorem appPart_environ (a : Ns) (s : Srv) : (appPart a s).environ = s.environ := rfl
@[simp] theorem appPart_binbuf (a : Ns) (s : Srv) : (appPart a s).binbuf = s.binbuf := rfl
@[simp] theorem appPart_sess (a : Ns) (s : Srv) : (appPart a s).sess = s.sess := rfl
@[simp] theorem appPart_socks (a : Ns) (s : Srv) : (appPart a s).socks = s.socks := rfl
@[simp] theorem appPart_nextSid (a : Ns) (s : Srv) : (appPart a s).nextSid = s.nextSid := rfl
@[simp] theorem appPart_nConn (a : Ns) (s : Srv) : (appPart a s).nConn = s.nConn := rfl
@[simp] theorem appPart_nEv (a : Ns) (s : Srv) : (appPart a s).nEv = s.nEv := rfl
@[simp] theorem appPart_nDisc (a : Ns) (s : Srv) : (appPart a s).nDisc = s.nDisc := rfl
@[simp] theorem appPart_nCall (a : Ns) (s : Srv) : (appPart a s).nCall = s.nCall := rfl
@[simp] theorem appPart_callDone (a : Ns) (s : Srv) : (appPart a s).callDone = s.callDone := rfl

theorem appPart_congr {a : Ns} {s s' : Srv} (h1 : appR a s.rooms = appR a s'.rooms)
    (h2 : s.bg.filter (fun b => b.ns != a) = s'.bg.filter (fun b => b.ns != a))
    (h3 : { s with rooms := [], bg := [] } = { s' with rooms := [], bg := [] }) :
    appPart a s = appPart a s' := by
  cases s; cases s'
  simp only [appPart, Srv.mk.injEq] at *
  simp only [appR] at h1
  simp [h1, h2, h3]

theorem sendTo_appPart (a : Ns) (s : Srv) (t : Option Eio) (p : Packet) :
    sendTo (appPart a s) t p = sendTo s t p := rfl

theorem isConnected_app {a ns : Ns} (hne : ns ≠ a) (s : Srv) (sid : Sid) :
    isConnected (appPart a s) sid ns = isConnected s sid ns := by
  simp only [isConnected, appPart_pending, appPart_rooms, eioOf_app hne]

theorem mgrDisconnect_appPart (a : Ns) (s : Srv) (sid : Sid) (ns : Ns) :
    appPart a (mgrDisconnect s sid ns) = mgrDisconnect (appPart a s) sid ns := by
  simp only [appPart, mgrDisconnect]
  congr 1
  exact disconnect_appR a s.rooms ns sid

/-! ### the instrumented registry away from the admin namespace -/

section reg
variable {a ns : Ns} (hne : ns ≠ a) (ha : a ≠ star)
include hne ha

theorem resolve_app (app : Registry) (mode : Str) (ro : Bool) (ev : J) (args : List J) :
    resolve (instrumentReg app a mode ro) ns ev args = resolve app ns ev args := by
  have h1 : (ns == a) = false := by simpa using hne
  have h2 : (star == a) = false := by simpa using fun h => ha h.symm
  simp only [resolve, instrumentReg, h1, h2, Bool.false_and, Bool.false_or]
  rfl

omit ha in
theorem isServed_app (c : Cfg) (mode : Str) (ro : Bool) :
    isServed (Instrumented.cfg c a mode ro) ns = isServed c ns := by
  have h1 : (ns == a) = false := by simpa using hne
  simp only [isServed, Instrumented.cfg, instrumentReg, h1, Bool.false_or]

end reg

/-! ### B — handlers for an application namespace commute with `appPart` -/

@[simp] theorem icfg_reg (c : Cfg) (a : Ns) (mode : Str) (ro : Bool) :
    (Instrumented.cfg c a mode ro).reg = instrumentReg c.reg a mode ro := rfl
@[simp] theorem icfg_script (c : Cfg) (a : Ns) (mode : Str) (ro : Bool) :
    (Instrumented.cfg c a mode ro).script = c.script := rfl
@[simp] theorem icfg_always (c : Cfg) (a : Ns) (mode : Str) (ro : Bool) :
    (Instrumented.cfg c a mode ro).alwaysConnect = c.alwaysConnect := rfl
@[simp] theorem icfg_async (c : Cfg) (a : Ns) (mode : Str) (ro : Bool) :
    (Instrumented.cfg c a mode ro).asyncHandlers = c.asyncHandlers := rfl
@[simp] theorem icfg_served (c : Cfg) (a : Ns) (mode : Str) (ro : Bool) :
    (Instrumented.cfg c a mode ro).served = c.served := rfl

theorem appPart_set (a : Ns) (s : Srv) (r : Rooms.St) (n k : Nat) (p : List (Ns × Sid)) :
    appPart a { s with rooms := r, nextSid := n, nConn := k, pending := p } =
      { appPart a s with rooms := appR a r, nextSid := n, nConn := k, pending := p } := rfl

set_option hygiene false in
local macro "hconnect_case " args:term : tactic => `(tactic| (
  have hR := resolve_app hne ha c.reg mode ro (J.str "connect".toList) $args
  cases hr : resolve c.reg ns (J.str "connect".toList) $args with
  | error e =>
    cases hac : c.alwaysConnect <;>
      (simp only [handleConnect, hns, hS, hs, appPart_rooms, hC, hc, he, ht, hR, hr, hac,
         appPart_environ, appPart_nextSid, appPart_nConn, icfg_always, icfg_reg, icfg_script,
         Bool.false_eq_true, if_false, if_true, Option.map_some, Bool.not_true]
       simp [appPart, sendTo, appR])
  | ok r =>
    cases r <;> cases hsc : c.script.onConnect s.nConn <;> cases hac : c.alwaysConnect <;>
      (simp only [handleConnect, hns, hS, hs, appPart_rooms, hC, hc, he, ht, hR, hr, hsc, hac,
         appPart_environ, appPart_nextSid, appPart_nConn, icfg_always, icfg_reg, icfg_script,
         Bool.false_eq_true, if_false, if_true, Option.map_some, Bool.not_true]
       simp [appPart, sendTo, mgrDisconnect, appR, Rooms.disconnect, List.filter_filter, Bool.and_comm])))

theorem handleConnect_app {a : Ns} (ha : a ≠ star) (c : Cfg) (mode : Str) (ro : Bool) (s : Srv)
    (t : Eio) (nsp : Option Str) (d : Option J) (hne : nsp.getD ['/'] ≠ a) :
    handleConnect c (appPart a s) t nsp d =
      (appPart a (handleConnect (Instrumented.cfg c a mode ro) s t nsp d).1,
        (handleConnect (Instrumented.cfg c a mode ro) s t nsp d).2) := by
  generalize hns : nsp.getD ['/'] = ns at hne
  have hS := isServed_app hne c mode ro
  have hC := connect_app hne s.rooms t (sidName s.nextSid)
  cases hs : isServed c ns
  · simp [handleConnect, hns, hS, hs, sendTo_appPart]
  cases hc : Rooms.connect s.rooms ns t (sidName s.nextSid) with
  | none => simp [handleConnect, hns, hS, hs, hC, hc, sendTo_appPart]
  | some r' =>
    cases he : s.environ.contains t
    · cases hac : c.alwaysConnect <;>
        (simp only [handleConnect, hns, hS, hs, appPart_rooms, hC, hc, he, hac, appPart_environ, appPart_nextSid, appPart_nConn, icfg_always, icfg_reg, icfg_script]; simp [appPart, sendTo, appR])
    · rcases d with _ | d0
      · have ht : True := trivial
        hconnect_case [J.str (sidName s.nextSid)]
      · cases ht : d0.truthy
        · hconnect_case [J.str (sidName s.nextSid)]
        · hconnect_case [J.str (sidName s.nextSid), d0]

theorem endSession_app {a : Ns} (ha : a ≠ star) (c : Cfg) (mode : Str) (ro : Bool) (s : Srv)
    (sid : Sid) {ns : Ns} (hne : ns ≠ a) (reason : Str) (b : Bool) :
    endSession c (appPart a s) sid ns reason b =
      (appPart a (endSession (Instrumented.cfg c a mode ro) s sid ns reason b).1,
        (endSession (Instrumented.cfg c a mode ro) s sid ns reason b).2) := by
  have hR := resolve_app hne ha c.reg mode ro (J.str "disconnect".toList) [J.str sid, J.str reason]
  cases hr : resolve c.reg ns (J.str "disconnect".toList) [J.str sid, J.str reason] with
  | error e =>
    simp only [endSession, icfg_reg, icfg_script, hR, hr, appPart_rooms, eioOf_app hne, appPart_pending]
    simp [appPart, sendTo, mgrDisconnect, appR, Rooms.disconnect, List.filter_filter, Bool.and_comm]
  | ok r =>
    cases r <;> cases hsc : c.script.onDisconnect s.nDisc <;>
    (simp only [endSession, icfg_reg, icfg_script, hR, hr, hsc, appPart_rooms, eioOf_app hne, appPart_pending, appPart_nDisc]
     simp [appPart, sendTo, mgrDisconnect, appR, Rooms.disconnect, List.filter_filter, Bool.and_comm])


theorem handleDisconnect_app {a : Ns} (ha : a ≠ star) (c : Cfg) (mode : Str) (ro : Bool) (s : Srv)
    (t : Eio) {ns : Ns} (hne : ns ≠ a) (reason : Str) :
    handleDisconnect c (appPart a s) t ns reason =
      (appPart a (handleDisconnect (Instrumented.cfg c a mode ro) s t ns reason).1,
        (handleDisconnect (Instrumented.cfg c a mode ro) s t ns reason).2) := by
  unfold handleDisconnect
  rw [appPart_rooms, sidOf_app hne]
  split
  · rfl
  · rename_i sid _
    rw [isConnected_app hne]
    split
    · rfl
    · exact endSession_app ha c mode ro s sid hne reason false

theorem apiDisconnect_app {a : Ns} (ha : a ≠ star) (c : Cfg) (mode : Str) (ro : Bool) (s : Srv)
    (sid : Sid) {ns : Ns} (hne : ns ≠ a) :
    apiDisconnect c (appPart a s) sid ns =
      (appPart a (apiDisconnect (Instrumented.cfg c a mode ro) s sid ns).1,
        (apiDisconnect (Instrumented.cfg c a mode ro) s sid ns).2) := by
  unfold apiDisconnect
  rw [isConnected_app hne]
  split
  · rfl
  · rw [endSession_app ha c mode ro s sid hne]

theorem runHandler_app {a : Ns} (ha : a ≠ star) (c : Cfg) (mode : Str) (ro : Bool) (s : Srv)
    (b : Bg) (hne : b.ns ≠ a) :
    runHandler c (appPart a s) b =
      (appPart a (runHandler (Instrumented.cfg c a mode ro) s b).1,
        (runHandler (Instrumented.cfg c a mode ro) s b).2) := by
  have hR := resolve_app hne ha c.reg mode ro b.first (J.str b.sid :: b.rest)
  cases hr : resolve c.reg b.ns b.first (J.str b.sid :: b.rest) with
  | error e => simp only [runHandler, icfg_reg, hR, hr]
  | ok r =>
    cases r <;> cases hsc : c.script.onEvent s.nEv <;> cases hid : b.id <;>
    (simp only [runHandler, icfg_reg, icfg_script, hR, hr, hsc, hid, appPart_nEv]
     try simp [appPart, sendTo])

theorem handleEvent_app {a : Ns} (ha : a ≠ star) (c : Cfg) (mode : Str) (ro : Bool) (s : Srv)
    (t : Eio) (nsp : Option Str) (id : Option Nat) (d : Option J) (hne : nsp.getD ['/'] ≠ a) :
    handleEvent c (appPart a s) t nsp id d =
      (appPart a (handleEvent (Instrumented.cfg c a mode ro) s t nsp id d).1,
        (handleEvent (Instrumented.cfg c a mode ro) s t nsp id d).2) := by
  unfold handleEvent
  dsimp only
  split
  · rfl
  · rw [appPart_rooms, sidOf_app hne]
    split
    · rfl
    · rw [isConnected_app hne, icfg_async]
      split
      · rfl
      · split
        · have : (nsp.getD ['/'] != a) = true := by simpa using hne
          simp [appPart, List.filter_append, this, appR]
        · exact runHandler_app ha c mode ro s _ hne

theorem handleAck_app (a : Ns) (s : Srv) (t : Eio) (nsp : Option Str) (id : Option Nat)
    (d : Option J) (hne : nsp.getD ['/'] ≠ a) :
    handleAck (appPart a s) t nsp id d =
      (appPart a (handleAck s t nsp id d).1, (handleAck s t nsp id d).2) := by
  unfold handleAck
  dsimp only
  rw [appPart_rooms, sidOf_app hne, appPart_cbs]
  split
  · split
    · rfl
    · split
      · rfl
      · split <;> rfl
  · rfl


theorem emitFold_app (a : Ns) (ns : Ns) (payload : List J) (tok : CbTok) (rs : List (Sid × Eio))
    (s : Srv) (o : List Out) :
    rs.foldl (emitOne ns payload tok) (appPart a s, o) =
      (appPart a (rs.foldl (emitOne ns payload tok) (s, o)).1,
        (rs.foldl (emitOne ns payload tok) (s, o)).2) := by
  induction rs generalizing s o with
  | nil => rfl
  | cons r rs ih =>
    simp only [List.foldl_cons]
    have : emitOne ns payload tok (appPart a s, o) r =
        (appPart a (emitOne ns payload tok (s, o) r).1, (emitOne ns payload tok (s, o) r).2) := rfl
    rw [this, ih]

theorem emit_app {a ns : Ns} (hne : ns ≠ a) (s : Srv) (ev : Str) (d : Data) (to : Target)
    (skip : List Sid) (cb : Option CbTok) :
    emit (appPart a s) ev d ns to skip cb =
      (appPart a (emit s ev d ns to skip cb).1, (emit s ev d ns to skip cb).2) := by
  cases cb with
  | none =>
    simp only [emit, appPart_rooms, hasNs_app hne, recipients_app hne, sendTo_appPart]
    split <;> rfl
  | some tok =>
    rw [emit_cb_eq, emit_cb_eq, appPart_rooms, hasNs_app hne, recipients_app hne]
    split
    · rfl
    · exact emitFold_app a ns _ tok _ s []

/-! ### C — handlers for the admin namespace are invisible -/

/-- nothing in `outs` is visible on the application side (exceptions being contained) -/
def Hidden (a : Ns) (outs : List Out) : Prop := ∀ o ∈ outs, appVisible a true o = false

theorem Hidden.nil (a : Ns) : Hidden a [] := fun _ h => by cases h

theorem Hidden.append {a : Ns} {x y : List Out} (hx : Hidden a x) (hy : Hidden a y) :
    Hidden a (x ++ y) := fun o ho => by
  rcases List.mem_append.mp ho with h | h
  · exact hx o h
  · exact hy o h

theorem Hidden.filter {a : Ns} {x : List Out} (h : Hidden a x) (b : Bool) :
    x.filter (appVisible a b) = [] ∨ b = false := by
  cases b
  · exact Or.inr rfl
  · left
    rw [List.filter_eq_nil_iff]
    intro o ho
    simp [h o ho]

theorem Hidden.cons {a : Ns} {o : Out} {x : List Out} (ho : appVisible a true o = false)
    (hx : Hidden a x) : Hidden a (o :: x) := fun o' h => by
  rcases List.mem_cons.mp h with rfl | h
  · exact ho
  · exact hx o' h

theorem hidden_sendTo (a : Ns) (s : Srv) (t : Option Eio) {p : Packet} (hp : p.nsp = some a) :
    Hidden a (sendTo s t p) := by
  intro o ho
  unfold sendTo at ho
  split at ho
  · split at ho
    · simp at ho; subst ho; simp [appVisible, hp]
    · cases ho
  · cases ho

theorem hidden_raised (a : Ns) (e : Err) : Hidden a [.raised e] := by
  intro o ho; simp at ho; subst ho; rfl

theorem hidden_invoke (a : Ns) {slot : Slot} (h : slotNs slot = a) (args : List J) :
    Hidden a [.invoke slot args] := by
  intro o ho; simp at ho; subst ho; simp [appVisible, h]

theorem appPart_bumpBy (a : Ns) (k : Skip) (s : Srv) : appPart a (bumpBy k s) = bumpBy k (appPart a s) := rfl

theorem bumpBy_zero (s : Srv) : bumpBy {} s = s := rfl

theorem handleConnect_admin {a : Ns} (ha : a ≠ star) (c : Cfg) (mode : Str) (ro : Bool) {s : Srv}
    (h : Server.WF s) (t : Eio) (nsp : Option Str) (d : Option J) (hns : nsp.getD ['/'] = a) :
    (∃ k, appPart a (handleConnect (Instrumented.cfg c a mode ro) s t nsp d).1 = bumpBy k (appPart a s)) ∧
    Hidden a (handleConnect (Instrumented.cfg c a mode ro) s t nsp d).2 := by
  have hp := h.pendingNil
  have h2 := filter_sid_ne_self (l := s.cbs) (sid := sidName s.nextSid)
    (fun c hc => sid_ne_fresh h.toWF0 (h.cbsLive c hc))
  have h3 := filter_sid_ne_self (l := s.ctr) (sid := sidName s.nextSid)
    (fun c hc => sid_ne_fresh h.toWF0 (h.ctrLive c hc))
  have hS : isServed (Instrumented.cfg c a mode ro) a = true := by
    simp [isServed, Instrumented.cfg, instrumentReg]
  cases hc : Rooms.connect s.rooms a t (sidName s.nextSid) with
  | none =>
    simp only [handleConnect, hns, hS, if_true, hc]
    exact ⟨⟨{}, rfl⟩, hidden_sendTo a s _ rfl⟩
  | some r' =>
    have hr' : r'.filter (fun e => e.ns != a) = s.rooms.filter (fun e => e.ns != a) := connect_admin hc
    have hd' : ∀ r : Rooms.St, (Rooms.disconnect r a (sidName s.nextSid)).filter (fun e => e.ns != a) = r.filter (fun e => e.ns != a) := fun r => disconnect_admin a r _
    cases he : s.environ.contains t
    · cases hac : c.alwaysConnect <;>
        simp only [handleConnect, hns, hS, if_true, hc, he, hac, icfg_always, Bool.not_false,
          Bool.false_eq_true, if_false, List.nil_append]
      · exact ⟨⟨⟨1, 0, 0⟩, by simp [appPart, bumpBy, hr']⟩, hidden_raised a _⟩
      · exact ⟨⟨⟨1, 0, 0⟩, by simp [appPart, bumpBy, hr']⟩,
          (hidden_sendTo a _ _ rfl).append (hidden_raised a _)⟩
    · have hinv : Hidden a [Out.invoke (Slot.fn a "connect".toList) (J.str (sidName s.nextSid) ::
          match d with
          | some d => if d.truthy = true then [d] else []
          | none => [])] := hidden_invoke a rfl _
      cases hsc : c.script.onConnect s.nConn <;> cases hac : c.alwaysConnect <;>
        simp only [handleConnect, hns, hS, if_true, hc, he, hac, hsc, icfg_always, icfg_reg, icfg_script,
          resolve_connect _ ha, Bool.not_true, Bool.false_eq_true, if_false, List.nil_append, List.append_nil]
      all_goals
        refine ⟨⟨⟨1, 1, 0⟩, by simp [appPart, bumpBy, mgrDisconnect, hr', hd', h2, h3, hp]⟩, ?_⟩
        repeat' (first
          | exact hinv
          | exact hidden_sendTo a _ _ rfl
          | exact hidden_raised a _
          | exact Hidden.nil a
          | apply Hidden.append
          | (apply Hidden.cons (by simp [appVisible, slotNs])))


theorem handleConnect_plain {a : Ns} (c : Cfg) (hserved : isServed c a = false) (s : Srv) (t : Eio)
    (nsp : Option Str) (d : Option J) (hns : nsp.getD ['/'] = a) :
    (handleConnect c (appPart a s) t nsp d).1 = appPart a s ∧
    Hidden a (handleConnect c (appPart a s) t nsp d).2 := by
  constructor
  · simp only [handleConnect, hns, hserved, Bool.false_eq_true, if_false]
  · simp only [handleConnect, hns, hserved, Bool.false_eq_true, if_false]
    exact hidden_sendTo a _ _ rfl

/-- no callback and no ack counter is held for a session of the admin namespace (the reports carry
    no callback, and the application does not emit to the admin namespace) -/
def NoAdminCb (a : Ns) (s : Srv) : Prop :=
  ∀ e ∈ s.rooms, e.ns = a → (∀ c ∈ s.cbs, c.1 ≠ e.sid) ∧ (∀ c ∈ s.ctr, c.1 ≠ e.sid)

/-- it follows from well-formedness of the state and of its application part -/
theorem noAdminCb_of_wf {a : Ns} {s : Srv} (h : Server.WF s) (h' : Server.WF (appPart a s)) :
    NoAdminCb a s := by
  intro e he hea
  have key : ∀ sid, sidLive (appPart a s).rooms sid → sid ≠ e.sid := by
    rintro sid ⟨ns, eio, hm⟩ heq
    obtain ⟨hm1, hm2⟩ := mem_appR.mp hm
    have := h.sidNs _ hm1 _ he heq
    exact hm2 (this.trans hea)
  exact ⟨fun c hc => key _ (h'.cbsLive c hc), fun c hc => key _ (h'.ctrLive c hc)⟩

theorem resolve_admin_disconnect {app : Registry} {a : Ns} (hc : AppClear app a) (ha : a ≠ star)
    (mode : Str) (ro : Bool) (args : List J) :
    resolve (instrumentReg app a mode ro) a (.str "disconnect".toList) args = .ok .notHandled := by
  have hstar : (star == a) = false := by
    apply beq_eq_false_iff_ne.mpr; exact fun e => ha e.symm
  have hreg : (registered mode ro).contains "disconnect".toList = false := by
    cases hm : (isDev mode && !ro) <;> simp only [registered, hm] <;> decide
  have hres : reserved.contains "disconnect".toList = true := by decide
  generalize "disconnect".toList = dc at hreg hres
  simp only [resolve, instrumentReg, hashable, inDict, evStr, hc.fn, hc.starFn, hc.cls, hc.starCls,
    hstar, hreg, hres, beq_self_eq_true, Bool.true_and, Bool.false_or, Bool.or_false, Bool.and_false,
    Bool.not_true, Bool.and_true, Bool.false_and, if_false, Bool.false_eq_true, Bool.not_false, bne_self_eq_false]
  split <;> rename_i heq <;> split at heq <;> simp at heq <;> rfl

theorem handleDisconnect_admin {a : Ns} (ha : a ≠ star) (c : Cfg) (hc : AppClear c.reg a)
    (mode : Str) (ro : Bool) {s : Srv} (h : Server.WF s) (hcb : NoAdminCb a s) (t : Eio) (reason : Str) :
    appPart a (handleDisconnect (Instrumented.cfg c a mode ro) s t a reason).1 = appPart a s ∧
    (handleDisconnect (Instrumented.cfg c a mode ro) s t a reason).2.1 = [] := by
  unfold handleDisconnect
  split
  · exact ⟨rfl, rfl⟩
  · rename_i sid hs
    split
    · exact ⟨rfl, rfl⟩
    · have hm := sidOf_some_mem hs
      obtain ⟨h2, h3⟩ := hcb _ hm rfl
      have h2' := filter_sid_ne_self h2
      have h3' := filter_sid_ne_self h3
      have hd' := disconnect_admin a s.rooms sid
      simp only [endSession, icfg_reg, resolve_admin_disconnect hc ha, Bool.false_eq_true, if_false,
        List.append_nil]
      simp only [appR] at hd'
      simp [appPart, mgrDisconnect, h2', h3', hd', h.pendingNil]

theorem handleDisconnect_plain (a : Ns) (c : Cfg) (s : Srv) (t : Eio) (reason : Str) :
    handleDisconnect c (appPart a s) t a reason = (appPart a s, [], false) := by
  unfold handleDisconnect
  rw [appPart_rooms, sidOf_appR_admin]

def resolvedSlot : Resolved → Option Slot
  | .fn slot _ => some slot
  | .clsCall slot _ => some slot
  | _ => none

/-- without catch-all namespace handlers, an event of namespace `ns` resolves to a handler of `ns` -/
theorem resolve_slotNs {reg : Registry} (h1 : reg.fnNs star = false) (h2 : reg.cls star = false)
    {ns : Ns} {ev : J} {args : List J} {r : Resolved}
    (h : resolve reg ns ev args = .ok r) : ∀ slot, resolvedSlot r = some slot → slotNs slot = ns := by
  intro slot hs
  have key1 : ∀ r', (if (ns != star && reg.fnNs ns) = true then
      if (!hashable ev) = true then Except.error Err.typeError
      else
        if ((!match evStr ev with
                  | some s => s == star
                  | none => false) && inDict (reg.fn ns) ev) = true then
          Except.ok (some (Resolved.fn (Slot.fn ns ((evStr ev).getD [])) args))
        else
          if ((!match evStr ev with
                    | some s => reserved.contains s
                    | none => false) && reg.fn ns star) = true then
            Except.ok (some (Resolved.fn (Slot.fn ns star) (ev :: args)))
          else Except.ok none
    else (Except.ok none : Except Err (Option Resolved))) = Except.ok (some r') →
      ∀ slot, resolvedSlot r' = some slot → slotNs slot = ns := by
    intro r' h slot hs
    repeat' (split at h)
    all_goals (simp at h)
    all_goals (subst h; simp [resolvedSlot] at hs; subst hs; rfl)
  have key2 : ∀ cns cargs, (if (ns != star && reg.cls ns) = true then some (ns, args) else none) = some (cns, cargs) →
      cns = ns := by
    intro cns cargs h
    split at h <;> simp at h
    exact h.1.symm
  simp only [resolve, h1, h2, Bool.false_eq_true, if_false] at h
  split at h
  · cases h
  · rename_i heq
    simp at h; subst h
    exact key1 _ heq slot hs
  · split at h
    · simp at h; subst h; simp [resolvedSlot] at hs
    · rename_i heq
      have := key2 _ _ heq
      subst this
      repeat' (split at h)
      all_goals (simp at h)
      all_goals (subst h; simp [resolvedSlot] at hs)
      all_goals (subst hs; rfl)


theorem icfg_noStar {c : Cfg} {a : Ns} (hc : AppClear c.reg a) (ha : a ≠ star) (mode : Str) (ro : Bool) :
    (Instrumented.cfg c a mode ro).reg.fnNs star = false ∧
    (Instrumented.cfg c a mode ro).reg.cls star = false := by
  have hstar : (star == a) = false := by
    apply beq_eq_false_iff_ne.mpr; exact fun e => ha e.symm
  simp [Instrumented.cfg, instrumentReg, hstar, hc.starFn, hc.starCls]

/-- a handler of namespace `ns` run on a configuration without catch-all namespace handlers:
    the state changes only by the position of the event script; every output is an invocation
    of a handler of `ns`, a packet of `ns`, or a contained exception -/
theorem runHandler_ns {cfg : Cfg} (h1 : cfg.reg.fnNs star = false) (h2 : cfg.reg.cls star = false)
    (s : Srv) (b : Bg) :
    (∃ k, (runHandler cfg s b).1 = { s with nEv := s.nEv + k }) ∧ Hidden b.ns (runHandler cfg s b).2 := by
  have hack : ∀ (s' : Srv) (d : Data), Hidden b.ns (match b.id with
      | some i => sendTo s' (some b.eio) (mkOut ACK b.ns (some i) d.pack)
      | none => []) := by
    intro s' d
    cases b.id with
    | none => exact Hidden.nil _
    | some i => exact hidden_sendTo _ _ _ (mkOut_nsp ..)
  cases hr : resolve cfg.reg b.ns b.first (J.str b.sid :: b.rest) with
  | error e =>
    simp only [runHandler, hr]
    exact ⟨⟨0, rfl⟩, hidden_raised _ _⟩
  | ok r =>
    have hslot := resolve_slotNs h1 h2 hr
    cases r with
    | fn slot args =>
      have hs : slotNs slot = b.ns := hslot slot rfl
      cases hsc : cfg.script.onEvent s.nEv <;> simp only [runHandler, hr, hsc]
      · exact ⟨⟨1, rfl⟩, Hidden.cons (by simp [appVisible, hs]) (hack _ _)⟩
      · exact ⟨⟨1, rfl⟩, Hidden.cons (by simp [appVisible, hs]) (hidden_raised _ _)⟩
    | clsCall slot args =>
      have hs : slotNs slot = b.ns := hslot slot rfl
      cases hsc : cfg.script.onEvent s.nEv <;> simp only [runHandler, hr, hsc]
      · exact ⟨⟨1, rfl⟩, Hidden.cons (by simp [appVisible, hs]) (hack _ _)⟩
      · exact ⟨⟨1, rfl⟩, Hidden.cons (by simp [appVisible, hs]) (hidden_raised _ _)⟩
    | clsNoMethod =>
      simp only [runHandler, hr]
      exact ⟨⟨0, rfl⟩, hack _ _⟩
    | notHandled =>
      simp only [runHandler, hr]
      exact ⟨⟨0, rfl⟩, Hidden.nil _⟩

theorem handleEvent_admin {a : Ns} (ha : a ≠ star) (c : Cfg) (hc : AppClear c.reg a) (mode : Str)
    (ro : Bool) (s : Srv) (t : Eio) (nsp : Option Str) (id : Option Nat) (d : Option J)
    (hns : nsp.getD ['/'] = a) :
    (∃ k, appPart a (handleEvent (Instrumented.cfg c a mode ro) s t nsp id d).1 = bumpBy k (appPart a s)) ∧
    Hidden a (handleEvent (Instrumented.cfg c a mode ro) s t nsp id d).2 := by
  obtain ⟨h1, h2⟩ := icfg_noStar hc ha mode ro
  unfold handleEvent
  simp only [hns]
  split
  · exact ⟨⟨{}, rfl⟩, hidden_raised _ _⟩
  · split
    · exact ⟨⟨{}, rfl⟩, Hidden.nil _⟩
    · split
      · exact ⟨⟨{}, rfl⟩, Hidden.nil _⟩
      · split
        · refine ⟨⟨{}, ?_⟩, Hidden.nil _⟩
          simp [appPart, List.filter_append, bumpBy]
        · rename_i first rest _ _ sid _ _ _
          obtain ⟨⟨k, hk⟩, ho⟩ := runHandler_ns h1 h2 s ⟨sid, t, first, rest, a, id⟩
          rw [hk]
          exact ⟨⟨⟨0, 0, k⟩, rfl⟩, ho⟩

theorem handleEvent_plain (a : Ns) (c : Cfg) (s : Srv) (t : Eio) (nsp : Option Str) (id : Option Nat)
    (d : Option J) (hns : nsp.getD ['/'] = a) :
    (handleEvent c (appPart a s) t nsp id d).1 = appPart a s ∧
    Hidden a (handleEvent c (appPart a s) t nsp id d).2 := by
  unfold handleEvent
  simp only [hns, appPart_rooms, sidOf_appR_admin]
  split
  · exact ⟨rfl, hidden_raised _ _⟩
  · exact ⟨rfl, Hidden.nil _⟩

theorem handleAck_admin {a : Ns} {s : Srv} (hcb : NoAdminCb a s) (t : Eio) (nsp : Option Str)
    (id : Option Nat) (d : Option J) (hns : nsp.getD ['/'] = a) :
    handleAck s t nsp id d = (s, []) := by
  unfold handleAck
  simp only [hns]
  split
  · rename_i sid i hs
    have hm := sidOf_some_mem hs
    have hnone : s.cbs.find? (fun c => c.1 = sid ∧ c.2.1 = i) = none := by
      rw [List.find?_eq_none]
      intro c hc
      have := (hcb _ hm rfl).1 c hc
      simp [this]
    simp only [hnone]
  · rfl

theorem handleAck_plain (a : Ns) (s : Srv) (t : Eio) (nsp : Option Str) (id : Option Nat) (d : Option J)
    (hns : nsp.getD ['/'] = a) : handleAck (appPart a s) t nsp id d = (appPart a s, []) := by
  unfold handleAck
  simp only [hns, appPart_rooms, sidOf_appR_admin]

/-! ### the simulation, handler by handler -/

/-- `x` (instrumented) simulates `y` (plain): the application parts of the states agree up to the
    generators' positions, and the application side observes the same outputs (`cont`: exceptions
    are contained, hence unobservable) -/
def Sim (a : Ns) (cont : Bool) (x y : Srv × List Out) : Prop :=
  (∃ k, appPart a x.1 = bumpBy k y.1) ∧
  x.2.filter (appVisible a cont) = y.2.filter (appVisible a cont)

theorem Sim.of_app {a : Ns} {cont : Bool} {x y : Srv × List Out} (h : y = (appPart a x.1, x.2)) :
    Sim a cont x y := by
  subst h; exact ⟨⟨{}, rfl⟩, rfl⟩

theorem Sim.of_admin {a : Ns} {s : Srv} {x y : Srv × List Out}
    (hx : ∃ k, appPart a x.1 = bumpBy k (appPart a s)) (hxo : Hidden a x.2)
    (hy : y.1 = appPart a s) (hyo : Hidden a y.2) : Sim a true x y := by
  refine ⟨by rw [hy]; exact hx, ?_⟩
  have h1 : x.2.filter (appVisible a true) = [] := by
    rw [List.filter_eq_nil_iff]; intro o ho; simp [hxo o ho]
  have h2 : y.2.filter (appVisible a true) = [] := by
    rw [List.filter_eq_nil_iff]; intro o ho; simp [hyo o ho]
  rw [h1, h2]

section handlers
variable {a : Ns} (ha : a ≠ star) (c : Cfg) (hc : AppClear c.reg a) (hserved : isServed c a = false)
  (mode : Str) (ro : Bool) {s : Srv} (h : Server.WF s) (hcb : NoAdminCb a s)
include ha hc hserved h hcb

theorem handleConnect_sim (t : Eio) (nsp : Option Str) (d : Option J) :
    Sim a true (handleConnect (Instrumented.cfg c a mode ro) s t nsp d)
      (handleConnect c (appPart a s) t nsp d) := by
  by_cases hns : nsp.getD ['/'] = a
  · obtain ⟨h1, h2⟩ := handleConnect_admin ha c mode ro h t nsp d hns
    obtain ⟨h3, h4⟩ := handleConnect_plain c hserved s t nsp d hns
    exact Sim.of_admin h1 h2 h3 h4
  · exact Sim.of_app (handleConnect_app ha c mode ro s t nsp d hns)

theorem handleDisconnect_sim (t : Eio) (ns : Ns) (reason : Str) :
    Sim a true ((handleDisconnect (Instrumented.cfg c a mode ro) s t ns reason).1,
        (handleDisconnect (Instrumented.cfg c a mode ro) s t ns reason).2.1)
      ((handleDisconnect c (appPart a s) t ns reason).1,
        (handleDisconnect c (appPart a s) t ns reason).2.1) := by
  by_cases hns : ns = a
  · subst hns
    obtain ⟨h1, h2⟩ := handleDisconnect_admin ha c hc mode ro h hcb t reason
    rw [handleDisconnect_plain]
    exact Sim.of_admin (s := s) ⟨{}, h1⟩ (by rw [h2]; exact Hidden.nil _) rfl (Hidden.nil _)
  · apply Sim.of_app
    rw [handleDisconnect_app ha c mode ro s t hns]

theorem handleEvent_sim (t : Eio) (nsp : Option Str) (id : Option Nat) (d : Option J) :
    Sim a true (handleEvent (Instrumented.cfg c a mode ro) s t nsp id d)
      (handleEvent c (appPart a s) t nsp id d) := by
  by_cases hns : nsp.getD ['/'] = a
  · obtain ⟨h1, h2⟩ := handleEvent_admin ha c hc mode ro s t nsp id d hns
    obtain ⟨h3, h4⟩ := handleEvent_plain a c s t nsp id d hns
    exact Sim.of_admin h1 h2 h3 h4
  · exact Sim.of_app (handleEvent_app ha c mode ro s t nsp id d hns)

theorem handleAck_sim (t : Eio) (nsp : Option Str) (id : Option Nat) (d : Option J) :
    Sim a true (handleAck s t nsp id d) (handleAck (appPart a s) t nsp id d) := by
  by_cases hns : nsp.getD ['/'] = a
  · rw [handleAck_admin hcb t nsp id d hns, handleAck_plain a s t nsp id d hns]
    exact Sim.of_app rfl
  · exact Sim.of_app (handleAck_app a s t nsp id d hns)


theorem dispatchPacket_sim (t : Eio) (p : Packet) (n : Nat) :
    Sim a true (dispatchPacket (Instrumented.cfg c a mode ro) s t p n)
      (dispatchPacket c (appPart a s) t p n) := by
  unfold dispatchPacket
  split
  · exact handleConnect_sim ha c hc hserved mode ro h hcb t _ _
  · split
    · exact handleDisconnect_sim ha c hc hserved mode ro h hcb t _ _
    · split
      · exact handleEvent_sim ha c hc hserved mode ro h hcb t _ _ _
      · split
        · exact handleAck_sim ha c hc hserved h hcb t _ _ _
        · split
          · exact Sim.of_app rfl
          · exact Sim.of_app rfl

theorem handleFrame_sim (dec : Str → Except Err (Packet × Nat)) (t : Eio) (v : J) :
    Sim a true (handleFrame dec (Instrumented.cfg c a mode ro) s t v)
      (handleFrame dec c (appPart a s) t v) := by
  unfold handleFrame
  rw [appPart_binbuf]
  split
  · rename_i part _
    split
    · exact Sim.of_app rfl
    · dsimp only
      split
      · split
        · exact Sim.of_app rfl
        · have h1 : Server.WF { s with binbuf := s.binbuf.filter (fun e => e.1 != t) } :=
            ⟨h.toWF0.filterBin _, h.pendingNil⟩
          have hcb1 : NoAdminCb a { s with binbuf := s.binbuf.filter (fun e => e.1 != t) } := hcb
          split
          · exact handleEvent_sim ha c hc hserved mode ro h1 hcb1 t _ _ _
          · exact handleAck_sim ha c hc hserved h1 hcb1 t _ _ _
      · exact Sim.of_app rfl
  · dsimp only
    split
    · exact Sim.of_app rfl
    · exact dispatchPacket_sim ha c hc hserved mode ro h hcb t _ _


end handlers

/-! ### transport loss and queued handlers -/

theorem NoAdminCb.mono {a : Ns} {s s' : Srv} (hcb : NoAdminCb a s) (hr : ∀ e ∈ s'.rooms, e ∈ s.rooms)
    (h1 : ∀ c ∈ s'.cbs, c ∈ s.cbs) (h2 : ∀ c ∈ s'.ctr, c ∈ s.ctr) : NoAdminCb a s' := by
  intro e he hea
  obtain ⟨k1, k2⟩ := hcb e (hr e he) hea
  exact ⟨fun c hc => k1 c (h1 c hc), fun c hc => k2 c (h2 c hc)⟩

theorem NoAdminCb.handleDisconnect {a : Ns} {s : Srv} (hcb : NoAdminCb a s) (cfg : Cfg) (t : Eio)
    (ns : Ns) (reason : Str) : NoAdminCb a (handleDisconnect cfg s t ns reason).1 := by
  rcases handleDisconnect_state cfg s t ns reason with ⟨h1, _⟩ | ⟨sid, k, _, _, h1⟩
  · rw [h1]; exact hcb
  · rw [h1]
    refine hcb.mono ?_ ?_ ?_
    · intro e he
      exact (List.mem_filter.mp (show e ∈ Rooms.disconnect s.rooms ns sid from he)).1
    · intro x hx
      exact (List.mem_filter.mp (show x ∈ s.cbs.filter (fun c => c.1 != sid) from hx)).1
    · intro x hx
      exact (List.mem_filter.mp (show x ∈ s.ctr.filter (fun c => c.1 != sid) from hx)).1

section handlers
variable {a : Ns} (ha : a ≠ star) (c : Cfg) (hc : AppClear c.reg a) (hserved : isServed c a = false)
  (mode : Str) (ro : Bool)
include ha hc hserved

theorem lostGo_sim (t : Eio) (reason : Str) (nss : List Ns) :
    ∀ {s : Srv} (_ : Server.WF s) (_ : NoAdminCb a s) (o o' : List Out),
      o.filter (appVisible a true) = o'.filter (appVisible a true) →
      appPart a (handleLost.go (Instrumented.cfg c a mode ro) t reason s o nss).1 =
        (handleLost.go c t reason (appPart a s) o' (nss.filter (· != a))).1 ∧
      (handleLost.go (Instrumented.cfg c a mode ro) t reason s o nss).2.filter (appVisible a true) =
        (handleLost.go c t reason (appPart a s) o' (nss.filter (· != a))).2.filter (appVisible a true) := by
  induction nss with
  | nil => intro s _ _ o o' ho; exact ⟨rfl, ho⟩
  | cons ns rest ih =>
    intro s h hcb o o' ho
    have hw := h.handleDisconnect (Instrumented.cfg c a mode ro) t ns reason
    have hcb' := hcb.handleDisconnect (Instrumented.cfg c a mode ro) t ns reason
    by_cases hns : ns = a
    · subst hns
      obtain ⟨h1, h2⟩ := handleDisconnect_admin ha c hc mode ro h hcb t reason
      simp only [List.filter_cons, bne_self_eq_false, Bool.false_eq_true, if_false]
      rw [handleLost.go, h2, List.append_nil, ← h1]
      exact ih hw hcb' o o' ho
    · have hne : (ns != a) = true := by simpa using hns
      simp only [List.filter_cons, hne, if_true]
      rw [handleLost.go, handleLost.go, handleDisconnect_app ha c mode ro s t hns]
      refine ih hw hcb' _ _ ?_
      rw [List.filter_append, List.filter_append, ho]

theorem handleLost_sim {s : Srv} (h : Server.WF s) (hcb : NoAdminCb a s) (t : Eio) (reason : Str) :
    Sim a true (handleLost (Instrumented.cfg c a mode ro) s t reason)
      (handleLost c (appPart a s) t reason) := by
  rw [handleLost_eq, handleLost_eq, appPart_socks]
  split
  · exact Sim.of_app rfl
  · obtain ⟨h1, h2⟩ := lostGo_sim ha c hc hserved mode ro t reason (namespacesOf s.rooms) h hcb [] [] rfl
    rw [appPart_rooms, namespacesOf_app]
    refine ⟨⟨{}, ?_⟩, h2⟩
    rw [← h1]
    rfl

end handlers

theorem runHandler_unhandled {cfg : Cfg} {s : Srv} {b : Bg} (hb : Instrumented.handled cfg.reg b = false) :
    (runHandler cfg s b).1 = s := by
  unfold Instrumented.handled at hb
  unfold runHandler
  split
  · rfl
  · rename_i r hr
    rw [hr] at hb
    cases r <;> simp at hb <;> rfl

section handlers
variable {a : Ns} (ha : a ≠ star) (c : Cfg) (hc : AppClear c.reg a)
  (mode : Str) (ro : Bool)
include ha hc

theorem drain_sim (bs : List Bg)
    (hq : ∀ b ∈ bs, b.ns = a → Instrumented.handled (Instrumented.cfg c a mode ro).reg b = false) :
    ∀ (s : Srv) (o o' : List Out),
      o.filter (appVisible a true) = o'.filter (appVisible a true) →
      appPart a (step.drain (Instrumented.cfg c a mode ro) s o bs).1 =
        (step.drain c (appPart a s) o' (bs.filter (fun b => b.ns != a))).1 ∧
      (step.drain (Instrumented.cfg c a mode ro) s o bs).2.filter (appVisible a true) =
        (step.drain c (appPart a s) o' (bs.filter (fun b => b.ns != a))).2.filter (appVisible a true) := by
  induction bs with
  | nil => intro s o o' ho; exact ⟨rfl, ho⟩
  | cons b rest ih =>
    intro s o o' ho
    have hq' : ∀ b ∈ rest, b.ns = a → Instrumented.handled (Instrumented.cfg c a mode ro).reg b = false :=
      fun b hb => hq b (List.mem_cons_of_mem _ hb)
    by_cases hns : b.ns = a
    · have hst := runHandler_unhandled (s := s) (hq b List.mem_cons_self hns)
      obtain ⟨h1, h2⟩ := icfg_noStar hc ha mode ro
      have hhid := (runHandler_ns h1 h2 s b).2
      rw [hns] at hhid
      have hne : (b.ns != a) = false := by simp [hns]
      simp only [List.filter_cons, hne, Bool.false_eq_true, if_false]
      rw [step.drain, hst]
      refine ih hq' s _ _ ?_
      rw [List.filter_append, ho]
      have : (runHandler (Instrumented.cfg c a mode ro) s b).2.filter (appVisible a true) = [] := by
        rw [List.filter_eq_nil_iff]; intro x hx; simp [hhid x hx]
      rw [this, List.append_nil]
    · have hne : (b.ns != a) = true := by simpa using hns
      simp only [List.filter_cons, hne, if_true]
      rw [step.drain, step.drain, runHandler_app ha c mode ro s b hns]
      refine ih hq' _ _ _ ?_
      rw [List.filter_append, List.filter_append, ho]

end handlers

/-! ### one input -/

theorem sessSock_app {a ns : Ns} (hne : ns ≠ a) (s : Srv) (sid : Sid) :
    sessSock (appPart a s) sid ns = sessSock s sid ns := by
  simp only [sessSock, appPart_rooms, eioOf_app hne, appPart_socks]
  rfl

theorem sessGet_appPart (a : Ns) (s : Srv) (t : Eio) (ns : Ns) : sessGet (appPart a s) t ns = sessGet s t ns := rfl

theorem sessSet_appPart (a : Ns) (s : Srv) (t : Eio) (ns : Ns) (v : J) :
    sessSet (appPart a s) t ns v = appPart a (sessSet s t ns v) := by
  unfold sessSet
  rw [appPart_sess]
  split <;> rfl

section step
variable {a : Ns} (ha : a ≠ star) (c : Cfg) (hc : AppClear c.reg a) (hserved : isServed c a = false)
  (mode : Str) (ro : Bool) (dec : Str → Except Err (Packet × Nat))
include ha hc hserved

theorem coreStep_sim {s : Srv} (h : Server.WF s) (hcb : NoAdminCb a s) (i : Input)
    (hi : appInput a i = true)
    (hq : Instrumented.quietStep c a mode ro s i (Server.step dec (Instrumented.cfg c a mode ro) s i).2 = true) :
    Sim a (contained i) (Server.step dec (Instrumented.cfg c a mode ro) s i)
      (Server.step dec c (appPart a s) i) := by
  cases i with
  | eioConnect t => rw [step, step]; exact Sim.of_app rfl
  | frame t v => rw [step, step]; exact handleFrame_sim ha c hc hserved mode ro h hcb dec t v
  | eioLost t r => rw [step, step]; exact handleLost_sim ha c hc hserved mode ro h hcb t r
  | emit ev d ns to skip cb =>
    have hne : ns ≠ a := by simpa [appInput] using hi
    rw [step, step]; exact Sim.of_app (emit_app hne s ev d to skip _)
  | call ev d ns sid during => simp [appInput] at hi
  | apiDisconnect sid ns =>
    have hne : ns ≠ a := by simpa [appInput] using hi
    rw [step, step]; exact Sim.of_app (apiDisconnect_app ha c mode ro s sid hne)
  | enterRoom sid ns room =>
    have hne : ns ≠ a := by simpa [appInput] using hi
    rw [step, step, appPart_rooms, enter_app hne]
    cases Rooms.enter s.rooms ns sid room <;> exact Sim.of_app rfl
  | leaveRoom sid ns room =>
    rw [step, step, appPart_rooms, ← leave_appR]; exact Sim.of_app rfl
  | closeRoom ns room =>
    rw [step, step, appPart_rooms, ← closeRoom_appR]; exact Sim.of_app rfl
  | rooms sid ns =>
    have hne : ns ≠ a := by simpa [appInput] using hi
    rw [step, step, appPart_rooms, getRooms_app hne]; exact Sim.of_app rfl
  | getSession sid ns =>
    have hne : ns ≠ a := by simpa [appInput] using hi
    rw [step, step, sessSock_app hne]
    split
    · exact Sim.of_app rfl
    · rw [sessGet_appPart]
      split
      · exact Sim.of_app rfl
      · rw [sessSet_appPart]; exact Sim.of_app rfl
  | saveSession sid ns v =>
    have hne : ns ≠ a := by simpa [appInput] using hi
    rw [step, step, sessSock_app hne]
    split
    · exact Sim.of_app rfl
    · rw [sessSet_appPart]; exact Sim.of_app rfl
  | sessionBlock sid ns k v =>
    have hne : ns ≠ a := by simpa [appInput] using hi
    rw [step, step, sessSock_app hne]
    split
    · exact Sim.of_app rfl
    · dsimp only; rw [sessSet_appPart, sessGet_appPart]; exact Sim.of_app rfl
  | settle =>
    rw [step, step]
    have hq' : ∀ b ∈ s.bg, b.ns = a →
        Instrumented.handled (Instrumented.cfg c a mode ro).reg b = false := by
      simp only [Instrumented.quietStep, Bool.and_eq_true, List.all_eq_true] at hq
      intro b hb hns
      have := hq.2 b hb
      simpa [hns] using this
    obtain ⟨h1, h2⟩ := drain_sim ha c hc mode ro s.bg hq' { s with bg := [] } [] [] rfl
    exact ⟨⟨{}, h1⟩, h2⟩


omit ha hc hserved in
theorem emitReports_invisible (ci : Cfg) (a : Ns) (rs : List Report) (s : Srv) :
    (Instrumented.emitReports dec ci a s rs).1 = s ∧
    ∀ b, (Instrumented.emitReports dec ci a s rs).2.filter (appVisible a b) = [] := by
  induction rs generalizing s with
  | nil => exact ⟨rfl, fun _ => rfl⟩
  | cons r rs ih =>
    have hstep : Server.step dec ci s (.emit r.ev r.data a r.to [] none) =
        emit s r.ev r.data a r.to [] none := by rw [step]; rfl
    obtain ⟨h1, h2⟩ := report_invisible s r.ev r.data a r.to []
    simp only [Instrumented.emitReports, hstep, h1]
    obtain ⟨i1, i2⟩ := ih s
    refine ⟨i1, fun b => ?_⟩
    rw [List.filter_append, i2 b, List.append_nil, List.filter_eq_nil_iff]
    intro o ho
    have : o ∉ observeApp a (emit s r.ev r.data a r.to [] none).2 := by rw [h2]; simp
    simp only [observeApp, List.mem_filter, ho, true_and] at this
    cases o <;> simp_all [isAdminOut, appVisible]

omit ha hc hserved in
theorem mutatorCalls_nil {a : Ns} {o : Out} (h : mutatorCalled a o = false) (s : Srv) :
    mutatorCalls a s o = [] := by
  cases o with
  | invoke slot args =>
    cases slot with
    | fn ns ev =>
      by_cases hns : ns = a
      · have hev : mutators.contains ev = false := by simpa [mutatorCalled, hns] using h
        have h1 : ev ≠ rStr "emit" := by intro e; subst e; revert hev; decide
        have h2 : ev ≠ rStr "join" := by intro e; subst e; revert hev; decide
        have h3 : ev ≠ rStr "leave" := by intro e; subst e; revert hev; decide
        have h4 : ev ≠ rStr "_disconnect" := by intro e; subst e; revert hev; decide
        simp only [mutatorCalls, hns, ne_eq, not_true_eq_false, if_false, h1, h2, h3, h4]
      · simp only [mutatorCalls, ne_eq, hns, not_false_eq_true, if_true]
    | cls ns m => rfl
  | send _ _ | callback _ _ | raised _ | result _ | timeout => rfl

theorem stepWith_sim (rep : Srv → Input → List Out → List Report) {s : Srv} (h : Server.WF s)
    (hcb : NoAdminCb a s) (i : Input) (hi : appInput a i = true)
    (hq : Instrumented.quietStep c a mode ro s i (Server.step dec (Instrumented.cfg c a mode ro) s i).2 = true) :
    Sim a (contained i) (Instrumented.stepWith dec c a mode ro rep s i)
      (Server.step dec c (appPart a s) i) := by
  obtain ⟨⟨k, hk⟩, ho⟩ := coreStep_sim ha c hc hserved mode ro dec h hcb i hi hq
  have hm : (Server.step dec (Instrumented.cfg c a mode ro) s i).2.flatMap
      (mutatorCalls a (Server.step dec (Instrumented.cfg c a mode ro) s i).1) = [] := by
    rw [List.flatMap_eq_nil_iff]
    intro o hmem
    apply mutatorCalls_nil
    simp only [Instrumented.quietStep, Bool.and_eq_true, Bool.not_eq_true', List.any_eq_false] at hq
    have := hq.1 o hmem
    simpa using this
  simp only [Instrumented.stepWith, hm, run_nil, List.append_nil]
  obtain ⟨e1, e2⟩ := emitReports_invisible dec (Instrumented.cfg c a mode ro) a
    (rep s i (Server.step dec (Instrumented.cfg c a mode ro) s i).2)
    (Server.step dec (Instrumented.cfg c a mode ro) s i).1
  refine ⟨⟨k, by rw [e1]; exact hk⟩, ?_⟩
  rw [List.filter_append, e2, List.append_nil]
  exact ho

omit ha hc hserved in
theorem stepWith_wf (rep : Srv → Input → List Out → List Report) {s : Srv} (h : Server.WF s) (i : Input) :
    Server.WF (Instrumented.stepWith dec c a mode ro rep s i).1 := by
  simp only [Instrumented.stepWith]
  rw [(emitReports_invisible dec _ a _ _).1]
  exact (h.step dec _ i).run dec _ _

end step

/-! ### histories -/

theorem WF.bumpBy {s : Srv} (h : Server.WF s) (k : Skip) : Server.WF (bumpBy k s) :=
  ⟨⟨h.rooms, fun e he => by
      obtain ⟨n, hn, hs⟩ := h.sidAlloc e he
      exact ⟨n, Nat.lt_of_lt_of_le hn (Nat.le_add_right _ _), hs⟩,
    h.sidNs, h.cbsLive, h.ctrLive, h.cbsLe, h.cbsNodup, h.binNodup, h.envSocks, h.sessOpen⟩,
    h.pendingNil⟩

/-- forget the positions of the id generator and of the connect / event scripts -/
def zeroGen (s : Srv) : Srv := { s with nextSid := 0, nConn := 0, nEv := 0 }

theorem appState_eq (a : Ns) (s : Srv) : appState a s = zeroGen (appPart a s) := rfl

theorem zeroGen_bumpBy (k : Skip) (s : Srv) : zeroGen (bumpBy k s) = zeroGen s := rfl

theorem appPart_idem (a : Ns) (s : Srv) : appPart a (appPart a s) = appPart a s := by
  simp only [appPart, List.filter_filter, Bool.and_self]

theorem appState_of_rel {a : Ns} {si sp : Srv} {k : Skip} (h : appPart a si = bumpBy k sp) :
    appState a si = appState a sp := by
  have h1 : appPart a (appPart a si) = bumpBy k (appPart a sp) := by rw [h]; rfl
  rw [appPart_idem, h] at h1
  rw [appState_eq, appState_eq, h, zeroGen_bumpBy, ← zeroGen_bumpBy k (appPart a sp), ← h1, zeroGen_bumpBy]

section trace
variable {a : Ns} (ha : a ≠ star) (c : Cfg) (hc : AppClear c.reg a) (hserved : isServed c a = false)
  (mode : Str) (ro : Bool) (dec : Str → Except Err (Packet × Nat))
  (rep : Srv → Input → List Out → List Report)
include ha hc hserved

theorem trace_sim (hist : List Input) :
    ∀ (si sp : Srv) (k : Skip), Server.WF si → Server.WF sp → appPart a si = bumpBy k sp →
      (∀ i ∈ hist, appInput a i = true) →
      Instrumented.quiet dec c a mode ro rep si hist = true →
      ∃ skips : List Skip, skips.length = hist.length ∧
        observeTrace a (Instrumented.traceWith dec c a mode ro rep si hist).2 =
          observeTrace a (Plain.traceSkip dec c sp (skips.zip hist)).2 ∧
        appState a (Instrumented.traceWith dec c a mode ro rep si hist).1 =
          appState a (Plain.traceSkip dec c sp (skips.zip hist)).1 := by
  induction hist with
  | nil =>
    intro si sp k _ _ hrel _ _
    exact ⟨[], rfl, rfl, appState_of_rel hrel⟩
  | cons i is ih =>
    intro si sp k hwi hwp hrel happ hq
    have hwp' : Server.WF (appPart a si) := by rw [hrel]; exact WF.bumpBy hwp k
    have hcb := noAdminCb_of_wf hwi hwp'
    simp only [Instrumented.quiet, Bool.and_eq_true] at hq
    obtain ⟨⟨k', hk'⟩, ho⟩ := stepWith_sim ha c hc hserved mode ro dec rep hwi hcb i
      (happ i List.mem_cons_self) hq.1
    rw [hrel] at hk' ho
    obtain ⟨skips, hlen, htr, hst⟩ := ih _ _ k' (stepWith_wf c mode ro dec rep hwi i)
      ((WF.bumpBy hwp k).step dec c i) hk' (fun j hj => happ j (List.mem_cons_of_mem _ hj)) hq.2
    refine ⟨k :: skips, by simp [hlen], ?_, ?_⟩
    · simp only [Instrumented.traceWith, List.zip_cons_cons, Plain.traceSkip, observeTrace,
        List.map_cons, appView, ho]
      simp only [observeTrace, appView] at htr
      rw [htr]
    · simp only [Instrumented.traceWith, List.zip_cons_cons, Plain.traceSkip]
      exact hst

end trace

/-! ### read-only: no mutator is ever resolved -/

def shapeOk (reg : Registry) (ns : Ns) : Resolved → Prop
  | .fn slot _ => ∃ e, slot = .fn ns e ∧ reg.fn ns e = true
  | .clsCall slot _ => ∃ m, slot = .cls ns m
  | _ => True

theorem inDict_true {has : Str → Bool} {ev : J} (h : inDict has ev = true) :
    has ((evStr ev).getD []) = true := by
  unfold inDict at h
  split at h
  · rename_i s hs; rw [hs]; exact h
  · cases h

theorem resolve_shape {reg : Registry} (h1 : reg.fnNs star = false) (h2 : reg.cls star = false)
    {ns : Ns} {ev : J} {args : List J} {r : Resolved}
    (h : resolve reg ns ev args = .ok r) : shapeOk reg ns r := by
  have key1 : ∀ r', (if (ns != star && reg.fnNs ns) = true then
      if (!hashable ev) = true then Except.error Err.typeError
      else
        if ((!match evStr ev with
                  | some s => s == star
                  | none => false) && inDict (reg.fn ns) ev) = true then
          Except.ok (some (Resolved.fn (Slot.fn ns ((evStr ev).getD [])) args))
        else
          if ((!match evStr ev with
                    | some s => reserved.contains s
                    | none => false) && reg.fn ns star) = true then
            Except.ok (some (Resolved.fn (Slot.fn ns star) (ev :: args)))
          else Except.ok none
    else (Except.ok none : Except Err (Option Resolved))) = Except.ok (some r') →
      shapeOk reg ns r' := by
    intro r' h
    repeat' (split at h)
    all_goals (try (simp at h))
    all_goals (subst h)
    all_goals (rename_i hcond)
    all_goals (first
      | exact ⟨_, rfl, inDict_true (by simp_all)⟩
      | exact ⟨_, rfl, by simp_all⟩)
  have key2 : ∀ cns cargs, (if (ns != star && reg.cls ns) = true then some (ns, args) else none) = some (cns, cargs) →
      cns = ns := by
    intro cns cargs h
    split at h <;> simp at h
    exact h.1.symm
  simp only [resolve, h1, h2, Bool.false_eq_true, if_false] at h
  split at h
  · cases h
  · rename_i heq
    simp at h; subst h
    exact key1 _ heq
  · split at h
    · simp at h; subst h; trivial
    · rename_i heq
      have := key2 _ _ heq
      subst this
      repeat' (split at h)
      all_goals (simp at h)
      all_goals (subst h)
      all_goals first | trivial | exact ⟨_, rfl⟩

theorem ro_resolve_no_mutator {app : Registry} {a : Ns} {mode : Str} {ro : Bool}
    (hro : ro = true ∨ isDev mode = false) (hc : AppClear app a) (ha : a ≠ star)
    {ns : Ns} {ev : J} {args : List J} {r : Resolved}
    (h : resolve (instrumentReg app a mode ro) ns ev args = .ok r) :
    ∀ slot args', (r = .fn slot args' ∨ r = .clsCall slot args') →
      mutatorCalled a (.invoke slot args') = false := by
  have hstar : (star == a) = false := by
    apply beq_eq_false_iff_ne.mpr; exact fun e => ha e.symm
  have h1 : (instrumentReg app a mode ro).fnNs star = false := by simp [instrumentReg, hstar, hc.starFn]
  have h2 : (instrumentReg app a mode ro).cls star = false := by simp [instrumentReg, hc.starCls]
  have hs := resolve_shape h1 h2 h
  intro slot args' hr
  rcases hr with rfl | rfl
  · obtain ⟨e, rfl, he⟩ := hs
    by_cases hns : ns = a
    · subst hns
      have : (registered mode ro).contains e = true := by
        simpa [instrumentReg, hc.fn] using he
      rw [registered_ro hro] at this
      have he' : e = "connect".toList := by simpa using this
      subst he'
      have hm : mutators.contains "connect".toList = false := by decide
      simp only [mutatorCalled, hm, Bool.and_false]
    · simp [mutatorCalled, hns]
  · obtain ⟨m, rfl⟩ := hs
    rfl

/-! ### read-only: no step of any history invokes a mutator -/

/-- none of `outs` is the invocation of `emit / join / leave / _disconnect` of the admin namespace -/
def NoMut (a : Ns) (outs : List Out) : Prop := ∀ o ∈ outs, mutatorCalled a o = false

/-- whatever the registry resolves an event to — on any namespace, for any event name and
    arguments — is not one of the four mutators of `a` -/
def RegNoMut (reg : Registry) (a : Ns) : Prop :=
  ∀ (ns : Ns) (ev : J) (args : List J) (r : Resolved), resolve reg ns ev args = .ok r →
    ∀ slot args', (r = .fn slot args' ∨ r = .clsCall slot args') →
      mutatorCalled a (.invoke slot args') = false

theorem regNoMut_ro {app : Registry} {a : Ns} {mode : Str} {ro : Bool}
    (hro : ro = true ∨ isDev mode = false) (hc : AppClear app a) (ha : a ≠ star) :
    RegNoMut (instrumentReg app a mode ro) a :=
  fun _ _ _ _ h => ro_resolve_no_mutator hro hc ha h

theorem NoMut.nil (a : Ns) : NoMut a [] := fun _ h => by cases h

theorem NoMut.append {a : Ns} {x y : List Out} (hx : NoMut a x) (hy : NoMut a y) :
    NoMut a (x ++ y) := fun o ho => by
  rcases List.mem_append.mp ho with h | h
  · exact hx o h
  · exact hy o h

theorem NoMut.cons {a : Ns} {o : Out} {x : List Out} (ho : mutatorCalled a o = false)
    (hx : NoMut a x) : NoMut a (o :: x) := fun o' h => by
  rcases List.mem_cons.mp h with rfl | h
  · exact ho
  · exact hx o' h

theorem noMut_sendTo (a : Ns) (s : Srv) (t : Option Eio) (p : Packet) : NoMut a (sendTo s t p) := by
  intro o ho
  unfold sendTo at ho
  split at ho
  · split at ho
    · simp at ho; subst ho; rfl
    · cases ho
  · cases ho

theorem NoMut.any {a : Ns} {outs : List Out} (h : NoMut a outs) :
    outs.any (mutatorCalled a) = false := by
  rw [List.any_eq_false]
  intro o ho
  simp [h o ho]

/-- closes `NoMut a <concrete list expression>` given the facts about its invocations -/
local macro "nomut" : tactic => `(tactic| (try dsimp only) <;> repeat' (first
  | assumption
  | exact NoMut.nil _
  | exact noMut_sendTo _ _ _ _
  | apply NoMut.append
  | apply NoMut.cons (by first | assumption | rfl)
  | split))

section handlers
variable {cfg : Cfg} {a : Ns} (hreg : RegNoMut cfg.reg a)
include hreg

theorem endSession_noMut (s : Srv) (sid : Sid) (ns : Ns) (reason : Str) (b : Bool) :
    NoMut a (endSession cfg s sid ns reason b).2.1 := by
  unfold endSession
  dsimp only
  split
  · nomut
  · rename_i r hr
    cases r with
    | fn slot args =>
      have hm := hreg _ _ _ _ hr slot args (Or.inl rfl)
      dsimp only
      cases cfg.script.onDisconnect s.nDisc <;> dsimp only <;> nomut
    | clsCall slot args =>
      have hm := hreg _ _ _ _ hr slot args (Or.inr rfl)
      dsimp only
      cases cfg.script.onDisconnect s.nDisc <;> dsimp only <;> nomut
    | clsNoMethod => dsimp only; nomut
    | notHandled => dsimp only; nomut

theorem handleDisconnect_noMut (s : Srv) (t : Eio) (ns : Ns) (reason : Str) :
    NoMut a (handleDisconnect cfg s t ns reason).2.1 := by
  unfold handleDisconnect
  split
  · exact NoMut.nil a
  · split
    · exact NoMut.nil a
    · exact endSession_noMut hreg _ _ _ _ _

theorem apiDisconnect_noMut (s : Srv) (sid : Sid) (ns : Ns) :
    NoMut a (apiDisconnect cfg s sid ns).2 := by
  unfold apiDisconnect
  split
  · exact NoMut.nil a
  · exact endSession_noMut hreg _ _ _ _ _

theorem handleConnect_noMut (s : Srv) (t : Eio) (nsp : Option Str) (d : Option J) :
    NoMut a (handleConnect cfg s t nsp d).2 := by
  unfold handleConnect
  dsimp only
  split
  · nomut
  · split
    · nomut
    · split
      · nomut
      · rename_i r hr
        cases r with
        | fn slot args =>
          have hm := hreg _ _ _ _ hr slot args (Or.inl rfl)
          dsimp only
          cases cfg.script.onConnect s.nConn <;> dsimp only <;> nomut
        | clsCall slot args =>
          have hm := hreg _ _ _ _ hr slot args (Or.inr rfl)
          dsimp only
          cases cfg.script.onConnect s.nConn <;> dsimp only <;> nomut
        | clsNoMethod => dsimp only; nomut
        | notHandled => dsimp only; nomut

theorem runHandler_noMut (s : Srv) (b : Bg) : NoMut a (runHandler cfg s b).2 := by
  unfold runHandler
  split
  · nomut
  · rename_i r hr
    cases r with
    | fn slot args =>
      have hm := hreg _ _ _ _ hr slot args (Or.inl rfl)
      dsimp only
      cases cfg.script.onEvent s.nEv <;> dsimp only <;> nomut
    | clsCall slot args =>
      have hm := hreg _ _ _ _ hr slot args (Or.inr rfl)
      dsimp only
      cases cfg.script.onEvent s.nEv <;> dsimp only <;> nomut
    | clsNoMethod => dsimp only; nomut
    | notHandled => dsimp only; nomut

theorem handleEvent_noMut (s : Srv) (t : Eio) (nsp : Option Str) (id : Option Nat) (d : Option J) :
    NoMut a (handleEvent cfg s t nsp id d).2 := by
  unfold handleEvent
  dsimp only
  split
  · nomut
  · split
    · nomut
    · split
      · nomut
      · split
        · nomut
        · exact runHandler_noMut hreg _ _

omit hreg in
theorem handleAck_noMut (s : Srv) (t : Eio) (nsp : Option Str) (id : Option Nat) (d : Option J) :
    NoMut a (handleAck s t nsp id d).2 := by
  unfold handleAck
  dsimp only
  split
  · split
    · nomut
    · split
      · nomut
      · split <;> nomut
  · nomut

theorem handleFrame_noMut (dec : Str → Except Err (Packet × Nat)) (s : Srv) (t : Eio) (v : J) :
    NoMut a (handleFrame dec cfg s t v).2 := by
  have hfc := frameCase dec cfg s t v
  generalize handleFrame dec cfg s t v = r at hfc
  cases hfc with
  | tooMany _ _ => nomut
  | reconErr _ _ _ _ => nomut
  | binEvent _ _ _ _ _ => exact handleEvent_noMut hreg _ _ _ _ _
  | binAck _ _ _ _ _ => exact handleAck_noMut _ _ _ _ _
  | more _ _ _ => nomut
  | undecodable _ _ => nomut
  | packet hf hd =>
    rename_i p natt
    have hdc := dispatchCase cfg s t p natt
    generalize dispatchPacket cfg s t p natt = r at hdc
    cases hdc with
    | connect _ => exact handleConnect_noMut hreg _ _ _ _
    | disconnect _ => exact handleDisconnect_noMut hreg _ _ _ _
    | event _ => exact handleEvent_noMut hreg _ _ _ _ _
    | ack _ => exact handleAck_noMut _ _ _ _ _
    | binHeader _ => nomut
    | other => nomut

theorem lostGo_noMut (t : Eio) (reason : Str) (nss : List Ns) :
    ∀ (s : Srv) (o : List Out), NoMut a o → NoMut a (handleLost.go cfg t reason s o nss).2 := by
  induction nss with
  | nil => intro s o ho; exact ho
  | cons ns rest ih =>
    intro s o ho
    rw [handleLost.go]
    exact ih _ _ (ho.append (handleDisconnect_noMut hreg _ _ _ _))

theorem handleLost_noMut (s : Srv) (t : Eio) (reason : Str) :
    NoMut a (handleLost cfg s t reason).2 := by
  rw [handleLost_eq]
  split
  · exact NoMut.nil a
  · exact lostGo_noMut hreg t reason _ s [] (NoMut.nil a)

theorem drain_noMut (bs : List Bg) :
    ∀ (s : Srv) (o : List Out), NoMut a o → NoMut a (step.drain cfg s o bs).2 := by
  induction bs with
  | nil => intro s o ho; exact ho
  | cons b rest ih =>
    intro s o ho
    rw [step.drain]
    exact ih _ _ (ho.append (runHandler_noMut hreg _ _))

end handlers

theorem emitFold_noMut (a : Ns) (ns : Ns) (payload : List J) (tok : CbTok) (rs : List (Sid × Eio)) :
    ∀ (s : Srv) (o : List Out), NoMut a o → NoMut a (rs.foldl (emitOne ns payload tok) (s, o)).2 := by
  induction rs with
  | nil => intro s o ho; exact ho
  | cons r rs ih =>
    intro s o ho
    simp only [List.foldl_cons]
    exact ih _ _ (ho.append (noMut_sendTo _ _ _ _))

theorem emit_noMut (a : Ns) (s : Srv) (ev : Str) (d : Data) (ns : Ns) (to : Target) (skip : List Sid)
    (cb : Option CbTok) : NoMut a (emit s ev d ns to skip cb).2 := by
  cases cb with
  | none =>
    unfold emit
    split
    · exact NoMut.nil a
    · intro o ho
      simp only [List.mem_flatMap] at ho
      obtain ⟨r, _, ho⟩ := ho
      exact noMut_sendTo a _ _ _ o ho
  | some tok =>
    rw [emit_cb_eq]
    split
    · exact NoMut.nil a
    · exact emitFold_noMut a ns _ tok _ s [] (NoMut.nil a)

/-- **Every input, every history** (blocking `call()`s with their nested histories included): on
    a configuration whose registry resolves nothing to a mutator, no output of `Server.step` /
    `Server.run`, from any state, is the invocation of a mutator. -/
theorem step_run_noMut (dec : Str → Except Err (Packet × Nat)) {cfg : Cfg} {a : Ns}
    (hreg : RegNoMut cfg.reg a) :
    (∀ (s : Srv) (i : Input), NoMut a (Server.step dec cfg s i).2) ∧
    (∀ (s : Srv) (is : List Input), NoMut a (Server.run dec cfg s is).2) := by
  apply step_run_induct dec cfg
    (P := fun s i => NoMut a (Server.step dec cfg s i).2)
    (Q := fun s is => NoMut a (Server.run dec cfg s is).2)
  · intro s i hi
    cases i with
    | eioConnect t => rw [step]; exact NoMut.nil a
    | frame t v => rw [step]; exact handleFrame_noMut hreg dec s t v
    | eioLost t r => rw [step]; exact handleLost_noMut hreg s t r
    | emit ev d ns to skip cb => rw [step]; exact emit_noMut a _ _ _ _ _ _ _
    | call ev d ns sid during => exact absurd rfl (hi ev d ns sid during)
    | apiDisconnect sid ns => rw [step]; exact apiDisconnect_noMut hreg s sid ns
    | enterRoom sid ns room => rw [step]; split <;> nomut
    | leaveRoom sid ns room => rw [step]; exact NoMut.nil a
    | closeRoom ns room => rw [step]; exact NoMut.nil a
    | rooms sid ns => rw [step]; nomut
    | getSession sid ns => rw [step]; nomut
    | saveSession sid ns v => rw [step]; nomut
    | sessionBlock sid ns k v => rw [step]; nomut
    | settle => rw [step]; exact drain_noMut hreg s.bg _ [] (NoMut.nil a)
  · intro s ev d ns sid during ih
    rw [step_call]
    split
    · nomut
    · rename_i hc
      have h1 : NoMut a (callStart s ev d ns sid).2 := emit_noMut a _ _ _ _ _ _ _
      have h2 := ih (by simpa using hc)
      have h3 : mutatorCalled a (callOutcome (run dec cfg (callStart s ev d ns sid).1 during).1 s.nCall) = false := by
        unfold callOutcome; split <;> rfl
      exact (h1.append h2).append (NoMut.cons h3 (NoMut.nil a))
  · intro s; rw [run_nil]; exact NoMut.nil a
  · intro s i is h1 h2
    rw [run_cons]; exact h1.append h2

/-! ### the two halves of `quiet` -/

namespace Instrumented

/-- first half of `quiet`: no step of the history invokes a mutator -/
def noMutator (dec : Str → Except Err (Packet × Nat)) (c : Cfg) (a : Ns) (mode : Str) (ro : Bool)
    (rep : Srv → Input → List Out → List Report) : Srv → List Input → Bool
  | _, [] => true
  | s, i :: is =>
    !((Server.step dec (cfg c a mode ro) s i).2.any (mutatorCalled a)) &&
    noMutator dec c a mode ro rep (stepWith dec c a mode ro rep s i).1 is

/-- second half of `quiet`: whenever queued handlers are run (`settle`), no queued EVENT of the
    admin namespace has a handler.  (The only admin event with a handler in read-only /
    production mode is one literally named `connect`; with synchronous handlers nothing is ever
    queued.) -/
def settleQuiet (dec : Str → Except Err (Packet × Nat)) (c : Cfg) (a : Ns) (mode : Str) (ro : Bool)
    (rep : Srv → Input → List Out → List Report) : Srv → List Input → Bool
  | _, [] => true
  | s, i :: is =>
    (match i with
     | .settle => s.bg.all (fun b => b.ns != a || !handled (cfg c a mode ro).reg b)
     | _ => true) &&
    settleQuiet dec c a mode ro rep (stepWith dec c a mode ro rep s i).1 is

end Instrumented

theorem quiet_eq (dec : Str → Except Err (Packet × Nat)) (c : Cfg) (a : Ns) (mode : Str) (ro : Bool)
    (rep : Srv → Input → List Out → List Report) (s : Srv) (hist : List Input) :
    Instrumented.quiet dec c a mode ro rep s hist =
      (Instrumented.noMutator dec c a mode ro rep s hist &&
        Instrumented.settleQuiet dec c a mode ro rep s hist) := by
  induction hist generalizing s with
  | nil => rfl
  | cons i is ih =>
    simp only [Instrumented.quiet, Instrumented.noMutator, Instrumented.settleQuiet,
      Instrumented.quietStep, ih]
    simp only [Bool.and_assoc]
    congr 1
    rw [← Bool.and_assoc, ← Bool.and_assoc]
    congr 1
    exact Bool.and_comm _ _

/-! ### the instrumented server in read-only / production mode -/

section ro
variable {a : Ns} {mode : Str} {ro : Bool} (c : Cfg)
  (hro : ro = true ∨ isDev mode = false) (hc : AppClear c.reg a) (ha : a ≠ star)
  (dec : Str → Except Err (Packet × Nat)) (rep : Srv → Input → List Out → List Report)
include hro hc ha

theorem icfg_regNoMut : RegNoMut (Instrumented.cfg c a mode ro).reg a := regNoMut_ro hro hc ha

omit hro hc ha in
theorem emitReports_noMut (ci : Cfg) (a : Ns) (rs : List Report) (s : Srv) :
    NoMut a (Instrumented.emitReports dec ci a s rs).2 := by
  induction rs generalizing s with
  | nil => exact NoMut.nil a
  | cons r rs ih =>
    simp only [Instrumented.emitReports]
    refine NoMut.append ?_ (ih _)
    rw [step]
    exact emit_noMut a _ _ _ _ _ _ _

/-- in read-only mode the admin handlers' API calls are none: `stepWith` is `Server.step` followed
    by the reports -/
theorem stepWith_ro (s : Srv) (i : Input) :
    (Instrumented.stepWith dec c a mode ro rep s i).1 =
      (Server.step dec (Instrumented.cfg c a mode ro) s i).1 ∧
    (Instrumented.stepWith dec c a mode ro rep s i).2 =
      (Server.step dec (Instrumented.cfg c a mode ro) s i).2 ++
        (Instrumented.emitReports dec (Instrumented.cfg c a mode ro) a
          (Server.step dec (Instrumented.cfg c a mode ro) s i).1
          (rep s i (Server.step dec (Instrumented.cfg c a mode ro) s i).2)).2 := by
  have hn := (step_run_noMut dec (icfg_regNoMut c hro hc ha)).1 s i
  have hm : (Server.step dec (Instrumented.cfg c a mode ro) s i).2.flatMap
      (mutatorCalls a (Server.step dec (Instrumented.cfg c a mode ro) s i).1) = [] := by
    rw [List.flatMap_eq_nil_iff]
    intro o hmem
    exact mutatorCalls_nil (hn o hmem) _
  constructor
  · simp only [Instrumented.stepWith, hm, run_nil]
    exact (emitReports_invisible dec _ a _ _).1
  · simp only [Instrumented.stepWith, hm, run_nil, List.append_nil]

/-- no output of a step of the instrumented server — of the core, of the admin handlers' API
    calls, of the reports — is the invocation of a mutator -/
theorem stepWith_noMut (s : Srv) (i : Input) :
    NoMut a (Instrumented.stepWith dec c a mode ro rep s i).2 := by
  rw [(stepWith_ro c hro hc ha dec rep s i).2]
  exact ((step_run_noMut dec (icfg_regNoMut c hro hc ha)).1 s i).append (emitReports_noMut dec _ a _ _)

theorem traceWith_noMut (hist : List Input) : ∀ s : Srv,
    ∀ x ∈ (Instrumented.traceWith dec c a mode ro rep s hist).2, NoMut a x.2 := by
  induction hist with
  | nil => intro s x hx; cases hx
  | cons i is ih =>
    intro s x hx
    simp only [Instrumented.traceWith, List.mem_cons] at hx
    rcases hx with rfl | hx
    · exact stepWith_noMut c hro hc ha dec rep s i
    · exact ih _ x hx

/-- **the first half of `quiet` holds by construction** in read-only / production mode: from any
    state, along any history -/
theorem noMutator_ro (hist : List Input) : ∀ s : Srv,
    Instrumented.noMutator dec c a mode ro rep s hist = true := by
  induction hist with
  | nil => intro s; rfl
  | cons i is ih =>
    intro s
    simp only [Instrumented.noMutator, ih, Bool.and_true, Bool.not_eq_true']
    exact ((step_run_noMut dec (icfg_regNoMut c hro hc ha)).1 s i).any

theorem quiet_ro (s : Srv) (hist : List Input) :
    Instrumented.quiet dec c a mode ro rep s hist = Instrumented.settleQuiet dec c a mode ro rep s hist := by
  rw [quiet_eq, noMutator_ro c hro hc ha dec rep hist s, Bool.true_and]

end ro

/-! ### synchronous handlers: nothing is ever queued -/

theorem bgOf_endSession (cfg : Cfg) (s : Srv) (sid : Sid) (ns : Ns) (reason : Str) (b : Bool) :
    (endSession cfg s sid ns reason b).1.bg = s.bg := by
  obtain ⟨k, hk⟩ := endSession_state cfg s sid ns reason b
  rw [hk]; rfl

theorem bgOf_handleDisconnect (cfg : Cfg) (s : Srv) (t : Eio) (ns : Ns) (reason : Str) :
    (handleDisconnect cfg s t ns reason).1.bg = s.bg := by
  rcases handleDisconnect_state cfg s t ns reason with ⟨h1, _⟩ | ⟨sid, k, _, _, h1⟩ <;> rw [h1] <;> rfl

theorem bgOf_handleConnect (cfg : Cfg) (s : Srv) (t : Eio) (nsp : Option Str) (d : Option J) :
    (handleConnect cfg s t nsp d).1.bg = s.bg := by
  rcases handleConnect_state cfg s t nsp d with h1 | ⟨rooms', k, _, hc, h1 | ⟨p, hp, h1⟩⟩ <;>
    rw [h1] <;> rfl

theorem bgOf_handleAck (s : Srv) (t : Eio) (nsp : Option Str) (id : Option Nat) (d : Option J) :
    (handleAck s t nsp id d).1.bg = s.bg := by
  rcases handleAck_state s t nsp id d with h1 | ⟨sid, i, tok, _, _, _, h1 | ⟨n, args, _, _, h1⟩⟩ <;>
    rw [h1] <;> rfl

theorem bgOf_runHandler (cfg : Cfg) (s : Srv) (b : Bg) : (runHandler cfg s b).1.bg = s.bg := by
  unfold runHandler
  split
  · rfl
  · rename_i r _
    cases r <;> dsimp only <;> (try cases cfg.script.onEvent s.nEv) <;> rfl

theorem bgOf_handleEvent {cfg : Cfg} (hs : cfg.asyncHandlers = false) (s : Srv) (t : Eio)
    (nsp : Option Str) (id : Option Nat) (d : Option J) : (handleEvent cfg s t nsp id d).1.bg = s.bg := by
  unfold handleEvent
  dsimp only
  split
  · rfl
  · split
    · rfl
    · split
      · rfl
      · rw [hs]
        simp only [Bool.false_eq_true, if_false]
        exact bgOf_runHandler _ _ _

theorem bgOf_handleFrame (dec : Str → Except Err (Packet × Nat)) {cfg : Cfg}
    (hs : cfg.asyncHandlers = false) (s : Srv) (t : Eio) (v : J) :
    (handleFrame dec cfg s t v).1.bg = s.bg := by
  have hfc := frameCase dec cfg s t v
  generalize handleFrame dec cfg s t v = r at hfc
  cases hfc with
  | tooMany _ _ => rfl
  | reconErr _ _ _ _ => rfl
  | binEvent _ _ _ _ _ => exact bgOf_handleEvent hs _ _ _ _ _
  | binAck _ _ _ _ _ => exact bgOf_handleAck _ _ _ _ _
  | more _ _ _ => rfl
  | undecodable _ _ => rfl
  | packet hf hd =>
    rename_i p natt
    have hdc := dispatchCase cfg s t p natt
    generalize dispatchPacket cfg s t p natt = r at hdc
    cases hdc with
    | connect _ => exact bgOf_handleConnect _ _ _ _ _
    | disconnect _ => exact bgOf_handleDisconnect _ _ _ _ _
    | event _ => exact bgOf_handleEvent hs _ _ _ _ _
    | ack _ => exact bgOf_handleAck _ _ _ _ _
    | binHeader _ => rfl
    | other => rfl

theorem bgOf_lostGo (cfg : Cfg) (t : Eio) (reason : Str) (nss : List Ns) :
    ∀ (s : Srv) (o : List Out), (handleLost.go cfg t reason s o nss).1.bg = s.bg := by
  induction nss with
  | nil => intro s o; rfl
  | cons ns rest ih =>
    intro s o
    rw [handleLost.go, ih, bgOf_handleDisconnect]

theorem bgOf_handleLost (cfg : Cfg) (s : Srv) (t : Eio) (reason : Str) :
    (handleLost cfg s t reason).1.bg = s.bg := by
  rw [handleLost_eq]
  split
  · rfl
  · exact bgOf_lostGo cfg t reason _ s []

theorem bgOf_emitFold (ns : Ns) (payload : List J) (tok : CbTok) (rs : List (Sid × Eio)) :
    ∀ (s : Srv) (o : List Out), (rs.foldl (emitOne ns payload tok) (s, o)).1.bg = s.bg := by
  induction rs with
  | nil => intro s o; rfl
  | cons r rs ih =>
    intro s o
    simp only [List.foldl_cons]
    rw [ih]; rfl

theorem bgOf_emit (s : Srv) (ev : Str) (d : Data) (ns : Ns) (to : Target) (skip : List Sid)
    (cb : Option CbTok) : (emit s ev d ns to skip cb).1.bg = s.bg := by
  cases cb with
  | none => rw [emit_nocb_state]
  | some tok =>
    rw [emit_cb_eq]
    split
    · rfl
    · exact bgOf_emitFold ns _ tok _ s []

theorem bgOf_sessSet (s : Srv) (t : Eio) (ns : Ns) (v : J) : (sessSet s t ns v).bg = s.bg := by
  unfold sessSet
  split <;> rfl

theorem bgOf_drain (cfg : Cfg) (bs : List Bg) :
    ∀ (s : Srv) (o : List Out), (step.drain cfg s o bs).1.bg = s.bg := by
  induction bs with
  | nil => intro s o; rfl
  | cons b rest ih =>
    intro s o
    rw [step.drain, ih, bgOf_runHandler]

/-- with `async_handlers=False` the queue of background handlers stays empty -/
theorem step_bgNil (dec : Str → Except Err (Packet × Nat)) {cfg : Cfg}
    (hs : cfg.asyncHandlers = false) {s : Srv} (h : s.bg = []) (i : Input) :
    (Server.step dec cfg s i).1.bg = [] := by
  cases i with
  | eioConnect t => rw [step]; exact h
  | frame t v => rw [step, bgOf_handleFrame dec hs]; exact h
  | eioLost t r => rw [step, bgOf_handleLost]; exact h
  | emit ev d ns to skip cb => rw [step, bgOf_emit]; exact h
  | call ev d ns sid during => rw [step_call, hs]; exact h
  | apiDisconnect sid ns =>
    rw [step]; unfold apiDisconnect
    split
    · exact h
    · exact (bgOf_endSession _ _ _ _ _ _).trans h
  | enterRoom sid ns room => rw [step]; split <;> exact h
  | leaveRoom sid ns room => rw [step]; exact h
  | closeRoom ns room => rw [step]; exact h
  | rooms sid ns => rw [step]; exact h
  | getSession sid ns =>
    rw [step]
    split
    · exact h
    · split
      · exact h
      · exact (bgOf_sessSet _ _ _ _).trans h
  | saveSession sid ns v =>
    rw [step]
    split
    · exact h
    · exact (bgOf_sessSet _ _ _ _).trans h
  | sessionBlock sid ns k v =>
    rw [step]
    split
    · exact h
    · exact (bgOf_sessSet _ _ _ _).trans h
  | settle => rw [step, bgOf_drain]

theorem run_bgNil (dec : Str → Except Err (Packet × Nat)) {cfg : Cfg}
    (hs : cfg.asyncHandlers = false) (is : List Input) :
    ∀ {s : Srv}, s.bg = [] → (Server.run dec cfg s is).1.bg = [] := by
  induction is with
  | nil => intro s h; rw [run_nil]; exact h
  | cons i is ih => intro s h; rw [run_cons]; exact ih (step_bgNil dec hs h i)

theorem stepWith_bgNil (dec : Str → Except Err (Packet × Nat)) (c : Cfg) (a : Ns) (mode : Str)
    (ro : Bool) (rep : Srv → Input → List Out → List Report) (hs : c.asyncHandlers = false)
    {s : Srv} (h : s.bg = []) (i : Input) :
    (Instrumented.stepWith dec c a mode ro rep s i).1.bg = [] := by
  simp only [Instrumented.stepWith]
  rw [(emitReports_invisible dec _ a _ _).1]
  exact run_bgNil dec (cfg := Instrumented.cfg c a mode ro) hs _ (step_bgNil dec (cfg := Instrumented.cfg c a mode ro) hs h i)

/-- **the second half of `quiet` holds by construction** with synchronous handlers -/
theorem settleQuiet_sync (dec : Str → Except Err (Packet × Nat)) (c : Cfg) (a : Ns) (mode : Str)
    (ro : Bool) (rep : Srv → Input → List Out → List Report) (hs : c.asyncHandlers = false)
    (hist : List Input) : ∀ {s : Srv}, s.bg = [] →
      Instrumented.settleQuiet dec c a mode ro rep s hist = true := by
  induction hist with
  | nil => intro s _; rfl
  | cons i is ih =>
    intro s h
    simp only [Instrumented.settleQuiet, ih (stepWith_bgNil dec c a mode ro rep hs h i), Bool.and_true]
    cases i <;> simp [h]

/-! ### read-only: a request of an admin client, per step -/

/-- a frame that delivers an EVENT packet (as a text frame, or as the last attachment of a
    BINARY_EVENT) is handed to `_handle_event`, in the state itself or — binary — in the state
    without the completed partial packet -/
theorem handleFrame_arriving_event (dec : Str → Except Err (Packet × Nat)) (cfg : Cfg) {s : Srv}
    {t : Eio} {v : J} {p : Packet} (h : arriving dec s t v = some p) (hty : p.type = EVENT) :
    ∃ s₀, ((s.binbuf.find? (fun e => e.1 = t) = none ∧ s₀ = s) ∨
        (s.binbuf.find? (fun e => e.1 = t) ≠ none ∧ s₀ = dropBin s t)) ∧
      handleFrame dec cfg s t v = handleEvent cfg s₀ t p.nsp p.id p.data := by
  have hae : ¬ ACK = EVENT := by decide
  unfold arriving at h
  split at h
  · rename_i t' part hf
    dsimp only at h
    split at h
    · cases h
    · rename_i h1
      split at h
      · rename_i h2
        refine ⟨dropBin s t, Or.inr ⟨by rw [hf]; simp, rfl⟩, ?_⟩
        have hbe : ∀ q : Packet, q.type = (if part.pkt.type = BINARY_EVENT then EVENT else ACK) →
            q.type = EVENT → part.pkt.type = BINARY_EVENT := by
          intro q hq he
          by_cases hb : part.pkt.type = BINARY_EVENT
          · exact hb
          · rw [if_neg hb] at hq; exact absurd (hq.symm.trans he) hae
        unfold handleFrame
        rw [hf]
        dsimp only
        rw [if_neg h1, if_pos h2]
        split at h
        · rename_i j hj
          split at h
          · rename_i d hd
            cases h
            have hb := hbe _ rfl hty
            simp only [hj, hd, Except.map, hb, if_true]
            rfl
          · cases h
        · rename_i hj
          cases h
          have hb := hbe _ rfl hty
          simp only [hj, hb, if_true]
          rfl
      · cases h
  · rename_i hf
    refine ⟨s, Or.inl ⟨hf, rfl⟩, ?_⟩
    have key : ∃ n, frameDecode dec v = .ok (p, n) := by
      unfold frameDecode
      split at h
      · split at h
        · rename_i q n hq
          cases h; exact ⟨n, hq⟩
        · cases h
      · cases h
      · rename_i h1 h2
        split at h
        · rename_i q n hq
          cases h
          refine ⟨n, ?_⟩
          split
          · exact absurd rfl (h1 _ _)
          · exact absurd rfl (h2 _ _)
          · exact hq
        · cases h
    obtain ⟨n, hn⟩ := key
    have hfr : handleFrame dec cfg s t v =
        match frameDecode dec v with
        | .error e => (s, [.raised e])
        | .ok (p, n) => dispatchPacket cfg s t p n := by
      unfold handleFrame frameDecode
      rw [hf]
      rfl
    rw [hfr, hn]
    have hne : ¬ EVENT = CONNECT := by decide
    have hne2 : ¬ EVENT = DISCONNECT := by decide
    simp only [dispatchPacket, hty, hne, hne2, if_false, if_true]

theorem hidden_of_filter {a : Ns} {outs : List Out} (h : outs.filter (appVisible a true) = []) :
    Hidden a outs := by
  intro o ho
  have := List.filter_eq_nil_iff.mp h o ho
  simpa using this

section ro
variable {a : Ns} {mode : Str} {ro : Bool} (c : Cfg)
  (hro : ro = true ∨ isDev mode = false) (hc : AppClear c.reg a) (ha : a ≠ star)
  (dec : Str → Except Err (Packet × Nat)) (rep : Srv → Input → List Out → List Report)
include hro hc ha

/-- **One request of an admin client, in read-only / production mode, from ANY state**: the frame
    delivers an EVENT packet of the admin namespace (whatever its name and arguments).  The room
    relation and the disconnects in progress are untouched — on every namespace —, and every
    output is hidden from the application side. -/
theorem stepWith_adminEvent_ro (s : Srv) (t : Eio) (v : J) {p : Packet}
    (harr : arriving dec s t v = some p) (hty : p.type = EVENT) (hns : p.nsp.getD ['/'] = a) :
    (Instrumented.stepWith dec c a mode ro rep s (.frame t v)).1.rooms = s.rooms ∧
    (Instrumented.stepWith dec c a mode ro rep s (.frame t v)).1.pending = s.pending ∧
    Hidden a (Instrumented.stepWith dec c a mode ro rep s (.frame t v)).2 ∧
    NoMut a (Instrumented.stepWith dec c a mode ro rep s (.frame t v)).2 := by
  obtain ⟨s₀, hs₀, hfr⟩ := handleFrame_arriving_event dec (Instrumented.cfg c a mode ro) harr hty
  obtain ⟨h1, h2⟩ := stepWith_ro c hro hc ha dec rep s (.frame t v)
  have hst : Server.step dec (Instrumented.cfg c a mode ro) s (.frame t v) =
      handleEvent (Instrumented.cfg c a mode ro) s₀ t p.nsp p.id p.data := by rw [step]; exact hfr
  have hcore := handleEvent_core (Instrumented.cfg c a mode ro) s₀ t p.nsp p.id p.data
  have hr0 : s₀.rooms = s.rooms ∧ s₀.pending = s.pending := by
    rcases hs₀ with ⟨_, rfl⟩ | ⟨_, rfl⟩ <;> exact ⟨rfl, rfl⟩
  refine ⟨?_, ?_, ?_, stepWith_noMut c hro hc ha dec rep s _⟩
  · rw [h1, hst]; exact (congrArg Srv.rooms hcore).trans hr0.1
  · rw [h1, hst]; exact (congrArg Srv.pending hcore).trans hr0.2
  · rw [h2]
    refine Hidden.append ?_ (hidden_of_filter ((emitReports_invisible dec _ a _ _).2 true))
    rw [hst]
    exact (handleEvent_admin ha c hc mode ro s₀ t p.nsp p.id p.data hns).2

/-- … and when such a request was queued (`async_handlers`) and is run later, in whatever
    state: only the position of the event script moves (an event literally named `connect` runs
    `admin_connect`), every output is hidden from the application side, none is a mutator. -/
theorem runHandler_admin_ro (s : Srv) (b : Bg) (hb : b.ns = a) :
    (∃ k, (runHandler (Instrumented.cfg c a mode ro) s b).1 = { s with nEv := s.nEv + k }) ∧
    Hidden a (runHandler (Instrumented.cfg c a mode ro) s b).2 ∧
    NoMut a (runHandler (Instrumented.cfg c a mode ro) s b).2 := by
  obtain ⟨h1, h2⟩ := icfg_noStar hc ha mode ro
  obtain ⟨hk, hh⟩ := runHandler_ns h1 h2 s b
  rw [hb] at hh
  exact ⟨hk, hh, runHandler_noMut (icfg_regNoMut c hro hc ha) s b⟩

end ro

/-! ### histories without the admin clients' requests -/

/-- `i`, arriving in state `s`, is a text frame (no binary packet of its transport is being
    reassembled) that carries an EVENT packet of the admin namespace -/
def adminEventInput (dec : Str → Except Err (Packet × Nat)) (a : Ns) (s : Srv) : Input → Bool
  | .frame t v =>
    (s.binbuf.find? (fun e => e.1 = t)).isNone &&
    (match arriving dec s t v with
     | some p => p.type == EVENT && p.nsp.getD ['/'] == a
     | none => false)
  | _ => false

namespace Instrumented

/-- the history without the EVENT frames admin clients sent on the admin namespace (which frames
    these are is decided along the instrumented run) -/
def withoutAdminEvents (dec : Str → Except Err (Packet × Nat)) (c : Cfg) (a : Ns) (mode : Str)
    (ro : Bool) (rep : Srv → Input → List Out → List Report) : Srv → List Input → List Input
  | _, [] => []
  | s, i :: is =>
    if adminEventInput dec a s i then
      withoutAdminEvents dec c a mode ro rep (stepWith dec c a mode ro rep s i).1 is
    else i :: withoutAdminEvents dec c a mode ro rep (stepWith dec c a mode ro rep s i).1 is

end Instrumented

def Skip.add (k k' : Skip) : Skip := ⟨k.sid + k'.sid, k.conn + k'.conn, k.ev + k'.ev⟩

theorem bumpBy_bumpBy (k k' : Skip) (s : Srv) : bumpBy k (bumpBy k' s) = bumpBy (Skip.add k' k) s := by
  simp only [bumpBy, Skip.add, Nat.add_assoc]

theorem adminEventInput_inv {dec : Str → Except Err (Packet × Nat)} {a : Ns} {s : Srv} {i : Input}
    (h : adminEventInput dec a s i = true) :
    ∃ t v p, i = .frame t v ∧ s.binbuf.find? (fun e => e.1 = t) = none ∧
      arriving dec s t v = some p ∧ p.type = EVENT ∧ p.nsp.getD ['/'] = a := by
  cases i with
  | frame t v =>
    simp only [adminEventInput, Bool.and_eq_true, Option.isNone_iff_eq_none] at h
    obtain ⟨hf, h2⟩ := h
    split at h2
    · rename_i p hp
      simp only [Bool.and_eq_true, beq_iff_eq] at h2
      exact ⟨t, v, p, rfl, hf, hp, h2.1, h2.2⟩
    · cases h2
  | _ => simp [adminEventInput] at h

/-- the plain server, which has no session on the admin namespace, ignores such a frame -/
theorem plain_adminEvent (dec : Str → Except Err (Packet × Nat)) (c : Cfg) {a : Ns} {s : Srv}
    {t : Eio} {v : J} {p : Packet} (hf : s.binbuf.find? (fun e => e.1 = t) = none)
    (harr : arriving dec s t v = some p) (hty : p.type = EVENT) (hns : p.nsp.getD ['/'] = a) :
    (Server.step dec c (appPart a s) (.frame t v)).1 = appPart a s ∧
    Hidden a (Server.step dec c (appPart a s) (.frame t v)).2 := by
  have harr' : arriving dec (appPart a s) t v = some p := harr
  obtain ⟨s₀, hs₀, hfr⟩ := handleFrame_arriving_event dec c harr' hty
  have : s₀ = appPart a s := by
    rcases hs₀ with ⟨_, h⟩ | ⟨h, _⟩
    · exact h
    · exact absurd hf h
  subst this
  rw [step, hfr]
  exact handleEvent_plain a c s t p.nsp p.id p.data hns

section trace
variable {a : Ns} (ha : a ≠ star) (c : Cfg) (hc : AppClear c.reg a) (hserved : isServed c a = false)
  (mode : Str) (ro : Bool) (dec : Str → Except Err (Packet × Nat))
  (rep : Srv → Input → List Out → List Report)
include ha hc hserved

/-- `trace_sim` against the plain server run on the history WITHOUT the admin clients' EVENT
    frames: the application side observes the same outputs, in the same order -/
theorem pruned_sim (hist : List Input) :
    ∀ (si sp : Srv) (k : Skip), Server.WF si → Server.WF sp → appPart a si = bumpBy k sp →
      (∀ i ∈ hist, appInput a i = true) →
      Instrumented.quiet dec c a mode ro rep si hist = true →
      ∃ skips : List Skip,
        skips.length = (Instrumented.withoutAdminEvents dec c a mode ro rep si hist).length ∧
        (observeTrace a (Instrumented.traceWith dec c a mode ro rep si hist).2).flatMap (·.2) =
          (observeTrace a (Plain.traceSkip dec c sp
            (skips.zip (Instrumented.withoutAdminEvents dec c a mode ro rep si hist))).2).flatMap (·.2) ∧
        appState a (Instrumented.traceWith dec c a mode ro rep si hist).1 =
          appState a (Plain.traceSkip dec c sp
            (skips.zip (Instrumented.withoutAdminEvents dec c a mode ro rep si hist))).1 := by
  induction hist with
  | nil =>
    intro si sp k _ _ hrel _ _
    exact ⟨[], rfl, rfl, appState_of_rel hrel⟩
  | cons i is ih =>
    intro si sp k hwi hwp hrel happ hq
    have hwp' : Server.WF (appPart a si) := by rw [hrel]; exact WF.bumpBy hwp k
    have hcb := noAdminCb_of_wf hwi hwp'
    simp only [Instrumented.quiet, Bool.and_eq_true] at hq
    obtain ⟨⟨k', hk'⟩, ho⟩ := stepWith_sim ha c hc hserved mode ro dec rep hwi hcb i
      (happ i List.mem_cons_self) hq.1
    have happ' : ∀ j ∈ is, appInput a j = true := fun j hj => happ j (List.mem_cons_of_mem _ hj)
    cases hadm : adminEventInput dec a si i with
    | true =>
      obtain ⟨t, v, p, rfl, hf, harr, hty, hns⟩ := adminEventInput_inv hadm
      obtain ⟨hp1, hp2⟩ := plain_adminEvent dec c hf harr hty hns
      rw [hp1, hrel, bumpBy_bumpBy] at hk'
      obtain ⟨skips, hlen, htr, hst⟩ := ih _ sp _ (stepWith_wf c mode ro dec rep hwi _) hwp hk'
        happ' hq.2
      have ho' : (Instrumented.stepWith dec c a mode ro rep si (.frame t v)).2.filter (appVisible a true) = [] := by
        have h2 : (Server.step dec c (appPart a si) (.frame t v)).2.filter (appVisible a true) = [] := by
          rw [List.filter_eq_nil_iff]; intro o ho; simp [hp2 o ho]
        exact ho.trans h2
      refine ⟨skips, ?_, ?_, ?_⟩
      · simp only [Instrumented.withoutAdminEvents, hadm, if_true]; exact hlen
      · simp only [Instrumented.withoutAdminEvents, hadm, if_true, Instrumented.traceWith, observeTrace,
          List.map_cons, List.flatMap_cons, appView, contained, ho', List.nil_append]
        simp only [observeTrace, appView] at htr
        exact htr
      · simp only [Instrumented.withoutAdminEvents, hadm, if_true, Instrumented.traceWith]
        exact hst
    | false =>
      rw [hrel] at hk' ho
      obtain ⟨skips, hlen, htr, hst⟩ := ih _ _ k' (stepWith_wf c mode ro dec rep hwi i)
        ((WF.bumpBy hwp k).step dec c i) hk' happ' hq.2
      refine ⟨k :: skips, ?_, ?_, ?_⟩
      · simp [Instrumented.withoutAdminEvents, hadm, hlen]
      · simp only [Instrumented.withoutAdminEvents, hadm, Bool.false_eq_true, if_false,
          Instrumented.traceWith, List.zip_cons_cons, Plain.traceSkip, observeTrace,
          List.map_cons, List.flatMap_cons, appView, ho]
        simp only [observeTrace, appView] at htr
        rw [htr]
      · simp only [Instrumented.withoutAdminEvents, hadm, Bool.false_eq_true, if_false,
          Instrumented.traceWith, List.zip_cons_cons, Plain.traceSkip]
        exact hst

end trace

end Sio.Admin
