/-
  C01 — decimal digits: `natStr` (= `Nat.toDigits 10`) against the model's `pyInt`, `allDigits`
  and the digit-class table.
-/
import Sio.Lemmas.CodecDefs
namespace Sio

/-- All the theorems need to know about the per-run digit table: it is right on ASCII. -/
def AsciiCls (cls : Char → DC) : Prop := ∀ c : Char, c.toNat < 128 → cls c = asciiCls c

theorem asciiCls_ascii : AsciiCls asciiCls := fun _ _ => rfl

theorem isDigit_iff {c : Char} : c.isDigit = true ↔ 48 ≤ c.toNat ∧ c.toNat ≤ 57 := by
  simp [Char.isDigit, UInt32.le_iff_toNat_le]

theorem cls_of_isDigit {cls : Char → DC} (h : AsciiCls cls) {c : Char} (hc : c.isDigit = true) :
    cls c = .dec (c.toNat - 48) := by
  have := isDigit_iff.mp hc
  rw [h c (by omega)]; simp [asciiCls, hc]

theorem cls_of_ascii_nondigit {cls : Char → DC} (h : AsciiCls cls) {c : Char} (h1 : c.toNat < 128)
    (hc : c.isDigit = false) : cls c = .non := by
  rw [h c h1]; simp [asciiCls, hc]

theorem cls_isDigit_of_isDigit {cls : Char → DC} (h : AsciiCls cls) {c : Char}
    (hc : c.isDigit = true) : (cls c).isDigit = true := by
  rw [cls_of_isDigit h hc]; rfl

/-! ### generic list facts -/

theorem takeWhile_stop {α} {p : α → Bool} {l₁ l₂ : List α} {b : α} (h : ∀ a ∈ l₁, p a = true)
    (hb : p b = false) : (l₁ ++ b :: l₂).takeWhile p = l₁ := by
  rw [List.takeWhile_append_of_pos h, List.takeWhile_cons_of_neg (by simp [hb])]; simp

theorem takeWhile_all {α} {p : α → Bool} {l : List α} (h : ∀ a ∈ l, p a = true) :
    l.takeWhile p = l := by
  induction l with
  | nil => rfl
  | cons a l ih =>
    rw [List.takeWhile_cons_of_pos (h a (by simp)), ih (fun b hb => h b (by simp [hb]))]

/-! ### `natStr` -/

theorem natStr_isDigit {n : Nat} {c : Char} (h : c ∈ natStr n) : c.isDigit = true :=
  Nat.isDigit_of_mem_toDigits (by decide) (by decide) h

theorem natStr_ne_nil (n : Nat) : natStr n ≠ [] := Nat.toDigits_ne_nil

theorem natStr_length_le {n k : Nat} (hk : 0 < k) : (natStr n).length ≤ k ↔ n < 10 ^ k :=
  Nat.length_toDigits_le_iff (by decide) hk

theorem natStr_of_lt_ten {n : Nat} (h : n < 10) : natStr n = [Nat.digitChar n] :=
  Nat.toDigits_of_lt_base h

theorem natStr_cons (n : Nat) : ∃ c cs, natStr n = c :: cs ∧ c.isDigit = true := by
  cases h : natStr n with
  | nil => exact absurd h (natStr_ne_nil n)
  | cons c cs => exact ⟨c, cs, rfl, natStr_isDigit (by rw [h]; simp)⟩

/-! ### `int()` of a digit string -/

theorem pyIntGo_digits {cls : Char → DC} (hcls : AsciiCls cls) (s : Str)
    (h : ∀ c ∈ s, c.isDigit = true) (acc : Nat) :
    pyIntGo cls s acc = .ok (Nat.ofDigitChars 10 s acc) := by
  induction s generalizing acc with
  | nil => simp [pyIntGo]
  | cons c cs ih =>
    have hc := h c (by simp)
    simp only [pyIntGo, cls_of_isDigit hcls hc, Nat.ofDigitChars_cons]
    rw [ih (fun d hd => h d (by simp [hd])), Nat.mul_comm]; rfl

theorem pyInt_natStr {cls : Char → DC} (hcls : AsciiCls cls) (n : Nat) :
    pyInt cls (natStr n) = .ok n := by
  unfold pyInt
  have : (natStr n).isEmpty = false := by
    cases h : natStr n with
    | nil => exact absurd h (natStr_ne_nil n)
    | cons _ _ => rfl
  rw [this, pyIntGo_digits hcls _ (fun c hc => natStr_isDigit hc)]
  simp [natStr]

theorem allDigits_natStr {cls : Char → DC} (hcls : AsciiCls cls) (n : Nat) :
    allDigits cls (natStr n) = true := by
  unfold allDigits
  have : (natStr n).isEmpty = false := by
    cases h : natStr n with
    | nil => exact absurd h (natStr_ne_nil n)
    | cons _ _ => rfl
  simp only [this, Bool.not_false, Bool.true_and, List.all_eq_true]
  exact fun c hc => cls_isDigit_of_isDigit hcls (natStr_isDigit hc)

/-- a string containing a non-digit is not `isdigit()` -/
theorem allDigits_false_of_mem {cls : Char → DC} {s : Str} {c : Char} (hc : c ∈ s)
    (h : (cls c).isDigit = false) : allDigits cls s = false := by
  unfold allDigits
  simp only [Bool.and_eq_false_imp, Bool.not_eq_eq_eq_not, Bool.not_true]
  intro _
  rw [List.all_eq_false]
  exact ⟨c, hc, by simp [h]⟩

/-! ### bounds on `int()` of a bounded string (guards) -/

/-- every character `int()` accepts has a value below ten -/
def DecLt10 (cls : Char → DC) : Prop := ∀ c v, cls c = .dec v → v < 10

theorem asciiCls_decLt10 : DecLt10 asciiCls := by
  intro c v h
  unfold asciiCls at h
  split at h
  · rename_i hd
    have := isDigit_iff.mp hd
    injection h with h; omega
  · cases h

theorem pyIntGo_bound {cls : Char → DC} (hd : DecLt10 cls) (s : Str) (acc v : Nat)
    (h : pyIntGo cls s acc = .ok v) : v < (acc + 1) * 10 ^ s.length := by
  induction s generalizing acc with
  | nil => simp [pyIntGo] at h; subst h; simp
  | cons c cs ih =>
    simp only [pyIntGo] at h
    split at h
    · rename_i w hw
      have hw' := hd c w hw
      have := ih _ h
      simp only [List.length_cons, Nat.pow_succ]
      calc v < (acc * 10 + w + 1) * 10 ^ cs.length := this
        _ ≤ ((acc + 1) * 10) * 10 ^ cs.length := Nat.mul_le_mul_right _ (by omega)
        _ = (acc + 1) * (10 ^ cs.length * 10) := by rw [Nat.mul_assoc, Nat.mul_comm 10]
    · cases h

theorem pyInt_bound {cls : Char → DC} (hd : DecLt10 cls) (s : Str) (v : Nat)
    (h : pyInt cls s = .ok v) : v < 10 ^ s.length := by
  unfold pyInt at h
  split at h
  · cases h
  · simpa using pyIntGo_bound hd s 0 v h

end Sio
