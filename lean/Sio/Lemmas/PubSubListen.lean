/-
  Helper lemmas for K6 (pub/sub), listener part: `trigger` never fails on iterable arguments, the
  fold structure of `listen`, arithmetic of the Redis back-off.
-/
import Sio.Model.PubSub
namespace Sio.PubSub
open Sio.Rooms

/-! ### the method names are pairwise different -/

@[simp] theorem mCallback_ne_mEmit : (mCallback = mEmit) = False := by simp only [eq_iff_iff, iff_false]; decide
@[simp] theorem mCallback_ne_mDisconnect : (mCallback = mDisconnect) = False := by simp only [eq_iff_iff, iff_false]; decide
@[simp] theorem mCallback_ne_mEnterRoom : (mCallback = mEnterRoom) = False := by simp only [eq_iff_iff, iff_false]; decide
@[simp] theorem mCallback_ne_mLeaveRoom : (mCallback = mLeaveRoom) = False := by simp only [eq_iff_iff, iff_false]; decide
@[simp] theorem mCallback_ne_mCloseRoom : (mCallback = mCloseRoom) = False := by simp only [eq_iff_iff, iff_false]; decide
@[simp] theorem mEmit_ne_mCallback : (mEmit = mCallback) = False := by simp only [eq_iff_iff, iff_false]; decide
@[simp] theorem mEmit_ne_mDisconnect : (mEmit = mDisconnect) = False := by simp only [eq_iff_iff, iff_false]; decide
@[simp] theorem mEmit_ne_mEnterRoom : (mEmit = mEnterRoom) = False := by simp only [eq_iff_iff, iff_false]; decide
@[simp] theorem mEmit_ne_mLeaveRoom : (mEmit = mLeaveRoom) = False := by simp only [eq_iff_iff, iff_false]; decide
@[simp] theorem mEmit_ne_mCloseRoom : (mEmit = mCloseRoom) = False := by simp only [eq_iff_iff, iff_false]; decide
@[simp] theorem mDisconnect_ne_mCallback : (mDisconnect = mCallback) = False := by simp only [eq_iff_iff, iff_false]; decide
@[simp] theorem mDisconnect_ne_mEmit : (mDisconnect = mEmit) = False := by simp only [eq_iff_iff, iff_false]; decide
@[simp] theorem mDisconnect_ne_mEnterRoom : (mDisconnect = mEnterRoom) = False := by simp only [eq_iff_iff, iff_false]; decide
@[simp] theorem mDisconnect_ne_mLeaveRoom : (mDisconnect = mLeaveRoom) = False := by simp only [eq_iff_iff, iff_false]; decide
@[simp] theorem mDisconnect_ne_mCloseRoom : (mDisconnect = mCloseRoom) = False := by simp only [eq_iff_iff, iff_false]; decide
@[simp] theorem mEnterRoom_ne_mCallback : (mEnterRoom = mCallback) = False := by simp only [eq_iff_iff, iff_false]; decide
@[simp] theorem mEnterRoom_ne_mEmit : (mEnterRoom = mEmit) = False := by simp only [eq_iff_iff, iff_false]; decide
@[simp] theorem mEnterRoom_ne_mDisconnect : (mEnterRoom = mDisconnect) = False := by simp only [eq_iff_iff, iff_false]; decide
@[simp] theorem mEnterRoom_ne_mLeaveRoom : (mEnterRoom = mLeaveRoom) = False := by simp only [eq_iff_iff, iff_false]; decide
@[simp] theorem mEnterRoom_ne_mCloseRoom : (mEnterRoom = mCloseRoom) = False := by simp only [eq_iff_iff, iff_false]; decide
@[simp] theorem mLeaveRoom_ne_mCallback : (mLeaveRoom = mCallback) = False := by simp only [eq_iff_iff, iff_false]; decide
@[simp] theorem mLeaveRoom_ne_mEmit : (mLeaveRoom = mEmit) = False := by simp only [eq_iff_iff, iff_false]; decide
@[simp] theorem mLeaveRoom_ne_mDisconnect : (mLeaveRoom = mDisconnect) = False := by simp only [eq_iff_iff, iff_false]; decide
@[simp] theorem mLeaveRoom_ne_mEnterRoom : (mLeaveRoom = mEnterRoom) = False := by simp only [eq_iff_iff, iff_false]; decide
@[simp] theorem mLeaveRoom_ne_mCloseRoom : (mLeaveRoom = mCloseRoom) = False := by simp only [eq_iff_iff, iff_false]; decide
@[simp] theorem mCloseRoom_ne_mCallback : (mCloseRoom = mCallback) = False := by simp only [eq_iff_iff, iff_false]; decide
@[simp] theorem mCloseRoom_ne_mEmit : (mCloseRoom = mEmit) = False := by simp only [eq_iff_iff, iff_false]; decide
@[simp] theorem mCloseRoom_ne_mDisconnect : (mCloseRoom = mDisconnect) = False := by simp only [eq_iff_iff, iff_false]; decide
@[simp] theorem mCloseRoom_ne_mEnterRoom : (mCloseRoom = mEnterRoom) = False := by simp only [eq_iff_iff, iff_false]; decide
@[simp] theorem mCloseRoom_ne_mLeaveRoom : (mCloseRoom = mLeaveRoom) = False := by simp only [eq_iff_iff, iff_false]; decide

/-! ### `trigger_callback` -/

theorem trigger_err_none (fuel : Nat) (h : Host) (key : Str) (id : Nat) (xs : List J) :
    (trigger fuel h key id (some xs)).err = none := by
  induction fuel generalizing h key id with
  | zero => rfl
  | succ n ih =>
    unfold trigger
    split
    · rfl
    · rename_i cb _
      cases cb with
      | user tok => rfl
      | relay origin key' ns' id' =>
        simp only
        split
        · exact ih _ _ _
        · rfl

theorem trigger_id (fuel : Nat) (h : Host) (key : Str) (id : Nat) (args : Option (List J)) :
    (trigger fuel h key id args).h.id = h.id := by
  induction fuel generalizing h key id with
  | zero => rfl
  | succ n ih =>
    unfold trigger
    split
    · rfl
    · rename_i cb _
      cases args with
      | none => rfl
      | some xs =>
        cases cb with
        | user tok => rfl
        | relay origin key' ns' id' =>
          simp only
          split
          · rw [ih]
          · rfl

theorem trigger_rooms (fuel : Nat) (h : Host) (key : Str) (id : Nat) (args : Option (List J)) :
    (trigger fuel h key id args).h.rooms = h.rooms := by
  induction fuel generalizing h key id with
  | zero => rfl
  | succ n ih =>
    unfold trigger
    split
    · rfl
    · rename_i cb _
      cases args with
      | none => rfl
      | some xs =>
        cases cb with
        | user tok => rfl
        | relay origin key' ns' id' =>
          simp only
          split
          · rw [ih]
          · rfl

theorem trigger_cursor (fuel : Nat) (h : Host) (key : Str) (id : Nat) (args : Option (List J)) :
    (trigger fuel h key id args).h.cursor = h.cursor := by
  induction fuel generalizing h key id with
  | zero => rfl
  | succ n ih =>
    unfold trigger
    split
    · rfl
    · rename_i cb _
      cases args with
      | none => rfl
      | some xs =>
        cases cb with
        | user tok => rfl
        | relay origin key' ns' id' =>
          simp only
          split
          · rw [ih]
          · rfl

/-- a callback that is not there: nothing happens -/
theorem trigger_absent (fuel : Nat) (h : Host) (key : Str) (id : Nat) (args : Option (List J))
    (hn : h.cbs key id = none) : trigger fuel h key id args = { h := h } := by
  cases fuel with
  | zero => rfl
  | succ n => unfold trigger; simp [hn]

/-! ### handlers fail before they act -/

/-- a result that either did not fail or did nothing -/
def ErrNoop (h : Host) (r : Res) : Prop := r.err = none ∨ (r.h = h ∧ r.outs = [] ∧ r.pubs = [])

theorem errNoop_handleEmit (h : Host) (m : DMsg) : ErrNoop h (handleEmit h m) := by
  unfold handleEmit ErrNoop
  dsimp only
  repeat' split
  all_goals first | (right; exact ⟨rfl, rfl, rfl⟩) | (left; rfl)

theorem errNoop_handleDisconnect (h : Host) (m : DMsg) : ErrNoop h (handleDisconnect h m) := by
  unfold handleDisconnect ErrNoop localDisconnect
  dsimp only
  repeat' split
  all_goals first | (right; exact ⟨rfl, rfl, rfl⟩) | (left; rfl)

theorem errNoop_handleEnterRoom (h : Host) (m : DMsg) : ErrNoop h (handleEnterRoom h m) := by
  unfold handleEnterRoom ErrNoop
  repeat' split
  all_goals first | (right; exact ⟨rfl, rfl, rfl⟩) | (left; rfl)

theorem errNoop_handleLeaveRoom (h : Host) (m : DMsg) : ErrNoop h (handleLeaveRoom h m) := by
  unfold handleLeaveRoom ErrNoop
  repeat' split
  all_goals first | (right; exact ⟨rfl, rfl, rfl⟩) | (left; rfl)

theorem errNoop_handleCloseRoom (h : Host) (m : DMsg) : ErrNoop h (handleCloseRoom h m) := by
  unfold handleCloseRoom ErrNoop
  repeat' split
  all_goals first | (right; exact ⟨rfl, rfl, rfl⟩) | (left; rfl)

theorem errNoop_handleCallback (h : Host) (m : DMsg) (hargs : m.args ≠ .nonIterable) :
    ErrNoop h (handleCallback h m) := by
  unfold handleCallback ErrNoop
  split
  · split
    any_goals first | (right; exact ⟨rfl, rfl, rfl⟩) | (left; rfl)
    left
    cases hq : m.args with
    | absent => simp_all
    | nonIterable => exact absurd hq hargs
    | ok xs => exact trigger_err_none _ _ _ _ _
  · right; exact ⟨rfl, rfl, rfl⟩

theorem errNoop_dispatch (h : Host) (m : DMsg) (hargs : m.args ≠ .nonIterable) :
    ErrNoop h (dispatch h m) := by
  unfold dispatch
  repeat' split
  · exact errNoop_handleCallback h m hargs
  · right; exact ⟨rfl, rfl, rfl⟩
  · exact errNoop_handleEmit h m
  · exact errNoop_handleDisconnect h m
  · exact errNoop_handleEnterRoom h m
  · exact errNoop_handleLeaveRoom h m
  · exact errNoop_handleCloseRoom h m
  · right; exact ⟨rfl, rfl, rfl⟩
/-! ### the listener as a fold -/

/-- sequential composition of two listener results -/
def LRes.andThen (a b : LRes) : LRes :=
  { h := b.h, outs := a.outs ++ b.outs, pubs := a.pubs ++ b.pubs, alive := b.alive }

theorem listen_cons (h : Host) (e : Item) (es : List Item) :
    listen h (e :: es) =
      if (listenStep h e).alive then (listenStep h e).andThen (listen (listenStep h e).h es)
      else listenStep h e := rfl

theorem listen_nil (h : Host) : listen h [] = { h := h } := rfl

theorem LRes.andThen_nil_left (h : Host) (b : LRes) : LRes.andThen { h := h } b = b := by
  cases b; simp [LRes.andThen]

theorem LRes.andThen_assoc (a b c : LRes) : (a.andThen b).andThen c = a.andThen (b.andThen c) := by
  simp [LRes.andThen, List.append_assoc]

theorem listen_append (h : Host) (pre post : List Item) :
    listen h (pre ++ post) =
      if (listen h pre).alive then (listen h pre).andThen (listen (listen h pre).h post)
      else listen h pre := by
  induction pre generalizing h with
  | nil => simp [listen_nil, LRes.andThen_nil_left]
  | cons e es ih =>
    rw [List.cons_append, listen_cons, listen_cons]
    by_cases ha : (listenStep h e).alive = true
    · simp only [ha, if_true]
      rw [ih]
      by_cases hb : (listen (listenStep h e).h es).alive = true
      · have : ((listenStep h e).andThen (listen (listenStep h e).h es)).alive = true := hb
        simp only [hb, this, if_true, LRes.andThen_assoc]
        rfl
      · have : ((listenStep h e).andThen (listen (listenStep h e).h es)).alive = false := by
          simpa [LRes.andThen] using hb
        simp [hb, this]
    · simp [ha]

theorem dispatchF_fatal {h : Host} {m : DMsg} {f : Fault} (hf : (dispatchF h m f).2 = true) :
    f = .fatal := by
  unfold dispatchF at hf
  split at hf
  · cases hf
  · dsimp only at hf
    split at hf
    · cases hf
    · split at hf
      · rename_i hc; exact hc.2.1
      · cases hf

/-- the only way an iteration ends the listener -/
theorem listenStep_dies {h : Host} {e : Item} (hd : (listenStep h e).alive = false) :
    e.fault = .fatal := by
  unfold listenStep at hd
  split at hd
  · cases hd
  · split at hd
    · cases hd
    · cases hd
    · rename_i m _
      dsimp only at hd
      split at hd
      · rename_i hf
        exact dispatchF_fatal hf
      · split at hd <;> cases hd

/-! ### Redis back-off arithmetic -/

theorem min_double (a : Nat) : min (min a 60 * 2) 60 = min (a * 2) 60 := by omega

end Sio.PubSub
