/-
  K4 — what the handlers output: which transport a `send` goes to, which session id an `invoke`
  carries, where a `callback` can come from.
-/
import Sio.Lemmas.ServerHist
namespace Sio.Server
open Sio.Rooms

/-- the arguments a resolved handler is called with end with the arguments given to `resolve` -/
def Resolved.argsOk (args : List J) : Resolved → Prop
  | .fn _ a => ∃ pre, a = pre ++ args
  | .clsCall _ a => ∃ pre, a = pre ++ args
  | _ => True

theorem ifchain {c1 c2 c3 c4 : Bool} {e : Err} {r1 r2 r : Resolved}
    (h : (if c1 = true then
            if c2 = true then Except.error e
            else if c3 = true then Except.ok (some r1)
            else if c4 = true then Except.ok (some r2) else Except.ok none
          else (Except.ok none : Except Err (Option Resolved))) = Except.ok (some r)) :
    r = r1 ∨ r = r2 := by
  cases c1 <;> cases c2 <;> cases c3 <;> cases c4 <;> simp at h <;> simp [h]

theorem resolve_args {reg : Registry} {ns : Ns} {ev : J} {args : List J} {r : Resolved}
    (h : resolve reg ns ev args = .ok r) : r.argsOk args := by
  unfold resolve at h
  dsimp only at h
  split at h
  · cases h
  · rename_i h1
    cases h
    rcases ifchain h1 with rfl | rfl
    · exact ⟨[], rfl⟩
    · exact ⟨[_], rfl⟩
  · split at h
    · cases h
    · rename_i h1
      cases h
      rcases ifchain h1 with rfl | rfl
      · exact ⟨[_], rfl⟩
      · exact ⟨[_, _], rfl⟩
    · split at h
      · cases h; trivial
      · rename_i cns cargs ht
        have hc : ∃ pre, cargs = pre ++ args := by
          split at ht
          · cases ht; exact ⟨[], rfl⟩
          · split at ht
            · cases ht; exact ⟨[_], rfl⟩
            · cases ht
        repeat' split at h
        all_goals (cases h <;> first | exact hc | trivial)

/-! ### output shapes -/

/-- an output that stays with transport `t`: a packet for `t`, a handler invocation whose
    arguments satisfy `ok`, or a contained exception — never a callback, result or timeout -/
def Out.confined (t : Eio) (ok : List J → Prop) : Out → Prop
  | .send t' _ => t' = t
  | .invoke _ a => ok a
  | .raised _ => True
  | _ => False

theorem Out.confined.mono {t : Eio} {ok ok' : List J → Prop} (h : ∀ a, ok a → ok' a) {o : Out}
    (ho : o.confined t ok) : o.confined t ok' := by
  cases o <;> simp_all [Out.confined]

theorem sendTo_confined (s : Srv) (t : Eio) (p : Packet) (ok : List J → Prop) :
    ∀ o ∈ sendTo s (some t) p, o.confined t ok := by
  intro o ho
  unfold sendTo at ho
  split at ho
  · rename_i t' ht; cases ht
    split at ho
    · simp at ho; subst ho; rfl
    · cases ho
  · cases ho

theorem mem_sendTo {s : Srv} {t : Option Eio} {p : Packet} {o : Out} (h : o ∈ sendTo s t p) :
    ∃ t', t = some t' ∧ t' ∈ s.socks ∧ o = .send t' p := by
  unfold sendTo at h
  split at h
  · rename_i t'
    split at h
    · rename_i hc
      simp at h
      exact ⟨t', rfl, List.contains_iff_mem.mp hc, h⟩
    · cases h
  · cases h

theorem sendTo_none (s : Srv) (p : Packet) : sendTo s none p = [] := rfl

theorem sendTo_core {s s' : Srv} (h : s'.socks = s.socks) (t : Option Eio) (p : Packet) :
    sendTo s' t p = sendTo s t p := by
  unfold sendTo; rw [h]

/-- arguments that start (after the catch-all prefix) with session id `sid` -/
def carries (sid : Sid) (a : List J) : Prop := ∃ pre rest, a = pre ++ J.str sid :: rest

theorem carries_of_argsOk {sid : Sid} {rest a : List J} (h : ∃ pre, a = pre ++ (J.str sid :: rest)) :
    carries sid a := by
  obtain ⟨pre, rfl⟩ := h; exact ⟨pre, rest, rfl⟩

/-- `disconnect` path: packets only to the transport of the session, the handler gets the sid -/
theorem endSession_outs (cfg : Cfg) (s : Srv) (sid : Sid) (ns : Ns) (reason : Str) (b : Bool)
    {t : Eio} (ht : eioOf s.rooms ns sid = some t) :
    ∀ o ∈ (endSession cfg s sid ns reason b).2.1, o.confined t (carries sid) := by
  unfold endSession
  dsimp only
  rw [ht]
  have hs : ∀ o ∈ (if b = true then
      sendTo { s with pending := s.pending ++ [(ns, sid)] } (some t) (pktDisconnect ns none)
      else []), o.confined t (carries sid) := by
    intro o ho
    split at ho
    · exact sendTo_confined _ _ _ _ o ho
    · cases ho
  split
  · intro o ho
    simp only [List.mem_append, List.mem_singleton] at ho
    rcases ho with ho | rfl
    · exact hs o ho
    · trivial
  · rename_i r hr
    have ha := resolve_args hr
    cases r <;> dsimp only
    all_goals (try cases cfg.script.onDisconnect s.nDisc) <;> (try dsimp only)
    all_goals
      intro o ho
      simp only [List.mem_append, List.mem_cons, List.not_mem_nil, or_false] at ho
    all_goals first
      | exact hs o ho
      | (rcases ho with ho | rfl | rfl <;> first | exact hs o ho | exact carries_of_argsOk ha | trivial)
      | (rcases ho with ho | rfl <;> first | exact hs o ho | exact carries_of_argsOk ha | trivial)

theorem sidOf_eioOf {r : Rooms.St} (h : Inv r) {ns : Ns} {t : Eio} {sid : Sid}
    (hs : sidOf r ns t = some sid) : eioOf r ns sid = some t :=
  h.eioOf_iff.mpr (sidOf_some_mem hs)

theorem handleDisconnect_outs {s : Srv} (h : WF s) (cfg : Cfg) (t : Eio) (ns : Ns) (reason : Str) :
    ∀ o ∈ (handleDisconnect cfg s t ns reason).2.1,
      o.confined t (fun a => ∃ sid, sidOf s.rooms ns t = some sid ∧ carries sid a) := by
  unfold handleDisconnect
  split
  · intro o ho; cases ho
  · rename_i sid hs
    split
    · intro o ho; cases ho
    · intro o ho
      exact (endSession_outs cfg s sid ns reason false (sidOf_eioOf h.rooms hs) o ho).mono
        (fun a ha => ⟨sid, hs, ha⟩)

theorem all_append {α} {P : α → Prop} {a b : List α} :
    (∀ o ∈ a ++ b, P o) ↔ (∀ o ∈ a, P o) ∧ (∀ o ∈ b, P o) := List.forall_mem_append

theorem all_cons {α} {P : α → Prop} {x : α} {b : List α} :
    (∀ o ∈ x :: b, P o) ↔ P x ∧ (∀ o ∈ b, P o) := List.forall_mem_cons

theorem all_nil {α} {P : α → Prop} : (∀ o ∈ ([] : List α), P o) ↔ True := by simp

theorem handleConnect_outs (cfg : Cfg) (s : Srv) (t : Eio) (nsp : Option Str) (data : Option J) :
    ∀ o ∈ (handleConnect cfg s t nsp data).2, o.confined t (carries (sidName s.nextSid)) := by
  have hsend : ∀ (s' : Srv) (p : Packet), ∀ o ∈ sendTo s' (some t) p,
      o.confined t (carries (sidName s.nextSid)) := fun s' p o ho => sendTo_confined s' t p _ o ho
  unfold handleConnect
  dsimp only
  split
  · exact hsend _ _
  · rename_i rooms' hc
    have h0 : ∀ (s' : Srv), ∀ o ∈ (if cfg.alwaysConnect = true then
        sendTo s' (some t) (pktConnect (nsp.getD ['/']) (sidName s.nextSid)) else []),
        o.confined t (carries (sidName s.nextSid)) := by
      intro s' o ho
      split at ho
      · exact hsend _ _ o ho
      · cases ho
    have h1 : ∀ (s' : Srv) (p : Packet), ∀ o ∈ (if cfg.alwaysConnect = true then []
        else sendTo s' (some t) p), o.confined t (carries (sidName s.nextSid)) := by
      intro s' p o ho
      split at ho
      · cases ho
      · exact hsend _ _ o ho
    split
    · simp only [all_append, all_cons, all_nil, and_true]
      exact ⟨h0 _, trivial⟩
    · split
      · simp only [all_append, all_cons, all_nil, and_true]
        exact ⟨h0 _, trivial⟩
      · rename_i r hr
        have ha := resolve_args hr
        cases r <;> dsimp only
        all_goals (try cases cfg.script.onConnect s.nConn) <;> (try dsimp only)
        all_goals (try split)
        all_goals simp only [all_append, all_cons, all_nil, and_true]
        all_goals and_intros
        all_goals first
          | exact h0 _
          | exact h1 _ _
          | exact hsend _ _
          | exact carries_of_argsOk ha
          | trivial

theorem runHandler_outs (cfg : Cfg) (s : Srv) (b : Bg) :
    ∀ o ∈ (runHandler cfg s b).2, o.confined b.eio (carries b.sid) := by
  have hsend : ∀ (s' : Srv) (p : Packet), ∀ o ∈ sendTo s' (some b.eio) p,
      o.confined b.eio (carries b.sid) := fun s' p o ho => sendTo_confined s' b.eio p _ o ho
  have hack : ∀ (s' : Srv) (d : Data), ∀ o ∈ (match b.id with
      | some i => sendTo s' (some b.eio) (mkOut ACK b.ns (some i) d.pack)
      | none => []), o.confined b.eio (carries b.sid) := by
    intro s' d o ho
    split at ho
    · exact hsend _ _ o ho
    · cases ho
  unfold runHandler
  split
  · simp only [all_cons, all_nil, and_true]; trivial
  · rename_i r hr
    have ha := resolve_args hr
    cases r <;> dsimp only
    all_goals (try cases cfg.script.onEvent s.nEv) <;> (try dsimp only)
    all_goals (try simp only [all_cons, all_nil, and_true])
    all_goals (try and_intros)
    all_goals first
      | exact hack _ _
      | exact carries_of_argsOk ha
      | trivial

theorem handleEvent_outs (cfg : Cfg) (s : Srv) (t : Eio) (nsp : Option Str) (id : Option Nat)
    (data : Option J) :
    ∀ o ∈ (handleEvent cfg s t nsp id data).2,
      o.confined t (fun a => ∃ sid, sidOf s.rooms (nsp.getD ['/']) t = some sid ∧ carries sid a) := by
  unfold handleEvent
  dsimp only
  split
  · simp only [all_cons, all_nil, and_true]; trivial
  · split
    · simp
    · rename_i sid hs
      split
      · simp
      · split
        · simp
        · intro o ho
          exact (runHandler_outs cfg s _ o ho).mono (fun a ha => ⟨sid, hs, ha⟩)

/-- `_handle_ack` outputs nothing but the callback (or the exception its argument list raises) -/
theorem handleAck_outs (s : Srv) (t : Eio) (nsp : Option Str) (id : Option Nat) (data : Option J) :
    ∀ o ∈ (handleAck s t nsp id data).2,
      (∃ e, o = .raised e) ∨
      ∃ sid i n args, sidOf s.rooms (nsp.getD ['/']) t = some sid ∧ id = some i ∧
        (sid, i, CbTok.user n) ∈ s.cbs ∧ starArgs data = .ok args ∧ o = .callback n args ∧
        handleAck s t nsp id data = (popCb s sid i, [.callback n args]) := by
  unfold handleAck
  dsimp only
  split
  · rename_i sid i hs
    split
    · simp
    · rename_i a b tok hf
      have hm := List.mem_of_find?_eq_some hf
      have hp := List.find?_some hf
      simp only [decide_eq_true_eq] at hp
      obtain ⟨rfl, rfl⟩ := hp
      split
      · intro o ho; simp at ho; exact Or.inl ⟨_, ho⟩
      · rename_i args ha
        split
        · rename_i n
          intro o ho
          simp only [List.mem_singleton] at ho
          exact Or.inr ⟨_, _, n, args, hs, rfl, hm, ha, ho, rfl⟩
        · simp
  · simp

end Sio.Server
