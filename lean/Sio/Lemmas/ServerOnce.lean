/-
  K4 — the disconnect handler runs at most once per session, over any history (property C04):
  counting disconnect-handler invocations in the outputs, a potential argument over sequences.
-/
import Sio.Lemmas.ServerConn
namespace Sio.Server
open Sio.Rooms

def discName : Str := ['d', 'i', 's', 'c', 'o', 'n', 'n', 'e', 'c', 't']

theorem discName_eq : "disconnect".toList = discName := by rfl

theorem on_eq : "on_".toList = ['o', 'n', '_'] := by rfl

/-- the handler slot of the `disconnect` event: `handlers[ns]['disconnect']` or `on_disconnect` -/
def isDiscSlot : Slot → Bool
  | .fn _ ev => ev == discName
  | .cls _ m => m == "on_".toList ++ discName

/-- the arguments end with `sid, reason` -/
def sidArg (sid : Sid) (a : List J) : Bool :=
  match a.reverse with
  | _ :: .str x :: _ => x == sid
  | _ => false

/-- an invocation of the disconnect handler for session `sid` -/
def isDiscInvoke (sid : Sid) : Out → Bool
  | .invoke slot a => isDiscSlot slot && sidArg sid a
  | _ => false

/-- number of disconnect-handler invocations for `sid` in a list of outputs -/
def discCount (sid : Sid) (outs : List Out) : Nat := outs.countP (isDiscInvoke sid)

theorem discCount_append (sid : Sid) (a b : List Out) :
    discCount sid (a ++ b) = discCount sid a + discCount sid b := List.countP_append

theorem discCount_nil (sid : Sid) : discCount sid [] = 0 := rfl

/-- the handler `resolve` selected, with its arguments -/
def Resolved.target : Resolved → Option (Slot × List J)
  | .fn slot a => some (slot, a)
  | .clsCall slot a => some (slot, a)
  | _ => none

theorem evStr_eq {ev : J} {s : Str} (h : evStr ev = some s) : ev = .str s := by
  cases ev <;> simp [evStr] at h
  rw [h]

theorem getD_disc {ev : J} (h : (evStr ev).getD [] = discName) : ev = .str discName := by
  cases he : evStr ev with
  | none => rw [he] at h; cases h
  | some s => rw [he] at h; simp at h; rw [← h]; exact evStr_eq he

/-- an event that is not named "disconnect" never resolves to the disconnect slot -/
theorem resolve_not_disc {reg : Registry} {ns : Ns} {ev : J} {args : List J} {r : Resolved}
    (h : resolve reg ns ev args = .ok r) (hev : ev ≠ .str discName) :
    ∀ slot a, r.target = some (slot, a) → isDiscSlot slot = false := by
  have hfn : ∀ n, isDiscSlot (.fn n ((evStr ev).getD [])) = false := by
    intro n
    rw [Bool.eq_false_iff]
    intro hc
    simp only [isDiscSlot, beq_iff_eq] at hc
    exact hev (getD_disc hc)
  have hstar : ∀ n, isDiscSlot (.fn n star) = false := fun n => by
    simp only [isDiscSlot]; decide
  unfold resolve at h
  dsimp only at h
  split at h
  · cases h
  · rename_i h1
    cases h
    rcases ifchain h1 with rfl | rfl <;> intro slot a ht <;>
      simp only [Resolved.target, Option.some.injEq, Prod.mk.injEq] at ht <;>
      obtain ⟨rfl, _⟩ := ht
    · exact hfn _
    · exact hstar _
  · split at h
    · cases h
    · rename_i h1
      cases h
      rcases ifchain h1 with rfl | rfl <;> intro slot a ht <;>
        simp only [Resolved.target, Option.some.injEq, Prod.mk.injEq] at ht <;>
        obtain ⟨rfl, _⟩ := ht
      · exact hfn _
      · exact hstar _
    · split at h
      · cases h; intro slot a ht; cases ht
      · rename_i cns cargs _
        have hon : ∀ n, isDiscSlot (.cls n "on_".toList) = false := fun n => by
          simp only [isDiscSlot, on_eq]; decide
        have hm : ∀ n s, evStr ev = some s → isDiscSlot (.cls n ("on_".toList ++ s)) = false := by
          intro n s hs
          rw [Bool.eq_false_iff]
          intro hc
          simp only [isDiscSlot, beq_iff_eq] at hc
          have := List.append_cancel_left hc
          subst this
          exact hev (evStr_eq hs)
        repeat' split at h
        all_goals (cases h <;> intro slot a ht <;>
          simp only [Resolved.target, Option.some.injEq, Prod.mk.injEq, reduceCtorEq] at ht)
        all_goals (obtain ⟨rfl, _⟩ := ht)
        all_goals first
          | exact hon _
          | exact hm _ _ (by assumption)

/-! ### outputs of the handlers, for an arbitrary predicate -/

theorem sendTo_all (P : Out → Prop) (hs : ∀ t p, P (.send t p)) (s : Srv) (t : Option Eio)
    (p : Packet) : ∀ o ∈ sendTo s t p, P o := by
  intro o ho
  obtain ⟨t', _, _, rfl⟩ := mem_sendTo ho
  exact hs _ _

/-- outputs of the disconnect path: packets, contained exceptions, and at most the invocation
    of the handler `resolve` selects for `disconnect` with `sid, reason` -/
theorem endSession_outs_gen (P : Out → Prop) (hs : ∀ t p, P (.send t p)) (he : ∀ e, P (.raised e))
    (cfg : Cfg) (s : Srv) (sid : Sid) (ns : Ns) (reason : Str) (b : Bool)
    (hi : ∀ r slot a, resolve cfg.reg ns (.str "disconnect".toList) [.str sid, .str reason] = .ok r →
      r.target = some (slot, a) → P (.invoke slot a)) :
    ∀ o ∈ (endSession cfg s sid ns reason b).2.1, P o := by
  unfold endSession
  dsimp only
  have h0 : ∀ (s' : Srv) (t : Option Eio), ∀ o ∈ (if b = true then
      sendTo s' t (pktDisconnect ns none) else []), P o := by
    intro s' t o ho
    split at ho
    · exact sendTo_all P hs _ _ _ o ho
    · cases ho
  split
  · simp only [all_append, all_cons, all_nil, and_true]
    exact ⟨h0 _ _, he _⟩
  · rename_i r hr
    cases r <;> dsimp only
    all_goals (try cases cfg.script.onDisconnect s.nDisc) <;> (try dsimp only)
    all_goals simp only [all_append, all_cons, all_nil, and_true]
    all_goals (try and_intros)
    all_goals first
      | exact h0 _ _
      | exact he _
      | trivial
      | exact hi _ _ _ hr rfl

theorem runHandler_outs_gen (P : Out → Prop) (hs : ∀ t p, P (.send t p)) (he : ∀ e, P (.raised e))
    (cfg : Cfg) (s : Srv) (b : Bg)
    (hi : ∀ r slot a, resolve cfg.reg b.ns b.first (.str b.sid :: b.rest) = .ok r →
      r.target = some (slot, a) → P (.invoke slot a)) :
    ∀ o ∈ (runHandler cfg s b).2, P o := by
  have hack : ∀ (s' : Srv) (d : Data), ∀ o ∈ (match b.id with
      | some i => sendTo s' (some b.eio) (mkOut ACK b.ns (some i) d.pack)
      | none => []), P o := by
    intro s' d o ho
    split at ho
    · exact sendTo_all P hs _ _ _ o ho
    · cases ho
  unfold runHandler
  split
  · simp only [all_cons, all_nil, and_true]; exact he _
  · rename_i r hr
    cases r <;> dsimp only
    all_goals (try cases cfg.script.onEvent s.nEv) <;> (try dsimp only)
    all_goals (try simp only [all_cons, all_nil, and_true])
    all_goals (try and_intros)
    all_goals first
      | exact hack _ _
      | exact he _
      | exact hi _ _ _ hr rfl
      | trivial

theorem handleConnect_outs_gen (P : Out → Prop) (hs : ∀ t p, P (.send t p)) (he : ∀ e, P (.raised e))
    (cfg : Cfg) (s : Srv) (t : Eio) (nsp : Option Str) (data : Option J)
    (hi : ∀ r slot a auth, resolve cfg.reg (nsp.getD ['/']) (.str "connect".toList)
        (.str (sidName s.nextSid) :: auth) = .ok r → r.target = some (slot, a) → P (.invoke slot a)) :
    ∀ o ∈ (handleConnect cfg s t nsp data).2, P o := by
  have hsend : ∀ (s' : Srv) (p : Packet), ∀ o ∈ sendTo s' (some t) p, P o :=
    fun s' p => sendTo_all P hs _ _ _
  unfold handleConnect
  dsimp only
  split
  · exact hsend _ _
  · have h0 : ∀ (s' : Srv), ∀ o ∈ (if cfg.alwaysConnect = true then
        sendTo s' (some t) (pktConnect (nsp.getD ['/']) (sidName s.nextSid)) else []), P o := by
      intro s' o ho
      split at ho
      · exact hsend _ _ o ho
      · cases ho
    have h1 : ∀ (s' : Srv) (p : Packet), ∀ o ∈ (if cfg.alwaysConnect = true then []
        else sendTo s' (some t) p), P o := by
      intro s' p o ho
      split at ho
      · cases ho
      · exact hsend _ _ o ho
    split
    · simp only [all_append, all_cons, all_nil, and_true]
      exact ⟨h0 _, he _⟩
    · split
      · simp only [all_append, all_cons, all_nil, and_true]
        exact ⟨h0 _, he _⟩
      · rename_i r hr
        cases r <;> dsimp only
        all_goals (try cases cfg.script.onConnect s.nConn) <;> (try dsimp only)
        all_goals (try split)
        all_goals simp only [all_append, all_cons, all_nil, and_true]
        all_goals and_intros
        all_goals first
          | exact h0 _
          | exact h1 _ _
          | exact hsend _ _
          | exact he _
          | trivial
          | exact hi _ _ _ _ hr rfl

/-! ### counting -/

theorem discCount_eq_zero {sid : Sid} {outs : List Out}
    (h : ∀ o ∈ outs, isDiscInvoke sid o = false) : discCount sid outs = 0 := by
  unfold discCount
  rw [List.countP_eq_zero]
  intro o ho; simp [h o ho]

theorem sidArg_tail (sid' sid : Sid) (reason : Str) (pre : List J) :
    sidArg sid' (pre ++ [.str sid, .str reason]) = (sid == sid') := by
  simp [sidArg, List.reverse_append]

theorem endSession_shape (cfg : Cfg) (s : Srv) (sid : Sid) (ns : Ns) (reason : Str) (b : Bool) :
    ∃ o1 o2, (endSession cfg s sid ns reason b).2.1 = o1 ++ o2 ∧
      (∀ o ∈ o1, ∃ t p, o = .send t p) ∧
      (o2 = [] ∨ o2 = [.raised .typeError] ∨
        ∃ slot a, o2 = [.invoke slot a] ∨ o2 = [.invoke slot a, .raised .other]) := by
  have h0 : ∀ (s' : Srv) (t : Option Eio), ∀ o ∈ (if b = true then
      sendTo s' t (pktDisconnect ns none) else []), ∃ t p, o = .send t p := by
    intro s' t o ho
    split at ho
    · obtain ⟨t', _, _, rfl⟩ := mem_sendTo ho; exact ⟨_, _, rfl⟩
    · cases ho
  unfold endSession
  dsimp only
  split
  · exact ⟨_, _, rfl, h0 _ _, Or.inr (Or.inl rfl)⟩
  · rename_i r hr
    cases r <;> dsimp only
    · cases cfg.script.onDisconnect s.nDisc
      · exact ⟨_, _, rfl, h0 _ _, Or.inr (Or.inr ⟨_, _, Or.inl rfl⟩)⟩
      · exact ⟨_, _, rfl, h0 _ _, Or.inr (Or.inr ⟨_, _, Or.inr rfl⟩)⟩
    · cases cfg.script.onDisconnect s.nDisc
      · exact ⟨_, _, rfl, h0 _ _, Or.inr (Or.inr ⟨_, _, Or.inl rfl⟩)⟩
      · exact ⟨_, _, rfl, h0 _ _, Or.inr (Or.inr ⟨_, _, Or.inr rfl⟩)⟩
    · exact ⟨_, _, rfl, h0 _ _, Or.inl rfl⟩
    · exact ⟨_, _, rfl, h0 _ _, Or.inl rfl⟩

/-- in the outputs of a disconnect path: at most one disconnect-handler invocation, and it is
    for the session that is being ended -/
theorem endSession_disc (cfg : Cfg) (s : Srv) (sid : Sid) (ns : Ns) (reason : Str) (b : Bool)
    (sid' : Sid) :
    discCount sid' (endSession cfg s sid ns reason b).2.1 ≤ 1 ∧
    (sid' ≠ sid → discCount sid' (endSession cfg s sid ns reason b).2.1 = 0) := by
  constructor
  · obtain ⟨o1, o2, he, h1, h2⟩ := endSession_shape cfg s sid ns reason b
    rw [he, discCount_append]
    have z : discCount sid' o1 = 0 := by
      apply discCount_eq_zero
      intro o ho; obtain ⟨t, p, rfl⟩ := h1 o ho; rfl
    rw [z, Nat.zero_add]
    rcases h2 with rfl | rfl | ⟨slot, a, rfl | rfl⟩
    · exact Nat.zero_le _
    · exact Nat.zero_le _
    · simp only [discCount, List.countP_cons, List.countP_nil]; split <;> omega
    · simp only [discCount, List.countP_cons, List.countP_nil, isDiscInvoke]
      by_cases hq : (isDiscSlot slot && sidArg sid' a) = true <;> simp [hq]
  · intro hne
    apply discCount_eq_zero
    apply endSession_outs_gen (fun o => isDiscInvoke sid' o = false) (fun _ _ => rfl) (fun _ => rfl)
    intro r slot a hr ht
    have ha := resolve_args hr
    cases r <;> simp only [Resolved.target, Option.some.injEq, Prod.mk.injEq, reduceCtorEq] at ht
    all_goals obtain ⟨rfl, rfl⟩ := ht
    all_goals obtain ⟨pre, rfl⟩ := ha
    all_goals simp only [isDiscInvoke, sidArg_tail]
    all_goals simp
    all_goals exact fun _ h => hne h.symm

/-! ### the potential argument -/

/-- Over a piece of execution from `s` to `s'` with outputs `outs`: the disconnect handler of
    `sidName k` runs at most once, not at all if the session was already dead, and if it runs the
    session is dead afterwards; dead stays dead. -/
structure Once (k : Nat) (s s' : Srv) (outs : List Out) : Prop where
  dead0 : Dead k s → discCount (sidName k) outs = 0
  le1 : discCount (sidName k) outs ≤ 1
  dead1 : discCount (sidName k) outs = 1 → Dead k s'
  mono : Dead k s → Dead k s'

theorem Once.zero {k : Nat} {s s' : Srv} {outs : List Out}
    (hz : discCount (sidName k) outs = 0) (hm : Dead k s → Dead k s') : Once k s s' outs :=
  ⟨fun _ => hz, (by rw [hz]; exact Nat.zero_le _), (fun h => by rw [hz] at h; cases h), hm⟩

theorem Once.refl (k : Nat) (s : Srv) : Once k s s [] := Once.zero rfl id

theorem Once.trans {k : Nat} {a b c : Srv} {o1 o2 : List Out} (h1 : Once k a b o1)
    (h2 : Once k b c o2) : Once k a c (o1 ++ o2) := by
  refine ⟨?_, ?_, ?_, fun h => h2.mono (h1.mono h)⟩
  · intro hd
    rw [discCount_append, h1.dead0 hd, h2.dead0 (h1.mono hd)]
  · rw [discCount_append]
    have a1 := h1.le1
    have a2 := h2.le1
    by_cases hq : discCount (sidName k) o1 = 1
    · have := h2.dead0 (h1.dead1 hq); omega
    · omega
  · rw [discCount_append]
    intro hq
    have a1 := h1.le1
    by_cases hq1 : discCount (sidName k) o1 = 1
    · exact h2.mono (h1.dead1 hq1)
    · exact h2.dead1 (by omega)

theorem dead_of_reach {k : Nat} {s s' : Srv} (r : Reach s s') (h : Dead k s) : Dead k s' :=
  r.preserve (fun _ _ hw p h => Dead.prim hw p h) h

theorem once_endSession {s : Srv} (h : WF s) (cfg : Cfg) {sid : Sid} {ns : Ns}
    (hc : isConnected s sid ns = true) (reason : Str) (b : Bool) (k : Nat) :
    Once k s (endSession cfg s sid ns reason b).1 (endSession cfg s sid ns reason b).2.1 := by
  obtain ⟨t, ht⟩ := isConnected_eioOf hc
  have hd := endSession_disc cfg s sid ns reason b (sidName k)
  have hlive : sidLive s.rooms sid := ⟨ns, t, eioOf_some_mem ht⟩
  refine ⟨?_, hd.1, ?_, dead_of_reach (Reach.endSession h cfg hc reason b)⟩
  · intro hdead
    apply hd.2
    rintro rfl
    exact hdead.2 hlive
  · intro h1
    have heq : sidName k = sid := by
      by_cases hne : sidName k = sid
      · exact hne
      · rw [hd.2 hne] at h1; cases h1
    obtain ⟨j, hj⟩ := endSession_state cfg s sid ns reason b
    rw [hj]
    subst heq
    obtain ⟨k', hk', hs⟩ := h.sidAlloc _ (eioOf_some_mem ht)
    simp only at hs
    have := sidName_inj hs
    subst this
    exact ⟨hk', not_sidLive_disconnect h.toWF0 ht⟩

theorem once_handleDisconnect {s : Srv} (h : WF s) (cfg : Cfg) (t : Eio) (ns : Ns) (reason : Str)
    (k : Nat) :
    Once k s (handleDisconnect cfg s t ns reason).1 (handleDisconnect cfg s t ns reason).2.1 := by
  unfold handleDisconnect
  split
  · exact .refl k s
  · split
    · exact .refl k s
    · rename_i hc
      exact once_endSession h cfg (by simpa using hc) reason false k

theorem connect_ne_disc : J.str "connect".toList ≠ J.str discName := by
  intro h
  injection h with h
  exact absurd h (by decide)

theorem once_handleConnect {s : Srv} (h : WF s) (cfg : Cfg) (t : Eio) (nsp : Option Str)
    (data : Option J) (k : Nat) :
    Once k s (handleConnect cfg s t nsp data).1 (handleConnect cfg s t nsp data).2 := by
  refine Once.zero (discCount_eq_zero ?_) (dead_of_reach (Reach.handleConnect h cfg t nsp data))
  apply handleConnect_outs_gen (fun o => isDiscInvoke (sidName k) o = false)
    (fun _ _ => rfl) (fun _ => rfl)
  intro r slot a auth hr ht
  simp only [isDiscInvoke, resolve_not_disc hr connect_ne_disc slot a ht, Bool.false_and]

theorem handleEvent_disc (cfg : Cfg) (s : Srv) (t : Eio) (nsp : Option Str) (id : Option Nat)
    (data : Option J) (sid' : Sid)
    (hev : ∀ first rest, splitEvent data = .ok (first, rest) → first ≠ .str discName) :
    discCount sid' (handleEvent cfg s t nsp id data).2 = 0 := by
  apply discCount_eq_zero
  unfold handleEvent
  dsimp only
  split
  · simp [isDiscInvoke]
  · rename_i first rest hd
    split
    · simp
    · split
      · simp
      · split
        · simp
        · apply runHandler_outs_gen (fun o => isDiscInvoke sid' o = false)
            (fun _ _ => rfl) (fun _ => rfl)
          intro r slot a hr ht
          simp only [isDiscInvoke, resolve_not_disc hr (hev first rest hd) slot a ht,
            Bool.false_and]

theorem handleAck_disc (s : Srv) (t : Eio) (nsp : Option Str) (id : Option Nat) (data : Option J)
    (sid' : Sid) : discCount sid' (handleAck s t nsp id data).2 = 0 := by
  apply discCount_eq_zero
  intro o ho
  rcases handleAck_outs s t nsp id data o ho with ⟨e, rfl⟩ | ⟨_, _, n, args, _, _, _, _, rfl, _⟩ <;> rfl

/-- the events this frame hands to a handler are not named "disconnect" (the property's domain:
    "clients that emit events literally named connect / disconnect are outside") -/
def EvOk (dec : Str → Except Err (Packet × Nat)) (s : Srv) (t : Eio) (v : J) : Prop :=
  ∀ nsp id data s₁ first rest, CompletesEvent dec s t v nsp id data s₁ →
    splitEvent data = .ok (first, rest) → first ≠ .str discName

theorem once_handleFrame {dec : Str → Except Err (Packet × Nat)} {s : Srv} (h : WF s) (cfg : Cfg)
    {t : Eio} {v : J} (hev : EvOk dec s t v) (k : Nat) :
    Once k s (handleFrame dec cfg s t v).1 (handleFrame dec cfg s t v).2 := by
  have hm : Dead k s → Dead k (handleFrame dec cfg s t v).1 :=
    dead_of_reach (Reach.handleFrame h dec cfg t v)
  have key : ∀ r, FrameCase dec cfg s t v r → r = handleFrame dec cfg s t v →
      Once k s r.1 r.2 := by
    intro r hfc hr
    have hm' : Dead k s → Dead k r.1 := hr ▸ hm
    cases hfc with
    | tooMany _ _ => exact .zero rfl hm'
    | reconErr _ _ _ _ => exact .zero rfl hm'
    | binEvent hf h1 h2 h3 h4 =>
      exact .zero (handleEvent_disc _ _ _ _ _ _ _
        (fun first rest hd => hev _ _ _ _ first rest (.binary hf h1 h2 h3 h4) hd)) hm'
    | binAck _ _ _ _ _ => exact .zero (handleAck_disc ..) hm'
    | more _ _ _ => exact .zero rfl hm'
    | undecodable _ _ => exact .zero rfl hm'
    | packet hf hd =>
      rename_i p natt
      have hdc := dispatchCase cfg s t p natt
      generalize dispatchPacket cfg s t p natt = r' at hdc hr hm'
      cases hdc with
      | connect _ => exact once_handleConnect h cfg t _ _ k
      | disconnect _ => exact once_handleDisconnect h cfg t _ _ k
      | event ht =>
        exact .zero (handleEvent_disc _ _ _ _ _ _ _
          (fun first rest hd' => hev _ _ _ _ first rest (.text hf hd ht) hd')) hm'
      | ack _ => exact .zero (handleAck_disc ..) hm'
      | binHeader _ => exact .zero rfl hm'
      | other => exact .zero rfl hm'
  exact key _ (frameCase dec cfg s t v) rfl

theorem lostGo_outs_eq (cfg : Cfg) (t : Eio) (reason : Str) (s : Srv) (outs : List Out)
    (nss : List Ns) :
    handleLost.go cfg t reason s outs nss =
      ((handleLost.go cfg t reason s [] nss).1, outs ++ (handleLost.go cfg t reason s [] nss).2) := by
  induction nss generalizing s outs with
  | nil => simp [handleLost.go]
  | cons ns rest ih =>
    unfold handleLost.go
    rw [ih, ih (outs := [] ++ _)]
    simp [List.append_assoc]

theorem once_lostGo {s : Srv} (h : WF s) (cfg : Cfg) (t : Eio) (reason : Str) (nss : List Ns)
    (k : Nat) :
    Once k s (handleLost.go cfg t reason s [] nss).1 (handleLost.go cfg t reason s [] nss).2 := by
  induction nss generalizing s with
  | nil => exact .refl k s
  | cons ns rest ih =>
    unfold handleLost.go
    rw [lostGo_outs_eq]
    exact (once_handleDisconnect h cfg t ns reason k).trans
      (by simpa using ih (h.handleDisconnect cfg t ns reason))

theorem drain_outs_eq (cfg : Cfg) (s : Srv) (outs : List Out) (bs : List Bg) :
    step.drain cfg s outs bs =
      ((step.drain cfg s [] bs).1, outs ++ (step.drain cfg s [] bs).2) := by
  induction bs generalizing s outs with
  | nil => simp [step.drain]
  | cons b rest ih =>
    unfold step.drain
    rw [ih, ih (outs := [] ++ _)]
    simp [List.append_assoc]

theorem once_drain {s : Srv} (h : WF s) (cfg : Cfg) (bs : List Bg)
    (hb : ∀ b ∈ bs, b.first ≠ .str discName) (k : Nat) :
    Once k s (step.drain cfg s [] bs).1 (step.drain cfg s [] bs).2 := by
  induction bs generalizing s with
  | nil => exact .refl k s
  | cons b rest ih =>
    unfold step.drain
    rw [drain_outs_eq]
    have h1 : Once k s (runHandler cfg s b).1 (runHandler cfg s b).2 := by
      refine .zero (discCount_eq_zero ?_) (dead_of_reach (Reach.of_core h (runHandler_core cfg s b)))
      apply runHandler_outs_gen (fun o => isDiscInvoke (sidName k) o = false)
        (fun _ _ => rfl) (fun _ => rfl)
      intro r slot a hr ht
      simp only [isDiscInvoke, resolve_not_disc hr (hb b List.mem_cons_self) slot a ht,
        Bool.false_and]
    exact h1.trans (by
      simpa using ih (h.of_core (runHandler_core cfg s b))
        (fun b' hb' => hb b' (List.mem_cons_of_mem _ hb')))

/-- the histories of the property's domain: no handler is run for a client event named
    "disconnect" — neither inline (`frame`) nor from the queue of background handlers (`settle`) -/
inductive Dom (dec : Str → Except Err (Packet × Nat)) (cfg : Cfg) : Srv → List Input → Prop where
  | nil {s : Srv} : Dom dec cfg s []
  | frame {s : Srv} {t : Eio} {v : J} {is : List Input} : EvOk dec s t v →
      Dom dec cfg (step dec cfg s (.frame t v)).1 is → Dom dec cfg s (.frame t v :: is)
  | settle {s : Srv} {is : List Input} : (∀ b ∈ s.bg, b.first ≠ .str discName) →
      Dom dec cfg (step dec cfg s .settle).1 is → Dom dec cfg s (.settle :: is)
  | call {s : Srv} {ev : Str} {d : Data} {ns : Ns} {sid : Sid} {during is : List Input} :
      (cfg.asyncHandlers = true → Dom dec cfg (callStart s ev d ns sid).1 during) →
      Dom dec cfg (step dec cfg s (.call ev d ns sid during)).1 is →
      Dom dec cfg s (.call ev d ns sid during :: is)
  | other {s : Srv} {i : Input} {is : List Input} : (∀ t v, i ≠ .frame t v) → i ≠ .settle →
      (∀ ev d ns sid during, i ≠ .call ev d ns sid during) →
      Dom dec cfg (step dec cfg s i).1 is → Dom dec cfg s (i :: is)

theorem once_other {dec : Str → Except Err (Packet × Nat)} {cfg : Cfg} {s : Srv} (h : WF s)
    {i : Input} (h1 : ∀ t v, i ≠ .frame t v) (h2 : i ≠ .settle)
    (h3 : ∀ ev d ns sid during, i ≠ .call ev d ns sid during) (k : Nat) :
    Once k s (step dec cfg s i).1 (step dec cfg s i).2 := by
  have hm : Dead k s → Dead k (step dec cfg s i).1 := dead_of_reach (Reach.step h dec cfg i)
  have zero : (∀ o ∈ (step dec cfg s i).2, isDiscInvoke (sidName k) o = false) →
      Once k s (step dec cfg s i).1 (step dec cfg s i).2 :=
    fun hz => .zero (discCount_eq_zero hz) hm
  cases i with
  | eioConnect t => apply zero; rw [step]; simp
  | frame t v => exact absurd rfl (h1 t v)
  | eioLost t r =>
    rw [step, handleLost_eq]
    split
    · exact .refl k s
    · refine (once_lostGo h cfg t r _ k).trans (o2 := []) (.zero rfl ?_) |> (by simpa using ·)
      intro hd; exact ⟨hd.1, hd.2⟩
  | emit ev d ns to skip cb =>
    apply zero; rw [step]
    exact emit_outs _ _ _ _ _ _ _ (fun o => isDiscInvoke (sidName k) o = false) (fun _ _ => rfl)
  | call ev d ns sid during => exact absurd rfl (h3 ev d ns sid during)
  | apiDisconnect sid ns =>
    rw [step]; unfold apiDisconnect
    split
    · exact .refl k s
    · rename_i hc; exact once_endSession h cfg (by simpa using hc) _ true k
  | enterRoom sid ns room => apply zero; rw [step]; split <;> simp [isDiscInvoke]
  | leaveRoom sid ns room => apply zero; rw [step]; simp
  | closeRoom ns room => apply zero; rw [step]; simp
  | rooms sid ns => apply zero; rw [step]; simp [isDiscInvoke]
  | getSession sid ns => apply zero; rw [step]; split <;> (try split) <;> simp [isDiscInvoke]
  | saveSession sid ns v => apply zero; rw [step]; split <;> simp [isDiscInvoke]
  | sessionBlock sid ns k' v => apply zero; rw [step]; split <;> simp [isDiscInvoke]
  | settle => exact absurd rfl h2

/-- **the disconnect handler of a session runs at most once over any history of the domain** -/
theorem once_run {dec : Str → Except Err (Packet × Nat)} {cfg : Cfg} {s : Srv} {is : List Input}
    (hd : Dom dec cfg s is) (h : WF s) (k : Nat) :
    Once k s (run dec cfg s is).1 (run dec cfg s is).2 := by
  induction hd with
  | nil => rw [run_nil]; exact .refl k _
  | @frame s t v is hev _ ih =>
    rw [run_cons]
    have h1 : Once k s (step dec cfg s (.frame t v)).1 (step dec cfg s (.frame t v)).2 := by
      rw [step]; exact once_handleFrame h cfg hev k
    exact h1.trans (ih (h.step dec cfg _))
  | @settle s is hb _ ih =>
    rw [run_cons]
    have h1 : Once k s (step dec cfg s .settle).1 (step dec cfg s .settle).2 := by
      rw [step]
      have hw : WF { s with bg := [] } := h.of_core rfl
      have := once_drain hw cfg s.bg hb k
      exact ⟨fun hd => this.dead0 ⟨hd.1, hd.2⟩, this.le1, this.dead1, fun hd => this.mono ⟨hd.1, hd.2⟩⟩
    exact h1.trans (ih (h.step dec cfg _))
  | @call s ev d ns sid during is _ _ ih1 ih2 =>
    rw [run_cons]
    have h1 : Once k s (step dec cfg s (.call ev d ns sid during)).1
        (step dec cfg s (.call ev d ns sid during)).2 := by
      rw [step_call]
      split
      · exact .zero rfl id
      · rename_i hc
        have ha : cfg.asyncHandlers = true := by simpa using hc
        have e1 : Once k s (callStart s ev d ns sid).1 (callStart s ev d ns sid).2 :=
          .zero (discCount_eq_zero (emit_outs _ _ _ _ _ _ _
            (fun o => isDiscInvoke (sidName k) o = false) (fun _ _ => rfl)))
            (dead_of_reach (Reach.callStart h ev d ns sid))
        have e2 := ih1 ha (h.callStart ev d ns sid)
        have e3 : Once k (run dec cfg (callStart s ev d ns sid).1 during).1
            (run dec cfg (callStart s ev d ns sid).1 during).1
            [callOutcome (run dec cfg (callStart s ev d ns sid).1 during).1 s.nCall] := by
          refine .zero (discCount_eq_zero ?_) id
          intro o ho
          simp only [List.mem_singleton] at ho
          subst ho
          unfold callOutcome; split <;> rfl
        exact (e1.trans e2).trans e3
    exact h1.trans (ih2 (h.step dec cfg _))
  | @other s i is h1 h2 h3 _ ih =>
    rw [run_cons]
    exact (once_other h h1 h2 h3 k).trans (ih (h.step dec cfg _))

/-! ### the disconnect handler does run -/

/-- the disconnect path with a handler registered: exactly one invocation, with `sid, reason` -/
theorem endSession_invokes (cfg : Cfg) (s : Srv) (sid : Sid) (ns : Ns) (reason : Str) (b : Bool)
    {slot : Slot} {a : List J}
    (hr : resolve cfg.reg ns (.str "disconnect".toList) [.str sid, .str reason] = .ok (.fn slot a) ∨
          resolve cfg.reg ns (.str "disconnect".toList) [.str sid, .str reason] = .ok (.clsCall slot a)) :
    (endSession cfg s sid ns reason b).2.1.filter Out.isInvoke = [.invoke slot a] ∧
    ∃ pre, a = pre ++ [.str sid, .str reason] := by
  constructor
  · have hsend : ∀ (s' : Srv) (t : Option Eio) (p : Packet),
        (if b = true then sendTo s' t p else []).filter Out.isInvoke = [] := by
      intro s' t p
      split
      · exact sendTo_isInvoke ..
      · rfl
    unfold endSession
    dsimp only
    rcases hr with hr | hr <;> rw [hr] <;> dsimp only <;>
      cases cfg.script.onDisconnect s.nDisc <;>
      simp [List.filter_append, hsend, List.filter_cons, Out.isInvoke]
  · rcases hr with hr | hr <;> exact resolve_args hr

end Sio.Server
