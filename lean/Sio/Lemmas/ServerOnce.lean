/-
  K4 — the disconnect handler runs at most once per session, over any history (property C04):
  counting disconnect-handler invocations in the outputs, a potential argument over sequences.
-/
import Sio.Lemmas.ServerConn
namespace Sio.Server
open Sio.Rooms

def discName : Str := "disconnect".toList

/-- the handler slot of the `disconnect` event: `handlers[ns]['disconnect']` or `on_disconnect` -/
def isDiscSlot : Slot → Bool
  | .fn _ ev => ev == discName
  | .cls _ m => m == "on_".toList ++ discName

/-- the arguments end with `sid, reason` -/
def sidArg (sid : Sid) (a : List J) : Bool :=
  match a.reverse with
  | _ :: .str x :: _ => x == sid
  | _ => false

/-- an invocation of the disconnect handler for session `sid` -/
def isDiscInvoke (sid : Sid) : Out → Bool
  | .invoke slot a => isDiscSlot slot && sidArg sid a
  | _ => false

/-- number of disconnect-handler invocations for `sid` in a list of outputs -/
def discCount (sid : Sid) (outs : List Out) : Nat := outs.countP (isDiscInvoke sid)

theorem discCount_append (sid : Sid) (a b : List Out) :
    discCount sid (a ++ b) = discCount sid a + discCount sid b := List.countP_append

theorem discCount_nil (sid : Sid) : discCount sid [] = 0 := rfl

/-- the handler `resolve` selected, with its arguments -/
def Resolved.target : Resolved → Option (Slot × List J)
  | .fn slot a => some (slot, a)
  | .clsCall slot a => some (slot, a)
  | _ => none

theorem evStr_eq {ev : J} {s : Str} (h : evStr ev = some s) : ev = .str s := by
  cases ev <;> simp [evStr] at h
  rw [h]

theorem getD_disc {ev : J} (h : (evStr ev).getD [] = discName) : ev = .str discName := by
  cases he : evStr ev with
  | none => rw [he] at h; cases h
  | some s => rw [he] at h; simp at h; rw [← h]; exact evStr_eq he

/-- an event that is not named "disconnect" never resolves to the disconnect slot -/
theorem resolve_not_disc {reg : Registry} {ns : Ns} {ev : J} {args : List J} {r : Resolved}
    (h : resolve reg ns ev args = .ok r) (hev : ev ≠ .str discName) :
    ∀ slot a, r.target = some (slot, a) → isDiscSlot slot = false := by
  have hfn : ∀ n, isDiscSlot (.fn n ((evStr ev).getD [])) = false := by
    intro n
    rw [Bool.eq_false_iff]
    intro hc
    simp only [isDiscSlot, beq_iff_eq] at hc
    exact hev (getD_disc hc)
  have hstar : ∀ n, isDiscSlot (.fn n star) = false := fun n => by
    simp only [isDiscSlot, star, discName]; decide
  unfold resolve at h
  dsimp only at h
  split at h
  · cases h
  · rename_i h1
    cases h
    rcases ifchain h1 with rfl | rfl <;> intro slot a ht <;>
      simp only [Resolved.target, Option.some.injEq, Prod.mk.injEq] at ht <;>
      obtain ⟨rfl, _⟩ := ht
    · exact hfn _
    · exact hstar _
  · split at h
    · cases h
    · rename_i h1
      cases h
      rcases ifchain h1 with rfl | rfl <;> intro slot a ht <;>
        simp only [Resolved.target, Option.some.injEq, Prod.mk.injEq] at ht <;>
        obtain ⟨rfl, _⟩ := ht
      · exact hfn _
      · exact hstar _
    · split at h
      · cases h; intro slot a ht; cases ht
      · rename_i cns cargs _
        have hon : ∀ n, isDiscSlot (.cls n "on_".toList) = false := fun n => by
          simp only [isDiscSlot, discName]; decide
        have hm : ∀ n s, evStr ev = some s → isDiscSlot (.cls n ("on_".toList ++ s)) = false := by
          intro n s hs
          rw [Bool.eq_false_iff]
          intro hc
          simp only [isDiscSlot, beq_iff_eq] at hc
          have := List.append_cancel_left hc
          subst this
          exact hev (evStr_eq hs)
        repeat' split at h
        all_goals (cases h <;> intro slot a ht <;>
          simp only [Resolved.target, Option.some.injEq, Prod.mk.injEq, reduceCtorEq] at ht)
        all_goals (obtain ⟨rfl, _⟩ := ht)
        all_goals first
          | exact hon _
          | (rename_i s hs _; exact hm _ s hs)

end Sio.Server
