/-
  Helper lemmas for K6 (pub/sub): every operation, as far as the user callback `tok` is concerned.
-/
import Sio.Lemmas.PubSubTok
namespace Sio.PubSub
open Sio.Rooms

/-- what an operation on one host does to `tok` -/
structure TokFacts (tok : Nat) (k : Str) (i : Nat) (h : Host) (r : Res) : Prop where
  sub : UserSub tok r.h h
  id : r.h.id = h.id
  le : cbCount tok r.outs ≤ 1
  on : CbOn tok h.id r.outs
  gone : OneSlot tok h k i → cbCount tok r.outs = 1 → NoTokH tok r.h
  zero : NoTokH tok h → cbCount tok r.outs = 0

theorem TokFacts.quiet (tok : Nat) (k : Str) (i : Nat) (h : Host) (r : Res) (hs : UserSub tok r.h h)
    (hid : r.h.id = h.id) (h0 : cbCount tok r.outs = 0) : TokFacts tok k i h r :=
  ⟨hs, hid, by omega, CbOn.of_count_zero h0, fun _ hc => by omega, fun _ => h0⟩

/-- the state of `tok` in the cluster after an operation on host `hid` -/
theorem on_tok {home : Sid → HostId} (tok : Nat) (v : HostId) (k : Str) (i : Nat) (c : Cluster)
    (hrun : Running home c) (hid : HostId) (f : Host → Res)
    (hf0 : ∀ h ∈ c.hosts, h.id = hid → OneSlot tok h k i → TokFacts tok k i h (f h))
    (ht : TokAt tok v k i c.hosts) :
    TokAt tok v k i (c.on hid f).1.hosts ∧ cbCount tok (c.on hid f).2 ≤ 1 ∧
    CbOn tok v (c.on hid f).2 ∧
    (cbCount tok (c.on hid f).2 = 1 → TokNowhere tok (c.on hid f).1.hosts) ∧
    (TokNowhere tok c.hosts → cbCount tok (c.on hid f).2 = 0 ∧ TokNowhere tok (c.on hid f).1.hosts) := by
  have hslot : ∀ h ∈ c.hosts, OneSlot tok h k i := by
    intro h hh
    by_cases hv : h.id = v
    · exact (ht h hh).1 hv
    · exact ((ht h hh).2 hv).oneSlot k i
  have hf : ∀ h ∈ c.hosts, h.id = hid → TokFacts tok k i h (f h) := fun h hh he => hf0 h hh he (hslot h hh)
  have hhosts : (c.on hid f).1.hosts = c.hosts.map (fun h => if h.id = hid then (f h).h else h) := rfl
  have hkeep : ∀ P : Host → Host → Prop, (∀ h, P h h) →
      (∀ h ∈ c.hosts, h.id = hid → P (f h).h h) →
      ∀ h' ∈ (c.on hid f).1.hosts, ∃ h ∈ c.hosts, P h' h ∧ h'.id = h.id := by
    intro P hrefl hP h' hh'
    rw [hhosts] at hh'
    obtain ⟨h, hh, rfl⟩ := List.mem_map.mp hh'
    refine ⟨h, hh, ?_⟩
    split
    · rename_i he; exact ⟨hP h hh he, (hf h hh he).id⟩
    · exact ⟨hrefl h, rfl⟩
  have hsubs := hkeep (UserSub tok) (UserSub.refl tok) (fun h hh he => (hf h hh he).sub)
  have htokat : TokAt tok v k i (c.on hid f).1.hosts := by
    intro h' hh'
    obtain ⟨h, hh, hs, hi⟩ := hsubs h' hh'
    exact ⟨fun he => ((ht h hh).1 (hi ▸ he)).sub hs, fun hne => ((ht h hh).2 (hi ▸ hne)).sub hs⟩
  have hnowhere : TokNowhere tok c.hosts → TokNowhere tok (c.on hid f).1.hosts := by
    intro hno h' hh'
    obtain ⟨h, hh, hs, _⟩ := hsubs h' hh'
    exact (hno h hh).sub hs
  by_cases hex : hid ∈ c.hosts.map Host.id
  · obtain ⟨hv, hin, rfl⟩ := List.mem_map.mp hex
    have hout : (c.on hv.id f).2 = (f hv).outs := flatMap_if_id c.hosts hrun.ids hv hin _
    have F := hf hv hin rfl
    rw [hout]
    refine ⟨htokat, F.le, ?_, ?_, fun hno => ⟨F.zero (hno hv hin), hnowhere hno⟩⟩
    · by_cases hvv : hv.id = v
      · exact hvv ▸ F.on
      · exact CbOn.of_count_zero (F.zero ((ht hv hin).2 hvv))
    · intro hc
      have hvv : hv.id = v := by
        by_cases hvv : hv.id = v
        · exact hvv
        · have := F.zero ((ht hv hin).2 hvv); omega
      have hgone := F.gone ((ht hv hin).1 hvv) hc
      intro h' hh'
      rw [hhosts] at hh'
      obtain ⟨h, hh, rfl⟩ := List.mem_map.mp hh'
      split
      · rename_i he
        have : h = hv := eq_of_id_eq hrun.ids hh hin he
        subst this; exact hgone
      · rename_i hne
        exact (ht h hh).2 (fun he => hne (he.trans hvv.symm))
  · have hout : (c.on hid f).2 = [] := flatMap_if_none c.hosts hid hex _
    rw [hout]
    exact ⟨htokat, by simp [cbCount], CbOn.of_count_zero rfl, fun hc => by simp [cbCount] at hc,
      fun hno => ⟨rfl, hnowhere hno⟩⟩

theorem apiAck_tokFacts (tok : Nat) (k : Str) (i : Nat) (h : Host) (sid : Sid) (id : Nat) (args : List J) :
    TokFacts tok k i h (apiAck h sid id args) := by
  have he := trigger_err_none chainFuel h sid id args
  obtain ⟨t1, t2, t3, t4⟩ := trigger_tok tok chainFuel h sid id (some args)
  simp only [apiAck, he]
  refine ⟨t1, trigger_id _ _ _ _ _, t2, t3, ?_, ?_⟩
  · intro hs hc
    obtain ⟨k0, i0, hk1, hk2⟩ := t4 hc
    obtain ⟨rfl, rfl⟩ := hs k0 i0 hk1
    intro k' i' hx
    obtain ⟨rfl, rfl⟩ := hs k' i' (t1 k' i' hx)
    rw [hk2] at hx; cases hx
  · intro hn
    by_cases hc : cbCount tok (trigger chainFuel h sid id (some args)).outs = 1
    · obtain ⟨k0, i0, hk1, _⟩ := t4 hc
      exact absurd hk1 (hn k0 i0)
    · omega

/-- `emit` with a callback other than `tok` (or none) -/
theorem apiEmit_tokFacts (tok : Nat) (k : Str) (i : Nat) (h : Host) (srv : Bool) (ev : Str) (d : Data)
    (ns : Ns) (to : Target) (skip : Skip) (cb : Option Nat) (hok : Target.ok to) (hne : cb ≠ some tok) :
    TokFacts tok k i h (apiEmit h srv ev d ns to skip cb) ∧
    cbCount tok (apiEmit h srv ev d ns to skip cb).outs = 0 := by
  cases cb with
  | none =>
    rw [apiEmit_nocb h srv ev d ns to skip hok]
    have := emitLocal_userSub tok h ns to skip.toList (.str ev) d.pack none (by simp)
    exact ⟨TokFacts.quiet tok k i h _ this.1 (emitLocal_rooms h ns to _ _ _ none).2.1 this.2, this.2⟩
  | some t =>
    have htt : t ≠ tok := fun he => hne (by rw [he])
    cases srv with
    | false =>
      have : apiEmit h false ev d ns to skip (some t) = { h := h, outs := [.raised .other] } := by
        simp [apiEmit]
      rw [this]
      exact ⟨TokFacts.quiet tok k i h _ (UserSub.refl tok h) rfl rfl, rfl⟩
    | true =>
      by_cases hone : ∃ r, to = .one r
      · obtain ⟨r, rfl⟩ := hone
        rw [apiEmit_cb]
        have h1 := register_userSub tok h r (.user t) (by simpa using htt)
        have h2 := emitLocal_userSub tok (register h r (.user t)).1 ns (.one r) skip.toList (.str ev) d.pack
          (some (.relay (some h.id) r ns (h.ctr r + 1))) (by simp)
        have h3 := emitLocal_rooms (register h r (.user t)).1 ns (.one r) skip.toList (.str ev) d.pack
          (some (.relay (some h.id) r ns (h.ctr r + 1)))
        exact ⟨TokFacts.quiet tok k i h _ (h2.1.trans h1) h3.2.1 h2.2, h2.2⟩
      · obtain ⟨er, hbad⟩ := apiEmit_bad h ev d ns to skip t (fun r hr => hone ⟨r, hr⟩)
        rw [hbad]
        exact ⟨TokFacts.quiet tok k i h _ (UserSub.refl tok h) rfl rfl, rfl⟩

/-- the operation does not register the callback `tok` -/
def NotReg (tok : Nat) : Op → Prop
  | .emit _ _ _ _ _ _ cb => cb ≠ some tok
  | _ => True

section
variable {home : Sid → HostId}

theorem tok_step (tok : Nat) (v : HostId) (k : Str) (i : Nat) (c : Cluster) (hrun : Running home c)
    (op : Op) (hfine : OpFine home op) (hnr : NotReg tok op) (ht : TokAt tok v k i c.hosts) :
    TokAt tok v k i (step c op).1.hosts ∧ cbCount tok (step c op).2 ≤ 1 ∧ CbOn tok v (step c op).2 ∧
    (cbCount tok (step c op).2 = 1 → TokNowhere tok (step c op).1.hosts) ∧
    (TokNowhere tok c.hosts → cbCount tok (step c op).2 = 0 ∧ TokNowhere tok (step c op).1.hosts) := by
  have same : ∀ (h : Host) (r : Res), r.h.cbs = h.cbs → r.h.id = h.id → r.outs = [] → TokFacts tok k i h r :=
    fun h r h1 h2 h3 => TokFacts.quiet tok k i h r (fun k' i' hx => by rw [← h1]; exact hx) h2 (by rw [h3]; rfl)
  cases op with
  | connect hid ns eio sid =>
    exact on_tok tok v k i c hrun hid _ (fun h _ _ _ => same h _ rfl rfl rfl) ht
  | enter via ns sid room =>
    refine on_tok tok v k i c hrun via _ (fun h _ _ _ => ?_) ht
    unfold apiEnter; split
    · exact same h _ rfl rfl rfl
    · exact same h _ rfl rfl rfl
  | leave via ns sid room =>
    refine on_tok tok v k i c hrun via _ (fun h _ _ _ => ?_) ht
    unfold apiLeave; split
    · exact same h _ rfl rfl rfl
    · exact same h _ rfl rfl rfl
  | close via ns room =>
    exact on_tok tok v k i c hrun via _ (fun h _ _ _ => same h _ rfl rfl rfl) ht
  | disconnect via ns sid =>
    refine on_tok tok v k i c hrun via _ (fun h _ _ _ => ?_) ht
    unfold apiDisconnect; split
    · have := localDisconnect_tok tok h sid ns
      exact TokFacts.quiet tok k i h _ this.1 (localDisconnect_obs h sid ns).1 this.2
    · exact same h _ rfl rfl rfl
  | emit via ev d ns to skip cb =>
    cases via with
    | some w =>
      exact on_tok tok v k i c hrun w _ (fun h _ _ _ => (apiEmit_tokFacts tok k i h true ev d ns to skip cb hfine hnr).1) ht
    | none =>
      have h0 := (apiEmit_tokFacts tok k i c.wo false ev d ns to skip cb hfine hnr).2
      have hh : (step c (.emit none ev d ns to skip cb)).1.hosts = c.hosts := rfl
      have ho : (step c (.emit none ev d ns to skip cb)).2 = (apiEmit c.wo false ev d ns to skip cb).outs := rfl
      rw [hh, ho]
      exact ⟨ht, by omega, CbOn.of_count_zero h0, fun hc => by omega, fun hno => ⟨h0, hno⟩⟩
  | ack ns sid n args =>
    have hstep : step c (.ack ns sid n args) =
        (match c.hosts.find? (fun h => h.connected ns sid), nthAsked c.asked sid n with
          | some h, some i => c.on h.id (fun h => apiAck h sid i args)
          | _, _ => (c, [])) := rfl
    have hnoop : TokAt tok v k i c.hosts ∧ cbCount tok ([] : List Out) ≤ 1 ∧ CbOn tok v [] ∧
        (cbCount tok ([] : List Out) = 1 → TokNowhere tok c.hosts) ∧
        (TokNowhere tok c.hosts → cbCount tok ([] : List Out) = 0 ∧ TokNowhere tok c.hosts) :=
      ⟨ht, by simp [cbCount], CbOn.of_count_zero rfl, fun hc => by simp [cbCount] at hc, fun hno => ⟨rfl, hno⟩⟩
    rw [hstep]
    cases hfind : c.hosts.find? (fun h => h.connected ns sid) with
    | none => exact hnoop
    | some hv =>
      cases hnth : nthAsked c.asked sid n with
      | none => exact hnoop
      | some j => exact on_tok tok v k i c hrun hv.id _ (fun h _ _ _ => apiAck_tokFacts tok k i h sid j args) ht
  | deliver hid n =>
    refine on_tok tok v k i c hrun hid _ (fun h hh _ hs => ?_) ht
    have hinv := hrun.inv h hh
    have hid' : (deliverOn c.chan n h).h.id = h.id :=
      (catchUp_effect h hinv _ (hrun.chanOk.sub (fun m hm => List.mem_of_mem_drop (List.mem_of_mem_take hm)))).2.1
    obtain ⟨d1, d2, d3, d4, d5⟩ := deliverOn_tok tok c.chan n h hinv hrun.chanOk k i hs
    exact ⟨d1, hid', d2, d3, fun _ hc => d4 hc, d5⟩
  | drain =>
    have := drainHosts_tok tok v k i c.chan c.hosts hrun.inv hrun.cur hrun.chanOk hrun.ids ht
    exact this

end

/-- the emit that carries `tok` stores it in one slot of the issuing host, and invokes nothing -/
theorem tok_register {home : Sid → HostId} (tok : Nat) (c : Cluster) (hrun : Running home c) (w : HostId)
    (ev : Str) (d : Data) (ns : Ns) (to : Target) (skip : Skip) (hno : TokNowhere tok c.hosts) :
    ∃ k i, TokAt tok w k i (step c (.emit (some w) ev d ns to skip (some tok))).1.hosts ∧
      cbCount tok (step c (.emit (some w) ev d ns to skip (some tok))).2 = 0 := by
  have hhosts : (step c (.emit (some w) ev d ns to skip (some tok))).1.hosts =
      c.hosts.map (fun h => if h.id = w then (apiEmit h true ev d ns to skip (some tok)).h else h) := rfl
  have hsteps : (step c (.emit (some w) ev d ns to skip (some tok))).2 =
      c.hosts.flatMap (fun h => if h.id = w then (apiEmit h true ev d ns to skip (some tok)).outs else []) := rfl
  -- per host: the result and its outputs
  have key : ∀ h ∈ c.hosts, ∃ k i,
      OneSlot tok (apiEmit h true ev d ns to skip (some tok)).h k i ∧
      (apiEmit h true ev d ns to skip (some tok)).h.id = h.id ∧
      cbCount tok (apiEmit h true ev d ns to skip (some tok)).outs = 0 := by
    intro h hh
    by_cases hone : ∃ r, to = .one r
    · obtain ⟨r, rfl⟩ := hone
      refine ⟨r, h.ctr r + 1, ?_⟩
      rw [apiEmit_cb]
      have h2 := emitLocal_userSub tok (register h r (.user tok)).1 ns (.one r) skip.toList (.str ev) d.pack
        (some (.relay (some h.id) r ns (h.ctr r + 1))) (by simp)
      have h3 := emitLocal_rooms (register h r (.user tok)).1 ns (.one r) skip.toList (.str ev) d.pack
        (some (.relay (some h.id) r ns (h.ctr r + 1)))
      refine ⟨?_, h3.2.1, h2.2⟩
      intro k' i' hx
      have := h2.1 k' i' hx
      simp only [register] at this
      split at this
      · rename_i hc; exact hc
      · exact absurd this (hno h hh k' i')
    · obtain ⟨er, hbad⟩ := apiEmit_bad h ev d ns to skip tok (fun r hr => hone ⟨r, hr⟩)
      rw [hbad]
      exact ⟨[], 0, (hno h hh).oneSlot _ _, rfl, rfl⟩
  by_cases hex : w ∈ c.hosts.map Host.id
  · obtain ⟨hv, hin, rfl⟩ := List.mem_map.mp hex
    obtain ⟨k, i, hk1, hk2, hk3⟩ := key hv hin
    refine ⟨k, i, ?_, ?_⟩
    · rw [hhosts]
      intro h' hh'
      obtain ⟨h, hh, rfl⟩ := List.mem_map.mp hh'
      split
      · rename_i he
        have : h = hv := eq_of_id_eq hrun.ids hh hin he
        subst this
        exact ⟨fun _ => hk1, fun hne => absurd hk2 hne⟩
      · rename_i hne
        exact ⟨fun he => absurd he hne, fun _ => hno h hh⟩
    · rw [hsteps, flatMap_if_id c.hosts hrun.ids hv hin]; exact hk3
  · refine ⟨[], 0, ?_, ?_⟩
    · rw [hhosts]
      intro h' hh'
      obtain ⟨h, hh, rfl⟩ := List.mem_map.mp hh'
      have hne : h.id ≠ w := fun he => hex (he ▸ List.mem_map_of_mem hh)
      rw [if_neg hne]
      exact ⟨fun he => absurd he hne, fun _ => hno h hh⟩
    · rw [hsteps, flatMap_if_none c.hosts w hex]; rfl

end Sio.PubSub
